/-
  Dalek.Driver.Ops — the op dispatch table of PROTOCOL.md, answered from the specification.
-/
import Dalek.Spec.Ed25519
import Dalek.Spec.Montgomery
import Dalek.Spec.Ristretto
import Dalek.Model.FastEdwards
import Dalek.Model.Recode
import Dalek.Model.Serde
import Dalek.Model.Group
import Dalek.Driver.Codec
import Dalek.Driver.Fast
import Dalek.Driver.Raw
import Dalek.Driver.SelfTest
import Dalek.Model.ConstCheck
import Dalek.Driver.GenCheck

namespace Dalek.Driver
open Dalek.Spec Dalek.Model

def ok (fields : List String) : M Resp := pure (Resp.ok fields)

/-! ## Field -/

def pow2k (a : Nat) : Nat → Nat
  | 0 => a
  | k + 1 => pow2k (fsq a) k

def cond (c : Bool) (a b : Nat) : Nat := if c then b else a

def fieldOp (op : String) (args : List String) : M Resp := do
  match op, args with
  | "fe.roundtrip", [a] => ok [feOut (← feArg a)]
  | "fe.add", [a, b] => ok [feOut (fadd (← feArg a) (← feArg b))]
  | "fe.sub", [a, b] => ok [feOut (fsub (← feArg a) (← feArg b))]
  | "fe.mul", [a, b] => ok [feOut (fmul (← feArg a) (← feArg b))]
  | "fe.neg", [a] => ok [feOut (fneg (← feArg a))]
  | "fe.square", [a] => ok [feOut (fsq (← feArg a))]
  | "fe.square2", [a] => ok [feOut (fmul 2 (fsq (← feArg a)))]
  | "fe.invert", [a] => ok [feOut (finv (← feArg a))]
  | "fe.pow_p58", [a] => ok [feOut (fpow (← feArg a) ((P - 5) / 8))]
  | "fe.pow2k", [a, k] => do
    let a ← feArg a
    let k ← natRange 1 300 k
    ok [feOut (pow2k a k)]
  | "fe.pow22501", [a] => do
    let a ← feArg a
    ok [feOut (fpow a (2^250 - 1)), feOut (fpow a 11)]
  | "fe.sqrt_ratio_i", [u, v] => do
    let (c, r) := sqrtRatioM1 (← feArg u) (← feArg v)
    ok [fmtBool c, feOut r]
  | "fe.invsqrt", [v] => do
    let (c, r) := sqrtRatioM1 1 (← feArg v)
    ok [fmtBool c, feOut r]
  | "fe.batch_invert", [l] => do
    let xs ← (parseList l).mapM feArg
    ok [fmtList (xs.map fun x => feOut (finv x))]
  | "fe.is_negative", [a] => ok [fmtBool (isNeg (← feArg a))]
  | "fe.is_zero", [a] => ok [fmtBool ((← feArg a) == 0)]
  | "fe.ct_eq", [a, b] => ok [fmtBool ((← feArg a) == (← feArg b))]
  | "fe.cselect", [a, b, c] => ok [feOut (cond (← boolArg c) (← feArg a) (← feArg b))]
  | "fe.cswap", [a, b, c] => do
    let a ← feArg a; let b ← feArg b; let c ← boolArg c
    ok [feOut (cond c a b), feOut (cond c b a)]
  | "fe.cassign", [a, b, c] => ok [feOut (cond (← boolArg c) (← feArg a) (← feArg b))]
  | "fe.cnegate", [a, c] => do
    let a ← feArg a
    ok [feOut (if (← boolArg c) then fneg a else a)]
  | "fe.const", _ => pure Resp.skip
  | _, _ => badreq

/-! ## Vector field: lane-wise specification values -/

def lanes4 (args : List String) : M (List Nat) := args.mapM feArg

/-- a lane given as 5 raw radix-2^51 limbs (INT LIST): its value mod p -/
def limbLane (s : String) : M Nat := do
  let xs ← (parseList s).mapM natArg
  if xs.length != 5 || xs.any (· ≥ 2 ^ 64) then badreq
  pure (((List.range 5).zip xs).foldl (fun acc (i, x) => acc + x * 2 ^ (51 * i)) 0 % P)

/-- re-encode raw-limb lane arguments as canonical field bytes so that `vfeOp` can be reused -/
def limbLanesToHex (n : Nat) (args : List String) : M (List String) := do
  let lanes ← (args.take n).mapM limbLane
  pure (lanes.map feOut ++ args.drop n)

def shuffleIdx : Nat → Option (List Nat)
  | 0 => some [0, 0, 0, 0]  -- AAAA
  | 1 => some [1, 1, 1, 1]  -- BBBB
  | 2 => some [2, 0, 2, 0]  -- CACA
  | 3 => some [3, 1, 1, 3]  -- DBBD
  | 4 => some [0, 3, 3, 0]  -- ADDA
  | 5 => some [2, 1, 2, 1]  -- CBCB
  | 6 => some [0, 1, 0, 1]  -- ABAB
  | 7 => some [1, 0, 3, 2]  -- BADC
  | 8 => some [1, 0, 2, 3]  -- BACD
  | 9 => some [0, 1, 3, 2]  -- ABDC
  | _ => none

/-- Lanes taken from `other`. -/
def blendMask : Nat → Option (List Bool)
  | 0 => some [false, false, true, false]   -- C
  | 1 => some [false, false, false, true]   -- D
  | 2 => some [true, true, false, false]    -- AB
  | 3 => some [true, false, true, false]    -- AC
  | 4 => some [false, false, true, true]    -- CD
  | 5 => some [true, false, false, true]    -- AD
  | 6 => some [false, true, true, false]    -- BC
  | 7 => some [true, true, true, true]      -- ABCD
  | 8 => some [false, true, true, true]     -- BCD
  | _ => none

def zipWith4 (f : Nat → Nat → Nat) (x y : List Nat) : List String :=
  (List.zipWith f x y).map feOut

def vfeOp (arch name : String) (args : List String) : M Resp := do
  if arch != "avx2" && arch != "ifma" then badreq
  match name, args.length with
  | "roundtrip", 4 | "reduce", 4 => ok ((← lanes4 args).map feOut)
  | "neg", 4 | "negate_lazy", 4 => ok ((← lanes4 args).map fun a => feOut (fneg a))
  | "mul", 8 => do
    let v ← lanes4 args
    ok (zipWith4 fmul (v.take 4) (v.drop 4))
  | "mul_negate_lazy", 8 => do
    -- `(&x * &y).negate_lazy()`: the unreduced product fed straight into negate_lazy (as the point formulas do)
    let v ← lanes4 args
    ok (zipWith4 (fun a b => fneg (fmul a b)) (v.take 4) (v.drop 4))
  | "mul_diff_sum", 8 => do
    let v ← lanes4 args
    match List.zipWith fmul (v.take 4) (v.drop 4) with
    | [a, b, c, d] => ok [feOut (fsub b a), feOut (fadd a b), feOut (fsub d c), feOut (fadd c d)]
    | _ => badreq
  | "add", 8 => do
    let v ← lanes4 args
    ok (zipWith4 fadd (v.take 4) (v.drop 4))
  | "sub", 8 => do
    let v ← lanes4 args
    ok (zipWith4 fsub (v.take 4) (v.drop 4))
  | "square", 4 => do
    let v ← lanes4 args
    match v with
    | [a, b, c, d] =>
      -- avx2: `square_and_negate_D`; ifma: `square`
      ok [feOut (fsq a), feOut (fsq b), feOut (fsq c),
          feOut (if arch == "avx2" then fneg (fsq d) else fsq d)]
    | _ => badreq
  | "diff_sum", 4 => do
    match (← lanes4 args) with
    | [a, b, c, d] => ok [feOut (fsub b a), feOut (fadd a b), feOut (fsub d c), feOut (fadd c d)]
    | _ => badreq
  | "shuffle", 5 => do
    let v ← lanes4 (args.take 4)
    let ctl ← natArg (args.getD 4 "")
    match shuffleIdx ctl with
    | some idx => ok (idx.map fun i => feOut (v.getD i 0))
    | none => badreq
  | "blend", 9 => do
    let v ← lanes4 (args.take 8)
    let ctl ← natArg (args.getD 8 "")
    -- the ifma `Lanes` enum has no CD, BC, ABCD; BCD exists only there: the Rust driver skips
    if (arch == "ifma" && (ctl == 4 || ctl == 6 || ctl == 7)) || (arch == "avx2" && ctl == 8) then
      return Resp.skip
    match blendMask ctl with
    | some mask =>
      ok ((List.range 4).map fun i =>
        feOut (if mask.getD i false then v.getD (4 + i) 0 else v.getD i 0))
    | none => badreq
  | "mul_consts", 8 => do
    let v ← lanes4 (args.take 4)
    let ks ← (args.drop 4).mapM (natRange 0 (2^32 - 1))
    ok (zipWith4 fmul v ks)
  | "cselect", 9 => do
    let v ← lanes4 (args.take 8)
    let c ← boolArg (args.getD 8 "")
    ok (((if c then v.drop 4 else v.take 4)).map feOut)
  | _, _ => badreq

/-! ## Scalars -/

def scListArg (l : String) : M (List Nat) := (parseList l).mapM scArg

def scalarOp (op : String) (args : List String) : M Resp := do
  match op, args with
  | "sc.reduce", [b] => ok [scOut (← scArg b)]
  | "sc.reduce_wide", [b] => ok [scOut (leToNat (← bytesN 64 b))]
  | "sc.canonical", [b] => do
    let b ← bytesN 32 b
    if isCanonicalScalar b then ok [hexEncode b] else pure Resp.none
  | "sc.add", [a, b] => ok [scOut (sadd (← scArg a) (← scArg b))]
  | "sc.sub", [a, b] => ok [scOut (ssub (← scArg a) (← scArg b))]
  | "sc.mul", [a, b] => ok [scOut (smul (← scArg a) (← scArg b))]
  | "sc.neg", [a] => ok [scOut (sneg (← scArg a))]
  | "sc.invert", [a] => ok [scOut (sinv (← scArg a))]
  | "sc.batch_invert", [l] => do
    let xs ← scListArg l
    let prod := sprod xs
    -- a zero input makes the real (release) code return all zeros; generators do not send it
    if prod == 0 then ok [scOut 0, fmtList (xs.map fun _ => scOut 0)]
    else ok [scOut (sinv prod), fmtList (xs.map fun x => scOut (sinv x))]
  | "sc.sum", [l] => ok [scOut (ssum (← scListArg l))]
  | "sc.product", [l] => ok [scOut (sprod (← scListArg l))]
  | "sc.from_u", [bits, v] => do
    let bits ← natArg bits
    let v ← natArg v
    if !(bits == 8 || bits == 16 || bits == 32 || bits == 64 || bits == 128) then badreq
    if v ≥ 2^bits then badreq
    ok [hexEncode (natToLe v 32)]
  | "sc.from_hash", [m] => ok [scOut (leToNat (sha512 (← hexArg m)))]
  | "sc.clamp", [b] => ok [hexEncode (clampInteger (← bytesN 32 b))]
  | "sc.radix16_raw", [s] => ok [fmtIntList (Recode.asRadix16 (← rawScBytes s))]
  | "sc.radix2w_raw", [s, w] => do
    let s ← rawScBytes s
    let w ← natRange 4 8 w
    ok [fmtIntList (Recode.asRadix2w s w), toString (Recode.toRadix2wSizeHint w)]
  | "sc.naf_raw", [s, w] => do
    let s ← rawScBytes s
    let w ← natRange 2 8 w
    ok [fmtIntList (Recode.nonAdjacentForm s w)]
  | "sc.bits_le_raw", [s] => do
    let s ← rawScBytes s
    ok [hexEncode ((Recode.bitsLe s).map fun b => if b then 1 else 0)]
  | _, _ => badreq

/-! ## Register machine (`ed.seq`, `ed.coords`, `ris.seq`) -/

inductive Reg
  | pt (p : EPt)
  | bool (b : Bool)

def regPt (regs : Array Reg) (s : String) : M EPt := do
  let i ← natArg s
  match regs[i]? with
  | some (.pt p) => pure p
  | _ => badreq

def splitArgs (s : String) : List String := s.splitOn ","

/-- One instruction.  `ris` selects the Ristretto dialect. -/
def execInstr (ris : Bool) (regs : Array Reg) (instr : String) : M Reg := do
  match instr.toList with
  | [] => badreq
  | c :: rest =>
    let a := String.ofList rest
    let parts := splitArgs a
    let pt (p : EPt) : M Reg := pure (Reg.pt p)
    let noArgs : M Unit := if rest.isEmpty then pure () else badreq
    match c, parts with
    | 'D', [h] => do
      let b ← bytesN 32 h
      match (if ris then risDecode b else EPt.decompress b) with
      | some p => pt p
      | none => throw Resp.none
    | 'I', _ => do noArgs; pt EPt.zero
    | 'G', _ => do noArgs; pt EPt.basepoint
    | 'T', [i] => do
      if ris then badreq
      pt (EPt.torsion (← natRange 0 7 i))
    | 'H', [h] => do
      if !ris then badreq
      pt (risFromUniform (← bytesN 64 h))
    | 'Q', [i, j] => do
      if !ris then badreq
      pt (EPt.add (← regPt regs i) (EPt.torsion (2 * (← natRange 0 3 j))))
    | 'A', [i, j] => pt (EPt.add (← regPt regs i) (← regPt regs j))
    | 'S', [i, j] => pt (EPt.sub (← regPt regs i) (← regPt regs j))
    | 'N', [i] => pt (EPt.neg (← regPt regs i))
    | 'B', [i] => do
      if ris then badreq
      pt (EPt.double (← regPt regs i))
    | 'M', [i, h] => pt (EPt.smul (← scArg h) (← regPt regs i))
    | 'R', [i, h] => do
      if ris then badreq
      pt (EPt.smul (← rawScArg h) (← regPt regs i))
    | 'C', [i] => do
      if ris then badreq
      pt (EPt.mulByPow2 3 (← regPt regs i))
    | 'P', [i, k] => do
      if ris then badreq
      pt (EPt.mulByPow2 (← natRange 1 512 k) (← regPt regs i))
    | 'U', _ => do
      let ps ← (if rest.isEmpty then [] else parts).mapM (regPt regs)
      pt (EPt.sum ps)
    | 'K', [i, j, c] | 'J', [i, j, c] | 'W', [i, j, c] => do
      -- conditional_select(a, b, c) / a.conditional_assign(b, c) / first component after conditional_swap
      let p ← regPt regs i
      let q ← regPt regs j
      pt (if (← natRange 0 1 c) == 1 then q else p)
    | 'Y', [i, j, c] => do
      -- second component after conditional_swap
      let p ← regPt regs i
      let q ← regPt regs j
      pt (if (← natRange 0 1 c) == 1 then p else q)
    | 'L', [i, c] => do
      let p ← regPt regs i
      pt (if (← natRange 0 1 c) == 1 then EPt.neg p else p)
    | 'E', [i, j] => do
      let p ← regPt regs i
      let q ← regPt regs j
      pure (Reg.bool (if ris then risEq p q else EPt.eq p q))
    | 'Z', [i] => do
      let p ← regPt regs i
      pure (Reg.bool (if ris then risEq p EPt.zero else EPt.isIdentity p))
    | 'O', [i] => do
      if ris then badreq
      pure (Reg.bool (EPt.isSmallOrder (← regPt regs i)))
    | 'F', [i] => do
      if ris then badreq
      pure (Reg.bool (EPt.isTorsionFree (← regPt regs i)))
    | 'V', [i] => do
      if ris then badreq
      let _ ← regPt regs i
      pure (Reg.bool true)
    | _, _ => badreq

def runProgram (ris : Bool) (prog : String) : M (Array Reg) :=
  (prog.splitOn ";").foldlM (fun regs instr => do return regs.push (← execInstr ris regs instr)) #[]

def seqOp (ris : Bool) (prog : String) : M Resp := do
  let regs ← runProgram ris prog
  ok (regs.toList.map fun
    | .pt p => if ris then risOut p else ptOut p
    | .bool b => fmtBool b)

def coordsOp (prog : String) : M Resp := do
  let regs ← runProgram false prog
  if regs.any (fun | .bool _ => true | .pt _ => false) then badreq
  match regs.back? with
  | some (.pt p) =>
    let q := p.toAffine
    ok [feOut q.x, feOut q.y]
  | _ => badreq

/-! ## Multiscalar multiplication -/

/-- A LIST of points; `~` items become `none` (only if `allowAbsent`). -/
def optPointList (ris allowAbsent : Bool) (l : String) : M (List (Option EPt)) := do
  -- syntax first (badreq), then decoding (badpoint)
  let raw ← (parseList l).mapM fun s =>
    if s == "~" then (if allowAbsent then pure none else badreq)
    else do return some (← bytesN 32 s)
  raw.mapM fun
    | none => pure none
    | some b =>
      match (if ris then risDecode b else EPt.decompress b) with
      | some p => pure (some p)
      | none => throw Resp.badpoint

def allSome {α} : List (Option α) → Option (List α)
  | [] => some []
  | none :: _ => none
  | some x :: xs => (allSome xs).map (x :: ·)

def outPt (ris : Bool) (p : EPt) : String := if ris then risOut p else ptOut p

/-- `Σ sᵢ Pᵢ`; `allowAbsent` = the `optional_*` flavour. -/
def msmOp (ris allowAbsent raw : Bool) (scalars points : String) : M Resp := do
  let scItems := parseList scalars
  let scSyntax ← scItems.mapM (bytesN 32)        -- hex errors first
  let pts ← optPointList ris allowAbsent points
  let ss ← if raw then scItems.mapM rawScArg else pure (scSyntax.map fun b => leToNat b % L)
  if ss.length != pts.length then badreq
  match allSome pts with
  | none => pure Resp.none
  | some ps => ok [outPt ris (EPt.msm ss ps)]

/-- `VartimePrecomputedMultiscalarMul`: static scalars may be fewer than static points. -/
def msmPreOp (ris allowAbsent : Bool) (ss sp ds dp : String) : M Resp := do
  let ssB ← (parseList ss).mapM (bytesN 32)
  let dsB ← (parseList ds).mapM (bytesN 32)
  let sps ← optPointList ris false sp
  let dps ← optPointList ris allowAbsent dp
  let ssN := ssB.map fun b => leToNat b % L
  let dsN := dsB.map fun b => leToNat b % L
  if ssN.length > sps.length || dsN.length != dps.length then badreq
  match allSome sps, allSome dps with
  | some sps, some dps => ok [outPt ris (EPt.add (EPt.msm ssN sps) (EPt.msm dsN dps))]
  | _, _ => pure Resp.none

/-! ## Edwards -/

/-- Decode a point from already syntax-checked bytes. -/
def decodePt (ris : Bool) (b : List UInt8) : M EPt :=
  match (if ris then risDecode b else EPt.decompress b) with
  | some p => pure p
  | none => throw Resp.badpoint

def rawNat (b : List UInt8) : M Nat := if signBit b then badreq else pure (leToNat b)

def doubleBase (ris raw : Bool) (a A b : String) : M Resp := do
  -- hex/length errors first, then point decoding, then the raw-scalar range check
  let a ← bytesN 32 a
  let Ab ← bytesN 32 A
  let b ← bytesN 32 b
  let P ← decodePt ris Ab
  let a ← if raw then rawNat a else pure (leToNat a % L)
  let b ← if raw then rawNat b else pure (leToNat b % L)
  ok [outPt ris (EPt.add (EPt.smul a P) (mulBaseFast b))]

def selectOp (P x : String) : M Resp := do
  let Pb ← bytesN 32 P
  let x ← intArg x
  let P ← decodePt false Pb
  if x < -8 || x > 8 then badreq
  let q := EPt.smul x.natAbs P
  ok [ptOut (if x < 0 then EPt.neg q else q)]

def tableOp (raw : Bool) (radix P s : String) : M Resp := do
  let radix ← natArg radix
  let Pb ← bytesN 32 P
  let sb ← bytesN 32 s
  let Pp ← decodePt false Pb
  if !(radix == 16 || radix == 32 || radix == 64 || radix == 128 || radix == 256) then badreq
  let s ← if raw then rawNat sb else pure (leToNat sb % L)
  ok [ptOut (EPt.smul s Pp), ptOut Pp]

def nonspecMapOfDigest (h : List UInt8) : Option EPt :=
  let res := h.take 32
  let sign := signBit res
  let u := elligatorEncode (feFromBytes res)
  (toEdwards u sign).map fun p => EPt.mulByPow2 3 (EPt.ofAffine p)

def nonspecMap (msg : List UInt8) : Option EPt :=
  let h := sha512 msg
  let res := h.take 32
  let sign := signBit res
  let u := elligatorEncode (feFromBytes res)
  (toEdwards u sign).map fun p => EPt.mulByPow2 3 (EPt.ofAffine p)

def edwardsOp (op : String) (args : List String) : M Resp := do
  match op, args with
  | "ed.seq", [prog] => seqOp false prog
  | "ed.coords", [prog] => coordsOp prog
  | "ed.decompress", [b] => do
    match decompress (← bytesN 32 b) with
    | some p => ok [hexEncode (compress p), feOut p.x, feOut p.y]
    | none => pure Resp.none
  | "ed.mul_base", [s] => ok [ptOut (mulBaseFast (← scArg s))]
  | "ed.mul_base_raw", [s] => ok [ptOut (mulBaseFast (← rawScArg s))]
  | "ed.basepoint_table", [s] => ok [ptOut (mulBaseFast (← scArg s))]
  | "ed.mul_base_clamped", [b] => ok [ptOut (mulBaseFast (clampedNat (← bytesN 32 b)))]
  | "ed.mul_clamped", [P, b] => do
    let Pb ← bytesN 32 P
    let b ← bytesN 32 b
    ok [ptOut (EPt.smul (clampedNat b) (← decodePt false Pb))]
  | "ed.mul_raw", [P, s] => do
    let Pb ← bytesN 32 P
    let sb ← bytesN 32 s
    let P ← decodePt false Pb
    ok [ptOut (EPt.smul (← rawNat sb) P)]
  | "ed.to_montgomery", [P] => ok [feOut (toMontgomery (← ptArg P).toAffine)]
  | "ed.table", [r, P, s] => tableOp false r P s
  | "ed.table_raw", [r, P, s] => tableOp true r P s
  | "ed.double_base", [a, A, b] => doubleBase false false a A b
  | "ed.double_base_raw", [a, A, b] => doubleBase false true a A b
  | "ed.msm_ct", [s, p] => msmOp false false false s p
  | "ed.msm_vt", [s, p] => msmOp false false false s p
  | "ed.msm_opt", [s, p] => msmOp false true false s p
  | "ed.msm_pre", [a, b, c, d] => msmPreOp false false a b c d
  | "ed.msm_pre_opt", [a, b, c, d] => msmPreOp false true a b c d
  | "ed.select", [P, x] => selectOp P x
  | "ed.select_affine", [P, x] => selectOp P x
  | "ed.nonspec_map", [m] => do
    match nonspecMap (← hexArg m) with
    | some p => ok [ptOut p]
    | none => pure Resp.none     -- unreachable: Elligator2 always lands on the curve
  | "ed.nonspec_map_raw", [d] => do
    -- `nonspec_map_to_curve::<D>` with a pass-through "digest" D whose 64-byte output is the given bytes
    match nonspecMapOfDigest (← bytesN 64 d) with
    | some p => ok [ptOut p]
    | none => pure Resp.none
  | "ed.from_slice", [b] => do
    let b ← hexArg b
    if b.length == 32 then ok [hexEncode b] else pure Resp.err
  | "ed.compress", [P] => ok [ptOut (← ptArg P)]
  | "ed.from_coords", [X, Y, Z, T] => do
    -- Rust-only helper: `compress()` and `is_valid()` of the point with these raw coordinates
    let p : EPt := ⟨← feArg X, ← feArg Y, ← feArg Z, ← feArg T⟩
    let xx := fsq p.X; let yy := fsq p.Y; let zz := fsq p.Z
    let onCurve := fmul (fsub yy xx) zz == fadd (fsq zz) (fmul D (fmul xx yy))
    let onSegre := fmul p.X p.Y == fmul p.Z p.T
    ok [ptOut p, fmtBool (onCurve && onSegre)]
  | _, _ => badreq

/-- `ed.direct.<copy>.<alg>`: answered exactly as the corresponding non-direct op. -/
def directOp (copy alg : String) (args : List String) : M Resp := do
  if !(copy == "serial" || copy == "avx2" || copy == "ifma") then badreq
  match alg, args with
  | "mul", [P, s] => edwardsOp "ed.mul_raw" [P, s]
  | "double_base", [a, A, b] => doubleBase false false a A b
  | "double_base_raw", [a, A, b] => doubleBase false true a A b
  | "straus_ct", [s, p] => msmOp false false false s p
  | "straus_vt", [s, p] => msmOp false true false s p
  | "pippenger", [s, p] => msmOp false true false s p
  | "pre", [a, b, c, d] => msmPreOp false true a b c d
  | "double", [P] => ok [ptOut (EPt.double (← ptArg P))]
  | "add", [P, Q] => do
    let Pb ← bytesN 32 P; let Qb ← bytesN 32 Q
    ok [ptOut (EPt.add (← decodePt false Pb) (← decodePt false Qb))]
  | "sub", [P, Q] => do
    let Pb ← bytesN 32 P; let Qb ← bytesN 32 Q
    ok [ptOut (EPt.sub (← decodePt false Pb) (← decodePt false Qb))]
  | _, _ => badreq

/-! ## Montgomery / X25519 -/

def bitArg (s : String) : M (List Bool) := do
  (← hexArg s).mapM fun b => if b == 0 then pure false else if b == 1 then pure true else badreq

def xDh (k their : String) : M Resp := do
  let k ← bytesN 32 k
  let their ← bytesN 32 their
  let pub := feToBytes (toMontgomery (mulBaseFast (clampedNat k)).toAffine)
  let shared := x25519 k their
  ok [hexEncode pub, hexEncode shared, fmtBool (leToNat shared != 0)]

def montOp (op : String) (args : List String) : M Resp := do
  match op, args with
  | "mont.mul", [u, s] => do
    let u ← bytesN 32 u
    ok [hexEncode (montMul u (natToLe (← scArg s) 32))]
  | "mont.mul_raw", [u, s] => do
    let u ← bytesN 32 u
    ok [hexEncode (montMul u (← rawScBytes s))]
  | "mont.mul_clamped", [u, b] => do
    let u ← bytesN 32 u
    ok [hexEncode (montMul u (clampInteger (← bytesN 32 b)))]
  | "mont.mul_base", [s] => ok [feOut (toMontgomery (mulBaseFast (← scArg s)).toAffine)]
  | "mont.mul_base_clamped", [b] =>
    ok [feOut (toMontgomery (mulBaseFast (clampedNat (← bytesN 32 b))).toAffine)]
  | "mont.mul_bits_be", [u, bits] => do
    let u ← feArg u
    ok [feOut (ladderBitsBE u (← bitArg bits))]
  | "mont.to_edwards", [u, sign] => do
    let u ← feArg u
    match toEdwards u (← boolArg sign) with
    | some p => ok [hexEncode (compress p)]
    | none => pure Resp.none
  | "mont.eq", [a, b] => ok [fmtBool ((← feArg a) == (← feArg b))]
  | "mont.hash", [u] =>
    -- `<[u8; 32] as Hash>::hash` = `write_length_prefix(32)` (8 bytes, LE on x86-64) ++ the bytes
    ok [hexEncode (natToLe 32 8 ++ feToBytes (← feArg u))]
  | "mont.elligator", [r] => ok [feOut (elligatorEncode (← feArg r))]
  | "x.x25519", [k, u] => ok [hexEncode (x25519 (← bytesN 32 k) (← bytesN 32 u))]
  | "x.static", [k, t] => xDh k t
  | "x.reusable", [k, t] => xDh k t
  | "x.ephemeral", [k, t] => xDh k t
  | "x.pubkey_bytes", [b] => ok [hexEncode (← bytesN 32 b)]
  | _, _ => badreq

/-! ## Ristretto -/

def ristrettoOp (op : String) (args : List String) : M Resp := do
  match op, args with
  | "ris.seq", [prog] => seqOp true prog
  | "ris.decompress", [b] => do
    match risDecode (← bytesN 32 b) with
    | some p => ok [risOut p]
    | none => pure Resp.none
  | "ris.from_uniform", [b] => ok [risOut (risFromUniform (← bytesN 64 b))]
  | "ris.elligator", [r] => ok [risOut (risMap (← feArg r))]
  | "ris.double_compress_batch", [l] => do
    let ps ← optPointList true false l
    ok [fmtList (ps.map fun p => risOut (EPt.double (p.getD EPt.zero)))]
  | "ris.double_compress_batch_rep", [l] => do
    -- items `ENC:j`: the representative index j (0..3) does not change the group element
    let items := parseList l
    let encs ← items.mapM fun s =>
      match s.splitOn ":" with
      | [e, j] => if j == "0" || j == "1" || j == "2" || j == "3" then pure e else badreq
      | _ => badreq
    let ps ← optPointList true false (if encs.isEmpty then "-" else ",".intercalate encs)
    ok [fmtList (ps.map fun p => risOut (EPt.double (p.getD EPt.zero)))]
  | "ris.msm_ct", [s, p] => msmOp true false false s p
  | "ris.msm_vt", [s, p] => msmOp true false false s p
  | "ris.msm_opt", [s, p] => msmOp true true false s p
  | "ris.msm_pre", [a, b, c, d] => msmPreOp true true a b c d
  | "ris.mul_base", [s] => ok [risOut (mulBaseFast (← scArg s))]
  | "ris.table", [s] => ok [risOut (mulBaseFast (← scArg s))]
  | "ris.double_base", [a, A, b] => doubleBase true false a A b
  | "ris.from_slice", [b] => do
    let b ← hexArg b
    if b.length == 32 then ok [hexEncode b] else pure Resp.err
  | "ris.compress", [P] => ok [risOut (← risArg P)]
  | "ris.from_hash", [m] => ok [risOut (risFromUniform (sha512 (← hexArg m)))]
  | _, _ => badreq

/-! ## Ed25519 -/

/-- ctx argument: `~` = `None`, `-` = `Some(empty)`. -/
def ctxArg (s : String) : M (Option (List UInt8)) :=
  if s == "~" then pure none else do return some (← hexArg s)

def okOrErr (b : Bool) : M Resp := pure (if b then Resp.ok [] else Resp.err)

/-- the tag of the second context digest of the harness, `TaggedSha512` -/
def altTag : List UInt8 := "alt".toUTF8.toList

def ed25519Op (legacy : Bool) (op : String) (args : List String) : M Resp := do
  let ops := fastOps
  match op, args with
  | "eds.keygen", [seed] => ok [hexEncode (Ed25519.publicKeyWith ops (← bytesN 32 seed))]
  | "eds.to_scalar_bytes", [seed] => ok [hexEncode ((sha512 (← bytesN 32 seed)).take 32)]
  | "eds.to_scalar", [seed] => ok [scOut (Ed25519.expandSeed (← bytesN 32 seed)).1]
  | "eds.expand", [seed] => do
    let (a, pre) := Ed25519.expandSeed (← bytesN 32 seed)
    ok [scOut a, hexEncode pre]
  | "eds.sign", [seed, msg] =>
    ok [hexEncode (Ed25519.signWith ops (← bytesN 32 seed) (← hexArg msg))]
  | "eds.sign_ph", [seed, msg, ctx] => do
    match Ed25519.signPhWith ops (← bytesN 32 seed) (← hexArg msg) (← ctxArg ctx) with
    | some sig => ok [hexEncode sig]
    | none => pure Resp.err
  | "eds.sign_ctx", [seed, msg, ctx] => do
    -- `with_context(ctx)` (error if longer than 255) then `sign_digest` of SHA-512(msg):
    -- the same bytes as `sign_prehashed(.., Some(ctx))`
    if ctx == "~" then badreq
    match Ed25519.signPhWith ops (← bytesN 32 seed) (← hexArg msg) (some (← hexArg ctx)) with
    | some sig => ok [hexEncode sig]
    | none => pure Resp.err
  -- hazmat functions with the context digest `H'(m) = SHA-512("alt" ‖ m)`: since every challenge / nonce hash of the specification is
  -- `H(dom ‖ …)`, instantiating `H'` is the specification with the domain prefix `"alt" ‖ dom`
  | "eds.raw_sign_alt", [esk, msg, vk] => do
    let esk ← bytesN 64 esk
    let msg ← hexArg msg
    let vk ← bytesN 32 vk
    if (decompress vk).isNone then return Resp.err
    let (a, pre) := Ed25519.expandedFromBytes esk
    ok [hexEncode (Ed25519.rawSignWith ops altTag a pre msg vk)]
  | "eds.raw_verify_alt", [vk, msg, sig] =>
    okOrErr (Ed25519.verifyCoreWith ops legacy false altTag (← bytesN 32 vk) (← hexArg msg) (← bytesN 64 sig))
  | "eds.raw_sign_ph_alt", [esk, msg, vk, ctx] => do
    let esk ← bytesN 64 esk
    let msg ← hexArg msg
    let vk ← bytesN 32 vk
    let c := (← ctxArg ctx).getD []
    if (decompress vk).isNone then return Resp.err
    if c.length > 255 then return Resp.err
    let (a, pre) := Ed25519.expandedFromBytes esk
    ok [hexEncode (Ed25519.rawSignWith ops (altTag ++ Ed25519.dom2 1 c) a pre (sha512 msg) vk)]
  | "eds.raw_verify_ph_alt", [vk, msg, ctx, sig] => do
    let c := (← ctxArg ctx).getD []
    if c.length > 255 then return Resp.err
    okOrErr (Ed25519.verifyCoreWith ops legacy false (altTag ++ Ed25519.dom2 1 c) (← bytesN 32 vk) (sha512 (← hexArg msg))
      (← bytesN 64 sig))
  | "eds.raw_sign", [esk, msg, vk] => do
    let esk ← bytesN 64 esk
    let msg ← hexArg msg
    let vk ← bytesN 32 vk
    if (decompress vk).isNone then return Resp.err
    let (a, pre) := Ed25519.expandedFromBytes esk
    ok [hexEncode (Ed25519.rawSignWith ops [] a pre msg vk)]
  | "eds.from_keypair", [b] => do
    let b ← bytesN 64 b
    let vk := b.drop 32
    if (decompress vk).isNone then return Resp.err
    if Ed25519.publicKeyWith ops (b.take 32) == vk then ok [hexEncode vk] else pure Resp.err
  | "eds.vk", [b] | "eds.vk_slice", [b] => do
    let b ← bytesN 32 b
    match decompress b with
    | some p => ok [hexEncode b, fmtBool (ops.smallOrder p)]
    | none => pure Resp.err
  | "eds.sig", [b] => do
    -- `Signature::from_slice` only (the `InternalSignature` check is not reachable from outside
    -- the crate; it is exercised through `eds.verify*`)
    let b ← hexArg b
    if b.length == 64 then ok [hexEncode b] else pure Resp.err
  | "eds.verify", [vk, msg, sig] | "eds.verify_slice", [vk, msg, sig] =>
    okOrErr (Ed25519.verifyWith ops legacy false (← bytesN 32 vk) (← hexArg msg) (← bytesN 64 sig))
  | "eds.verify_strict", [vk, msg, sig] | "eds.verify_strict_slice", [vk, msg, sig] =>
    okOrErr (Ed25519.verifyWith ops legacy true (← bytesN 32 vk) (← hexArg msg) (← bytesN 64 sig))
  | "eds.verify_ph", [vk, msg, ctx, sig] =>
    okOrErr (Ed25519.verifyPhWith ops legacy false (← bytesN 32 vk) (← hexArg msg) (← ctxArg ctx)
      (← bytesN 64 sig))
  | "eds.verify_ph_strict", [vk, msg, ctx, sig] =>
    okOrErr (Ed25519.verifyPhWith ops legacy true (← bytesN 32 vk) (← hexArg msg) (← ctxArg ctx)
      (← bytesN 64 sig))
  | "eds.vk_to_montgomery", [vk] => do
    match decompress (← bytesN 32 vk) with
    | some p => ok [feOut (toMontgomery p)]
    | none => pure Resp.err
  | "eds.batch", [msgs, sigs, vks] => do
    let msgs ← (parseList msgs).mapM hexArg
    let sigs ← (parseList sigs).mapM (bytesN 64)
    let vks ← (parseList vks).mapM (bytesN 32)
    okOrErr (Ed25519.verifyBatchWith ops legacy msgs sigs vks)
  | "eds.batch_transcript", [msgs, sigs, vks] => do
    let msgs ← (parseList msgs).mapM hexArg
    let sigs ← (parseList sigs).mapM (bytesN 64)
    let vks ← (parseList vks).mapM (bytesN 32)
    -- the driver has to build the `VerifyingKey`s before it can call `verify_batch`
    if vks.any fun v => (decompress v).isNone then return Resp.err
    let log := Ed25519.batchTranscript msgs sigs vks
    ok [fmtBool (Ed25519.verifyBatchWith ops legacy msgs sigs vks),
        fmtList (log.map fun (l, m) => hexEncode l ++ ":" ++ hexEncode m)]
  | _, _ => badreq

/-! ## serde, group -/

def serdeOp (fmt dir ty : String) (args : List String) : M Resp := do
  let some ty := Serde.Ty.ofString ty | badreq
  let [h] := args | badreq
  let input ← hexArg h
  match fmt, dir with
  | "bincode", "ser" | "json", "ser" => do
    if input.length != ty.len then badreq
    match Serde.validate ty input with
    | none =>
      -- the native value cannot be built
      match ty with
      | .scalar => badreq
      | _ => throw Resp.badpoint
    | some native =>
      ok [hexEncode (if fmt == "json" then Serde.jsonSer ty native else Serde.bincodeSer ty native)]
  | "bincode", "de" | "json", "de" => do
    match (if fmt == "json" then Serde.jsonDe ty input else Serde.bincodeDe ty input) with
    | .ok native => ok [hexEncode native]
    | .err => pure Resp.err
    | .skip => pure Resp.skip
  | _, _ => badreq

def optScOut : Option Nat → M Resp
  | some r => ok [scOut r]
  | none => pure Resp.none

def optPtOut (p : Option EPt) : M Resp :=
  match p with
  | some p => ok [ptOut p]
  | none => pure Resp.none

def groupOp (op : String) (args : List String) : M Resp := do
  match op, args with
  | "grp.sqrt", [s] => optScOut (Group.sqrt (← scArg s))
  | "grp.invert", [s] => optScOut (Group.invert (← scArg s))
  | "grp.from_repr", [b] => optScOut (Group.fromRepr (← bytesN 32 b))
  | "grp.from_repr_vt", [b] => optScOut (Group.fromRepr (← bytesN 32 b))
  | "grp.consts", [] =>
    ok [Group.MODULUS_HEX, scOut Group.TWO_INV, scOut Group.MULTIPLICATIVE_GENERATOR,
        toString Group.S, scOut Group.ROOT_OF_UNITY, scOut Group.ROOT_OF_UNITY_INV,
        scOut Group.DELTA, toString Group.NUM_BITS, toString Group.CAPACITY]
  | "grp.ed_from_bytes", [b] => optPtOut (EPt.decompress (← bytesN 32 b))
  | "grp.ed_from_bytes_unchecked", [b] => optPtOut (EPt.decompress (← bytesN 32 b))
  | "grp.sub_from_bytes", [b] => do
    match EPt.decompress (← bytesN 32 b) with
    | some p => optPtOut (if EPt.isTorsionFree p then some p else none)
    | none => pure Resp.none
  | "grp.ris_from_bytes", [b] => do
    match risDecode (← bytesN 32 b) with
    | some p => ok [risOut p]
    | none => pure Resp.none
  | "grp.into_subgroup", [P] => do
    let p ← ptArg P
    optPtOut (if EPt.isTorsionFree p then some p else none)
  | "grp.ed_group", [P] => do
    let p ← ptArg P
    ok [fmtBool (EPt.compress p == EPt.compress EPt.zero), ptOut (EPt.double p), ptOut EPt.zero, ptOut EPt.basepoint]
  | "grp.sub_group", [P] => do
    let p ← ptArg P
    if EPt.isTorsionFree p then
      ok [fmtBool (EPt.compress p == EPt.compress EPt.zero), ptOut (EPt.double p), ptOut EPt.zero, ptOut EPt.basepoint]
    else pure Resp.none
  | "grp.ris_group", [R, j] => do
    let j ← natArg j
    if j > 3 then badreq
    match risDecode (← bytesN 32 R) with
    | some p => ok [fmtBool (risEncode p == risEncode EPt.zero), risOut (EPt.double p), risOut EPt.zero, risOut EPt.basepoint,
        fmtBool true, risOut p, risOut p]
    | none => pure Resp.none
  | "grp.clear_cofactor", [P] => ok [ptOut (EPt.mulByPow2 3 (← ptArg P))]
  | "grp.is_torsion_free", [P] => ok [fmtBool (EPt.isTorsionFree (← ptArg P))]
  | "grp.from_uniform", [b] => ok [scOut (leToNat (← bytesN 64 b))]
  | "grp.sqrt_ratio", [a, b] => do
    let (c, r) := Group.sqrtRatio (← scArg a) (← scArg b)
    ok [fmtBool c, scOut r]
  | _, _ => badreq

/-! ## Dispatch -/

def isRawFamily (fam : String) : Bool :=
  fam == "fel51" || fam == "fel26" || fam == "felv51" || fam == "felv26" || fam == "felF51" || fam == "felF26" ||
  fam == "scl52" || fam == "scl29"

def handleOp (legacy : Bool) (op : String) (args : List String) : M Resp := do
  match op.splitOn "." with
  | ["selftest"] => do
    let (n, failed) := SelfTest.run ()
    if failed.isEmpty then ok [toString n] else pure (Resp.errMsg (",".intercalate failed))
  | ["const", "report"] =>
    -- names of the constant/table checks (Dalek.Model.ConstCheck, over the REGENERATED literals) that fail, and failing table entries
    let failed := Dalek.Model.ConstCheck.failedChecks
    let tabs := Dalek.Model.ConstCheck.tableFailures.filter (fun t => !t.2.isEmpty)
    let tabStr := tabs.map (fun t => t.1 ++ "=" ++ "/".intercalate (t.2.map (fun ij => s!"{ij.1}:{ij.2}")))
    ok [if failed.isEmpty then "-" else ",".intercalate failed, if tabStr.isEmpty then "-" else ",".intercalate tabStr]
  | "fe" :: _ => fieldOp op args
  | ["vfe", arch, name] => vfeOp arch name args
  | ["vfel", arch, name] =>
    -- same operations on lanes given as raw (possibly unreduced) limbs: value-level specification
    let nl := if name == "mul" || name == "add" || name == "sub" || name == "blend" || name == "mul_negate_lazy" || name == "mul_diff_sum" then 8 else 4
    if args.length < nl then badreq else
    vfeOp arch name (← limbLanesToHex nl args)
  | ["ed", "mul_raw_limbs"] | ["ed", "direct", _, "mul_limbs"] =>
    match args with
    | [X, Y, Z, T, sc] => do
      let x ← limbLane X; let y ← limbLane Y; let z ← limbLane Z; let t ← limbLane T
      let p : EPt := ⟨x, y, z, t⟩
      ok [ptOut (EPt.smul (← rawScArg sc) p)]
    | _ => badreq
  | "sc" :: _ => scalarOp op args
  | ["ed", "direct", copy, alg] => directOp copy alg args
  | "ed" :: _ => edwardsOp op args
  | "mont" :: _ | "x" :: _ => montOp op args
  | "ris" :: _ => ristrettoOp op args
  | "eds" :: _ => ed25519Op legacy op args
  | ["serde", fmt, dir, ty] => serdeOp fmt dir ty args
  | "grp" :: _ => groupOp op args
  | _ => badreq

/-- Answer one request line. -/
def handleLine (legacy : Bool) (line : String) : String :=
  match line.splitOn " " with
  | [] => Resp.badreq.toString
  | op :: args =>
    match op.splitOn "." with
    | fam :: _ :: _ =>
      if isRawFamily fam then
        match Raw.rawOp op args with
        | some r => r
        | none => Resp.skip.toString
      else
        match handleOp legacy op args with
        | .ok r => GenCheck.reconcile op args r.toString
        | .error r => r.toString
    | _ =>
      match handleOp legacy op args with
      | .ok r => r.toString
      | .error r => r.toString

end Dalek.Driver

/-
Leak-instrumented HAND MODELS of the loop / selection level of curve25519-dalek, ed25519-dalek and x25519-dalek
(property C10).  Mathlib-free.

Every function here returns a `Leaky α = (value, trace)`: the value the Rust function computes together with the
list of `Dalek.IR.LeakEvent`s a control-flow / address observer sees:

* `branch b`   for every `if` / `match` / `while` condition / `assert!` evaluated on run-time data;
* `index i`    for every array access written with an index expression `a[i]` (also those whose `i` is a loop
               counter: that the index is public is a theorem, not a modelling decision); sequential iterator
               walks (`iter().zip(..)`) are covered by the `loopLen` of their loop;
* `loopLen n`  for every `for` loop over a range or an iterator;
* `call name`  for every callee whose own leakage is accounted for elsewhere: the table `callees` at the end of
               this file says for each name whether it is a TRANSLATED item (then its trace is constant by
               `limb_leak_const` / `alg_leak_const`) or an ASSUMPTION (SHA-512, `subtle` primitives, SIMD point
               formulas: not translated; covered only by the runtime trace comparison);
* the opcode traces of translated items where the model executes them (`runLimb`, `runAlg`).

The models are transcriptions BY HAND of the Rust sources named in each doc comment; they are NOT produced by the
translator.  Where an un-instrumented model of the same function already exists (`Dalek.Model.Recode`,
`Dalek.Model.Ladder`) the value component is proved equal to it, so that the differential correspondence run of
that model against the Rust drivers also covers the instrumented one.  The others (table selection, the scalar
multiplication loops, batch inversion, signing) are tied to the code by structure only.

Fixed-size Rust arrays `[u8; 32]`, `[T; 8]` are modelled by `arr n l d` (`l` truncated / padded to length `n`):
the array length is part of the TYPE, hence public.  Slices / iterators keep their length, which is the public
part of such an input ("only input lengths and public values may influence either sequence").
-/
import Dalek.IR.Leak
import Dalek.Gen.All
import Dalek.Model.Recode
import Dalek.Model.Ladder

namespace Dalek.Model.LeakModels
open Dalek.IR

/-! ## The instrumentation monad -/

structure Leaky (α : Type) where
  value : α
  trace : Leak

instance : Monad Leaky where
  pure a := ⟨a, []⟩
  bind x f := ⟨(f x.value).value, x.trace ++ (f x.value).trace⟩

@[simp] theorem pure_value {α : Type} (a : α) : (pure a : Leaky α).value = a := rfl
@[simp] theorem pure_trace {α : Type} (a : α) : (pure a : Leaky α).trace = [] := rfl
@[simp] theorem bind_value {α β : Type} (x : Leaky α) (f : α → Leaky β) :
    (x >>= f).value = (f x.value).value := rfl
@[simp] theorem bind_trace {α β : Type} (x : Leaky α) (f : α → Leaky β) :
    (x >>= f).trace = x.trace ++ (f x.value).trace := rfl

/-- emit one event -/
def tick (e : LeakEvent) : Leaky Unit := ⟨(), [e]⟩
/-- emit a list of events -/
def emit (t : Leak) : Leaky Unit := ⟨(), t⟩
/-- `a[i]` (read) -/
def readAt {α : Type} (xs : List α) (i : Nat) (d : α) : Leaky α := ⟨xs.getD i d, [.index i]⟩
/-- `a[i] = x` -/
def writeAt {α : Type} (xs : List α) (i : Nat) (x : α) : Leaky (List α) := ⟨xs.set i x, [.index i]⟩
/-- a condition that is JUMPED on -/
def branchOn (b : Bool) : Leaky Bool := ⟨b, [.branch b]⟩
/-- a callee accounted for in `callees` -/
def call {α : Type} (name : String) (v : α) : Leaky α := ⟨v, [.call name]⟩
/-- execute a translated LimbIR kernel (release semantics) and record its leakage -/
def runLimb (p : Prog) (ins : List Nat) : Leaky (List Nat) := ⟨p.evalW ins, p.leakW ins⟩
/-- execute a translated AlgIR item and record its leakage -/
def runAlg {V : Type} (o : FOps V) (p : AProg) (ins : List V) : Leaky (List V) := ⟨p.run o ins, p.leak o ins⟩

@[simp] theorem tick_trace (e : LeakEvent) : (tick e).trace = [e] := rfl
@[simp] theorem emit_trace (t : Leak) : (emit t).trace = t := rfl
@[simp] theorem readAt_trace {α : Type} (xs : List α) (i : Nat) (d : α) : (readAt xs i d).trace = [.index i] := rfl
@[simp] theorem readAt_value {α : Type} (xs : List α) (i : Nat) (d : α) : (readAt xs i d).value = xs.getD i d := rfl
@[simp] theorem writeAt_trace {α : Type} (xs : List α) (i : Nat) (x : α) : (writeAt xs i x).trace = [.index i] := rfl
@[simp] theorem writeAt_value {α : Type} (xs : List α) (i : Nat) (x : α) : (writeAt xs i x).value = xs.set i x := rfl
@[simp] theorem branchOn_trace (b : Bool) : (branchOn b).trace = [.branch b] := rfl
@[simp] theorem branchOn_value (b : Bool) : (branchOn b).value = b := rfl
@[simp] theorem call_trace {α : Type} (n : String) (v : α) : (call n v).trace = [.call n] := rfl
@[simp] theorem call_value {α : Type} (n : String) (v : α) : (call n v).value = v := rfl
@[simp] theorem runLimb_trace (p : Prog) (ins : List Nat) : (runLimb p ins).trace = p.ops := p.leakW_eq_ops ins
@[simp] theorem runLimb_value (p : Prog) (ins : List Nat) : (runLimb p ins).value = p.evalW ins := rfl
@[simp] theorem runAlg_trace {V : Type} (o : FOps V) (p : AProg) (ins : List V) :
    (runAlg o p ins).trace = p.ops := p.leak_eq_ops o ins
@[simp] theorem runAlg_value {V : Type} (o : FOps V) (p : AProg) (ins : List V) :
    (runAlg o p ins).value = p.run o ins := rfl

/-- a fixed-size array `[T; n]`: `l` truncated / padded with `d` to length exactly `n` -/
def arr {α : Type} (n : Nat) (l : List α) (d : α) : List α := (List.range n).map (fun i => l.getD i d)

@[simp] theorem arr_length {α : Type} (n : Nat) (l : List α) (d : α) : (arr n l d).length = n := by
  simp [arr]

theorem arr_eq {α : Type} (n : Nat) (l : List α) (d : α) (h : l.length = n) : arr n l d = l := by
  apply List.ext_getElem
  · simp [h]
  · intro i h1 h2
    simp [arr, List.getD_eq_getElem?_getD, List.getElem?_eq_getElem h2]

/-- `for x in xs { s = body(s, x) }` without the trip-count event -/
def foldL {ι σ : Type} (body : σ → ι → Leaky σ) : σ → List ι → Leaky σ
  | s, [] => pure s
  | s, x :: xs => body s x >>= fun s' => foldL body s' xs

/-- `for x in xs { s = body(s, x) }`: reveals the trip count, then what the iterations reveal -/
def forL {ι σ : Type} (xs : List ι) (init : σ) (body : σ → ι → Leaky σ) : Leaky σ :=
  tick (.loopLen xs.length) >>= fun _ => foldL body init xs

/-- If what an iteration reveals is a function `t` of the loop item only, the loop reveals `xs.flatMap t`. -/
theorem foldL_trace {ι σ : Type} (body : σ → ι → Leaky σ) (t : ι → Leak)
    (h : ∀ s i, (body s i).trace = t i) (xs : List ι) (s : σ) :
    (foldL body s xs).trace = xs.flatMap t := by
  induction xs generalizing s with
  | nil => rfl
  | cons x xs ih => simp [foldL, h, ih]

theorem forL_trace {ι σ : Type} (body : σ → ι → Leaky σ) (t : ι → Leak)
    (h : ∀ s i, (body s i).trace = t i) (xs : List ι) (s : σ) :
    (forL xs s body).trace = .loopLen xs.length :: xs.flatMap t := by
  simp [forL, foldL_trace body t h]

/-- a constant per-iteration trace repeated: depends on the LENGTH of the list only -/
def rep (n : Nat) (c : Leak) : Leak := (List.replicate n c).flatten

theorem flatMap_const {ι : Type} (xs : List ι) (c : Leak) : xs.flatMap (fun _ => c) = rep xs.length c := by
  induction xs with
  | nil => rfl
  | cons x xs ih => simp [rep, List.replicate_succ] at *; exact ih

/-- If every iteration reveals the same `c`, the loop reveals its trip count and `c` that many times. -/
theorem forL_trace_const {ι σ : Type} (body : σ → ι → Leaky σ) (c : Leak)
    (h : ∀ s i, (body s i).trace = c) (xs : List ι) (s : σ) :
    (forL xs s body).trace = .loopLen xs.length :: rep xs.length c := by
  rw [forL_trace body (fun _ => c) h, flatMap_const]


/-! ## `LookupTable::select` (curve25519-dalek/src/window.rs:54-76) and the variable-time `NafLookupTable5::select` -/

/-- what `select` needs from the entry type: `T: Identity + ConditionallySelectable + ConditionallyNegatable` -/
structure CtOps (T : Type) where
  identity : T
  /-- `t.conditional_assign(&e, c)` -/
  condAssign : T → T → Bool → T
  /-- `t.conditional_negate(c)` -/
  condNegate : T → Bool → T

/-- `LookupTable::<T>::select(&self, x: i8)` for a table of `size` entries (8 for radix 16; 16, 32, 64, 128 for the
other radices generated by the same macro).

```
let xmask = x as i16 >> 7;  let xabs = (x as i16 + xmask) ^ xmask;          // |x|, branch-free
let mut t = T::identity();
for j in 1..size+1 { let c = (xabs as u16).ct_eq(&(j as u16)); t.conditional_assign(&self.0[j - 1], c); }
let neg_mask = Choice::from((xmask & 1) as u8);  t.conditional_negate(neg_mask);
```
The table is read at `j - 1` for EVERY `j` of the loop; `x` only enters `ct_eq` and the masks. -/
def lookupSelect {T : Type} (ops : CtOps T) (size : Nat) (table : List T) (x : Int) : Leaky T := do
  let xabs : Nat := x.natAbs
  let t0 ← call "Identity::identity" ops.identity
  let t ← forL (List.range' 1 size) t0 (fun t j => do
    let c ← call "subtle::u16::ct_eq" (xabs == j)
    let e ← readAt table (j - 1) ops.identity
    call "ConditionallySelectable::conditional_assign" (ops.condAssign t e c))
  call "ConditionallyNegatable::conditional_negate" (ops.condNegate t (decide (x < 0)))

/-- what one iteration `j` of the scan reveals -/
def selectIterTrace (j : Nat) : Leak :=
  [.call "subtle::u16::ct_eq", .index (j - 1), .call "ConditionallySelectable::conditional_assign"]

/-- the trace of `select`: a function of the table SIZE only -/
def selectTrace (size : Nat) : Leak :=
  [.call "Identity::identity", .loopLen size] ++ (List.range' 1 size).flatMap selectIterTrace
    ++ [.call "ConditionallyNegatable::conditional_negate"]

@[simp] theorem lookupSelect_trace {T : Type} (ops : CtOps T) (size : Nat) (table : List T) (x : Int) :
    (lookupSelect ops size table x).trace = selectTrace size := by
  simp only [lookupSelect, bind_trace, call_trace, call_value]
  rw [forL_trace _ selectIterTrace (by intro s i; rfl)]
  simp [selectTrace]

/-- `NafLookupTable5::select(&self, x: usize)` = `self.0[x / 2]` (window.rs:187): a direct index.  VARIABLE TIME. -/
def nafSelect {T : Type} (table : List T) (x : Nat) (d : T) : Leaky T := readAt table (x / 2) d

/-! ## Scalar recodings (curve25519-dalek/src/scalar.rs) — instrumented twins of `Dalek.Model.Recode` -/

open Dalek.Model.Recode

/-- step 1 of `as_radix_16`: `for i in 0..32 { output[2*i] = bot_half(self[i]); output[2*i+1] = top_half(self[i]) }` -/
def nibblesL : Nat → List UInt8 → Leaky (List Int)
  | _, [] => pure []
  | i, b :: bs => do
    emit [.index i, .index (2 * i), .index i, .index (2 * i + 1)]
    let r ← nibblesL (i + 1) bs
    pure (Int.ofNat (b.toNat &&& 15) :: Int.ofNat ((b.toNat >>> 4) &&& 15) :: r)

/-- step 2: `for i in 0..63 { carry = (output[i] + 8) >> 4; output[i] -= carry << 4; output[i+1] += carry }` -/
def recenter16L : Nat → Int → List Int → Leaky (List Int)
  | _, _, [] => pure []
  | _, c, [x] => pure [toI8 (x + c)]
  | i, c, x :: y :: xs => do
    emit [.index i, .index i, .index (i + 1)]
    let v := x + c
    let carry := (v + 8) / 16
    let r ← recenter16L (i + 1) carry (y :: xs)
    pure (toI8 (v - carry * 16) :: r)

/-- `Scalar::as_radix_16` (scalar.rs:985): no branch at all; both loops have literal bounds. -/
def asRadix16L (bytes : List UInt8) : Leaky (List Int) := do
  let bs := arr 32 bytes 0
  tick (.loopLen 32)
  let n ← nibblesL 0 bs
  tick (.loopLen 63)
  recenter16L 0 0 n

def nibblesTrace : Nat → Nat → Leak
  | _, 0 => []
  | i, n + 1 => [.index i, .index (2 * i), .index i, .index (2 * i + 1)] ++ nibblesTrace (i + 1) n

def recenterTrace : Nat → Nat → Leak
  | _, 0 => []
  | _, 1 => []
  | i, n + 2 => [.index i, .index i, .index (i + 1)] ++ recenterTrace (i + 1) (n + 1)

theorem nibblesL_trace (i : Nat) (bs : List UInt8) : (nibblesL i bs).trace = nibblesTrace i bs.length := by
  induction bs generalizing i with
  | nil => rfl
  | cons b bs ih => simp [nibblesL, nibblesTrace, ih]

theorem nibblesL_value (i : Nat) (bs : List UInt8) : (nibblesL i bs).value = nibbles bs := by
  induction bs generalizing i with
  | nil => rfl
  | cons b bs ih => simp [nibblesL, nibbles, ih]

theorem nibbles_length (bs : List UInt8) : (nibbles bs).length = 2 * bs.length := by
  induction bs with
  | nil => rfl
  | cons b bs ih => simp [nibbles, ih]; omega

theorem recenter16L_trace (i : Nat) (c : Int) (xs : List Int) :
    (recenter16L i c xs).trace = recenterTrace i xs.length := by
  induction xs generalizing i c with
  | nil => rfl
  | cons x xs ih =>
    cases xs with
    | nil => rfl
    | cons y ys => simp [recenter16L, recenterTrace, ih]

theorem recenter16L_value (i : Nat) (c : Int) (xs : List Int) : (recenter16L i c xs).value = recenter16 c xs := by
  induction xs generalizing i c with
  | nil => rfl
  | cons x xs ih =>
    cases xs with
    | nil => rfl
    | cons y ys => simp [recenter16L, recenter16, ih]

/-- the (input-independent) trace of `as_radix_16` -/
def radix16Trace : Leak := .loopLen 32 :: nibblesTrace 0 32 ++ .loopLen 63 :: recenterTrace 0 64

@[simp] theorem asRadix16L_trace (bytes : List UInt8) : (asRadix16L bytes).trace = radix16Trace := by
  simp [asRadix16L, nibblesL_trace, recenter16L_trace, nibblesL_value, nibbles_length, radix16Trace]

/-- the instrumented model computes `Dalek.Model.Recode.asRadix16` (of the 32-byte array) -/
theorem asRadix16L_value (bytes : List UInt8) : (asRadix16L bytes).value = asRadix16 (arr 32 bytes 0) := by
  simp [asRadix16L, asRadix16, nibblesL_value, recenter16L_value]

theorem asRadix16L_value' (bytes : List UInt8) (h : bytes.length = 32) :
    (asRadix16L bytes).value = asRadix16 bytes := by
  rw [asRadix16L_value, arr_eq _ _ _ h]

/-- the `for i in 0..digits_count` loop of `as_radix_2w` (scalar.rs:1078-1099).  The only `if` is
`bit_idx < 64 - w || u64_idx == 3`, a function of the loop counter `i` and of `w`. -/
def radix2wLoopL (w : Nat) (x : List Nat) : Nat → Nat → Nat → Leaky (List Int × Nat)
  | 0, _, carry => pure ([], carry)
  | n + 1, i, carry => do
    let radix := 1 <<< w
    let windowMask := radix - 1
    let bitOffset := i * w
    let u64Idx := bitOffset / 64
    let bitIdx := bitOffset % 64
    let single ← branchOn (bitIdx < 64 - w || u64Idx == 3)
    emit (if single then [.index u64Idx] else [.index u64Idx, .index (1 + u64Idx)])
    let buf := bitBuf x u64Idx bitIdx single
    let coef := carry + (buf &&& windowMask)
    let carry' := (coef + radix / 2) >>> w
    let digit := toI8 (Int.ofNat coef - Int.ofNat (carry' <<< w))
    tick (.index i)
    let r ← radix2wLoopL w x n (i + 1) carry'
    pure (digit :: r.1, r.2)

def radix2wLoopTrace (w : Nat) : Nat → Nat → Leak
  | 0, _ => []
  | n + 1, i =>
    let u64Idx := i * w / 64
    let bitIdx := i * w % 64
    let single := (bitIdx < 64 - w || u64Idx == 3)
    [.branch single] ++ (if single then [.index u64Idx] else [.index u64Idx, .index (1 + u64Idx)]) ++ [.index i]
      ++ radix2wLoopTrace w n (i + 1)

theorem radix2wLoopL_trace (w : Nat) (x : List Nat) (n i carry : Nat) :
    (radix2wLoopL w x n i carry).trace = radix2wLoopTrace w n i := by
  induction n generalizing i carry with
  | zero => rfl
  | succ n ih => simp [radix2wLoopL, radix2wLoopTrace, ih]

theorem radix2wLoopL_value (w : Nat) (x : List Nat) (n i carry : Nat) :
    (radix2wLoopL w x n i carry).value = radix2wLoop w x n i carry := by
  induction n generalizing i carry with
  | zero => rfl
  | succ n ih => simp [radix2wLoopL, radix2wLoop, ih]

/-- `Scalar::as_radix_2w(w)` (scalar.rs:1059): branches on `w == 4`, on the loop-counter condition above and on
`match w { 8 => …, _ => … }` — all PUBLIC (`w` is the radix of the basepoint table / Pippenger window). -/
def asRadix2wL (bytes : List UInt8) (w : Nat) : Leaky (List Int) := do
  let is16 ← branchOn (w == 4)
  if is16 then asRadix16L bytes
  else do
    let bs := arr 32 bytes 0
    let x ← call "read_le_u64_into" (readLeU64 4 bs)
    let digitsCount := (256 + w - 1) / w
    tick (.loopLen digitsCount)
    let r ← radix2wLoopL w x digitsCount 0 0
    let digits := r.1 ++ List.replicate (64 - digitsCount) 0
    let is8 ← branchOn (w == 8)
    if is8 then do
      tick (.index digitsCount)
      pure (digits.set digitsCount (toI8 (digits.getD digitsCount 0 + toI8 (Int.ofNat r.2))))
    else do
      tick (.index (digitsCount - 1))
      pure (digits.set (digitsCount - 1) (toI8 (digits.getD (digitsCount - 1) 0 + toI8 (Int.ofNat (r.2 <<< w)))))

/-- the trace of `as_radix_2w`: a function of `w` only -/
def radix2wTrace (w : Nat) : Leak :=
  .branch (w == 4) ::
    (if w == 4 then radix16Trace
     else [.call "read_le_u64_into", .loopLen ((256 + w - 1) / w)] ++ radix2wLoopTrace w ((256 + w - 1) / w) 0
        ++ [.branch (w == 8), .index (if w == 8 then (256 + w - 1) / w else (256 + w - 1) / w - 1)])

@[simp] theorem asRadix2wL_trace (bytes : List UInt8) (w : Nat) : (asRadix2wL bytes w).trace = radix2wTrace w := by
  unfold asRadix2wL radix2wTrace
  by_cases h4 : (w == 4) = true
  · simp [h4]
  · by_cases h8 : (w == 8) = true
    · simp [h4, h8, radix2wLoopL_trace]
    · simp [h4, h8, radix2wLoopL_trace]

theorem asRadix2wL_value (bytes : List UInt8) (w : Nat) :
    (asRadix2wL bytes w).value = asRadix2w (arr 32 bytes 0) w := by
  unfold asRadix2wL asRadix2w
  by_cases h4 : (w == 4) = true
  · simp [h4, asRadix16L_value]
  · by_cases h8 : (w == 8) = true
    · simp [h4, h8, radix2wLoopL_value]
    · simp [h4, h8, radix2wLoopL_value]

theorem asRadix2wL_value' (bytes : List UInt8) (w : Nat) (h : bytes.length = 32) :
    (asRadix2wL bytes w).value = asRadix2w bytes w := by
  rw [asRadix2wL_value, arr_eq _ _ _ h]

/-- the `while pos < 256` loop of `non_adjacent_form` (scalar.rs:936-970).  VARIABLE TIME: the loop condition, the
parity test `window & 1 == 0`, the test `window < width/2` and the store index `naf[pos]` all depend on the scalar. -/
def nafLoopL (w : Nat) (x : List Nat) : Nat → Nat → Nat → List Int → Leaky (List Int)
  | 0, _, _, naf => pure naf
  | fuel + 1, pos, carry, naf => do
    let go ← branchOn (decide (pos < 256))
    if !go then pure naf
    else do
      let width := 1 <<< w
      let windowMask := width - 1
      let u64Idx := pos / 64
      let bitIdx := pos % 64
      let single ← branchOn (decide (bitIdx < 64 - w))
      emit (if single then [.index u64Idx] else [.index u64Idx, .index (1 + u64Idx)])
      let buf := bitBuf x u64Idx bitIdx single
      let window := carry + (buf &&& windowMask)
      let even ← branchOn (window &&& 1 == 0)
      if even then nafLoopL w x fuel (pos + 1) carry naf
      else do
        let low ← branchOn (decide (window < width / 2))
        tick (.index pos)
        if low then nafLoopL w x fuel (pos + w) 0 (naf.set pos (toI8 window))
        else nafLoopL w x fuel (pos + w) 1 (naf.set pos (toI8 (toI8 window - toI8 width)))

/-- `Scalar::non_adjacent_form(w)` (scalar.rs:921).  VARIABLE TIME (used only by the `vartime_*` functions). -/
def nonAdjacentFormL (bytes : List UInt8) (w : Nat) : Leaky (List Int) := do
  let bs := arr 32 bytes 0
  let x4 ← call "read_le_u64_into" (readLeU64 4 bs)
  nafLoopL w (x4 ++ [0]) 256 0 0 (List.replicate 256 0)

theorem nafLoopL_value (w : Nat) (x : List Nat) (fuel pos carry : Nat) (naf : List Int) :
    (nafLoopL w x fuel pos carry naf).value = nafLoop w x fuel pos carry naf := by
  induction fuel generalizing pos carry naf with
  | zero => rfl
  | succ fuel ih =>
    unfold nafLoopL nafLoop
    by_cases hp : pos < 256
    · have hp' : ¬ pos ≥ 256 := by omega
      simp only [bind_value, branchOn_value, hp, hp', decide_true, Bool.not_true, Bool.false_eq_true, if_false]
      by_cases he : ((carry + (bitBuf x (pos / 64) (pos % 64) (decide (pos % 64 < 64 - w)) &&& 1 <<< w - 1)) &&& 1 == 0) = true
      · simp only [he, ↓reduceIte, ih]
      · by_cases hl : (carry + (bitBuf x (pos / 64) (pos % 64) (decide (pos % 64 < 64 - w)) &&& 1 <<< w - 1)) < 1 <<< w / 2
        · simp only [he, hl, decide_true, bind_value, branchOn_value, ↓reduceIte, ih, Bool.false_eq_true]
        · simp only [he, hl, decide_false, bind_value, branchOn_value, ↓reduceIte, ih, Bool.false_eq_true]
    · have hp' : pos ≥ 256 := by omega
      simp [hp, hp']

theorem nonAdjacentFormL_value (bytes : List UInt8) (w : Nat) :
    (nonAdjacentFormL bytes w).value = nonAdjacentForm (arr 32 bytes 0) w := by
  simp only [nonAdjacentFormL, nonAdjacentForm, bind_value, call_value, nafLoopL_value]


/-! ## more loop combinators -/

/-- `xs.iter().map(f).collect::<Vec<_>>()` -/
def mapL {ι β : Type} (f : ι → Leaky β) : List ι → Leaky (List β)
  | [] => pure []
  | x :: xs => f x >>= fun y => mapL f xs >>= fun ys => pure (y :: ys)

theorem mapL_trace {ι β : Type} (f : ι → Leaky β) (t : ι → Leak) (h : ∀ i, (f i).trace = t i) (xs : List ι) :
    (mapL f xs).trace = xs.flatMap t := by
  induction xs with
  | nil => rfl
  | cons x xs ih => simp [mapL, h, ih]

theorem mapL_trace_const {ι β : Type} (f : ι → Leaky β) (c : Leak) (h : ∀ i, (f i).trace = c) (xs : List ι) :
    (mapL f xs).trace = rep xs.length c := by
  rw [mapL_trace f (fun _ => c) h, flatMap_const]

theorem mapL_value {ι β : Type} (f : ι → Leaky β) (xs : List ι) :
    (mapL f xs).value = xs.map (fun i => (f i).value) := by
  induction xs with
  | nil => rfl
  | cons x xs ih => simp [mapL, ih]

@[simp] theorem mapL_value_length {ι β : Type} (f : ι → Leaky β) (xs : List ι) :
    (mapL f xs).value.length = xs.length := by
  simp [mapL_value]

theorem foldL_value {ι σ : Type} (body : σ → ι → Leaky σ) (g : σ → ι → σ)
    (h : ∀ s i, (body s i).value = g s i) (xs : List ι) (s : σ) :
    (foldL body s xs).value = xs.foldl g s := by
  induction xs generalizing s with
  | nil => rfl
  | cons x xs ih => simp [foldL, h, ih]

theorem forL_value {ι σ : Type} (body : σ → ι → Leaky σ) (g : σ → ι → σ)
    (h : ∀ s i, (body s i).value = g s i) (xs : List ι) (s : σ) :
    (forL xs s body).value = xs.foldl g s := by
  simp [forL, foldL_value body g h]

/-- loop invariant on the value component -/
theorem foldL_inv {ι σ : Type} (body : σ → ι → Leaky σ) (Inv : σ → Prop)
    (h : ∀ s i, Inv s → Inv (body s i).value) (xs : List ι) (s : σ) (h0 : Inv s) :
    Inv (foldL body s xs).value := by
  induction xs generalizing s with
  | nil => exact h0
  | cons x xs ih => exact ih _ (h s x h0)

theorem forL_inv {ι σ : Type} (body : σ → ι → Leaky σ) (Inv : σ → Prop)
    (h : ∀ s i, Inv s → Inv (body s i).value) (xs : List ι) (s : σ) (h0 : Inv s) :
    Inv (forL xs s body).value := foldL_inv body Inv h xs s h0

/-! ## Edwards scalar multiplication — serial backend

`E` = `EdwardsPoint` (extended), `C` = `CompletedPoint`, `J` = `ProjectivePoint`, `N` = the table entry type
(`ProjectiveNielsPoint` for variable-base / Straus, `AffineNielsPoint` for the basepoint tables).  The formulas
between the models are abstract here (they only contribute `call` events); each of them is a translated AlgIR item
(`callees`). -/

structure SerialOps (E C J N : Type) where
  identity : E
  /-- `&EdwardsPoint + &N` -/
  addN : E → N → C
  /-- `CompletedPoint::as_projective` -/
  asProjective : C → J
  /-- `CompletedPoint::as_extended` -/
  asExtended : C → E
  /-- `ProjectivePoint::double` -/
  double : J → C
  /-- `EdwardsPoint::as_projective` -/
  toProjective : E → J
  /-- `EdwardsPoint::as_projective_niels` / `as_affine_niels` -/
  toNiels : E → N
  ct : CtOps N

section serial
variable {E C J N : Type} (ops : SerialOps E C J N)

/-- `EdwardsPoint::mul_by_pow_2(k)` (edwards.rs:1200): `k - 1` rounds of `double; as_projective`, then
`double; as_extended`.  `k` is a literal at every call site (4, or the table radix). -/
def mulByPow2L (p : E) (k : Nat) : Leaky E := do
  let s ← call "EdwardsPoint::as_projective" (ops.toProjective p)
  let s ← forL (List.range (k - 1)) s (fun s _ => do
    let r ← call "ProjectivePoint::double" (ops.double s)
    call "CompletedPoint::as_projective" (ops.asProjective r))
  let r ← call "ProjectivePoint::double" (ops.double s)
  call "CompletedPoint::as_extended" (ops.asExtended r)

def mulByPow2Trace (k : Nat) : Leak :=
  [.call "EdwardsPoint::as_projective", .loopLen (k - 1)]
    ++ rep (k - 1) [.call "ProjectivePoint::double", .call "CompletedPoint::as_projective"]
    ++ [.call "ProjectivePoint::double", .call "CompletedPoint::as_extended"]

@[simp] theorem mulByPow2L_trace (p : E) (k : Nat) : (mulByPow2L ops p k).trace = mulByPow2Trace k := by
  simp only [mulByPow2L, bind_trace, call_trace]
  rw [forL_trace_const _ [.call "ProjectivePoint::double", .call "CompletedPoint::as_projective"]
    (by intro s i; rfl)]
  simp [mulByPow2Trace]

/-- `LookupTable::<N>::from(&EdwardsPoint)` (window.rs:107-127):
`points = [P.as_niels(); size]; for j in 0..size-1 { points[j+1] = (P + &points[j]).as_extended().as_niels() }` -/
def lookupTableFromL (size : Nat) (p : E) : Leaky (List N) := do
  let n0 ← call "EdwardsPoint::as_niels" (ops.toNiels p)
  forL (List.range (size - 1)) (List.replicate size n0) (fun pts j => do
    let pj ← readAt pts j n0
    let c ← call "EdwardsPoint + NielsPoint" (ops.addN p pj)
    let e ← call "CompletedPoint::as_extended" (ops.asExtended c)
    let n ← call "EdwardsPoint::as_niels" (ops.toNiels e)
    writeAt pts (j + 1) n)

def tableFromIterTrace (j : Nat) : Leak :=
  [.index j, .call "EdwardsPoint + NielsPoint", .call "CompletedPoint::as_extended", .call "EdwardsPoint::as_niels",
   .index (j + 1)]

def tableFromTrace (size : Nat) : Leak :=
  [.call "EdwardsPoint::as_niels", .loopLen (size - 1)] ++ (List.range (size - 1)).flatMap tableFromIterTrace

@[simp] theorem lookupTableFromL_trace (size : Nat) (p : E) :
    (lookupTableFromL ops size p).trace = tableFromTrace size := by
  simp only [lookupTableFromL, bind_trace, call_trace]
  rw [forL_trace _ tableFromIterTrace (by intro s i; rfl)]
  simp [tableFromTrace]

/-- one `select` + add of the digit `digits[i]` (shared by the scalar multiplication loops below) -/
def selectAddL (table : List N) (digits : List Int) (i : Nat) (q : E) : Leaky C := do
  let d ← readAt digits i 0
  let r ← lookupSelect ops.ct 8 table d
  call "EdwardsPoint + NielsPoint" (ops.addN q r)

def selectAddTrace (i : Nat) : Leak := .index i :: selectTrace 8 ++ [.call "EdwardsPoint + NielsPoint"]

@[simp] theorem selectAddL_trace (table : List N) (digits : List Int) (i : Nat) (q : E) :
    (selectAddL ops table digits i q).trace = selectAddTrace i := by
  simp [selectAddL, selectAddTrace]

/-- `backend::serial::scalar_mul::variable_base::mul(point, scalar)`: table, radix-16 digits, first iteration
unrolled, then 63 iterations of 4 doublings + `select(scalar_digits[i])` + add. -/
def variableBaseMulSerialL (point : E) (scalar : List UInt8) : Leaky E := do
  let table ← lookupTableFromL ops 8 point
  let digits ← asRadix16L scalar
  let tmp3 ← call "Identity::identity" ops.identity
  let tmp1 ← selectAddL ops table digits 63 tmp3
  let tmp1 ← forL (List.range 63).reverse tmp1 (fun tmp1 i => do
    let tmp2 ← call "CompletedPoint::as_projective" (ops.asProjective tmp1)
    let tmp1 ← call "ProjectivePoint::double" (ops.double tmp2)
    let tmp2 ← call "CompletedPoint::as_projective" (ops.asProjective tmp1)
    let tmp1 ← call "ProjectivePoint::double" (ops.double tmp2)
    let tmp2 ← call "CompletedPoint::as_projective" (ops.asProjective tmp1)
    let tmp1 ← call "ProjectivePoint::double" (ops.double tmp2)
    let tmp2 ← call "CompletedPoint::as_projective" (ops.asProjective tmp1)
    let tmp1 ← call "ProjectivePoint::double" (ops.double tmp2)
    let tmp3 ← call "CompletedPoint::as_extended" (ops.asExtended tmp1)
    selectAddL ops table digits i tmp3)
  call "CompletedPoint::as_extended" (ops.asExtended tmp1)

def vbSerialIterTrace (i : Nat) : Leak :=
  [.call "CompletedPoint::as_projective", .call "ProjectivePoint::double",
   .call "CompletedPoint::as_projective", .call "ProjectivePoint::double",
   .call "CompletedPoint::as_projective", .call "ProjectivePoint::double",
   .call "CompletedPoint::as_projective", .call "ProjectivePoint::double",
   .call "CompletedPoint::as_extended"] ++ selectAddTrace i

/-- the complete trace of serial variable-base multiplication: a closed term -/
def vbSerialTrace : Leak :=
  tableFromTrace 8 ++ radix16Trace ++ [.call "Identity::identity"] ++ selectAddTrace 63
    ++ .loopLen 63 :: (List.range 63).reverse.flatMap vbSerialIterTrace ++ [.call "CompletedPoint::as_extended"]

@[simp] theorem variableBaseMulSerialL_trace (point : E) (scalar : List UInt8) :
    (variableBaseMulSerialL ops point scalar).trace = vbSerialTrace := by
  simp only [variableBaseMulSerialL, bind_trace, call_trace, lookupTableFromL_trace, asRadix16L_trace,
    selectAddL_trace]
  rw [forL_trace _ vbSerialIterTrace (by intro s i; simp [vbSerialIterTrace])]
  simp [vbSerialTrace]

/-- constant-time `Straus::multiscalar_mul` (serial/scalar_mul/straus.rs:101-138). -/
def strausSerialL (scalars : List (List UInt8)) (points : List E) : Leaky E := do
  tick (.loopLen points.length)
  let tables ← mapL (lookupTableFromL ops 8) points
  tick (.loopLen scalars.length)
  let digits ← mapL asRadix16L scalars
  let q ← call "Identity::identity" ops.identity
  let q ← forL (List.range 64).reverse q (fun q j => do
    let q ← mulByPow2L ops q 4
    forL (digits.zip tables) q (fun q st => do
      let c ← selectAddL ops st.2 st.1 j q
      call "CompletedPoint::as_extended" (ops.asExtended c)))
  call "Zeroize::zeroize(Vec<[i8; 64]>)" q

def strausSerialTrace (nScalars nPoints : Nat) : Leak :=
  .loopLen nPoints :: rep nPoints (tableFromTrace 8) ++ .loopLen nScalars :: rep nScalars radix16Trace
    ++ [.call "Identity::identity", .loopLen 64]
    ++ (List.range 64).reverse.flatMap (fun j =>
          mulByPow2Trace 4 ++ .loopLen (min nScalars nPoints) ::
            rep (min nScalars nPoints) (selectAddTrace j ++ [.call "CompletedPoint::as_extended"]))
    ++ [.call "Zeroize::zeroize(Vec<[i8; 64]>)"]

@[simp] theorem strausSerialL_trace (scalars : List (List UInt8)) (points : List E) :
    (strausSerialL ops scalars points).trace = strausSerialTrace scalars.length points.length := by
  simp only [strausSerialL, bind_trace, call_trace, tick_trace]
  rw [mapL_trace_const _ (tableFromTrace 8) (by intro i; simp),
    mapL_trace_const _ radix16Trace (by intro i; simp)]
  rw [forL_trace _ (fun j => mulByPow2Trace 4 ++ .loopLen (min scalars.length points.length) ::
      rep (min scalars.length points.length) (selectAddTrace j ++ [.call "CompletedPoint::as_extended"]))
    (by
      intro s j
      simp only [bind_trace, mulByPow2L_trace]
      rw [forL_trace_const _ (selectAddTrace j ++ [.call "CompletedPoint::as_extended"]) (by intro s i; simp)]
      simp)]
  simp [strausSerialTrace]

/-- `EdwardsBasepointTable*::mul_base` (edwards.rs:1022-1039) for radix `2^radix` with `adds` additions
(radix 4 / 64 additions for `ED25519_BASEPOINT_TABLE`).  The table ROW is `tables[i / 2]` with `i` the loop counter;
the ENTRY within the row is fetched by `select`. -/
def mulBaseL (radix adds : Nat) (tables : List (List N)) (scalar : List UInt8) : Leaky E := do
  let a ← asRadix2wL scalar radix
  let p ← call "Identity::identity" ops.identity
  let step := fun (p : E) (i : Nat) => do
    let row ← readAt tables (i / 2) []
    let d ← readAt a i 0
    let r ← lookupSelect ops.ct (1 <<< (radix - 1)) row d
    let c ← call "EdwardsPoint + NielsPoint" (ops.addN p r)
    call "CompletedPoint::as_extended" (ops.asExtended c)
  let p ← forL ((List.range adds).filter (fun x => x % 2 == 1)) p step
  let p ← mulByPow2L ops p radix
  forL ((List.range adds).filter (fun x => x % 2 == 0)) p step

def mulBaseIterTrace (radix i : Nat) : Leak :=
  [.index (i / 2), .index i] ++ selectTrace (1 <<< (radix - 1))
    ++ [.call "EdwardsPoint + NielsPoint", .call "CompletedPoint::as_extended"]

def mulBaseTrace (radix adds : Nat) : Leak :=
  radix2wTrace radix ++ [.call "Identity::identity"]
    ++ .loopLen ((List.range adds).filter (fun x => x % 2 == 1)).length ::
        ((List.range adds).filter (fun x => x % 2 == 1)).flatMap (mulBaseIterTrace radix)
    ++ mulByPow2Trace radix
    ++ .loopLen ((List.range adds).filter (fun x => x % 2 == 0)).length ::
        ((List.range adds).filter (fun x => x % 2 == 0)).flatMap (mulBaseIterTrace radix)

@[simp] theorem mulBaseL_trace (radix adds : Nat) (tables : List (List N)) (scalar : List UInt8) :
    (mulBaseL ops radix adds tables scalar).trace = mulBaseTrace radix adds := by
  simp only [mulBaseL, bind_trace, call_trace, asRadix2wL_trace, mulByPow2L_trace]
  rw [forL_trace _ (mulBaseIterTrace radix) (by intro s i; simp [mulBaseIterTrace]),
    forL_trace _ (mulBaseIterTrace radix) (by intro s i; simp [mulBaseIterTrace])]
  simp [mulBaseTrace]

end serial

/-! ## Edwards scalar multiplication — vector backends (AVX2 / IFMA)

`X` = `ExtendedPoint` (4 field elements in SIMD lanes), `Cch` = `CachedPoint`.  The SIMD formulas are NOT
translated (no AlgIR image): every `call` below is an ASSUMPTION covered only by the runtime trace comparison. -/

structure VectorOps (E X Cch : Type) where
  identity : X
  fromEdwards : E → X
  toEdwards : X → E
  toCached : X → Cch
  addCached : X → Cch → X
  double : X → X
  ct : CtOps Cch

section vector
variable {E X Cch : Type} (ops : VectorOps E X Cch)

/-- vector `ExtendedPoint::mul_by_pow_2(k)`: `for _ in 0..k { tmp = tmp.double() }` -/
def mulByPow2VL (p : X) (k : Nat) : Leaky X :=
  forL (List.range k) p (fun s _ => call "vector::ExtendedPoint::double" (ops.double s))

def mulByPow2VTrace (k : Nat) : Leak := .loopLen k :: rep k [.call "vector::ExtendedPoint::double"]

@[simp] theorem mulByPow2VL_trace (p : X) (k : Nat) : (mulByPow2VL ops p k).trace = mulByPow2VTrace k := by
  unfold mulByPow2VL
  rw [forL_trace_const _ [.call "vector::ExtendedPoint::double"] (by intro s i; rfl)]
  simp [mulByPow2VTrace]

/-- `LookupTable::<CachedPoint>::from(&EdwardsPoint)` (vector/avx2/edwards.rs:309) -/
def lookupTableFromVL (p : E) : Leaky (List Cch) := do
  let px ← call "vector::ExtendedPoint::from" (ops.fromEdwards p)
  let c0 ← call "vector::CachedPoint::from" (ops.toCached px)
  forL (List.range 7) (List.replicate 8 c0) (fun pts i => do
    let pi ← readAt pts i c0
    let s ← call "vector::ExtendedPoint + CachedPoint" (ops.addCached px pi)
    let c ← call "vector::CachedPoint::from" (ops.toCached s)
    writeAt pts (i + 1) c)

def tableFromVIterTrace (i : Nat) : Leak :=
  [.index i, .call "vector::ExtendedPoint + CachedPoint", .call "vector::CachedPoint::from", .index (i + 1)]

def tableFromVTrace : Leak :=
  [.call "vector::ExtendedPoint::from", .call "vector::CachedPoint::from", .loopLen 7]
    ++ (List.range 7).flatMap tableFromVIterTrace

@[simp] theorem lookupTableFromVL_trace (p : E) : (lookupTableFromVL ops p).trace = tableFromVTrace := by
  simp only [lookupTableFromVL, bind_trace, call_trace]
  rw [forL_trace _ tableFromVIterTrace (by intro s i; rfl)]
  simp [tableFromVTrace]

def selectAddVL (table : List Cch) (digits : List Int) (i : Nat) (q : X) : Leaky X := do
  let d ← readAt digits i 0
  let r ← lookupSelect ops.ct 8 table d
  call "vector::ExtendedPoint + CachedPoint" (ops.addCached q r)

def selectAddVTrace (i : Nat) : Leak := .index i :: selectTrace 8 ++ [.call "vector::ExtendedPoint + CachedPoint"]

@[simp] theorem selectAddVL_trace (table : List Cch) (digits : List Int) (i : Nat) (q : X) :
    (selectAddVL ops table digits i q).trace = selectAddVTrace i := by
  simp [selectAddVL, selectAddVTrace]

/-- `backend::vector::scalar_mul::variable_base::spec::mul` -/
def variableBaseMulVectorL (point : E) (scalar : List UInt8) : Leaky E := do
  let table ← lookupTableFromVL ops point
  let digits ← asRadix16L scalar
  let q ← call "vector::ExtendedPoint::identity" ops.identity
  let q ← forL (List.range 64).reverse q (fun q i => do
    let q ← mulByPow2VL ops q 4
    selectAddVL ops table digits i q)
  call "vector::ExtendedPoint::into" (ops.toEdwards q)

def vbVectorTrace : Leak :=
  tableFromVTrace ++ radix16Trace ++ [.call "vector::ExtendedPoint::identity", .loopLen 64]
    ++ (List.range 64).reverse.flatMap (fun i => mulByPow2VTrace 4 ++ selectAddVTrace i)
    ++ [.call "vector::ExtendedPoint::into"]

@[simp] theorem variableBaseMulVectorL_trace (point : E) (scalar : List UInt8) :
    (variableBaseMulVectorL ops point scalar).trace = vbVectorTrace := by
  simp only [variableBaseMulVectorL, bind_trace, call_trace, lookupTableFromVL_trace, asRadix16L_trace]
  rw [forL_trace _ (fun i => mulByPow2VTrace 4 ++ selectAddVTrace i) (by intro s i; simp)]
  simp [vbVectorTrace]

/-- constant-time `Straus::multiscalar_mul`, vector backends (vector/scalar_mul/straus.rs:53-86) -/
def strausVectorL (scalars : List (List UInt8)) (points : List E) : Leaky E := do
  tick (.loopLen points.length)
  let tables ← mapL (lookupTableFromVL ops) points
  tick (.loopLen scalars.length)
  let digits ← mapL asRadix16L scalars
  let q ← call "vector::ExtendedPoint::identity" ops.identity
  let q ← forL (List.range 64).reverse q (fun q j => do
    let q ← mulByPow2VL ops q 4
    forL (digits.zip tables) q (fun q st => selectAddVL ops st.2 st.1 j q))
  let r ← call "vector::ExtendedPoint::into" (ops.toEdwards q)
  call "Zeroizing::drop(Vec<[i8; 64]>)" r

def strausVectorTrace (nScalars nPoints : Nat) : Leak :=
  .loopLen nPoints :: rep nPoints tableFromVTrace ++ .loopLen nScalars :: rep nScalars radix16Trace
    ++ [.call "vector::ExtendedPoint::identity", .loopLen 64]
    ++ (List.range 64).reverse.flatMap (fun j =>
          mulByPow2VTrace 4 ++ .loopLen (min nScalars nPoints) :: rep (min nScalars nPoints) (selectAddVTrace j))
    ++ [.call "vector::ExtendedPoint::into", .call "Zeroizing::drop(Vec<[i8; 64]>)"]

@[simp] theorem strausVectorL_trace (scalars : List (List UInt8)) (points : List E) :
    (strausVectorL ops scalars points).trace = strausVectorTrace scalars.length points.length := by
  simp only [strausVectorL, bind_trace, call_trace, tick_trace]
  rw [mapL_trace_const _ tableFromVTrace (by intro i; simp),
    mapL_trace_const _ radix16Trace (by intro i; simp)]
  rw [forL_trace _ (fun j => mulByPow2VTrace 4 ++ .loopLen (min scalars.length points.length) ::
      rep (min scalars.length points.length) (selectAddVTrace j))
    (by
      intro s j
      simp only [bind_trace, mulByPow2VL_trace]
      rw [forL_trace_const _ (selectAddVTrace j) (by intro s i; simp)]
      simp)]
  simp [strausVectorTrace]

end vector


/-! ## The Montgomery ladder (curve25519-dalek/src/montgomery.rs:167-196)

Instrumented twin of `Dalek.Model.Ladder`: same hand-written control structure, every field-level formula is the
TRANSLATED AlgIR item executed by `runAlg` (value by `AProg.run`, leakage by `AProg.leak`). -/

section ladder
open Dalek.Model.Ladder
variable {V : Type} (o : FOps V)

def identityL : Leaky (PPt V) := do
  let r ← runAlg o Dalek.Gen.AlgMontgomery.ProjectivePoint_identity []
  pure ⟨r.getD 0 o.dflt, r.getD 1 o.dflt⟩

def condSelectL (a b : PPt V) (c : V) : Leaky (PPt V) := do
  let r ← runAlg o Dalek.Gen.AlgMontgomery.ProjectivePoint_conditional_select [a.U, a.W, b.U, b.W, c]
  pure ⟨r.getD 0 o.dflt, r.getD 1 o.dflt⟩

/-- `ProjectivePoint::conditional_swap`: two `conditional_assign`s, no branch -/
def condSwapL (a b : PPt V) (c : V) : Leaky (PPt V × PPt V) := do
  let t := a
  let a' ← condSelectL o a b c
  let b' ← condSelectL o b t c
  pure (a', b')

def diffAddDoubleL (p q : PPt V) (affinePmQ : V) : Leaky (PPt V × PPt V) := do
  let r ← runAlg o Dalek.Gen.AlgMontgomery.differential_add_and_double [p.U, p.W, q.U, q.W, affinePmQ]
  pure (⟨r.getD 0 o.dflt, r.getD 1 o.dflt⟩, ⟨r.getD 2 o.dflt, r.getD 3 o.dflt⟩)

def asAffineL (p : PPt V) : Leaky V := do
  let r ← runAlg o Dalek.Gen.AlgMontgomery.ProjectivePoint_as_affine [p.U, p.W]
  pure (r.getD 0 o.dflt)

/-- one iteration of `for cur_bit in bits`: `choice = prev_bit ^ cur_bit` goes into `Choice::from` (a mask), never
into a jump -/
def stepL (affineU : V) (s : LState V) (cur : Bool) : Leaky (LState V) := do
  let sw ← condSwapL o s.x0 s.x1 (choiceOf o (s.prev != cur))
  let dd ← diffAddDoubleL o sw.1 sw.2 affineU
  pure ⟨dd.1, dd.2, cur⟩

/-- `MontgomeryPoint::mul_bits_be` on the field level (`u = from_bytes(self)`; result before `as_bytes`) -/
def mulBitsBEL (u : V) (bits : List Bool) : Leaky V := do
  let x0 ← identityL o
  let s ← forL bits ⟨x0, ⟨u, o.const 1⟩, false⟩ (stepL o u)
  let sw ← condSwapL o s.x0 s.x1 (choiceOf o s.prev)
  asAffineL o sw.1

def condSwapTrace : Leak :=
  Dalek.Gen.AlgMontgomery.ProjectivePoint_conditional_select.ops
    ++ Dalek.Gen.AlgMontgomery.ProjectivePoint_conditional_select.ops

def ladderStepTrace : Leak := condSwapTrace ++ Dalek.Gen.AlgMontgomery.differential_add_and_double.ops

/-- the trace of the ladder: a function of the NUMBER of bits -/
def ladderTrace (nBits : Nat) : Leak :=
  Dalek.Gen.AlgMontgomery.ProjectivePoint_identity.ops ++ .loopLen nBits :: rep nBits ladderStepTrace
    ++ condSwapTrace ++ Dalek.Gen.AlgMontgomery.ProjectivePoint_as_affine.ops

@[simp] theorem condSwapL_trace (a b : PPt V) (c : V) : (condSwapL o a b c).trace = condSwapTrace := by
  simp [condSwapL, condSelectL, condSwapTrace]

@[simp] theorem stepL_trace (u : V) (s : LState V) (cur : Bool) : (stepL o u s cur).trace = ladderStepTrace := by
  simp [stepL, diffAddDoubleL, ladderStepTrace]

@[simp] theorem mulBitsBEL_trace (u : V) (bits : List Bool) : (mulBitsBEL o u bits).trace = ladderTrace bits.length := by
  simp only [mulBitsBEL, bind_trace, condSwapL_trace]
  rw [forL_trace_const _ ladderStepTrace (by intro s i; simp)]
  simp [ladderTrace, identityL, asAffineL]

/-- the instrumented ladder computes `Dalek.Model.Ladder.mulBitsBE` -/
theorem mulBitsBEL_value (u : V) (bits : List Bool) : (mulBitsBEL o u bits).value = mulBitsBE o u bits := by
  have hsel : ∀ a b c, (condSelectL o a b c).value = condSelect o a b c := by
    intro a b c; simp only [condSelectL, condSelect, bind_value, runAlg_value, pure_value]
  have hswap : ∀ a b c, (condSwapL o a b c).value = condSwap o a b c := by
    intro a b c; simp only [condSwapL, condSwap, bind_value, pure_value, hsel]
  have hstep : ∀ s cur, (stepL o u s cur).value = step o u s cur := by
    intro s cur
    simp only [stepL, step, diffAddDoubleL, diffAddDouble, bind_value, runAlg_value, pure_value, hswap]
  simp only [mulBitsBEL, mulBitsBE, bind_value, hswap]
  rw [forL_value _ (step o u) hstep]
  simp only [identityL, identity, asAffineL, asAffine, bind_value, runAlg_value, pure_value]

end ladder

/-! ## `Scalar::batch_invert` (scalar.rs:788) on the translated `Scalar52` kernels

A scalar is its 32 bytes (as `Nat`s), an `UnpackedScalar` its 5 limbs.  Every arithmetic step is the TRANSLATED
LimbIR kernel executed by `runLimb`; `montgomery_invert`'s addition chain and the two passes are transcribed by hand.
The u32 backend (`Scalar29`) has the same structure with the `Dalek.Gen.Scalar29` kernels. -/

section scalar
open Dalek.Gen

/-- `Scalar::unpack` = `Scalar52::from_bytes` -/
def unpackL (bytes : List Nat) : Leaky (List Nat) := runLimb Scalar52.from_bytes (arr 32 bytes 0)
/-- `UnpackedScalar::pack` = `Scalar52::as_bytes` -/
def packL (limbs : List Nat) : Leaky (List Nat) := runLimb Scalar52.as_bytes limbs
def asMontgomeryL (x : List Nat) : Leaky (List Nat) := runLimb Scalar52.as_montgomery x
def fromMontgomeryL (x : List Nat) : Leaky (List Nat) := runLimb Scalar52.from_montgomery x
def montMulL (a b : List Nat) : Leaky (List Nat) := runLimb Scalar52.montgomery_mul (a ++ b)
def montSquareL (a : List Nat) : Leaky (List Nat) := runLimb Scalar52.montgomery_square a

/-- `square_multiply(y, squarings, x)`: `for _ in 0..squarings { y = y.montgomery_square() }; y = mm(y, x)` -/
def squareMultiplyL (y : List Nat) (squarings : Nat) (x : List Nat) : Leaky (List Nat) := do
  let y ← forL (List.range squarings) y (fun y _ => montSquareL y)
  montMulL y x

def squareMultiplyTrace (squarings : Nat) : Leak :=
  .loopLen squarings :: rep squarings Scalar52.montgomery_square.ops ++ Scalar52.montgomery_mul.ops

@[simp] theorem squareMultiplyL_trace (y : List Nat) (k : Nat) (x : List Nat) :
    (squareMultiplyL y k x).trace = squareMultiplyTrace k := by
  simp only [squareMultiplyL, bind_trace]
  rw [forL_trace_const _ Scalar52.montgomery_square.ops (by intro s i; simp [montSquareL])]
  simp [squareMultiplyTrace, montMulL]

/-- the 27 `square_multiply` steps of `montgomery_invert`: (squarings, index of the multiplier in
`[_1, _11, _101, _111, _1001, _1011, _1111]`) -/
def invChain : List (Nat × Nat) :=
  [(123 + 3, 2), (2 + 2, 1), (1 + 4, 6), (1 + 4, 6), (4, 4), (2, 1), (1 + 4, 6), (1 + 3, 2), (3 + 3, 2), (3, 3),
   (1 + 4, 6), (2 + 3, 3), (2 + 2, 1), (1 + 4, 5), (2 + 4, 5), (6 + 4, 4), (2 + 2, 1), (3 + 2, 1), (3 + 2, 1),
   (1 + 4, 4), (1 + 3, 3), (2 + 4, 6), (1 + 4, 5), (3, 2), (2 + 4, 6), (3, 2), (1 + 2, 1)]

/-- `UnpackedScalar::montgomery_invert` (scalar.rs:1150): a fixed addition chain -/
def montgomeryInvertL (x : List Nat) : Leaky (List Nat) := do
  let _1 := x
  let _10 ← montSquareL _1
  let _100 ← montSquareL _10
  let _11 ← montMulL _10 _1
  let _101 ← montMulL _10 _11
  let _111 ← montMulL _10 _101
  let _1001 ← montMulL _10 _111
  let _1011 ← montMulL _10 _1001
  let _1111 ← montMulL _100 _1011
  let y ← montMulL _1111 _1
  let xs := [_1, _11, _101, _111, _1001, _1011, _1111]
  foldL (fun y st => squareMultiplyL y st.1 (xs.getD st.2 [])) y invChain

def montgomeryInvertTrace : Leak :=
  Scalar52.montgomery_square.ops ++ Scalar52.montgomery_square.ops ++ rep 7 Scalar52.montgomery_mul.ops
    ++ invChain.flatMap (fun st => squareMultiplyTrace st.1)

@[simp] theorem montgomeryInvertL_trace (x : List Nat) : (montgomeryInvertL x).trace = montgomeryInvertTrace := by
  simp only [montgomeryInvertL, bind_trace]
  rw [foldL_trace _ (fun st => squareMultiplyTrace st.1) (by intro s i; simp)]
  simp [montgomeryInvertTrace, montSquareL, montMulL, rep]

/-- the bytes of `Scalar::ONE` -/
def scalarOneBytes : List Nat := 1 :: List.replicate 31 0

/-- `Scalar::batch_invert(inputs: &mut [Scalar]) -> Scalar`: returns the new contents of `inputs` and the product of
all inverses.  (`debug_assert!(acc.pack() != Scalar::ZERO)` is compiled out in release builds.)  The two passes
walk `inputs` / `scratch` by iterators; the element positions are the loop counter. -/
def scalarBatchInvertL (inputs : List (List Nat)) : Leaky (List (List Nat) × List Nat) := do
  let n := inputs.length
  let u1 ← unpackL scalarOneBytes
  let one ← asMontgomeryL u1
  let scratch ← call "vec![one; n]" (List.replicate n one)
  let u1' ← unpackL scalarOneBytes
  let acc ← asMontgomeryL u1'
  -- first pass
  let st ← forL (List.range n) (inputs, scratch, acc) (fun st i => do
    let scr ← writeAt st.2.1 i st.2.2
    let inp ← readAt st.1 i []
    let u ← unpackL inp
    let tmp ← asMontgomeryL u
    let packed ← packL tmp
    let ins ← writeAt st.1 i packed
    let acc ← montMulL st.2.2 tmp
    pure (ins, scr, acc))
  let inv ← montgomeryInvertL st.2.2
  let acc ← fromMontgomeryL inv
  let ret ← packL acc
  -- second pass, backwards
  let st2 ← forL (List.range n).reverse (st.1, acc) (fun st2 i => do
    let inp ← readAt st2.1 i []
    let u ← unpackL inp
    let tmp ← montMulL st2.2 u
    let scr ← readAt st.2.1 i []
    let prod ← montMulL st2.2 scr
    let packed ← packL prod
    let ins ← writeAt st2.1 i packed
    pure (ins, tmp))
  let _ ← call "Zeroize::zeroize(Vec<UnpackedScalar>)" ()
  pure (st2.1, ret)

def sbiPass1Trace (i : Nat) : Leak :=
  [.index i, .index i] ++ Scalar52.from_bytes.ops ++ Scalar52.as_montgomery.ops ++ Scalar52.as_bytes.ops
    ++ [.index i] ++ Scalar52.montgomery_mul.ops

def sbiPass2Trace (i : Nat) : Leak :=
  [.index i] ++ Scalar52.from_bytes.ops ++ Scalar52.montgomery_mul.ops ++ [.index i] ++ Scalar52.montgomery_mul.ops
    ++ Scalar52.as_bytes.ops ++ [.index i]

/-- the trace of `Scalar::batch_invert`: a function of the NUMBER of scalars -/
def scalarBatchInvertTrace (n : Nat) : Leak :=
  Scalar52.from_bytes.ops ++ Scalar52.as_montgomery.ops ++ [.call "vec![one; n]"]
    ++ Scalar52.from_bytes.ops ++ Scalar52.as_montgomery.ops
    ++ .loopLen n :: (List.range n).flatMap sbiPass1Trace
    ++ montgomeryInvertTrace ++ Scalar52.from_montgomery.ops ++ Scalar52.as_bytes.ops
    ++ .loopLen n :: (List.range n).reverse.flatMap sbiPass2Trace
    ++ [.call "Zeroize::zeroize(Vec<UnpackedScalar>)"]

@[simp] theorem scalarBatchInvertL_trace (inputs : List (List Nat)) :
    (scalarBatchInvertL inputs).trace = scalarBatchInvertTrace inputs.length := by
  simp only [scalarBatchInvertL, bind_trace, call_trace, montgomeryInvertL_trace]
  rw [forL_trace _ sbiPass1Trace
      (by intro s i; simp [sbiPass1Trace, unpackL, asMontgomeryL, packL, montMulL]),
    forL_trace _ sbiPass2Trace
      (by intro s i; simp [sbiPass2Trace, unpackL, packL, montMulL])]
  simp [scalarBatchInvertTrace, unpackL, asMontgomeryL, fromMontgomeryL, packL]

end scalar

/-! ## `FieldElement::batch_invert` (field.rs:161) over an arbitrary interpretation of the field signature

The zero-skipping is `acc.conditional_assign(&(&acc * input), !input.is_zero())` — a `csel`, NOT a branch (checked
against the source).  The function does contain ONE jump on data: `assert!(bool::from(!acc.is_zero()))`.
It is recorded as a `branch` event.  `acc` is a product of the NONZERO inputs, so in a field the outcome is always
"no panic": under the laws `FieldLaws` this is `feAssertOk_of_laws` below, which makes the non-interference theorem
unconditional for lawful interpretations; without the laws the theorem keeps the hypothesis explicit. -/

section febatch
variable {V : Type} (o : FOps V)

/-- one primitive field operation: value given, leakage = that of the AlgIR opcode -/
def op (k : FOp) (v : V) : Leaky V := ⟨v, k.leak⟩

@[simp] theorem op_trace (k : FOp) (v : V) : (op k v).trace = k.leak := rfl
@[simp] theorem op_value (k : FOp) (v : V) : (op k v).value = v := rfl

/-- first pass: `for (input, scratch) in inputs.iter().zip(scratch.iter_mut()) { *scratch = acc;
acc.conditional_assign(&(&acc * input), !input.is_zero()) }`; state = (scratch, acc) -/
def fePass1L (inputs : List V) : Leaky (List V × V) := do
  let one ← op (.const 1) (o.const 1)
  let scratch ← call "vec![FieldElement::ONE; n]" (List.replicate inputs.length one)
  forL (List.range inputs.length) (scratch, one) (fun st i => do
    let scr ← writeAt st.1 i st.2
    let input ← readAt inputs i o.dflt
    let prod ← op .mul (o.mul st.2 input)
    let z ← op .isZero (o.isZero input)
    let nz ← op .cnot (o.cnot z)
    let acc ← op .csel (o.csel nz st.2 prod)
    pure (scr, acc))

/-- the value `bool::from(!acc.is_zero())` the `assert!` jumps on (`truthy` decodes a `Choice`) -/
def feAssertOk (truthy : V → Bool) (inputs : List V) : Bool :=
  truthy (o.cnot (o.isZero (fePass1L o inputs).value.2))

/-- `FieldElement::batch_invert(inputs: &mut [FieldElement])`; `none` = the `assert!` panicked -/
def feBatchInvertL (truthy : V → Bool) (inputs : List V) : Leaky (Option (List V)) := do
  let st ← fePass1L o inputs
  let z ← op .isZero (o.isZero st.2)
  let nz ← op .cnot (o.cnot z)
  let ok ← branchOn (truthy nz)
  if !ok then pure none
  else do
    let r ← runAlg o Dalek.Gen.AlgField.invert [st.2]
    let acc := r.getD 0 o.dflt
    let st2 ← forL (List.range inputs.length).reverse (inputs, acc) (fun st2 i => do
      let input ← readAt st2.1 i o.dflt
      let scr ← readAt st.1 i o.dflt
      let tmp ← op .mul (o.mul st2.2 input)
      let z ← op .isZero (o.isZero input)
      let nz ← op .cnot (o.cnot z)
      let prod ← op .mul (o.mul st2.2 scr)
      let inp' ← op .csel (o.csel nz input prod)
      let ins ← writeAt st2.1 i inp'
      let acc' ← op .csel (o.csel nz st2.2 tmp)
      pure (ins, acc'))
    pure (some st2.1)

def fePass1IterTrace (i : Nat) : Leak :=
  [.index i, .index i, .algOp .mul, .algOp .isZero, .algOp .cnot, .algOp .csel]

def fePass2IterTrace (i : Nat) : Leak :=
  [.index i, .index i, .algOp .mul, .algOp .isZero, .algOp .cnot, .algOp .mul, .algOp .csel, .index i, .algOp .csel]

def fePass1Trace (n : Nat) : Leak :=
  [.algOp (.const 1), .call "vec![FieldElement::ONE; n]", .loopLen n] ++ (List.range n).flatMap fePass1IterTrace

/-- the trace of `FieldElement::batch_invert`: a function of the NUMBER of inputs and of the `assert!` outcome -/
def feBatchInvertTrace (n : Nat) (ok : Bool) : Leak :=
  fePass1Trace n ++ [.algOp .isZero, .algOp .cnot, .branch ok]
    ++ (if ok then Dalek.Gen.AlgField.invert.ops ++ .loopLen n :: (List.range n).reverse.flatMap fePass2IterTrace
        else [])

@[simp] theorem fePass1L_trace (inputs : List V) : (fePass1L o inputs).trace = fePass1Trace inputs.length := by
  simp only [fePass1L, bind_trace, call_trace, op_trace]
  rw [forL_trace _ fePass1IterTrace (by intro s i; rfl)]
  simp [fePass1Trace, FOp.leak]

theorem feBatchInvertL_trace (truthy : V → Bool) (inputs : List V) :
    (feBatchInvertL o truthy inputs).trace = feBatchInvertTrace inputs.length (feAssertOk o truthy inputs) := by
  unfold feBatchInvertL feAssertOk feBatchInvertTrace
  simp only [bind_trace, fePass1L_trace, op_trace, op_value, branchOn_trace, branchOn_value]
  cases h : truthy (o.cnot (o.isZero (fePass1L o inputs).value.2))
  · simp [FOp.leak]
  · simp only [Bool.not_true, Bool.false_eq_true, if_false, if_true, bind_trace, runAlg_trace, pure_trace]
    rw [forL_trace _ fePass2IterTrace (by intro s i; rfl)]
    simp [FOp.leak]

/-- the algebraic facts about an interpretation that make the `assert!` unreachable -/
structure FieldLaws (truthy : V → Bool) : Prop where
  /-- `csel c a b` is `b` if the choice is set, else `a` -/
  csel : ∀ c a b, o.csel c a b = if truthy c then b else a
  cnot : ∀ c, truthy (o.cnot c) = !truthy c
  one_ne_zero : truthy (o.isZero (o.const 1)) = false
  /-- no zero divisors -/
  mul_ne_zero : ∀ a b, truthy (o.isZero a) = false → truthy (o.isZero b) = false →
    truthy (o.isZero (o.mul a b)) = false

/-- In a lawful interpretation the accumulator of the first pass is nonzero: the `assert!` never fires. -/
theorem feAssertOk_of_laws (truthy : V → Bool) (laws : FieldLaws o truthy) (inputs : List V) :
    feAssertOk o truthy inputs = true := by
  unfold feAssertOk
  rw [laws.cnot]
  have : truthy (o.isZero (fePass1L o inputs).value.2) = false := by
    unfold fePass1L
    simp only [bind_value, op_value, call_value]
    refine forL_inv _ (fun st : List V × V => truthy (o.isZero st.2) = false) ?_ _ _ ?_
    · intro st i hst
      simp only [bind_value, op_value, pure_value, writeAt_value, readAt_value]
      rw [laws.csel, laws.cnot]
      cases hz : truthy (o.isZero (inputs.getD i o.dflt))
      · simpa using laws.mul_ne_zero _ _ hst hz
      · simpa using hst
    · exact laws.one_ne_zero
  simp [this]

end febatch


/-! ## X25519 (x25519-dalek/src/x25519.rs, curve25519-dalek/src/montgomery.rs) -/

section x25519
open Dalek.Spec Dalek.Model.Ladder

/-- `clamp_integer(bytes)`: the VALUE is the specification function `Dalek.Spec.clampInteger` (as in
`Dalek.Model.Ladder`), the LEAKAGE is that of the translated kernel `Dalek.Gen.Clamp.clamp_integer`. -/
def clampL (bytes : List UInt8) : Leaky (List UInt8) :=
  ⟨clampInteger (arr 32 bytes 0), Dalek.Gen.Clamp.clamp_integer.leakW ((arr 32 bytes 0).map (fun b => b.toNat))⟩

@[simp] theorem clampL_trace (bytes : List UInt8) : (clampL bytes).trace = Dalek.Gen.Clamp.clamp_integer.ops :=
  Prog.leakW_eq_ops _ _

/-- `Scalar::bits_le`: `(0..256).map(|i| ((self.bytes[i >> 3] >> (i & 7)) & 1u8) == 1)`; the byte index is the
loop counter shifted -/
def bitsLeL (bytes : List UInt8) : Leaky (List Bool) := do
  tick (.loopLen 256)
  mapL (fun i => do
    let b ← readAt (arr 32 bytes 0) (i >>> 3) 0
    pure (((b >>> (UInt8.ofNat (i &&& 7))) &&& 1) == 1)) (List.range 256)

def bitsLeTrace : Leak := .loopLen 256 :: (List.range 256).flatMap (fun i => [.index (i >>> 3)])

@[simp] theorem bitsLeL_trace (bytes : List UInt8) : (bitsLeL bytes).trace = bitsLeTrace := by
  simp only [bitsLeL, bind_trace, tick_trace]
  rw [mapL_trace _ (fun i => [.index (i >>> 3)]) (by intro i; rfl)]
  rfl

theorem bitsLeL_value (bytes : List UInt8) : (bitsLeL bytes).value = scalarBitsLE (arr 32 bytes 0) := by
  simp only [bitsLeL, bind_value, mapL_value, scalarBitsLE]
  rfl

@[simp] theorem bitsLeL_value_length (bytes : List UInt8) : (bitsLeL bytes).value.length = 256 := by
  simp [bitsLeL]

/-- the byte ↔ field-element conversions (`FieldElement::from_bytes` / `as_bytes`: translated LimbIR kernels) -/
structure FeBytes (V : Type) where
  fromBytes : List UInt8 → V
  toBytes : V → List UInt8

variable {V : Type} (o : FOps V) (fb : FeBytes V)

/-- `MontgomeryPoint::mul_bits_be(&self, bits)` on bytes -/
def montMulBitsBEL (u : List UInt8) (bits : List Bool) : Leaky (List UInt8) := do
  let fu ← call "FieldElement::from_bytes" (fb.fromBytes u)
  let r ← mulBitsBEL o fu bits
  call "FieldElement::as_bytes" (fb.toBytes r)

/-- `&MontgomeryPoint * &Scalar` = `self.mul_bits_be(scalar.bits_le().rev().skip(1))`: always 255 ladder steps -/
def montgomeryMulL (u scalar : List UInt8) : Leaky (List UInt8) := do
  let bits ← bitsLeL scalar
  montMulBitsBEL o fb u (bits.reverse.drop 1)

/-- `MontgomeryPoint::mul_clamped(self, bytes)` -/
def mulClampedL (u bytes : List UInt8) : Leaky (List UInt8) := do
  let s ← clampL bytes
  montgomeryMulL o fb u s

/-- `x25519_dalek::x25519(k, u)` -/
def x25519L (k u : List UInt8) : Leaky (List UInt8) := mulClampedL o fb u k

/-- `{Ephemeral,Reusable,Static}Secret::diffie_hellman(self, their_public)` -/
def diffieHellmanL (secret theirPublic : List UInt8) : Leaky (List UInt8) := mulClampedL o fb theirPublic secret

def montMulBitsBETrace (nBits : Nat) : Leak :=
  .call "FieldElement::from_bytes" :: ladderTrace nBits ++ [.call "FieldElement::as_bytes"]

/-- the trace of every X25519 scalar multiplication: a closed term -/
def x25519Trace : Leak := Dalek.Gen.Clamp.clamp_integer.ops ++ bitsLeTrace ++ montMulBitsBETrace 255

@[simp] theorem montMulBitsBEL_trace (u : List UInt8) (bits : List Bool) :
    (montMulBitsBEL o fb u bits).trace = montMulBitsBETrace bits.length := by
  simp [montMulBitsBEL, montMulBitsBETrace]

@[simp] theorem montgomeryMulL_trace (u scalar : List UInt8) :
    (montgomeryMulL o fb u scalar).trace = bitsLeTrace ++ montMulBitsBETrace 255 := by
  simp [montgomeryMulL]

@[simp] theorem x25519L_trace (k u : List UInt8) : (x25519L o fb k u).trace = x25519Trace := by
  simp [x25519L, mulClampedL, x25519Trace]

@[simp] theorem diffieHellmanL_trace (secret theirPublic : List UInt8) :
    (diffieHellmanL o fb secret theirPublic).trace = x25519Trace := by
  simp [diffieHellmanL, mulClampedL, x25519Trace]

theorem modifyNth_length' {α : Type} (f : α → α) (n : Nat) (l : List α) : (modifyNth f n l).length = l.length := by
  induction l generalizing n with
  | nil => cases n <;> rfl
  | cons x xs ih => cases n <;> simp [modifyNth, ih]

/-- For the executable interpretation the instrumented X25519 computes `Dalek.Model.Ladder.dalekX25519`. -/
theorem x25519L_value (k u : List UInt8) (hk : k.length = 32) :
    (x25519L natOps ⟨feFromBytes, feToBytes⟩ k u).value = dalekX25519 k u := by
  have hc : (clampInteger k).length = 32 := by
    unfold clampInteger; rw [modifyNth_length', modifyNth_length', hk]
  simp only [x25519L, mulClampedL, montgomeryMulL, montMulBitsBEL, bind_value, call_value, clampL, bitsLeL_value,
    mulBitsBEL_value, arr_eq _ _ _ hk, arr_eq _ _ _ hc, dalekX25519, mulClamped, Ladder.montMul, montMulBitsBE]

end x25519

/-! ## Ed25519 key derivation and signing (ed25519-dalek/src/signing.rs:802-921, hazmat.rs:61-76)

`Sha512` is OUTSIDE the three crates (crate `sha2`).  ASSUMPTION, visible in the trace as the event
`call "Sha512 [ASSUMED: leakage depends on the input LENGTH only]"` followed by `loopLen <input length>`:
hashing secret data (the seed, `hash_prefix ‖ message`) leaks nothing but the length of the data hashed. -/

section ed25519
open Dalek.Gen
variable {E C J N : Type} (ops : SerialOps E C J N)

def toNats (l : List UInt8) : List Nat := l.map (fun b => b.toNat)
def toBytes (l : List Nat) : List UInt8 := l.map UInt8.ofNat

/-- `Sha512::new().chain_update(c₁)….finalize()` -/
def sha512L (hash : List UInt8 → List UInt8) (chunks : List (List UInt8)) : Leaky (List UInt8) := do
  tick (.call "Sha512 [ASSUMED: leakage depends on the input LENGTH only]")
  tick (.loopLen chunks.flatten.length)
  pure (arr 64 (hash chunks.flatten) 0)

def sha512Trace (len : Nat) : Leak :=
  [.call "Sha512 [ASSUMED: leakage depends on the input LENGTH only]", .loopLen len]

/-- `Scalar::from_hash` = `from_bytes_mod_order_wide` = `UnpackedScalar::from_bytes_wide(input).pack()` -/
def fromHashL (h : List UInt8) : Leaky (List Nat) := do
  let limbs ← runLimb Scalar52.from_bytes_wide (toNats (arr 64 h 0))
  packL limbs

def fromHashTrace : Leak := Scalar52.from_bytes_wide.ops ++ Scalar52.as_bytes.ops

/-- `Scalar::from_bytes_mod_order(bytes)` = `Scalar{bytes}.reduce()` =
`montgomery_reduce(mul_internal(unpack, R)).pack()` -/
def fromBytesModOrderL (bytes : List Nat) : Leaky (List Nat) := do
  let x ← unpackL bytes
  let xR ← runLimb Scalar52.mul_internal (x ++ Consts.U64.R)
  let r ← runLimb Scalar52.montgomery_reduce xR
  packL r

def fromBytesModOrderTrace : Leak :=
  Scalar52.from_bytes.ops ++ Scalar52.mul_internal.ops ++ Scalar52.montgomery_reduce.ops ++ Scalar52.as_bytes.ops

/-- `&Scalar * &Scalar` = `UnpackedScalar::mul(&a.unpack(), &b.unpack()).pack()` -/
def scalarMulL (a b : List Nat) : Leaky (List Nat) := do
  let x ← unpackL a
  let y ← unpackL b
  let z ← runLimb Scalar52.mul (x ++ y)
  packL z

/-- `&Scalar + &Scalar` = `UnpackedScalar::add(&a.unpack(), &b.unpack()).pack()` (`add` ends in `Scalar52::sub(sum, L)`,
the `Choice`-masked add-back) -/
def scalarAddL (a b : List Nat) : Leaky (List Nat) := do
  let x ← unpackL a
  let y ← unpackL b
  let z ← runLimb Scalar52.add (x ++ y)
  packL z

def scalarMulTrace : Leak := Scalar52.from_bytes.ops ++ Scalar52.from_bytes.ops ++ Scalar52.mul.ops ++ Scalar52.as_bytes.ops
def scalarAddTrace : Leak := Scalar52.from_bytes.ops ++ Scalar52.from_bytes.ops ++ Scalar52.add.ops ++ Scalar52.as_bytes.ops

@[simp] theorem sha512L_trace (hash : List UInt8 → List UInt8) (chunks : List (List UInt8)) :
    (sha512L hash chunks).trace = sha512Trace chunks.flatten.length := by
  simp [sha512L, sha512Trace]
@[simp] theorem sha512L_value_length (hash : List UInt8 → List UInt8) (chunks : List (List UInt8)) :
    (sha512L hash chunks).value.length = 64 := by
  simp [sha512L]
@[simp] theorem fromHashL_trace (h : List UInt8) : (fromHashL h).trace = fromHashTrace := by
  simp [fromHashL, fromHashTrace, packL]
@[simp] theorem fromBytesModOrderL_trace (b : List Nat) : (fromBytesModOrderL b).trace = fromBytesModOrderTrace := by
  simp [fromBytesModOrderL, fromBytesModOrderTrace, packL, unpackL]
@[simp] theorem scalarMulL_trace (a b : List Nat) : (scalarMulL a b).trace = scalarMulTrace := by
  simp [scalarMulL, scalarMulTrace, packL, unpackL]
@[simp] theorem scalarAddL_trace (a b : List Nat) : (scalarAddL a b).trace = scalarAddTrace := by
  simp [scalarAddL, scalarAddTrace, packL, unpackL]

/-- `EdwardsPoint::mul_base(&s).compress()` with the radix-16 basepoint table (`precomputed-tables`);
`CompressedEdwardsY` is a `[u8; 32]` -/
def mulBaseCompressL (tables : List (List N)) (compress : E → List UInt8) (s : List Nat) : Leaky (List UInt8) := do
  let p ← mulBaseL ops 4 64 tables (toBytes s)
  let c ← call "EdwardsPoint::compress" (compress p)
  pure (arr 32 c 0)

def mulBaseCompressTrace : Leak := mulBaseTrace 4 64 ++ [.call "EdwardsPoint::compress"]

@[simp] theorem mulBaseCompressL_trace (tables : List (List N)) (compress : E → List UInt8) (s : List Nat) :
    (mulBaseCompressL ops tables compress s).trace = mulBaseCompressTrace := by
  simp [mulBaseCompressL, mulBaseCompressTrace]

@[simp] theorem mulBaseCompressL_value_length (tables : List (List N)) (compress : E → List UInt8) (s : List Nat) :
    (mulBaseCompressL ops tables compress s).value.length = 32 := by
  simp [mulBaseCompressL]

/-- Key derivation: `ExpandedSecretKey::from(&secret_key)` then `VerifyingKey::from(&esk)`.
Returns (scalar bytes, hash_prefix, verifying-key bytes). -/
def keygenL (hash : List UInt8 → List UInt8) (tables : List (List N)) (compress : E → List UInt8)
    (seed : List UInt8) : Leaky (List Nat × List UInt8 × List UInt8) := do
  let h ← sha512L hash [arr 32 seed 0]
  let lo ← clampL (h.take 32)
  let scalar ← fromBytesModOrderL (toNats lo)
  let vk ← mulBaseCompressL ops tables compress scalar
  pure (scalar, h.drop 32, vk)

/-- the trace of key derivation: a closed term -/
def keygenTrace : Leak :=
  sha512Trace 32 ++ Clamp.clamp_integer.ops ++ fromBytesModOrderTrace ++ mulBaseCompressTrace

@[simp] theorem keygenL_trace (hash : List UInt8 → List UInt8) (tables : List (List N)) (compress : E → List UInt8)
    (seed : List UInt8) : (keygenL ops hash tables compress seed).trace = keygenTrace := by
  simp [keygenL, keygenTrace]

/-- the common tail of `raw_sign` and `raw_sign_prehashed`: `dom` is the (public) domain-separation prefix -/
def signCoreL (hash : List UInt8 → List UInt8) (tables : List (List N)) (compress : E → List UInt8)
    (dom : List UInt8) (scalar : List Nat) (hashPrefix : List UInt8) (msg vk : List UInt8) :
    Leaky (List UInt8 × List Nat) := do
  let h ← sha512L hash [dom, arr 32 hashPrefix 0, msg]
  let r ← fromHashL h
  let R ← mulBaseCompressL ops tables compress r
  let h2 ← sha512L hash [dom, R, vk, msg]
  let k ← fromHashL h2
  let ks ← scalarMulL k scalar
  let s ← scalarAddL ks r
  pure (R, s)

def signCoreTrace (domLen msgLen vkLen : Nat) : Leak :=
  sha512Trace (domLen + (32 + msgLen)) ++ fromHashTrace ++ mulBaseCompressTrace
    ++ sha512Trace (domLen + (32 + (vkLen + msgLen))) ++ fromHashTrace ++ scalarMulTrace ++ scalarAddTrace

@[simp] theorem signCoreL_trace (hash : List UInt8 → List UInt8) (tables : List (List N)) (compress : E → List UInt8)
    (dom : List UInt8) (scalar : List Nat) (hashPrefix : List UInt8) (msg vk : List UInt8) :
    (signCoreL ops hash tables compress dom scalar hashPrefix msg vk).trace
      = signCoreTrace dom.length msg.length vk.length := by
  simp [signCoreL, signCoreTrace]

/-- `ExpandedSecretKey::raw_sign(&self, message, verifying_key)` (signing.rs:824); secrets: `scalar`, `hash_prefix` -/
def rawSignL (hash : List UInt8 → List UInt8) (tables : List (List N)) (compress : E → List UInt8)
    (scalar : List Nat) (hashPrefix : List UInt8) (msg vk : List UInt8) : Leaky (List UInt8 × List Nat) :=
  signCoreL ops hash tables compress [] scalar hashPrefix msg vk

/-- `ExpandedSecretKey::raw_sign_prehashed` (signing.rs:862): the only jump is `ctx.len() > 255` (public);
`prehash` is the 64-byte digest of the (public) message. -/
def rawSignPrehashedL (hash : List UInt8 → List UInt8) (tables : List (List N)) (compress : E → List UInt8)
    (scalar : List Nat) (hashPrefix : List UInt8) (prehash vk : List UInt8) (context : Option (List UInt8)) :
    Leaky (Option (List UInt8 × List Nat)) := do
  let ctx := context.getD []
  let tooLong ← branchOn (decide (ctx.length > 255))
  if tooLong then pure none
  else do
    let dom := "SigEd25519 no Ed25519 collisions".toUTF8.toList ++ [1, UInt8.ofNat ctx.length] ++ ctx
    let r ← signCoreL ops hash tables compress dom scalar hashPrefix (arr 64 prehash 0) vk
    pure (some r)

def rawSignPrehashedTrace (ctxLen vkLen : Nat) : Leak :=
  .branch (decide (ctxLen > 255)) ::
    (if ctxLen > 255 then []
     else signCoreTrace ("SigEd25519 no Ed25519 collisions".toUTF8.toList.length + (ctxLen + 1 + 1)) 64 vkLen)

@[simp] theorem rawSignL_trace (hash : List UInt8 → List UInt8) (tables : List (List N)) (compress : E → List UInt8)
    (scalar : List Nat) (hashPrefix : List UInt8) (msg vk : List UInt8) :
    (rawSignL ops hash tables compress scalar hashPrefix msg vk).trace = signCoreTrace 0 msg.length vk.length := by
  simp [rawSignL]

@[simp] theorem rawSignPrehashedL_trace (hash : List UInt8 → List UInt8) (tables : List (List N))
    (compress : E → List UInt8) (scalar : List Nat) (hashPrefix : List UInt8) (prehash vk : List UInt8)
    (context : Option (List UInt8)) :
    (rawSignPrehashedL ops hash tables compress scalar hashPrefix prehash vk context).trace
      = rawSignPrehashedTrace (context.getD []).length vk.length := by
  unfold rawSignPrehashedL rawSignPrehashedTrace
  by_cases h : (context.getD []).length > 255
  · simp [h]
  · simp [h]

/-- x25519-dalek `PublicKey::from(&secret)` = `EdwardsPoint::mul_base_clamped(secret.0).to_montgomery()`
(`to_montgomery` is the translated item `Dalek.Gen.AlgEdwards.to_montgomery` followed by `as_bytes`) -/
def x25519PublicKeyL (tables : List (List N)) (toMontgomery : E → List UInt8) (secret : List UInt8) :
    Leaky (List UInt8) := do
  let s ← clampL secret
  let p ← mulBaseL ops 4 64 tables s
  call "EdwardsPoint::to_montgomery" (toMontgomery p)

def x25519PublicKeyTrace : Leak :=
  Clamp.clamp_integer.ops ++ mulBaseTrace 4 64 ++ [.call "EdwardsPoint::to_montgomery"]

@[simp] theorem x25519PublicKeyL_trace (tables : List (List N)) (toMontgomery : E → List UInt8)
    (secret : List UInt8) :
    (x25519PublicKeyL ops tables toMontgomery secret).trace = x25519PublicKeyTrace := by
  simp [x25519PublicKeyL, x25519PublicKeyTrace]

end ed25519

/-! ## What stands behind every `call` event -/

/-- status of a callee named in a `call` event -/
inductive Callee where
  /-- translated LimbIR kernels (one per backend): constant trace by `limb_leak_const` -/
  | limb (ps : List Prog)
  /-- translated AlgIR items: constant trace by `alg_leak_const` -/
  | alg (ps : List AProg)
  /-- NOT translated; constant-time by ASSUMPTION at the source level (reason given); covered only by the runtime
  trace comparison of `lib/special.py` -/
  | assumed (why : String)

/-- Every name that occurs in a `call` event of the models above. -/
def callees : List (String × Callee) := [
  ("Identity::identity", .alg [Gen.AlgEdwards.identity, Gen.AlgCurve.ProjectiveNielsPoint_identity,
      Gen.AlgCurve.AffineNielsPoint_identity]),
  ("ConditionallySelectable::conditional_assign", .alg [Gen.AlgCurve.ProjectiveNielsPoint_conditional_assign,
      Gen.AlgCurve.AffineNielsPoint_conditional_assign]),
  ("ConditionallyNegatable::conditional_negate", .alg [Gen.AlgCurve.ProjectiveNielsPoint_neg,
      Gen.AlgCurve.AffineNielsPoint_neg, Gen.AlgCurve.ProjectiveNielsPoint_conditional_assign,
      Gen.AlgCurve.AffineNielsPoint_conditional_assign]),
  ("subtle::u16::ct_eq", .assumed "crate `subtle`: xor / negate / shift on the two u16 values, no jump"),
  ("EdwardsPoint::as_projective", .alg [Gen.AlgEdwards.as_projective]),
  ("EdwardsPoint::as_niels", .alg [Gen.AlgEdwards.as_projective_niels, Gen.AlgEdwards.as_affine_niels]),
  ("EdwardsPoint + NielsPoint", .alg [Gen.AlgCurve.add_ProjectiveNielsPoint, Gen.AlgCurve.add_AffineNielsPoint]),
  ("ProjectivePoint::double", .alg [Gen.AlgCurve.ProjectivePoint_double]),
  ("CompletedPoint::as_projective", .alg [Gen.AlgCurve.CompletedPoint_as_projective]),
  ("CompletedPoint::as_extended", .alg [Gen.AlgCurve.CompletedPoint_as_extended]),
  ("EdwardsPoint::compress", .alg [Gen.AlgEdwards.compress]),
  ("EdwardsPoint::to_montgomery", .alg [Gen.AlgEdwards.to_montgomery]),
  ("FieldElement::from_bytes", .limb [Gen.Field51.from_bytes, Gen.Field26.from_bytes]),
  ("FieldElement::as_bytes", .limb [Gen.Field51.as_bytes, Gen.Field26.as_bytes]),
  ("read_le_u64_into", .assumed "byte loads at literal offsets (`u64::from_le_bytes` on 8-byte chunks)"),
  ("vec![one; n]", .assumed "allocation + fill of `n` copies; depends on the slice length `n` only"),
  ("vec![FieldElement::ONE; n]", .assumed "allocation + fill of `n` copies; depends on the slice length `n` only"),
  ("Zeroize::zeroize(Vec<[i8; 64]>)", .assumed "volatile zero fill of the digit vector; depends on its length only"),
  ("Zeroizing::drop(Vec<[i8; 64]>)", .assumed "volatile zero fill of the digit vector; depends on its length only"),
  ("Zeroize::zeroize(Vec<UnpackedScalar>)", .assumed "volatile zero fill of the scratch vector; depends on its length only"),
  ("Sha512 [ASSUMED: leakage depends on the input LENGTH only]", .assumed "crate `sha2`, outside the repository"),
  ("vector::ExtendedPoint::from", .assumed "SIMD formula (avx2/ifma `edwards.rs`), not translated"),
  ("vector::ExtendedPoint::into", .assumed "SIMD formula, not translated"),
  ("vector::ExtendedPoint::identity", .assumed "SIMD constant"),
  ("vector::ExtendedPoint::double", .assumed "SIMD formula, not translated"),
  ("vector::ExtendedPoint + CachedPoint", .assumed "SIMD formula, not translated"),
  ("vector::CachedPoint::from", .assumed "SIMD formula, not translated")]

/-- the `call` names of a trace -/
def callNames : Leak → List String
  | [] => []
  | .call n :: t => n :: callNames t
  | _ :: t => callNames t

/-- every `call` event of the trace is listed in `callees` -/
def callsAccounted (t : Leak) : Bool := (callNames t).all (fun n => callees.any (fun c => c.1 == n))


theorem callNames_append (a b : Leak) : callNames (a ++ b) = callNames a ++ callNames b := by
  induction a with
  | nil => rfl
  | cons e a ih => cases e <;> simp [callNames, ih]

theorem callNames_E_ops (e : E) : callNames e.ops = [] := by
  induction e <;> simp_all [E.ops, callNames_append, callNames]

theorem callNames_opsBody (ss : List S) : callNames (opsBody ss) = [] := by
  induction ss with
  | nil => rfl
  | cons s ss ih => cases s <;> simp [opsBody, S.ops, callNames_append, callNames_E_ops, callNames, ih]

/-- a translated LimbIR kernel calls nothing -/
@[simp] theorem callNames_Prog_ops (p : Prog) : callNames p.ops = [] := callNames_opsBody p.body

theorem callNames_aopsBody (ss : List AStmt) : callNames (aopsBody ss) = [] := by
  induction ss with
  | nil => rfl
  | cons s ss ih =>
    have : callNames s.op.leak = [] := by cases s.op <;> rfl
    simp [aopsBody, callNames_append, this, ih]

/-- a translated AlgIR item calls nothing -/
@[simp] theorem callNames_AProg_ops (p : AProg) : callNames p.ops = [] := callNames_aopsBody p.body

theorem callNames_flatMap_nil {ι : Type} (xs : List ι) (f : ι → Leak) (h : ∀ x, callNames (f x) = []) :
    callNames (xs.flatMap f) = [] := by
  induction xs with
  | nil => rfl
  | cons x xs ih => simp [List.flatMap_cons, callNames_append, h, ih]

theorem callNames_rep_nil (n : Nat) (c : Leak) (h : callNames c = []) : callNames (rep n c) = [] := by
  induction n with
  | zero => rfl
  | succ n ih =>
    have : rep (n + 1) c = c ++ rep n c := by simp [rep, List.replicate_succ]
    rw [this, callNames_append, h, ih]; rfl

/-- the callees of `Scalar::batch_invert`, for every number of inputs: only the two vector housekeeping calls; all
arithmetic is translated kernels -/
theorem scalarBatchInvert_callNames (n : Nat) :
    callNames (scalarBatchInvertTrace n) = ["vec![one; n]", "Zeroize::zeroize(Vec<UnpackedScalar>)"] := by
  have h1 : ∀ i, callNames (sbiPass1Trace i) = [] := by
    intro i; simp [sbiPass1Trace, callNames_append, callNames]
  have h2 : ∀ i, callNames (sbiPass2Trace i) = [] := by
    intro i; simp [sbiPass2Trace, callNames_append, callNames]
  have h3 : ∀ k, callNames (squareMultiplyTrace k) = [] := by
    intro k
    simp [squareMultiplyTrace, callNames_append, callNames, callNames_rep_nil]
  have h4 : callNames montgomeryInvertTrace = [] := by
    have h5 : callNames (invChain.flatMap (fun st => squareMultiplyTrace st.1)) = [] :=
      callNames_flatMap_nil _ _ (fun st => h3 st.1)
    simp [montgomeryInvertTrace, callNames_append, callNames_rep_nil, h5]
  simp [scalarBatchInvertTrace, callNames_append, callNames, callNames_flatMap_nil _ _ h1,
    callNames_flatMap_nil _ _ h2, h4]

end Dalek.Model.LeakModels

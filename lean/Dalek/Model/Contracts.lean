import Dalek.Gen.All
/-! Bound contracts (pre-conditions) of the translated kernels, and the registry used by
`tools/GenNorm.lean`.  Hand-written: this is the "documented headroom" of property C11 written as
interval vectors.  Mathlib-free. -/
namespace Dalek.Model.Contracts
open Dalek.IR

def ub (h : Nat) : Itv := ⟨0, h, 0⟩
def rep (n : Nat) (t : Itv) : List Itv := List.replicate n t
/-- 10 limbs of the 25.5-bit representation with `e` spare bits each (even limbs 26+e, odd 25+e bits) -/
def l2625 (e : Nat) : List Itv :=
  (List.range 10).map (fun i => ub (2 ^ ((if i % 2 = 0 then 26 else 25) + e) - 1))
/-- the same with a rational excess factor `num/den` (the documentation's `2^b`, e.g. b = 1.75 ↦ 336/100) -/
def l2625f (num den : Nat) : List Itv :=
  (List.range 10).map (fun i => ub (2 ^ (if i % 2 = 0 then 26 else 25) * num / den - 1))
def bytes (n : Nat) : List Itv := rep n (ub 255)

namespace Field51
def pre_add := rep 10 (ub (2 ^ 53 - 1))
def pre_sub := rep 10 (ub (2 ^ 54 - 1))
def pre_mul := rep 10 (ub (2 ^ 54 - 1))
def pre_neg := rep 5 (ub (2 ^ 54 - 1))
def pre_reduce := rep 5 (ub (2 ^ 64 - 1))
def pre_from_bytes := bytes 32
def pre_as_bytes := rep 5 (ub (2 ^ 54 - 1))
def pre_pow2k_body := rep 5 (ub (2 ^ 54 - 1))
def pre_square2_tail := rep 5 (ub (2 ^ 52 - 1))
end Field51

namespace Field26
def pre_add := l2625 1 ++ l2625 1
def pre_sub := l2625 2 ++ l2625 2
/-- documented: first operand b < 2.5 (565/100 ≈ 2^2.5), second operand b < 1.75 (336/100 ≈ 2^1.75) -/
def pre_mul := l2625f 565 100 ++ l2625f 336 100
def pre_neg := l2625 2
def pre_reduce := rep 10 (ub (2 ^ 63 - 1))
def pre_from_bytes := bytes 32
def pre_as_bytes := l2625 2
def pre_square_inner := l2625f 336 100
def pre_square := l2625f 336 100
def pre_square2 := l2625f 336 100
def pre_pow2k_body := l2625f 336 100
end Field26

namespace Scalar52
def lim := ub (2 ^ 52 - 1)
def wide := ub (5 * (2 ^ 52 - 1) * (2 ^ 52 - 1))
def pre_from_bytes := bytes 32
def pre_from_bytes_wide := bytes 64
def pre_as_bytes := rep 5 lim
def pre_add := rep 10 lim
def pre_sub := rep 10 lim
def pre_mul_internal := rep 10 lim
def pre_square_internal := rep 5 lim
def pre_montgomery_reduce := rep 9 wide
def pre_mul := rep 10 lim
def pre_square := rep 5 lim
def pre_montgomery_mul := rep 10 lim
def pre_montgomery_square := rep 5 lim
def pre_as_montgomery := rep 5 lim
def pre_from_montgomery := rep 5 lim
end Scalar52

namespace Scalar29
def lim := ub (2 ^ 29 - 1)
def wide := ub (9 * (2 ^ 29 - 1) * (2 ^ 29 - 1))
def pre_from_bytes := bytes 32
def pre_from_bytes_wide := bytes 64
def pre_as_bytes := rep 9 lim
def pre_add := rep 18 lim
def pre_sub := rep 18 lim
def pre_mul_internal := rep 18 lim
def pre_square_internal := rep 9 lim
def pre_montgomery_reduce := rep 17 wide
def pre_mul := rep 18 lim
def pre_square := rep 9 lim
def pre_montgomery_mul := rep 18 lim
def pre_montgomery_square := rep 9 lim
def pre_as_montgomery := rep 9 lim
def pre_from_montgomery := rep 9 lim
end Scalar29

namespace FiatField51
/-! fiat u64 wrapper backend (`backend/serial/fiat_u64/field.rs` with the called `fiat_crypto::curve25519_64`
functions inlined).  `tight` / `loose` are the bounds documented on `fiat_25519_tight_field_element` /
`fiat_25519_loose_field_element` (inclusive). -/
def tight : Itv := ub 0x8000000000000
def loose : Itv := ub 0x18000000000000
def pre_add := rep 10 tight
def pre_add_ref := rep 10 tight
def pre_sub := rep 10 tight
def pre_sub_assign := rep 10 tight
def pre_mul := rep 10 tight
def pre_mul_assign := rep 10 tight
def pre_neg := rep 5 tight
def pre_reduce := rep 5 loose
def pre_from_bytes := bytes 32
def pre_as_bytes := rep 5 tight
def pre_square := rep 5 tight
def pre_square2 := rep 5 tight
def pre_pow2k_body := rep 5 tight
def pre_conditional_select := rep 10 (ub (2 ^ 64 - 1)) ++ [ub 1]
def pre_conditional_assign := rep 10 (ub (2 ^ 64 - 1)) ++ [ub 1]
def pre_conditional_swap := rep 10 (ub (2 ^ 64 - 1)) ++ [ub 1]
end FiatField51

namespace FiatField26
/-! fiat u32 wrapper backend: even limbs 26 bits, odd limbs 25 bits; documented tight bounds
`0x4000000` / `0x2000000`, loose bounds `0xc000000` / `0x6000000` (inclusive). -/
def tight : List Itv := (List.range 10).map (fun i => ub (if i % 2 = 0 then 0x4000000 else 0x2000000))
def loose : List Itv := (List.range 10).map (fun i => ub (if i % 2 = 0 then 0xc000000 else 0x6000000))
def pre_add := tight ++ tight
def pre_add_ref := tight ++ tight
def pre_sub := tight ++ tight
def pre_sub_assign := tight ++ tight
def pre_mul := tight ++ tight
def pre_mul_assign := tight ++ tight
def pre_neg := tight
def pre_from_bytes := bytes 32
def pre_as_bytes := tight
def pre_square := tight
def pre_square2 := tight
def pre_pow2k_body := tight
def pre_conditional_select := rep 20 (ub (2 ^ 32 - 1)) ++ [ub 1]
def pre_conditional_assign := rep 20 (ub (2 ^ 32 - 1)) ++ [ub 1]
def pre_conditional_swap := rep 20 (ub (2 ^ 32 - 1)) ++ [ub 1]
end FiatField26

namespace Clamp
def pre_clamp_integer := bytes 32
end Clamp

namespace Avx2Field
/-! AVX2 backend (`backend/vector/avx2/field.rs`): a `FieldElement2625x4 = [u32x8; 5]` is 40 u32 lanes; lane
`8 i + j` is lane `j` of vector `i`.  Lane order inside a vector (see `new` / `split`):
`(a_{2i}, b_{2i}, a_{2i+1}, b_{2i+1}, c_{2i}, d_{2i}, c_{2i+1}, d_{2i+1})`, i.e. positions 0,1,4,5 hold the even
(26-bit) limb `2i` and positions 2,3,6,7 the odd (25-bit) limb `2i+1` of the four field elements A,B,C,D. -/
/-- nominal bit size of the limb held in lane `j` (0 ≤ j < 40) -/
def laneBits (j : Nat) : Nat := if (j % 8 / 2) % 2 = 0 then 26 else 25
/-- 40 lanes bounded with excess `b` where `2^b ≈ num/den` (rounded DOWN: the contract is the documented
`lane < 2^(bits + b)` intersected with the integers, up to the rounding of `2^b` to the given decimals) -/
def lanes (num den : Nat) : List Itv := (List.range 40).map (fun j => ub (2 ^ laneBits j * num / den - 1))
/-- any forty u32 lanes -/
def anyU32 : List Itv := rep 40 (ub (2 ^ 32 - 1))
/-- lane-wise `≤` the five given constant vectors -/
def leVecs (vs : List (List Nat)) : List Itv := (vs.flatMap id).map ub
/-- `new`: four `FieldElement51` (limbs `< 2^54`, the serial u64 contract).  (Also passes for limbs `< 2^58`; from
`2^58` on the `as u32` of the high half truncates.) -/
def pre_new := rep 20 (ub (2 ^ 54 - 1))
def pre_split := anyU32
/-- documented: `b < 0.999` (`2^0.999 = 1.99861…`) -/
def pre_negate_lazy := lanes 1998 1000
/-- documented: `b < 0.01` (`2^0.01 = 1.006955…`) -/
def pre_diff_sum := lanes 10069 10000
/-- no documented precondition: any u32 lanes -/
def pre_reduce := anyU32
/-- documented: `b < 4.0`, which is NOT sufficient (lane `< 2^30` does not imply lane `≤ 16 p`-limb
`= 2^30 - 304` resp. `2^30 - 16`, `2^29 - 16`).  The contract is the exact requirement: every lane `≤` the
corresponding lane of `(16p, 16p, 16p, 16p)`. -/
def pre_neg := leVecs (let lo := Dalek.Gen.Consts.Avx2.P_TIMES_16_LO; let hi := Dalek.Gen.Consts.Avx2.P_TIMES_16_HI
  [lo, hi, hi, hi, hi])
/-- no documented precondition: lane-wise sum must fit in a u32; here both operands `< 2^31` -/
def pre_add := rep 80 (ub (2 ^ 31 - 1))
/-- no documented precondition ("small constants"): any u32 lanes, scalars `< 2^31`
(with arbitrary u32 scalars the carry chain of `reduce64` can wrap) -/
def pre_mul_consts := anyU32 ++ rep 4 (ub (2 ^ 31 - 1))
/-- documented: `b < 1.5` (`2^1.5 = 2.82842…`) -/
def pre_square_and_negate_D := lanes 2828 1000
/-- documented: first operand `b < 2.5` (`2^2.5 = 5.65685…`), second operand `b < 1.75` (`2^1.75 = 3.36358…`) -/
def pre_mul := lanes 5656 1000 ++ lanes 3363 1000
/-- no documented precondition (the comments argue with `z[i] < 2^64`); the carry chain needs room for one
carry `< 2^39` in every lane: `z[i] ≤ 2^64 - 2^39` -/
def pre_reduce64 := rep 40 (ub (2 ^ 64 - 2 ^ 39))
def pre_conditional_select := anyU32 ++ anyU32 ++ [ub 1]
def pre_conditional_assign := anyU32 ++ anyU32 ++ [ub 1]
def pre_shuffle_AAAA := anyU32
def pre_shuffle_BBBB := anyU32
def pre_shuffle_CACA := anyU32
def pre_shuffle_DBBD := anyU32
def pre_shuffle_ADDA := anyU32
def pre_shuffle_CBCB := anyU32
def pre_shuffle_ABAB := anyU32
def pre_shuffle_BADC := anyU32
def pre_shuffle_BACD := anyU32
def pre_shuffle_ABDC := anyU32
def pre_blend_C := anyU32 ++ anyU32
def pre_blend_D := anyU32 ++ anyU32
def pre_blend_AB := anyU32 ++ anyU32
def pre_blend_AC := anyU32 ++ anyU32
def pre_blend_CD := anyU32 ++ anyU32
def pre_blend_AD := anyU32 ++ anyU32
def pre_blend_BC := anyU32 ++ anyU32
def pre_blend_ABCD := anyU32 ++ anyU32
end Avx2Field

namespace IfmaField
/-! AVX512-IFMA backend (`backend/vector/ifma/field.rs`): an `F51x4Unreduced` / `F51x4Reduced = [u64x4; 5]` is 20 u64
lanes; lane `4 i + j` is lane `j` of vector `i` and holds limb `i` (radix 2^51) of element `j` of `(A, B, C, D)`.
The source documents no numeric pre/post-conditions; `docs/ifma-notes.md` requires the inputs of a multiplication /
squaring (the type `F51x4Reduced`) to have limbs in `[0, 2^52)`, everything else (`F51x4Unreduced`) is any u64. -/
def anyU64 : List Itv := rep 20 (ub (2 ^ 64 - 1))
/-- limbs in `[0, 2^52)` (`F51x4Reduced`) -/
def reduced : List Itv := rep 20 (ub (2 ^ 52 - 1))
/-- lane-wise `≤` the lanes of `(32p, 32p, 32p, 32p)` (the constants `2^56 − 608`, `2^56 − 32` subtracted from in
`negate_lazy` since /repo commit f67a738) -/
def le32p : List Itv := rep 4 (ub (32 * (2 ^ 51 - 19))) ++ rep 16 (ub (32 * (2 ^ 51 - 1)))
/-- lane-wise `≤` the lanes of `(16p, 16p, 16p, 16p)`: the constants `negate_lazy` subtracted from BEFORE /repo commit
f67a738.  Not a contract of any kernel any more; kept to state that unreduced products can exceed it
(`Dalek.Props.C11.Ifma.mul_output_can_exceed_16p`). -/
def le16p : List Itv := rep 4 (ub (16 * (2 ^ 51 - 19))) ++ rep 16 (ub (16 * (2 ^ 51 - 1)))
def pre_new := anyU64
def pre_split := anyU64
/-- exact requirement of `32p − x` (no documented bound) -/
def pre_negate_lazy := le32p
def pre_diff_sum := le32p
/-- no documented bound: lane-wise sum must fit a u64; here both operands `< 2^63` -/
def pre_add := rep 40 (ub (2 ^ 63 - 1))
def pre_reduce := anyU64
def pre_unreduce := anyU64
def pre_neg := reduced
def pre_mul := reduced ++ reduced
def pre_mul_consts := reduced ++ rep 4 (ub (2 ^ 32 - 1))
def pre_square := reduced
def pre_conditional_select := anyU64 ++ anyU64 ++ [ub 1]
def pre_conditional_assign := anyU64 ++ anyU64 ++ [ub 1]
def pre_shuffle_AAAA := anyU64
def pre_reduced_shuffle_AAAA := anyU64
def pre_shuffle_BBBB := anyU64
def pre_reduced_shuffle_BBBB := anyU64
def pre_shuffle_BADC := anyU64
def pre_reduced_shuffle_BADC := anyU64
def pre_shuffle_BACD := anyU64
def pre_reduced_shuffle_BACD := anyU64
def pre_shuffle_ADDA := anyU64
def pre_reduced_shuffle_ADDA := anyU64
def pre_shuffle_CBCB := anyU64
def pre_reduced_shuffle_CBCB := anyU64
def pre_shuffle_ABDC := anyU64
def pre_reduced_shuffle_ABDC := anyU64
def pre_shuffle_ABAB := anyU64
def pre_reduced_shuffle_ABAB := anyU64
def pre_shuffle_DBBD := anyU64
def pre_reduced_shuffle_DBBD := anyU64
def pre_shuffle_CACA := anyU64
def pre_reduced_shuffle_CACA := anyU64
def pre_blend_D := anyU64 ++ anyU64
def pre_reduced_blend_D := anyU64 ++ anyU64
def pre_blend_C := anyU64 ++ anyU64
def pre_reduced_blend_C := anyU64 ++ anyU64
def pre_blend_AB := anyU64 ++ anyU64
def pre_reduced_blend_AB := anyU64 ++ anyU64
def pre_blend_AC := anyU64 ++ anyU64
def pre_reduced_blend_AC := anyU64 ++ anyU64
def pre_blend_AD := anyU64 ++ anyU64
def pre_reduced_blend_AD := anyU64 ++ anyU64
def pre_blend_BCD := anyU64 ++ anyU64
def pre_reduced_blend_BCD := anyU64 ++ anyU64
end IfmaField

/-- (module, kernel name, program, pre-condition).
Not listed: the composed Scalar29 items `from_bytes_wide, mul, square, montgomery_mul, as_montgomery`: their
Karatsuba `mul_internal` uses wrapping subtraction whose non-wrapping is a relational fact that an interval
analysis cannot see; they are handled compositionally (`mul_internal` + `montgomery_reduce`). -/
def kernels : List (String × String × Prog × List Itv) := [
  ("Field51", "add", Dalek.Gen.Field51.add, Field51.pre_add),
  ("Field51", "sub", Dalek.Gen.Field51.sub, Field51.pre_sub),
  ("Field51", "mul", Dalek.Gen.Field51.mul, Field51.pre_mul),
  ("Field51", "neg", Dalek.Gen.Field51.neg, Field51.pre_neg),
  ("Field51", "reduce", Dalek.Gen.Field51.reduce, Field51.pre_reduce),
  ("Field51", "from_bytes", Dalek.Gen.Field51.from_bytes, Field51.pre_from_bytes),
  ("Field51", "as_bytes", Dalek.Gen.Field51.as_bytes, Field51.pre_as_bytes),
  ("Field51", "pow2k_body", Dalek.Gen.Field51.pow2k_body, Field51.pre_pow2k_body),
  ("Field51", "square2_tail", Dalek.Gen.Field51.square2_tail, Field51.pre_square2_tail),
  ("Field26", "add", Dalek.Gen.Field26.add, Field26.pre_add),
  ("Field26", "sub", Dalek.Gen.Field26.sub, Field26.pre_sub),
  ("Field26", "mul", Dalek.Gen.Field26.mul, Field26.pre_mul),
  ("Field26", "neg", Dalek.Gen.Field26.neg, Field26.pre_neg),
  ("Field26", "reduce", Dalek.Gen.Field26.reduce, Field26.pre_reduce),
  ("Field26", "from_bytes", Dalek.Gen.Field26.from_bytes, Field26.pre_from_bytes),
  ("Field26", "as_bytes", Dalek.Gen.Field26.as_bytes, Field26.pre_as_bytes),
  ("Field26", "square_inner", Dalek.Gen.Field26.square_inner, Field26.pre_square_inner),
  ("Field26", "square", Dalek.Gen.Field26.square, Field26.pre_square),
  ("Field26", "square2", Dalek.Gen.Field26.square2, Field26.pre_square2),
  ("Field26", "pow2k_body", Dalek.Gen.Field26.pow2k_body, Field26.pre_pow2k_body),
  ("Scalar52", "from_bytes", Dalek.Gen.Scalar52.from_bytes, Scalar52.pre_from_bytes),
  ("Scalar52", "from_bytes_wide", Dalek.Gen.Scalar52.from_bytes_wide, Scalar52.pre_from_bytes_wide),
  ("Scalar52", "as_bytes", Dalek.Gen.Scalar52.as_bytes, Scalar52.pre_as_bytes),
  ("Scalar52", "add", Dalek.Gen.Scalar52.add, Scalar52.pre_add),
  ("Scalar52", "sub", Dalek.Gen.Scalar52.sub, Scalar52.pre_sub),
  ("Scalar52", "mul_internal", Dalek.Gen.Scalar52.mul_internal, Scalar52.pre_mul_internal),
  ("Scalar52", "square_internal", Dalek.Gen.Scalar52.square_internal, Scalar52.pre_square_internal),
  ("Scalar52", "montgomery_reduce", Dalek.Gen.Scalar52.montgomery_reduce, Scalar52.pre_montgomery_reduce),
  ("Scalar52", "mul", Dalek.Gen.Scalar52.mul, Scalar52.pre_mul),
  ("Scalar52", "square", Dalek.Gen.Scalar52.square, Scalar52.pre_square),
  ("Scalar52", "montgomery_mul", Dalek.Gen.Scalar52.montgomery_mul, Scalar52.pre_montgomery_mul),
  ("Scalar52", "montgomery_square", Dalek.Gen.Scalar52.montgomery_square, Scalar52.pre_montgomery_square),
  ("Scalar52", "as_montgomery", Dalek.Gen.Scalar52.as_montgomery, Scalar52.pre_as_montgomery),
  ("Scalar52", "from_montgomery", Dalek.Gen.Scalar52.from_montgomery, Scalar52.pre_from_montgomery),
  ("Scalar29", "from_bytes", Dalek.Gen.Scalar29.from_bytes, Scalar29.pre_from_bytes),
  ("Scalar29", "as_bytes", Dalek.Gen.Scalar29.as_bytes, Scalar29.pre_as_bytes),
  ("Scalar29", "add", Dalek.Gen.Scalar29.add, Scalar29.pre_add),
  ("Scalar29", "sub", Dalek.Gen.Scalar29.sub, Scalar29.pre_sub),
  ("Scalar29", "mul_internal", Dalek.Gen.Scalar29.mul_internal, Scalar29.pre_mul_internal),
  ("Scalar29", "square_internal", Dalek.Gen.Scalar29.square_internal, Scalar29.pre_square_internal),
  ("Scalar29", "montgomery_reduce", Dalek.Gen.Scalar29.montgomery_reduce, Scalar29.pre_montgomery_reduce),
  ("Scalar29", "montgomery_square", Dalek.Gen.Scalar29.montgomery_square, Scalar29.pre_montgomery_square),
  ("Scalar29", "from_montgomery", Dalek.Gen.Scalar29.from_montgomery, Scalar29.pre_from_montgomery),
  ("FiatField51", "add", Dalek.Gen.FiatField51.add, FiatField51.pre_add),
  ("FiatField51", "add_ref", Dalek.Gen.FiatField51.add_ref, FiatField51.pre_add_ref),
  ("FiatField51", "sub", Dalek.Gen.FiatField51.sub, FiatField51.pre_sub),
  ("FiatField51", "sub_assign", Dalek.Gen.FiatField51.sub_assign, FiatField51.pre_sub_assign),
  ("FiatField51", "mul", Dalek.Gen.FiatField51.mul, FiatField51.pre_mul),
  ("FiatField51", "mul_assign", Dalek.Gen.FiatField51.mul_assign, FiatField51.pre_mul_assign),
  ("FiatField51", "neg", Dalek.Gen.FiatField51.neg, FiatField51.pre_neg),
  ("FiatField51", "reduce", Dalek.Gen.FiatField51.reduce, FiatField51.pre_reduce),
  ("FiatField51", "from_bytes", Dalek.Gen.FiatField51.from_bytes, FiatField51.pre_from_bytes),
  ("FiatField51", "as_bytes", Dalek.Gen.FiatField51.as_bytes, FiatField51.pre_as_bytes),
  ("FiatField51", "square", Dalek.Gen.FiatField51.square, FiatField51.pre_square),
  ("FiatField51", "square2", Dalek.Gen.FiatField51.square2, FiatField51.pre_square2),
  ("FiatField51", "pow2k_body", Dalek.Gen.FiatField51.pow2k_body, FiatField51.pre_pow2k_body),
  ("FiatField51", "conditional_select", Dalek.Gen.FiatField51.conditional_select, FiatField51.pre_conditional_select),
  ("FiatField51", "conditional_assign", Dalek.Gen.FiatField51.conditional_assign, FiatField51.pre_conditional_assign),
  ("FiatField51", "conditional_swap", Dalek.Gen.FiatField51.conditional_swap, FiatField51.pre_conditional_swap),
  ("FiatField26", "add", Dalek.Gen.FiatField26.add, FiatField26.pre_add),
  ("FiatField26", "add_ref", Dalek.Gen.FiatField26.add_ref, FiatField26.pre_add_ref),
  ("FiatField26", "sub", Dalek.Gen.FiatField26.sub, FiatField26.pre_sub),
  ("FiatField26", "sub_assign", Dalek.Gen.FiatField26.sub_assign, FiatField26.pre_sub_assign),
  ("FiatField26", "mul", Dalek.Gen.FiatField26.mul, FiatField26.pre_mul),
  ("FiatField26", "mul_assign", Dalek.Gen.FiatField26.mul_assign, FiatField26.pre_mul_assign),
  ("FiatField26", "neg", Dalek.Gen.FiatField26.neg, FiatField26.pre_neg),
  ("FiatField26", "from_bytes", Dalek.Gen.FiatField26.from_bytes, FiatField26.pre_from_bytes),
  ("FiatField26", "as_bytes", Dalek.Gen.FiatField26.as_bytes, FiatField26.pre_as_bytes),
  ("FiatField26", "square", Dalek.Gen.FiatField26.square, FiatField26.pre_square),
  ("FiatField26", "square2", Dalek.Gen.FiatField26.square2, FiatField26.pre_square2),
  ("FiatField26", "pow2k_body", Dalek.Gen.FiatField26.pow2k_body, FiatField26.pre_pow2k_body),
  ("FiatField26", "conditional_select", Dalek.Gen.FiatField26.conditional_select, FiatField26.pre_conditional_select),
  ("FiatField26", "conditional_assign", Dalek.Gen.FiatField26.conditional_assign, FiatField26.pre_conditional_assign),
  ("FiatField26", "conditional_swap", Dalek.Gen.FiatField26.conditional_swap, FiatField26.pre_conditional_swap),
  ("Clamp", "clamp_integer", Dalek.Gen.Clamp.clamp_integer, Clamp.pre_clamp_integer),
  ("Avx2Field", "new", Dalek.Gen.Avx2Field.new, Avx2Field.pre_new),
  ("Avx2Field", "split", Dalek.Gen.Avx2Field.split, Avx2Field.pre_split),
  ("Avx2Field", "negate_lazy", Dalek.Gen.Avx2Field.negate_lazy, Avx2Field.pre_negate_lazy),
  ("Avx2Field", "diff_sum", Dalek.Gen.Avx2Field.diff_sum, Avx2Field.pre_diff_sum),
  ("Avx2Field", "reduce", Dalek.Gen.Avx2Field.reduce, Avx2Field.pre_reduce),
  ("Avx2Field", "neg", Dalek.Gen.Avx2Field.neg, Avx2Field.pre_neg),
  ("Avx2Field", "add", Dalek.Gen.Avx2Field.add, Avx2Field.pre_add),
  ("Avx2Field", "mul_consts", Dalek.Gen.Avx2Field.mul_consts, Avx2Field.pre_mul_consts),
  ("Avx2Field", "square_and_negate_D", Dalek.Gen.Avx2Field.square_and_negate_D, Avx2Field.pre_square_and_negate_D),
  ("Avx2Field", "mul", Dalek.Gen.Avx2Field.mul, Avx2Field.pre_mul),
  ("Avx2Field", "reduce64", Dalek.Gen.Avx2Field.reduce64, Avx2Field.pre_reduce64),
  ("Avx2Field", "conditional_select", Dalek.Gen.Avx2Field.conditional_select, Avx2Field.pre_conditional_select),
  ("Avx2Field", "conditional_assign", Dalek.Gen.Avx2Field.conditional_assign, Avx2Field.pre_conditional_assign),
  ("Avx2Field", "shuffle_AAAA", Dalek.Gen.Avx2Field.shuffle_AAAA, Avx2Field.pre_shuffle_AAAA),
  ("Avx2Field", "shuffle_BBBB", Dalek.Gen.Avx2Field.shuffle_BBBB, Avx2Field.pre_shuffle_BBBB),
  ("Avx2Field", "shuffle_CACA", Dalek.Gen.Avx2Field.shuffle_CACA, Avx2Field.pre_shuffle_CACA),
  ("Avx2Field", "shuffle_DBBD", Dalek.Gen.Avx2Field.shuffle_DBBD, Avx2Field.pre_shuffle_DBBD),
  ("Avx2Field", "shuffle_ADDA", Dalek.Gen.Avx2Field.shuffle_ADDA, Avx2Field.pre_shuffle_ADDA),
  ("Avx2Field", "shuffle_CBCB", Dalek.Gen.Avx2Field.shuffle_CBCB, Avx2Field.pre_shuffle_CBCB),
  ("Avx2Field", "shuffle_ABAB", Dalek.Gen.Avx2Field.shuffle_ABAB, Avx2Field.pre_shuffle_ABAB),
  ("Avx2Field", "shuffle_BADC", Dalek.Gen.Avx2Field.shuffle_BADC, Avx2Field.pre_shuffle_BADC),
  ("Avx2Field", "shuffle_BACD", Dalek.Gen.Avx2Field.shuffle_BACD, Avx2Field.pre_shuffle_BACD),
  ("Avx2Field", "shuffle_ABDC", Dalek.Gen.Avx2Field.shuffle_ABDC, Avx2Field.pre_shuffle_ABDC),
  ("Avx2Field", "blend_C", Dalek.Gen.Avx2Field.blend_C, Avx2Field.pre_blend_C),
  ("Avx2Field", "blend_D", Dalek.Gen.Avx2Field.blend_D, Avx2Field.pre_blend_D),
  ("Avx2Field", "blend_AB", Dalek.Gen.Avx2Field.blend_AB, Avx2Field.pre_blend_AB),
  ("Avx2Field", "blend_AC", Dalek.Gen.Avx2Field.blend_AC, Avx2Field.pre_blend_AC),
  ("Avx2Field", "blend_CD", Dalek.Gen.Avx2Field.blend_CD, Avx2Field.pre_blend_CD),
  ("Avx2Field", "blend_AD", Dalek.Gen.Avx2Field.blend_AD, Avx2Field.pre_blend_AD),
  ("Avx2Field", "blend_BC", Dalek.Gen.Avx2Field.blend_BC, Avx2Field.pre_blend_BC),
  ("Avx2Field", "blend_ABCD", Dalek.Gen.Avx2Field.blend_ABCD, Avx2Field.pre_blend_ABCD),
  ("IfmaField", "new", Dalek.Gen.IfmaField.new, IfmaField.pre_new),
  ("IfmaField", "split", Dalek.Gen.IfmaField.split, IfmaField.pre_split),
  ("IfmaField", "negate_lazy", Dalek.Gen.IfmaField.negate_lazy, IfmaField.pre_negate_lazy),
  ("IfmaField", "diff_sum", Dalek.Gen.IfmaField.diff_sum, IfmaField.pre_diff_sum),
  ("IfmaField", "add", Dalek.Gen.IfmaField.add, IfmaField.pre_add),
  ("IfmaField", "reduce", Dalek.Gen.IfmaField.reduce, IfmaField.pre_reduce),
  ("IfmaField", "unreduce", Dalek.Gen.IfmaField.unreduce, IfmaField.pre_unreduce),
  ("IfmaField", "neg", Dalek.Gen.IfmaField.neg, IfmaField.pre_neg),
  ("IfmaField", "mul", Dalek.Gen.IfmaField.mul, IfmaField.pre_mul),
  ("IfmaField", "mul_consts", Dalek.Gen.IfmaField.mul_consts, IfmaField.pre_mul_consts),
  ("IfmaField", "square", Dalek.Gen.IfmaField.square, IfmaField.pre_square),
  ("IfmaField", "conditional_select", Dalek.Gen.IfmaField.conditional_select, IfmaField.pre_conditional_select),
  ("IfmaField", "conditional_assign", Dalek.Gen.IfmaField.conditional_assign, IfmaField.pre_conditional_assign),
  ("IfmaField", "shuffle_AAAA", Dalek.Gen.IfmaField.shuffle_AAAA, IfmaField.pre_shuffle_AAAA),
  ("IfmaField", "reduced_shuffle_AAAA", Dalek.Gen.IfmaField.reduced_shuffle_AAAA, IfmaField.pre_reduced_shuffle_AAAA),
  ("IfmaField", "shuffle_BBBB", Dalek.Gen.IfmaField.shuffle_BBBB, IfmaField.pre_shuffle_BBBB),
  ("IfmaField", "reduced_shuffle_BBBB", Dalek.Gen.IfmaField.reduced_shuffle_BBBB, IfmaField.pre_reduced_shuffle_BBBB),
  ("IfmaField", "shuffle_BADC", Dalek.Gen.IfmaField.shuffle_BADC, IfmaField.pre_shuffle_BADC),
  ("IfmaField", "reduced_shuffle_BADC", Dalek.Gen.IfmaField.reduced_shuffle_BADC, IfmaField.pre_reduced_shuffle_BADC),
  ("IfmaField", "shuffle_BACD", Dalek.Gen.IfmaField.shuffle_BACD, IfmaField.pre_shuffle_BACD),
  ("IfmaField", "reduced_shuffle_BACD", Dalek.Gen.IfmaField.reduced_shuffle_BACD, IfmaField.pre_reduced_shuffle_BACD),
  ("IfmaField", "shuffle_ADDA", Dalek.Gen.IfmaField.shuffle_ADDA, IfmaField.pre_shuffle_ADDA),
  ("IfmaField", "reduced_shuffle_ADDA", Dalek.Gen.IfmaField.reduced_shuffle_ADDA, IfmaField.pre_reduced_shuffle_ADDA),
  ("IfmaField", "shuffle_CBCB", Dalek.Gen.IfmaField.shuffle_CBCB, IfmaField.pre_shuffle_CBCB),
  ("IfmaField", "reduced_shuffle_CBCB", Dalek.Gen.IfmaField.reduced_shuffle_CBCB, IfmaField.pre_reduced_shuffle_CBCB),
  ("IfmaField", "shuffle_ABDC", Dalek.Gen.IfmaField.shuffle_ABDC, IfmaField.pre_shuffle_ABDC),
  ("IfmaField", "reduced_shuffle_ABDC", Dalek.Gen.IfmaField.reduced_shuffle_ABDC, IfmaField.pre_reduced_shuffle_ABDC),
  ("IfmaField", "shuffle_ABAB", Dalek.Gen.IfmaField.shuffle_ABAB, IfmaField.pre_shuffle_ABAB),
  ("IfmaField", "reduced_shuffle_ABAB", Dalek.Gen.IfmaField.reduced_shuffle_ABAB, IfmaField.pre_reduced_shuffle_ABAB),
  ("IfmaField", "shuffle_DBBD", Dalek.Gen.IfmaField.shuffle_DBBD, IfmaField.pre_shuffle_DBBD),
  ("IfmaField", "reduced_shuffle_DBBD", Dalek.Gen.IfmaField.reduced_shuffle_DBBD, IfmaField.pre_reduced_shuffle_DBBD),
  ("IfmaField", "shuffle_CACA", Dalek.Gen.IfmaField.shuffle_CACA, IfmaField.pre_shuffle_CACA),
  ("IfmaField", "reduced_shuffle_CACA", Dalek.Gen.IfmaField.reduced_shuffle_CACA, IfmaField.pre_reduced_shuffle_CACA),
  ("IfmaField", "blend_D", Dalek.Gen.IfmaField.blend_D, IfmaField.pre_blend_D),
  ("IfmaField", "reduced_blend_D", Dalek.Gen.IfmaField.reduced_blend_D, IfmaField.pre_reduced_blend_D),
  ("IfmaField", "blend_C", Dalek.Gen.IfmaField.blend_C, IfmaField.pre_blend_C),
  ("IfmaField", "reduced_blend_C", Dalek.Gen.IfmaField.reduced_blend_C, IfmaField.pre_reduced_blend_C),
  ("IfmaField", "blend_AB", Dalek.Gen.IfmaField.blend_AB, IfmaField.pre_blend_AB),
  ("IfmaField", "reduced_blend_AB", Dalek.Gen.IfmaField.reduced_blend_AB, IfmaField.pre_reduced_blend_AB),
  ("IfmaField", "blend_AC", Dalek.Gen.IfmaField.blend_AC, IfmaField.pre_blend_AC),
  ("IfmaField", "reduced_blend_AC", Dalek.Gen.IfmaField.reduced_blend_AC, IfmaField.pre_reduced_blend_AC),
  ("IfmaField", "blend_AD", Dalek.Gen.IfmaField.blend_AD, IfmaField.pre_blend_AD),
  ("IfmaField", "reduced_blend_AD", Dalek.Gen.IfmaField.reduced_blend_AD, IfmaField.pre_reduced_blend_AD),
  ("IfmaField", "blend_BCD", Dalek.Gen.IfmaField.blend_BCD, IfmaField.pre_blend_BCD),
  ("IfmaField", "reduced_blend_BCD", Dalek.Gen.IfmaField.reduced_blend_BCD, IfmaField.pre_reduced_blend_BCD)
]

end Dalek.Model.Contracts

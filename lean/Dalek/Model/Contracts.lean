import Dalek.Gen.All
/-! Bound contracts (pre-conditions) of the translated kernels, and the registry used by
`tools/GenNorm.lean`.  Hand-written: this is the "documented headroom" of property C11 written as
interval vectors.  Mathlib-free. -/
namespace Dalek.Model.Contracts
open Dalek.IR

def ub (h : Nat) : Itv := ⟨0, h, 0⟩
def rep (n : Nat) (t : Itv) : List Itv := List.replicate n t
/-- 10 limbs of the 25.5-bit representation with `e` spare bits each (even limbs 26+e, odd 25+e bits) -/
def l2625 (e : Nat) : List Itv :=
  (List.range 10).map (fun i => ub (2 ^ ((if i % 2 = 0 then 26 else 25) + e) - 1))
/-- the same with a rational excess factor `num/den` (the documentation's `2^b`, e.g. b = 1.75 ↦ 336/100) -/
def l2625f (num den : Nat) : List Itv :=
  (List.range 10).map (fun i => ub (2 ^ (if i % 2 = 0 then 26 else 25) * num / den - 1))
def bytes (n : Nat) : List Itv := rep n (ub 255)

namespace Field51
def pre_add := rep 10 (ub (2 ^ 53 - 1))
def pre_sub := rep 10 (ub (2 ^ 54 - 1))
def pre_mul := rep 10 (ub (2 ^ 54 - 1))
def pre_neg := rep 5 (ub (2 ^ 54 - 1))
def pre_reduce := rep 5 (ub (2 ^ 64 - 1))
def pre_from_bytes := bytes 32
def pre_as_bytes := rep 5 (ub (2 ^ 54 - 1))
def pre_pow2k_body := rep 5 (ub (2 ^ 54 - 1))
def pre_square2_tail := rep 5 (ub (2 ^ 52 - 1))
end Field51

namespace Field26
def pre_add := l2625 1 ++ l2625 1
def pre_sub := l2625 2 ++ l2625 2
/-- documented: first operand b < 2.5 (565/100 ≈ 2^2.5), second operand b < 1.75 (336/100 ≈ 2^1.75) -/
def pre_mul := l2625f 565 100 ++ l2625f 336 100
def pre_neg := l2625 2
def pre_reduce := rep 10 (ub (2 ^ 63 - 1))
def pre_from_bytes := bytes 32
def pre_as_bytes := l2625 2
def pre_square_inner := l2625f 336 100
def pre_square := l2625f 336 100
def pre_square2 := l2625f 336 100
def pre_pow2k_body := l2625f 336 100
end Field26

namespace Scalar52
def lim := ub (2 ^ 52 - 1)
def wide := ub (5 * (2 ^ 52 - 1) * (2 ^ 52 - 1))
def pre_from_bytes := bytes 32
def pre_from_bytes_wide := bytes 64
def pre_as_bytes := rep 5 lim
def pre_add := rep 10 lim
def pre_sub := rep 10 lim
def pre_mul_internal := rep 10 lim
def pre_square_internal := rep 5 lim
def pre_montgomery_reduce := rep 9 wide
def pre_mul := rep 10 lim
def pre_square := rep 5 lim
def pre_montgomery_mul := rep 10 lim
def pre_montgomery_square := rep 5 lim
def pre_as_montgomery := rep 5 lim
def pre_from_montgomery := rep 5 lim
end Scalar52

namespace Scalar29
def lim := ub (2 ^ 29 - 1)
def wide := ub (9 * (2 ^ 29 - 1) * (2 ^ 29 - 1))
def pre_from_bytes := bytes 32
def pre_from_bytes_wide := bytes 64
def pre_as_bytes := rep 9 lim
def pre_add := rep 18 lim
def pre_sub := rep 18 lim
def pre_mul_internal := rep 18 lim
def pre_square_internal := rep 9 lim
def pre_montgomery_reduce := rep 17 wide
def pre_mul := rep 18 lim
def pre_square := rep 9 lim
def pre_montgomery_mul := rep 18 lim
def pre_montgomery_square := rep 9 lim
def pre_as_montgomery := rep 9 lim
def pre_from_montgomery := rep 9 lim
end Scalar29

namespace Clamp
def pre_clamp_integer := bytes 32
end Clamp

/-- (module, kernel name, program, pre-condition).
Not listed: the composed Scalar29 items `from_bytes_wide, mul, square, montgomery_mul, as_montgomery`: their
Karatsuba `mul_internal` uses wrapping subtraction whose non-wrapping is a relational fact that an interval
analysis cannot see; they are handled compositionally (`mul_internal` + `montgomery_reduce`). -/
def kernels : List (String × String × Prog × List Itv) := [
  ("Field51", "add", Dalek.Gen.Field51.add, Field51.pre_add),
  ("Field51", "sub", Dalek.Gen.Field51.sub, Field51.pre_sub),
  ("Field51", "mul", Dalek.Gen.Field51.mul, Field51.pre_mul),
  ("Field51", "neg", Dalek.Gen.Field51.neg, Field51.pre_neg),
  ("Field51", "reduce", Dalek.Gen.Field51.reduce, Field51.pre_reduce),
  ("Field51", "from_bytes", Dalek.Gen.Field51.from_bytes, Field51.pre_from_bytes),
  ("Field51", "as_bytes", Dalek.Gen.Field51.as_bytes, Field51.pre_as_bytes),
  ("Field51", "pow2k_body", Dalek.Gen.Field51.pow2k_body, Field51.pre_pow2k_body),
  ("Field51", "square2_tail", Dalek.Gen.Field51.square2_tail, Field51.pre_square2_tail),
  ("Field26", "add", Dalek.Gen.Field26.add, Field26.pre_add),
  ("Field26", "sub", Dalek.Gen.Field26.sub, Field26.pre_sub),
  ("Field26", "mul", Dalek.Gen.Field26.mul, Field26.pre_mul),
  ("Field26", "neg", Dalek.Gen.Field26.neg, Field26.pre_neg),
  ("Field26", "reduce", Dalek.Gen.Field26.reduce, Field26.pre_reduce),
  ("Field26", "from_bytes", Dalek.Gen.Field26.from_bytes, Field26.pre_from_bytes),
  ("Field26", "as_bytes", Dalek.Gen.Field26.as_bytes, Field26.pre_as_bytes),
  ("Field26", "square_inner", Dalek.Gen.Field26.square_inner, Field26.pre_square_inner),
  ("Field26", "square", Dalek.Gen.Field26.square, Field26.pre_square),
  ("Field26", "square2", Dalek.Gen.Field26.square2, Field26.pre_square2),
  ("Field26", "pow2k_body", Dalek.Gen.Field26.pow2k_body, Field26.pre_pow2k_body),
  ("Scalar52", "from_bytes", Dalek.Gen.Scalar52.from_bytes, Scalar52.pre_from_bytes),
  ("Scalar52", "from_bytes_wide", Dalek.Gen.Scalar52.from_bytes_wide, Scalar52.pre_from_bytes_wide),
  ("Scalar52", "as_bytes", Dalek.Gen.Scalar52.as_bytes, Scalar52.pre_as_bytes),
  ("Scalar52", "add", Dalek.Gen.Scalar52.add, Scalar52.pre_add),
  ("Scalar52", "sub", Dalek.Gen.Scalar52.sub, Scalar52.pre_sub),
  ("Scalar52", "mul_internal", Dalek.Gen.Scalar52.mul_internal, Scalar52.pre_mul_internal),
  ("Scalar52", "square_internal", Dalek.Gen.Scalar52.square_internal, Scalar52.pre_square_internal),
  ("Scalar52", "montgomery_reduce", Dalek.Gen.Scalar52.montgomery_reduce, Scalar52.pre_montgomery_reduce),
  ("Scalar52", "mul", Dalek.Gen.Scalar52.mul, Scalar52.pre_mul),
  ("Scalar52", "square", Dalek.Gen.Scalar52.square, Scalar52.pre_square),
  ("Scalar52", "montgomery_mul", Dalek.Gen.Scalar52.montgomery_mul, Scalar52.pre_montgomery_mul),
  ("Scalar52", "montgomery_square", Dalek.Gen.Scalar52.montgomery_square, Scalar52.pre_montgomery_square),
  ("Scalar52", "as_montgomery", Dalek.Gen.Scalar52.as_montgomery, Scalar52.pre_as_montgomery),
  ("Scalar52", "from_montgomery", Dalek.Gen.Scalar52.from_montgomery, Scalar52.pre_from_montgomery),
  ("Scalar29", "from_bytes", Dalek.Gen.Scalar29.from_bytes, Scalar29.pre_from_bytes),
  ("Scalar29", "as_bytes", Dalek.Gen.Scalar29.as_bytes, Scalar29.pre_as_bytes),
  ("Scalar29", "add", Dalek.Gen.Scalar29.add, Scalar29.pre_add),
  ("Scalar29", "sub", Dalek.Gen.Scalar29.sub, Scalar29.pre_sub),
  ("Scalar29", "mul_internal", Dalek.Gen.Scalar29.mul_internal, Scalar29.pre_mul_internal),
  ("Scalar29", "square_internal", Dalek.Gen.Scalar29.square_internal, Scalar29.pre_square_internal),
  ("Scalar29", "montgomery_reduce", Dalek.Gen.Scalar29.montgomery_reduce, Scalar29.pre_montgomery_reduce),
  ("Scalar29", "montgomery_square", Dalek.Gen.Scalar29.montgomery_square, Scalar29.pre_montgomery_square),
  ("Scalar29", "from_montgomery", Dalek.Gen.Scalar29.from_montgomery, Scalar29.pre_from_montgomery),
  ("Clamp", "clamp_integer", Dalek.Gen.Clamp.clamp_integer, Clamp.pre_clamp_integer)
]

end Dalek.Model.Contracts

import Dalek.Gen.HashInventory
import Dalek.Model.PanicTable
/-!
Expected HASH / TRANSCRIPT INPUT SEQUENCES of the three crates — reviewed against RFC 8032 (sections 5.1.5–5.1.7 and the `dom2`
prefix), the batch-verification transcript of `ed25519-dalek/src/batch.rs`'s documentation, and the hash-to-scalar / hash-to-group
maps.  Each entry is `(position inside the function, key)` with `key` the numeric encoding of `(file, function, kind, text)`;
`Props/C08/HashInputs.lean` proves that the inventory REGENERATED from the source (`Dalek.Gen.HashInventory`) is exactly this list:
what is absorbed into each hash, in which order, and WHICH digest each generic helper is instantiated with, cannot change without
breaking that theorem.  Mathlib-free.  (First written by tools/oneoff/gen_hashtable.py from the pinned tree, then reviewed.)
-/
namespace Dalek.Model.HashTable
open Dalek.Model.PanicTable

def expected : List (Nat × Nat) := [
  -- curve25519-dalek/src/edwards.rs  EdwardsPoint::nonspec_map_to_curve
  --   hash-to-curve (non-spec Elligator): H(bytes), first 32 bytes of the digest are the field element
  (0, sitekey% "curve25519-dalek/src/edwards.rs" "EdwardsPoint::nonspec_map_to_curve" "new" "D::new()"),
  (1, sitekey% "curve25519-dalek/src/edwards.rs" "EdwardsPoint::nonspec_map_to_curve" "update" "update(bytes)"),
  (2, sitekey% "curve25519-dalek/src/edwards.rs" "EdwardsPoint::nonspec_map_to_curve" "finalize" "finalize()"),
  -- curve25519-dalek/src/ristretto.rs  RistrettoPoint::hash_from_bytes
  --   ristretto255 one-way map applied to H(input) (RFC 9496 4.3.4 takes the 64 uniform bytes)
  (0, sitekey% "curve25519-dalek/src/ristretto.rs" "RistrettoPoint::hash_from_bytes" "new" "D::default()"),
  (1, sitekey% "curve25519-dalek/src/ristretto.rs" "RistrettoPoint::hash_from_bytes" "update" "update(input)"),
  (2, sitekey% "curve25519-dalek/src/ristretto.rs" "RistrettoPoint::hash_from_bytes" "from_hash" "from_hash(hash)"),
  -- curve25519-dalek/src/scalar.rs  Scalar::hash_from_bytes
  --   hash-to-scalar: H(input) reduced mod l
  (0, sitekey% "curve25519-dalek/src/scalar.rs" "Scalar::hash_from_bytes" "new" "D::default()"),
  (1, sitekey% "curve25519-dalek/src/scalar.rs" "Scalar::hash_from_bytes" "update" "update(input)"),
  (2, sitekey% "curve25519-dalek/src/scalar.rs" "Scalar::hash_from_bytes" "from_hash" "from_hash(hash)"),
  -- ed25519-dalek/src/batch.rs  verify_batch
  --   batch verification transcript: per entry h_i = SHA-512(R_i || A_i || M_i); transcript: all "hram" = h_i in order, then all "sig.s" = s_i in order; then the RNG is built and finalized
  (0, sitekey% "ed25519-dalek/src/batch.rs" "verify_batch" "new" "Transcript::new(b\"ed25519 batch verification\")"),
  (1, sitekey% "ed25519-dalek/src/batch.rs" "verify_batch" "new" "Sha512::default()"),
  (2, sitekey% "ed25519-dalek/src/batch.rs" "verify_batch" "update" "update(signatures[i].r_bytes())"),
  (3, sitekey% "ed25519-dalek/src/batch.rs" "verify_batch" "update" "update(verifying_keys[i].as_bytes())"),
  (4, sitekey% "ed25519-dalek/src/batch.rs" "verify_batch" "update" "update(messages[i])"),
  (5, sitekey% "ed25519-dalek/src/batch.rs" "verify_batch" "finalize" "finalize()"),
  (6, sitekey% "ed25519-dalek/src/batch.rs" "verify_batch" "append" "append_message(b\"hram\", hram)"),
  (7, sitekey% "ed25519-dalek/src/batch.rs" "verify_batch" "append" "append_message(b\"sig.s\", sig.s_bytes())"),
  (8, sitekey% "ed25519-dalek/src/batch.rs" "verify_batch" "finalize" "build_rng()"),
  (9, sitekey% "ed25519-dalek/src/batch.rs" "verify_batch" "finalize" "finalize(&mut ZeroRng)"),
  -- ed25519-dalek/src/hazmat.rs  raw_sign
  --   digest type arguments: the generic helper is instantiated with the CALLER's context digest (hazmat) resp. with SHA-512 (every spec-compliant entry point)
  (0, sitekey% "ed25519-dalek/src/hazmat.rs" "raw_sign" "digest_arg" "raw_sign::< CtxDigest >"),
  -- ed25519-dalek/src/hazmat.rs  raw_sign_prehashed
  --   digest type arguments: the generic helper is instantiated with the CALLER's context digest (hazmat) resp. with SHA-512 (every spec-compliant entry point)
  (0, sitekey% "ed25519-dalek/src/hazmat.rs" "raw_sign_prehashed" "digest_arg" "raw_sign_prehashed::< CtxDigest, MsgDigest >"),
  -- ed25519-dalek/src/hazmat.rs  raw_verify
  --   digest type arguments: the generic helper is instantiated with the CALLER's context digest (hazmat) resp. with SHA-512 (every spec-compliant entry point)
  (0, sitekey% "ed25519-dalek/src/hazmat.rs" "raw_verify" "digest_arg" "raw_verify::< CtxDigest >"),
  -- ed25519-dalek/src/hazmat.rs  raw_verify_prehashed
  --   digest type arguments: the generic helper is instantiated with the CALLER's context digest (hazmat) resp. with SHA-512 (every spec-compliant entry point)
  (0, sitekey% "ed25519-dalek/src/hazmat.rs" "raw_verify_prehashed" "digest_arg" "raw_verify_prehashed::< CtxDigest, MsgDigest >"),
  -- ed25519-dalek/src/signing.rs  SigningKey::sign_prehashed
  --   digest type arguments: the generic helper is instantiated with the CALLER's context digest (hazmat) resp. with SHA-512 (every spec-compliant entry point)
  (0, sitekey% "ed25519-dalek/src/signing.rs" "SigningKey::sign_prehashed" "digest_arg" "raw_sign_prehashed::< Sha512, MsgDigest >"),
  -- ed25519-dalek/src/signing.rs  SigningKey::to_scalar_bytes
  --   RFC 8032 5.1.5 step 1: h = SHA-512(seed)
  (0, sitekey% "ed25519-dalek/src/signing.rs" "SigningKey::to_scalar_bytes" "new" "Sha512::default()"),
  (1, sitekey% "ed25519-dalek/src/signing.rs" "SigningKey::to_scalar_bytes" "update" "chain_update(self.secret_key)"),
  (2, sitekey% "ed25519-dalek/src/signing.rs" "SigningKey::to_scalar_bytes" "finalize" "finalize()"),
  -- ed25519-dalek/src/signing.rs  <SigningKey as Signer<Signature>>::try_sign
  --   digest type arguments: the generic helper is instantiated with the CALLER's context digest (hazmat) resp. with SHA-512 (every spec-compliant entry point)
  (0, sitekey% "ed25519-dalek/src/signing.rs" "<SigningKey as Signer<Signature>>::try_sign" "digest_arg" "raw_sign::< Sha512 >"),
  -- ed25519-dalek/src/signing.rs  <ExpandedSecretKey as From<SecretKey>>::from
  --   RFC 8032 5.1.5 step 1: h = SHA-512(seed); lower half -> clamped scalar, upper half -> prefix
  (0, sitekey% "ed25519-dalek/src/signing.rs" "<ExpandedSecretKey as From<SecretKey>>::from" "new" "Sha512::default()"),
  (1, sitekey% "ed25519-dalek/src/signing.rs" "<ExpandedSecretKey as From<SecretKey>>::from" "update" "chain_update(secret_key)"),
  (2, sitekey% "ed25519-dalek/src/signing.rs" "<ExpandedSecretKey as From<SecretKey>>::from" "finalize" "finalize()"),
  -- ed25519-dalek/src/signing.rs  ExpandedSecretKey::raw_sign
  --   RFC 8032 5.1.6: r = H(prefix || M); k = H(R || A || M)
  (0, sitekey% "ed25519-dalek/src/signing.rs" "ExpandedSecretKey::raw_sign" "new" "CtxDigest::new()"),
  (1, sitekey% "ed25519-dalek/src/signing.rs" "ExpandedSecretKey::raw_sign" "update" "update(self.hash_prefix)"),
  (2, sitekey% "ed25519-dalek/src/signing.rs" "ExpandedSecretKey::raw_sign" "update" "update(message)"),
  (3, sitekey% "ed25519-dalek/src/signing.rs" "ExpandedSecretKey::raw_sign" "from_hash" "from_hash(h)"),
  (4, sitekey% "ed25519-dalek/src/signing.rs" "ExpandedSecretKey::raw_sign" "new" "CtxDigest::new()"),
  (5, sitekey% "ed25519-dalek/src/signing.rs" "ExpandedSecretKey::raw_sign" "update" "update(R.as_bytes())"),
  (6, sitekey% "ed25519-dalek/src/signing.rs" "ExpandedSecretKey::raw_sign" "update" "update(verifying_key.as_bytes())"),
  (7, sitekey% "ed25519-dalek/src/signing.rs" "ExpandedSecretKey::raw_sign" "update" "update(message)"),
  (8, sitekey% "ed25519-dalek/src/signing.rs" "ExpandedSecretKey::raw_sign" "from_hash" "from_hash(h)"),
  -- ed25519-dalek/src/signing.rs  ExpandedSecretKey::raw_sign_prehashed
  --   RFC 8032 5.1.6 with dom2(1, ctx) = "SigEd25519 no Ed25519 collisions" || 0x01 || len(ctx) || ctx: r = H(dom2 || prefix || PH(M)); k = H(dom2 || R || A || PH(M)); PH(M) = finalize() of the message digest
  (0, sitekey% "ed25519-dalek/src/signing.rs" "ExpandedSecretKey::raw_sign_prehashed" "finalize" "finalize()"),
  (1, sitekey% "ed25519-dalek/src/signing.rs" "ExpandedSecretKey::raw_sign_prehashed" "new" "CtxDigest::new()"),
  (2, sitekey% "ed25519-dalek/src/signing.rs" "ExpandedSecretKey::raw_sign_prehashed" "update" "chain_update(b\"SigEd25519 no Ed25519 collisions\")"),
  (3, sitekey% "ed25519-dalek/src/signing.rs" "ExpandedSecretKey::raw_sign_prehashed" "update" "chain_update([1])"),
  (4, sitekey% "ed25519-dalek/src/signing.rs" "ExpandedSecretKey::raw_sign_prehashed" "update" "chain_update([ctx_len])"),
  (5, sitekey% "ed25519-dalek/src/signing.rs" "ExpandedSecretKey::raw_sign_prehashed" "update" "chain_update(ctx)"),
  (6, sitekey% "ed25519-dalek/src/signing.rs" "ExpandedSecretKey::raw_sign_prehashed" "update" "chain_update(self.hash_prefix)"),
  (7, sitekey% "ed25519-dalek/src/signing.rs" "ExpandedSecretKey::raw_sign_prehashed" "update" "chain_update(&prehash[..])"),
  (8, sitekey% "ed25519-dalek/src/signing.rs" "ExpandedSecretKey::raw_sign_prehashed" "from_hash" "from_hash(h)"),
  (9, sitekey% "ed25519-dalek/src/signing.rs" "ExpandedSecretKey::raw_sign_prehashed" "new" "CtxDigest::new()"),
  (10, sitekey% "ed25519-dalek/src/signing.rs" "ExpandedSecretKey::raw_sign_prehashed" "update" "chain_update(b\"SigEd25519 no Ed25519 collisions\")"),
  (11, sitekey% "ed25519-dalek/src/signing.rs" "ExpandedSecretKey::raw_sign_prehashed" "update" "chain_update([1])"),
  (12, sitekey% "ed25519-dalek/src/signing.rs" "ExpandedSecretKey::raw_sign_prehashed" "update" "chain_update([ctx_len])"),
  (13, sitekey% "ed25519-dalek/src/signing.rs" "ExpandedSecretKey::raw_sign_prehashed" "update" "chain_update(ctx)"),
  (14, sitekey% "ed25519-dalek/src/signing.rs" "ExpandedSecretKey::raw_sign_prehashed" "update" "chain_update(R.as_bytes())"),
  (15, sitekey% "ed25519-dalek/src/signing.rs" "ExpandedSecretKey::raw_sign_prehashed" "update" "chain_update(verifying_key.as_bytes())"),
  (16, sitekey% "ed25519-dalek/src/signing.rs" "ExpandedSecretKey::raw_sign_prehashed" "update" "chain_update(&prehash[..])"),
  (17, sitekey% "ed25519-dalek/src/signing.rs" "ExpandedSecretKey::raw_sign_prehashed" "from_hash" "from_hash(h)"),
  -- ed25519-dalek/src/verifying.rs  VerifyingKey::compute_challenge
  --   RFC 8032 5.1.7: k = H([dom2(1, ctx) if prehashed] || R || A || M)
  (0, sitekey% "ed25519-dalek/src/verifying.rs" "VerifyingKey::compute_challenge" "new" "CtxDigest::new()"),
  (1, sitekey% "ed25519-dalek/src/verifying.rs" "VerifyingKey::compute_challenge" "cond" "if let Some(c) = context { 4 update(s) }"),
  (2, sitekey% "ed25519-dalek/src/verifying.rs" "VerifyingKey::compute_challenge" "update" "update(b\"SigEd25519 no Ed25519 collisions\")"),
  (3, sitekey% "ed25519-dalek/src/verifying.rs" "VerifyingKey::compute_challenge" "update" "update([1])"),
  (4, sitekey% "ed25519-dalek/src/verifying.rs" "VerifyingKey::compute_challenge" "update" "update([c.len() as u8])"),
  (5, sitekey% "ed25519-dalek/src/verifying.rs" "VerifyingKey::compute_challenge" "update" "update(c)"),
  (6, sitekey% "ed25519-dalek/src/verifying.rs" "VerifyingKey::compute_challenge" "update" "update(R.as_bytes())"),
  (7, sitekey% "ed25519-dalek/src/verifying.rs" "VerifyingKey::compute_challenge" "update" "update(A.as_bytes())"),
  (8, sitekey% "ed25519-dalek/src/verifying.rs" "VerifyingKey::compute_challenge" "update" "update(M)"),
  (9, sitekey% "ed25519-dalek/src/verifying.rs" "VerifyingKey::compute_challenge" "from_hash" "from_hash(h)"),
  -- ed25519-dalek/src/verifying.rs  VerifyingKey::recompute_R
  --   digest type arguments: the generic helper is instantiated with the CALLER's context digest (hazmat) resp. with SHA-512 (every spec-compliant entry point)
  (0, sitekey% "ed25519-dalek/src/verifying.rs" "VerifyingKey::recompute_R" "digest_arg" "compute_challenge::< CtxDigest >"),
  -- ed25519-dalek/src/verifying.rs  VerifyingKey::raw_verify
  --   digest type arguments: the generic helper is instantiated with the CALLER's context digest (hazmat) resp. with SHA-512 (every spec-compliant entry point)
  (0, sitekey% "ed25519-dalek/src/verifying.rs" "VerifyingKey::raw_verify" "digest_arg" "recompute_R::< CtxDigest >"),
  -- ed25519-dalek/src/verifying.rs  VerifyingKey::raw_verify_prehashed
  --   digest type arguments: the generic helper is instantiated with the CALLER's context digest (hazmat) resp. with SHA-512 (every spec-compliant entry point)
  (0, sitekey% "ed25519-dalek/src/verifying.rs" "VerifyingKey::raw_verify_prehashed" "finalize" "finalize()"),
  (1, sitekey% "ed25519-dalek/src/verifying.rs" "VerifyingKey::raw_verify_prehashed" "digest_arg" "recompute_R::< CtxDigest >"),
  -- ed25519-dalek/src/verifying.rs  VerifyingKey::verify_prehashed
  --   digest type arguments: the generic helper is instantiated with the CALLER's context digest (hazmat) resp. with SHA-512 (every spec-compliant entry point)
  (0, sitekey% "ed25519-dalek/src/verifying.rs" "VerifyingKey::verify_prehashed" "digest_arg" "raw_verify_prehashed::< Sha512, MsgDigest >"),
  -- ed25519-dalek/src/verifying.rs  VerifyingKey::verify_strict
  --   digest type arguments: the generic helper is instantiated with the CALLER's context digest (hazmat) resp. with SHA-512 (every spec-compliant entry point)
  (0, sitekey% "ed25519-dalek/src/verifying.rs" "VerifyingKey::verify_strict" "digest_arg" "recompute_R::< Sha512 >"),
  -- ed25519-dalek/src/verifying.rs  VerifyingKey::verify_prehashed_strict
  --   digest type arguments: the generic helper is instantiated with the CALLER's context digest (hazmat) resp. with SHA-512 (every spec-compliant entry point)
  (0, sitekey% "ed25519-dalek/src/verifying.rs" "VerifyingKey::verify_prehashed_strict" "finalize" "finalize()"),
  (1, sitekey% "ed25519-dalek/src/verifying.rs" "VerifyingKey::verify_prehashed_strict" "digest_arg" "recompute_R::< Sha512 >"),
  -- ed25519-dalek/src/verifying.rs  <VerifyingKey as Verifier<Signature>>::verify
  --   digest type arguments: the generic helper is instantiated with the CALLER's context digest (hazmat) resp. with SHA-512 (every spec-compliant entry point)
  (0, sitekey% "ed25519-dalek/src/verifying.rs" "<VerifyingKey as Verifier<Signature>>::verify" "digest_arg" "raw_verify::< Sha512 >")
]

end Dalek.Model.HashTable

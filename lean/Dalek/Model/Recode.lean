/-
  Dalek.Model.Recode — hand transcriptions of the scalar recodings of
  curve25519-dalek/src/scalar.rs operating on the 32 raw bytes of a `Scalar`:
  `bits_le`, `non_adjacent_form(w)`, `as_radix_16`, `to_radix_2w_size_hint(w)`, `as_radix_2w(w)`.

  `u64` values are `Nat`s kept `< 2^64` by explicit `% 2^64`; `i8` values are `Int`s wrapped with
  `toI8` wherever the Rust code casts or could wrap (release semantics).
-/

namespace Dalek.Model.Recode

/-- Two's-complement wrap of an integer to the `i8` range (`x as i8`). -/
def toI8 (x : Int) : Int := (x + 128) % 256 - 128

def U64 : Nat := 2^64

/-- Little-endian value of up to eight bytes. -/
def leWord : List UInt8 → Nat
  | [] => 0
  | b :: bs => b.toNat + 256 * leWord bs

/-- `read_le_u64_into`: consecutive 8-byte little-endian words (`n` of them). -/
def readLeU64 : Nat → List UInt8 → List Nat
  | 0, _ => []
  | n + 1, bs => leWord (bs.take 8) :: readLeU64 n (bs.drop 8)

/-- `Scalar::bits_le`: the 256 bits, least significant first. -/
def bitsLe (bytes : List UInt8) : List Bool :=
  (List.range 256).map fun i => ((bytes.getD (i >>> 3) 0).toNat >>> (i &&& 7)) &&& 1 == 1

/-- Window extraction shared by `non_adjacent_form` and `as_radix_2w`:
  `x[idx] >> bit` if `single`, else `(x[idx] >> bit) | (x[idx+1] << (64 - bit))` in `u64`. -/
def bitBuf (x : List Nat) (u64Idx bitIdx : Nat) (single : Bool) : Nat :=
  if single then x.getD u64Idx 0 >>> bitIdx
  else (x.getD u64Idx 0 >>> bitIdx) ||| ((x.getD (1 + u64Idx) 0 <<< (64 - bitIdx)) % U64)

/-- The `while pos < 256` loop of `non_adjacent_form` (fuel ≥ 256 suffices: `pos` increases). -/
def nafLoop (w : Nat) (x : List Nat) : Nat → Nat → Nat → List Int → List Int
  | 0, _, _, naf => naf
  | fuel + 1, pos, carry, naf =>
    if pos ≥ 256 then naf
    else
      let width := 1 <<< w
      let windowMask := width - 1
      let u64Idx := pos / 64
      let bitIdx := pos % 64
      let buf := bitBuf x u64Idx bitIdx (bitIdx < 64 - w)
      let window := carry + (buf &&& windowMask)
      if window &&& 1 == 0 then nafLoop w x fuel (pos + 1) carry naf
      else if window < width / 2 then
        nafLoop w x fuel (pos + w) 0 (naf.set pos (toI8 window))
      else
        nafLoop w x fuel (pos + w) 1 (naf.set pos (toI8 (toI8 window - toI8 width)))

/-- `Scalar::non_adjacent_form(w)` (`2 ≤ w ≤ 8`): 256 signed digits. -/
def nonAdjacentForm (bytes : List UInt8) (w : Nat) : List Int :=
  let x := readLeU64 4 bytes ++ [0]       -- `[0u64; 5]` with the low four words filled
  nafLoop w x 256 0 0 (List.replicate 256 0)

/-- Step 1 of `as_radix_16`: radix 256 → radix 16. -/
def nibbles : List UInt8 → List Int
  | [] => []
  | b :: bs => Int.ofNat (b.toNat &&& 15) :: Int.ofNat ((b.toNat >>> 4) &&& 15) :: nibbles bs

/-- Step 2 of `as_radix_16`: recentre all digits but the last from `[0,16)` to `[-8,8)`;
  `c` is the carry already added into the head by the previous iteration. -/
def recenter16 : Int → List Int → List Int
  | _, [] => []
  | c, [x] => [toI8 (x + c)]
  | c, x :: xs =>
    let v := x + c
    let carry := (v + 8) / 16            -- `(output[i] + 8) >> 4` (arithmetic shift = floor)
    toI8 (v - carry * 16) :: recenter16 carry xs

/-- `Scalar::as_radix_16` (requires `bytes[31] ≤ 127`): 64 digits in `[-8, 8]`. -/
def asRadix16 (bytes : List UInt8) : List Int := recenter16 0 (nibbles bytes)

/-- `Scalar::to_radix_2w_size_hint(w)` for `4 ≤ w ≤ 8`. -/
def toRadix2wSizeHint (w : Nat) : Nat :=
  if w == 8 then (256 + w - 1) / w + 1 else (256 + w - 1) / w

/-- The `for i in 0..digits_count` loop of `as_radix_2w`; returns the digits (in order) and the
  final carry. -/
def radix2wLoop (w : Nat) (x : List Nat) : Nat → Nat → Nat → List Int × Nat
  | 0, _, carry => ([], carry)
  | n + 1, i, carry =>
    let radix := 1 <<< w
    let windowMask := radix - 1
    let bitOffset := i * w
    let u64Idx := bitOffset / 64
    let bitIdx := bitOffset % 64
    let buf := bitBuf x u64Idx bitIdx (bitIdx < 64 - w || u64Idx == 3)
    let coef := carry + (buf &&& windowMask)
    let carry' := (coef + radix / 2) >>> w
    let digit := toI8 (Int.ofNat coef - Int.ofNat (carry' <<< w))
    let (ds, c) := radix2wLoop w x n (i + 1) carry'
    (digit :: ds, c)

/-- `Scalar::as_radix_2w(w)` for `4 ≤ w ≤ 8`: 64 signed digits (excess digits zero). -/
def asRadix2w (bytes : List UInt8) (w : Nat) : List Int :=
  if w == 4 then asRadix16 bytes
  else
    let x := readLeU64 4 bytes
    let digitsCount := (256 + w - 1) / w
    let (ds, carry) := radix2wLoop w x digitsCount 0 0
    let digits := ds ++ List.replicate (64 - digitsCount) 0
    if w == 8 then
      digits.set digitsCount (toI8 (digits.getD digitsCount 0 + toI8 (Int.ofNat carry)))
    else
      digits.set (digitsCount - 1)
        (toI8 (digits.getD (digitsCount - 1) 0 + toI8 (Int.ofNat (carry <<< w))))

end Dalek.Model.Recode

/-
Hand model of the byte-level / control-flow wrappers of `curve25519-dalek/src/ristretto.rs` around the
TRANSLATED field formulas (`Dalek.Gen.AlgRistretto.*`, regenerated from the Rust source), run by the
executable interpretation `natOps` over canonical naturals.  Mathlib-free (linked into the model executable).

Hand-written here (everything else is generated):
* `decompress`: `decompress::step_1` (`from_bytes`, `as_bytes` round trip `ct_eq`, `is_negative`), the two
  early-return decisions of `CompressedRistretto::decompress`;
* `compress`, `doubleAndCompressBatch`: the final `as_bytes`;
* `fromUniformBytes`: splitting the 64 bytes, `from_bytes`, the Edwards addition (translated `AlgEdwards.add`);
* `batchInvert`: `FieldElement::batch_invert` (Montgomery's trick with constant-time zero skipping).

A Ristretto point is the quadruple `(X, Y, Z, T)` of its internal `EdwardsPoint`.
-/
import Dalek.Model.AlgNat
import Dalek.Gen.AlgRistretto
import Dalek.Gen.AlgEdwards

namespace Dalek.Model.RistrettoDalek
open Dalek.IR Dalek.Spec Dalek.Gen

/-- internal representative `(X, Y, Z, T)` -/
abbrev RPt := Nat × Nat × Nat × Nat

/-- `decompress::step_1`: `(s_encoding_is_canonical, s_is_negative, s)`.  `from_bytes` ignores bit 255 and
reduces mod p; the encoding is canonical iff `s.as_bytes()` gives the input back. -/
def step1 (b : List UInt8) : Bool × Bool × Nat :=
  let s := feFromBytes b
  let sBytesCheck := feToBytes s
  (sBytesCheck == b, isNeg s, s)

/-- `decompress::step_2` = the translated item, run over canonical naturals:
`[ok, t_is_negative, y_is_zero, X, Y, Z, T]`. -/
def step2 (s : Nat) : List Nat := AlgRistretto.decompress_step_2.run natOps [s]

/-- `CompressedRistretto::decompress` (`CompressedRistretto` is `[u8; 32]`: other lengths are rejected by
`from_slice`). -/
def decompress (b : List UInt8) : Option RPt :=
  if b.length != 32 then none
  else
    let (canonical, sNeg, s) := step1 b
    if !canonical || sNeg then none
    else
      match step2 s with
      | [ok, tNeg, yZero, X, Y, Z, T] =>
        if ok == 0 || tNeg != 0 || yZero != 0 then none else some (X, Y, Z, T)
      | _ => none

/-- field part of `RistrettoPoint::compress`: the translated item (`s` before `as_bytes`) -/
def compressS (p : RPt) : Nat :=
  (AlgRistretto.compress.run natOps [p.1, p.2.1, p.2.2.1, p.2.2.2]).getD 0 0

/-- `RistrettoPoint::compress` -/
def compress (p : RPt) : List UInt8 := feToBytes (compressS p)

/-- `RistrettoPoint::ct_eq` / `==` -/
def ctEq (p q : RPt) : Bool :=
  (AlgRistretto.ct_eq.run natOps
    [p.1, p.2.1, p.2.2.1, p.2.2.2, q.1, q.2.1, q.2.2.1, q.2.2.2]).getD 0 0 != 0

def toRPt (l : List Nat) : RPt := (l.getD 0 0, l.getD 1 0, l.getD 2 0, l.getD 3 0)

/-- `RistrettoPoint::elligator_ristretto_flavor` -/
def elligator (r0 : Nat) : RPt := toRPt (AlgRistretto.elligator_ristretto_flavor.run natOps [r0])

/-- `&EdwardsPoint + &EdwardsPoint` (translated item) -/
def edwardsAdd (p q : RPt) : RPt :=
  toRPt (AlgEdwards.add.run natOps [p.1, p.2.1, p.2.2.1, p.2.2.2, q.1, q.2.1, q.2.2.1, q.2.2.2])

/-- `RistrettoPoint::from_uniform_bytes` (64 bytes) -/
def fromUniformBytes (b : List UInt8) : RPt :=
  let r1 := feFromBytes (b.take 32)
  let R1 := elligator r1
  let r2 := feFromBytes (b.drop 32)
  let R2 := elligator r2
  edwardsAdd R1 R2

/-! ### `double_and_compress_batch` -/

/-- first pass of `FieldElement::batch_invert`: the scratch values (product of the previous nonzero inputs)
and the final accumulator -/
def batchFwd : List Nat → Nat → List Nat × Nat
  | [], acc => ([], acc)
  | x :: xs, acc =>
    let r := batchFwd xs (if x % P == 0 then acc else fmul acc x)
    (acc :: r.1, r.2)

/-- second pass (inputs and scratch reversed), producing the reversed outputs -/
def batchBwd : List Nat → List Nat → Nat → List Nat
  | x :: xs, s :: ss, acc =>
    let nz := !(x % P == 0)
    (if nz then fmul acc s else x) :: batchBwd xs ss (if nz then fmul acc x else acc)
  | _, _, _ => []

/-- `FieldElement::batch_invert` (the `assert!(!acc.is_zero())` cannot fire: zeros are skipped) -/
def batchInvert (xs : List Nat) : List Nat :=
  let r := batchFwd xs 1
  (batchBwd xs.reverse r.1.reverse (finv r.2)).reverse

/-- `BatchCompressState::from(P)`: `[e, f, g, h, eg, fh]` (translated item) -/
def batchState (p : RPt) : List Nat :=
  AlgRistretto.batch_state_from.run natOps [p.1, p.2.1, p.2.2.1, p.2.2.2]

/-- the per-point closure (translated item) followed by `as_bytes` -/
def batchClosure (st : List Nat) (inv : Nat) : List UInt8 :=
  feToBytes ((AlgRistretto.batch_compress_closure.run natOps (st ++ [inv])).getD 0 0)

/-- `RistrettoPoint::double_and_compress_batch` -/
def doubleAndCompressBatch (ps : List RPt) : List (List UInt8) :=
  let states := ps.map batchState
  let invs := batchInvert (states.map fun st => fmul (st.getD 4 0) (st.getD 5 0))
  List.zipWith batchClosure states invs

end Dalek.Model.RistrettoDalek

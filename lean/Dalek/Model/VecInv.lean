import Dalek.Model.Contracts
/-!
# Representation invariants of the vector point types (hand-written; C11)

Interval vectors (one `Itv` per machine word, in the word order of the translated kernels) that every value of the
vector point types satisfies.  `Dalek.Props.C11.VecChain` proves them INDUCTIVE: every parallel point formula of
`backend/vector/{avx2,ifma}/edwards.rs`, run on inputs inside the invariants, calls every field kernel inside the
domain on which it neither overflows nor trips an assertion, and returns values inside the invariants again.
-/
namespace Dalek.Model.VecInv
open Dalek.IR Dalek.Model.Contracts

/-- a serial `FieldElement51` entering / leaving the vector code: limbs `< 2^54` (the documented u64 bound) -/
def fe54 : List Itv := rep 5 (ub (2 ^ 54 - 1))
/-- a `Choice` byte -/
def choice : List Itv := [ub 1]

namespace Avx2
/-- `avx2::ExtendedPoint`: every lane has bit-excess `b < 0.007` (`2^0.007 ≈ 1.0048`): the documented output bound of
`mul`, which produces every `ExtendedPoint` (`new` produces `b < 0.0002`). -/
def invExt : List Itv := Avx2Field.lanes 10048 10000
/-- `avx2::CachedPoint`: every lane `≤` the corresponding lane of `(2p, 2p, 2p, 2p)` — what `negate_lazy` needs and
returns (`CachedPoint::neg` negates lane D lazily); products and `mul_consts` outputs (`b < 0.007`) are inside it. -/
def invCached : List Itv := Avx2Field.leVecs [Dalek.Gen.Consts.Avx2.P_TIMES_2_LO, Dalek.Gen.Consts.Avx2.P_TIMES_2_HI,
  Dalek.Gen.Consts.Avx2.P_TIMES_2_HI, Dalek.Gen.Consts.Avx2.P_TIMES_2_HI, Dalek.Gen.Consts.Avx2.P_TIMES_2_HI]
/-- the four `FieldElement51` returned by `split` (as one 20-word value): limbs `< 2^52` -/
def splitOut : List Itv := rep 20 (ub (2 ^ 52 - 1))
end Avx2

namespace Ifma
/-- `ifma::ExtendedPoint` holds an `F51x4Unreduced`: every limb `≤ 2^55 + 2^20` (products and squares of reduced
operands have limbs up to `2^55 + 2^19`; `new` stores serial limbs `< 2^54`). -/
def invExt : List Itv := rep 20 (ub (2 ^ 55 + 2 ^ 20))
/-- `ifma::CachedPoint` holds an `F51x4Reduced`: every limb `≤ 2^51 + 2^20` -/
def invCached : List Itv := rep 20 (ub (2 ^ 51 + 2 ^ 20))
/-- the four `FieldElement51` returned by `split` after the reduction -/
def splitOut : List Itv := rep 20 (ub (2 ^ 51 + 2 ^ 20))
end Ifma

end Dalek.Model.VecInv

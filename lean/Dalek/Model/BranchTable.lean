import Lean
import Dalek.Gen.BranchInventory

/-!
# C10 — hand-written classification of the branch-site inventory

`Dalek.Gen.BranchInventory.branchSites` (regenerated from the Rust sources on every run) lists every control-flow
construct and every data-to-control conversion in the functions of the constant-time scope: `if` / `if let` /
`while` / `while let` / `match`, `for` loops whose iterator is not a literal range or a slice walk, `return` /
`break` / `continue`, `?`, short-circuit `&&` / `||`, `bool::from(..)`, `.into()` that yields a `bool`
(`let b: bool = c.into()`, or in a fn returning `bool`), `.is_some().into()`, `.unwrap_u8()`, `.unwrap()` /
`.expect(..)`, iterator adaptors and consumers whose control flow depends on the ELEMENTS (`filter`, `skip_while`,
`take_while`, `find`, `position`, `any`, `all`, `contains`, `max`/`min`, sorting, …; kind `iter:<name>`), every assertion macro, and indexing whose index mentions anything but literals and `for`-loop
variables.

The scope (`BRANCH_SCOPE` in `tools/rs2lean/inventory.py`) is *file based with reviewed exclusions*: every
non-test fn of the field / scalar / curve-model / vector backends, `field.rs`, `scalar.rs`, `edwards.rs`,
`ristretto.rs`, `montgomery.rs`, `window.rs`, `traits.rs`, `backend/mod.rs`, the variable-base and Straus
scalar-multiplication files, ed25519 `signing.rs` / `hazmat.rs` and x25519 `x25519.rs` is scanned — so a new
function in these files is in scope by default — except the functions listed in `branchExcludedFns`
(variable-time by contract, `Debug` formatting, serde, NAF tables, verification), which `excludedFnsExpected`
below pins.

This file classifies every site **by hand, after reading it**.  `secretDependent` must not occur.
`Dalek/Props/C10/BranchSites.lean` proves that every regenerated site has an entry, that none is
`secretDependent`, and that the table has no stale entries; a NEW `if` / `bool::from` / data-dependent index in a
constant-time function therefore breaks the build until somebody reads and classifies it.

## Classes

* `publicLoopCounter r` — the condition / index is a function of loop counters and constants only.
* `publicLength r` — depends on lengths of slices / iterators / documents (public).
* `publicParameter r` — depends on a public parameter (window width `w`, radix, squaring count `k`, batch size,
  backend selection, a macro literal, an enum constant written at the call site).
* `debugAssertOnly r` — a `debug_assert*!` (absent from release builds); `r` says why its outcome is the same for
  every value that can reach it.
* `dataOnly r` — a `Choice` is converted to a byte that is used as *data* (mask / shift operand), never as a
  condition.
* `declassifiedResult r` — the bit is the function's own public result (`PartialEq::eq`, `decompress` returning
  `None`, `is_identity`): computed in constant time and converted once at the end.
* `constantOutcome r` — a run-time check whose outcome is provably the same for all inputs.
* `rejectionSampling r` — loop on fresh randomness whose rejected candidates are independent of the result.
* `documentedVartimeCaller r` — the function is documented as not constant-time and has no constant-time caller.
* `secretDependent r` — control flow that depends on secret data.  **Must not exist.**

## Limits

Syntactic: comparisons that yield a `bool` without being branched on (`a == b` stored in a variable), calls into
functions outside the scope, and code generation (a compiler turning a select into a branch) are not seen; those
are covered by the leak models and the run-time trace comparison of C10.
-/

namespace Dalek.Model.BranchTable

open Dalek.Gen.BranchInventory

inductive BranchClass where
  | publicLoopCounter (reason : String)
  | publicLength (reason : String)
  | publicParameter (reason : String)
  | debugAssertOnly (reason : String)
  | dataOnly (reason : String)
  | declassifiedResult (reason : String)
  | constantOutcome (reason : String)
  | rejectionSampling (reason : String)
  | documentedVartimeCaller (reason : String)
  | secretDependent (reason : String)
  deriving Repr

def BranchClass.className : BranchClass → String
  | .publicLoopCounter _ => "publicLoopCounter"
  | .publicLength _ => "publicLength"
  | .publicParameter _ => "publicParameter"
  | .debugAssertOnly _ => "debugAssertOnly"
  | .dataOnly _ => "dataOnly"
  | .declassifiedResult _ => "declassifiedResult"
  | .constantOutcome _ => "constantOutcome"
  | .rejectionSampling _ => "rejectionSampling"
  | .documentedVartimeCaller _ => "documentedVartimeCaller"
  | .secretDependent _ => "secretDependent"

def BranchClass.reason : BranchClass → String
  | .publicLoopCounter r | .publicLength r | .publicParameter r | .debugAssertOnly r | .dataOnly r
  | .declassifiedResult r | .constantOutcome r | .rejectionSampling r | .documentedVartimeCaller r
  | .secretDependent r => r

def BranchClass.isSecretDependent : BranchClass → Bool
  | .secretDependent _ => true
  | _ => false

/-- injective numeric encoding of a site key (same function as `encode_key` in `tools/rs2lean/inventory.py`) -/
def encodeKey (file func kind text : String) : Nat :=
  (file ++ "\x00" ++ func ++ "\x00" ++ kind ++ "\x00" ++ text).toUTF8.foldl (fun n b => n * 256 + b.toNat) 1

structure Entry where
  file : String
  func : String
  kind : String
  text : String
  /-- `encodeKey file func kind text`, computed at elaboration time by `bsite!` -/
  key : Nat
  /-- number of identical occurrences (same key) inside the function that were reviewed -/
  count : Nat
  cls : BranchClass

open Lean Elab Term in
/-- `bsitekey% "file" "func" "kind" "text"` elaborates to the numeral `encodeKey file func kind text`. -/
elab "bsitekey% " a:str b:str c:str d:str : term =>
  return mkNatLit (encodeKey a.getString b.getString c.getString d.getString)

/-- `bsite! file func kind text count class` -/
macro "bsite! " f:str fn:str k:str t:str n:num d:term : term =>
  `(Entry.mk $f $fn $k $t (bsitekey% $f $fn $k $t) $n $d)

/-- The classification table. -/
def table : List Entry := [
  -- -------------------- curve25519-dalek/src/backend/mod.rs
  bsite! "curve25519-dalek/src/backend/mod.rs" "straus_multiscalar_mul"
    "match" "get_selected_backend()" 1
    .publicParameter
      "dispatch on the CPU features / cfg-selected backend, independent of any input",
  bsite! "curve25519-dalek/src/backend/mod.rs" "variable_base_mul"
    "match" "get_selected_backend()" 1
    .publicParameter
      "dispatch on the CPU features / cfg-selected backend, independent of any input",
  -- -------------------- curve25519-dalek/src/backend/serial/fiat_u32/field.rs
  bsite! "curve25519-dalek/src/backend/serial/fiat_u32/field.rs" "<FieldElement2625 as ConditionallySelectable>::conditional_select"
    "unwrap_u8" "choice.unwrap_u8()" 1
    .dataOnly
      "the 0/1 byte is turned into an all-zeros / all-ones mask (or passed to fiat selectznz / a SIMD blend) and used as an operand; no control flow depends on it",
  bsite! "curve25519-dalek/src/backend/serial/fiat_u32/field.rs" "<FieldElement2625 as ConditionallySelectable>::conditional_assign"
    "unwrap_u8" "choice.unwrap_u8()" 1
    .dataOnly
      "the 0/1 byte is turned into an all-zeros / all-ones mask (or passed to fiat selectznz / a SIMD blend) and used as an operand; no control flow depends on it",
  bsite! "curve25519-dalek/src/backend/serial/fiat_u32/field.rs" "FieldElement2625::pow2k"
    "debug_assert!" "debug_assert!(k > 0)" 1
    .debugAssertOnly
      "k is the public squaring count (a literal at every call site)",
  bsite! "curve25519-dalek/src/backend/serial/fiat_u32/field.rs" "FieldElement2625::pow2k"
    "for" "_ in 1 .. k" 1
    .publicParameter
      "k is the public squaring count (a literal at every call site)",
  -- -------------------- curve25519-dalek/src/backend/serial/fiat_u64/field.rs
  bsite! "curve25519-dalek/src/backend/serial/fiat_u64/field.rs" "<FieldElement51 as ConditionallySelectable>::conditional_select"
    "unwrap_u8" "choice.unwrap_u8()" 1
    .dataOnly
      "the 0/1 byte is turned into an all-zeros / all-ones mask (or passed to fiat selectznz / a SIMD blend) and used as an operand; no control flow depends on it",
  bsite! "curve25519-dalek/src/backend/serial/fiat_u64/field.rs" "<FieldElement51 as ConditionallySelectable>::conditional_assign"
    "unwrap_u8" "choice.unwrap_u8()" 1
    .dataOnly
      "the 0/1 byte is turned into an all-zeros / all-ones mask (or passed to fiat selectznz / a SIMD blend) and used as an operand; no control flow depends on it",
  bsite! "curve25519-dalek/src/backend/serial/fiat_u64/field.rs" "FieldElement51::pow2k"
    "if" "k == 0" 1
    .publicParameter
      "k is the public squaring count (a literal at every call site); the loop exit depends on k only",
  bsite! "curve25519-dalek/src/backend/serial/fiat_u64/field.rs" "FieldElement51::pow2k"
    "return" "return output" 1
    .publicParameter
      "k is the public squaring count (a literal at every call site); the loop exit depends on k only",
  -- -------------------- curve25519-dalek/src/backend/serial/scalar_mul/straus.rs
  bsite! "curve25519-dalek/src/backend/serial/scalar_mul/straus.rs" "<Straus as MultiscalarMul>::multiscalar_mul"
    "for" "(s_i, lookup_table_i) in it" 1
    .publicLength
      "it = scalar_digits.iter().zip(lookup_tables.iter()): the trip count is the (public) number of scalar / point pairs",
  -- -------------------- curve25519-dalek/src/backend/serial/u32/field.rs
  bsite! "curve25519-dalek/src/backend/serial/u32/field.rs" "FieldElement2625::pow2k"
    "debug_assert!" "debug_assert!(k > 0)" 1
    .debugAssertOnly
      "k is the public squaring count (a literal at every call site)",
  bsite! "curve25519-dalek/src/backend/serial/u32/field.rs" "FieldElement2625::pow2k"
    "for" "_ in 1 .. k" 1
    .publicParameter
      "k is the public squaring count (a literal at every call site)",
  bsite! "curve25519-dalek/src/backend/serial/u32/field.rs" "FieldElement2625::reduce::carry"
    "debug_assert!" "debug_assert!(i < 9)" 1
    .debugAssertOnly
      "i is a literal limb index at every call site",
  bsite! "curve25519-dalek/src/backend/serial/u32/field.rs" "FieldElement2625::reduce::carry"
    "if" "i % 2 == 0" 1
    .publicLoopCounter
      "i is a literal limb index (0..8) at every call site: parity of a constant",
  bsite! "curve25519-dalek/src/backend/serial/u32/field.rs" "FieldElement2625::reduce::carry"
    "index" "z[i + 1]" 2
    .publicLoopCounter
      "i is a literal limb index (0..8) at every call site",
  bsite! "curve25519-dalek/src/backend/serial/u32/field.rs" "FieldElement2625::reduce::carry"
    "index" "z[i]" 4
    .publicLoopCounter
      "i is a literal limb index (0..8) at every call site",
  bsite! "curve25519-dalek/src/backend/serial/u32/field.rs" "FieldElement2625::as_bytes"
    "debug_assert!" "debug_assert!(q == 0 || q == 1)" 1
    .debugAssertOnly
      "debug builds only; the asserted carry / top-bit facts hold for every input (C01/C11), so the outcome does not depend on the value",
  bsite! "curve25519-dalek/src/backend/serial/u32/field.rs" "FieldElement2625::as_bytes"
    "||" "q == 0 || q == 1" 1
    .debugAssertOnly
      "debug builds only; the asserted carry / top-bit facts hold for every input (C01/C11), so the outcome does not depend on the value",
  bsite! "curve25519-dalek/src/backend/serial/u32/field.rs" "FieldElement2625::as_bytes"
    "debug_assert!" "debug_assert!((h[9] >> 25) == 0 || (h[9] >> 25) == 1)" 1
    .debugAssertOnly
      "debug builds only; the asserted carry / top-bit facts hold for every input (C01/C11), so the outcome does not depend on the value",
  bsite! "curve25519-dalek/src/backend/serial/u32/field.rs" "FieldElement2625::as_bytes"
    "||" "(h[9] >> 25) == 0 || (h[9] >> 25) == 1" 1
    .debugAssertOnly
      "debug builds only; the asserted carry / top-bit facts hold for every input (C01/C11), so the outcome does not depend on the value",
  bsite! "curve25519-dalek/src/backend/serial/u32/field.rs" "FieldElement2625::as_bytes"
    "debug_assert!" "debug_assert!((s[31] & 0b1000_0000u8) == 0u8)" 1
    .debugAssertOnly
      "debug builds only; the asserted carry / top-bit facts hold for every input (C01/C11), so the outcome does not depend on the value",
  bsite! "curve25519-dalek/src/backend/serial/u32/field.rs" "FieldElement2625::square2"
    "for" "coeff in &mut coeffs" 1
    .publicLength
      "walks the 10 limbs of a fixed-size array",
  -- -------------------- curve25519-dalek/src/backend/serial/u32/scalar.rs
  bsite! "curve25519-dalek/src/backend/serial/u32/scalar.rs" "<Scalar29 as Index<usize>>::index"
    "index" "self.0[_index]" 1
    .publicLoopCounter
      "limb accessor; every caller passes a literal limb number or a loop counter over the limbs",
  bsite! "curve25519-dalek/src/backend/serial/u32/scalar.rs" "<Scalar29 as IndexMut<usize>>::index_mut"
    "index" "self.0[_index]" 1
    .publicLoopCounter
      "limb accessor; every caller passes a literal limb number or a loop counter over the limbs",
  -- -------------------- curve25519-dalek/src/backend/serial/u64/field.rs
  bsite! "curve25519-dalek/src/backend/serial/u64/field.rs" "<&FieldElement51 as Mul<FieldElement51>>::mul"
    "debug_assert!" "debug_assert!(a[0] < (1 << 54))" 1
    .debugAssertOnly
      "debug builds only; the limb bound is the kernel contract of C11 and holds for every value that reaches here, so the outcome is constant",
  bsite! "curve25519-dalek/src/backend/serial/u64/field.rs" "<&FieldElement51 as Mul<FieldElement51>>::mul"
    "debug_assert!" "debug_assert!(b[0] < (1 << 54))" 1
    .debugAssertOnly
      "debug builds only; the limb bound is the kernel contract of C11 and holds for every value that reaches here, so the outcome is constant",
  bsite! "curve25519-dalek/src/backend/serial/u64/field.rs" "<&FieldElement51 as Mul<FieldElement51>>::mul"
    "debug_assert!" "debug_assert!(a[1] < (1 << 54))" 1
    .debugAssertOnly
      "debug builds only; the limb bound is the kernel contract of C11 and holds for every value that reaches here, so the outcome is constant",
  bsite! "curve25519-dalek/src/backend/serial/u64/field.rs" "<&FieldElement51 as Mul<FieldElement51>>::mul"
    "debug_assert!" "debug_assert!(b[1] < (1 << 54))" 1
    .debugAssertOnly
      "debug builds only; the limb bound is the kernel contract of C11 and holds for every value that reaches here, so the outcome is constant",
  bsite! "curve25519-dalek/src/backend/serial/u64/field.rs" "<&FieldElement51 as Mul<FieldElement51>>::mul"
    "debug_assert!" "debug_assert!(a[2] < (1 << 54))" 1
    .debugAssertOnly
      "debug builds only; the limb bound is the kernel contract of C11 and holds for every value that reaches here, so the outcome is constant",
  bsite! "curve25519-dalek/src/backend/serial/u64/field.rs" "<&FieldElement51 as Mul<FieldElement51>>::mul"
    "debug_assert!" "debug_assert!(b[2] < (1 << 54))" 1
    .debugAssertOnly
      "debug builds only; the limb bound is the kernel contract of C11 and holds for every value that reaches here, so the outcome is constant",
  bsite! "curve25519-dalek/src/backend/serial/u64/field.rs" "<&FieldElement51 as Mul<FieldElement51>>::mul"
    "debug_assert!" "debug_assert!(a[3] < (1 << 54))" 1
    .debugAssertOnly
      "debug builds only; the limb bound is the kernel contract of C11 and holds for every value that reaches here, so the outcome is constant",
  bsite! "curve25519-dalek/src/backend/serial/u64/field.rs" "<&FieldElement51 as Mul<FieldElement51>>::mul"
    "debug_assert!" "debug_assert!(b[3] < (1 << 54))" 1
    .debugAssertOnly
      "debug builds only; the limb bound is the kernel contract of C11 and holds for every value that reaches here, so the outcome is constant",
  bsite! "curve25519-dalek/src/backend/serial/u64/field.rs" "<&FieldElement51 as Mul<FieldElement51>>::mul"
    "debug_assert!" "debug_assert!(a[4] < (1 << 54))" 1
    .debugAssertOnly
      "debug builds only; the limb bound is the kernel contract of C11 and holds for every value that reaches here, so the outcome is constant",
  bsite! "curve25519-dalek/src/backend/serial/u64/field.rs" "<&FieldElement51 as Mul<FieldElement51>>::mul"
    "debug_assert!" "debug_assert!(b[4] < (1 << 54))" 1
    .debugAssertOnly
      "debug builds only; the limb bound is the kernel contract of C11 and holds for every value that reaches here, so the outcome is constant",
  bsite! "curve25519-dalek/src/backend/serial/u64/field.rs" "FieldElement51::as_bytes"
    "debug_assert!" "debug_assert!((s[31] & 0b1000_0000u8) == 0u8)" 1
    .debugAssertOnly
      "debug builds only; bit 255 of the canonical encoding is always clear, so the outcome does not depend on the value",
  bsite! "curve25519-dalek/src/backend/serial/u64/field.rs" "FieldElement51::pow2k"
    "debug_assert!" "debug_assert!(k > 0)" 1
    .debugAssertOnly
      "k is the public squaring count (a literal at every call site)",
  bsite! "curve25519-dalek/src/backend/serial/u64/field.rs" "FieldElement51::pow2k"
    "debug_assert!" "debug_assert!(a[0] < (1 << 54))" 1
    .debugAssertOnly
      "debug builds only; the limb bound is the kernel contract of C11 and holds for every value that reaches here, so the outcome is constant",
  bsite! "curve25519-dalek/src/backend/serial/u64/field.rs" "FieldElement51::pow2k"
    "debug_assert!" "debug_assert!(a[1] < (1 << 54))" 1
    .debugAssertOnly
      "debug builds only; the limb bound is the kernel contract of C11 and holds for every value that reaches here, so the outcome is constant",
  bsite! "curve25519-dalek/src/backend/serial/u64/field.rs" "FieldElement51::pow2k"
    "debug_assert!" "debug_assert!(a[2] < (1 << 54))" 1
    .debugAssertOnly
      "debug builds only; the limb bound is the kernel contract of C11 and holds for every value that reaches here, so the outcome is constant",
  bsite! "curve25519-dalek/src/backend/serial/u64/field.rs" "FieldElement51::pow2k"
    "debug_assert!" "debug_assert!(a[3] < (1 << 54))" 1
    .debugAssertOnly
      "debug builds only; the limb bound is the kernel contract of C11 and holds for every value that reaches here, so the outcome is constant",
  bsite! "curve25519-dalek/src/backend/serial/u64/field.rs" "FieldElement51::pow2k"
    "debug_assert!" "debug_assert!(a[4] < (1 << 54))" 1
    .debugAssertOnly
      "debug builds only; the limb bound is the kernel contract of C11 and holds for every value that reaches here, so the outcome is constant",
  bsite! "curve25519-dalek/src/backend/serial/u64/field.rs" "FieldElement51::pow2k"
    "if" "k == 0" 1
    .publicParameter
      "k is the public squaring count (a literal at every call site); the loop exit depends on k only",
  bsite! "curve25519-dalek/src/backend/serial/u64/field.rs" "FieldElement51::pow2k"
    "break" "break" 1
    .publicParameter
      "k is the public squaring count (a literal at every call site); the loop exit depends on k only",
  -- -------------------- curve25519-dalek/src/backend/serial/u64/scalar.rs
  bsite! "curve25519-dalek/src/backend/serial/u64/scalar.rs" "<Scalar52 as Index<usize>>::index"
    "index" "self.0[_index]" 1
    .publicLoopCounter
      "limb accessor; every caller passes a literal limb number or a loop counter over the limbs",
  bsite! "curve25519-dalek/src/backend/serial/u64/scalar.rs" "<Scalar52 as IndexMut<usize>>::index_mut"
    "index" "self.0[_index]" 1
    .publicLoopCounter
      "limb accessor; every caller passes a literal limb number or a loop counter over the limbs",
  -- -------------------- curve25519-dalek/src/backend/vector/avx2/edwards.rs
  bsite! "curve25519-dalek/src/backend/vector/avx2/edwards.rs" "ExtendedPoint::mul_by_pow_2"
    "for" "_ in 0 .. k" 1
    .publicParameter
      "k is a literal (4) or the public window width at every call site",
  -- -------------------- curve25519-dalek/src/backend/vector/avx2/field.rs
  bsite! "curve25519-dalek/src/backend/vector/avx2/field.rs" "<FieldElement2625x4 as ConditionallySelectable>::conditional_select"
    "unwrap_u8" "choice.unwrap_u8()" 1
    .dataOnly
      "the 0/1 byte is turned into an all-zeros / all-ones mask (or passed to fiat selectznz / a SIMD blend) and used as an operand; no control flow depends on it",
  bsite! "curve25519-dalek/src/backend/vector/avx2/field.rs" "<FieldElement2625x4 as ConditionallySelectable>::conditional_assign"
    "unwrap_u8" "choice.unwrap_u8()" 1
    .dataOnly
      "the 0/1 byte is turned into an all-zeros / all-ones mask (or passed to fiat selectznz / a SIMD blend) and used as an operand; no control flow depends on it",
  bsite! "curve25519-dalek/src/backend/vector/avx2/field.rs" "FieldElement2625x4::shuffle::shuffle_lanes"
    "match" "control" 1
    .publicParameter
      "control is a Shuffle / Lanes enum constant written literally at every call site (the match is resolved at compile time after inlining)",
  bsite! "curve25519-dalek/src/backend/vector/avx2/field.rs" "FieldElement2625x4::blend::blend_lanes"
    "match" "control" 1
    .publicParameter
      "control is a Shuffle / Lanes enum constant written literally at every call site (the match is resolved at compile time after inlining)",
  bsite! "curve25519-dalek/src/backend/vector/avx2/field.rs" "FieldElement2625x4::reduce64"
    "debug_assert!" "debug_assert!(i < 9)" 1
    .debugAssertOnly
      "i is a literal limb index at every call site",
  bsite! "curve25519-dalek/src/backend/vector/avx2/field.rs" "FieldElement2625x4::reduce64"
    "if" "i % 2 == 0" 1
    .publicLoopCounter
      "i is a literal limb index (0..8) at every call site: parity of a constant",
  bsite! "curve25519-dalek/src/backend/vector/avx2/field.rs" "FieldElement2625x4::reduce64"
    "index" "z[i + 1]" 2
    .publicLoopCounter
      "i is a literal limb index (0..8) at every call site",
  bsite! "curve25519-dalek/src/backend/vector/avx2/field.rs" "FieldElement2625x4::reduce64"
    "index" "z[i]" 4
    .publicLoopCounter
      "i is a literal limb index (0..8) at every call site",
  -- -------------------- curve25519-dalek/src/backend/vector/ifma/edwards.rs
  bsite! "curve25519-dalek/src/backend/vector/ifma/edwards.rs" "ExtendedPoint::mul_by_pow_2"
    "for" "_ in 0 .. k" 1
    .publicParameter
      "k is a literal (4) or the public window width at every call site",
  -- -------------------- curve25519-dalek/src/backend/vector/ifma/field.rs
  bsite! "curve25519-dalek/src/backend/vector/ifma/field.rs" "shuffle_lanes"
    "match" "control" 1
    .publicParameter
      "control is a Shuffle / Lanes enum constant written literally at every call site (the match is resolved at compile time after inlining)",
  bsite! "curve25519-dalek/src/backend/vector/ifma/field.rs" "blend_lanes"
    "match" "control" 1
    .publicParameter
      "control is a Shuffle / Lanes enum constant written literally at every call site (the match is resolved at compile time after inlining)",
  bsite! "curve25519-dalek/src/backend/vector/ifma/field.rs" "<F51x4Reduced as ConditionallySelectable>::conditional_select"
    "unwrap_u8" "choice.unwrap_u8()" 1
    .dataOnly
      "the 0/1 byte is turned into an all-zeros / all-ones mask (or passed to fiat selectznz / a SIMD blend) and used as an operand; no control flow depends on it",
  bsite! "curve25519-dalek/src/backend/vector/ifma/field.rs" "<F51x4Reduced as ConditionallySelectable>::conditional_assign"
    "unwrap_u8" "choice.unwrap_u8()" 1
    .dataOnly
      "the 0/1 byte is turned into an all-zeros / all-ones mask (or passed to fiat selectznz / a SIMD blend) and used as an operand; no control flow depends on it",
  -- -------------------- curve25519-dalek/src/backend/vector/scalar_mul/straus.rs
  bsite! "curve25519-dalek/src/backend/vector/scalar_mul/straus.rs" "spec::<Straus as MultiscalarMul>::multiscalar_mul"
    "for" "(s_i, lookup_table_i) in it" 1
    .publicLength
      "it = scalar_digits.iter().zip(lookup_tables.iter()): the trip count is the (public) number of scalar / point pairs",
  -- -------------------- curve25519-dalek/src/edwards.rs
  bsite! "curve25519-dalek/src/edwards.rs" "CompressedEdwardsY::decompress"
    "if" "is_valid_y_coord.into()" 1
    .declassifiedResult
      "whether the encoding is a valid point is the public result of decompression (None / Some); computed in constant time, one conversion at the end",
  bsite! "curve25519-dalek/src/edwards.rs" "<EdwardsPoint as ValidityCheck>::is_valid"
    "&&" "point_on_curve && on_segre_image" 1
    .documentedVartimeCaller
      "the source documents the validity checks as \"for debugging, not CT\"; the only callers of is_valid are test modules (constants.rs, edwards.rs)",
  bsite! "curve25519-dalek/src/edwards.rs" "<EdwardsPoint as PartialEq>::eq"
    "into_bool" "self.ct_eq(other).into()" 1
    .declassifiedResult
      "the equality bit is computed by the constant-time ct_eq and converted once; it is the function result (using == on secrets is the caller's declassification)",
  bsite! "curve25519-dalek/src/edwards.rs" "EdwardsPoint::compress"
    "unwrap_u8" "x.is_negative().unwrap_u8()" 1
    .dataOnly
      "the sign bit is shifted and XORed into byte 31; no control flow depends on it",
  bsite! "curve25519-dalek/src/edwards.rs" "EdwardsPoint::nonspec_map_to_curve"
    "expect" "E1_opt.expect(\"Montgomery conversion to Edwards point in Elligator failed\")" 1
    .constantOutcome
      "the Option is always Some (fact elligator_on_curve of C15), so the branch inside expect never depends on the input",
  bsite! "curve25519-dalek/src/edwards.rs" "<EdwardsPoint as MultiscalarMul>::multiscalar_mul"
    "assert_eq!" "assert_eq!(s_lo, p_lo)" 1
    .publicLength
      "compares iterator size hints (public lengths)",
  bsite! "curve25519-dalek/src/edwards.rs" "<EdwardsPoint as MultiscalarMul>::multiscalar_mul"
    "assert_eq!" "assert_eq!(s_hi, Some(s_lo))" 1
    .publicLength
      "compares iterator size hints (public lengths)",
  bsite! "curve25519-dalek/src/edwards.rs" "<EdwardsPoint as MultiscalarMul>::multiscalar_mul"
    "assert_eq!" "assert_eq!(p_hi, Some(p_lo))" 1
    .publicLength
      "compares iterator size hints (public lengths)",
  bsite! "curve25519-dalek/src/edwards.rs" "macro_rules!impl_basepoint_table::mul_base"
    "for" "i in (0 .. $adds).filter(| x | x % 2 == 1)" 1
    .publicParameter
      "$adds is a macro literal (64, 52, 43, 37, 33); parity filter on the loop counter",
  bsite! "curve25519-dalek/src/edwards.rs" "macro_rules!impl_basepoint_table::mul_base"
    "for" "i in (0 .. $adds).filter(| x | x % 2 == 0)" 1
    .publicParameter
      "$adds is a macro literal (64, 52, 43, 37, 33); parity filter on the loop counter",
  bsite! "curve25519-dalek/src/edwards.rs" "macro_rules!impl_basepoint_table::mul_base"
    "iter:filter" "(0 .. $adds).filter(| x | x % 2 == 1)" 1
    .publicLoopCounter
      "the closure tests the parity of the loop COUNTER (0..$adds, a macro literal), never an element derived from the scalar",
  bsite! "curve25519-dalek/src/edwards.rs" "macro_rules!impl_basepoint_table::mul_base"
    "iter:filter" "(0 .. $adds).filter(| x | x % 2 == 0)" 1
    .publicLoopCounter
      "the closure tests the parity of the loop COUNTER (0..$adds, a macro literal), never an element derived from the scalar",
  bsite! "curve25519-dalek/src/edwards.rs" "EdwardsPoint::mul_by_pow_2"
    "debug_assert!" "debug_assert!(k > 0)" 1
    .publicParameter
      "k is a literal or the public window width at every call site",
  bsite! "curve25519-dalek/src/edwards.rs" "EdwardsPoint::mul_by_pow_2"
    "for" "_ in 0 .. (k - 1)" 1
    .publicParameter
      "k is a literal or the public window width at every call site",
  bsite! "curve25519-dalek/src/edwards.rs" "<EdwardsPoint as Group>::random"
    "if let" "Some(p) = repr.decompress()" 1
    .rejectionSampling
      "rejection sampling of a fresh random candidate: rejected candidates are independent of the value finally returned",
  bsite! "curve25519-dalek/src/edwards.rs" "<EdwardsPoint as Group>::random"
    "if" "!IsIdentity::is_identity(&p)" 1
    .rejectionSampling
      "rejection sampling of a fresh random candidate: rejected candidates are independent of the value finally returned",
  bsite! "curve25519-dalek/src/edwards.rs" "<EdwardsPoint as Group>::random"
    "break" "break p" 1
    .rejectionSampling
      "rejection sampling of a fresh random candidate: rejected candidates are independent of the value finally returned",
  bsite! "curve25519-dalek/src/edwards.rs" "<SubgroupPoint as Group>::random"
    "if" "!s.is_zero_vartime()" 1
    .rejectionSampling
      "rejection sampling of a fresh random candidate: rejected candidates are independent of the value finally returned",
  bsite! "curve25519-dalek/src/edwards.rs" "<SubgroupPoint as Group>::random"
    "break" "break s" 1
    .rejectionSampling
      "rejection sampling of a fresh random candidate: rejected candidates are independent of the value finally returned",
  -- -------------------- curve25519-dalek/src/field.rs
  bsite! "curve25519-dalek/src/field.rs" "<FieldElement as PartialEq>::eq"
    "into_bool" "self.ct_eq(other).into()" 1
    .declassifiedResult
      "the equality bit is computed by the constant-time ct_eq and converted once; it is the function result (using == on secrets is the caller's declassification)",
  bsite! "curve25519-dalek/src/field.rs" "FieldElement::batch_invert"
    "assert!" "assert!(bool::from(!acc.is_zero()))" 1
    .constantOutcome
      "acc is the product of the non-zero inputs only (zeros are skipped with conditional_assign), hence never zero (fact batch_invert_acc_nonzero of C15): the assertion always passes, its outcome does not depend on the inputs",
  bsite! "curve25519-dalek/src/field.rs" "FieldElement::batch_invert"
    "bool::from" "bool::from(!acc.is_zero())" 1
    .constantOutcome
      "acc is the product of the non-zero inputs only (zeros are skipped with conditional_assign), hence never zero (fact batch_invert_acc_nonzero of C15): the assertion always passes, its outcome does not depend on the inputs",
  -- -------------------- curve25519-dalek/src/montgomery.rs
  bsite! "curve25519-dalek/src/montgomery.rs" "<MontgomeryPoint as PartialEq>::eq"
    "into_bool" "self.ct_eq(other).into()" 1
    .declassifiedResult
      "the equality bit is computed by the constant-time ct_eq and converted once; it is the function result (using == on secrets is the caller's declassification)",
  bsite! "curve25519-dalek/src/montgomery.rs" "MontgomeryPoint::mul_bits_be"
    "for" "cur_bit in bits" 1
    .publicLength
      "the number of bits is fixed by the caller (255 for clamped integers, 256 for Scalar::bits_le); the bit values are consumed by conditional_swap only",
  bsite! "curve25519-dalek/src/montgomery.rs" "MontgomeryPoint::mul_bits_be"
    "debug_assert!" "debug_assert!(choice == 0 || choice == 1)" 1
    .debugAssertOnly
      "debug builds only; choice = (bool ^ bool) as u8 is always 0 or 1, so the outcome does not depend on the bits",
  bsite! "curve25519-dalek/src/montgomery.rs" "MontgomeryPoint::mul_bits_be"
    "||" "choice == 0 || choice == 1" 1
    .debugAssertOnly
      "debug builds only; choice = (bool ^ bool) as u8 is always 0 or 1, so the outcome does not depend on the bits",
  bsite! "curve25519-dalek/src/montgomery.rs" "MontgomeryPoint::to_edwards"
    "if" "u == FieldElement::MINUS_ONE" 1
    .declassifiedResult
      "u = -1 has no Edwards image: this is exactly the public result None of the conversion",
  bsite! "curve25519-dalek/src/montgomery.rs" "MontgomeryPoint::to_edwards"
    "return" "return None" 1
    .declassifiedResult
      "u = -1 has no Edwards image: this is exactly the public result None of the conversion",
  -- -------------------- curve25519-dalek/src/ristretto.rs
  bsite! "curve25519-dalek/src/ristretto.rs" "CompressedRistretto::decompress"
    "if" "(!s_encoding_is_canonical | s_is_negative).into()" 1
    .declassifiedResult
      "whether the encoding is canonical / valid is the public result of decompression (None / Some); the Choices are computed in constant time",
  bsite! "curve25519-dalek/src/ristretto.rs" "CompressedRistretto::decompress"
    "return" "return None" 1
    .declassifiedResult
      "whether the encoding is canonical / valid is the public result of decompression (None / Some); the Choices are computed in constant time",
  bsite! "curve25519-dalek/src/ristretto.rs" "CompressedRistretto::decompress"
    "if" "(!ok | t_is_negative | y_is_zero).into()" 1
    .declassifiedResult
      "whether the encoding is canonical / valid is the public result of decompression (None / Some); the Choices are computed in constant time",
  bsite! "curve25519-dalek/src/ristretto.rs" "<RistrettoPoint as PartialEq>::eq"
    "into_bool" "self.ct_eq(other).into()" 1
    .declassifiedResult
      "the equality bit is computed by the constant-time ct_eq and converted once; it is the function result (using == on secrets is the caller's declassification)",
  -- -------------------- curve25519-dalek/src/scalar.rs
  bsite! "curve25519-dalek/src/scalar.rs" "Scalar::from_bytes_mod_order"
    "debug_assert_eq!" "debug_assert_eq!(0u8, s[31] >> 7)" 1
    .debugAssertOnly
      "debug builds only; the reduced scalar is < l < 2^253, so bit 255 is always clear and the outcome is constant",
  bsite! "curve25519-dalek/src/scalar.rs" "<Scalar as PartialEq>::eq"
    "into_bool" "self.ct_eq(other).into()" 1
    .declassifiedResult
      "the equality bit is computed by the constant-time ct_eq and converted once; it is the function result (using == on secrets is the caller's declassification)",
  bsite! "curve25519-dalek/src/scalar.rs" "<Scalar as Index<usize>>::index"
    "index" "self.bytes[_index]" 1
    .publicLoopCounter
      "byte accessor; every caller passes a literal or a loop counter over 0..32",
  bsite! "curve25519-dalek/src/scalar.rs" "<Scalar as From<u16>>::from"
    "index" "s_bytes[0 .. x_bytes.len()]" 1
    .publicLength
      "x_bytes.len() is the size of the integer type",
  bsite! "curve25519-dalek/src/scalar.rs" "<Scalar as From<u32>>::from"
    "index" "s_bytes[0 .. x_bytes.len()]" 1
    .publicLength
      "x_bytes.len() is the size of the integer type",
  bsite! "curve25519-dalek/src/scalar.rs" "<Scalar as From<u64>>::from"
    "index" "s_bytes[0 .. x_bytes.len()]" 1
    .publicLength
      "x_bytes.len() is the size of the integer type",
  bsite! "curve25519-dalek/src/scalar.rs" "<Scalar as From<u128>>::from"
    "index" "s_bytes[0 .. x_bytes.len()]" 1
    .publicLength
      "x_bytes.len() is the size of the integer type",
  bsite! "curve25519-dalek/src/scalar.rs" "Scalar::batch_invert"
    "debug_assert!" "debug_assert!(acc.pack() != Scalar::ZERO)" 1
    .debugAssertOnly
      "debug builds only; passes for every input that satisfies the documented precondition (all inputs non-zero)",
  bsite! "curve25519-dalek/src/scalar.rs" "Scalar::bits_le"
    "index" "self.bytes[i >> 3]" 1
    .publicLoopCounter
      "i is the counter of (0..256).map(..)",
  bsite! "curve25519-dalek/src/scalar.rs" "Scalar::as_radix_16"
    "debug_assert!" "debug_assert!(self[31] <= 127)" 1
    .debugAssertOnly
      "debug builds only; bit 255 is clear for every Scalar (invariant #1), so the outcome is constant",
  bsite! "curve25519-dalek/src/scalar.rs" "Scalar::as_radix_2w"
    "debug_assert!" "debug_assert!(w >= 4)" 1
    .debugAssertOnly
      "w is the public window width",
  bsite! "curve25519-dalek/src/scalar.rs" "Scalar::as_radix_2w"
    "debug_assert!" "debug_assert!(w <= 8)" 1
    .debugAssertOnly
      "w is the public window width",
  bsite! "curve25519-dalek/src/scalar.rs" "Scalar::as_radix_2w"
    "if" "w == 4" 1
    .publicParameter
      "w is the public window width (a literal / macro literal / function of the public batch size)",
  bsite! "curve25519-dalek/src/scalar.rs" "Scalar::as_radix_2w"
    "return" "return self.as_radix_16()" 1
    .publicParameter
      "w is the public window width (a literal / macro literal / function of the public batch size)",
  bsite! "curve25519-dalek/src/scalar.rs" "Scalar::as_radix_2w"
    "for" "i in 0 .. digits_count" 1
    .publicParameter
      "digits_count = ceil(256 / w) depends on the public window width only",
  bsite! "curve25519-dalek/src/scalar.rs" "Scalar::as_radix_2w"
    "if" "bit_idx < 64 - w || u64_idx == 3" 1
    .publicLoopCounter
      "bit_idx and u64_idx are functions of the loop counter i and the public w",
  bsite! "curve25519-dalek/src/scalar.rs" "Scalar::as_radix_2w"
    "||" "bit_idx < 64 - w || u64_idx == 3" 1
    .publicLoopCounter
      "bit_idx and u64_idx are functions of the loop counter i and the public w",
  bsite! "curve25519-dalek/src/scalar.rs" "Scalar::as_radix_2w"
    "index" "scalar64x4[u64_idx]" 2
    .publicLoopCounter
      "u64_idx = (i * w) / 64 is a function of the loop counter and the public w",
  bsite! "curve25519-dalek/src/scalar.rs" "Scalar::as_radix_2w"
    "index" "scalar64x4[1 + u64_idx]" 1
    .publicLoopCounter
      "u64_idx = (i * w) / 64 is a function of the loop counter and the public w",
  bsite! "curve25519-dalek/src/scalar.rs" "Scalar::as_radix_2w"
    "match" "w" 1
    .publicParameter
      "w is the public window width (a literal / macro literal / function of the public batch size)",
  bsite! "curve25519-dalek/src/scalar.rs" "Scalar::as_radix_2w"
    "index" "digits[digits_count]" 1
    .publicParameter
      "digits_count depends on the public window width only",
  bsite! "curve25519-dalek/src/scalar.rs" "Scalar::as_radix_2w"
    "index" "digits[digits_count - 1]" 1
    .publicParameter
      "digits_count depends on the public window width only",
  bsite! "curve25519-dalek/src/scalar.rs" "UnpackedScalar::montgomery_invert::square_multiply"
    "for" "_ in 0 .. squarings" 1
    .publicParameter
      "squarings is a literal at every call site (the addition chain of l - 2)",
  bsite! "curve25519-dalek/src/scalar.rs" "read_le_u64_into"
    "assert!" "assert!(src.len() == 8 * dst.len(), \"src.len() = {}, dst.len() = {}\", src.len(), dst.len())" 1
    .publicLength
      "compares slice lengths; the call sites pass a 32-byte array and 4 words",
  bsite! "curve25519-dalek/src/scalar.rs" "read_le_u64_into"
    "expect" "bytes.try_into().expect(\"Incorrect src length, should be 8 * dst.len()\")" 1
    .publicLength
      "compares slice lengths; the call sites pass a 32-byte array and 4 words",
  -- -------------------- curve25519-dalek/src/traits.rs
  bsite! "curve25519-dalek/src/traits.rs" "<T as IsIdentity>::is_identity"
    "into_bool" "self.ct_eq(&T::identity()).into()" 1
    .declassifiedResult
      "constant-time comparison with the identity, converted once; the bool is the function result",
  -- -------------------- curve25519-dalek/src/window.rs
  bsite! "curve25519-dalek/src/window.rs" "macro_rules!impl_lookup_table::select"
    "debug_assert!" "debug_assert!(x >= $neg)" 1
    .debugAssertOnly
      "debug builds only; the digit is in range for every scalar (recoding theorems), so the outcome is constant",
  bsite! "curve25519-dalek/src/window.rs" "macro_rules!impl_lookup_table::select"
    "debug_assert!" "debug_assert!(x as i16 <= $size as i16)" 1
    .debugAssertOnly
      "debug builds only; the digit is in range for every scalar (recoding theorems), so the outcome is constant",
  bsite! "curve25519-dalek/src/window.rs" "macro_rules!impl_lookup_table::select"
    "for" "j in $range" 1
    .publicParameter
      "$range / $conv_range are macro literals: the whole table is scanned for every digit",
  bsite! "curve25519-dalek/src/window.rs" "macro_rules!impl_lookup_table::from"
    "for" "j in $conv_range" 2
    .publicParameter
      "$range / $conv_range are macro literals: the whole table is scanned for every digit",
  -- -------------------- ed25519-dalek/src/signing.rs
  bsite! "ed25519-dalek/src/signing.rs" "SigningKey::from_keypair_bytes"
    "?" "SigningKey::try_from(secret_key)?" 1
    .publicLength
      "the only failure of the two conversions is a wrong slice length (impossible here) or an invalid public-key encoding (public)",
  bsite! "ed25519-dalek/src/signing.rs" "SigningKey::from_keypair_bytes"
    "?" "VerifyingKey::try_from(verifying_key)?" 1
    .publicLength
      "the only failure of the two conversions is a wrong slice length (impossible here) or an invalid public-key encoding (public)",
  bsite! "ed25519-dalek/src/signing.rs" "SigningKey::from_keypair_bytes"
    "if" "signing_key.verifying_key() != verifying_key" 1
    .declassifiedResult
      "compares the public key derived from the seed with the supplied public key (both public values); the mismatch is the function result",
  bsite! "ed25519-dalek/src/signing.rs" "SigningKey::from_keypair_bytes"
    "return" "return Err(InternalError::MismatchedKeypair.into())" 1
    .declassifiedResult
      "compares the public key derived from the seed with the supplied public key (both public values); the mismatch is the function result",
  bsite! "ed25519-dalek/src/signing.rs" "SigningKey::to_keypair_bytes"
    "index" "bytes[.. SECRET_KEY_LENGTH]" 1
    .publicLength
      "SECRET_KEY_LENGTH is a constant",
  bsite! "ed25519-dalek/src/signing.rs" "SigningKey::to_keypair_bytes"
    "index" "bytes[SECRET_KEY_LENGTH ..]" 1
    .publicLength
      "SECRET_KEY_LENGTH is a constant",
  bsite! "ed25519-dalek/src/signing.rs" "<SigningKey as PartialEq>::eq"
    "into_bool" "self.ct_eq(other).into()" 1
    .declassifiedResult
      "the equality bit is computed by the constant-time ct_eq and converted once; it is the function result (using == on secrets is the caller's declassification)",
  bsite! "ed25519-dalek/src/signing.rs" "<SigningKey as TryFrom<KeypairBytes>>::try_from"
    "if let" "Some(public_bytes) = &pkcs8_key.public_key" 1
    .publicLength
      "depends on the presence / well-formedness of the optional public key of the PKCS#8 document (format, public)",
  bsite! "ed25519-dalek/src/signing.rs" "<SigningKey as TryFrom<KeypairBytes>>::try_from"
    "?" "VerifyingKey::from_bytes(public_bytes.as_ref()).map_err(| _ | pkcs8::Error::KeyMalformed)?" 1
    .publicLength
      "depends on the presence / well-formedness of the optional public key of the PKCS#8 document (format, public)",
  bsite! "ed25519-dalek/src/signing.rs" "<SigningKey as TryFrom<KeypairBytes>>::try_from"
    "if" "signing_key.verifying_key() != expected_verifying_key" 1
    .declassifiedResult
      "compares the derived public key with the public key of the document (public values); the mismatch is the function result",
  bsite! "ed25519-dalek/src/signing.rs" "<SigningKey as TryFrom<KeypairBytes>>::try_from"
    "return" "return Err(pkcs8::Error::KeyMalformed)" 1
    .declassifiedResult
      "compares the derived public key with the public key of the document (public values); the mismatch is the function result",
  bsite! "ed25519-dalek/src/signing.rs" "<SigningKey as TryFrom<PrivateKeyInfo>>::try_from"
    "?" "pkcs8::KeypairBytes::try_from(private_key)?" 1
    .publicLength
      "DER structure of the PKCS#8 document (format), not the key bytes",
  bsite! "ed25519-dalek/src/signing.rs" "ExpandedSecretKey::raw_sign_prehashed"
    "if" "ctx.len() > 255" 1
    .publicLength
      "length of the public context string",
  bsite! "ed25519-dalek/src/signing.rs" "ExpandedSecretKey::raw_sign_prehashed"
    "return" "return Err(SignatureError::from(InternalError::PrehashedContextLength))" 1
    .publicLength
      "length of the public context string"
]

/-- The functions of the scoped files that the inventory does NOT scan, reviewed by hand: variable-time by
contract (`Vartime*`, `optional_*`, `vartime_*`, Pippenger, precomputed Straus, NAF recoding and NAF tables,
`to_radix_2w_size_hint`, `from_repr_vartime`), signature *verification* (public data), `Debug` formatting and
serde (de)serialisation (their control flow depends on lengths / formats only).  `BranchSites.excluded_fns_as_reviewed`
states that the generator excluded exactly these. -/
def excludedFnsExpected : List (String × List String) := [
  ("curve25519-dalek/src/backend/mod.rs", ["get_selected_backend",
     "pippenger_optional_multiscalar_mul",
     "VartimePrecomputedStraus::new",
     "VartimePrecomputedStraus::len",
     "VartimePrecomputedStraus::is_empty",
     "VartimePrecomputedStraus::optional_mixed_multiscalar_mul",
     "straus_optional_multiscalar_mul",
     "vartime_double_base_mul"]),
  ("curve25519-dalek/src/backend/serial/curve_models/mod.rs", ["<ProjectivePoint as Debug>::fmt",
     "<CompletedPoint as Debug>::fmt",
     "<AffineNielsPoint as Debug>::fmt",
     "<ProjectiveNielsPoint as Debug>::fmt"]),
  ("curve25519-dalek/src/backend/serial/fiat_u32/field.rs", ["<FieldElement2625 as Debug>::fmt"]),
  ("curve25519-dalek/src/backend/serial/fiat_u64/field.rs", ["<FieldElement51 as Debug>::fmt"]),
  ("curve25519-dalek/src/backend/serial/scalar_mul/straus.rs", ["<Straus as VartimeMultiscalarMul>::optional_multiscalar_mul"]),
  ("curve25519-dalek/src/backend/serial/u32/field.rs", ["<FieldElement2625 as Debug>::fmt"]),
  ("curve25519-dalek/src/backend/serial/u32/scalar.rs", ["<Scalar29 as Debug>::fmt"]),
  ("curve25519-dalek/src/backend/serial/u64/field.rs", ["<FieldElement51 as Debug>::fmt"]),
  ("curve25519-dalek/src/backend/serial/u64/scalar.rs", ["<Scalar52 as Debug>::fmt"]),
  ("curve25519-dalek/src/backend/vector/avx2/edwards.rs", ["<NafLookupTable5 as From<EdwardsPoint>>::from",
     "<NafLookupTable8 as From<EdwardsPoint>>::from"]),
  ("curve25519-dalek/src/backend/vector/ifma/edwards.rs", ["<NafLookupTable5 as From<EdwardsPoint>>::from",
     "<NafLookupTable8 as From<EdwardsPoint>>::from"]),
  ("curve25519-dalek/src/backend/vector/scalar_mul/straus.rs", ["spec::<Straus as VartimeMultiscalarMul>::optional_multiscalar_mul"]),
  ("curve25519-dalek/src/edwards.rs", ["<CompressedEdwardsY as Debug>::fmt",
     "<EdwardsPoint as Serialize>::serialize",
     "<CompressedEdwardsY as Serialize>::serialize",
     "<EdwardsPoint as Deserialize>::deserialize",
     "<EdwardsPoint as Deserialize>::deserialize::<EdwardsPointVisitor as Visitor>::expecting",
     "<EdwardsPoint as Deserialize>::deserialize::<EdwardsPointVisitor as Visitor>::visit_seq",
     "<CompressedEdwardsY as Deserialize>::deserialize",
     "<CompressedEdwardsY as Deserialize>::deserialize::<CompressedEdwardsYVisitor as Visitor>::expecting",
     "<CompressedEdwardsY as Deserialize>::deserialize::<CompressedEdwardsYVisitor as Visitor>::visit_seq",
     "<EdwardsPoint as VartimeMultiscalarMul>::optional_multiscalar_mul",
     "<VartimeEdwardsPrecomputation as VartimePrecomputedMultiscalarMul>::new",
     "<VartimeEdwardsPrecomputation as VartimePrecomputedMultiscalarMul>::len",
     "<VartimeEdwardsPrecomputation as VartimePrecomputedMultiscalarMul>::is_empty",
     "<VartimeEdwardsPrecomputation as VartimePrecomputedMultiscalarMul>::optional_mixed_multiscalar_mul",
     "EdwardsPoint::vartime_double_scalar_mul_basepoint",
     "macro_rules!impl_basepoint_table::fmt",
     "<EdwardsPoint as Debug>::fmt"]),
  ("curve25519-dalek/src/ristretto.rs", ["<RistrettoPoint as Serialize>::serialize",
     "<CompressedRistretto as Serialize>::serialize",
     "<RistrettoPoint as Deserialize>::deserialize",
     "<RistrettoPoint as Deserialize>::deserialize::<RistrettoPointVisitor as Visitor>::expecting",
     "<RistrettoPoint as Deserialize>::deserialize::<RistrettoPointVisitor as Visitor>::visit_seq",
     "<CompressedRistretto as Deserialize>::deserialize",
     "<CompressedRistretto as Deserialize>::deserialize::<CompressedRistrettoVisitor as Visitor>::expecting",
     "<CompressedRistretto as Deserialize>::deserialize::<CompressedRistrettoVisitor as Visitor>::visit_seq",
     "<RistrettoPoint as VartimeMultiscalarMul>::optional_multiscalar_mul",
     "<VartimeRistrettoPrecomputation as VartimePrecomputedMultiscalarMul>::new",
     "<VartimeRistrettoPrecomputation as VartimePrecomputedMultiscalarMul>::len",
     "<VartimeRistrettoPrecomputation as VartimePrecomputedMultiscalarMul>::is_empty",
     "<VartimeRistrettoPrecomputation as VartimePrecomputedMultiscalarMul>::optional_mixed_multiscalar_mul",
     "RistrettoPoint::vartime_double_scalar_mul_basepoint",
     "<CompressedRistretto as Debug>::fmt",
     "<RistrettoPoint as Debug>::fmt"]),
  ("curve25519-dalek/src/scalar.rs", ["<Scalar as Debug>::fmt",
     "<Scalar as Serialize>::serialize",
     "<Scalar as Deserialize>::deserialize",
     "<Scalar as Deserialize>::deserialize::<ScalarVisitor as Visitor>::expecting",
     "<Scalar as Deserialize>::deserialize::<ScalarVisitor as Visitor>::visit_seq",
     "Scalar::non_adjacent_form",
     "Scalar::to_radix_2w_size_hint",
     "<Scalar as PrimeField>::from_repr_vartime"]),
  ("curve25519-dalek/src/traits.rs", ["VartimeMultiscalarMul::vartime_multiscalar_mul",
     "VartimePrecomputedMultiscalarMul::vartime_multiscalar_mul",
     "VartimePrecomputedMultiscalarMul::vartime_mixed_multiscalar_mul"]),
  ("curve25519-dalek/src/window.rs", ["macro_rules!impl_lookup_table::fmt",
     "NafLookupTable5::select",
     "<NafLookupTable5 as Debug>::fmt",
     "<NafLookupTable5 as From<EdwardsPoint>>::from",
     "NafLookupTable8::select",
     "<NafLookupTable8 as Debug>::fmt",
     "<NafLookupTable8 as From<EdwardsPoint>>::from"]),
  ("ed25519-dalek/src/hazmat.rs", ["raw_verify",
     "raw_verify_prehashed"]),
  ("ed25519-dalek/src/signing.rs", ["SigningKey::verifying_key",
     "SigningKey::verify",
     "SigningKey::verify_prehashed",
     "SigningKey::verify_strict",
     "<SigningKey as Debug>::fmt",
     "<SigningKey as Verifier<Signature>>::verify",
     "<SigningKey as Serialize>::serialize",
     "<SigningKey as Deserialize>::deserialize",
     "<SigningKey as Deserialize>::deserialize::<SigningKeyVisitor as Visitor>::expecting",
     "<SigningKey as Deserialize>::deserialize::<SigningKeyVisitor as Visitor>::visit_bytes",
     "<SigningKey as Deserialize>::deserialize::<SigningKeyVisitor as Visitor>::visit_seq"])
]

/-- the class of a site: the first entry with the site's key that covers its occurrence number -/
def lookupKey (key occ : Nat) : Option BranchClass :=
  match table.find? (fun e => e.key == key && occ < e.count) with
  | some e => some e.cls
  | none => none

def lookup (s : BranchSite) : Option BranchClass := lookupKey s.key s.occ

/-! Integrity of the numeric keys (checked by evaluation when this file is built). -/
#guard table.all (fun e => e.key == encodeKey e.file e.func e.kind e.text)
#guard branchSites.all (fun s => s.key == encodeKey s.file s.func s.kind s.text)
#guard branchScopeErrors.isEmpty

end Dalek.Model.BranchTable

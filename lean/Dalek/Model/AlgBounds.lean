import Dalek.IR.Alg
import Dalek.IR.Limb
import Dalek.Gen.Field51
import Dalek.Gen.Field26
import Dalek.Gen.Consts
/-!
# Limb-bound abstract interpretation of the translated group formulas (property C11, formula level)

A `Backend` collects the REGENERATED limb kernels of one serial field implementation.  Three
interpretations of the AlgIR signature (`Dalek.IR.FOps`) are built from it:

* `boundOps B : FOps (Option (List Itv))` -- the abstract domain: one interval vector per field element
  (5 resp. 10 limbs; a `Choice` is the one-element vector `[⟨0,1,0⟩]`), `none` = "absence of overflow
  could not be proved".  Each abstract field operation IS the verified kernel analysis: `mul a b` runs
  `Prog.norm` on the translated `mul` kernel with the actual interval vectors of the operands and returns
  the analysed post-condition.  No hand-written summaries.
* `limbOps B : FOps (Option (List Nat))` -- the debug-build execution on limb vectors: each operation is
  `Prog.evalC` of the kernel; `none` = panic (integer overflow or failed `debug_assert!`).
* `limbOpsW B : FOps (List Nat)` -- the release-build execution (`Prog.evalW`, wrapping arithmetic).

Mathlib-free; everything here evaluates in the kernel (`decide +kernel`).
-/
namespace Dalek.Model.AlgBounds
open Dalek.IR

/-- The limb kernels of one field backend (all regenerated from the Rust source). -/
structure Backend where
  add : Prog
  sub : Prog
  mul : Prog
  neg : Prog
  /-- the kernels run in sequence by `square` (u64: one `pow2k` iteration; u32: `square`) -/
  square : List Prog
  /-- the kernels run in sequence by `square2` (u64: one `pow2k` iteration, then the doubling loop) -/
  square2 : List Prog
  /-- one iteration of the loop of `pow2k` -/
  powBody : Prog
  /-- `as_bytes` (canonical encoding), the front end of `ct_eq`, `is_negative`, `is_zero` -/
  asBytes : Prog
  /-- limbs of the constants, in the order of the generated `constNames` -/
  consts : List (List Nat)
  /-- documented input contract of `as_bytes` (only a shortcut of the analysis, see `absEnc`) -/
  asBytesPre : List Itv
  /-- documented input contract of the loop body of `pow2k` (only a shortcut of the analysis, see `absPow`) -/
  powPre : List Itv

/-! ## abstract domain -/

abbrev AVal := Option (List Itv)

/-- the abstract value of a `Choice` -/
def choiceItv : List Itv := [⟨0, 1, 0⟩]

/-- run the verified analyser on a kernel; keep the post-condition -/
def absK (p : Prog) (I : List Itv) : AVal := (p.norm I).map (·.2)

def absSeq : List Prog → List Itv → AVal
  | [], I => some I
  | p :: ps, I => (absK p I).bind (absSeq ps)

def itvJoin (s t : Itv) : Itv := ⟨min s.lo t.lo, max s.hi t.hi, min s.tz t.tz⟩

/-- limb-wise interval hull; `none` if the shapes differ (the inclusion is re-checked, so no lemma about
`min`/`max` is needed for soundness) -/
def joinV (a b : List Itv) : AVal :=
  let j := List.zipWith itvJoin a b
  if itvsLe a j && itvsLe b j then some j else none

/-- drop the lower bounds and alignment information -/
def widen (a : List Itv) : List Itv := a.map (fun t => ⟨0, t.hi, 0⟩)

/-- Invariant search for the loop of `pow2k`: find `H ⊇ I` with `body(H) ⊆ H` by at most `fuel` rounds of
`H := widen (H ⊔ body(H))`; return `body(H)`.  Every iterate of the loop then stays inside `H`, and from the
first iteration on inside the returned vector.  The body is analysed once per round (1–2 rounds in
practice), independently of the iteration count `k`. -/
def powFix (body : Prog) : Nat → List Itv → AVal
  | fuel, H =>
    match absK body H with
    | none => none
    | some P =>
      if itvsLe P H then some P
      else match fuel with
        | 0 => none
        | f + 1 =>
          match joinV H P with
          | none => none
          | some J => if itvsLe H (widen J) then powFix body f (widen J) else none

def isChoice (c : List Itv) : Bool :=
  match c with
  | [t] => t.hi < 2
  | _ => false

def absBin (p : Prog) (a b : AVal) : AVal :=
  match a, b with
  | some x, some y => absK p (x ++ y)
  | _, _ => none

def absUn (ps : List Prog) (a : AVal) : AVal :=
  match a with
  | some x => absSeq ps x
  | none => none

/-- The operand passes the analysis of `as_bytes`.  Shortcut: if the operand is inside the documented contract
vector `pre`, analyse `as_bytes` AT the contract vector (a closed term: the kernel evaluates it once per proof and
caches it) — inclusion + analysis at the larger vector is sound; otherwise analyse at the operand's own vector. -/
def absEnc (asBytes : Prog) (pre : List Itv) (x : List Itv) : Bool :=
  if itvsLe x pre then (absK asBytes pre).isSome else (absK asBytes x).isSome

/-- the operand must pass the analysis of `as_bytes`; the result is a choice -/
def absPred1 (asBytes : Prog) (pre : List Itv) (a : AVal) : AVal :=
  match a with
  | some x => if absEnc asBytes pre x then some choiceItv else none
  | none => none

def absPred2 (asBytes : Prog) (pre : List Itv) (a b : AVal) : AVal :=
  match a, b with
  | some x, some y => if absEnc asBytes pre x && absEnc asBytes pre y then some choiceItv else none
  | _, _ => none

def absCh2 (a b : AVal) : AVal :=
  match a, b with
  | some x, some y => if isChoice x && isChoice y then some choiceItv else none
  | _, _ => none

def absCh1 (a : AVal) : AVal :=
  match a with
  | some x => if isChoice x then some choiceItv else none
  | none => none

def absSel (c a b : AVal) : AVal :=
  match c, a, b with
  | some ci, some x, some y => if isChoice ci then joinV x y else none
  | _, _, _ => none

/-- number of rounds of the invariant search of `pow2k` -/
def powFuel : Nat := 3

/-- `pow2k`: analyse the loop body ONCE, at the documented contract vector `pre` of the body (a closed term,
evaluated once per proof), check that the start vector is inside `pre` and that the analysed post-condition is
inside `pre` again: then `pre` is a loop invariant and every iterate from the first on is inside the post-condition,
independently of the iteration count.  Fallback (start vector outside the contract): `powFix`. -/
def absPow (body : Prog) (pre : List Itv) (x : List Itv) : AVal :=
  if itvsLe x pre then
    match absK body pre with
    | some P => if itvsLe P pre then some P else powFix body powFuel x
    | none => powFix body powFuel x
  else powFix body powFuel x

def boundOps (B : Backend) : FOps AVal where
  add := absBin B.add
  sub := absBin B.sub
  mul := absBin B.mul
  neg := absUn [B.neg]
  square := absUn B.square
  square2 := absUn B.square2
  pow2k := fun a k => match a with
    | some x => if k = 0 then none else absPow B.powBody B.powPre x
    | none => none
  const := fun i => (B.consts[i]?).map (fun l => l.map (fun n => ⟨n, n, 0⟩))
  ctEq := absPred2 B.asBytes B.asBytesPre
  isNeg := absPred1 B.asBytes B.asBytesPre
  isZero := absPred1 B.asBytes B.asBytesPre
  cand := absCh2
  cor := absCh2
  cxor := absCh2
  cnot := absCh1
  csel := absSel
  dflt := none

/-! ## debug-build execution (checked arithmetic, `debug_assert!`s on) -/

abbrev CVal := Option (List Nat)

def concSeq : List Prog → List Nat → CVal
  | [], l => some l
  | p :: ps, l => (p.evalC l).bind (concSeq ps)

/-- `k` iterations of `p` in the checked semantics -/
def iterC (p : Prog) : Nat → List Nat → CVal
  | 0, a => some a
  | k + 1, a => (p.evalC a).bind (iterC p k)

def b2n (b : Bool) : Nat := if b then 1 else 0

def chAnd (x y : Nat) : Nat := x * y
def chOr (x y : Nat) : Nat := x + y - x * y
def chXor (x y : Nat) : Nat := (x + y) % 2
def chNot (x : Nat) : Nat := 1 - x

def concBin (p : Prog) (a b : CVal) : CVal :=
  match a, b with
  | some x, some y => p.evalC (x ++ y)
  | _, _ => none

def concUn (ps : List Prog) (a : CVal) : CVal :=
  match a with
  | some x => concSeq ps x
  | none => none

def concPred1 (asBytes : Prog) (f : List Nat → Nat) (a : CVal) : CVal :=
  match a with
  | some x => (asBytes.evalC x).map (fun bs => [f bs])
  | none => none

def concPred2 (asBytes : Prog) (a b : CVal) : CVal :=
  match a, b with
  | some x, some y =>
    match asBytes.evalC x, asBytes.evalC y with
    | some bx, some by' => some [b2n (bx == by')]
    | _, _ => none
  | _, _ => none

/-- `subtle::Choice` operations; `Choice::from` has `debug_assert!((input == 0) | (input == 1))` -/
def concCh2 (f : Nat → Nat → Nat) (a b : CVal) : CVal :=
  match a, b with
  | some [x], some [y] => if x < 2 ∧ y < 2 then some [f x y] else none
  | _, _ => none

def concCh1 (f : Nat → Nat) (a : CVal) : CVal :=
  match a with
  | some [x] => if x < 2 then some [f x] else none
  | _ => none

def concSel (c a b : CVal) : CVal :=
  match c, a, b with
  | some [z], some x, some y => if z < 2 then some (if z = 0 then x else y) else none
  | _, _, _ => none

/-- `is_negative`: low bit of the canonical encoding -/
def negBit (bs : List Nat) : Nat := bs.getD 0 0 % 2
/-- `is_zero`: the canonical encoding is all zero -/
def zeroBit (bs : List Nat) : Nat := b2n (bs.all (· == 0))

def limbOps (B : Backend) : FOps CVal where
  add := concBin B.add
  sub := concBin B.sub
  mul := concBin B.mul
  neg := concUn [B.neg]
  square := concUn B.square
  square2 := concUn B.square2
  pow2k := fun a k => match a with
    | some x => if k = 0 then none else iterC B.powBody k x
    | none => none
  const := fun i => B.consts[i]?
  ctEq := concPred2 B.asBytes
  isNeg := concPred1 B.asBytes negBit
  isZero := concPred1 B.asBytes zeroBit
  cand := concCh2 chAnd
  cor := concCh2 chOr
  cxor := concCh2 chXor
  cnot := concCh1 chNot
  csel := concSel
  dflt := none

/-! ## release-build execution (wrapping arithmetic, assertions compiled out) -/

def wrapSeq : List Prog → List Nat → List Nat
  | [], l => l
  | p :: ps, l => wrapSeq ps (p.evalW l)

def iterW (p : Prog) : Nat → List Nat → List Nat
  | 0, a => a
  | k + 1, a => iterW p k (p.evalW a)

def limbOpsW (B : Backend) : FOps (List Nat) where
  add := fun a b => B.add.evalW (a ++ b)
  sub := fun a b => B.sub.evalW (a ++ b)
  mul := fun a b => B.mul.evalW (a ++ b)
  neg := fun a => wrapSeq [B.neg] a
  square := fun a => wrapSeq B.square a
  square2 := fun a => wrapSeq B.square2 a
  pow2k := fun a k => iterW B.powBody k a
  const := fun i => B.consts.getD i []
  ctEq := fun a b => [b2n (B.asBytes.evalW a == B.asBytes.evalW b)]
  isNeg := fun a => [negBit (B.asBytes.evalW a)]
  isZero := fun a => [zeroBit (B.asBytes.evalW a)]
  cand := fun a b => [chAnd (a.getD 0 0) (b.getD 0 0)]
  cor := fun a b => [chOr (a.getD 0 0) (b.getD 0 0)]
  cxor := fun a b => [chXor (a.getD 0 0) (b.getD 0 0)]
  cnot := fun a => [chNot (a.getD 0 0)]
  csel := fun c a b => if c.getD 0 0 = 0 then a else b
  dflt := []

/-! ## the two serial backends -/

open Dalek.Gen.Consts in
/-- serial u64 backend (`FieldElement51`).  `FieldElement::{ZERO, ONE, MINUS_ONE}` are the literals of
`backend/serial/u64/field.rs`; the others are the regenerated table of `u64/constants.rs`. -/
def B51 : Backend where
  add := Dalek.Gen.Field51.add
  sub := Dalek.Gen.Field51.sub
  mul := Dalek.Gen.Field51.mul
  neg := Dalek.Gen.Field51.neg
  square := [Dalek.Gen.Field51.pow2k_body]
  square2 := [Dalek.Gen.Field51.pow2k_body, Dalek.Gen.Field51.square2_tail]
  powBody := Dalek.Gen.Field51.pow2k_body
  asBytes := Dalek.Gen.Field51.as_bytes
  consts := [[0, 0, 0, 0, 0], [1, 0, 0, 0, 0], U64.MINUS_ONE, U64.MINUS_ONE, U64.EDWARDS_D, U64.EDWARDS_D2,
    U64.ONE_MINUS_EDWARDS_D_SQUARED, U64.EDWARDS_D_MINUS_ONE_SQUARED, U64.SQRT_AD_MINUS_ONE,
    U64.INVSQRT_A_MINUS_D, U64.SQRT_M1, U64.APLUS2_OVER_FOUR, U64.MONTGOMERY_A, U64.MONTGOMERY_A_NEG]
  asBytesPre := List.replicate 5 ⟨0, 2 ^ 54 - 1, 0⟩
  powPre := List.replicate 5 ⟨0, 2 ^ 54 - 1, 0⟩

open Dalek.Gen.Consts in
/-- serial u32 backend (`FieldElement2625`) -/
def B26 : Backend where
  add := Dalek.Gen.Field26.add
  sub := Dalek.Gen.Field26.sub
  mul := Dalek.Gen.Field26.mul
  neg := Dalek.Gen.Field26.neg
  square := [Dalek.Gen.Field26.square]
  square2 := [Dalek.Gen.Field26.square2]
  powBody := Dalek.Gen.Field26.pow2k_body
  asBytes := Dalek.Gen.Field26.as_bytes
  consts := [[0, 0, 0, 0, 0, 0, 0, 0, 0, 0], [1, 0, 0, 0, 0, 0, 0, 0, 0, 0], U32.MINUS_ONE, U32.MINUS_ONE,
    U32.EDWARDS_D, U32.EDWARDS_D2, U32.ONE_MINUS_EDWARDS_D_SQUARED, U32.EDWARDS_D_MINUS_ONE_SQUARED,
    U32.SQRT_AD_MINUS_ONE, U32.INVSQRT_A_MINUS_D, U32.SQRT_M1, U32.APLUS2_OVER_FOUR, U32.MONTGOMERY_A,
    U32.MONTGOMERY_A_NEG]
  asBytesPre := (List.range 10).map (fun i => ⟨0, 2 ^ ((if i % 2 = 0 then 26 else 25) + 2) - 1, 0⟩)
  powPre := (List.range 10).map (fun i => ⟨0, 2 ^ (if i % 2 = 0 then 26 else 25) * 336 / 100 - 1, 0⟩)

/-- the names the constant tables line up with (compared with the generated `constNames` in Props) -/
def constNames : List String :=
  ["FieldElement::ZERO", "FieldElement::ONE", "FieldElement::MINUS_ONE", "constants::MINUS_ONE", "constants::EDWARDS_D",
   "constants::EDWARDS_D2", "constants::ONE_MINUS_EDWARDS_D_SQUARED", "constants::EDWARDS_D_MINUS_ONE_SQUARED",
   "constants::SQRT_AD_MINUS_ONE", "constants::INVSQRT_A_MINUS_D", "constants::SQRT_M1", "constants::APLUS2_OVER_FOUR",
   "constants::MONTGOMERY_A", "constants::MONTGOMERY_A_NEG"]

def boundOps51 : FOps AVal := boundOps B51
def boundOps26 : FOps AVal := boundOps B26
def limbOps51 : FOps CVal := limbOps B51
def limbOps26 : FOps CVal := limbOps B26
def limbOpsW51 : FOps (List Nat) := limbOpsW B51
def limbOpsW26 : FOps (List Nat) := limbOpsW B26

/-! ## checking a formula against type invariants -/

/-- all outputs were proved safe and lie inside the expected vectors -/
def outsLe : List AVal → List (List Itv) → Bool
  | [], [] => true
  | some a :: as, t :: ts => itvsLe a t && outsLe as ts
  | _, _ => false

def allSome {α : Type} : List (Option α) → Bool
  | [] => true
  | some _ :: as => allSome as
  | none :: _ => false

/-- `check B F pre post`: the abstract run of `F` from the input vectors `pre` proves EVERY statement safe (also
those whose result is not used by an output) and every output inside `post` -/
def check (B : Backend) (F : AProg) (pre post : List (List Itv)) : Bool :=
  pre.length == F.nIn && allSome (arunBody (boundOps B) F.body (pre.map some)) &&
    outsLe (F.run (boundOps B) (pre.map some)) post

/-- index (in the SSA environment) of the first value whose analysis fails (diagnostics for the driver) -/
def firstFail (B : Backend) (F : AProg) (pre : List (List Itv)) : Option Nat :=
  let env := arunBody (boundOps B) F.body (pre.map some)
  (List.range env.length).find? (fun i => (env.getD i none).isNone)

/-- the analysed output vectors (diagnostics) -/
def analysed (B : Backend) (F : AProg) (pre : List (List Itv)) : List AVal := F.run (boundOps B) (pre.map some)

/-! ## typed formulas and histories of formula calls -/

/-- a translated formula with the type invariants (one interval vector per field element / choice) of its
inputs and outputs -/
structure Sig where
  name : String
  F : AProg
  pre : List (List Itv)
  post : List (List Itv)

def Sig.ok (B : Backend) (s : Sig) : Bool := check B s.F s.pre s.post

/-- what the driver prints: one line per formula -/
def reportOf (B : Backend) (tbl : List Sig) : List (String × Bool) := tbl.map (fun s => (s.name, s.ok B))

/-- One step of a history.  Values live in a growing register file, one register per field element / choice.
`input v ty`: an external value `v` inside the bound vector `ty` (a decoded field element, a table entry, a bit).
`call i args`: call formula number `i` of the table on the registers `args`; its results are appended. -/
inductive Step where
  | input (v : List Nat) (ty : List Itv)
  | call (item : Nat) (args : List Nat)

def subTys : List (List Itv) → List (List Itv) → Bool
  | [], [] => true
  | a :: as, b :: bs => itvsLe a b && subTys as bs
  | _, _ => false

def getAll {α : Type} (xs : List α) : List Nat → Option (List α)
  | [] => some []
  | j :: js => match xs[j]?, getAll xs js with
    | some x, some r => some (x :: r)
    | _, _ => none

/-- STATIC typing of a step against the bound vectors (`tys`) of the registers: the vectors of the new registers.
A call is well typed iff every argument register's vector is included in the corresponding input invariant. -/
def typeStep (tbl : List Sig) (tys : List (List Itv)) : Step → Option (List (List Itv))
  | .input v ty => if EnvIn v ty then some [ty] else none
  | .call i args =>
    match tbl[i]?, getAll tys args with
    | some s, some ats => if subTys ats s.pre then some s.post else none
    | _, _ => none

def typeHist (tbl : List Sig) : List Step → List (List Itv) → Option (List (List Itv))
  | [], tys => some tys
  | st :: h, tys =>
    match typeStep tbl tys st with
    | some new => typeHist tbl h (tys ++ new)
    | none => none

def unwrapAll {α : Type} : List (Option α) → Option (List α)
  | [] => some []
  | some a :: as => (unwrapAll as).map (a :: ·)
  | none :: _ => none

/-- debug-build execution of one formula call: `none` as soon as ANY statement panics -/
def callC (B : Backend) (F : AProg) (as : List (List Nat)) : Option (List (List Nat)) :=
  if allSome (arunBody (limbOps B) F.body (as.map some)) then unwrapAll (F.run (limbOps B) (as.map some)) else none

def stepC (B : Backend) (tbl : List Sig) (regs : List (List Nat)) : Step → Option (List (List Nat))
  | .input v _ => some [v]
  | .call i args =>
    match tbl[i]?, getAll regs args with
    | some s, some as => callC B s.F as
    | _, _ => none

/-- debug-build execution of a history: the final register file, `none` = some call panicked -/
def runHistC (B : Backend) (tbl : List Sig) : List Step → List (List Nat) → Option (List (List Nat))
  | [], regs => some regs
  | st :: h, regs =>
    match stepC B tbl regs st with
    | some new => runHistC B tbl h (regs ++ new)
    | none => none

def stepW (B : Backend) (tbl : List Sig) (regs : List (List Nat)) : Step → List (List Nat)
  | .input v _ => [v]
  | .call i args =>
    match tbl[i]? with
    | some s => s.F.run (limbOpsW B) (args.map (fun j => regs.getD j []))
    | none => []

/-- release-build execution of a history -/
def runHistW (B : Backend) (tbl : List Sig) : List Step → List (List Nat) → List (List Nat)
  | [], regs => regs
  | st :: h, regs => runHistW B tbl h (regs ++ stepW B tbl regs st)

/-- point-wise membership of a list of limb vectors in a list of bound vectors -/
def EnvsIn : List (List Nat) → List (List Itv) → Prop
  | [], [] => True
  | l :: ls, t :: ts => EnvIn l t ∧ EnvsIn ls ts
  | _, _ => False

/-- **What "formula `F` is safe from `pre` to `post`" means.**  For ALL concrete limb inputs inside the input
invariants: (1) no statement of the formula panics in the debug build (no integer overflow, no failed
`debug_assert!`) and every intermediate value equals the one of the release build; (2) in particular the outputs
agree; (3) the outputs lie inside the output invariants. -/
def Safe (B : Backend) (F : AProg) (pre post : List (List Itv)) : Prop :=
  ∀ ins : List (List Nat), EnvsIn ins pre →
    arunBody (limbOps B) F.body (ins.map some) = (arunBody (limbOpsW B) F.body ins).map some ∧
    F.run (limbOps B) (ins.map some) = (F.run (limbOpsW B) ins).map some ∧
    EnvsIn (F.run (limbOpsW B) ins) post

def Sig.Safe (B : Backend) (s : Sig) : Prop := AlgBounds.Safe B s.F s.pre s.post

/-- Bool version of point-wise membership of a list of limb vectors (for examples) -/
def envsIn : List (List Nat) → List (List Itv) → Bool
  | [], [] => true
  | l :: ls, t :: ts => decide (EnvIn l t) && envsIn ls ts
  | _, _ => false

end Dalek.Model.AlgBounds

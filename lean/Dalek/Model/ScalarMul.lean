/-
  Dalek.Model.ScalarMul — hand transcriptions of the scalar-multiplication ALGORITHMS of curve25519-dalek,
  generic over the point implementation (`PointOps G`).  Mathlib-free and executable.

  Sources transcribed (curve25519-dalek 4.1.3):
  * `src/window.rs`: `LookupTable*::{from, select}` (all five sizes, one macro), `NafLookupTable5/8::{from, select}`
    (the vector copies `backend/vector/{avx2,ifma}/edwards.rs` `From<&EdwardsPoint> for LookupTable<CachedPoint>` …
    are the same loops);
  * `src/backend/serial/scalar_mul/{variable_base, straus, pippenger, precomputed_straus, vartime_double_base}.rs`
    and their copies in `src/backend/vector/scalar_mul/*.rs`;
  * `src/edwards.rs`: `EdwardsPoint::mul_by_pow_2`, `impl_basepoint_table!` (`create`, `mul_base`, `basepoint`)
    for radix 16 … 256, `mul_base`, `mul_clamped`, `mul_base_clamped`, `multiscalar_mul`,
    `optional_multiscalar_mul` (190 threshold), `vartime_double_scalar_mul_basepoint`;
    `src/traits.rs` provided methods (`vartime_multiscalar_mul`, `vartime_mixed_multiscalar_mul`, …);
  * `src/ristretto.rs`: the wrappers are newtype delegations (`RistrettoPoint(EdwardsPoint::…)`), see the end.

  Conventions.
  * A point type is any `G` with `PointOps G`.  Coordinate-system changes (`as_extended`, `as_projective`,
    `as_projective_niels`, `CachedPoint::from`, …) are invisible at this level: they are the identity on the
    represented point (C03); `&A - &B` is one operation (`sub`; the vector backend implements it as
    `A + (-B)`).
  * Signed digits (`i8`) are `Int`s; digit arrays are `List Int` read with `getD · 0`.
  * Arrays of points are `List G` read with `getD · zero`.  An index that would be OUT OF BOUNDS in Rust (a panic)
    is therefore silently defaulted in the model; the property theorems prove from the layer-1 digit ranges
    that no such index occurs (`*_index_ok`).
  * Explicit panics (`assert!`, `assert_eq!`) are modelled: functions that can hit one return `Option _`
    with `none` = panic (`Panics`); `Option G` inside is the Rust `Option<EdwardsPoint>`.
  * Where the serial and the vector copy differ STRUCTURALLY both are modelled (`variableBaseMul` vs
    `variableBaseMulVec`: the serial copy peels the top digit off the loop and performs no initial
    doublings of the identity).  All other copies coincide operation for operation at this level
    (serial `t = r.double(); …; r = t.as_projective()` ≙ vector `Q = Q.double(); …`).
-/
import Dalek.Model.Recode
import Dalek.Spec.Scalar
import Dalek.Spec.Edwards
import Dalek.Model.FastEdwards

namespace Dalek.Model.ScalarMul
open Dalek.Model.Recode Dalek.Spec

/-- The operations a point implementation provides. -/
structure PointOps (G : Type) where
  zero : G
  add : G → G → G
  sub : G → G → G
  neg : G → G
  double : G → G

/-- The vector backends implement `&ExtendedPoint - &CachedPoint` as `self + &(-other)`
(`backend/vector/{avx2,ifma}/edwards.rs`): the same operations with `sub` derived from `add` and `neg`. -/
def vectorOps {G : Type} (ops : PointOps G) : PointOps G :=
  { ops with sub := fun a b => ops.add a (ops.neg b) }

/-- `none` = the Rust code panicked on an explicit assertion. -/
abbrev Panics (α : Type) := Option α

section
variable {G : Type} (ops : PointOps G)

/-- `mul_by_pow_2(k)`: `k` successive doublings (serial: `k-1` in the loop plus the unrolled last one, `k > 0`;
vector: `for _ in 0..k`). -/
def mulByPow2 : Nat → G → G
  | 0, P => P
  | k + 1, P => mulByPow2 k (ops.double P)

/-! ### `window.rs` -/

/-- the loop `points[j+1] = P + points[j]` started from `points[0] = P`: `n` entries. -/
def tableGo (P : G) : Nat → G → List G
  | 0, _ => []
  | n + 1, cur => cur :: tableGo P n (ops.add P cur)

/-- `LookupTable*::from(P)` (`Size = size`): `[P, P+P, P+(P+P), …]`. -/
def lookupTableFrom (size : Nat) (P : G) : List G := tableGo ops P size P

/-- `a ^ m` in `i16` for a mask `m ∈ {0, -1}`: `a ^ 0 = a`, `a ^ 0xffff = !a`. -/
def xorMask (a m : Int) : Int := if m == -1 then ~~~a else a

/-- `LookupTable*::select(x)`; the table has `Size = table.length` entries.
```
let xmask = x as i16 >> 7;  let xabs = (x as i16 + xmask) ^ xmask;
let mut t = T::identity();
for j in 1..Size+1 { let c = xabs.ct_eq(j); t.conditional_assign(&self.0[j - 1], c); }
t.conditional_negate((xmask & 1) as u8);
``` -/
def selectModel (table : List G) (x : Int) : G :=
  let xmask : Int := x >>> 7
  let xabs : Int := xorMask (x + xmask) xmask
  let t := (List.range table.length).foldl
    (fun t j0 => if xabs == Int.ofNat (j0 + 1) then table.getD j0 ops.zero else t) ops.zero
  if xmask % 2 == 1 then ops.neg t else t

/-- `NafLookupTable5/8::from(A)` (`size` = 8 / 64): `Ai[0] = A; A2 = A.double(); Ai[i+1] = A2 + Ai[i]`. -/
def nafTableFrom (size : Nat) (A : G) : List G := tableGo ops (ops.double A) size A

/-- `NafLookupTable5/8::select(x: usize)` = `self.0[x / 2]`. -/
def nafSelect (table : List G) (x : Nat) : G := table.getD (x / 2) ops.zero

/-- The `match naf[i].cmp(&0)` block shared by all variable-time algorithms:
`Greater => t + table.select(d as usize)`, `Less => t - table.select(-d as usize)`, `Equal => t`. -/
def nafStep (t : G) (table : List G) (d : Int) : G :=
  if d > 0 then ops.add t (nafSelect ops table d.toNat)
  else if d < 0 then ops.sub t (nafSelect ops table (-d).toNat)
  else t

/-! ### `variable_base::mul` -/

/-- serial copy: `tmp1 = identity + select(digits[63])`, then for `i = 62 … 0`:
four doublings and `+ select(digits[i])`. -/
def variableBaseMul (digits : List Int) (P : G) : G :=
  let table := lookupTableFrom ops 8 P
  let tmp1 := ops.add ops.zero (selectModel ops table (digits.getD 63 0))
  (List.range 63).reverse.foldl
    (fun acc i => ops.add (mulByPow2 ops 4 acc) (selectModel ops table (digits.getD i 0))) tmp1

/-- vector copy: `Q = identity`; for `i = 63 … 0`: `Q = Q.mul_by_pow_2(4); Q = Q + select(digits[i])`. -/
def variableBaseMulVec (digits : List Int) (P : G) : G :=
  let table := lookupTableFrom ops 8 P
  (List.range 64).reverse.foldl
    (fun Q i => ops.add (mulByPow2 ops 4 Q) (selectModel ops table (digits.getD i 0))) ops.zero

/-! ### `Straus` -/

/-- `Straus::multiscalar_mul` (constant time; serial and vector copies coincide):
`Q = identity`; for `j = 63 … 0`: `Q = Q.mul_by_pow_2(4)`, then for every `(s_i, table_i)` of
`scalar_digits.iter().zip(lookup_tables.iter())`: `Q = Q + table_i.select(s_i[j])`. -/
def strausCT (digits : List (List Int)) (points : List G) : G :=
  let tables := points.map (lookupTableFrom ops 8)
  (List.range 64).reverse.foldl
    (fun Q j =>
      (List.zip digits tables).foldl
        (fun Q st => ops.add Q (selectModel ops st.2 (st.1.getD j 0))) (mulByPow2 ops 4 Q))
    ops.zero

/-- `.collect::<Option<Vec<_>>>()`: `None` at the first `None`. -/
def collectOption {α : Type} : List (Option α) → Option (List α)
  | [] => some []
  | none :: _ => none
  | some a :: rest => (collectOption rest).map (a :: ·)

/-- `Straus::optional_multiscalar_mul` (variable time, width-5 NAF): `None` if some point is `None`; else
for `i = 255 … 0`: `t = r.double()`, then for every `(naf, table)` of `nafs.iter().zip(lookup_tables.iter())`
the `nafStep`. -/
def strausVT (nafs : List (List Int)) (points : List (Option G)) : Option G :=
  match collectOption points with
  | none => none
  | some ps =>
    let tables := ps.map (nafTableFrom ops 8)
    some ((List.range 256).reverse.foldl
      (fun r i =>
        (List.zip nafs tables).foldl (fun t nt => nafStep ops t nt.2 (nt.1.getD i 0)) (ops.double r))
      ops.zero)

/-! ### `Pippenger` -/

/-- `let w = if size < 500 { 6 } else if size < 800 { 7 } else { 8 }` with explicit thresholds. -/
def pippengerWindowWith (t500 t800 : Nat) (size : Nat) : Nat :=
  if size < t500 then 6 else if size < t800 then 7 else 8

def pippengerWindow (size : Nat) : Nat := pippengerWindowWith 500 800 size

/-- The bucket accumulation of one column: all buckets reset to the identity, then for each `(digits, pt)`:
`digit > 0`: `buckets[digit-1] += pt`; `digit < 0`: `buckets[-digit-1] -= pt`. -/
def pippengerBuckets (bucketsCount : Nat) (sp : List (List Int × G)) (digitIndex : Nat) : List G :=
  sp.foldl
    (fun bk dp =>
      let digit := dp.1.getD digitIndex 0
      if digit > 0 then
        let b := (digit - 1).toNat
        bk.set b (ops.add (bk.getD b ops.zero) dp.2)
      else if digit < 0 then
        let b := (-digit - 1).toNat
        bk.set b (ops.sub (bk.getD b ops.zero) dp.2)
      else bk)
    (List.replicate bucketsCount ops.zero)

/-- The running sums:
```
let mut buckets_intermediate_sum = buckets[buckets_count - 1];
let mut buckets_sum = buckets[buckets_count - 1];
for i in (0..(buckets_count - 1)).rev() {
    buckets_intermediate_sum += buckets[i];
    buckets_sum += buckets_intermediate_sum;
}
``` -/
def pippengerRunningSum (bucketsCount : Nat) (buckets : List G) : G :=
  let top := buckets.getD (bucketsCount - 1) ops.zero
  ((List.range (bucketsCount - 1)).reverse.foldl
    (fun (st : G × G) i =>
      let inter := ops.add st.1 (buckets.getD i ops.zero)
      (inter, ops.add st.2 inter))
    (top, top)).2

def pippengerColumn (bucketsCount : Nat) (sp : List (List Int × G)) (digitIndex : Nat) : G :=
  pippengerRunningSum ops bucketsCount (pippengerBuckets ops bucketsCount sp digitIndex)

/-- `Pippenger::optional_multiscalar_mul` for a given window `w` (the digits are `as_radix_2w(w)` of the
scalars).  `scalars.zip(points)` stops at the shorter input; `None` if one of the zipped points is `None`.
Columns are computed for `digit_index = digits_count-1 … 0`; `hi_column = columns.next().expect(…)`, then
`fold(hi_column, |total, p| total.mul_by_pow_2(w) + p)`.  (`digits_count ≥ 33`, the `expect` cannot fail;
the model returns the identity in that unreachable branch.) -/
def pippenger (w : Nat) (digits : List (List Int)) (points : List (Option G)) : Option G :=
  let digitsCount := toRadix2wSizeHint w
  let bucketsCount := (1 <<< w) / 2
  match collectOption ((List.zip digits points).map fun sp => sp.2.map fun p => (sp.1, p)) with
  | none => none
  | some sp =>
    match (List.range digitsCount).reverse.map (pippengerColumn ops bucketsCount sp) with
    | [] => some ops.zero
    | hi :: rest => some (rest.foldl (fun total p => ops.add (mulByPow2 ops w total) p) hi)

/-! ### `VartimePrecomputedStraus` -/

/-- `VartimePrecomputedStraus::new`: one `NafLookupTable8` per static point. -/
def precomputedNew (staticPoints : List G) : List (List G) :=
  staticPoints.map (nafTableFrom ops 64)

/-- `optional_mixed_multiscalar_mul`.  Order of events as in the code: the dynamic points are collected first
(`?` returns `None`), then `assert!(sp >= static_nafs.len())`, `assert_eq!(dp, dynamic_nafs.len())` (panic),
then for `j = 255 … 0`: double; `for i in 0..dp` dynamic `nafStep`s; `for i in 0..static_nafs.len()` static
`nafStep`s (fewer static scalars than static points are allowed). -/
def precomputedMixed (staticTables : List (List G)) (staticNafs dynamicNafs : List (List Int))
    (dynamicPoints : List (Option G)) : Panics (Option G) :=
  match collectOption dynamicPoints with
  | none => some none
  | some dps =>
    let dynamicTables := dps.map (nafTableFrom ops 8)
    let sp := staticTables.length
    let dp := dynamicTables.length
    if ¬ (sp ≥ staticNafs.length) then none
    else if dp ≠ dynamicNafs.length then none
    else
      some (some ((List.range 256).reverse.foldl
        (fun S j =>
          let R := ops.double S
          let R := (List.range dp).foldl
            (fun R i => nafStep ops R (dynamicTables.getD i []) ((dynamicNafs.getD i []).getD j 0)) R
          (List.range staticNafs.length).foldl
            (fun R i => nafStep ops R (staticTables.getD i []) ((staticNafs.getD i []).getD j 0)) R)
        ops.zero))

/-! ### `vartime_double_base::mul` -/

/-- The first loop: `i = 255; for j in (0..256).rev() { i = j; if a_naf[i] != 0 || b_naf[i] != 0 { break } }`:
the highest index with a non-zero digit, `0` if there is none.  `doubleBaseTop a b 256` is the result. -/
def doubleBaseTop (aNaf bNaf : List Int) : Nat → Nat
  | 0 => 0
  | j + 1 => if aNaf.getD j 0 != 0 || bNaf.getD j 0 != 0 then j else doubleBaseTop aNaf bNaf j

/-- `vartime_double_base::mul(a, A, b)` given the two NAFs and the table of odd multiples of the basepoint:
with `precomputed-tables` `bNaf` has width 8 and `tableB` is the constant
`AFFINE_ODD_MULTIPLES_OF_BASEPOINT` (serial) / `BASEPOINT_ODD_LOOKUP_TABLE` (vector), 64 entries; without,
`bNaf` has width 5 and `tableB = NafLookupTable5::from(&ED25519_BASEPOINT_POINT)`.
Main loop: from `i = top` down to `0`: double, `nafStep` for `A`, `nafStep` for `B`. -/
def doubleBaseLoop (aNaf bNaf : List Int) (A : G) (tableB : List G) : G :=
  let top := doubleBaseTop aNaf bNaf 256
  let tableA := nafTableFrom ops 8 A
  (List.range (top + 1)).reverse.foldl
    (fun r i =>
      nafStep ops (nafStep ops (ops.double r) tableA (aNaf.getD i 0)) tableB (bNaf.getD i 0))
    ops.zero

/-! ### `EdwardsBasepointTable*` (`impl_basepoint_table!`) -/

/-- `create`: 32 lookup tables of `2^(w-1)` entries; `table[i] = LookupTable::from(&P); P = P.mul_by_pow_2(w + w)`
(`$radix` in the macro is `w = 4 … 8`). -/
def basepointTableCreate (w : Nat) (P : G) : List (List G) :=
  go 32 P
where
  go : Nat → G → List (List G)
    | 0, _ => []
    | n + 1, P => lookupTableFrom ops (2 ^ (w - 1)) P :: go n (mulByPow2 ops (w + w) P)

/-- The `Additions` parameter of the five macro invocations. -/
def basepointAdditions : Nat → Nat
  | 4 => 64
  | 5 => 52
  | 6 => 43
  | 7 => 37
  | 8 => 33
  | _ => 0

/-- `mul_base` given `a = scalar.as_radix_2w(w)`:
```
let mut P = identity;
for i in (0..adds).filter(|x| x % 2 == 1) { P = P + tables[i / 2].select(a[i]); }
P = P.mul_by_pow_2(w);
for i in (0..adds).filter(|x| x % 2 == 0) { P = P + tables[i / 2].select(a[i]); }
``` -/
def basepointTableMulBase (w : Nat) (tables : List (List G)) (a : List Int) : G :=
  let adds := basepointAdditions w
  let P := ((List.range adds).filter (· % 2 == 1)).foldl
    (fun P i => ops.add P (selectModel ops (tables.getD (i / 2) []) (a.getD i 0))) ops.zero
  let P := mulByPow2 ops w P
  ((List.range adds).filter (· % 2 == 0)).foldl
    (fun P i => ops.add P (selectModel ops (tables.getD (i / 2) []) (a.getD i 0))) P

/-- `BasepointTable::basepoint`: `identity + self.0[0].select(1)`. -/
def basepointTableBasepoint (tables : List (List G)) : G :=
  ops.add ops.zero (selectModel ops (tables.getD 0 []) 1)

/-! ### entry points of `edwards.rs` (scalars are the 32 raw bytes of a `Scalar`) -/

inductive Backend
  | serial
  | vector
  deriving DecidableEq, Repr

/-- Build configuration: run-time selected backend and the `precomputed-tables` feature. -/
structure Config where
  backend : Backend
  tables : Bool
  deriving DecidableEq, Repr

/-- The basepoint and the shipped constant tables (`ED25519_BASEPOINT_POINT`, `ED25519_BASEPOINT_TABLE`,
`AFFINE_ODD_MULTIPLES_OF_BASEPOINT` resp. the vector `BASEPOINT_ODD_LOOKUP_TABLE`). -/
structure BaseConsts (G : Type) where
  B : G
  basepointTable : List (List G)
  oddMultiples : List G

/-- `backend::variable_base_mul` = `&EdwardsPoint * &Scalar`. -/
def edwardsMul (cfg : Config) (P : G) (scalar : List UInt8) : G :=
  match cfg.backend with
  | .serial => variableBaseMul ops (asRadix16 scalar) P
  | .vector => variableBaseMulVec ops (asRadix16 scalar) P

/-- `&EdwardsBasepointTable* * &Scalar` for the table of radix `2^w`. -/
def basepointTableMul (w : Nat) (tables : List (List G)) (scalar : List UInt8) : G :=
  basepointTableMulBase ops w tables (asRadix2w scalar w)

/-- `EdwardsPoint::mul_base`. -/
def mulBase (cfg : Config) (c : BaseConsts G) (scalar : List UInt8) : G :=
  if cfg.tables then basepointTableMul ops 4 c.basepointTable scalar
  else edwardsMul ops cfg c.B scalar

/-- `EdwardsPoint::mul_clamped`. -/
def mulClamped (cfg : Config) (P : G) (bytes : List UInt8) : G :=
  edwardsMul ops cfg P (clampInteger bytes)

/-- `EdwardsPoint::mul_base_clamped`. -/
def mulBaseClamped (cfg : Config) (c : BaseConsts G) (bytes : List UInt8) : G :=
  mulBase ops cfg c (clampInteger bytes)

/-- `EdwardsPoint::vartime_double_scalar_mul_basepoint(a, A, b)` (both backends' copies coincide). -/
def doubleBase (cfg : Config) (c : BaseConsts G) (a : List UInt8) (A : G) (b : List UInt8) : G :=
  if cfg.tables then
    doubleBaseLoop ops (nonAdjacentForm a 5) (nonAdjacentForm b 8) A c.oddMultiples
  else
    doubleBaseLoop ops (nonAdjacentForm a 5) (nonAdjacentForm b 5) A (nafTableFrom ops 8 c.B)

/-- `EdwardsPoint::multiscalar_mul` (for exact-size iterators: `size_hint() = (len, Some(len))`; the three
`assert_eq!`s then say that the lengths agree).  Always Straus. -/
def multiscalarMul (scalars : List (List UInt8)) (points : List G) : Panics G :=
  if scalars.length ≠ points.length then none
  else some (strausCT ops (scalars.map asRadix16) points)

/-- `EdwardsPoint::optional_multiscalar_mul` with explicit thresholds (`190`; `500`/`800` inside Pippenger,
whose `size` is again `scalars.size_hint().0`). -/
def optionalMultiscalarMulWith (t190 t500 t800 : Nat) (scalars : List (List UInt8))
    (points : List (Option G)) : Panics (Option G) :=
  if scalars.length ≠ points.length then none
  else
    let size := scalars.length
    if size < t190 then some (strausVT ops (scalars.map (nonAdjacentForm · 5)) points)
    else
      let w := pippengerWindowWith t500 t800 size
      some (pippenger ops w (scalars.map (asRadix2w · w)) points)

def optionalMultiscalarMul (scalars : List (List UInt8)) (points : List (Option G)) : Panics (Option G) :=
  optionalMultiscalarMulWith ops 190 500 800 scalars points

/-- `VartimeMultiscalarMul::vartime_multiscalar_mul` (provided method):
`optional_multiscalar_mul(scalars, points.map(Some)).expect(…)`. -/
def vartimeMultiscalarMul (scalars : List (List UInt8)) (points : List G) : Panics G :=
  match optionalMultiscalarMul ops scalars (points.map some) with
  | none => none
  | some none => none
  | some (some r) => some r

/-- `VartimeEdwardsPrecomputation::new`. -/
def precomputationNew (staticPoints : List G) : List (List G) := precomputedNew ops staticPoints

/-- `VartimeEdwardsPrecomputation::optional_mixed_multiscalar_mul`. -/
def optionalMixedMultiscalarMul (staticTables : List (List G)) (staticScalars dynamicScalars : List (List UInt8))
    (dynamicPoints : List (Option G)) : Panics (Option G) :=
  precomputedMixed ops staticTables (staticScalars.map (nonAdjacentForm · 5))
    (dynamicScalars.map (nonAdjacentForm · 5)) dynamicPoints

/-- `vartime_mixed_multiscalar_mul` (provided method): points wrapped in `Some`, then `.expect`. -/
def vartimeMixedMultiscalarMul (staticTables : List (List G)) (staticScalars dynamicScalars : List (List UInt8))
    (dynamicPoints : List G) : Panics G :=
  match optionalMixedMultiscalarMul ops staticTables staticScalars dynamicScalars (dynamicPoints.map some) with
  | none => none
  | some none => none
  | some (some r) => some r

/-- `VartimePrecomputedMultiscalarMul::vartime_multiscalar_mul` (provided method): no dynamic inputs. -/
def precomputedVartimeMultiscalarMul (staticTables : List (List G)) (staticScalars : List (List UInt8)) :
    Panics G :=
  vartimeMixedMultiscalarMul ops staticTables staticScalars [] []

/-! ### `ristretto.rs`: `RistrettoPoint(pub(crate) EdwardsPoint)` is a newtype and every scalar-multiplication
entry point unwraps, delegates and re-wraps:
`&RistrettoPoint * &Scalar = RistrettoPoint(self.0 * scalar)`, `mul_base` uses `RISTRETTO_BASEPOINT_POINT` /
`RISTRETTO_BASEPOINT_TABLE = RistrettoBasepointTable(ED25519_BASEPOINT_TABLE)`, `multiscalar_mul`,
`optional_multiscalar_mul` (`points.map(|P| P.0)`, `.map(RistrettoPoint)`), `VartimeRistrettoPrecomputation`,
`vartime_double_scalar_mul_basepoint`, `RistrettoBasepointTable::{create, basepoint, mul}`. -/

def ristrettoMul (cfg : Config) (P : G) (scalar : List UInt8) : G := edwardsMul ops cfg P scalar
def ristrettoMulBase (cfg : Config) (c : BaseConsts G) (scalar : List UInt8) : G := mulBase ops cfg c scalar
def ristrettoMultiscalarMul (scalars : List (List UInt8)) (points : List G) : Panics G :=
  multiscalarMul ops scalars points
def ristrettoOptionalMultiscalarMul (scalars : List (List UInt8)) (points : List (Option G)) :
    Panics (Option G) :=
  (optionalMultiscalarMul ops scalars (points.map fun o => o.map id)).map fun r => r.map id
def ristrettoOptionalMixedMultiscalarMul (staticTables : List (List G))
    (staticScalars dynamicScalars : List (List UInt8)) (dynamicPoints : List (Option G)) : Panics (Option G) :=
  (optionalMixedMultiscalarMul ops staticTables staticScalars dynamicScalars
    (dynamicPoints.map fun o => o.map id)).map fun r => r.map id
def ristrettoDoubleBase (cfg : Config) (c : BaseConsts G) (a : List UInt8) (A : G) (b : List UInt8) : G :=
  doubleBase ops cfg c a A b
def ristrettoBasepointTableCreate (P : G) : List (List G) := basepointTableCreate ops 4 P
def ristrettoBasepointTableMul (tables : List (List G)) (scalar : List UInt8) : G :=
  basepointTableMul ops 4 tables scalar

end

/-! ### the integers as a point implementation (sanity checks / executable tests) -/

def intOps : PointOps Int := ⟨0, (· + ·), (· - ·), (- ·), fun x => x + x⟩

/-! ### executable point implementations -/

/-- the affine specification points (`Dalek.Spec.Pt`, complete twisted-Edwards addition law) -/
def ptOps : PointOps Dalek.Spec.Pt := ⟨.zero, .add, .sub, .neg, .double⟩

/-- extended coordinates with dalek's addition / doubling formulas (`Dalek.Model.EPt`) -/
def eptOps : PointOps Dalek.Model.EPt := ⟨.zero, .add, .sub, .neg, .double⟩

end Dalek.Model.ScalarMul

import Dalek.Model.ScalarApi
/-!
# The `Scalar` API glue of `curve25519-dalek/src/scalar.rs`, written ONCE over an abstract backend

`scalar.rs` is backend independent: it composes the methods of `UnpackedScalar` (= `Scalar52` on 64-bit targets,
`Scalar29` on 32-bit targets; `scalar.rs:1104-1117` selects the type by `cfg`).  `ScalarKernels` is the record of
those methods (functions on limb / byte LISTS) together with the two constants the glue mentions (`R`, `ZERO`);
the functions below are the glue of `Dalek/Model/ScalarApi.lean`, with the same call structure, text and source line
references, but with the kernels taken from the record.  The addition chain `invertChain` / `squareMultiply`
(already generic in its two operations) and the backend-independent `fromUInt` are reused from
`Dalek.Model.ScalarApi`.

Instances: `K52` below (the wrappers of `Dalek/Model/ScalarApi.lean`; `Dalek.Proofs.ScalarApiGen.gen52_*` show that
the hand model of that file IS this generic glue at `K52`) and `Dalek.Model.ScalarApi29.K29`
(`Dalek/Model/ScalarApi29.lean`, the translated `Dalek.Gen.Scalar29.*` kernels).

Mathlib-free, executable.
-/

namespace Dalek.Model
open Dalek.Gen.Consts
open Dalek.Model.ScalarApi (Bytes Limbs invertChain squareMultiply)

/-- the methods of `UnpackedScalar` used by `scalar.rs` (on lists: bytes in, limbs out, …) and the constants
`UnpackedScalar::ZERO`, `constants::R` -/
structure ScalarKernels where
  /-- `UnpackedScalar::from_bytes` -/
  fromBytes : Bytes → Limbs
  /-- `UnpackedScalar::from_bytes_wide` -/
  fromBytesWide : Bytes → Limbs
  /-- `UnpackedScalar::as_bytes` -/
  asBytes : Limbs → Bytes
  /-- `UnpackedScalar::add(a, b)` -/
  addU : Limbs → Limbs → Limbs
  /-- `UnpackedScalar::sub(a, b)` -/
  subU : Limbs → Limbs → Limbs
  /-- `UnpackedScalar::mul(a, b)` -/
  mulU : Limbs → Limbs → Limbs
  /-- `UnpackedScalar::mul_internal(a, b)` (the wide words) -/
  mulInternal : Limbs → Limbs → List Nat
  /-- `UnpackedScalar::montgomery_reduce(limbs)` -/
  montgomeryReduce : List Nat → Limbs
  /-- `UnpackedScalar::montgomery_mul(a, b)` -/
  montgomeryMul : Limbs → Limbs → Limbs
  /-- `UnpackedScalar::montgomery_square(a)` -/
  montgomerySquare : Limbs → Limbs
  /-- `UnpackedScalar::as_montgomery(a)` -/
  asMontgomery : Limbs → Limbs
  /-- `UnpackedScalar::from_montgomery(a)` -/
  fromMontgomery : Limbs → Limbs
  /-- `UnpackedScalar::ZERO` -/
  ZERO : Limbs
  /-- `constants::R` of the backend -/
  R : Limbs

namespace ScalarKernels

/-! ## `unpack` / `pack` -/

/-- `Scalar::unpack` (scalar.rs:1119): `UnpackedScalar::from_bytes(&self.bytes)` -/
def unpack (K : ScalarKernels) (self : Bytes) : Limbs := K.fromBytes self

/-- `UnpackedScalar::pack` (scalar.rs:1141): `Scalar { bytes: self.as_bytes() }` -/
def pack (K : ScalarKernels) (self : Limbs) : Bytes := K.asBytes self

/-! ## reduction and constructors -/

/-- `Scalar::reduce` (scalar.rs:1125) -/
def reduce (K : ScalarKernels) (self : Bytes) : Bytes :=
  let x := K.unpack self
  let xR := K.mulInternal x K.R
  let x_mod_l := K.montgomeryReduce xR
  K.pack x_mod_l

/-- `Scalar::from_bytes_mod_order` (scalar.rs:237) -/
def fromBytesModOrder (K : ScalarKernels) (bytes : Bytes) : Bytes :=
  let s_unreduced := bytes
  let s := K.reduce s_unreduced
  s

/-- `Scalar::from_bytes_mod_order_wide` (scalar.rs:250): `UnpackedScalar::from_bytes_wide(input).pack()` -/
def fromBytesModOrderWide (K : ScalarKernels) (input : Bytes) : Bytes := K.pack (K.fromBytesWide input)

/-- `Scalar::is_canonical` (scalar.rs:1134): `self.ct_eq(&self.reduce())` (`ct_eq` on the 32 bytes) -/
def isCanonical (K : ScalarKernels) (self : Bytes) : Bool := self == K.reduce self

/-- `Scalar::from_canonical_bytes` (scalar.rs:261): `CtOption::new(candidate, high_bit_unset & is_canonical)` -/
def fromCanonicalBytes (K : ScalarKernels) (bytes : Bytes) : Option Bytes :=
  let high_bit_unset := (bytes.getD 31 0 >>> 7) == 0
  let candidate := bytes
  if high_bit_unset && K.isCanonical candidate then some candidate else none

/-- `Scalar::from_hash` / `hash_from_bytes` (scalar.rs:625, 671): the 64-byte digest (a parameter of the model)
goes to `from_bytes_mod_order_wide` -/
def fromHash (K : ScalarKernels) (digest : Bytes) : Bytes :=
  let output := digest
  K.fromBytesModOrderWide output

/-! ## operators -/

/-- `&Scalar + &Scalar` (scalar.rs:343): `UnpackedScalar::add(&self.unpack(), &rhs.unpack()).pack()` -/
def add (K : ScalarKernels) (self rhs : Bytes) : Bytes := K.pack (K.addU (K.unpack self) (K.unpack rhs))

/-- `&Scalar - &Scalar` (scalar.rs:363) -/
def sub (K : ScalarKernels) (self rhs : Bytes) : Bytes := K.pack (K.subU (K.unpack self) (K.unpack rhs))

/-- `&Scalar * &Scalar` (scalar.rs:325) -/
def mul (K : ScalarKernels) (self rhs : Bytes) : Bytes := K.pack (K.mulU (K.unpack self) (K.unpack rhs))

/-- `-&Scalar` (scalar.rs:375): `mul_internal(self, R)` → `montgomery_reduce` → `sub(ZERO, ·)` -/
def neg (K : ScalarKernels) (self : Bytes) : Bytes :=
  let self_R := K.mulInternal (K.unpack self) K.R
  let self_mod_l := K.montgomeryReduce self_R
  K.pack (K.subU K.ZERO self_mod_l)

/-- `Sum` (scalar.rs:476): `iter.fold(Scalar::ZERO, |acc, item| acc + item)` -/
def sum (K : ScalarKernels) (iter : List Bytes) : Bytes :=
  iter.foldl (fun acc item => K.add acc item) ScalarRs.ZERO

/-- `Product` (scalar.rs:464): `iter.fold(Scalar::ONE, |acc, item| acc * item)` -/
def product (K : ScalarKernels) (iter : List Bytes) : Bytes :=
  iter.foldl (fun acc item => K.mul acc item) ScalarRs.ONE

/-! ## inversion -/

/-- `UnpackedScalar::montgomery_invert` (scalar.rs:1150): the addition chain `Dalek.Model.ScalarApi.invertChain`
on the backend's `montgomery_square` / `montgomery_mul` -/
def montgomeryInvert (K : ScalarKernels) (self : Limbs) : Limbs :=
  invertChain K.montgomerySquare K.montgomeryMul self

/-- `UnpackedScalar::invert` (scalar.rs:1206): `self.as_montgomery().montgomery_invert().from_montgomery()` -/
def invertUnpacked (K : ScalarKernels) (self : Limbs) : Limbs :=
  K.fromMontgomery (K.montgomeryInvert (K.asMontgomery self))

/-- `Scalar::invert` (scalar.rs:747): `self.unpack().invert().pack()` -/
def invert (K : ScalarKernels) (self : Bytes) : Bytes := K.pack (K.invertUnpacked (K.unpack self))

/-! ## `Scalar::batch_invert` (scalar.rs:788-837); see `Dalek/Model/ScalarApi.lean` for the reading of the loops -/

/-- first pass: `for (input, scratch) in inputs.iter_mut().zip(scratch.iter_mut())`; returns the new
`(input, scratch)` pairs and the final `acc` -/
def batchPass1 (K : ScalarKernels) : List (Bytes × Limbs) → Limbs → List (Bytes × Limbs) × Limbs
  | [], acc => ([], acc)
  | (input, _scratch) :: rest, acc =>
    -- *scratch = acc;
    let scratch := acc
    -- let tmp = input.unpack().as_montgomery(); *input = tmp.pack();
    let tmp := K.asMontgomery (K.unpack input)
    let input := K.pack tmp
    -- acc = UnpackedScalar::montgomery_mul(&acc, &tmp);
    let acc := K.montgomeryMul acc tmp
    let r := batchPass1 K rest acc
    ((input, scratch) :: r.1, r.2)

/-- second pass: `for (input, scratch) in inputs.iter_mut().rev().zip(scratch.iter().rev())`: the LAST pair is
processed first, so the recursion first runs on the tail; returns the new inputs and the final `acc` -/
def batchPass2 (K : ScalarKernels) : List (Bytes × Limbs) → Limbs → List Bytes × Limbs
  | [], acc => ([], acc)
  | (input, scratch) :: rest, acc =>
    let r := batchPass2 K rest acc
    let acc := r.2
    -- let tmp = UnpackedScalar::montgomery_mul(&acc, &input.unpack());
    let tmp := K.montgomeryMul acc (K.unpack input)
    -- *input = UnpackedScalar::montgomery_mul(&acc, scratch).pack();
    let input := K.pack (K.montgomeryMul acc scratch)
    -- acc = tmp;
    (input :: r.1, tmp)

/-- `Scalar::batch_invert(inputs: &mut [Scalar]) -> Scalar`: the new contents of `inputs` and the returned
scalar -/
def batchInvert (K : ScalarKernels) (inputs : List Bytes) : List Bytes × Bytes :=
  let n := inputs.length
  let one := K.asMontgomery (K.unpack ScalarRs.ONE)
  let scratch := List.replicate n one
  let acc := K.asMontgomery (K.unpack ScalarRs.ONE)
  let p1 := K.batchPass1 (inputs.zip scratch) acc
  let acc := p1.2
  -- acc = acc.montgomery_invert().from_montgomery();
  let acc := K.fromMontgomery (K.montgomeryInvert acc)
  -- let ret = acc.pack();
  let ret := K.pack acc
  let p2 := K.batchPass2 p1.1 acc
  (p2.1, ret)

/-- the value `acc.pack()` tested by `debug_assert!(acc.pack() != Scalar::ZERO)` (scalar.rs:815) -/
def batchInvertAccPacked (K : ScalarKernels) (inputs : List Bytes) : Bytes :=
  let n := inputs.length
  let one := K.asMontgomery (K.unpack ScalarRs.ONE)
  let scratch := List.replicate n one
  let acc := K.asMontgomery (K.unpack ScalarRs.ONE)
  K.pack (K.batchPass1 (inputs.zip scratch) acc).2

end ScalarKernels

/-- the serial u64 backend: the wrappers of `Dalek/Model/ScalarApi.lean` around the translated
`Dalek.Gen.Scalar52.*` kernels, `constants::R = U64.R` -/
def K52 : ScalarKernels where
  fromBytes := ScalarApi.fromBytes52
  fromBytesWide := ScalarApi.fromBytesWide52
  asBytes := ScalarApi.asBytes52
  addU := ScalarApi.add52
  subU := ScalarApi.sub52
  mulU := ScalarApi.mul52
  mulInternal := ScalarApi.mulInternal52
  montgomeryReduce := ScalarApi.montgomeryReduce52
  montgomeryMul := ScalarApi.montgomeryMul52
  montgomerySquare := ScalarApi.montgomerySquare52
  asMontgomery := ScalarApi.asMontgomery52
  fromMontgomery := ScalarApi.fromMontgomery52
  ZERO := ScalarApi.ZERO52
  R := U64.R

end Dalek.Model

import Dalek.Gen.Scalar29
import Dalek.Gen.Consts
import Dalek.Model.ScalarKernels
/-!
# Hand model of the `Scalar` API glue of `curve25519-dalek/src/scalar.rs` (serial u32 backend)

On 32-bit targets `UnpackedScalar = Scalar29` (nine limbs, radix `2^29`, Montgomery radix `2^261`);
`scalar.rs` runs the SAME glue as on 64-bit targets over the kernels of `backend/serial/u32/scalar.rs`.

**Tie to the source.**  Every arithmetic step is the RELEASE semantics `Prog.evalW` of a kernel that is
TRANSLATED from `backend/serial/u32/scalar.rs` on every run (`Dalek.Gen.Scalar29.*`; the constants `L`,
`LFACTOR`, `RR` of `u32/constants.rs` are folded into the translated kernel bodies exactly as `Dalek.Gen.Consts.U32`
lists them, see `Dalek/Props/C02/Scalar29.lean`: `L_value`, `LFACTOR_value`, `RR_value`), and the constant `R`
passed by the glue (`constants::R`) is the regenerated literal `Dalek.Gen.Consts.U32.R` — so a change of a kernel or
of a constant propagates into this model.  The COMPOSITION is the backend-parametric glue of
`Dalek/Model/ScalarKernels.lean` (a transcription of `scalar.rs` 4.1.3, same text as `Dalek/Model/ScalarApi.lean`),
instantiated at the record `K29` of these kernels.  The only literal not taken from `Dalek.Gen.Consts` is
`Scalar29::ZERO = Scalar29([0; 9])` (u32/scalar.rs:49), which the translator does not export.

Mathlib-free, executable.  Theorems: `Dalek/Props/C02/Api29.lean`.
-/

namespace Dalek.Model.ScalarApi29
open Dalek.Gen Dalek.Gen.Consts
open Dalek.Model.ScalarApi (Bytes Limbs)

/-! ## the kernels (release semantics of the translated code) -/

/-- `Scalar29::from_bytes` -/
def fromBytes29 (bytes : Bytes) : Limbs := Scalar29.from_bytes.evalW bytes
/-- `Scalar29::from_bytes_wide` -/
def fromBytesWide29 (bytes : Bytes) : Limbs := Scalar29.from_bytes_wide.evalW bytes
/-- `Scalar29::as_bytes` -/
def asBytes29 (s : Limbs) : Bytes := Scalar29.as_bytes.evalW s
/-- `Scalar29::add(a, b)` -/
def add29 (a b : Limbs) : Limbs := Scalar29.add.evalW (a ++ b)
/-- `Scalar29::sub(a, b)` -/
def sub29 (a b : Limbs) : Limbs := Scalar29.sub.evalW (a ++ b)
/-- `Scalar29::mul(a, b)` -/
def mul29 (a b : Limbs) : Limbs := Scalar29.mul.evalW (a ++ b)
/-- `Scalar29::mul_internal(a, b)` (seventeen `u64` words) -/
def mulInternal29 (a b : Limbs) : List Nat := Scalar29.mul_internal.evalW (a ++ b)
/-- `Scalar29::montgomery_reduce(limbs)` -/
def montgomeryReduce29 (z : List Nat) : Limbs := Scalar29.montgomery_reduce.evalW z
/-- `Scalar29::montgomery_mul(a, b)` -/
def montgomeryMul29 (a b : Limbs) : Limbs := Scalar29.montgomery_mul.evalW (a ++ b)
/-- `Scalar29::montgomery_square(a)` -/
def montgomerySquare29 (a : Limbs) : Limbs := Scalar29.montgomery_square.evalW a
/-- `Scalar29::as_montgomery(a)` -/
def asMontgomery29 (a : Limbs) : Limbs := Scalar29.as_montgomery.evalW a
/-- `Scalar29::from_montgomery(a)` -/
def fromMontgomery29 (a : Limbs) : Limbs := Scalar29.from_montgomery.evalW a

/-- `Scalar29::ZERO` (u32/scalar.rs:49) -/
def ZERO29 : Limbs := [0, 0, 0, 0, 0, 0, 0, 0, 0]

/-- the serial u32 backend: the translated `Dalek.Gen.Scalar29.*` kernels, `constants::R = U32.R` -/
def K29 : ScalarKernels where
  fromBytes := fromBytes29
  fromBytesWide := fromBytesWide29
  asBytes := asBytes29
  addU := add29
  subU := sub29
  mulU := mul29
  mulInternal := mulInternal29
  montgomeryReduce := montgomeryReduce29
  montgomeryMul := montgomeryMul29
  montgomerySquare := montgomerySquare29
  asMontgomery := asMontgomery29
  fromMontgomery := fromMontgomery29
  ZERO := ZERO29
  R := U32.R

/-! ## the API: the glue of `Dalek/Model/ScalarKernels.lean` at `K29` (line references there) -/

/-- `Scalar::unpack` -/
abbrev unpack (self : Bytes) : Limbs := K29.unpack self
/-- `UnpackedScalar::pack` -/
abbrev pack (self : Limbs) : Bytes := K29.pack self
/-- `Scalar::reduce` -/
abbrev reduce29 (self : Bytes) : Bytes := K29.reduce self
/-- `Scalar::from_bytes_mod_order` -/
abbrev fromBytesModOrder (bytes : Bytes) : Bytes := K29.fromBytesModOrder bytes
/-- `Scalar::from_bytes_mod_order_wide` -/
abbrev fromBytesModOrderWide (input : Bytes) : Bytes := K29.fromBytesModOrderWide input
/-- `Scalar::is_canonical` -/
abbrev isCanonical (self : Bytes) : Bool := K29.isCanonical self
/-- `Scalar::from_canonical_bytes` -/
abbrev fromCanonicalBytes (bytes : Bytes) : Option Bytes := K29.fromCanonicalBytes bytes
/-- `Scalar::from_hash` / `hash_from_bytes` on the 64-byte digest -/
abbrev fromHash (digest : Bytes) : Bytes := K29.fromHash digest

/-- `From<u8>` … `From<u128>` (scalar.rs:490-554) do not touch the backend -/
abbrev fromUInt (nbytes : Nat) (x : Nat) : Bytes := Dalek.Model.ScalarApi.fromUInt nbytes x
abbrev fromU8 (x : Nat) : Bytes := fromUInt 1 x
abbrev fromU16 (x : Nat) : Bytes := fromUInt 2 x
abbrev fromU32 (x : Nat) : Bytes := fromUInt 4 x
abbrev fromU64 (x : Nat) : Bytes := fromUInt 8 x
abbrev fromU128 (x : Nat) : Bytes := fromUInt 16 x

/-- `&Scalar + &Scalar` -/
abbrev add (self rhs : Bytes) : Bytes := K29.add self rhs
/-- `&Scalar - &Scalar` -/
abbrev sub (self rhs : Bytes) : Bytes := K29.sub self rhs
/-- `&Scalar * &Scalar` -/
abbrev mul (self rhs : Bytes) : Bytes := K29.mul self rhs
/-- `-&Scalar` -/
abbrev neg (self : Bytes) : Bytes := K29.neg self
/-- `Sum` -/
abbrev sum (iter : List Bytes) : Bytes := K29.sum iter
/-- `Product` -/
abbrev product (iter : List Bytes) : Bytes := K29.product iter

/-- `UnpackedScalar::montgomery_invert`: the addition chain on `Scalar29::montgomery_square` / `montgomery_mul` -/
abbrev montgomeryInvert (self : Limbs) : Limbs := K29.montgomeryInvert self
/-- `UnpackedScalar::invert` -/
abbrev invertUnpacked (self : Limbs) : Limbs := K29.invertUnpacked self
/-- `Scalar::invert` -/
abbrev invert (self : Bytes) : Bytes := K29.invert self

/-- `Scalar::batch_invert`: the new contents of `inputs` and the returned scalar -/
abbrev batchInvert (inputs : List Bytes) : List Bytes × Bytes := K29.batchInvert inputs
/-- the value `acc.pack()` tested by `debug_assert!(acc.pack() != Scalar::ZERO)` (scalar.rs:815) -/
abbrev batchInvertAccPacked (inputs : List Bytes) : Bytes := K29.batchInvertAccPacked inputs

end Dalek.Model.ScalarApi29

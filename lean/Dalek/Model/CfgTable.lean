import Dalek.Gen.CfgInventory
import Dalek.Model.PanicTable
/-!
Classification of the FEATURE-GATED code inside function bodies (`Dalek.Gen.CfgInventory`, regenerated from the source on
every run).  The correspondence runs see the crates under a fixed family of cargo-feature sets (all features on; with and without
`precomputed-tables`; with and without `legacy_compatibility`).  A statement that exists only under some feature is harmless for
that argument iff it is one of:

* `inert`        (shape 1–3) a lone zeroize call, a `Zeroizing::new` rebinding or a lint attribute: removing it changes no value;
* `tables`       gated on `precomputed-tables` (either polarity): BOTH alternatives are executed, by the `-notables` driver builds;
* a hand entry of `handTable` below, keyed like panic sites by `(file, func, attr, first 100 characters of the text)`.

Anything else is UNCLASSIFIED: `Props/C05/CfgGated.lean` then fails, i.e. "the driver configurations cover the feature space" is no
longer shown.  Mathlib-free.
-/
namespace Dalek.Model.CfgTable
open Dalek.Gen.CfgInventory Dalek.Model.PanicTable

structure HandEntry where
  key : Nat
  reason : String

def handTable : List HandEntry := [
  ⟨sitekey% "curve25519-dalek/src/window.rs" "macro_rules!impl_lookup_table" "#[cfg(feature = \"zeroize\")]"
      "impl < T > Zeroize for $name < T > where T : Copy + Default + Zeroize,",
   "an ITEM (trait impl of Zeroize for the lookup tables) inside a macro body, not a statement: it adds a method, it does not change an existing one"⟩,
  ⟨sitekey% "ed25519-dalek/src/errors.rs" "<InternalError as Display>::fmt" "#[cfg(feature = \"batch\")]"
      "InternalError::ArrayLength { name_a : na, length_a : la, name_b : nb, length_b : lb, name_c : nc, le",
   "match arm for an enum variant that only exists with the feature (Display text only)"⟩,
  ⟨sitekey% "ed25519-dalek/src/errors.rs" "<InternalError as Display>::fmt" "#[cfg(feature = \"digest\")]"
      "InternalError::PrehashedContextLength => write!(f, \"An ed25519ph signature can only take up to 255 o",
   "match arm for an enum variant that only exists with the feature (Display text only)"⟩]

def classOf (s : CfgSite) : Option String :=
  if !s.feature then some "backend-select: configuration dimension of C05, exercised by the twelve driver builds"
  else if s.code = 1 ∨ s.code = 2 ∨ s.code = 3 then some "inert: zeroize call / Zeroizing wrapper / lint attribute"
  else if s.tables then some "tables: both alternatives executed (driver builds with and without precomputed-tables)"
  else (handTable.find? (fun e => e.key == s.key)).map (fun e => "hand: " ++ e.reason)

def unclassified : List CfgSite := cfgSites.filter (fun s => (classOf s).isNone)

/-- the numeric part of `classOf` (kernel-evaluable without string reduction) -/
def classified (s : CfgSite) : Bool :=
  !s.feature || s.code == 1 || s.code == 2 || s.code == 3 || s.tables || handTable.any (fun e => e.key == s.key)

/-- keys of the hand table that match no site of the current source (stale entries; harmless) -/
def staleHand : List Nat := (handTable.filter (fun e => !(cfgSites.any (fun s => s.key == e.key)))).map (·.key)

/-- numeric file tags used by the per-property restrictions: the `key` of a site starts with the bytes of its file name, so a
file is identified without string comparison by comparing with the key of a reference site; we simply carry the list of the
feature-gated sites whose shape is not inert -/
def nonInert : List CfgSite := cfgSites.filter (fun s => s.feature && !(s.code == 1 || s.code == 2 || s.code == 3))

end Dalek.Model.CfgTable

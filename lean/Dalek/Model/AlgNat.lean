import Dalek.IR.Alg
import Dalek.Spec.Field
import Dalek.Gen.Consts
/-! Executable interpretation of the AlgIR signature over canonical naturals mod p (Mathlib-free).
Constants come from the REGENERATED literal table (`Dalek.Gen.Consts.U64`), indexed as in the generated
`constNames` (FieldElement::ZERO, ONE, MINUS_ONE, then the field constants of u64/constants.rs). -/
namespace Dalek.Model
open Dalek.IR Dalek.Spec

/-- value mod p of a 5×51-bit limb vector -/
def val51Nat (l : List Nat) : Nat :=
  (l.getD 0 0 + 2 ^ 51 * l.getD 1 0 + 2 ^ 102 * l.getD 2 0 + 2 ^ 153 * l.getD 3 0 + 2 ^ 204 * l.getD 4 0) % P

open Dalek.Gen.Consts.U64 in
/-- the constant table, in the order of the generated `constNames` -/
def algConstTable : List Nat :=
  [0, 1, P - 1, val51Nat MINUS_ONE, val51Nat EDWARDS_D, val51Nat EDWARDS_D2, val51Nat ONE_MINUS_EDWARDS_D_SQUARED,
   val51Nat EDWARDS_D_MINUS_ONE_SQUARED, val51Nat SQRT_AD_MINUS_ONE, val51Nat INVSQRT_A_MINUS_D, val51Nat SQRT_M1,
   val51Nat APLUS2_OVER_FOUR, val51Nat MONTGOMERY_A, val51Nat MONTGOMERY_A_NEG]

/-- the names the table must line up with (compared with the generated `constNames` by `decide` in Props) -/
def algConstNames : List String :=
  ["FieldElement::ZERO", "FieldElement::ONE", "FieldElement::MINUS_ONE", "constants::MINUS_ONE", "constants::EDWARDS_D",
   "constants::EDWARDS_D2", "constants::ONE_MINUS_EDWARDS_D_SQUARED", "constants::EDWARDS_D_MINUS_ONE_SQUARED",
   "constants::SQRT_AD_MINUS_ONE", "constants::INVSQRT_A_MINUS_D", "constants::SQRT_M1", "constants::APLUS2_OVER_FOUR",
   "constants::MONTGOMERY_A", "constants::MONTGOMERY_A_NEG"]

def b2n (b : Bool) : Nat := if b then 1 else 0

def iterSq : Nat → Nat → Nat
  | 0, x => x
  | k + 1, x => iterSq k (fsq x)

/-- canonical naturals `< p`; choices are 0/1 -/
def natOps : FOps Nat where
  add := fadd
  sub := fsub
  mul := fmul
  neg := fneg
  square := fsq
  square2 := fun a => fmul 2 (fsq a)
  pow2k := fun a k => iterSq k (a % P)
  const := fun i => algConstTable.getD i 0
  ctEq := fun a b => b2n (a % P == b % P)
  isNeg := fun a => b2n (isNeg a)
  isZero := fun a => b2n (a % P == 0)
  cand := fun a b => b2n (a != 0 && b != 0)
  cor := fun a b => b2n (a != 0 || b != 0)
  cxor := fun a b => b2n ((a != 0) != (b != 0))
  cnot := fun a => b2n (a == 0)
  csel := fun c a b => if c = 0 then a else b
  dflt := 0

end Dalek.Model

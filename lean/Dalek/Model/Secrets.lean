/-!
# C14 — hand-written SPECIFICATION of what is secret and what erasure must achieve

This file contains no facts about the Rust sources.  It states, by hand,

* which types hold secret key material and which of their fields are the secret bytes (`secretSpec`),
* what value every type that implements `Zeroize` must hold after an explicit `zeroize()` (`resetSpec`),
  as an abstract per-field state (`AbsVal`), together with the declared type of every such field
  (`fieldTypeSpec`) so that "zeroized" has a definite meaning,
* which heap buffers of the constant-time multiscalar multiplication and of batch scalar inversion hold
  data derived from secret scalars and must therefore be wiped before they are freed (`wipeObligations`),
* a hand classification of **every** heap allocation of the non-test code of the three crates (`heapSpec`:
  secret-and-wiped, or not secret-derived with the reason) and the list of functions on the constant-time call
  paths (`ctPathFns`).

The facts regenerated from the sources live in `Dalek.Gen.Inventory`; the theorems that confront the two
are in `Dalek/Props/C14/Inventory.lean`.  (Mathlib-free.)
-/

namespace Dalek.Model.Secrets

/-! ## Secret-holding types -/

/-- A secret-holding type: name, defining file, and the fields that hold the secret bytes
(`"0"` = field 0 of a tuple struct). -/
structure SecretType where
  ty : String
  file : String
  secretFields : List String

/-- The six secret-holding types named by property C14.

* `SigningKey.secret_key` is the 32-byte seed (`verifying_key` is public).
* `ExpandedSecretKey.scalar` is the clamped secret scalar, `hash_prefix` the secret nonce prefix.
* the X25519 secrets wrap the 32 secret bytes; `SharedSecret` wraps the Diffie-Hellman output. -/
def secretSpec : List SecretType := [
  ⟨"SigningKey", "ed25519-dalek/src/signing.rs", ["secret_key"]⟩,
  ⟨"ExpandedSecretKey", "ed25519-dalek/src/hazmat.rs", ["scalar", "hash_prefix"]⟩,
  ⟨"EphemeralSecret", "x25519-dalek/src/x25519.rs", ["0"]⟩,
  ⟨"ReusableSecret", "x25519-dalek/src/x25519.rs", ["0"]⟩,
  ⟨"StaticSecret", "x25519-dalek/src/x25519.rs", ["0"]⟩,
  ⟨"SharedSecret", "x25519-dalek/src/x25519.rs", ["0"]⟩]

/-- the cfg gate under which all erasure code of the three crates is compiled (a default feature of each) -/
def zeroizeGate : String := "feature = \"zeroize\""

/-! ## Explicit `zeroize()` : expected resulting state -/

/-- Abstract value of one field after `zeroize()`.

* `zeroized`  — the field's own `Zeroize::zeroize` ran on it.  For a primitive array (`[u8; 32]`, `[u64; 5]`,
  `[u32; 10]`, …) this is the all-zero array; for a field of a type listed in `resetSpec` it is that type's
  reset state (recursively).
* `elemsZeroized` — every element of the array field was zeroized through `iter_mut()`.
* `one`       — the field was assigned the constant `FieldElement::ONE`.
* `leOne`     — a byte array that was zeroized and whose byte 0 was then set to 1: `01 00 … 00`,
  the little-endian encoding of the integer 1.
* `untouched` — no statement wrote the field (never acceptable for a field listed in `resetSpec`). -/
inductive AbsVal where
  | untouched | zeroized | elemsZeroized | one | leOne
  deriving DecidableEq, Repr

/-- What a type must look like after `zeroize()`: `(field path, abstract value)` for every field. -/
structure ResetType where
  ty : String
  /-- every copy of the type (one per backend) must satisfy the spec; `files` lists the files that must each
  contain an `impl Zeroize` for it -/
  files : List String
  fields : List (String × AbsVal)
  /-- what the state means mathematically (documentation) -/
  meaning : String

/-- Expected state after explicit zeroisation.

Why each state is "zero" resp. "the identity":

* `Scalar{bytes = 0^32}` is the scalar 0.
* `EdwardsPoint{X = 0, Y = 1, Z = 1, T = 0}` is the neutral element (0, 1) in extended coordinates, and it is a
  *valid* representation: Z ≠ 0, X·Y = 0 = Z·T, and −0² + 1² = 1 + d·0²·1² (`Dalek.Spec` identity).
* `RistrettoPoint(EdwardsPoint)` inherits the Edwards identity, the Ristretto neutral element.
* `CompressedEdwardsY(01 00 … 00)` is the encoding of y = 1 with sign bit 0, i.e. of the identity.
* `CompressedRistretto(0^32)` is the canonical Ristretto encoding of the neutral element (s = 0).
* `MontgomeryPoint(0^32)` is u = 0, the value the crate's `Identity for MontgomeryPoint` returns.
* `FieldElement51/2625`, `Scalar52/29`: all limbs 0, the value 0.
* `AffineNielsPoint`, `ProjectiveNielsPoint`: all coordinates 0.  This is *not* the Niels form of the identity
  (which is (1, 1, 0) resp. (1, 1, 1, 0)); the spec only demands that no data survives.
* lookup tables: every entry zeroized (each entry to its own reset state).
* X25519 wrappers: the wrapped array / Montgomery point is zeroized. -/
def resetSpec : List ResetType := [
  ⟨"Scalar", ["curve25519-dalek/src/scalar.rs"], [("bytes", .zeroized)], "scalar 0"⟩,
  ⟨"EdwardsPoint", ["curve25519-dalek/src/edwards.rs"],
    [("X", .zeroized), ("Y", .one), ("Z", .one), ("T", .zeroized)], "identity (0:1:1:0), a valid point"⟩,
  ⟨"RistrettoPoint", ["curve25519-dalek/src/ristretto.rs"], [("0", .zeroized)], "Ristretto identity"⟩,
  ⟨"CompressedEdwardsY", ["curve25519-dalek/src/edwards.rs"], [("0", .leOne)], "encoding of the identity"⟩,
  ⟨"CompressedRistretto", ["curve25519-dalek/src/ristretto.rs"], [("0", .zeroized)],
    "encoding of the Ristretto identity"⟩,
  ⟨"MontgomeryPoint", ["curve25519-dalek/src/montgomery.rs"], [("0", .zeroized)], "u = 0"⟩,
  ⟨"SubgroupPoint", ["curve25519-dalek/src/edwards.rs"], [("0", .zeroized)], "identity"⟩,
  ⟨"FieldElement51", ["curve25519-dalek/src/backend/serial/u64/field.rs"], [("0", .zeroized)], "0"⟩,
  ⟨"FieldElement2625", ["curve25519-dalek/src/backend/serial/u32/field.rs"], [("0", .zeroized)], "0"⟩,
  ⟨"Scalar52", ["curve25519-dalek/src/backend/serial/u64/scalar.rs"], [("0", .zeroized)], "0"⟩,
  ⟨"Scalar29", ["curve25519-dalek/src/backend/serial/u32/scalar.rs"], [("0", .zeroized)], "0"⟩,
  ⟨"AffineNielsPoint", ["curve25519-dalek/src/backend/serial/curve_models/mod.rs"],
    [("y_plus_x", .zeroized), ("y_minus_x", .zeroized), ("xy2d", .zeroized)], "all coordinates 0"⟩,
  ⟨"ProjectiveNielsPoint", ["curve25519-dalek/src/backend/serial/curve_models/mod.rs"],
    [("Y_plus_X", .zeroized), ("Y_minus_X", .zeroized), ("Z", .zeroized), ("T2d", .zeroized)],
    "all coordinates 0"⟩,
  ⟨"LookupTable", ["curve25519-dalek/src/window.rs"], [("0", .elemsZeroized)], "every entry reset"⟩,
  ⟨"LookupTableRadix32", ["curve25519-dalek/src/window.rs"], [("0", .elemsZeroized)], "every entry reset"⟩,
  ⟨"LookupTableRadix64", ["curve25519-dalek/src/window.rs"], [("0", .elemsZeroized)], "every entry reset"⟩,
  ⟨"LookupTableRadix128", ["curve25519-dalek/src/window.rs"], [("0", .elemsZeroized)], "every entry reset"⟩,
  ⟨"LookupTableRadix256", ["curve25519-dalek/src/window.rs"], [("0", .elemsZeroized)], "every entry reset"⟩,
  ⟨"EphemeralSecret", ["x25519-dalek/src/x25519.rs"], [("0", .zeroized)], "32 zero bytes"⟩,
  ⟨"ReusableSecret", ["x25519-dalek/src/x25519.rs"], [("0", .zeroized)], "32 zero bytes"⟩,
  ⟨"StaticSecret", ["x25519-dalek/src/x25519.rs"], [("0", .zeroized)], "32 zero bytes"⟩,
  ⟨"SharedSecret", ["x25519-dalek/src/x25519.rs"], [("0", .zeroized)], "u = 0"⟩,
  ⟨"PublicKey", ["x25519-dalek/src/x25519.rs"], [("0", .zeroized)], "u = 0"⟩]

/-- The fiat backends wrap the limb array twice (`FieldElement51(fiat_25519_tight_field_element([u64; 5]))`):
the path of the limb array is `0.0`. -/
def resetSpecFiat : List ResetType := [
  ⟨"FieldElement51", ["curve25519-dalek/src/backend/serial/fiat_u64/field.rs"], [("0.0", .zeroized)], "0"⟩,
  ⟨"FieldElement2625", ["curve25519-dalek/src/backend/serial/fiat_u32/field.rs"], [("0.0", .zeroized)], "0"⟩]

/-- Declared type of the fields whose `zeroized` state the spec relies on, `(type, file, field, field type)`.
A field type is either a primitive array (zeroized = all zero) or the name of a type (or crate-level alias of a
type) that is itself in `resetSpec`: `FieldElement` is the cfg-selected alias of `FieldElement51` /
`FieldElement2625`; `SecretKey` is the alias of `[u8; SECRET_KEY_LENGTH]`. -/
def fieldTypeSpec : List (String × String × String × String) := [
  ("Scalar", "curve25519-dalek/src/scalar.rs", "bytes", "[u8; 32]"),
  ("EdwardsPoint", "curve25519-dalek/src/edwards.rs", "X", "FieldElement"),
  ("EdwardsPoint", "curve25519-dalek/src/edwards.rs", "Y", "FieldElement"),
  ("EdwardsPoint", "curve25519-dalek/src/edwards.rs", "Z", "FieldElement"),
  ("EdwardsPoint", "curve25519-dalek/src/edwards.rs", "T", "FieldElement"),
  ("RistrettoPoint", "curve25519-dalek/src/ristretto.rs", "0", "EdwardsPoint"),
  ("CompressedEdwardsY", "curve25519-dalek/src/edwards.rs", "0", "[u8; 32]"),
  ("CompressedRistretto", "curve25519-dalek/src/ristretto.rs", "0", "[u8; 32]"),
  ("MontgomeryPoint", "curve25519-dalek/src/montgomery.rs", "0", "[u8; 32]"),
  ("FieldElement51", "curve25519-dalek/src/backend/serial/u64/field.rs", "0", "[u64; 5]"),
  ("FieldElement2625", "curve25519-dalek/src/backend/serial/u32/field.rs", "0", "[u32; 10]"),
  ("Scalar52", "curve25519-dalek/src/backend/serial/u64/scalar.rs", "0", "[u64; 5]"),
  ("Scalar29", "curve25519-dalek/src/backend/serial/u32/scalar.rs", "0", "[u32; 9]"),
  ("SigningKey", "ed25519-dalek/src/signing.rs", "secret_key", "SecretKey"),
  ("ExpandedSecretKey", "ed25519-dalek/src/hazmat.rs", "scalar", "Scalar"),
  ("ExpandedSecretKey", "ed25519-dalek/src/hazmat.rs", "hash_prefix", "[u8; 32]"),
  ("EphemeralSecret", "x25519-dalek/src/x25519.rs", "0", "[u8; 32]"),
  ("ReusableSecret", "x25519-dalek/src/x25519.rs", "0", "[u8; 32]"),
  ("StaticSecret", "x25519-dalek/src/x25519.rs", "0", "[u8; 32]"),
  ("SharedSecret", "x25519-dalek/src/x25519.rs", "0", "MontgomeryPoint")]

/-! ## Heap buffers -/

/-- A heap buffer that holds data derived from secret scalars and must be wiped before it is freed. -/
structure WipeObligation where
  file : String
  func : String
  vec : String
  why : String

/-- The constant-time functions of property C14 and their secret-derived `Vec`s.

* Straus `multiscalar_mul` (serial and vector copy): `scalar_digits` / `scalar_digits_vec` holds the radix-16
  digits (64 × i8 per scalar) of every (secret) input scalar.
* `Scalar::batch_invert`: `scratch` holds the running products of the (secret) inputs in Montgomery form. -/
def wipeObligations : List WipeObligation := [
  ⟨"curve25519-dalek/src/backend/serial/scalar_mul/straus.rs", "<Straus as MultiscalarMul>::multiscalar_mul",
    "scalar_digits", "radix-16 digits of the secret scalars"⟩,
  ⟨"curve25519-dalek/src/backend/vector/scalar_mul/straus.rs", "spec::<Straus as MultiscalarMul>::multiscalar_mul",
    "scalar_digits_vec", "radix-16 digits of the secret scalars"⟩,
  ⟨"curve25519-dalek/src/scalar.rs", "Scalar::batch_invert", "scratch",
    "prefix products of the secret scalars (Montgomery form)"⟩]

/-- Classification of a heap allocation. -/
inductive HeapClass where
  /-- holds data derived from secret scalars; MUST be wiped before it is freed -/
  | secretWiped
  /-- multiples of the input points of a constant-time multiscalar multiplication (points are public inputs) -/
  | publicPoints
  /-- allocation inside an API that is variable-time by contract (all its inputs are public) -/
  | vartimePublic
  /-- coordinates / field elements of points in an API that takes no scalars; not wiped (see the reason) -/
  | pointData
  /-- the value returned to the caller -/
  | publicOutput
  /-- signature-verification data (public signatures, keys, messages and values derived from them) -/
  | publicTranscript
  deriving DecidableEq, Repr

/-- One heap-allocating local (or un-named allocation expression `<expr> …`) of one function. -/
structure HeapLocal where
  file : String
  func : String
  name : String
  cls : HeapClass
  why : String

/-- **Every** heap-allocating local of **every** non-test function of the three crates, classified by hand.
The inventory (`Dalek.Gen.Inventory.wipeFacts`) is regenerated from the sources; `ct_vecs_accounted` states that
this list and the inventory agree exactly, so any new `Vec` / `vec![]` / `.collect()` / `.to_vec()` / `Box` /
`String` … anywhere in the non-test code (in particular in the constant-time operations `ctPathFns`) must be
classified here before the property builds again. -/
def heapSpec : List HeapLocal := [
  ⟨"curve25519-dalek/src/backend/serial/scalar_mul/pippenger.rs", "<Pippenger as VartimeMultiscalarMul>::optional_multiscalar_mul",
    "scalars_points", .vartimePublic,
    "variable-time API (scalars are public by contract): radix-2^w digits paired with the points"⟩,
  ⟨"curve25519-dalek/src/backend/serial/scalar_mul/pippenger.rs", "<Pippenger as VartimeMultiscalarMul>::optional_multiscalar_mul",
    "buckets", .vartimePublic,
    "variable-time API: bucket accumulators"⟩,
  ⟨"curve25519-dalek/src/backend/serial/scalar_mul/precomputed_straus.rs", "<VartimePrecomputedStraus as VartimePrecomputedMultiscalarMul>::new",
    "<expr> static_lookup_tables : static_points.into_iter().map(| P | NafLookupTable8::< AffineNielsPoint >::from(P.borrow())).c...", .vartimePublic,
    "variable-time precomputation: odd multiples of the (public) static points, owned by the returned struct"⟩,
  ⟨"curve25519-dalek/src/backend/serial/scalar_mul/precomputed_straus.rs", "<VartimePrecomputedStraus as VartimePrecomputedMultiscalarMul>::optional_mixed_multiscalar_mul",
    "static_nafs", .vartimePublic,
    "variable-time API: NAFs of public scalars"⟩,
  ⟨"curve25519-dalek/src/backend/serial/scalar_mul/precomputed_straus.rs", "<VartimePrecomputedStraus as VartimePrecomputedMultiscalarMul>::optional_mixed_multiscalar_mul",
    "dynamic_nafs", .vartimePublic,
    "variable-time API: NAFs of public scalars"⟩,
  ⟨"curve25519-dalek/src/backend/serial/scalar_mul/precomputed_straus.rs", "<VartimePrecomputedStraus as VartimePrecomputedMultiscalarMul>::optional_mixed_multiscalar_mul",
    "dynamic_lookup_tables", .vartimePublic,
    "variable-time API: odd multiples of the public dynamic points"⟩,
  ⟨"curve25519-dalek/src/backend/serial/scalar_mul/straus.rs", "<Straus as MultiscalarMul>::multiscalar_mul",
    "lookup_tables", .publicPoints,
    "multiples P, 2P, ..., 8P of the input points; in the constant-time multiscalar multiplication only the scalars are secret (the table is read with a constant-time select)"⟩,
  ⟨"curve25519-dalek/src/backend/serial/scalar_mul/straus.rs", "<Straus as MultiscalarMul>::multiscalar_mul",
    "scalar_digits", .secretWiped,
    "radix-16 digits of the secret scalars"⟩,
  ⟨"curve25519-dalek/src/backend/serial/scalar_mul/straus.rs", "<Straus as VartimeMultiscalarMul>::optional_multiscalar_mul",
    "nafs", .vartimePublic,
    "variable-time API: NAFs of public scalars"⟩,
  ⟨"curve25519-dalek/src/backend/serial/scalar_mul/straus.rs", "<Straus as VartimeMultiscalarMul>::optional_multiscalar_mul",
    "lookup_tables", .vartimePublic,
    "variable-time API: odd multiples of the public points"⟩,
  ⟨"curve25519-dalek/src/backend/vector/scalar_mul/pippenger.rs", "spec::<Pippenger as VartimeMultiscalarMul>::optional_multiscalar_mul",
    "scalars_points", .vartimePublic,
    "variable-time API (scalars are public by contract): radix-2^w digits paired with the points"⟩,
  ⟨"curve25519-dalek/src/backend/vector/scalar_mul/pippenger.rs", "spec::<Pippenger as VartimeMultiscalarMul>::optional_multiscalar_mul",
    "buckets", .vartimePublic,
    "variable-time API: bucket accumulators"⟩,
  ⟨"curve25519-dalek/src/backend/vector/scalar_mul/precomputed_straus.rs", "spec::<VartimePrecomputedStraus as VartimePrecomputedMultiscalarMul>::new",
    "<expr> static_lookup_tables : static_points.into_iter().map(| P | NafLookupTable8::< CachedPoint >::from(P.borrow())).collect()", .vartimePublic,
    "variable-time precomputation: odd multiples of the (public) static points, owned by the returned struct"⟩,
  ⟨"curve25519-dalek/src/backend/vector/scalar_mul/precomputed_straus.rs", "spec::<VartimePrecomputedStraus as VartimePrecomputedMultiscalarMul>::optional_mixed_multiscalar_mul",
    "static_nafs", .vartimePublic,
    "variable-time API: NAFs of public scalars"⟩,
  ⟨"curve25519-dalek/src/backend/vector/scalar_mul/precomputed_straus.rs", "spec::<VartimePrecomputedStraus as VartimePrecomputedMultiscalarMul>::optional_mixed_multiscalar_mul",
    "dynamic_nafs", .vartimePublic,
    "variable-time API: NAFs of public scalars"⟩,
  ⟨"curve25519-dalek/src/backend/vector/scalar_mul/precomputed_straus.rs", "spec::<VartimePrecomputedStraus as VartimePrecomputedMultiscalarMul>::optional_mixed_multiscalar_mul",
    "dynamic_lookup_tables", .vartimePublic,
    "variable-time API: odd multiples of the public dynamic points"⟩,
  ⟨"curve25519-dalek/src/backend/vector/scalar_mul/straus.rs", "spec::<Straus as MultiscalarMul>::multiscalar_mul",
    "lookup_tables", .publicPoints,
    "multiples P, 2P, ..., 8P of the input points; in the constant-time multiscalar multiplication only the scalars are secret (the table is read with a constant-time select)"⟩,
  ⟨"curve25519-dalek/src/backend/vector/scalar_mul/straus.rs", "spec::<Straus as MultiscalarMul>::multiscalar_mul",
    "scalar_digits_vec", .secretWiped,
    "radix-16 digits of the secret scalars"⟩,
  ⟨"curve25519-dalek/src/backend/vector/scalar_mul/straus.rs", "spec::<Straus as VartimeMultiscalarMul>::optional_multiscalar_mul",
    "nafs", .vartimePublic,
    "variable-time API: NAFs of public scalars"⟩,
  ⟨"curve25519-dalek/src/backend/vector/scalar_mul/straus.rs", "spec::<Straus as VartimeMultiscalarMul>::optional_multiscalar_mul",
    "lookup_tables", .vartimePublic,
    "variable-time API: odd multiples of the public points"⟩,
  ⟨"curve25519-dalek/src/field.rs", "FieldElement::batch_invert",
    "scratch", .pointData,
    "prefix products of field elements; its only caller is RistrettoPoint::double_and_compress_batch (point coordinates); not wiped; outside the statement of C14 (batch *scalar* inversion)"⟩,
  ⟨"curve25519-dalek/src/ristretto.rs", "RistrettoPoint::double_and_compress_batch",
    "states", .pointData,
    "per-point intermediate field elements (e, f, g, h, eg, fh) computed from the coordinates of the input points; no scalar is involved; NOT wiped: if a caller regards its points as secret their coordinates survive in freed heap memory"⟩,
  ⟨"curve25519-dalek/src/ristretto.rs", "RistrettoPoint::double_and_compress_batch",
    "invs", .pointData,
    "the products eg * fh of the same point coordinates and, after batch_invert, their inverses; no scalar is involved; NOT wiped"⟩,
  ⟨"curve25519-dalek/src/ristretto.rs", "RistrettoPoint::double_and_compress_batch",
    "<expr> states.iter().zip(invs.iter()).map(| (state, inv) : (&BatchCompressState, &FieldElement) | { let Zinv = &state.eg * i...", .publicOutput,
    "the returned Vec<CompressedRistretto>: the function result, owned by the caller"⟩,
  ⟨"curve25519-dalek/src/scalar.rs", "Scalar::batch_invert",
    "scratch", .secretWiped,
    "prefix products of the secret scalars (Montgomery form)"⟩,
  ⟨"ed25519-dalek/src/batch.rs", "verify_batch",
    "hrams", .publicTranscript,
    "verification only: SHA-512(R || A || M) of public signatures, keys and messages, then the same values as scalars"⟩,
  ⟨"ed25519-dalek/src/batch.rs", "verify_batch",
    "signatures", .publicTranscript,
    "verification only: the parsed (public) signatures"⟩,
  ⟨"ed25519-dalek/src/batch.rs", "verify_batch",
    "zs", .publicTranscript,
    "verification only: 128-bit batch coefficients derived deterministically from the public transcript"⟩]

/-- The functions on the call path of the operations that properties C10 / C14 name as constant-time
(`(file, qualified fn name)`; fns generated by `macro_rules!` appear as `macro_rules!name::fn`).  The theorem
`ct_path_scanned` states that each of them was seen by the inventory; together with `ct_vecs_accounted` this
means: apart from the allocations listed in `heapSpec`, none of them contains a heap-allocation marker. -/
def ctPathFns : List (String × String) := [
  ("curve25519-dalek/src/edwards.rs", "<EdwardsPoint as MultiscalarMul>::multiscalar_mul"),
  ("curve25519-dalek/src/edwards.rs", "<&EdwardsPoint as Mul<Scalar>>::mul"),
  ("curve25519-dalek/src/edwards.rs", "<&Scalar as Mul<EdwardsPoint>>::mul"),
  ("curve25519-dalek/src/edwards.rs", "EdwardsPoint::mul_base"),
  ("curve25519-dalek/src/edwards.rs", "EdwardsPoint::mul_clamped"),
  ("curve25519-dalek/src/edwards.rs", "EdwardsPoint::mul_base_clamped"),
  ("curve25519-dalek/src/edwards.rs", "EdwardsPoint::compress"),
  ("curve25519-dalek/src/edwards.rs", "macro_rules!impl_basepoint_table::create"),
  ("curve25519-dalek/src/edwards.rs", "macro_rules!impl_basepoint_table::mul_base"),
  ("curve25519-dalek/src/edwards.rs", "macro_rules!impl_basepoint_table::mul"),
  ("curve25519-dalek/src/edwards.rs", "EdwardsPoint::mul_by_pow_2"),
  ("curve25519-dalek/src/edwards.rs", "EdwardsPoint::mul_by_cofactor"),
  ("curve25519-dalek/src/edwards.rs", "EdwardsPoint::to_montgomery"),
  ("curve25519-dalek/src/ristretto.rs", "<RistrettoPoint as MultiscalarMul>::multiscalar_mul"),
  ("curve25519-dalek/src/ristretto.rs", "<&RistrettoPoint as Mul<Scalar>>::mul"),
  ("curve25519-dalek/src/ristretto.rs", "<&Scalar as Mul<RistrettoPoint>>::mul"),
  ("curve25519-dalek/src/ristretto.rs", "RistrettoPoint::mul_base"),
  ("curve25519-dalek/src/ristretto.rs", "<&RistrettoBasepointTable as Mul<Scalar>>::mul"),
  ("curve25519-dalek/src/ristretto.rs", "RistrettoPoint::compress"),
  ("curve25519-dalek/src/ristretto.rs", "RistrettoPoint::from_uniform_bytes"),
  ("curve25519-dalek/src/ristretto.rs", "RistrettoPoint::elligator_ristretto_flavor"),
  ("curve25519-dalek/src/ristretto.rs", "RistrettoPoint::double_and_compress_batch"),
  ("curve25519-dalek/src/backend/mod.rs", "straus_multiscalar_mul"),
  ("curve25519-dalek/src/backend/mod.rs", "variable_base_mul"),
  ("curve25519-dalek/src/backend/serial/scalar_mul/variable_base.rs", "mul"),
  ("curve25519-dalek/src/backend/serial/scalar_mul/straus.rs", "<Straus as MultiscalarMul>::multiscalar_mul"),
  ("curve25519-dalek/src/backend/vector/scalar_mul/variable_base.rs", "spec::mul"),
  ("curve25519-dalek/src/backend/vector/scalar_mul/straus.rs", "spec::<Straus as MultiscalarMul>::multiscalar_mul"),
  ("curve25519-dalek/src/montgomery.rs", "MontgomeryPoint::mul_bits_be"),
  ("curve25519-dalek/src/montgomery.rs", "<&MontgomeryPoint as Mul<Scalar>>::mul"),
  ("curve25519-dalek/src/montgomery.rs", "<&Scalar as Mul<MontgomeryPoint>>::mul"),
  ("curve25519-dalek/src/montgomery.rs", "MontgomeryPoint::mul_clamped"),
  ("curve25519-dalek/src/montgomery.rs", "MontgomeryPoint::mul_base"),
  ("curve25519-dalek/src/montgomery.rs", "MontgomeryPoint::mul_base_clamped"),
  ("curve25519-dalek/src/scalar.rs", "Scalar::batch_invert"),
  ("curve25519-dalek/src/scalar.rs", "Scalar::invert"),
  ("curve25519-dalek/src/scalar.rs", "UnpackedScalar::montgomery_invert"),
  ("curve25519-dalek/src/scalar.rs", "UnpackedScalar::invert"),
  ("curve25519-dalek/src/scalar.rs", "<&Scalar as Mul<Scalar>>::mul"),
  ("curve25519-dalek/src/scalar.rs", "<&Scalar as Add<Scalar>>::add"),
  ("curve25519-dalek/src/scalar.rs", "<&Scalar as Sub<Scalar>>::sub"),
  ("curve25519-dalek/src/scalar.rs", "<&Scalar as Neg>::neg"),
  ("curve25519-dalek/src/scalar.rs", "Scalar::as_radix_16"),
  ("curve25519-dalek/src/scalar.rs", "Scalar::as_radix_2w"),
  ("curve25519-dalek/src/scalar.rs", "Scalar::from_bytes_mod_order"),
  ("curve25519-dalek/src/scalar.rs", "Scalar::from_bytes_mod_order_wide"),
  ("curve25519-dalek/src/scalar.rs", "clamp_integer"),
  ("curve25519-dalek/src/window.rs", "macro_rules!impl_lookup_table::select"),
  ("curve25519-dalek/src/window.rs", "macro_rules!impl_lookup_table::from"),
  ("ed25519-dalek/src/signing.rs", "SigningKey::from_bytes"),
  ("ed25519-dalek/src/signing.rs", "<ExpandedSecretKey as From<SecretKey>>::from"),
  ("ed25519-dalek/src/signing.rs", "ExpandedSecretKey::raw_sign"),
  ("ed25519-dalek/src/signing.rs", "ExpandedSecretKey::raw_sign_prehashed"),
  ("ed25519-dalek/src/signing.rs", "SigningKey::to_scalar_bytes"),
  ("ed25519-dalek/src/signing.rs", "SigningKey::to_scalar"),
  ("ed25519-dalek/src/hazmat.rs", "ExpandedSecretKey::from_bytes"),
  ("ed25519-dalek/src/hazmat.rs", "ExpandedSecretKey::from_slice"),
  ("ed25519-dalek/src/hazmat.rs", "raw_sign"),
  ("ed25519-dalek/src/hazmat.rs", "raw_sign_prehashed"),
  ("x25519-dalek/src/x25519.rs", "EphemeralSecret::diffie_hellman"),
  ("x25519-dalek/src/x25519.rs", "ReusableSecret::diffie_hellman"),
  ("x25519-dalek/src/x25519.rs", "StaticSecret::diffie_hellman"),
  ("x25519-dalek/src/x25519.rs", "x25519"),
  ("x25519-dalek/src/x25519.rs", "<PublicKey as From<EphemeralSecret>>::from"),
  ("x25519-dalek/src/x25519.rs", "<PublicKey as From<ReusableSecret>>::from"),
  ("x25519-dalek/src/x25519.rs", "<PublicKey as From<StaticSecret>>::from")]

end Dalek.Model.Secrets

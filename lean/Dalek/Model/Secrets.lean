/-!
# C14 — hand-written SPECIFICATION of what is secret and what erasure must achieve

This file contains no facts about the Rust sources.  It states, by hand,

* which types hold secret key material and which of their fields are the secret bytes (`secretSpec`),
* what value every type that implements `Zeroize` must hold after an explicit `zeroize()` (`resetSpec`),
  as an abstract per-field state (`AbsVal`), together with the declared type of every such field
  (`fieldTypeSpec`) so that "zeroized" has a definite meaning,
* which heap buffers of the constant-time multiscalar multiplication and of batch scalar inversion hold
  data derived from secret scalars and must therefore be wiped before they are freed (`wipeObligations`),
  and which heap buffers of those functions are public and why (`publicVecs`).

The facts regenerated from the sources live in `Dalek.Gen.Inventory`; the theorems that confront the two
are in `Dalek/Props/C14/Inventory.lean`.  (Mathlib-free.)
-/

namespace Dalek.Model.Secrets

/-! ## Secret-holding types -/

/-- A secret-holding type: name, defining file, and the fields that hold the secret bytes
(`"0"` = field 0 of a tuple struct). -/
structure SecretType where
  ty : String
  file : String
  secretFields : List String

/-- The six secret-holding types named by property C14.

* `SigningKey.secret_key` is the 32-byte seed (`verifying_key` is public).
* `ExpandedSecretKey.scalar` is the clamped secret scalar, `hash_prefix` the secret nonce prefix.
* the X25519 secrets wrap the 32 secret bytes; `SharedSecret` wraps the Diffie-Hellman output. -/
def secretSpec : List SecretType := [
  ⟨"SigningKey", "ed25519-dalek/src/signing.rs", ["secret_key"]⟩,
  ⟨"ExpandedSecretKey", "ed25519-dalek/src/hazmat.rs", ["scalar", "hash_prefix"]⟩,
  ⟨"EphemeralSecret", "x25519-dalek/src/x25519.rs", ["0"]⟩,
  ⟨"ReusableSecret", "x25519-dalek/src/x25519.rs", ["0"]⟩,
  ⟨"StaticSecret", "x25519-dalek/src/x25519.rs", ["0"]⟩,
  ⟨"SharedSecret", "x25519-dalek/src/x25519.rs", ["0"]⟩]

/-- the cfg gate under which all erasure code of the three crates is compiled (a default feature of each) -/
def zeroizeGate : String := "feature = \"zeroize\""

/-! ## Explicit `zeroize()` : expected resulting state -/

/-- Abstract value of one field after `zeroize()`.

* `zeroized`  — the field's own `Zeroize::zeroize` ran on it.  For a primitive array (`[u8; 32]`, `[u64; 5]`,
  `[u32; 10]`, …) this is the all-zero array; for a field of a type listed in `resetSpec` it is that type's
  reset state (recursively).
* `elemsZeroized` — every element of the array field was zeroized through `iter_mut()`.
* `one`       — the field was assigned the constant `FieldElement::ONE`.
* `leOne`     — a byte array that was zeroized and whose byte 0 was then set to 1: `01 00 … 00`,
  the little-endian encoding of the integer 1.
* `untouched` — no statement wrote the field (never acceptable for a field listed in `resetSpec`). -/
inductive AbsVal where
  | untouched | zeroized | elemsZeroized | one | leOne
  deriving DecidableEq, Repr

/-- What a type must look like after `zeroize()`: `(field path, abstract value)` for every field. -/
structure ResetType where
  ty : String
  /-- every copy of the type (one per backend) must satisfy the spec; `files` lists the files that must each
  contain an `impl Zeroize` for it -/
  files : List String
  fields : List (String × AbsVal)
  /-- what the state means mathematically (documentation) -/
  meaning : String

/-- Expected state after explicit zeroisation.

Why each state is "zero" resp. "the identity":

* `Scalar{bytes = 0^32}` is the scalar 0.
* `EdwardsPoint{X = 0, Y = 1, Z = 1, T = 0}` is the neutral element (0, 1) in extended coordinates, and it is a
  *valid* representation: Z ≠ 0, X·Y = 0 = Z·T, and −0² + 1² = 1 + d·0²·1² (`Dalek.Spec` identity).
* `RistrettoPoint(EdwardsPoint)` inherits the Edwards identity, the Ristretto neutral element.
* `CompressedEdwardsY(01 00 … 00)` is the encoding of y = 1 with sign bit 0, i.e. of the identity.
* `CompressedRistretto(0^32)` is the canonical Ristretto encoding of the neutral element (s = 0).
* `MontgomeryPoint(0^32)` is u = 0, the value the crate's `Identity for MontgomeryPoint` returns.
* `FieldElement51/2625`, `Scalar52/29`: all limbs 0, the value 0.
* `AffineNielsPoint`, `ProjectiveNielsPoint`: all coordinates 0.  This is *not* the Niels form of the identity
  (which is (1, 1, 0) resp. (1, 1, 1, 0)); the spec only demands that no data survives.
* lookup tables: every entry zeroized (each entry to its own reset state).
* X25519 wrappers: the wrapped array / Montgomery point is zeroized. -/
def resetSpec : List ResetType := [
  ⟨"Scalar", ["curve25519-dalek/src/scalar.rs"], [("bytes", .zeroized)], "scalar 0"⟩,
  ⟨"EdwardsPoint", ["curve25519-dalek/src/edwards.rs"],
    [("X", .zeroized), ("Y", .one), ("Z", .one), ("T", .zeroized)], "identity (0:1:1:0), a valid point"⟩,
  ⟨"RistrettoPoint", ["curve25519-dalek/src/ristretto.rs"], [("0", .zeroized)], "Ristretto identity"⟩,
  ⟨"CompressedEdwardsY", ["curve25519-dalek/src/edwards.rs"], [("0", .leOne)], "encoding of the identity"⟩,
  ⟨"CompressedRistretto", ["curve25519-dalek/src/ristretto.rs"], [("0", .zeroized)],
    "encoding of the Ristretto identity"⟩,
  ⟨"MontgomeryPoint", ["curve25519-dalek/src/montgomery.rs"], [("0", .zeroized)], "u = 0"⟩,
  ⟨"SubgroupPoint", ["curve25519-dalek/src/edwards.rs"], [("0", .zeroized)], "identity"⟩,
  ⟨"FieldElement51", ["curve25519-dalek/src/backend/serial/u64/field.rs"], [("0", .zeroized)], "0"⟩,
  ⟨"FieldElement2625", ["curve25519-dalek/src/backend/serial/u32/field.rs"], [("0", .zeroized)], "0"⟩,
  ⟨"Scalar52", ["curve25519-dalek/src/backend/serial/u64/scalar.rs"], [("0", .zeroized)], "0"⟩,
  ⟨"Scalar29", ["curve25519-dalek/src/backend/serial/u32/scalar.rs"], [("0", .zeroized)], "0"⟩,
  ⟨"AffineNielsPoint", ["curve25519-dalek/src/backend/serial/curve_models/mod.rs"],
    [("y_plus_x", .zeroized), ("y_minus_x", .zeroized), ("xy2d", .zeroized)], "all coordinates 0"⟩,
  ⟨"ProjectiveNielsPoint", ["curve25519-dalek/src/backend/serial/curve_models/mod.rs"],
    [("Y_plus_X", .zeroized), ("Y_minus_X", .zeroized), ("Z", .zeroized), ("T2d", .zeroized)],
    "all coordinates 0"⟩,
  ⟨"LookupTable", ["curve25519-dalek/src/window.rs"], [("0", .elemsZeroized)], "every entry reset"⟩,
  ⟨"LookupTableRadix32", ["curve25519-dalek/src/window.rs"], [("0", .elemsZeroized)], "every entry reset"⟩,
  ⟨"LookupTableRadix64", ["curve25519-dalek/src/window.rs"], [("0", .elemsZeroized)], "every entry reset"⟩,
  ⟨"LookupTableRadix128", ["curve25519-dalek/src/window.rs"], [("0", .elemsZeroized)], "every entry reset"⟩,
  ⟨"LookupTableRadix256", ["curve25519-dalek/src/window.rs"], [("0", .elemsZeroized)], "every entry reset"⟩,
  ⟨"EphemeralSecret", ["x25519-dalek/src/x25519.rs"], [("0", .zeroized)], "32 zero bytes"⟩,
  ⟨"ReusableSecret", ["x25519-dalek/src/x25519.rs"], [("0", .zeroized)], "32 zero bytes"⟩,
  ⟨"StaticSecret", ["x25519-dalek/src/x25519.rs"], [("0", .zeroized)], "32 zero bytes"⟩,
  ⟨"SharedSecret", ["x25519-dalek/src/x25519.rs"], [("0", .zeroized)], "u = 0"⟩,
  ⟨"PublicKey", ["x25519-dalek/src/x25519.rs"], [("0", .zeroized)], "u = 0"⟩]

/-- The fiat backends wrap the limb array twice (`FieldElement51(fiat_25519_tight_field_element([u64; 5]))`):
the path of the limb array is `0.0`. -/
def resetSpecFiat : List ResetType := [
  ⟨"FieldElement51", ["curve25519-dalek/src/backend/serial/fiat_u64/field.rs"], [("0.0", .zeroized)], "0"⟩,
  ⟨"FieldElement2625", ["curve25519-dalek/src/backend/serial/fiat_u32/field.rs"], [("0.0", .zeroized)], "0"⟩]

/-- Declared type of the fields whose `zeroized` state the spec relies on, `(type, file, field, field type)`.
A field type is either a primitive array (zeroized = all zero) or the name of a type (or crate-level alias of a
type) that is itself in `resetSpec`: `FieldElement` is the cfg-selected alias of `FieldElement51` /
`FieldElement2625`; `SecretKey` is the alias of `[u8; SECRET_KEY_LENGTH]`. -/
def fieldTypeSpec : List (String × String × String × String) := [
  ("Scalar", "curve25519-dalek/src/scalar.rs", "bytes", "[u8; 32]"),
  ("EdwardsPoint", "curve25519-dalek/src/edwards.rs", "X", "FieldElement"),
  ("EdwardsPoint", "curve25519-dalek/src/edwards.rs", "Y", "FieldElement"),
  ("EdwardsPoint", "curve25519-dalek/src/edwards.rs", "Z", "FieldElement"),
  ("EdwardsPoint", "curve25519-dalek/src/edwards.rs", "T", "FieldElement"),
  ("RistrettoPoint", "curve25519-dalek/src/ristretto.rs", "0", "EdwardsPoint"),
  ("CompressedEdwardsY", "curve25519-dalek/src/edwards.rs", "0", "[u8; 32]"),
  ("CompressedRistretto", "curve25519-dalek/src/ristretto.rs", "0", "[u8; 32]"),
  ("MontgomeryPoint", "curve25519-dalek/src/montgomery.rs", "0", "[u8; 32]"),
  ("FieldElement51", "curve25519-dalek/src/backend/serial/u64/field.rs", "0", "[u64; 5]"),
  ("FieldElement2625", "curve25519-dalek/src/backend/serial/u32/field.rs", "0", "[u32; 10]"),
  ("Scalar52", "curve25519-dalek/src/backend/serial/u64/scalar.rs", "0", "[u64; 5]"),
  ("Scalar29", "curve25519-dalek/src/backend/serial/u32/scalar.rs", "0", "[u32; 9]"),
  ("SigningKey", "ed25519-dalek/src/signing.rs", "secret_key", "SecretKey"),
  ("ExpandedSecretKey", "ed25519-dalek/src/hazmat.rs", "scalar", "Scalar"),
  ("ExpandedSecretKey", "ed25519-dalek/src/hazmat.rs", "hash_prefix", "[u8; 32]"),
  ("EphemeralSecret", "x25519-dalek/src/x25519.rs", "0", "[u8; 32]"),
  ("ReusableSecret", "x25519-dalek/src/x25519.rs", "0", "[u8; 32]"),
  ("StaticSecret", "x25519-dalek/src/x25519.rs", "0", "[u8; 32]"),
  ("SharedSecret", "x25519-dalek/src/x25519.rs", "0", "MontgomeryPoint")]

/-! ## Heap buffers -/

/-- A heap buffer that holds data derived from secret scalars and must be wiped before it is freed. -/
structure WipeObligation where
  file : String
  func : String
  vec : String
  why : String

/-- The constant-time functions of property C14 and their secret-derived `Vec`s.

* Straus `multiscalar_mul` (serial and vector copy): `scalar_digits` / `scalar_digits_vec` holds the radix-16
  digits (64 × i8 per scalar) of every (secret) input scalar.
* `Scalar::batch_invert`: `scratch` holds the running products of the (secret) inputs in Montgomery form. -/
def wipeObligations : List WipeObligation := [
  ⟨"curve25519-dalek/src/backend/serial/scalar_mul/straus.rs", "<Straus as MultiscalarMul>::multiscalar_mul",
    "scalar_digits", "radix-16 digits of the secret scalars"⟩,
  ⟨"curve25519-dalek/src/backend/vector/scalar_mul/straus.rs", "spec::<Straus as MultiscalarMul>::multiscalar_mul",
    "scalar_digits_vec", "radix-16 digits of the secret scalars"⟩,
  ⟨"curve25519-dalek/src/scalar.rs", "Scalar::batch_invert", "scratch",
    "prefix products of the secret scalars (Montgomery form)"⟩]

/-- Heap buffers of the same functions that hold only public data: `(file, func, vec, reason)`.
`lookup_tables` are the multiples P, 2P, …, 8P of the input *points*; in the constant-time multiscalar
multiplication the points are public inputs (only the scalars are secret; the table is read with a
constant-time `select`). -/
def publicVecs : List (String × String × String × String) := [
  ("curve25519-dalek/src/backend/serial/scalar_mul/straus.rs", "<Straus as MultiscalarMul>::multiscalar_mul",
    "lookup_tables", "multiples of the public input points"),
  ("curve25519-dalek/src/backend/vector/scalar_mul/straus.rs", "spec::<Straus as MultiscalarMul>::multiscalar_mul",
    "lookup_tables", "multiples of the public input points")]

/-- Functions in the inventoried files that are *variable-time by contract* (their scalars are public) and the
field-element batch inversion (operates on point coordinates inside `double_and_compress_batch`, not on
scalars): no wiping obligation.  Listed so that the coverage theorem accounts for every inventoried function. -/
def noObligationFuncs : List (String × String × String) := [
  ("curve25519-dalek/src/backend/serial/scalar_mul/straus.rs",
    "<Straus as VartimeMultiscalarMul>::optional_multiscalar_mul", "variable-time API: scalars are public"),
  ("curve25519-dalek/src/backend/vector/scalar_mul/straus.rs",
    "spec::<Straus as VartimeMultiscalarMul>::optional_multiscalar_mul", "variable-time API: scalars are public"),
  ("curve25519-dalek/src/field.rs", "FieldElement::batch_invert",
    "field elements of (public) points; not part of property C14 (batch *scalar* inversion)")]

end Dalek.Model.Secrets

import Dalek.Gen.Scalar52
import Dalek.Gen.Consts
import Dalek.Model.FieldBytes
/-!
# Hand model of the `Scalar` API glue of `curve25519-dalek/src/scalar.rs` (serial u64 backend)

A `Scalar` is its 32 bytes (`List Nat`, little-endian), an `UnpackedScalar` (= `Scalar52`) its five limbs.

**Tie to the source.**  Every arithmetic step is the RELEASE semantics `Prog.evalW` of a kernel that is
TRANSLATED from `backend/serial/u64/scalar.rs` on every run (`Dalek.Gen.Scalar52.*`), and the constants
`R`, `ZERO`, `ONE` are the regenerated literals of `Dalek.Gen.Consts` — so a change of a kernel or of a constant
propagates into this model.  The COMPOSITION (which kernel is called on what, in which order: `reduce`, `Neg`,
the addition chain of `montgomery_invert`, the two passes of `batch_invert`, …) is transcribed BY HAND from
`scalar.rs` (4.1.3), with the same call structure, constants and order; the line numbers are given at each
definition.  The only literal not taken from `Dalek.Gen.Consts` is `Scalar52::ZERO = Scalar52([0,0,0,0,0])`
(u64/scalar.rs:62), which the translator does not export.

Mathlib-free, executable.  Theorems: `Dalek/Props/C02/Api.lean`.
-/

namespace Dalek.Model.ScalarApi
open Dalek.Gen Dalek.Gen.Consts
open Dalek.Model.FieldBytes (natToLeN)

abbrev Bytes := List Nat
abbrev Limbs := List Nat

/-! ## the kernels (release semantics of the translated code) -/

/-- `Scalar52::from_bytes` -/
def fromBytes52 (bytes : Bytes) : Limbs := Scalar52.from_bytes.evalW bytes
/-- `Scalar52::from_bytes_wide` -/
def fromBytesWide52 (bytes : Bytes) : Limbs := Scalar52.from_bytes_wide.evalW bytes
/-- `Scalar52::as_bytes` -/
def asBytes52 (s : Limbs) : Bytes := Scalar52.as_bytes.evalW s
/-- `Scalar52::add(a, b)` -/
def add52 (a b : Limbs) : Limbs := Scalar52.add.evalW (a ++ b)
/-- `Scalar52::sub(a, b)` -/
def sub52 (a b : Limbs) : Limbs := Scalar52.sub.evalW (a ++ b)
/-- `Scalar52::mul(a, b)` -/
def mul52 (a b : Limbs) : Limbs := Scalar52.mul.evalW (a ++ b)
/-- `Scalar52::mul_internal(a, b)` (nine `u128` words) -/
def mulInternal52 (a b : Limbs) : List Nat := Scalar52.mul_internal.evalW (a ++ b)
/-- `Scalar52::montgomery_reduce(limbs)` -/
def montgomeryReduce52 (z : List Nat) : Limbs := Scalar52.montgomery_reduce.evalW z
/-- `Scalar52::montgomery_mul(a, b)` -/
def montgomeryMul52 (a b : Limbs) : Limbs := Scalar52.montgomery_mul.evalW (a ++ b)
/-- `Scalar52::montgomery_square(a)` -/
def montgomerySquare52 (a : Limbs) : Limbs := Scalar52.montgomery_square.evalW a
/-- `Scalar52::as_montgomery(a)` -/
def asMontgomery52 (a : Limbs) : Limbs := Scalar52.as_montgomery.evalW a
/-- `Scalar52::from_montgomery(a)` -/
def fromMontgomery52 (a : Limbs) : Limbs := Scalar52.from_montgomery.evalW a

/-- `Scalar52::ZERO` (u64/scalar.rs:62) -/
def ZERO52 : Limbs := [0, 0, 0, 0, 0]

/-! ## `unpack` / `pack` -/

/-- `Scalar::unpack` (scalar.rs:1119): `UnpackedScalar::from_bytes(&self.bytes)` -/
def unpack (self : Bytes) : Limbs := fromBytes52 self

/-- `UnpackedScalar::pack` (scalar.rs:1141): `Scalar { bytes: self.as_bytes() }` -/
def pack (self : Limbs) : Bytes := asBytes52 self

/-! ## reduction and constructors -/

/-- `Scalar::reduce` (scalar.rs:1125) -/
def reduce52 (self : Bytes) : Bytes :=
  let x := unpack self
  let xR := mulInternal52 x U64.R
  let x_mod_l := montgomeryReduce52 xR
  pack x_mod_l

/-- `Scalar::from_bytes_mod_order` (scalar.rs:237); the `debug_assert_eq!(0u8, s[31] >> 7)` is theorem
`from_bytes_mod_order_high_bit` -/
def fromBytesModOrder (bytes : Bytes) : Bytes :=
  let s_unreduced := bytes
  let s := reduce52 s_unreduced
  s

/-- `Scalar::from_bytes_mod_order_wide` (scalar.rs:250): `UnpackedScalar::from_bytes_wide(input).pack()` -/
def fromBytesModOrderWide (input : Bytes) : Bytes := pack (fromBytesWide52 input)

/-- `Scalar::is_canonical` (scalar.rs:1134): `self.ct_eq(&self.reduce())` (`ct_eq` on the 32 bytes) -/
def isCanonical (self : Bytes) : Bool := self == reduce52 self

/-- `Scalar::from_canonical_bytes` (scalar.rs:261): `CtOption::new(candidate, high_bit_unset & is_canonical)` -/
def fromCanonicalBytes (bytes : Bytes) : Option Bytes :=
  let high_bit_unset := (bytes.getD 31 0 >>> 7) == 0
  let candidate := bytes
  if high_bit_unset && isCanonical candidate then some candidate else none

/-- `Scalar::from_hash` / `hash_from_bytes` (scalar.rs:625, 671): the 64-byte digest (a parameter of the model)
goes to `from_bytes_mod_order_wide` -/
def fromHash (digest : Bytes) : Bytes :=
  let output := digest
  fromBytesModOrderWide output

/-- `From<u8>`, `From<u16>`, `From<u32>`, `From<u64>`, `From<u128>` (scalar.rs:490-554): `x.to_le_bytes()` copied
to the front of `[0u8; 32]`; `nbytes` = 1, 2, 4, 8, 16 -/
def fromUInt (nbytes : Nat) (x : Nat) : Bytes :=
  let x_bytes := natToLeN x nbytes
  x_bytes ++ List.replicate (32 - nbytes) 0

def fromU8 (x : Nat) : Bytes := fromUInt 1 x
def fromU16 (x : Nat) : Bytes := fromUInt 2 x
def fromU32 (x : Nat) : Bytes := fromUInt 4 x
def fromU64 (x : Nat) : Bytes := fromUInt 8 x
def fromU128 (x : Nat) : Bytes := fromUInt 16 x

/-! ## operators -/

/-- `&Scalar + &Scalar` (scalar.rs:343): `UnpackedScalar::add(&self.unpack(), &rhs.unpack()).pack()` -/
def add (self rhs : Bytes) : Bytes := pack (add52 (unpack self) (unpack rhs))

/-- `&Scalar - &Scalar` (scalar.rs:363) -/
def sub (self rhs : Bytes) : Bytes := pack (sub52 (unpack self) (unpack rhs))

/-- `&Scalar * &Scalar` (scalar.rs:325) -/
def mul (self rhs : Bytes) : Bytes := pack (mul52 (unpack self) (unpack rhs))

/-- `-&Scalar` (scalar.rs:375): `mul_internal(self, R)` → `montgomery_reduce` → `sub(ZERO, ·)` -/
def neg (self : Bytes) : Bytes :=
  let self_R := mulInternal52 (unpack self) U64.R
  let self_mod_l := montgomeryReduce52 self_R
  pack (sub52 ZERO52 self_mod_l)

/-- `Sum` (scalar.rs:476): `iter.fold(Scalar::ZERO, |acc, item| acc + item)` -/
def sum (iter : List Bytes) : Bytes := iter.foldl (fun acc item => add acc item) ScalarRs.ZERO

/-- `Product` (scalar.rs:464): `iter.fold(Scalar::ONE, |acc, item| acc * item)` -/
def product (iter : List Bytes) : Bytes := iter.foldl (fun acc item => mul acc item) ScalarRs.ONE

/-! ## inversion

The addition chain is written ONCE, generically in the two operations it uses, so that the same text can be run
on limbs (the model) and on exponents (the proof that the chain computes the power `l - 2`). -/

/-- `square_multiply(y, squarings, x)` (scalar.rs:1167):
`for _ in 0..squarings { *y = y.montgomery_square(); } *y = montgomery_mul(y, x)` -/
def squareMultiply {α : Type} (sq : α → α) (mm : α → α → α) (y : α) (squarings : Nat) (x : α) : α :=
  mm (Nat.repeat sq squarings y) x

/-- the addition chain of `UnpackedScalar::montgomery_invert` (scalar.rs:1150-1203) over abstract
`montgomery_square` / `montgomery_mul` -/
def invertChain {α : Type} (sq : α → α) (mm : α → α → α) (self : α) : α :=
  let _1 := self
  let _10 := sq _1
  let _100 := sq _10
  let _11 := mm _10 _1
  let _101 := mm _10 _11
  let _111 := mm _10 _101
  let _1001 := mm _10 _111
  let _1011 := mm _10 _1001
  let _1111 := mm _100 _1011
  -- _10000
  let y := mm _1111 _1
  let y := squareMultiply sq mm y (123 + 3) _101
  let y := squareMultiply sq mm y (2 + 2) _11
  let y := squareMultiply sq mm y (1 + 4) _1111
  let y := squareMultiply sq mm y (1 + 4) _1111
  let y := squareMultiply sq mm y 4 _1001
  let y := squareMultiply sq mm y 2 _11
  let y := squareMultiply sq mm y (1 + 4) _1111
  let y := squareMultiply sq mm y (1 + 3) _101
  let y := squareMultiply sq mm y (3 + 3) _101
  let y := squareMultiply sq mm y 3 _111
  let y := squareMultiply sq mm y (1 + 4) _1111
  let y := squareMultiply sq mm y (2 + 3) _111
  let y := squareMultiply sq mm y (2 + 2) _11
  let y := squareMultiply sq mm y (1 + 4) _1011
  let y := squareMultiply sq mm y (2 + 4) _1011
  let y := squareMultiply sq mm y (6 + 4) _1001
  let y := squareMultiply sq mm y (2 + 2) _11
  let y := squareMultiply sq mm y (3 + 2) _11
  let y := squareMultiply sq mm y (3 + 2) _11
  let y := squareMultiply sq mm y (1 + 4) _1001
  let y := squareMultiply sq mm y (1 + 3) _111
  let y := squareMultiply sq mm y (2 + 4) _1111
  let y := squareMultiply sq mm y (1 + 4) _1011
  let y := squareMultiply sq mm y 3 _101
  let y := squareMultiply sq mm y (2 + 4) _1111
  let y := squareMultiply sq mm y 3 _101
  let y := squareMultiply sq mm y (1 + 2) _11
  y

/-- `UnpackedScalar::montgomery_invert` (scalar.rs:1150) on the translated kernels -/
def montgomeryInvert (self : Limbs) : Limbs := invertChain montgomerySquare52 montgomeryMul52 self

/-- `UnpackedScalar::invert` (scalar.rs:1206): `self.as_montgomery().montgomery_invert().from_montgomery()` -/
def invertUnpacked (self : Limbs) : Limbs := fromMontgomery52 (montgomeryInvert (asMontgomery52 self))

/-- `Scalar::invert` (scalar.rs:747): `self.unpack().invert().pack()` -/
def invert (self : Bytes) : Bytes := pack (invertUnpacked (unpack self))

/-! ## `Scalar::batch_invert` (scalar.rs:788-837)

The two `for` loops walk `inputs` zipped with `scratch` (both of length `n`), forwards and then backwards
(`.rev()`); they are structural recursions on the zipped list.  `scratch = vec![one; n]` is created as in the
source although every entry is overwritten in the first pass.  `debug_assert!(acc.pack() != Scalar::ZERO)` is
compiled out in release builds (`Dalek.Props.C15.Facts.batch_invert_acc_nonzero_scalar`: it cannot fire when all inputs are
non-zero); `Zeroize::zeroize(&mut scratch)` has no effect on the result. -/

/-- first pass: `for (input, scratch) in inputs.iter_mut().zip(scratch.iter_mut())`; returns the new
`(input, scratch)` pairs and the final `acc` -/
def batchPass1 : List (Bytes × Limbs) → Limbs → List (Bytes × Limbs) × Limbs
  | [], acc => ([], acc)
  | (input, _scratch) :: rest, acc =>
    -- *scratch = acc;
    let scratch := acc
    -- let tmp = input.unpack().as_montgomery(); *input = tmp.pack();
    let tmp := asMontgomery52 (unpack input)
    let input := pack tmp
    -- acc = UnpackedScalar::montgomery_mul(&acc, &tmp);
    let acc := montgomeryMul52 acc tmp
    let r := batchPass1 rest acc
    ((input, scratch) :: r.1, r.2)

/-- second pass: `for (input, scratch) in inputs.iter_mut().rev().zip(scratch.iter().rev())`: the LAST pair is
processed first, so the recursion first runs on the tail; returns the new inputs and the final `acc` -/
def batchPass2 : List (Bytes × Limbs) → Limbs → List Bytes × Limbs
  | [], acc => ([], acc)
  | (input, scratch) :: rest, acc =>
    let r := batchPass2 rest acc
    let acc := r.2
    -- let tmp = UnpackedScalar::montgomery_mul(&acc, &input.unpack());
    let tmp := montgomeryMul52 acc (unpack input)
    -- *input = UnpackedScalar::montgomery_mul(&acc, scratch).pack();
    let input := pack (montgomeryMul52 acc scratch)
    -- acc = tmp;
    (input :: r.1, tmp)

/-- `Scalar::batch_invert(inputs: &mut [Scalar]) -> Scalar`: the new contents of `inputs` and the returned
scalar -/
def batchInvert (inputs : List Bytes) : List Bytes × Bytes :=
  let n := inputs.length
  let one := asMontgomery52 (unpack ScalarRs.ONE)
  let scratch := List.replicate n one
  let acc := asMontgomery52 (unpack ScalarRs.ONE)
  let p1 := batchPass1 (inputs.zip scratch) acc
  let acc := p1.2
  -- acc = acc.montgomery_invert().from_montgomery();
  let acc := fromMontgomery52 (montgomeryInvert acc)
  -- let ret = acc.pack();
  let ret := pack acc
  let p2 := batchPass2 p1.1 acc
  (p2.1, ret)

/-- the value `acc.pack()` tested by `debug_assert!(acc.pack() != Scalar::ZERO)` (scalar.rs:815) -/
def batchInvertAccPacked (inputs : List Bytes) : Bytes :=
  let n := inputs.length
  let one := asMontgomery52 (unpack ScalarRs.ONE)
  let scratch := List.replicate n one
  let acc := asMontgomery52 (unpack ScalarRs.ONE)
  pack (batchPass1 (inputs.zip scratch) acc).2

end Dalek.Model.ScalarApi

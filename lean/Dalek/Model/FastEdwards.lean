/-
  Dalek.Model.FastEdwards — extended twisted Edwards coordinates (X:Y:Z:T), x = X/Z, y = Y/Z,
  xy = T/Z, over `Nat` mod p.  Used by the driver instead of the affine law of
  `Dalek.Spec.Edwards` (which costs two inversions per addition).  Intended theorem:
  `(EPt.smul n (EPt.ofAffine p)).toAffine = Pt.smul n p` for points on the curve.
-/
import Dalek.Spec.Edwards

namespace Dalek.Model
open Dalek.Spec

structure EPt where
  X : Nat
  Y : Nat
  Z : Nat
  T : Nat
  deriving Repr, Inhabited

namespace EPt

def zero : EPt := ⟨0, 1, 1, 0⟩

def ofAffine (p : Pt) : EPt := ⟨p.x % P, p.y % P, 1, fmul p.x p.y⟩

def toAffine (p : EPt) : Pt :=
  let zi := finv p.Z
  ⟨fmul p.X zi, fmul p.Y zi⟩

def neg (p : EPt) : EPt := ⟨fneg p.X, p.Y, p.Z, fneg p.T⟩

/-- `2d mod p`. -/
def D2 : Nat := (2 * D) % P

/-- Unified addition, Hisil–Wong–Carter–Dawson 2008 §3.1 (a = -1), complete since d is non-square. -/
def add (p q : EPt) : EPt :=
  let a := fmul (fsub p.Y p.X) (fsub q.Y q.X)
  let b := fmul (fadd p.Y p.X) (fadd q.Y q.X)
  let c := fmul (fmul p.T D2) q.T
  let d := fmul (fadd p.Z p.Z) q.Z
  let e := fsub b a
  let f := fsub d c
  let g := fadd d c
  let h := fadd b a
  ⟨fmul e f, fmul g h, fmul f g, fmul e h⟩

def sub (p q : EPt) : EPt := add p (neg q)

/-- Dedicated doubling, HWCD 2008 §3.3 (a = -1). -/
def double (p : EPt) : EPt :=
  let a := fsq p.X
  let b := fsq p.Y
  let c := fmul 2 (fsq p.Z)
  let d := fneg a
  let e := fsub (fsub (fsq (fadd p.X p.Y)) a) b
  let g := fadd d b
  let f := fsub g c
  let h := fsub d b
  ⟨fmul e f, fmul g h, fmul f g, fmul e h⟩

/-- MSB-first double-and-add with explicit fuel (`n < 2^fuel`). -/
def smulFuel : Nat → Nat → EPt → EPt
  | 0, _, _ => zero
  | fuel + 1, n, p =>
    if n = 0 then zero
    else
      let d := double (smulFuel fuel (n / 2) p)
      if n % 2 = 1 then add d p else d

def smul (n : Nat) (p : EPt) : EPt := smulFuel (n.log2 + 1) n p

/-- `k` successive doublings. -/
def mulByPow2 : Nat → EPt → EPt
  | 0, p => p
  | k + 1, p => mulByPow2 k (double p)

/-- `Σ nᵢ·pᵢ` (over the shorter of the two lists), by simple summation. -/
def msm : List Nat → List EPt → EPt
  | n :: ns, p :: ps => add (smul n p) (msm ns ps)
  | _, _ => zero

def sum (ps : List EPt) : EPt := ps.foldl add zero

/-- Projective equality `X₁Z₂ = X₂Z₁ ∧ Y₁Z₂ = Y₂Z₁` (dalek `ct_eq`). -/
def eq (p q : EPt) : Bool :=
  fmul p.X q.Z == fmul q.X p.Z && fmul p.Y q.Z == fmul q.Y p.Z

def isIdentity (p : EPt) : Bool := eq p zero
def isSmallOrder (p : EPt) : Bool := isIdentity (mulByPow2 3 p)
def isTorsionFree (p : EPt) : Bool := isIdentity (smul L p)

def compress (p : EPt) : List UInt8 := Dalek.Spec.compress p.toAffine

def decompress (b : List UInt8) : Option EPt := (Dalek.Spec.decompress b).map ofAffine

def basepoint : EPt := ofAffine B

def torsion (i : Nat) : EPt := ofAffine (eightTorsion.getD i Pt.zero)

end EPt
end Dalek.Model

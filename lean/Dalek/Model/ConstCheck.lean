/-
  Dalek.Model.ConstCheck — executable checkers for the precomputed constants and tables
  (properties C12 and the constants part of C17).

  Everything here is a `Bool`-valued (or `List`-valued) closed program over the REGENERATED literals of
  `Dalek.Gen.Consts` and the executable specification `Dalek.Spec.*`; the property theorems
  (`Dalek/Props/C12/Consts.lean`, `Dalek/Props/C17/Consts.lean`) are `check… = true` by kernel
  evaluation.  The same functions are linked into the model executable: `report` names every check and
  `failingEntries`/`tableFailures` list the offending table indices when a check fails after a source
  change.

  Style note (kernel performance): comparisons are `==` on `Nat`/`List Nat`, combined with `&&`;
  no `DecidableEq` on structures or `Option`s is used (the kernel would try to decide such equalities by
  lazy unfolding of both sides, which is exponential on the nested point chains).  Multiples of the
  basepoint are built incrementally (one addition per table entry, eight doublings per row) in extended
  coordinates (`Dalek.Model.EPt`), and compared by cross-multiplication, so no inversion is needed.

  Mathlib-free.
-/
import Dalek.Gen.Consts
import Dalek.Model.FastEdwards
import Dalek.Spec.Ristretto
import Dalek.Spec.Montgomery

namespace Dalek.Model.ConstCheck
open Dalek.Spec Dalek.Model
open Dalek.Gen.Consts

/-! ## Decoding limb / lane / byte lists -/

/-- `Σ lᵢ · 2^(w·i)`. -/
def radix (w : Nat) : List Nat → Nat
  | [] => 0
  | x :: xs => x + 2 ^ w * radix w xs

/-- integer denoted by radix-2^51 limbs (`FieldElement51`) -/
def int51 (l : List Nat) : Nat := radix 51 l
/-- field value of radix-2^51 limbs: `Σ lᵢ 2^(51 i) mod p` -/
def val51 (l : List Nat) : Nat := radix 51 l % P

/-- bit offset of limb `i` of `FieldElement2625`: `⌈25.5 i⌉` = 0, 26, 51, 77, 102, 128, … -/
def w26 (i : Nat) : Nat := (51 * i + 1) / 2

def int26From : Nat → List Nat → Nat
  | _, [] => 0
  | i, x :: xs => x * 2 ^ w26 i + int26From (i + 1) xs
/-- integer denoted by radix-2^25.5 limbs (`FieldElement2625`) -/
def int26 (l : List Nat) : Nat := int26From 0 l
/-- field value of radix-2^25.5 limbs -/
def val26 (l : List Nat) : Nat := int26 l % P

/-- integer denoted by `Scalar52` limbs -/
def val52 (l : List Nat) : Nat := radix 52 l
/-- integer denoted by `Scalar29` limbs -/
def val29 (l : List Nat) : Nat := radix 29 l
/-- little-endian bytes -/
def bytesLE (l : List Nat) : Nat := radix 8 l
/-- little-endian `u64` limbs -/
def limbs64 (l : List Nat) : Nat := radix 64 l

/-- Lane `k` (0..3 = A..D) of an AVX2 `FieldElement2625x4` given as 5 `u32x8` vectors.  Layout
(`avx2/field.rs`, `FieldElement2625x4::new`/`split`): vector `i` is
`(a_2i, b_2i, a_2i+1, b_2i+1, c_2i, d_2i, c_2i+1, d_2i+1)`; `split` returns the radix-2^51 limbs
`x_2i + (x_2i+1 << 26)`.  The result is the denoted integer (not reduced). -/
def laneAvx2 (v : List (List Nat)) (k : Nat) : Nat :=
  let lo := if k < 2 then k else k + 2
  radix 51 (v.map fun x => x.getD lo 0 + 2 ^ 26 * x.getD (lo + 2) 0)

/-- Lane `k` of an IFMA `F51x4{Reduced,Unreduced}` given as 5 `u64x4` vectors: limb `i` of lane `k` is
element `k` of vector `i` (`ifma/field.rs`, `F51x4Unreduced::new`/`split`). -/
def laneIfma (v : List (List Nat)) (k : Nat) : Nat :=
  radix 51 (v.map fun x => x.getD k 0)

/-! ## Shape and range predicates -/

def allLt (b : Nat) (l : List Nat) : Bool := l.all (fun x => x < b)

def allIdx (f : Nat → Nat → Bool) : Nat → List Nat → Bool
  | _, [] => true
  | i, x :: xs => f i x && allIdx f (i + 1) xs

def pairwise {α} (r : α → α → Bool) : List α → Bool
  | [] => true
  | x :: xs => xs.all (r x) && pairwise r xs

/-- five limbs, each `< 2^bits` -/
def shape51 (bits : Nat) (l : List Nat) : Bool := l.length == 5 && allLt (2 ^ bits) l
/-- ten limbs, even ones `< 2^(26+extra)`, odd ones `< 2^(25+extra)` -/
def shape26 (extra : Nat) (l : List Nat) : Bool :=
  l.length == 10 && allIdx (fun i x => x < 2 ^ ((if i % 2 == 0 then 26 else 25) + extra)) 0 l
/-- fully reduced limbs AND the denoted integer is the canonical representative `< p` -/
def canon51 (l : List Nat) : Bool := shape51 51 l && int51 l < P
def canon26 (l : List Nat) : Bool := shape26 0 l && int26 l < P

def isBytes (n : Nat) (l : List Nat) : Bool := l.length == n && allLt 256 l

/-- `x < 2^(bits + millis/1000)`, exactly (both sides raised to the 1000th power). -/
def ltPow2 (x bits millis : Nat) : Bool := x ^ 1000 < 2 ^ (1000 * bits + millis)
/-- `x ≥ 2^(bits + millis/1000)`, exactly. -/
def gePow2 (x bits millis : Nat) : Bool := 2 ^ (1000 * bits + millis) ≤ x ^ 1000

/-- nominal width of position `k` of an AVX2 `u32x8` vector: positions 0,1,4,5 hold even (26-bit) limbs,
positions 2,3,6,7 hold odd (25-bit) limbs -/
def avx2Width (k : Nat) : Nat := if k % 4 < 2 then 26 else 25

/-- every coefficient of the 5×8 vector is bounded with `b < millis/1000` in the sense of
`avx2/field.rs` (`x < 2^(26+b)` resp. `2^(25+b)`) -/
def avx2Bounded (millis : Nat) (v : List (List Nat)) : Bool :=
  v.length == 5 && v.all fun x => x.length == 8 && allIdx (fun k c => ltPow2 c (avx2Width k) millis) 0 x

/-- what `F51x4Reduced::from(F51x4Unreduced)` guarantees for arbitrary 64-bit input limbs:
limb 0 `< 2^51 + 19·2^13`, limbs 1..4 `< 2^51 + 2^13` (in particular `< 2^52`, as `vpmadd52` needs) -/
def ifmaReduced (v : List (List Nat)) : Bool :=
  v.length == 5 &&
  (match v with
   | v0 :: vs => v0.length == 4 && allLt (2 ^ 51 + 19 * 2 ^ 13) v0 &&
                 vs.all (fun x => x.length == 4 && allLt (2 ^ 51 + 2 ^ 13) x)
   | [] => false)

/-! ## Field constants (serial u64 / u32) -/

/-- the eleven field-element constants that `u64/constants.rs` and `u32/constants.rs` both define -/
structure FieldConsts where
  MINUS_ONE : List Nat
  EDWARDS_D : List Nat
  EDWARDS_D2 : List Nat
  ONE_MINUS_EDWARDS_D_SQUARED : List Nat
  EDWARDS_D_MINUS_ONE_SQUARED : List Nat
  SQRT_AD_MINUS_ONE : List Nat
  INVSQRT_A_MINUS_D : List Nat
  SQRT_M1 : List Nat
  APLUS2_OVER_FOUR : List Nat
  MONTGOMERY_A : List Nat
  MONTGOMERY_A_NEG : List Nat

def u64Consts : FieldConsts :=
  ⟨U64.MINUS_ONE, U64.EDWARDS_D, U64.EDWARDS_D2, U64.ONE_MINUS_EDWARDS_D_SQUARED,
   U64.EDWARDS_D_MINUS_ONE_SQUARED, U64.SQRT_AD_MINUS_ONE, U64.INVSQRT_A_MINUS_D, U64.SQRT_M1,
   U64.APLUS2_OVER_FOUR, U64.MONTGOMERY_A, U64.MONTGOMERY_A_NEG⟩

def u32Consts : FieldConsts :=
  ⟨U32.MINUS_ONE, U32.EDWARDS_D, U32.EDWARDS_D2, U32.ONE_MINUS_EDWARDS_D_SQUARED,
   U32.EDWARDS_D_MINUS_ONE_SQUARED, U32.SQRT_AD_MINUS_ONE, U32.INVSQRT_A_MINUS_D, U32.SQRT_M1,
   U32.APLUS2_OVER_FOUR, U32.MONTGOMERY_A, U32.MONTGOMERY_A_NEG⟩

def FieldConsts.toList (c : FieldConsts) : List (List Nat) :=
  [c.MINUS_ONE, c.EDWARDS_D, c.EDWARDS_D2, c.ONE_MINUS_EDWARDS_D_SQUARED,
   c.EDWARDS_D_MINUS_ONE_SQUARED, c.SQRT_AD_MINUS_ONE, c.INVSQRT_A_MINUS_D, c.SQRT_M1,
   c.APLUS2_OVER_FOUR, c.MONTGOMERY_A, c.MONTGOMERY_A_NEG]

/-! Defining equations, on field values (canonical representatives `< p`). -/

/-- `MINUS_ONE = -1` -/
def checkMinusOne (m1 : Nat) : Bool := m1 == P - 1
/-- `d · 121666 = -121665` -/
def checkD (d : Nat) : Bool := fmul d 121666 == P - 121665
/-- `d2 = 2 d` -/
def checkD2 (d d2 : Nat) : Bool := d2 == fmul 2 d
/-- `SQRT_M1² = -1` and `SQRT_M1` is non-negative (its canonical representative is even) -/
def checkSqrtM1 (i : Nat) : Bool := fsq i == P - 1 && i < P && i % 2 == 0
/-- `ONE_MINUS_EDWARDS_D_SQUARED = 1 - d²` -/
def checkOneMinusDSq (d x : Nat) : Bool := x == fsub 1 (fsq d)
/-- `EDWARDS_D_MINUS_ONE_SQUARED = (d - 1)²` -/
def checkDMinusOneSq (d x : Nat) : Bool := x == fsq (fsub d 1)
/-- `SQRT_AD_MINUS_ONE² = a·d - 1 = -d - 1` (a = -1) -/
def checkSqrtAdMinusOne (d x : Nat) : Bool := fsq x == fsub (fneg d) 1
/-- `INVSQRT_A_MINUS_D² · (a - d) = 1`, `a - d = -1 - d` -/
def checkInvsqrtAMinusD (d x : Nat) : Bool := fmul (fsq x) (fsub (fneg 1) d) == 1
/-- `APLUS2_OVER_FOUR = 121666` and `4 · 121666 = A + 2` -/
def checkAplus2Over4 (x A : Nat) : Bool := x == 121666 && fmul 4 x == fadd A 2
/-- `MONTGOMERY_A = 486662` -/
def checkMontA (x : Nat) : Bool := x == 486662
/-- `MONTGOMERY_A_NEG = -486662` -/
def checkMontANeg (x : Nat) : Bool := x == P - 486662 && fadd x 486662 == 0

/-- the named defining-equation checks for one representation (`val` = `val51` or `val26`) -/
def fieldChecks (val : List Nat → Nat) (c : FieldConsts) : List (String × Bool) :=
  let d := val c.EDWARDS_D
  [ ("MINUS_ONE", checkMinusOne (val c.MINUS_ONE)),
    ("EDWARDS_D", checkD d),
    ("EDWARDS_D2", checkD2 d (val c.EDWARDS_D2)),
    ("SQRT_M1", checkSqrtM1 (val c.SQRT_M1)),
    ("ONE_MINUS_EDWARDS_D_SQUARED", checkOneMinusDSq d (val c.ONE_MINUS_EDWARDS_D_SQUARED)),
    ("EDWARDS_D_MINUS_ONE_SQUARED", checkDMinusOneSq d (val c.EDWARDS_D_MINUS_ONE_SQUARED)),
    ("SQRT_AD_MINUS_ONE", checkSqrtAdMinusOne d (val c.SQRT_AD_MINUS_ONE)),
    ("INVSQRT_A_MINUS_D", checkInvsqrtAMinusD d (val c.INVSQRT_A_MINUS_D)),
    ("APLUS2_OVER_FOUR", checkAplus2Over4 (val c.APLUS2_OVER_FOUR) (val c.MONTGOMERY_A)),
    ("MONTGOMERY_A", checkMontA (val c.MONTGOMERY_A)),
    ("MONTGOMERY_A_NEG", checkMontANeg (val c.MONTGOMERY_A_NEG)) ]

/-- all eleven literals are canonical encodings (reduced limbs, integer `< p`) -/
def checkFieldCanon51 (c : FieldConsts) : Bool := c.toList.all canon51
def checkFieldCanon26 (c : FieldConsts) : Bool := c.toList.all canon26

/-- `repr_agree` for the field constants: u64 and u32 literals of the same name denote the same value -/
def checkFieldReprAgree : Bool :=
  u64Consts.toList.map val51 == u32Consts.toList.map val26

/-- The literal constants used by the executable SPECIFICATION (`Spec.D`, `Spec.SQRT_M1`, RFC 9496's
`INVSQRT_A_MINUS_D`, `SQRT_AD_MINUS_ONE`, `ONE_MINUS_D_SQ`, `D_MINUS_ONE_SQ`, `MONTGOMERY_A`, `a24`) equal
the values denoted by the crate's literals.  This also fixes the SIGN of the two Ristretto square roots
(their defining equations determine them only up to sign; RFC 9496 §4.1 lists the values). -/
def checkSpecConsts (val : List Nat → Nat) (c : FieldConsts) : Bool :=
  val c.EDWARDS_D == D &&
  val c.EDWARDS_D2 == EPt.D2 &&
  val c.SQRT_M1 == SQRT_M1 &&
  val c.INVSQRT_A_MINUS_D == Ristretto.INVSQRT_A_MINUS_D &&
  val c.SQRT_AD_MINUS_ONE == Ristretto.SQRT_AD_MINUS_ONE &&
  val c.ONE_MINUS_EDWARDS_D_SQUARED == Ristretto.ONE_MINUS_D_SQ &&
  val c.EDWARDS_D_MINUS_ONE_SQUARED == Ristretto.D_MINUS_ONE_SQ &&
  val c.MONTGOMERY_A == MONTGOMERY_A &&
  val c.APLUS2_OVER_FOUR == a24 + 1

/-! ## Scalar constants -/

/-- `L` (u64): five 52-bit limbs denoting `l` -/
def checkL52 : Bool := U64.L.length == 5 && allLt (2 ^ 52) U64.L && val52 U64.L == L
/-- `L` (u32): nine 29-bit limbs denoting `l` -/
def checkL29 : Bool := U32.L.length == 9 && allLt (2 ^ 29) U32.L && val29 U32.L == L
/-- `R = 2^260 mod l` (u64 Montgomery radix) -/
def checkR52 : Bool := U64.R.length == 5 && allLt (2 ^ 52) U64.R && val52 U64.R == 2 ^ 260 % L
/-- `R = 2^261 mod l` (u32 Montgomery radix) -/
def checkR29 : Bool := U32.R.length == 9 && allLt (2 ^ 29) U32.R && val29 U32.R == 2 ^ 261 % L
/-- `RR = R² mod l` -/
def checkRR52 : Bool :=
  U64.RR.length == 5 && allLt (2 ^ 52) U64.RR && val52 U64.RR == val52 U64.R * val52 U64.R % L &&
  val52 U64.RR == 2 ^ 520 % L
def checkRR29 : Bool :=
  U32.RR.length == 9 && allLt (2 ^ 29) U32.RR && val29 U32.RR == val29 U32.R * val29 U32.R % L &&
  val29 U32.RR == 2 ^ 522 % L
/-- `LFACTOR · L[0] ≡ -1 (mod 2^52)` (also with the whole `l` in place of its low limb) -/
def checkLFACTOR52 : Bool :=
  U64.LFACTOR < 2 ^ 52 && U64.LFACTOR * U64.L.getD 0 0 % 2 ^ 52 == 2 ^ 52 - 1 &&
  U64.LFACTOR * L % 2 ^ 52 == 2 ^ 52 - 1
/-- `LFACTOR · L[0] ≡ -1 (mod 2^29)` -/
def checkLFACTOR29 : Bool :=
  U32.LFACTOR < 2 ^ 29 && U32.LFACTOR * U32.L.getD 0 0 % 2 ^ 29 == 2 ^ 29 - 1 &&
  U32.LFACTOR * L % 2 ^ 29 == 2 ^ 29 - 1
/-- `BASEPOINT_ORDER` (and its private twin): 32 little-endian bytes denoting `l` -/
def checkBasepointOrder : Bool :=
  isBytes 32 Top.BASEPOINT_ORDER && bytesLE Top.BASEPOINT_ORDER == L &&
  isBytes 32 Top.BASEPOINT_ORDER_PRIVATE && bytesLE Top.BASEPOINT_ORDER_PRIVATE == L
/-- `repr_agree` for the scalar constants: `L` agrees; `LFACTOR` (u32) is the u64 one mod 2^29; the two
`R` differ by design (`R₃₂ = 2·R₆₄ mod l`, radices 2^261 / 2^260) -/
def checkScalarReprAgree : Bool :=
  val52 U64.L == val29 U32.L && U64.LFACTOR % 2 ^ 29 == U32.LFACTOR &&
  val29 U32.R == 2 * val52 U64.R % L && val29 U32.RR == 4 * val52 U64.RR % L

/-! ## AVX2 `P_TIMES_2_*`, `P_TIMES_16_*` and the vector identity constants -/

/-- limb `j` (0..9) of `p` in radix 2^25.5: `2^26-19, 2^25-1, 2^26-1, 2^25-1, …` -/
def pLimb26 (j : Nat) : Nat := if j == 0 then 2 ^ 26 - 19 else if j % 2 == 0 then 2 ^ 26 - 1 else 2 ^ 25 - 1

/-- `[LO, HI, HI, HI, HI]` is, limb for limb, `m` times the radix-2^25.5 limbs of `p` in each of the four
lanes (so each lane denotes exactly `m·p`), and every limb is `≥ 2^(w + geMillis/1000)` where `w` is the
limb's nominal width (so subtracting a value bounded with `b < geMillis/1000` cannot underflow). -/
def checkPTimes (m geMillis : Nat) (lo hi : List Nat) : Bool :=
  let v := [lo, hi, hi, hi, hi]
  v.all (fun x => x.length == 8) &&
  -- limb-wise: position k of vector i holds limb 2i (k%4 < 2) or 2i+1 of p, times m
  allIdx (fun i _ => allIdx (fun k c => c == m * pLimb26 (2 * i + (if k % 4 < 2 then 0 else 1)))
            0 (v.getD i [])) 0 [0, 1, 2, 3, 4] &&
  -- value: each lane denotes m·p exactly
  [0, 1, 2, 3].all (fun k => laneAvx2 v k == m * P) &&
  -- headroom
  v.all (fun x => allIdx (fun k c => gePow2 c (avx2Width k) geMillis && c < 2 ^ 32) 0 x)

/-- `P_TIMES_2_{LO,HI}` = 2p with every limb `> 2^(w+0.999)` (`negate_lazy` precondition `b < 0.999`) -/
def checkPTimes2 : Bool := checkPTimes 2 999 Avx2.P_TIMES_2_LO Avx2.P_TIMES_2_HI
/-- `P_TIMES_16_{LO,HI}` = 16p with every limb `> 2^(w+3.999)` (used by `Neg`/`diff_sum`) -/
def checkPTimes16 : Bool := checkPTimes 16 3999 Avx2.P_TIMES_16_LO Avx2.P_TIMES_16_HI

/-- the `CachedPoint` quadruple dalek computes from an extended point:
`(121666(Y-X), 121666(Y+X), 2·121666·Z, -2·121665·T)` (`CachedPoint::from(ExtendedPoint)`) -/
def dalekCached (p : EPt) : List Nat :=
  [fmul 121666 (fsub p.Y p.X), fmul 121666 (fadd p.Y p.X), fmul (2 * 121666) p.Z,
   fneg (fmul (2 * 121665) p.T)]

/-- AVX2 identity constants: `EXTENDEDPOINT_IDENTITY` has lanes exactly `(0,1,1,0)`;
`CACHEDPOINT_IDENTITY` has lanes `≡ CachedPoint::from(identity)` and is bounded with `b < 0.007` -/
def checkAvx2Identity : Bool :=
  avx2Bounded 0 Avx2.EXTENDEDPOINT_IDENTITY &&
  [0, 1, 2, 3].map (laneAvx2 Avx2.EXTENDEDPOINT_IDENTITY) == [0, 1, 1, 0] &&
  avx2Bounded 7 Avx2.CACHEDPOINT_IDENTITY &&
  [0, 1, 2, 3].map (fun k => laneAvx2 Avx2.CACHEDPOINT_IDENTITY k % P) == dalekCached EPt.zero

/-- IFMA identity constants, same statement with the `F51x4Reduced` range -/
def checkIfmaIdentity : Bool :=
  ifmaReduced Ifma.EXTENDEDPOINT_IDENTITY &&
  [0, 1, 2, 3].map (laneIfma Ifma.EXTENDEDPOINT_IDENTITY) == [0, 1, 1, 0] &&
  ifmaReduced Ifma.CACHEDPOINT_IDENTITY &&
  [0, 1, 2, 3].map (fun k => laneIfma Ifma.CACHEDPOINT_IDENTITY k % P) == dalekCached EPt.zero

/-! ## Points: basepoint and torsion -/

/-- decode a point literal `[X, Y, Z, T]` -/
def decodePt (val : List Nat → Nat) (l : List (List Nat)) : EPt :=
  ⟨val (l.getD 0 []), val (l.getD 1 []), val (l.getD 2 []), val (l.getD 3 [])⟩

/-- a normalised extended point: `Z = 1`, `T = XY`, `(X, Y)` on the curve -/
def extOk (p : EPt) : Bool := p.Z == 1 && p.T == fmul p.X p.Y && onCurve ⟨p.X, p.Y⟩

/-- `ED25519_BASEPOINT_POINT`: four canonical coordinates; on the curve; `y = 4/5`; `x` even (non-negative);
`Z = 1`; `T = XY`; and it is the specification's `B`. -/
def checkBasepoint (val : List Nat → Nat) (canon : List Nat → Bool) (l : List (List Nat)) : Bool :=
  let p := decodePt val l
  l.length == 4 && l.all canon && extOk p &&
  fmul p.Y 5 == 4 && p.X % 2 == 0 &&
  p.X == B.x && p.Y == B.y

/-- `[l]B = O`, `B ≠ O` (hence, `l` being prime, `B` has order exactly `l`) -/
def checkBasepointOrderL (val : List Nat → Nat) (l : List (List Nat)) : Bool :=
  let p := decodePt val l
  EPt.isIdentity (EPt.smul L p) && !EPt.isIdentity p

/-- indices `i` for which `EIGHT_TORSION[i]` is not a normalised canonical point equal to `[i]·T₁` (chain
of additions) and to the specification's `eightTorsion[i]` -/
def torsionFails (val : List Nat → Nat) (canon : List Nat → Bool) (t1 : EPt) :
    List (List (List Nat)) → Nat → EPt → List (Nat × Nat)
  | [], _, _ => []
  | e :: es, i, cur =>
    let rest := torsionFails val canon t1 es (i + 1) (EPt.add cur t1)
    let p := decodePt val e
    let s := eightTorsion.getD i ⟨0, 0⟩
    if e.length == 4 && e.all canon && extOk p && EPt.eq p cur && p.X == s.x && p.Y == s.y
    then rest else (i, 0) :: rest

/-- `EIGHT_TORSION`: 8 entries, `T[i] = [i]·T[1]`, pairwise distinct, `[8]T = O` for each, `[4]T[1] ≠ O`
(so `T[1]` has order exactly 8 and the array is the cyclic group it generates, in order), and
`[8]T[1] = O` closes the chain (`T[7] + T[1] = O`). -/
def checkEightTorsion (val : List Nat → Nat) (canon : List Nat → Bool)
    (t : List (List (List Nat))) : Bool :=
  let pts := t.map (decodePt val)
  let t1 := decodePt val (t.getD 1 [])
  t.length == 8 &&
  (torsionFails val canon t1 t 0 EPt.zero).isEmpty &&
  pairwise (fun a b => !EPt.eq a b) pts &&
  pts.all (fun p => EPt.isIdentity (EPt.mulByPow2 3 p)) &&
  !EPt.isIdentity (EPt.mulByPow2 2 t1) &&
  EPt.isIdentity (EPt.add (decodePt val (t.getD 7 [])) t1) &&
  eightTorsion.length == 8

/-! ## Byte-string constants of `constants.rs`, `x25519.rs` -/

def toNats (b : List UInt8) : List Nat := b.map (fun x => x.toNat)
def toBytes (l : List Nat) : List UInt8 := l.map UInt8.ofNat

/-- `ED25519_BASEPOINT_COMPRESSED = compress B`, and it decompresses to `B` -/
def checkBasepointCompressed : Bool :=
  isBytes 32 Top.ED25519_BASEPOINT_COMPRESSED &&
  toNats (compress B) == Top.ED25519_BASEPOINT_COMPRESSED &&
  (match decompress (toBytes Top.ED25519_BASEPOINT_COMPRESSED) with
   | some q => q.x == B.x && q.y == B.y
   | none => false)

/-- `X25519_BASEPOINT = 9 = (1+y_B)/(1-y_B)`, same bytes as x25519-dalek's `X25519_BASEPOINT_BYTES` and as
the specification's `X25519_BASEPOINT` -/
def checkX25519Basepoint : Bool :=
  isBytes 32 Top.X25519_BASEPOINT &&
  bytesLE Top.X25519_BASEPOINT == 9 &&
  toMontgomery B == 9 &&
  Top.X25519_BASEPOINT == toNats (encodeUCoordinate (toMontgomery B)) &&
  X.X25519_BASEPOINT_BYTES == Top.X25519_BASEPOINT &&
  toNats X25519_BASEPOINT == Top.X25519_BASEPOINT

/-- `RISTRETTO_BASEPOINT_COMPRESSED` = RFC 9496 ENCODE of `B`, and DECODEs to an element EQUAL to `B` -/
def checkRistrettoBasepointCompressed : Bool :=
  isBytes 32 Top.RISTRETTO_BASEPOINT_COMPRESSED &&
  toNats (Ristretto.encode B) == Top.RISTRETTO_BASEPOINT_COMPRESSED &&
  (match Ristretto.decode (toBytes Top.RISTRETTO_BASEPOINT_COMPRESSED) with
   | some q => Ristretto.equals q B
   | none => false)

/-- ed25519-dalek length constants -/
def checkEdLengths : Bool :=
  Ed.SIGNATURE_LENGTH == 64 && Ed.SECRET_KEY_LENGTH == 32 && Ed.PUBLIC_KEY_LENGTH == 32 &&
  Ed.KEYPAIR_LENGTH == Ed.SECRET_KEY_LENGTH + Ed.PUBLIC_KEY_LENGTH &&
  Ed.EXPANDED_SECRET_KEY_KEY_LENGTH == 32 && Ed.EXPANDED_SECRET_KEY_NONCE_LENGTH == 32 &&
  Ed.EXPANDED_SECRET_KEY_LENGTH == Ed.EXPANDED_SECRET_KEY_KEY_LENGTH + Ed.EXPANDED_SECRET_KEY_NONCE_LENGTH

/-! ## Tables -/

/-- the affine Niels literal `e = [y_plus_x, y_minus_x, xy2d]` is the Niels form `(y+x, y-x, 2dxy)` of the
affine point denoted by the extended point `p = (X:Y:Z:T)` (cross-multiplied by `Z ≠ 0`) -/
def nielsOk (val : List Nat → Nat) (e : List (List Nat)) (p : EPt) : Bool :=
  match e with
  | [ypx, ymx, xy2d] =>
    p.Z % P != 0 &&
    fmul (val ypx) p.Z == fadd p.Y p.X &&
    fmul (val ymx) p.Z == fsub p.Y p.X &&
    fmul (val xy2d) p.Z == fmul EPt.D2 p.T
  | _ => false

/-- row `i` of a radix-256 table: entry `j` against `cur = (j+1)·base`, advancing by one addition -/
def rowFails (ok : List (List Nat) → EPt → Bool) (i : Nat) (base : EPt) :
    List (List (List Nat)) → Nat → EPt → List (Nat × Nat)
  | [], _, _ => []
  | e :: es, j, cur =>
    let rest := rowFails ok i base es (j + 1) (EPt.add cur base)
    if ok e cur then rest else (i, j) :: rest

/-- whole table: row `i` against `base = 256^i·B`, advancing by eight doublings -/
def tableFails (ok : List (List Nat) → EPt → Bool) :
    List (List (List (List Nat))) → Nat → EPt → List (Nat × Nat)
  | [], _, _ => []
  | r :: rs, i, base =>
    rowFails ok i base r 0 base ++ tableFails ok rs (i + 1) (EPt.mulByPow2 8 base)

/-- **Diagnosis**: the indices `(i, j)` such that `ED25519_BASEPOINT_TABLE[i][j]` is NOT the affine Niels
form of `(j+1)·256^i·B` (`B` = the specification's basepoint). -/
def failingEntries (val : List Nat → Nat) (t : List (List (List (List Nat)))) : List (Nat × Nat) :=
  tableFails (nielsOk val) t 0 EPt.basepoint

/-- a list of odd multiples: entry `i` against `cur = (2i+1)·B`, advancing by adding `2B`; failing
indices are reported as `(i, 0)` -/
def oddFails {α} (ok : α → EPt → Bool) (twoB : EPt) : List α → Nat → EPt → List (Nat × Nat)
  | [], _, _ => []
  | e :: es, i, cur =>
    let rest := oddFails ok twoB es (i + 1) (EPt.add cur twoB)
    if ok e cur then rest else (i, 0) :: rest

/-- **Diagnosis**: indices `i` (as `(i,0)`) such that `AFFINE_ODD_MULTIPLES_OF_BASEPOINT[i]` is NOT the affine
Niels form of `(2i+1)·B`. -/
def failingOddEntries (val : List Nat → Nat) (t : List (List (List Nat))) : List (Nat × Nat) :=
  oddFails (nielsOk val) (EPt.double EPt.basepoint) t 0 EPt.basepoint

/-- projective equality of two quadruples (all 2×2 minors vanish) with non-zero third coordinates -/
def proj4Eq (a b : List Nat) : Bool :=
  match a, b with
  | [a0, a1, a2, a3], [b0, b1, b2, b3] =>
    a2 % P != 0 && b2 % P != 0 &&
    fmul a0 b1 == fmul a1 b0 && fmul a0 b2 == fmul a2 b0 && fmul a0 b3 == fmul a3 b0 &&
    fmul a1 b2 == fmul a2 b1 && fmul a1 b3 == fmul a3 b1 && fmul a2 b3 == fmul a3 b2
  | _, _ => false

/-- the `CachedPoint` a point must be (projectively) for the vector addition formulas to be correct:
`(Y-X : Y+X : 2Z : 2dT)`.  (dalek's `CachedPoint::from` multiplies this by 121666, see `dalekCached`.) -/
def cachedOf (p : EPt) : List Nat :=
  [fsub p.Y p.X, fadd p.Y p.X, fadd p.Z p.Z, fmul EPt.D2 p.T]

/-- the four lanes `(A,B,C,D)` of a vector literal are projectively `cachedOf p` -/
def cachedOk (lane : List (List Nat) → Nat → Nat) (e : List (List Nat)) (p : EPt) : Bool :=
  proj4Eq ([0, 1, 2, 3].map (fun k => lane e k % P)) (cachedOf p)

/-- **Diagnosis**: indices `i` (as `(i,0)`) such that the vector `BASEPOINT_ODD_LOOKUP_TABLE[i]` is NOT
projectively the `CachedPoint` of `(2i+1)·B`. -/
def failingCachedEntries (lane : List (List Nat) → Nat → Nat) (t : List (List (List Nat))) :
    List (Nat × Nat) :=
  oddFails (cachedOk lane) (EPt.double EPt.basepoint) t 0 EPt.basepoint

/-- `ED25519_BASEPOINT_TABLE`: 32 rows of 8 entries, entry `[i][j]` = Niels((j+1)·256^i·B) -/
def checkBasepointTable (val : List Nat → Nat) (t : List (List (List (List Nat)))) : Bool :=
  t.length == 32 && t.all (fun r => r.length == 8) && (failingEntries val t).isEmpty

/-- `AFFINE_ODD_MULTIPLES_OF_BASEPOINT`: 64 entries, entry `i` = Niels((2i+1)·B) -/
def checkOddTable (val : List Nat → Nat) (t : List (List (List Nat))) : Bool :=
  t.length == 64 && (failingOddEntries val t).isEmpty

/-- vector `BASEPOINT_ODD_LOOKUP_TABLE`: 64 entries, entry `i` ~ CachedPoint((2i+1)·B) -/
def checkCachedTable (lane : List (List Nat) → Nat → Nat) (t : List (List (List Nat))) : Bool :=
  t.length == 64 && (failingCachedEntries lane t).isEmpty

/-! ### Limb ranges of the table entries

The `y_plus_x` component of the serial tables is stored as the UNREDUCED sum `y + x` of two reduced
elements, so its limbs have one extra bit (`< 2^52`, resp. `< 2^27 / 2^26`); `y_minus_x` and `xy2d` are
reduced (`< 2^51`, resp. `< 2^26 / 2^25`).  All of this is inside the multiplication contracts
(`< 2^54`; second operand `b < 1.75`). -/

def nielsRange51 (e : List (List Nat)) : Bool :=
  match e with
  | [ypx, ymx, xy2d] => shape51 52 ypx && shape51 51 ymx && shape51 51 xy2d
  | _ => false

def nielsRange26 (e : List (List Nat)) : Bool :=
  match e with
  | [ypx, ymx, xy2d] => shape26 1 ypx && shape26 0 ymx && shape26 0 xy2d
  | _ => false

def idxFails {α} (ok : α → Bool) : List α → Nat → List Nat
  | [], _ => []
  | e :: es, i => let rest := idxFails ok es (i + 1); if ok e then rest else i :: rest

/-- entries `(i,j)` of a 2-level table violating `ok` -/
def rangeFails2 {α} (ok : α → Bool) : List (List α) → Nat → List (Nat × Nat)
  | [], _ => []
  | r :: rs, i => (idxFails ok r 0).map (fun j => (i, j)) ++ rangeFails2 ok rs (i + 1)

def rangeFails1 {α} (ok : α → Bool) (t : List α) : List (Nat × Nat) :=
  (idxFails ok t 0).map (fun i => (i, 0))

/-- all limbs of all serial tables are in range -/
def checkTableRanges : Bool :=
  (rangeFails2 nielsRange51 U64.ED25519_BASEPOINT_TABLE 0).isEmpty &&
  (rangeFails1 nielsRange51 U64.AFFINE_ODD_MULTIPLES_OF_BASEPOINT).isEmpty &&
  (rangeFails2 nielsRange26 U32.ED25519_BASEPOINT_TABLE 0).isEmpty &&
  (rangeFails1 nielsRange26 U32.AFFINE_ODD_MULTIPLES_OF_BASEPOINT).isEmpty

/-- all coefficients of the vector tables are in range: AVX2 `b < 0.007` (the bound documented for the
output of `CachedPoint::from`; in fact `b ≤ 0` holds for the table), IFMA `F51x4Reduced` range -/
def checkVectorTableRanges : Bool :=
  (rangeFails1 (avx2Bounded 7) Avx2.BASEPOINT_ODD_LOOKUP_TABLE).isEmpty &&
  (rangeFails1 ifmaReduced Ifma.BASEPOINT_ODD_LOOKUP_TABLE).isEmpty

/-! ### `repr_agree` for points and tables -/

def nielsVals (val : List Nat → Nat) (e : List (List Nat)) : List Nat := e.map val

/-- the u64 and u32 literals of the basepoint, of every torsion point, of every entry of the radix-256
table and of the odd-multiples table denote the same field values -/
def checkPointReprAgree : Bool :=
  U64.ED25519_BASEPOINT_POINT.map val51 == U32.ED25519_BASEPOINT_POINT.map val26 &&
  U64.EIGHT_TORSION.map (nielsVals val51) == U32.EIGHT_TORSION.map (nielsVals val26) &&
  U64.ED25519_BASEPOINT_TABLE.map (fun r => r.map (nielsVals val51)) ==
    U32.ED25519_BASEPOINT_TABLE.map (fun r => r.map (nielsVals val26)) &&
  U64.AFFINE_ODD_MULTIPLES_OF_BASEPOINT.map (nielsVals val51) ==
    U32.AFFINE_ODD_MULTIPLES_OF_BASEPOINT.map (nielsVals val26)

def lanesMod (lane : List (List Nat) → Nat → Nat) (e : List (List Nat)) : List Nat :=
  [0, 1, 2, 3].map (fun k => lane e k % P)

/-- the AVX2 and IFMA literals of the same name denote the same lane values mod p (identity constants and
all 64 table entries), and entry 0 of both tables is exactly `CachedPoint::from(B)` -/
def checkVectorReprAgree : Bool :=
  lanesMod laneAvx2 Avx2.EXTENDEDPOINT_IDENTITY == lanesMod laneIfma Ifma.EXTENDEDPOINT_IDENTITY &&
  lanesMod laneAvx2 Avx2.CACHEDPOINT_IDENTITY == lanesMod laneIfma Ifma.CACHEDPOINT_IDENTITY &&
  Avx2.BASEPOINT_ODD_LOOKUP_TABLE.map (lanesMod laneAvx2) ==
    Ifma.BASEPOINT_ODD_LOOKUP_TABLE.map (lanesMod laneIfma) &&
  lanesMod laneAvx2 (Avx2.BASEPOINT_ODD_LOOKUP_TABLE.getD 0 []) == dalekCached EPt.basepoint

/-- the serial odd-multiples table and the radix-256 table agree where they overlap
(`AFFINE_ODD[k] = TABLE[0][2k]` for `k < 4`) -/
def checkTablesOverlap : Bool :=
  [0, 1, 2, 3].all fun k =>
    U64.AFFINE_ODD_MULTIPLES_OF_BASEPOINT.getD k [] ==
      (U64.ED25519_BASEPOINT_TABLE.getD 0 []).getD (2 * k) [[]] &&
    U32.AFFINE_ODD_MULTIPLES_OF_BASEPOINT.getD k [] ==
      (U32.ED25519_BASEPOINT_TABLE.getD 0 []).getD (2 * k) [[]]

/-! ## ff / group constants of `scalar.rs` (C17) -/

def hexDigit (c : Char) : Option Nat :=
  let n := c.toNat
  if 48 ≤ n && n ≤ 57 then some (n - 48)
  else if 97 ≤ n && n ≤ 102 then some (n - 87)
  else if 65 ≤ n && n ≤ 70 then some (n - 55)
  else none

def hexGo : List Char → Nat → Option Nat
  | [], acc => some acc
  | c :: cs, acc =>
    match hexDigit c with
    | some d => hexGo cs (acc * 16 + d)
    | none => none

/-- parse `0x…` (at least one hex digit, nothing else) -/
def parseHex (s : String) : Option Nat :=
  match s.toList with
  | '0' :: 'x' :: c :: cs => hexGo (c :: cs) 0
  | _ => none

def optIs (o : Option Nat) (n : Nat) : Bool :=
  match o with
  | some m => m == n
  | none => false

/-- a canonical scalar literal: 32 bytes denoting an integer `< l` -/
def canonScalar (b : List Nat) : Bool := isBytes 32 b && bytesLE b < L

/-- `t = (l-1)/2^S` -/
def ffT : Nat := (L - 1) / 2 ^ ScalarRs.S
/-- `g = MULTIPLICATIVE_GENERATOR` -/
def ffG : Nat := bytesLE ScalarRs.MULTIPLICATIVE_GENERATOR

/-- the prime factorisation of `l - 1` as `(prime, multiplicity)` pairs (primality of the entries is
certified separately: they occur in the Pratt certificate of `l`) -/
def lMinusOneFactors : List (Nat × Nat) :=
  [(2, 2), (3, 1), (11, 1), (198211423230930754013084525763697, 1),
   (276602624281642239937218680557139826668747, 1)]

/-- `Π qᵉ = l - 1` -/
def checkLMinusOneFactorisation : Bool :=
  lMinusOneFactors.foldl (fun acc qe => acc * qe.1 ^ qe.2) 1 == L - 1

/-- `MODULUS` (hex string) parses to `l`; the generator's own parse `MODULUS_nat` agrees -/
def checkModulus : Bool := optIs (parseHex ScalarRs.MODULUS) L && ScalarRs.MODULUS_nat == L
/-- `NUM_BITS` = bit length of `l` = 253 -/
def checkNumBits : Bool :=
  ScalarRs.NUM_BITS == 253 && 2 ^ (ScalarRs.NUM_BITS - 1) ≤ L && L < 2 ^ ScalarRs.NUM_BITS
/-- `CAPACITY = NUM_BITS - 1 = 252`, and every `CAPACITY`-bit integer is `< l` -/
def checkCapacity : Bool :=
  ScalarRs.CAPACITY == 252 && ScalarRs.CAPACITY + 1 == ScalarRs.NUM_BITS && 2 ^ ScalarRs.CAPACITY ≤ L
/-- `ZERO`, `ONE` (inherent and `Field::`) -/
def checkZeroOne : Bool :=
  canonScalar ScalarRs.ZERO && bytesLE ScalarRs.ZERO == 0 &&
  canonScalar ScalarRs.ONE && bytesLE ScalarRs.ONE == 1 &&
  ScalarRs.Field_ZERO == ScalarRs.ZERO && ScalarRs.Field_ONE == ScalarRs.ONE
/-- `TWO_INV · 2 = 1` -/
def checkTwoInv : Bool :=
  canonScalar ScalarRs.TWO_INV && smul (bytesLE ScalarRs.TWO_INV) 2 == 1
/-- `S = 2`: `l - 1 = 2^S · t` with `t` odd -/
def checkS : Bool :=
  ScalarRs.S == 2 && 2 ^ ScalarRs.S * ffT == L - 1 && ffT % 2 == 1
/-- `g = MULTIPLICATIVE_GENERATOR` is a generator of `(Z/l)ˣ`: `g ≠ 0`, `g^(l-1) = 1`, and
`g^((l-1)/q) ≠ 1` for every `q` in `lMinusOneFactors` (each of which divides `l - 1`) -/
def checkGenerator : Bool :=
  canonScalar ScalarRs.MULTIPLICATIVE_GENERATOR && ffG != 0 &&
  spow ffG (L - 1) == 1 &&
  lMinusOneFactors.all (fun qe => (L - 1) % qe.1 == 0 && spow ffG ((L - 1) / qe.1) != 1)
/-- `ROOT_OF_UNITY = g^t`, of exact order `2^S` -/
def checkRootOfUnity : Bool :=
  canonScalar ScalarRs.ROOT_OF_UNITY &&
  bytesLE ScalarRs.ROOT_OF_UNITY == spow ffG ffT &&
  spow (bytesLE ScalarRs.ROOT_OF_UNITY) (2 ^ ScalarRs.S) == 1 &&
  spow (bytesLE ScalarRs.ROOT_OF_UNITY) (2 ^ (ScalarRs.S - 1)) != 1
/-- `ROOT_OF_UNITY_INV · ROOT_OF_UNITY = 1` -/
def checkRootOfUnityInv : Bool :=
  canonScalar ScalarRs.ROOT_OF_UNITY_INV &&
  smul (bytesLE ScalarRs.ROOT_OF_UNITY_INV) (bytesLE ScalarRs.ROOT_OF_UNITY) == 1
/-- `DELTA = g^(2^S)` -/
def checkDelta : Bool :=
  canonScalar ScalarRs.DELTA && bytesLE ScalarRs.DELTA == spow ffG (2 ^ ScalarRs.S)
/-- the exponent limbs handed to `sqrt_tonelli_shanks` denote `(t - 1)/2` -/
def checkTonelliExponent : Bool :=
  ScalarRs.sqrt_tonelli_shanks_exponent.length == 4 &&
  allLt (2 ^ 64) ScalarRs.sqrt_tonelli_shanks_exponent &&
  limbs64 ScalarRs.sqrt_tonelli_shanks_exponent == (ffT - 1) / 2 &&
  2 * limbs64 ScalarRs.sqrt_tonelli_shanks_exponent + 1 == ffT

/-! ## Reports for the driver -/

def withPrefix (p : String) (l : List (String × Bool)) : List (String × Bool) :=
  l.map (fun nb => (p ++ nb.1, nb.2))

/-- every C12 check, by name -/
def reportC12 : List (String × Bool) :=
  withPrefix "u64." (fieldChecks val51 u64Consts) ++
  withPrefix "u32." (fieldChecks val26 u32Consts) ++
  [ ("u64.field_consts_canonical", checkFieldCanon51 u64Consts),
    ("u32.field_consts_canonical", checkFieldCanon26 u32Consts),
    ("field_consts_repr_agree", checkFieldReprAgree),
    ("u64.spec_consts", checkSpecConsts val51 u64Consts),
    ("u32.spec_consts", checkSpecConsts val26 u32Consts),
    ("u64.L", checkL52), ("u32.L", checkL29),
    ("u64.R", checkR52), ("u32.R", checkR29),
    ("u64.RR", checkRR52), ("u32.RR", checkRR29),
    ("u64.LFACTOR", checkLFACTOR52), ("u32.LFACTOR", checkLFACTOR29),
    ("BASEPOINT_ORDER", checkBasepointOrder),
    ("scalar_consts_repr_agree", checkScalarReprAgree),
    ("avx2.P_TIMES_2", checkPTimes2), ("avx2.P_TIMES_16", checkPTimes16),
    ("avx2.IDENTITY", checkAvx2Identity), ("ifma.IDENTITY", checkIfmaIdentity),
    ("u64.ED25519_BASEPOINT_POINT", checkBasepoint val51 canon51 U64.ED25519_BASEPOINT_POINT),
    ("u32.ED25519_BASEPOINT_POINT", checkBasepoint val26 canon26 U32.ED25519_BASEPOINT_POINT),
    ("u64.basepoint_order", checkBasepointOrderL val51 U64.ED25519_BASEPOINT_POINT),
    ("u32.basepoint_order", checkBasepointOrderL val26 U32.ED25519_BASEPOINT_POINT),
    ("u64.EIGHT_TORSION", checkEightTorsion val51 canon51 U64.EIGHT_TORSION),
    ("u32.EIGHT_TORSION", checkEightTorsion val26 canon26 U32.EIGHT_TORSION),
    ("ED25519_BASEPOINT_COMPRESSED", checkBasepointCompressed),
    ("X25519_BASEPOINT", checkX25519Basepoint),
    ("RISTRETTO_BASEPOINT_COMPRESSED", checkRistrettoBasepointCompressed),
    ("ed25519.lengths", checkEdLengths),
    ("u64.ED25519_BASEPOINT_TABLE", checkBasepointTable val51 U64.ED25519_BASEPOINT_TABLE),
    ("u32.ED25519_BASEPOINT_TABLE", checkBasepointTable val26 U32.ED25519_BASEPOINT_TABLE),
    ("u64.AFFINE_ODD_MULTIPLES_OF_BASEPOINT", checkOddTable val51 U64.AFFINE_ODD_MULTIPLES_OF_BASEPOINT),
    ("u32.AFFINE_ODD_MULTIPLES_OF_BASEPOINT", checkOddTable val26 U32.AFFINE_ODD_MULTIPLES_OF_BASEPOINT),
    ("avx2.BASEPOINT_ODD_LOOKUP_TABLE", checkCachedTable laneAvx2 Avx2.BASEPOINT_ODD_LOOKUP_TABLE),
    ("ifma.BASEPOINT_ODD_LOOKUP_TABLE", checkCachedTable laneIfma Ifma.BASEPOINT_ODD_LOOKUP_TABLE),
    ("serial_table_ranges", checkTableRanges),
    ("vector_table_ranges", checkVectorTableRanges),
    ("point_repr_agree", checkPointReprAgree),
    ("vector_repr_agree", checkVectorReprAgree),
    ("tables_overlap", checkTablesOverlap) ]

/-- every C17 constants check, by name -/
def reportC17 : List (String × Bool) :=
  [ ("MODULUS", checkModulus), ("NUM_BITS", checkNumBits), ("CAPACITY", checkCapacity),
    ("ZERO_ONE", checkZeroOne), ("TWO_INV", checkTwoInv), ("S", checkS),
    ("l_minus_one_factorisation", checkLMinusOneFactorisation),
    ("MULTIPLICATIVE_GENERATOR", checkGenerator),
    ("ROOT_OF_UNITY", checkRootOfUnity), ("ROOT_OF_UNITY_INV", checkRootOfUnityInv),
    ("DELTA", checkDelta), ("sqrt_tonelli_shanks_exponent", checkTonelliExponent) ]

/-- **Diagnosis**: every check by name (C12 then C17, the latter prefixed `ff.`) -/
def report : List (String × Bool) := reportC12 ++ withPrefix "ff." reportC17

/-- **Diagnosis**: for each table, the failing entry indices: semantic failures (wrong multiple) and,
under the name suffixed `.range`, limb-range failures.  All lists are empty when everything is right. -/
def tableFailures : List (String × List (Nat × Nat)) :=
  [ ("u64.ED25519_BASEPOINT_TABLE", failingEntries val51 U64.ED25519_BASEPOINT_TABLE),
    ("u32.ED25519_BASEPOINT_TABLE", failingEntries val26 U32.ED25519_BASEPOINT_TABLE),
    ("u64.AFFINE_ODD_MULTIPLES_OF_BASEPOINT", failingOddEntries val51 U64.AFFINE_ODD_MULTIPLES_OF_BASEPOINT),
    ("u32.AFFINE_ODD_MULTIPLES_OF_BASEPOINT", failingOddEntries val26 U32.AFFINE_ODD_MULTIPLES_OF_BASEPOINT),
    ("avx2.BASEPOINT_ODD_LOOKUP_TABLE", failingCachedEntries laneAvx2 Avx2.BASEPOINT_ODD_LOOKUP_TABLE),
    ("ifma.BASEPOINT_ODD_LOOKUP_TABLE", failingCachedEntries laneIfma Ifma.BASEPOINT_ODD_LOOKUP_TABLE),
    ("u64.EIGHT_TORSION",
      torsionFails val51 canon51 (decodePt val51 (U64.EIGHT_TORSION.getD 1 [])) U64.EIGHT_TORSION 0 EPt.zero),
    ("u32.EIGHT_TORSION",
      torsionFails val26 canon26 (decodePt val26 (U32.EIGHT_TORSION.getD 1 [])) U32.EIGHT_TORSION 0 EPt.zero),
    ("u64.ED25519_BASEPOINT_TABLE.range", rangeFails2 nielsRange51 U64.ED25519_BASEPOINT_TABLE 0),
    ("u32.ED25519_BASEPOINT_TABLE.range", rangeFails2 nielsRange26 U32.ED25519_BASEPOINT_TABLE 0),
    ("u64.AFFINE_ODD_MULTIPLES_OF_BASEPOINT.range", rangeFails1 nielsRange51 U64.AFFINE_ODD_MULTIPLES_OF_BASEPOINT),
    ("u32.AFFINE_ODD_MULTIPLES_OF_BASEPOINT.range", rangeFails1 nielsRange26 U32.AFFINE_ODD_MULTIPLES_OF_BASEPOINT),
    ("avx2.BASEPOINT_ODD_LOOKUP_TABLE.range", rangeFails1 (avx2Bounded 7) Avx2.BASEPOINT_ODD_LOOKUP_TABLE),
    ("ifma.BASEPOINT_ODD_LOOKUP_TABLE.range", rangeFails1 ifmaReduced Ifma.BASEPOINT_ODD_LOOKUP_TABLE) ]

/-- names of the failing checks -/
def failedChecks : List String := (report.filter (fun nb => !nb.2)).map (fun nb => nb.1)

end Dalek.Model.ConstCheck

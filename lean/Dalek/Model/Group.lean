/-
  Dalek.Model.Group — model of the `ff` / `group` trait implementations of curve25519-dalek
  (scalar.rs `impl Field/PrimeField for Scalar`, edwards.rs / ristretto.rs `GroupEncoding`,
  `CofactorGroup`).  `sqrt` is `ff::helpers::sqrt_tonelli_shanks` (ff 0.13.1) transcribed so that
  the SAME root is returned.
-/
import Dalek.Spec.Edwards
import Dalek.Spec.Ristretto

namespace Dalek.Model.Group
open Dalek.Spec

/-! ### `PrimeField` constants of `Scalar` -/

/-- `MODULUS` string without the `0x` prefix. -/
def MODULUS_HEX : String := "1000000000000000000000000000000014def9dea2f79cd65812631a5cf5d3ed"
def NUM_BITS : Nat := 253
def CAPACITY : Nat := 252
def TWO_INV : Nat :=
  3618502788666131106986593281521497120428558179689953803000975469142727125495
def MULTIPLICATIVE_GENERATOR : Nat := 2
/-- `ℓ - 1 = 2^S · t`, `t` odd. -/
def S : Nat := 2
/-- `GENERATOR^t`, a primitive `2^S`-th root of unity. -/
def ROOT_OF_UNITY : Nat :=
  4202356475871964119699734399548423449193549369991576068503119564443318355924
def ROOT_OF_UNITY_INV : Nat :=
  3034649101460298094273452163494570791663566989388331537498831373842135895065
/-- `GENERATOR^(2^S)` -/
def DELTA : Nat := 16

/-- `(t - 1)/2`: the exponent passed to `sqrt_tonelli_shanks` in scalar.rs, i.e. the little-endian
  `u64` limbs `[0xcb024c634b9eba7d, 0x029bdf3bd45ef39a, 0, 0x0200000000000000]`. -/
def TM1D2 : Nat :=
  0xcb024c634b9eba7d + 0x029bdf3bd45ef39a * 2^64 + 0 * 2^128 + 0x0200000000000000 * 2^192

/-! ### `sqrt_tonelli_shanks` -/

/-- State of the inner `for j in 2..max_v` loop. -/
structure Inner where
  k : Nat
  b2k : Nat
  jLessThanV : Bool
  z : Nat

def innerStep (v : Nat) (s : Inner) (j : Nat) : Inner :=
  let b2kIsOne := s.b2k == 1
  let squared := smul (if b2kIsOne then s.z else s.b2k) (if b2kIsOne then s.z else s.b2k)
  let b2k := if b2kIsOne then s.b2k else squared
  let newZ := if b2kIsOne then squared else s.z
  let jLessThanV := s.jLessThanV && !(j == v)
  let k := if b2kIsOne then s.k else j
  let z := if jLessThanV then newZ else s.z
  { k, b2k, jLessThanV, z }

/-- State of the outer `for max_v in (1..=S).rev()` loop. -/
structure Outer where
  v : Nat
  x : Nat
  b : Nat
  z : Nat

def outerStep (s : Outer) (maxV : Nat) : Outer :=
  let inner0 : Inner := { k := 1, b2k := smul s.b s.b, jLessThanV := true, z := s.z }
  -- `for j in 2..max_v`
  let inner := ((List.range maxV).drop 2).foldl (innerStep s.v) inner0
  let z := inner.z
  let result := smul s.x z
  let x := if s.b == 1 then s.x else result
  let z := smul z z
  let b := smul s.b z
  { v := inner.k, x, b, z }

/-- `ff::helpers::sqrt_tonelli_shanks(f, TM1D2)` for the scalar field. -/
def sqrt (f : Nat) : Option Nat :=
  let f := f % L
  let w := spow f TM1D2
  let x := smul w f
  let b := smul x w
  let s0 : Outer := { v := S, x, b, z := ROOT_OF_UNITY }
  -- `(1..=S).rev()`
  let s := ((List.range (S + 1)).drop 1).reverse.foldl outerStep s0
  if smul s.x s.x == f then some s.x else none

/-- `Field::invert`: `None` iff zero. -/
def invert (a : Nat) : Option Nat := if a % L == 0 then none else some (sinv a)

/-- `ff::helpers::sqrt_ratio_generic(num, div)`. -/
def sqrtRatio (num div : Nat) : Bool × Nat :=
  let num := num % L
  let div := div % L
  let a := smul ((invert div).getD 0) num
  let b := smul a ROOT_OF_UNITY
  let sqrtA := sqrt a
  let sqrtB := sqrt b
  let numIsZero := num == 0
  let divIsZero := div == 0
  let isSquare := sqrtA.isSome
  (isSquare && (numIsZero || !divIsZero), ((if isSquare then sqrtA else sqrtB).getD 0))

/-- `PrimeField::from_repr` / `from_repr_vartime`: canonical bytes only. -/
def fromRepr (b : List UInt8) : Option Nat :=
  if isCanonicalScalar b then some (leToNat b) else none

/-! ### `GroupEncoding` / `CofactorGroup` -/

/-- `<EdwardsPoint as GroupEncoding>::from_bytes` (= `from_bytes_unchecked`). -/
def edFromBytes (b : List UInt8) : Option Pt := decompress b

/-- `<SubgroupPoint as GroupEncoding>::from_bytes`. -/
def subFromBytes (b : List UInt8) : Option Pt :=
  match decompress b with
  | some p => if isTorsionFree p then some p else none
  | none => none

/-- `<RistrettoPoint as GroupEncoding>::from_bytes`. -/
def risFromBytes (b : List UInt8) : Option Pt := Ristretto.decode b

/-- `CofactorGroup::into_subgroup`. -/
def intoSubgroup (p : Pt) : Option Pt := if isTorsionFree p then some p else none

/-- `CofactorGroup::clear_cofactor`. -/
def clearCofactor (p : Pt) : Pt := Pt.smul 8 p

end Dalek.Model.Group

/-
  Dalek.Model.Serde — what `bincode 1.3.3` (`bincode::serialize` / `bincode::deserialize`: fixed-width
  integers, little endian, TRAILING BYTES ALLOWED) and `serde_json 1.0` (`to_vec` / `from_slice`)
  produce and accept for the serde impls of the workspace.

  * `Scalar`, `EdwardsPoint`, `CompressedEdwardsY`, `RistrettoPoint`, `CompressedRistretto`
    (hand-written impls), `MontgomeryPoint`, `x25519::PublicKey`, `x25519::StaticSecret`
    (derived newtypes over `[u8; 32]`) and `ed25519::Signature` (64) serialise as a TUPLE of `u8`:
    bincode = the raw bytes, JSON = `[n,n,…]`; deserialisation reads exactly that many elements.
  * `VerifyingKey`, `SigningKey` use `serialize_bytes` / `deserialize_bytes`:
    bincode = `u64` LE length ++ bytes; JSON out = `[n,n,…]`; JSON in = array (via `visit_seq`)
    or a JSON string whose raw bytes are taken (via `visit_bytes`).
  * `de` applies the native validity rule: canonical scalar; decompressible Edwards / Ristretto
    point; `VerifyingKey::from_bytes`; none for the other types (`ed25519::Signature`'s
    `Deserialize` performs NO check of `R` or `S`).
-/
import Dalek.Spec.Edwards
import Dalek.Spec.Ristretto

namespace Dalek.Model.Serde
open Dalek.Spec

inductive Ty
  | scalar | edwards | cedwards | ristretto | cristretto | montgomery | vk | sk | sig | xpub | xstatic
  deriving DecidableEq, Repr

def Ty.ofString : String → Option Ty
  | "scalar" => some .scalar | "edwards" => some .edwards | "cedwards" => some .cedwards
  | "ristretto" => some .ristretto | "cristretto" => some .cristretto
  | "montgomery" => some .montgomery | "vk" => some .vk | "sk" => some .sk | "sig" => some .sig
  | "xpub" => some .xpub | "xstatic" => some .xstatic | _ => none

/-- Length of the native byte representation. -/
def Ty.len : Ty → Nat
  | .sig => 64
  | _ => 32

/-- Types going through `serialize_bytes` / `deserialize_bytes`. -/
def Ty.bytesStyle : Ty → Bool
  | .vk | .sk => true
  | _ => false

/-- Native validity rule applied to `len` bytes; the result is the re-serialised native form. -/
def validate (ty : Ty) (b : List UInt8) : Option (List UInt8) :=
  if b.length != ty.len then none
  else match ty with
    | .scalar => if isCanonicalScalar b then some b else none
    | .edwards => (decompress b).map compress
    | .ristretto => (Ristretto.decode b).map Ristretto.encode
    | .vk => (decompress b).map fun _ => b
    | _ => some b

inductive DeResult
  | ok (native : List UInt8)
  | err
  /-- input outside the modelled fragment -/
  | skip
  deriving DecidableEq, Repr

def ofOption : Option (List UInt8) → DeResult
  | some b => .ok b
  | none => .err

/-! ### bincode -/

def bincodeSer (ty : Ty) (native : List UInt8) : List UInt8 :=
  if ty.bytesStyle then natToLe native.length 8 ++ native else native

/-- `bincode::deserialize::<T>(input)`; bytes after the value are ignored. -/
def bincodeDe (ty : Ty) (input : List UInt8) : DeResult :=
  if ty.bytesStyle then
    if input.length < 8 then .err
    else
      let n := leToNat (input.take 8)
      let rest := input.drop 8
      if rest.length < n then .err            -- UnexpectedEof
      else ofOption (validate ty (rest.take n))   -- `visit_bytes`: length must be 32
  else
    if input.length < ty.len then .err
    else ofOption (validate ty (input.take ty.len))

/-! ### JSON -/

def natToDec (n : Nat) : List UInt8 := (toString n).toUTF8.toList

def intercalateBytes (sep : UInt8) : List (List UInt8) → List UInt8
  | [] => []
  | [x] => x
  | x :: xs => x ++ sep :: intercalateBytes sep xs

/-- `serde_json::to_vec`: compact array of numbers. -/
def jsonSer (_ty : Ty) (native : List UInt8) : List UInt8 :=
  [0x5b] ++ intercalateBytes 0x2c (native.map fun b => natToDec b.toNat) ++ [0x5d]

def isWs (c : UInt8) : Bool := c == 0x20 || c == 0x0a || c == 0x09 || c == 0x0d
def isDigit (c : UInt8) : Bool := 0x30 ≤ c && c ≤ 0x39

def skipWs : List UInt8 → List UInt8
  | [] => []
  | c :: cs => if isWs c then skipWs cs else c :: cs

/-- Longest prefix of decimal digits: `(value, number of digits, rest)`. -/
def takeDigits : List UInt8 → Nat → Nat → Nat × Nat × List UInt8
  | [], acc, n => (acc, n, [])
  | c :: cs, acc, n =>
    if isDigit c then takeDigits cs (acc * 10 + (c.toNat - 0x30)) (n + 1) else (acc, n, c :: cs)

inductive Num
  | u8 (v : UInt8)
  /-- anything else: a JSON number that is not a `u8` (negative, > 255, fraction, exponent), or a
  malformed number token; in both cases `serde_json` raises an error at a definite position -/
  | other

/-- `Deserializer::parse_integer` + `parse_number` + `parse_decimal` + `parse_exponent` of
  serde_json 1.0.151 as far as the READER POSITION is concerned: returns the classification and
  the unread rest of the input at the moment `u8::deserialize` returns. -/
def parseNumber (s : List UInt8) : Num × List UInt8 :=
  let (negative, s) := match s with
    | 0x2d :: r => (true, r)
    | _ => (false, s)
  -- integer part: `next_char` consumes one character unconditionally
  match s with
  | [] => (.other, [])
  | c :: r =>
    let intPart : Option (Nat × List UInt8) × List UInt8 :=
      if c == 0x30 then
        match r with
        | d :: _ => if isDigit d then (none, r) else (some (0, r), r)   -- leading zero: error AT the digit
        | [] => (some (0, r), r)
      else if isDigit c then
        let (v, _, r') := takeDigits (c :: r) 0 0
        (some (v, r'), r')
      else (none, r)                                                    -- the bad character is consumed
    match intPart with
    | (none, pos) => (.other, pos)
    | (some (v, s), _) =>
      -- fraction: `.` must be followed by a digit, else error at (not after) the next character
      let frac : Option (Bool × List UInt8) × List UInt8 := match s with
        | 0x2e :: r =>
          let (_, n, r') := takeDigits r 0 0
          if n == 0 then (none, r) else (some (true, r'), r')
        | _ => (some (false, s), s)
      match frac with
      | (none, pos) => (.other, pos)
      | (some (hasFrac, s), _) =>
        -- exponent: after `e`, optional sign, one character is consumed and must be a digit
        let exp : Option (Bool × List UInt8) × List UInt8 := match s with
          | c :: r =>
            if c == 0x65 || c == 0x45 then
              let r := match r with
                | 0x2b :: r' => r'
                | 0x2d :: r' => r'
                | _ => r
              match r with
              | [] => (none, [])
              | d :: r' =>
                if isDigit d then
                  let (_, _, r'') := takeDigits r' 0 0
                  (some (true, r''), r'')
                else (none, r')
            else (some (false, s), s)
          | [] => (some (false, s), s)
        match exp with
        | (none, pos) => (.other, pos)
        | (some (hasExp, s), _) =>
          if !negative && !hasFrac && !hasExp && v ≤ 255 then (.u8 (UInt8.ofNat v), s)
          else (.other, s)

/-- Outcome of `SeqAccess::next_element::<u8>()`, with the reader position afterwards. -/
inductive Elem
  | val (v : UInt8) (rest : List UInt8)
  /-- `]` seen (not consumed): `Ok(None)` -/
  | close (rest : List UInt8)
  /-- `,` followed by `]`: `Err(TrailingComma)`; the reader is AT the `]` -/
  | trailingComma (rest : List UInt8)
  /-- an error; `rest` is the unread input at that moment -/
  | bad (rest : List UInt8)
  /-- reader position not modelled (`\u` escapes) -/
  | unmodelled
  | eof

/-- `parse_ident`: each expected character is consumed by `next_char` and compared. -/
def parseIdent : List UInt8 → List UInt8 → List UInt8
  | [], s => s
  | _ :: _, [] => []
  | e :: es, c :: cs => if c == e then parseIdent es cs else cs

/-- Position after `parse_str` (validating flavour) has run on the body of a string: `none` for
  `\u` escapes (not modelled). -/
def skipString : List UInt8 → Option (List UInt8)
  | [] => some []
  | c :: cs =>
    if c == 0x22 then some cs                       -- closing quote (UTF-8 errors come after it)
    else if c == 0x5c then
      match cs with
      | [] => some []
      | e :: cs' =>
        if e == 0x75 then none
        else if e == 0x22 || e == 0x5c || e == 0x2f || e == 0x62 || e == 0x66 || e == 0x6e
                || e == 0x72 || e == 0x74 then skipString cs'
        else some cs'                               -- InvalidEscape, raised after consuming `e`
    else if c < 0x20 then some cs                   -- control character: consumed, then error
    else skipString cs

/-- `u8::deserialize` at the start of a value (whitespace already skipped). -/
def parseValue (s : List UInt8) : Elem :=
  match s with
  | [] => .eof
  | c :: r =>
    if c == 0x2d || isDigit c then
      match parseNumber s with
      | (.u8 v, r) => .val v r
      | (.other, r) => .bad r
    -- `peek_invalid_type`: literals and strings are consumed before the error is built
    else if c == 0x6e then .bad (parseIdent "ull".toUTF8.toList r)
    else if c == 0x74 then .bad (parseIdent "rue".toUTF8.toList r)
    else if c == 0x66 then .bad (parseIdent "alse".toUTF8.toList r)
    else if c == 0x22 then
      match skipString r with
      | some r' => .bad r'
      | none => .unmodelled
    else .bad s                                     -- `[`, `{`, anything else: nothing consumed

def nextElem (first : Bool) (s : List UInt8) : Elem :=
  match skipWs s with
  | [] => .eof
  | c :: r =>
    if c == 0x5d then .close (c :: r)
    else if c == 0x2c && !first then
      match skipWs r with
      | [] => .eof
      | c' :: r' => if c' == 0x5d then .trailingComma (c' :: r') else parseValue (c' :: r')
    else if first then parseValue (c :: r)
    else .bad (c :: r)

/-- Read exactly `n` `u8` elements. -/
def readElems : Nat → Bool → List UInt8 → Option (List UInt8 × List UInt8)
  | 0, _, s => some ([], s)
  | n + 1, first, s =>
    match nextElem first s with
    | .val v r => (readElems n false r).map fun (vs, r') => (v :: vs, r')
    | _ => none

/-- `Deserializer::end_seq` followed by `Deserializer::end` (only whitespace may follow). -/
def endSeqAndEnd (s : List UInt8) : Bool :=
  match skipWs s with
  | c :: r => c == 0x5d && (skipWs r).isEmpty
  | [] => false

/-- Where the `remaining` loop of the `VerifyingKey`/`SigningKey` visitor stops:
  `(number of further valid elements, reader position)`; `none` = not modelled. -/
def countRemaining : Nat → Nat → List UInt8 → Option (Nat × List UInt8)
  | 0, cnt, s => some (cnt, s)
  | fuel + 1, cnt, s =>
    match nextElem false s with
    | .val _ r => countRemaining fuel (cnt + 1) r
    | .close r => some (cnt, r)
    | .trailingComma r => some (cnt, r)
    | .bad r => some (cnt, r)
    | .eof => some (cnt, [])
    | .unmodelled => none

/-- `parse_str_raw` on the body of a JSON string: the unescaped bytes and the rest after the
  closing quote.  No UTF-8 or control-character validation in this flavour.  `none`: error (EOF,
  invalid escape); `some none`: a `\u` escape (not modelled). -/
def readRawString : List UInt8 → List UInt8 → Option (Option (List UInt8 × List UInt8))
  | [], _ => none
  | c :: cs, acc =>
    if c == 0x22 then some (some (acc.reverse, cs))
    else if c == 0x5c then
      match cs with
      | [] => none
      | e :: cs' =>
        if e == 0x75 then some none
        else if e == 0x22 || e == 0x5c || e == 0x2f then readRawString cs' (e :: acc)
        else if e == 0x62 then readRawString cs' (0x08 :: acc)
        else if e == 0x66 then readRawString cs' (0x0c :: acc)
        else if e == 0x6e then readRawString cs' (0x0a :: acc)
        else if e == 0x72 then readRawString cs' (0x0d :: acc)
        else if e == 0x74 then readRawString cs' (0x09 :: acc)
        else none
    else readRawString cs (c :: acc)

/-- `serde_json::from_slice::<T>(input)`. -/
def jsonDe (ty : Ty) (input : List UInt8) : DeResult :=
  match skipWs input with
  | [] => .err
  | c :: body =>
    if c == 0x5b then
      match readElems ty.len true body with
      | none => .err
      | some (bytes, rest) =>
        if ty.bytesStyle then
          -- `visit_seq` of the key visitors: count the remaining well-formed elements, swallowing
          -- the error (if any) that ends the count; then `end_seq` runs at the reader position.
          match countRemaining (rest.length + 1) 0 rest with
          | none => .skip
          | some (cnt, pos) =>
            if cnt > 0 then .err
            else match validate ty bytes with
              | none => .err
              | some native => if endSeqAndEnd pos then .ok native else .err
        else
          match validate ty bytes with
          | none => .err
          | some native => if endSeqAndEnd rest then .ok native else .err
    else if c == 0x22 && ty.bytesStyle then
      match readRawString body [] with
      | none => .err
      | some none => .skip
      | some (some (bytes, rest)) =>
        match validate ty bytes with
        | none => .err
        | some native => if (skipWs rest).isEmpty then .ok native else .err
    else .err

end Dalek.Model.Serde

/-
  Dalek.Model.Serde — what `bincode 1.3.3` (`bincode::serialize` / `bincode::deserialize`: fixed-width
  integers, little endian, TRAILING BYTES ALLOWED) and `serde_json 1.0` (`to_vec` / `from_slice`)
  produce and accept for the serde impls of the workspace.

  * `Scalar`, `EdwardsPoint`, `CompressedEdwardsY`, `RistrettoPoint`, `CompressedRistretto`
    (hand-written impls), `MontgomeryPoint`, `x25519::PublicKey`, `x25519::StaticSecret`
    (derived newtypes over `[u8; 32]`) and `ed25519::Signature` (64) serialise as a TUPLE of `u8`:
    bincode = the raw bytes, JSON = `[n,n,…]`; deserialisation reads exactly that many elements.
  * `VerifyingKey`, `SigningKey` use `serialize_bytes` / `deserialize_bytes`:
    bincode = `u64` LE length ++ bytes; JSON out = `[n,n,…]`; JSON in = array (via `visit_seq`)
    or a JSON string whose raw bytes are taken (via `visit_bytes`).
  * `de` applies the native validity rule: canonical scalar; decompressible Edwards / Ristretto
    point; `VerifyingKey::from_bytes`; none for the other types (`ed25519::Signature`'s
    `Deserialize` performs NO check of `R` or `S`).
-/
import Dalek.Spec.Edwards
import Dalek.Spec.Ristretto

namespace Dalek.Model.Serde
open Dalek.Spec

inductive Ty
  | scalar | edwards | cedwards | ristretto | cristretto | montgomery | vk | sk | sig | xpub | xstatic
  deriving DecidableEq, Repr

def Ty.ofString : String → Option Ty
  | "scalar" => some .scalar | "edwards" => some .edwards | "cedwards" => some .cedwards
  | "ristretto" => some .ristretto | "cristretto" => some .cristretto
  | "montgomery" => some .montgomery | "vk" => some .vk | "sk" => some .sk | "sig" => some .sig
  | "xpub" => some .xpub | "xstatic" => some .xstatic | _ => none

/-- Length of the native byte representation. -/
def Ty.len : Ty → Nat
  | .sig => 64
  | _ => 32

/-- Types going through `serialize_bytes` / `deserialize_bytes`. -/
def Ty.bytesStyle : Ty → Bool
  | .vk | .sk => true
  | _ => false

/-- Native validity rule applied to `len` bytes; the result is the re-serialised native form. -/
def validate (ty : Ty) (b : List UInt8) : Option (List UInt8) :=
  if b.length != ty.len then none
  else match ty with
    | .scalar => if isCanonicalScalar b then some b else none
    | .edwards => (decompress b).map compress
    | .ristretto => (Ristretto.decode b).map Ristretto.encode
    | .vk => (decompress b).map fun _ => b
    | _ => some b

inductive DeResult
  | ok (native : List UInt8)
  | err
  /-- input outside the modelled fragment -/
  | skip
  deriving DecidableEq, Repr

def ofOption : Option (List UInt8) → DeResult
  | some b => .ok b
  | none => .err

/-! ### bincode -/

def bincodeSer (ty : Ty) (native : List UInt8) : List UInt8 :=
  if ty.bytesStyle then natToLe native.length 8 ++ native else native

/-- `bincode::deserialize::<T>(input)`; bytes after the value are ignored. -/
def bincodeDe (ty : Ty) (input : List UInt8) : DeResult :=
  if ty.bytesStyle then
    if input.length < 8 then .err
    else
      let n := leToNat (input.take 8)
      let rest := input.drop 8
      if rest.length < n then .err            -- UnexpectedEof
      else ofOption (validate ty (rest.take n))   -- `visit_bytes`: length must be 32
  else
    if input.length < ty.len then .err
    else ofOption (validate ty (input.take ty.len))

/-! ### JSON -/

def natToDec (n : Nat) : List UInt8 := (toString n).toUTF8.toList

def intercalateBytes (sep : UInt8) : List (List UInt8) → List UInt8
  | [] => []
  | [x] => x
  | x :: xs => x ++ sep :: intercalateBytes sep xs

/-- `serde_json::to_vec`: compact array of numbers. -/
def jsonSer (_ty : Ty) (native : List UInt8) : List UInt8 :=
  [0x5b] ++ intercalateBytes 0x2c (native.map fun b => natToDec b.toNat) ++ [0x5d]

def isWs (c : UInt8) : Bool := c == 0x20 || c == 0x0a || c == 0x09 || c == 0x0d
def isDigit (c : UInt8) : Bool := 0x30 ≤ c && c ≤ 0x39

def skipWs : List UInt8 → List UInt8
  | [] => []
  | c :: cs => if isWs c then skipWs cs else c :: cs

/-- Longest prefix of decimal digits: `(value, number of digits, rest)`. -/
def takeDigits : List UInt8 → Nat → Nat → Nat × Nat × List UInt8
  | [], acc, n => (acc, n, [])
  | c :: cs, acc, n =>
    if isDigit c then takeDigits cs (acc * 10 + (c.toNat - 0x30)) (n + 1) else (acc, n, c :: cs)

/-- A JSON number token that `u8::deserialize` accepts: `0` or `[1-9][0-9]*` with value ≤ 255,
  not continued by a digit (leading zero), a fraction or an exponent.  Everything else (negative
  numbers, floats, `null`, strings, …) is an error. -/
def parseU8 (s : List UInt8) : Option (UInt8 × List UInt8) :=
  let tok : Option (Nat × List UInt8) := match s with
    | 0x30 :: r => some (0, r)
    | c :: _ => if isDigit c then let (v, _, r) := takeDigits s 0 0; some (v, r) else none
    | [] => none
  match tok with
  | none => none
  | some (v, r) =>
    let continued := match r with
      | c :: _ => isDigit c || c == 0x2e || c == 0x65 || c == 0x45
      | [] => false
    if continued || v > 255 then none else some (UInt8.ofNat v, r)

/-- `SeqAccess::next_element::<u8>()` returning `Ok(Some(v))`: optional whitespace, a `,` unless
  this is the first element, optional whitespace, a `u8`.  `none` = end of sequence or error. -/
def nextElem (first : Bool) (s : List UInt8) : Option (UInt8 × List UInt8) :=
  match skipWs s with
  | [] => none
  | c :: r =>
    if first then parseU8 (c :: r)
    else if c == 0x2c then parseU8 (skipWs r)
    else none

/-- Read exactly `n` `u8` elements. -/
def readElems : Nat → Bool → List UInt8 → Option (List UInt8 × List UInt8)
  | 0, _, s => some ([], s)
  | n + 1, first, s =>
    match nextElem first s with
    | some (v, r) => (readElems n false r).map fun (vs, r') => (v :: vs, r')
    | none => none

/-- After the last element: the next token must be `]` (`end_seq`; for `VerifyingKey` /
  `SigningKey` the visitor's own `remaining` loop requires the same, every other continuation
  — more elements of any kind, a trailing comma — is an error), and only whitespace may follow
  (`Deserializer::end`). -/
def endSeqAndEnd (s : List UInt8) : Bool :=
  match skipWs s with
  | c :: r => c == 0x5d && (skipWs r).isEmpty
  | [] => false

/-- `parse_str_raw` on the body of a JSON string: the unescaped bytes and the rest after the
  closing quote.  No UTF-8 or control-character validation in this flavour.  `none`: error (EOF,
  invalid escape); `some none`: a `\u` escape (not modelled). -/
def readRawString : List UInt8 → List UInt8 → Option (Option (List UInt8 × List UInt8))
  | [], _ => none
  | c :: cs, acc =>
    if c == 0x22 then some (some (acc.reverse, cs))
    else if c == 0x5c then
      match cs with
      | [] => none
      | e :: cs' =>
        if e == 0x75 then some none
        else if e == 0x22 || e == 0x5c || e == 0x2f then readRawString cs' (e :: acc)
        else if e == 0x62 then readRawString cs' (0x08 :: acc)
        else if e == 0x66 then readRawString cs' (0x0c :: acc)
        else if e == 0x6e then readRawString cs' (0x0a :: acc)
        else if e == 0x72 then readRawString cs' (0x0d :: acc)
        else if e == 0x74 then readRawString cs' (0x09 :: acc)
        else none
    else readRawString cs (c :: acc)

/-- `serde_json::from_slice::<T>(input)`. -/
def jsonDe (ty : Ty) (input : List UInt8) : DeResult :=
  match skipWs input with
  | [] => .err
  | c :: body =>
    if c == 0x5b then
      match readElems ty.len true body with
      | none => .err
      | some (bytes, rest) =>
        match validate ty bytes with
        | none => .err
        | some native => if endSeqAndEnd rest then .ok native else .err
    else if c == 0x22 && ty.bytesStyle then
      -- `deserialize_bytes` on a JSON string: `visit_bytes` with its raw bytes
      match readRawString body [] with
      | none => .err
      | some none => .skip
      | some (some (bytes, rest)) =>
        match validate ty bytes with
        | none => .err
        | some native => if (skipWs rest).isEmpty then .ok native else .err
    else .err

end Dalek.Model.Serde

/-
  Dalek.Model.Serde — what `bincode 1.3.3` (`bincode::serialize` / `bincode::deserialize`: fixed-width
  integers, little endian, TRAILING BYTES ALLOWED) and `serde_json 1.0` (`to_vec` / `from_slice`)
  produce and accept for the serde impls of the workspace.

  * `Scalar`, `EdwardsPoint`, `CompressedEdwardsY`, `RistrettoPoint`, `CompressedRistretto`
    (hand-written impls), `MontgomeryPoint`, `x25519::PublicKey`, `x25519::StaticSecret`
    (derived newtypes over `[u8; 32]`) and `ed25519::Signature` (64) serialise as a TUPLE of `u8`:
    bincode = the raw bytes, JSON = `[n,n,…]`; deserialisation reads exactly that many elements.
  * `VerifyingKey`, `SigningKey` use `serialize_bytes` / `deserialize_bytes`:
    bincode = `u64` LE length ++ bytes; JSON out = `[n,n,…]`; JSON in = array (via `visit_seq`)
    or a JSON string whose raw bytes are taken (via `visit_bytes`).
  * `de` applies the native validity rule: canonical scalar; decompressible Edwards / Ristretto
    point; `VerifyingKey::from_bytes`; none for the other types (`ed25519::Signature`'s
    `Deserialize` performs NO check of `R` or `S`).
-/
import Dalek.Spec.Edwards
import Dalek.Spec.Ristretto

namespace Dalek.Model.Serde
open Dalek.Spec

inductive Ty
  | scalar | edwards | cedwards | ristretto | cristretto | montgomery | vk | sk | sig | xpub | xstatic
  deriving DecidableEq, Repr

def Ty.ofString : String → Option Ty
  | "scalar" => some .scalar | "edwards" => some .edwards | "cedwards" => some .cedwards
  | "ristretto" => some .ristretto | "cristretto" => some .cristretto
  | "montgomery" => some .montgomery | "vk" => some .vk | "sk" => some .sk | "sig" => some .sig
  | "xpub" => some .xpub | "xstatic" => some .xstatic | _ => none

/-- Length of the native byte representation. -/
def Ty.len : Ty → Nat
  | .sig => 64
  | _ => 32

/-- Types going through `serialize_bytes` / `deserialize_bytes`. -/
def Ty.bytesStyle : Ty → Bool
  | .vk | .sk => true
  | _ => false

/-- Native validity rule applied to `len` bytes; the result is the re-serialised native form. -/
def validate (ty : Ty) (b : List UInt8) : Option (List UInt8) :=
  if b.length != ty.len then none
  else match ty with
    | .scalar => if isCanonicalScalar b then some b else none
    | .edwards => (decompress b).map compress
    | .ristretto => (Ristretto.decode b).map Ristretto.encode
    | .vk => (decompress b).map fun _ => b
    | _ => some b

inductive DeResult
  | ok (native : List UInt8)
  | err
  /-- input outside the modelled fragment -/
  | skip
  deriving DecidableEq, Repr

def ofOption : Option (List UInt8) → DeResult
  | some b => .ok b
  | none => .err

/-! ### bincode -/

def bincodeSer (ty : Ty) (native : List UInt8) : List UInt8 :=
  if ty.bytesStyle then natToLe native.length 8 ++ native else native

/-- `bincode::deserialize::<T>(input)`; bytes after the value are ignored. -/
def bincodeDe (ty : Ty) (input : List UInt8) : DeResult :=
  if ty.bytesStyle then
    if input.length < 8 then .err
    else
      let n := leToNat (input.take 8)
      let rest := input.drop 8
      if rest.length < n then .err            -- UnexpectedEof
      else ofOption (validate ty (rest.take n))   -- `visit_bytes`: length must be 32
  else
    if input.length < ty.len then .err
    else ofOption (validate ty (input.take ty.len))

/-! ### JSON -/

def natToDec (n : Nat) : List UInt8 := (toString n).toUTF8.toList

def intercalateBytes (sep : UInt8) : List (List UInt8) → List UInt8
  | [] => []
  | [x] => x
  | x :: xs => x ++ sep :: intercalateBytes sep xs

/-- `serde_json::to_vec`: compact array of numbers. -/
def jsonSer (_ty : Ty) (native : List UInt8) : List UInt8 :=
  [0x5b] ++ intercalateBytes 0x2c (native.map fun b => natToDec b.toNat) ++ [0x5d]

def isWs (c : UInt8) : Bool := c == 0x20 || c == 0x0a || c == 0x09 || c == 0x0d
def isDigit (c : UInt8) : Bool := 0x30 ≤ c && c ≤ 0x39

def skipWs : List UInt8 → List UInt8
  | [] => []
  | c :: cs => if isWs c then skipWs cs else c :: cs

/-- Longest prefix of decimal digits: `(value, number of digits, rest)`. -/
def takeDigits : List UInt8 → Nat → Nat → Nat × Nat × List UInt8
  | [], acc, n => (acc, n, [])
  | c :: cs, acc, n =>
    if isDigit c then takeDigits cs (acc * 10 + (c.toNat - 0x30)) (n + 1) else (acc, n, c :: cs)

inductive Num
  | u8 (v : UInt8)
  /-- a well-formed JSON number that is not a `u8` (negative, > 255, fraction or exponent) -/
  | other

/-- Scan a JSON number token `-? (0 | [1-9][0-9]*) (\.[0-9]+)? ([eE][+-]?[0-9]+)?`.
  `none`: malformed (e.g. `-`, `1.`, `1e`). A leading `0` ends the integer part. -/
def parseNumber (s : List UInt8) : Option (Num × List UInt8) :=
  let (negative, s) := match s with
    | 0x2d :: r => (true, r)
    | _ => (false, s)
  -- integer part
  let intPart : Option (Nat × List UInt8) := match s with
    | 0x30 :: r => some (0, r)
    | c :: _ => if isDigit c then let (v, _, r) := takeDigits s 0 0; some (v, r) else none
    | [] => none
  match intPart with
  | none => none
  | some (v, s) =>
    -- fraction
    let frac : Option (Bool × List UInt8) := match s with
      | 0x2e :: r => let (_, n, r') := takeDigits r 0 0; if n == 0 then none else some (true, r')
      | _ => some (false, s)
    match frac with
    | none => none
    | some (hasFrac, s) =>
      let exp : Option (Bool × List UInt8) := match s with
        | c :: r =>
          if c == 0x65 || c == 0x45 then
            let r := match r with
              | 0x2b :: r' => r'
              | 0x2d :: r' => r'
              | _ => r
            let (_, n, r') := takeDigits r 0 0
            if n == 0 then none else some (true, r')
          else some (false, s)
        | [] => some (false, s)
      match exp with
      | none => none
      | some (hasExp, s) =>
        if !negative && !hasFrac && !hasExp && v ≤ 255 then some (.u8 (UInt8.ofNat v), s)
        else some (.other, s)

/-- Outcome of `SeqAccess::next_element::<u8>()`, with the reader position afterwards. -/
inductive Elem
  | val (v : UInt8) (rest : List UInt8)
  /-- `]` seen (not consumed): `Ok(None)` -/
  | close (rest : List UInt8)
  /-- `,` followed by `]`: `Err(TrailingComma)`; the reader is AT the `]` -/
  | trailingComma (rest : List UInt8)
  /-- a well-formed number that is not a `u8`: error after consuming the token -/
  | badNum (rest : List UInt8)
  /-- an error raised by peeking; nothing consumed beyond `rest` -/
  | stuck (rest : List UInt8)
  /-- malformed number token: reader position not modelled -/
  | malformed
  | eof

def parseValue (s : List UInt8) : Elem :=
  match s with
  | [] => .eof
  | c :: _ =>
    if c == 0x2d || isDigit c then
      match parseNumber s with
      | some (.u8 v, r) => .val v r
      | some (.other, r) => .badNum r
      | none => .malformed
    else .stuck s

def nextElem (first : Bool) (s : List UInt8) : Elem :=
  match skipWs s with
  | [] => .eof
  | c :: r =>
    if c == 0x5d then .close (c :: r)
    else if c == 0x2c && !first then
      match skipWs r with
      | [] => .eof
      | c' :: r' => if c' == 0x5d then .trailingComma (c' :: r') else parseValue (c' :: r')
    else if first then parseValue (c :: r)
    else .stuck (c :: r)

/-- Read exactly `n` `u8` elements. -/
def readElems : Nat → Bool → List UInt8 → Option (List UInt8 × List UInt8)
  | 0, _, s => some ([], s)
  | n + 1, first, s =>
    match nextElem first s with
    | .val v r => (readElems n false r).map fun (vs, r') => (v :: vs, r')
    | _ => none

/-- `Deserializer::end_seq` followed by `Deserializer::end` (only whitespace may follow). -/
def endSeqAndEnd (s : List UInt8) : Bool :=
  match skipWs s with
  | c :: r => c == 0x5d && (skipWs r).isEmpty
  | [] => false

/-- Where the `remaining` loop of the `VerifyingKey`/`SigningKey` visitor stops:
  `(number of further valid elements, reader position)`; `none` = not modelled. -/
def countRemaining : Nat → Nat → List UInt8 → Option (Nat × List UInt8)
  | 0, cnt, s => some (cnt, s)
  | fuel + 1, cnt, s =>
    match nextElem false s with
    | .val _ r => countRemaining fuel (cnt + 1) r
    | .close r => some (cnt, r)
    | .trailingComma r => some (cnt, r)
    | .badNum r => some (cnt, r)
    | .stuck r => some (cnt, r)
    | .eof => some (cnt, [])
    | .malformed => none

/-- Raw bytes of a JSON string body up to the closing quote; `none` on EOF, `some none` when a
  backslash escape occurs (not modelled). -/
def readRawString : List UInt8 → List UInt8 → Option (Option (List UInt8 × List UInt8))
  | [], _ => none
  | c :: cs, acc =>
    if c == 0x22 then some (some (acc.reverse, cs))
    else if c == 0x5c then some none
    else readRawString cs (c :: acc)

/-- `serde_json::from_slice::<T>(input)`. -/
def jsonDe (ty : Ty) (input : List UInt8) : DeResult :=
  match skipWs input with
  | [] => .err
  | c :: body =>
    if c == 0x5b then
      match readElems ty.len true body with
      | none => .err
      | some (bytes, rest) =>
        if ty.bytesStyle then
          -- `visit_seq` of the key visitors: count the remaining well-formed elements, swallowing
          -- the error (if any) that ends the count; then `end_seq` runs at the reader position.
          match countRemaining (rest.length + 1) 0 rest with
          | none => .skip
          | some (cnt, pos) =>
            if cnt > 0 then .err
            else match validate ty bytes with
              | none => .err
              | some native => if endSeqAndEnd pos then .ok native else .err
        else
          match validate ty bytes with
          | none => .err
          | some native => if endSeqAndEnd rest then .ok native else .err
    else if c == 0x22 && ty.bytesStyle then
      match readRawString body [] with
      | none => .err
      | some none => .skip
      | some (some (bytes, rest)) =>
        match validate ty bytes with
        | none => .err
        | some native => if (skipWs rest).isEmpty then .ok native else .err
    else .err

end Dalek.Model.Serde

/-
  Dalek.Model.Ladder — hand model of the Montgomery ladder of curve25519-dalek
  (`curve25519-dalek/src/montgomery.rs`: `MontgomeryPoint::mul_bits_be`, `Mul<&Scalar>`, `mul_clamped`,
  `mul_base_clamped`, `to_edwards`, `ct_eq`/`is_identity`) and of the x25519-dalek API built on it
  (`x25519-dalek/src/x25519.rs`: `x25519`, `diffie_hellman`, `PublicKey::from(&secret)`,
  `SharedSecret::was_contributory`).

  Only the CONTROL STRUCTURE is written by hand (the loop over the bits, `prev_bit`, the conditional swaps,
  the byte plumbing).  Every field-level formula is the TRANSLATED item of `Dalek.Gen.AlgMontgomery`
  / `Dalek.Gen.AlgEdwards` (regenerated from the Rust source on every run), executed by `AProg.run` over an
  arbitrary interpretation `FOps V`; the executable instance is `natOps`.  Mathlib-free.
-/
import Dalek.Gen.AlgMontgomery
import Dalek.Gen.AlgEdwards
import Dalek.Model.AlgNat
import Dalek.Model.FastEdwards
import Dalek.Spec.Montgomery
import Dalek.Spec.Ed25519

namespace Dalek.Model.Ladder
open Dalek.IR Dalek.Spec

variable {V : Type}

/-- `montgomery.rs` `struct ProjectivePoint { U, W }` -/
structure PPt (V : Type) where
  U : V
  W : V

/-- `Choice::from(b as u8)`: the choice values are the `0`/`1` of the carrier -/
def choiceOf (o : FOps V) (b : Bool) : V := if b then o.const 1 else o.const 0

/-- `ProjectivePoint::identity()` — the translated item -/
def identity (o : FOps V) : PPt V :=
  let r := Dalek.Gen.AlgMontgomery.ProjectivePoint_identity.run o []
  ⟨r.getD 0 o.dflt, r.getD 1 o.dflt⟩

/-- `ProjectivePoint::conditional_select(a, b, choice)` — the translated item -/
def condSelect (o : FOps V) (a b : PPt V) (c : V) : PPt V :=
  let r := Dalek.Gen.AlgMontgomery.ProjectivePoint_conditional_select.run o [a.U, a.W, b.U, b.W, c]
  ⟨r.getD 0 o.dflt, r.getD 1 o.dflt⟩

/-- `ProjectivePoint::conditional_swap(&mut a, &mut b, choice)`: the default method of
`subtle::ConditionallySelectable` (`t = *a; a.conditional_assign(&b, c); b.conditional_assign(&t, c)` with
`conditional_assign(self, other, c) = { *self = conditional_select(self, other, c) }`). -/
def condSwap (o : FOps V) (a b : PPt V) (c : V) : PPt V × PPt V :=
  let t := a
  let a' := condSelect o a b c
  let b' := condSelect o b t c
  (a', b')

/-- `differential_add_and_double(&mut P, &mut Q, &affine_PmQ)` — the translated item -/
def diffAddDouble (o : FOps V) (p q : PPt V) (affinePmQ : V) : PPt V × PPt V :=
  let r := Dalek.Gen.AlgMontgomery.differential_add_and_double.run o [p.U, p.W, q.U, q.W, affinePmQ]
  (⟨r.getD 0 o.dflt, r.getD 1 o.dflt⟩, ⟨r.getD 2 o.dflt, r.getD 3 o.dflt⟩)

/-- `ProjectivePoint::as_affine` before `as_bytes` — the translated item (it inlines `invert`) -/
def asAffine (o : FOps V) (p : PPt V) : V :=
  (Dalek.Gen.AlgMontgomery.ProjectivePoint_as_affine.run o [p.U, p.W]).getD 0 o.dflt

/-- loop state of `mul_bits_be` -/
structure LState (V : Type) where
  x0 : PPt V
  x1 : PPt V
  prev : Bool

/-- one iteration of `for cur_bit in bits { … }` -/
def step (o : FOps V) (affineU : V) (s : LState V) (cur : Bool) : LState V :=
  let (x0, x1) := condSwap o s.x0 s.x1 (choiceOf o (s.prev != cur))
  let (x0, x1) := diffAddDouble o x0 x1 affineU
  ⟨x0, x1, cur⟩

/-- `MontgomeryPoint::mul_bits_be` on the field level: `u = from_bytes(self)`, result before `as_bytes`. -/
def mulBitsBE (o : FOps V) (u : V) (bits : List Bool) : V :=
  let s := bits.foldl (step o u) ⟨identity o, ⟨u, o.const 1⟩, false⟩
  let (x0, _) := condSwap o s.x0 s.x1 (choiceOf o s.prev)
  asAffine o x0

/-! ### byte level (interpretation `natOps`) -/

/-- `MontgomeryPoint::mul_bits_be` -/
def montMulBitsBE (u : List UInt8) (bits : List Bool) : List UInt8 :=
  feToBytes (mulBitsBE natOps (feFromBytes u) bits)

/-- `Scalar::bits_le`: `(0..256).map(|i| ((bytes[i >> 3] >> (i & 7)) & 1) == 1)` -/
def scalarBitsLE (bytes : List UInt8) : List Bool :=
  (List.range 256).map (fun i => ((bytes.getD (i >>> 3) 0 >>> (UInt8.ofNat (i &&& 7))) &&& 1) == 1)

/-- `&MontgomeryPoint * &Scalar`: `self.mul_bits_be(scalar.bits_le().rev().skip(1))` -/
def montMul (u : List UInt8) (scalarBytes : List UInt8) : List UInt8 :=
  montMulBitsBE u ((scalarBitsLE scalarBytes).reverse.drop 1)

/-- `MontgomeryPoint::mul_clamped(self, bytes)`: `Scalar { bytes: clamp_integer(bytes) } * self` -/
def mulClamped (u : List UInt8) (bytes : List UInt8) : List UInt8 :=
  montMul u (clampInteger bytes)

/-- `x25519_dalek::x25519(k, u) = MontgomeryPoint(u).mul_clamped(k).to_bytes()` -/
def dalekX25519 (k u : List UInt8) : List UInt8 := mulClamped u k

/-- `{Ephemeral,Reusable,Static}Secret::diffie_hellman(self, their_public)`:
`SharedSecret(their_public.0.mul_clamped(self.0))`, as bytes -/
def diffieHellman (secret theirPublic : List UInt8) : List UInt8 := mulClamped theirPublic secret

/-- `EdwardsPoint::to_montgomery` — the translated item followed by `as_bytes` -/
def edToMontgomery (e : EPt) : List UInt8 :=
  feToBytes ((Dalek.Gen.AlgEdwards.to_montgomery.run natOps [e.X, e.Y, e.Z, e.T]).getD 0 0)

/-- `PublicKey::from(&secret) = PublicKey(EdwardsPoint::mul_base_clamped(secret.0).to_montgomery())`.
`EdwardsPoint::mul_base` is modelled by its group-level meaning `[n]B` (its agreement with the table-based
implementation is the subject of the Edwards scalar-multiplication properties). -/
def publicKey (secret : List UInt8) : List UInt8 :=
  edToMontgomery (EPt.smul (leToNat (clampInteger secret)) EPt.basepoint)

/-- ed25519-dalek `SigningKey::to_scalar_bytes`: the low half of `SHA-512(seed)` (unclamped) -/
def toScalarBytes (seed : List UInt8) : List UInt8 := (sha512 seed).take 32

/-- ed25519-dalek `VerifyingKey::to_montgomery` of the verifying key of `seed`: the key's point is
`mul_base(clamp(lo) mod ℓ)` (`ExpandedSecretKey::from_bytes` reduces the clamped integer), then
`EdwardsPoint::to_montgomery`. -/
def verifyingKeyToMontgomery (seed : List UInt8) : List UInt8 :=
  edToMontgomery (EPt.smul (Ed25519.expandedFromBytes (sha512 seed)).1 EPt.basepoint)

/-- `MontgomeryPoint::ct_eq` — `from_bytes` both sides, then the translated item -/
def montCtEq (a b : List UInt8) : Bool :=
  (Dalek.Gen.AlgMontgomery.ct_eq.run natOps [feFromBytes a, feFromBytes b]).getD 0 0 != 0

/-- `MontgomeryPoint::identity() = MontgomeryPoint([0u8; 32])` -/
def montIdentity : List UInt8 := List.replicate 32 0

/-- `SharedSecret::was_contributory = !self.0.is_identity()`, `is_identity = self.ct_eq(&identity())` -/
def wasContributory (shared : List UInt8) : Bool := !(montCtEq shared montIdentity)

/-- `MontgomeryPoint::to_edwards(sign)`: the translated field part (`u == -1` test and `y = (u-1)/(u+1)`),
then `y_bytes[31] ^= sign << 7` (`y_bytes` is canonical, so bit 255 is clear and the xor sets it) and
`CompressedEdwardsY::decompress` (the specification function; its agreement with the implementation is
the subject of the decompression property). -/
def toEdwards (u : List UInt8) (sign : Bool) : Option Pt :=
  let r := Dalek.Gen.AlgMontgomery.to_edwards.run natOps [feFromBytes u]
  if r.getD 0 0 != 0 then none
  else decompress (setSignBit (feToBytes (r.getD 1 0)) sign)

/-- `montgomery::elligator_encode` before `as_bytes` — the translated item -/
def elligatorEncode (r0 : Nat) : Nat :=
  (Dalek.Gen.AlgMontgomery.elligator_encode.run natOps [r0]).getD 0 0

end Dalek.Model.Ladder

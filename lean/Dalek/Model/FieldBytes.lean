/-! Hand models (ideal integers, Mathlib-free) of the byte codecs of the field backends; proved equal to the
generated normal forms `Dalek.Gen.Norm.Field51.as_bytes_fn` / `Field26.as_bytes_fn` in `Dalek/Proofs/Bytes51.lean`,
`Bytes26.lean`.  They exist only to give the proof stable names for the intermediate values. -/
namespace Dalek.Model.FieldBytes

/-! ### little-endian byte strings as lists of naturals / integers -/

/-- little-endian value of a byte list: `Σ b_j · 256^j` -/
def leVal : List Nat → Nat
  | [] => 0
  | b :: bs => b + 256 * leVal bs

/-- the same over `Int` (the normalised kernels compute over ideal integers) -/
def leValZ : List Int → Int
  | [] => 0
  | b :: bs => b + 256 * leValZ bs

/-- the `len` little-endian base-256 digits of `n` (the value is truncated mod `256^len`) -/
def natToLeN (n : Nat) : Nat → List Nat
  | 0 => []
  | len + 1 => n % 256 :: natToLeN (n / 256) len

/-- value of five radix-2^51 limbs -/
def val51N (l : List Nat) : Nat :=
  l.getD 0 0 + 2 ^ 51 * l.getD 1 0 + 2 ^ 102 * l.getD 2 0 + 2 ^ 153 * l.getD 3 0 + 2 ^ 204 * l.getD 4 0

/-- value of ten radix-2^25.5 limbs (limb `i` has weight `2^⌈25.5 i⌉`) -/
def val26N (l : List Nat) : Nat :=
  l.getD 0 0 + 2 ^ 26 * l.getD 1 0 + 2 ^ 51 * l.getD 2 0 + 2 ^ 77 * l.getD 3 0 + 2 ^ 102 * l.getD 4 0 +
  2 ^ 128 * l.getD 5 0 + 2 ^ 153 * l.getD 6 0 + 2 ^ 179 * l.getD 7 0 + 2 ^ 204 * l.getD 8 0 + 2 ^ 230 * l.getD 9 0

/-- the same over `Int` -/
def val26Z (l : List Int) : Int :=
  l.getD 0 0 + 2 ^ 26 * l.getD 1 0 + 2 ^ 51 * l.getD 2 0 + 2 ^ 77 * l.getD 3 0 + 2 ^ 102 * l.getD 4 0 +
  2 ^ 128 * l.getD 5 0 + 2 ^ 153 * l.getD 6 0 + 2 ^ 179 * l.getD 7 0 + 2 ^ 204 * l.getD 8 0 + 2 ^ 230 * l.getD 9 0

/-! ### `FieldElement51::as_bytes` -/

/-- the final bit arrangement of `as_bytes`: 32 bytes from five 51-bit limbs -/
def pack51 (f0 f1 f2 f3 f4 : Int) : List Int :=
  [f0 % 2 ^ 8, f0 / 2 ^ 8 % 2 ^ 8, f0 / 2 ^ 16 % 2 ^ 8, f0 / 2 ^ 24 % 2 ^ 8, f0 / 2 ^ 32 % 2 ^ 8, f0 / 2 ^ 40 % 2 ^ 8,
   (f0 / 2 ^ 48 + f1 * 8) % 2 ^ 8,
   f1 / 2 ^ 5 % 2 ^ 8, f1 / 2 ^ 13 % 2 ^ 8, f1 / 2 ^ 21 % 2 ^ 8, f1 / 2 ^ 29 % 2 ^ 8, f1 / 2 ^ 37 % 2 ^ 8,
   (f1 / 2 ^ 45 + f2 * 64) % 2 ^ 8,
   f2 / 2 ^ 2 % 2 ^ 8, f2 / 2 ^ 10 % 2 ^ 8, f2 / 2 ^ 18 % 2 ^ 8, f2 / 2 ^ 26 % 2 ^ 8, f2 / 2 ^ 34 % 2 ^ 8, f2 / 2 ^ 42 % 2 ^ 8,
   (f2 / 2 ^ 50 + f3 * 2) % 2 ^ 8,
   f3 / 2 ^ 7 % 2 ^ 8, f3 / 2 ^ 15 % 2 ^ 8, f3 / 2 ^ 23 % 2 ^ 8, f3 / 2 ^ 31 % 2 ^ 8, f3 / 2 ^ 39 % 2 ^ 8,
   (f3 / 2 ^ 47 + f4 * 16) % 2 ^ 8,
   f4 / 2 ^ 4 % 2 ^ 8, f4 / 2 ^ 12 % 2 ^ 8, f4 / 2 ^ 20 % 2 ^ 8, f4 / 2 ^ 28 % 2 ^ 8, f4 / 2 ^ 36 % 2 ^ 8,
   f4 / 2 ^ 44]

/-- hand model of `FieldElement51::as_bytes` over ideal integers -/
def asBytesModel51 (a0 a1 a2 a3 a4 : Int) : List Int :=
  -- weak reduction (`FieldElement51::reduce`)
  let l0 := a0 % 2 ^ 51 + 19 * (a4 / 2 ^ 51)
  let l1 := a1 % 2 ^ 51 + a0 / 2 ^ 51
  let l2 := a2 % 2 ^ 51 + a1 / 2 ^ 51
  let l3 := a3 % 2 ^ 51 + a2 / 2 ^ 51
  let l4 := a4 % 2 ^ 51 + a3 / 2 ^ 51
  -- q = carry bit of h + 19
  let q0 := (l0 + 19) / 2 ^ 51
  let q1 := (l1 + q0) / 2 ^ 51
  let q2 := (l2 + q1) / 2 ^ 51
  let q3 := (l3 + q2) / 2 ^ 51
  let q := (l4 + q3) / 2 ^ 51
  -- h + 19 q, carried; the top carry (= 2^255 q) is dropped
  let t0 := l0 + 19 * q
  let t1 := l1 + t0 / 2 ^ 51
  let t2 := l2 + t1 / 2 ^ 51
  let t3 := l3 + t2 / 2 ^ 51
  let t4 := l4 + t3 / 2 ^ 51
  let f0 := t0 % 2 ^ 51
  let f1 := t1 % 2 ^ 51
  let f2 := t2 % 2 ^ 51
  let f3 := t3 % 2 ^ 51
  let f4 := t4 % 2 ^ 51
  pack51 f0 f1 f2 f3 f4

/-! ### `FieldElement2625::as_bytes` -/

/-- the final bit arrangement of the u32 `as_bytes`: 32 bytes from ten 26/25-bit limbs -/
def pack26 (f0 f1 f2 f3 f4 f5 f6 f7 f8 f9 : Int) : List Int :=
  [f0 % 2 ^ 8,
   f0 / 2 ^ 8 % 2 ^ 8,
   f0 / 2 ^ 16 % 2 ^ 8,
   (f0 / 2 ^ 24 + f1 * 4) % 2 ^ 8,
   f1 / 2 ^ 6 % 2 ^ 8,
   f1 / 2 ^ 14 % 2 ^ 8,
   (f1 / 2 ^ 22 + f2 * 8) % 2 ^ 8,
   f2 / 2 ^ 5 % 2 ^ 8,
   f2 / 2 ^ 13 % 2 ^ 8,
   (f2 / 2 ^ 21 + f3 * 32) % 2 ^ 8,
   f3 / 2 ^ 3 % 2 ^ 8,
   f3 / 2 ^ 11 % 2 ^ 8,
   (f3 / 2 ^ 19 + f4 * 64) % 2 ^ 8,
   f4 / 2 ^ 2 % 2 ^ 8,
   f4 / 2 ^ 10 % 2 ^ 8,
   f4 / 2 ^ 18,
   f5 % 2 ^ 8,
   f5 / 2 ^ 8 % 2 ^ 8,
   f5 / 2 ^ 16 % 2 ^ 8,
   (f5 / 2 ^ 24 + f6 * 2) % 2 ^ 8,
   f6 / 2 ^ 7 % 2 ^ 8,
   f6 / 2 ^ 15 % 2 ^ 8,
   (f6 / 2 ^ 23 + f7 * 8) % 2 ^ 8,
   f7 / 2 ^ 5 % 2 ^ 8,
   f7 / 2 ^ 13 % 2 ^ 8,
   (f7 / 2 ^ 21 + f8 * 16) % 2 ^ 8,
   f8 / 2 ^ 4 % 2 ^ 8,
   f8 / 2 ^ 12 % 2 ^ 8,
   (f8 / 2 ^ 20 + f9 * 64) % 2 ^ 8,
   f9 / 2 ^ 2 % 2 ^ 8,
   f9 / 2 ^ 10 % 2 ^ 8,
   f9 / 2 ^ 18]

/-- hand model of `FieldElement2625::as_bytes` over ideal integers -/
def asBytesModel26 (a0 a1 a2 a3 a4 a5 a6 a7 a8 a9 : Int) : List Int :=
  -- `FieldElement2625::reduce`: two interleaved half carry chains, then 9 → 0 (times 19), then 0 → 1
  let b1 := a1 + a0 / 2 ^ 26
  let z0 := a0 % 2 ^ 26
  let b5 := a5 + a4 / 2 ^ 26
  let z4 := a4 % 2 ^ 26
  let b2 := a2 + b1 / 2 ^ 25
  let z1 := b1 % 2 ^ 25
  let b6 := a6 + b5 / 2 ^ 25
  let z5 := b5 % 2 ^ 25
  let b3 := a3 + b2 / 2 ^ 26
  let l2 := b2 % 2 ^ 26
  let b7 := a7 + b6 / 2 ^ 26
  let l6 := b6 % 2 ^ 26
  let b4 := z4 + b3 / 2 ^ 25
  let l3 := b3 % 2 ^ 25
  let b8 := a8 + b7 / 2 ^ 25
  let l7 := b7 % 2 ^ 25
  let l5 := z5 + b4 / 2 ^ 26
  let l4 := b4 % 2 ^ 26
  let b9 := a9 + b8 / 2 ^ 26
  let l8 := b8 % 2 ^ 26
  let c0 := z0 + 19 * (b9 / 2 ^ 25)
  let l9 := b9 % 2 ^ 25
  let l1 := z1 + c0 / 2 ^ 26
  let l0 := c0 % 2 ^ 26
  -- q = carry bit of h + 19
  let q0 := (l0 + 19) / 2 ^ 26
  let q1 := (l1 + q0) / 2 ^ 25
  let q2 := (l2 + q1) / 2 ^ 26
  let q3 := (l3 + q2) / 2 ^ 25
  let q4 := (l4 + q3) / 2 ^ 26
  let q5 := (l5 + q4) / 2 ^ 25
  let q6 := (l6 + q5) / 2 ^ 26
  let q7 := (l7 + q6) / 2 ^ 25
  let q8 := (l8 + q7) / 2 ^ 26
  let q := (l9 + q8) / 2 ^ 25
  -- h + 19 q, carried; the top carry (= 2^255 q) is dropped
  let t0 := l0 + 19 * q
  let t1 := l1 + t0 / 2 ^ 26
  let t2 := l2 + t1 / 2 ^ 25
  let t3 := l3 + t2 / 2 ^ 26
  let t4 := l4 + t3 / 2 ^ 25
  let t5 := l5 + t4 / 2 ^ 26
  let t6 := l6 + t5 / 2 ^ 25
  let t7 := l7 + t6 / 2 ^ 26
  let t8 := l8 + t7 / 2 ^ 25
  let t9 := l9 + t8 / 2 ^ 26
  let f0 := t0 % 2 ^ 26
  let f1 := t1 % 2 ^ 25
  let f2 := t2 % 2 ^ 26
  let f3 := t3 % 2 ^ 25
  let f4 := t4 % 2 ^ 26
  let f5 := t5 % 2 ^ 25
  let f6 := t6 % 2 ^ 26
  let f7 := t7 % 2 ^ 25
  let f8 := t8 % 2 ^ 26
  let f9 := t9 % 2 ^ 25
  pack26 f0 f1 f2 f3 f4 f5 f6 f7 f8 f9

end Dalek.Model.FieldBytes

import Lean
import Dalek.Gen.Inventory

/-!
# C15 — hand-written discharge table for the panic-site inventory

`Dalek.Gen.Inventory.panicSites` (regenerated from the Rust sources on every run) lists every *syntactic* panic
site of the non-test code of the three crates: `panic!`/`assert*!`/`debug_assert*!`/`unreachable!`/…,
`.unwrap()`/`.expect(..)`, indexing and slicing with a non-literal index (`index`, `slice`), literal indexing of a
slice-typed parameter (`index_lit_slice`), the panicking slice methods (`call:copy_from_slice`, `call:split_at`,
`call:chunks`, …) and integer division by a non-literal (`div`, `rem`).

This file maps every site to a `Discharge`, **by hand, after reading the site**.  Entries are keyed by
`(file, func, kind, normalised text)` — never by line number — plus `count`, the number of identical occurrences
inside that function that were reviewed.  `Dalek/Props/C15/Sites.lean` proves that every regenerated site has an
entry; a new `unwrap`, `assert!`, non-literal index, … in the non-test code therefore breaks the build until it is
read and classified here.

## Discharge classes

* `guardedBy r` — a local, syntactic argument `r` (loop bound vs. array length, a preceding length check, literal
  arguments at every call site, a type-level length such as `Digest<OutputSize = U64>`) shows that the panic
  condition is false on every execution.
* `arithmeticC11 r` — the asserted condition is a limb-bound / reduction fact that belongs to the bound contracts of
  properties C01/C02/C11.
* `documentedContract r` — the site fires only if the *calling program* violates a documented API precondition
  (mismatched iterator lengths, zero input to `Scalar::batch_invert`); it is not reachable from the untrusted-input
  entry points of C15.
* `unreachableFromUntrusted r` — the code is not reachable from any C15 entry point.
* `provedBy thm r` — safety rests on a mathematical fact `r`; `thm` names the Lean theorem.  **`thm` starting with
  `TODO:` means the fact is stated here precisely but not yet proved in Lean** (this table does not prove it).
  (None at the time of writing: the five facts formerly owed are theorems of `Dalek/Props/C15/Facts.lean`.)
* `unknown r` — no safety argument is known.  (None at the time of writing.)

## What the inventory does not see

Literal indices (`a[3]`, `&x[..32]`) are not inventoried except on slice-typed parameters: on arrays they are
checked by rustc, but through the three user-defined `Index` impls (`Scalar`, `Scalar52`, `Scalar29`) and on
`GenericArray`s (`hash[..32]`) a literal out-of-range index would be a run-time panic that is only covered by the
`checked`-profile correspondence runs.  Arithmetic overflow (debug builds) is property C11.  Panics inside
dependencies (`rand_core`, `digest`, allocation failure) are out of scope.

## Keys

Comparing strings in the Lean kernel is slow, so sites and entries are compared through
`key = encodeKey file func kind text`, an injective big-number encoding.  The inventory carries the key computed by
the generator; `site!` computes the key of an entry **at elaboration time** from the string literals written in
the entry.  `#guard`s below re-check (by evaluation) that both agree with `encodeKey` on their strings.
-/

namespace Dalek.Model.PanicTable

open Dalek.Gen.Inventory

inductive Discharge where
  | unreachableFromUntrusted (reason : String)
  | guardedBy (reason : String)
  | arithmeticC11 (reason : String)
  | documentedContract (reason : String)
  | provedBy (thm : String) (reason : String)
  | unknown (reason : String)
  deriving Repr

def Discharge.className : Discharge → String
  | .unreachableFromUntrusted _ => "unreachableFromUntrusted"
  | .guardedBy _ => "guardedBy"
  | .arithmeticC11 _ => "arithmeticC11"
  | .documentedContract _ => "documentedContract"
  | .provedBy t _ => if t.startsWith "TODO:" then "provedBy(TODO)" else "provedBy"
  | .unknown _ => "unknown"

def Discharge.reason : Discharge → String
  | .unreachableFromUntrusted r | .guardedBy r | .arithmeticC11 r | .documentedContract r | .unknown r => r
  | .provedBy t r => t ++ ": " ++ r

def Discharge.isUnknown : Discharge → Bool
  | .unknown _ => true
  | _ => false

/-- injective numeric encoding of a site key: the UTF-8 bytes of `file\0func\0kind\0text` read as a big-endian
base-256 number with a leading 1 (the same function as `encode_key` in `tools/rs2lean/inventory.py`) -/
def encodeKey (file func kind text : String) : Nat :=
  (file ++ "\x00" ++ func ++ "\x00" ++ kind ++ "\x00" ++ text).toUTF8.foldl (fun n b => n * 256 + b.toNat) 1

structure Entry where
  file : String
  func : String
  kind : String
  text : String
  /-- `encodeKey file func kind text`, computed at elaboration time by `site!` -/
  key : Nat
  /-- number of identical occurrences (same key) inside the function that were reviewed -/
  count : Nat
  discharge : Discharge

open Lean Elab Term in
/-- `sitekey% "file" "func" "kind" "text"` elaborates to the numeral `encodeKey file func kind text`. -/
elab "sitekey% " a:str b:str c:str d:str : term =>
  return mkNatLit (encodeKey a.getString b.getString c.getString d.getString)

/-- `site! file func kind text count discharge` -/
macro "site! " f:str fn:str k:str t:str n:num d:term:max : term =>
  `(Entry.mk $f $fn $k $t (sitekey% $f $fn $k $t) $n $d)

/-- The discharge table. -/
def table : List Entry := [
  -- -------------------- curve25519-dalek/src/backend/serial/fiat_u32/field.rs
  site! "curve25519-dalek/src/backend/serial/fiat_u32/field.rs" "FieldElement2625::pow2k"
    "debug_assert!" "debug_assert!(k > 0)" 1
    (.guardedBy
      "every call site passes a literal k >= 1 (pow2k(1), and 2, 5, 10, 20, 50, 100 in field.rs)"),
  site! "curve25519-dalek/src/backend/serial/fiat_u32/field.rs" "FieldElement2625::from_bytes"
    "call:copy_from_slice" "temp.copy_from_slice(data)" 1
    (.guardedBy
      "source is &[u8; 32], destination [u8; 32]: equal lengths"),
  -- -------------------- curve25519-dalek/src/backend/serial/fiat_u64/field.rs
  site! "curve25519-dalek/src/backend/serial/fiat_u64/field.rs" "FieldElement51::from_bytes"
    "call:copy_from_slice" "temp.copy_from_slice(bytes)" 1
    (.guardedBy
      "source is &[u8; 32], destination [u8; 32]: equal lengths"),
  -- -------------------- curve25519-dalek/src/backend/serial/scalar_mul/pippenger.rs
  site! "curve25519-dalek/src/backend/serial/scalar_mul/pippenger.rs" "<Pippenger as VartimeMultiscalarMul>::optional_multiscalar_mul"
    "index" "digits[digit_index]" 1
    (.guardedBy
      "digit_index < digits_count = to_radix_2w_size_hint(w) in {43, 37, 33} <= 64 = length of the digit array [i8; 64]"),
  site! "curve25519-dalek/src/backend/serial/scalar_mul/pippenger.rs" "<Pippenger as VartimeMultiscalarMul>::optional_multiscalar_mul"
    "index" "buckets[b]" 4
    (.provedBy "Dalek.Proofs.Recode.asRadix2w_out"
      "radix-2^w digits lie in [-2^(w-1), 2^(w-1)) and the digit at index 32 (w = 8) is 0 or 1: b = |digit| - 1 <= 2^(w-1) - 1 = buckets_count - 1; for w < 8 the folded final carry is 0 because scalars are < 2^255 (Scalar invariant #1)"),
  site! "curve25519-dalek/src/backend/serial/scalar_mul/pippenger.rs" "<Pippenger as VartimeMultiscalarMul>::optional_multiscalar_mul"
    "index" "buckets[buckets_count - 1]" 2
    (.guardedBy
      "buckets has exactly buckets_count = 2^w / 2 >= 32 elements (collected from 0..buckets_count), w in {6, 7, 8}"),
  site! "curve25519-dalek/src/backend/serial/scalar_mul/pippenger.rs" "<Pippenger as VartimeMultiscalarMul>::optional_multiscalar_mul"
    "index" "buckets[i]" 1
    (.guardedBy
      "i ranges over 0..buckets_count - 1, buckets.len() = buckets_count"),
  site! "curve25519-dalek/src/backend/serial/scalar_mul/pippenger.rs" "<Pippenger as VartimeMultiscalarMul>::optional_multiscalar_mul"
    "expect" "columns.next().expect(\"should have more than zero digits\")" 1
    (.guardedBy
      "columns iterates over (0..digits_count).rev() with digits_count in {43, 37, 33} > 0, so next() is Some"),
  -- -------------------- curve25519-dalek/src/backend/serial/scalar_mul/precomputed_straus.rs
  site! "curve25519-dalek/src/backend/serial/scalar_mul/precomputed_straus.rs" "<VartimePrecomputedStraus as VartimePrecomputedMultiscalarMul>::optional_mixed_multiscalar_mul"
    "assert!" "assert!(sp >= static_nafs.len())" 1
    (.documentedContract
      "VartimePrecomputedMultiscalarMul documents that the scalar / point iterators must have matching lengths; the arguments are caller-constructed iterators, not untrusted bytes; no C15 entry point calls this function"),
  site! "curve25519-dalek/src/backend/serial/scalar_mul/precomputed_straus.rs" "<VartimePrecomputedStraus as VartimePrecomputedMultiscalarMul>::optional_mixed_multiscalar_mul"
    "assert_eq!" "assert_eq!(dp, dynamic_nafs.len())" 1
    (.documentedContract
      "VartimePrecomputedMultiscalarMul documents that the scalar / point iterators must have matching lengths; the arguments are caller-constructed iterators, not untrusted bytes; no C15 entry point calls this function"),
  site! "curve25519-dalek/src/backend/serial/scalar_mul/precomputed_straus.rs" "<VartimePrecomputedStraus as VartimePrecomputedMultiscalarMul>::optional_mixed_multiscalar_mul"
    "index" "dynamic_nafs[i]" 1
    (.guardedBy
      "i < dp = dynamic_nafs.len() (assert_eq! above)"),
  site! "curve25519-dalek/src/backend/serial/scalar_mul/precomputed_straus.rs" "<VartimePrecomputedStraus as VartimePrecomputedMultiscalarMul>::optional_mixed_multiscalar_mul"
    "index" "dynamic_nafs[i][j]" 1
    (.guardedBy
      "i < dp = dynamic_nafs.len() (assert_eq! above), j ranges over 0..256 = length of a NAF"),
  site! "curve25519-dalek/src/backend/serial/scalar_mul/precomputed_straus.rs" "<VartimePrecomputedStraus as VartimePrecomputedMultiscalarMul>::optional_mixed_multiscalar_mul"
    "index" "dynamic_lookup_tables[i]" 2
    (.guardedBy
      "i < dp = dynamic_lookup_tables.len()"),
  site! "curve25519-dalek/src/backend/serial/scalar_mul/precomputed_straus.rs" "<VartimePrecomputedStraus as VartimePrecomputedMultiscalarMul>::optional_mixed_multiscalar_mul"
    "index" "static_nafs[i]" 1
    (.guardedBy
      "i ranges over 0..static_nafs.len()"),
  site! "curve25519-dalek/src/backend/serial/scalar_mul/precomputed_straus.rs" "<VartimePrecomputedStraus as VartimePrecomputedMultiscalarMul>::optional_mixed_multiscalar_mul"
    "index" "static_nafs[i][j]" 1
    (.guardedBy
      "i ranges over 0..static_nafs.len(), j over 0..256"),
  site! "curve25519-dalek/src/backend/serial/scalar_mul/precomputed_straus.rs" "<VartimePrecomputedStraus as VartimePrecomputedMultiscalarMul>::optional_mixed_multiscalar_mul"
    "index" "self.static_lookup_tables[i]" 2
    (.guardedBy
      "i < static_nafs.len() <= sp = self.static_lookup_tables.len() (assert! above)"),
  -- -------------------- curve25519-dalek/src/backend/serial/scalar_mul/straus.rs
  site! "curve25519-dalek/src/backend/serial/scalar_mul/straus.rs" "<Straus as MultiscalarMul>::multiscalar_mul"
    "index" "s_i[j]" 1
    (.guardedBy
      "j ranges over 0..64, s_i : [i8; 64]"),
  site! "curve25519-dalek/src/backend/serial/scalar_mul/straus.rs" "<Straus as VartimeMultiscalarMul>::optional_multiscalar_mul"
    "index" "naf[i]" 3
    (.guardedBy
      "i ranges over 0..256, naf : [i8; 256]"),
  -- -------------------- curve25519-dalek/src/backend/serial/scalar_mul/variable_base.rs
  site! "curve25519-dalek/src/backend/serial/scalar_mul/variable_base.rs" "mul"
    "index" "scalar_digits[i]" 1
    (.guardedBy
      "i ranges over 0..63, scalar_digits : [i8; 64]"),
  -- -------------------- curve25519-dalek/src/backend/serial/scalar_mul/vartime_double_base.rs
  site! "curve25519-dalek/src/backend/serial/scalar_mul/vartime_double_base.rs" "mul"
    "index" "a_naf[i]" 4
    (.guardedBy
      "i is assigned from j in 0..256 and afterwards only decremented down to 0; the NAFs are [i8; 256]"),
  site! "curve25519-dalek/src/backend/serial/scalar_mul/vartime_double_base.rs" "mul"
    "index" "b_naf[i]" 4
    (.guardedBy
      "i is assigned from j in 0..256 and afterwards only decremented down to 0; the NAFs are [i8; 256]"),
  -- -------------------- curve25519-dalek/src/backend/serial/u32/field.rs
  site! "curve25519-dalek/src/backend/serial/u32/field.rs" "<FieldElement2625 as AddAssign<FieldElement2625>>::add_assign"
    "index" "self.0[i]" 1
    (.guardedBy
      "loop variable ranges over 0..10 and the indexed array has length 10"),
  site! "curve25519-dalek/src/backend/serial/u32/field.rs" "<FieldElement2625 as AddAssign<FieldElement2625>>::add_assign"
    "index" "_rhs.0[i]" 1
    (.guardedBy
      "loop variable ranges over 0..10 and the indexed array has length 10"),
  site! "curve25519-dalek/src/backend/serial/u32/field.rs" "FieldElement2625::pow2k"
    "debug_assert!" "debug_assert!(k > 0)" 1
    (.guardedBy
      "every call site passes a literal k >= 1 (pow2k(1), and 2, 5, 10, 20, 50, 100 in field.rs)"),
  site! "curve25519-dalek/src/backend/serial/u32/field.rs" "FieldElement2625::reduce::carry"
    "debug_assert!" "debug_assert!(i < 9)" 1
    (.guardedBy
      "all 11 call sites pass a literal i in {0, ..., 8}"),
  site! "curve25519-dalek/src/backend/serial/u32/field.rs" "FieldElement2625::reduce::carry"
    "index" "z[i + 1]" 2
    (.guardedBy
      "all 11 call sites pass a literal i <= 8, so i + 1 <= 9 < 10 = length of z"),
  site! "curve25519-dalek/src/backend/serial/u32/field.rs" "FieldElement2625::reduce::carry"
    "index" "z[i]" 4
    (.guardedBy
      "all 11 call sites pass a literal i <= 8, so i + 1 <= 9 < 10 = length of z"),
  site! "curve25519-dalek/src/backend/serial/u32/field.rs" "FieldElement2625::from_bytes::load3"
    "index_lit_slice" "b[0]" 1
    (.guardedBy
      "the 8 call sites pass &data[k..] with data : &[u8; 32] and literal k in {4, 7, 10, 13, 20, 23, 26, 29}: at least 3 bytes"),
  site! "curve25519-dalek/src/backend/serial/u32/field.rs" "FieldElement2625::from_bytes::load3"
    "index_lit_slice" "b[1]" 1
    (.guardedBy
      "the 8 call sites pass &data[k..] with data : &[u8; 32] and literal k in {4, 7, 10, 13, 20, 23, 26, 29}: at least 3 bytes"),
  site! "curve25519-dalek/src/backend/serial/u32/field.rs" "FieldElement2625::from_bytes::load3"
    "index_lit_slice" "b[2]" 1
    (.guardedBy
      "the 8 call sites pass &data[k..] with data : &[u8; 32] and literal k in {4, 7, 10, 13, 20, 23, 26, 29}: at least 3 bytes"),
  site! "curve25519-dalek/src/backend/serial/u32/field.rs" "FieldElement2625::from_bytes::load4"
    "index_lit_slice" "b[0]" 1
    (.guardedBy
      "the 2 call sites pass &data[0..] and &data[16..] with data : &[u8; 32]: at least 4 bytes"),
  site! "curve25519-dalek/src/backend/serial/u32/field.rs" "FieldElement2625::from_bytes::load4"
    "index_lit_slice" "b[1]" 1
    (.guardedBy
      "the 2 call sites pass &data[0..] and &data[16..] with data : &[u8; 32]: at least 4 bytes"),
  site! "curve25519-dalek/src/backend/serial/u32/field.rs" "FieldElement2625::from_bytes::load4"
    "index_lit_slice" "b[2]" 1
    (.guardedBy
      "the 2 call sites pass &data[0..] and &data[16..] with data : &[u8; 32]: at least 4 bytes"),
  site! "curve25519-dalek/src/backend/serial/u32/field.rs" "FieldElement2625::from_bytes::load4"
    "index_lit_slice" "b[3]" 1
    (.guardedBy
      "the 2 call sites pass &data[0..] and &data[16..] with data : &[u8; 32]: at least 4 bytes"),
  site! "curve25519-dalek/src/backend/serial/u32/field.rs" "FieldElement2625::as_bytes"
    "debug_assert!" "debug_assert!(q == 0 || q == 1)" 1
    (.arithmeticC11
      "carry / top-bit facts of the canonical reduction of a value with limbs within Field26.pre_as_bytes (C01/C11 Field26 as_bytes)"),
  site! "curve25519-dalek/src/backend/serial/u32/field.rs" "FieldElement2625::as_bytes"
    "debug_assert!" "debug_assert!((h[9] >> 25) == 0 || (h[9] >> 25) == 1)" 1
    (.arithmeticC11
      "carry / top-bit facts of the canonical reduction of a value with limbs within Field26.pre_as_bytes (C01/C11 Field26 as_bytes)"),
  site! "curve25519-dalek/src/backend/serial/u32/field.rs" "FieldElement2625::as_bytes"
    "debug_assert!" "debug_assert!((s[31] & 0b1000_0000u8) == 0u8)" 1
    (.arithmeticC11
      "carry / top-bit facts of the canonical reduction of a value with limbs within Field26.pre_as_bytes (C01/C11 Field26 as_bytes)"),
  -- -------------------- curve25519-dalek/src/backend/serial/u32/scalar.rs
  site! "curve25519-dalek/src/backend/serial/u32/scalar.rs" "<Scalar29 as Index<usize>>::index"
    "index" "self.0[_index]" 1
    (.guardedBy
      "crate-private limb accessor: every use in the crate indexes with a literal below the limb count or with a loop variable over 0..5 (Scalar52) / 0..9 (Scalar29); literal indices through this impl are NOT separately inventoried (see module doc)"),
  site! "curve25519-dalek/src/backend/serial/u32/scalar.rs" "<Scalar29 as IndexMut<usize>>::index_mut"
    "index" "self.0[_index]" 1
    (.guardedBy
      "crate-private limb accessor: every use in the crate indexes with a literal below the limb count or with a loop variable over 0..5 (Scalar52) / 0..9 (Scalar29); literal indices through this impl are NOT separately inventoried (see module doc)"),
  site! "curve25519-dalek/src/backend/serial/u32/scalar.rs" "Scalar29::from_bytes"
    "index" "words[i]" 1
    (.guardedBy
      "loop variable ranges over 0..8 and the indexed array has length 8"),
  site! "curve25519-dalek/src/backend/serial/u32/scalar.rs" "Scalar29::from_bytes"
    "index" "bytes[(i * 4) + j]" 1
    (.guardedBy
      "i < 8, j < 4, so i * 4 + j <= 31 < 32 = length of bytes"),
  site! "curve25519-dalek/src/backend/serial/u32/scalar.rs" "Scalar29::from_bytes_wide"
    "index" "words[i]" 1
    (.guardedBy
      "loop variable ranges over 0..16 and the indexed array has length 16"),
  site! "curve25519-dalek/src/backend/serial/u32/scalar.rs" "Scalar29::from_bytes_wide"
    "index" "bytes[(i * 4) + j]" 1
    (.guardedBy
      "i < 16, j < 4, so i * 4 + j <= 63 < 64 = length of bytes"),
  site! "curve25519-dalek/src/backend/serial/u32/scalar.rs" "Scalar29::add"
    "index" "a[i]" 1
    (.guardedBy
      "loop variable ranges over 0..9 and the indexed array has length 9"),
  site! "curve25519-dalek/src/backend/serial/u32/scalar.rs" "Scalar29::add"
    "index" "b[i]" 1
    (.guardedBy
      "loop variable ranges over 0..9 and the indexed array has length 9"),
  site! "curve25519-dalek/src/backend/serial/u32/scalar.rs" "Scalar29::add"
    "index" "sum[i]" 1
    (.guardedBy
      "loop variable ranges over 0..9 and the indexed array has length 9"),
  site! "curve25519-dalek/src/backend/serial/u32/scalar.rs" "Scalar29::sub"
    "index" "a[i]" 1
    (.guardedBy
      "loop variable ranges over 0..9 and the indexed array has length 9"),
  site! "curve25519-dalek/src/backend/serial/u32/scalar.rs" "Scalar29::sub"
    "index" "b[i]" 1
    (.guardedBy
      "loop variable ranges over 0..9 and the indexed array has length 9"),
  site! "curve25519-dalek/src/backend/serial/u32/scalar.rs" "Scalar29::sub"
    "index" "difference[i]" 3
    (.guardedBy
      "loop variable ranges over 0..9 and the indexed array has length 9"),
  site! "curve25519-dalek/src/backend/serial/u32/scalar.rs" "Scalar29::sub"
    "index" "constants::L[i]" 1
    (.guardedBy
      "loop variable ranges over 0..9 and the indexed array has length 9"),
  site! "curve25519-dalek/src/backend/serial/u32/scalar.rs" "Scalar29::from_montgomery"
    "index" "limbs[i]" 1
    (.guardedBy
      "i ranges over 0..9; limbs : [u64; 17], self has 9 limbs"),
  site! "curve25519-dalek/src/backend/serial/u32/scalar.rs" "Scalar29::from_montgomery"
    "index" "self[i]" 1
    (.guardedBy
      "i ranges over 0..9; limbs : [u64; 17], self has 9 limbs"),
  -- -------------------- curve25519-dalek/src/backend/serial/u64/field.rs
  site! "curve25519-dalek/src/backend/serial/u64/field.rs" "<FieldElement51 as AddAssign<FieldElement51>>::add_assign"
    "index" "self.0[i]" 1
    (.guardedBy
      "loop variable ranges over 0..5 and the indexed array has length 5"),
  site! "curve25519-dalek/src/backend/serial/u64/field.rs" "<FieldElement51 as AddAssign<FieldElement51>>::add_assign"
    "index" "_rhs.0[i]" 1
    (.guardedBy
      "loop variable ranges over 0..5 and the indexed array has length 5"),
  site! "curve25519-dalek/src/backend/serial/u64/field.rs" "<&FieldElement51 as Mul<FieldElement51>>::mul"
    "debug_assert!" "debug_assert!(a[0] < (1 << 54))" 1
    (.arithmeticC11
      "the asserted limb bound 2^54 is exactly the kernel contract Field51.pre_mul / pre_pow2k_body of C11 (Field51_mul_safe, Field51_pow2k_body_safe); that every caller meets the contract is the whole-program bound obligation of C11"),
  site! "curve25519-dalek/src/backend/serial/u64/field.rs" "<&FieldElement51 as Mul<FieldElement51>>::mul"
    "debug_assert!" "debug_assert!(b[0] < (1 << 54))" 1
    (.arithmeticC11
      "the asserted limb bound 2^54 is exactly the kernel contract Field51.pre_mul / pre_pow2k_body of C11 (Field51_mul_safe, Field51_pow2k_body_safe); that every caller meets the contract is the whole-program bound obligation of C11"),
  site! "curve25519-dalek/src/backend/serial/u64/field.rs" "<&FieldElement51 as Mul<FieldElement51>>::mul"
    "debug_assert!" "debug_assert!(a[1] < (1 << 54))" 1
    (.arithmeticC11
      "the asserted limb bound 2^54 is exactly the kernel contract Field51.pre_mul / pre_pow2k_body of C11 (Field51_mul_safe, Field51_pow2k_body_safe); that every caller meets the contract is the whole-program bound obligation of C11"),
  site! "curve25519-dalek/src/backend/serial/u64/field.rs" "<&FieldElement51 as Mul<FieldElement51>>::mul"
    "debug_assert!" "debug_assert!(b[1] < (1 << 54))" 1
    (.arithmeticC11
      "the asserted limb bound 2^54 is exactly the kernel contract Field51.pre_mul / pre_pow2k_body of C11 (Field51_mul_safe, Field51_pow2k_body_safe); that every caller meets the contract is the whole-program bound obligation of C11"),
  site! "curve25519-dalek/src/backend/serial/u64/field.rs" "<&FieldElement51 as Mul<FieldElement51>>::mul"
    "debug_assert!" "debug_assert!(a[2] < (1 << 54))" 1
    (.arithmeticC11
      "the asserted limb bound 2^54 is exactly the kernel contract Field51.pre_mul / pre_pow2k_body of C11 (Field51_mul_safe, Field51_pow2k_body_safe); that every caller meets the contract is the whole-program bound obligation of C11"),
  site! "curve25519-dalek/src/backend/serial/u64/field.rs" "<&FieldElement51 as Mul<FieldElement51>>::mul"
    "debug_assert!" "debug_assert!(b[2] < (1 << 54))" 1
    (.arithmeticC11
      "the asserted limb bound 2^54 is exactly the kernel contract Field51.pre_mul / pre_pow2k_body of C11 (Field51_mul_safe, Field51_pow2k_body_safe); that every caller meets the contract is the whole-program bound obligation of C11"),
  site! "curve25519-dalek/src/backend/serial/u64/field.rs" "<&FieldElement51 as Mul<FieldElement51>>::mul"
    "debug_assert!" "debug_assert!(a[3] < (1 << 54))" 1
    (.arithmeticC11
      "the asserted limb bound 2^54 is exactly the kernel contract Field51.pre_mul / pre_pow2k_body of C11 (Field51_mul_safe, Field51_pow2k_body_safe); that every caller meets the contract is the whole-program bound obligation of C11"),
  site! "curve25519-dalek/src/backend/serial/u64/field.rs" "<&FieldElement51 as Mul<FieldElement51>>::mul"
    "debug_assert!" "debug_assert!(b[3] < (1 << 54))" 1
    (.arithmeticC11
      "the asserted limb bound 2^54 is exactly the kernel contract Field51.pre_mul / pre_pow2k_body of C11 (Field51_mul_safe, Field51_pow2k_body_safe); that every caller meets the contract is the whole-program bound obligation of C11"),
  site! "curve25519-dalek/src/backend/serial/u64/field.rs" "<&FieldElement51 as Mul<FieldElement51>>::mul"
    "debug_assert!" "debug_assert!(a[4] < (1 << 54))" 1
    (.arithmeticC11
      "the asserted limb bound 2^54 is exactly the kernel contract Field51.pre_mul / pre_pow2k_body of C11 (Field51_mul_safe, Field51_pow2k_body_safe); that every caller meets the contract is the whole-program bound obligation of C11"),
  site! "curve25519-dalek/src/backend/serial/u64/field.rs" "<&FieldElement51 as Mul<FieldElement51>>::mul"
    "debug_assert!" "debug_assert!(b[4] < (1 << 54))" 1
    (.arithmeticC11
      "the asserted limb bound 2^54 is exactly the kernel contract Field51.pre_mul / pre_pow2k_body of C11 (Field51_mul_safe, Field51_pow2k_body_safe); that every caller meets the contract is the whole-program bound obligation of C11"),
  site! "curve25519-dalek/src/backend/serial/u64/field.rs" "FieldElement51::as_bytes"
    "debug_assert!" "debug_assert!((s[31] & 0b1000_0000u8) == 0u8)" 1
    (.arithmeticC11
      "bit 255 of the canonical encoding is clear because the fully reduced value is < p < 2^255 (C01 Field51 as_bytes correctness)"),
  site! "curve25519-dalek/src/backend/serial/u64/field.rs" "FieldElement51::pow2k"
    "debug_assert!" "debug_assert!(k > 0)" 1
    (.guardedBy
      "every call site passes a literal k >= 1 (pow2k(1), and 2, 5, 10, 20, 50, 100 in field.rs)"),
  site! "curve25519-dalek/src/backend/serial/u64/field.rs" "FieldElement51::pow2k"
    "debug_assert!" "debug_assert!(a[0] < (1 << 54))" 1
    (.arithmeticC11
      "the asserted limb bound 2^54 is exactly the kernel contract Field51.pre_mul / pre_pow2k_body of C11 (Field51_mul_safe, Field51_pow2k_body_safe); that every caller meets the contract is the whole-program bound obligation of C11"),
  site! "curve25519-dalek/src/backend/serial/u64/field.rs" "FieldElement51::pow2k"
    "debug_assert!" "debug_assert!(a[1] < (1 << 54))" 1
    (.arithmeticC11
      "the asserted limb bound 2^54 is exactly the kernel contract Field51.pre_mul / pre_pow2k_body of C11 (Field51_mul_safe, Field51_pow2k_body_safe); that every caller meets the contract is the whole-program bound obligation of C11"),
  site! "curve25519-dalek/src/backend/serial/u64/field.rs" "FieldElement51::pow2k"
    "debug_assert!" "debug_assert!(a[2] < (1 << 54))" 1
    (.arithmeticC11
      "the asserted limb bound 2^54 is exactly the kernel contract Field51.pre_mul / pre_pow2k_body of C11 (Field51_mul_safe, Field51_pow2k_body_safe); that every caller meets the contract is the whole-program bound obligation of C11"),
  site! "curve25519-dalek/src/backend/serial/u64/field.rs" "FieldElement51::pow2k"
    "debug_assert!" "debug_assert!(a[3] < (1 << 54))" 1
    (.arithmeticC11
      "the asserted limb bound 2^54 is exactly the kernel contract Field51.pre_mul / pre_pow2k_body of C11 (Field51_mul_safe, Field51_pow2k_body_safe); that every caller meets the contract is the whole-program bound obligation of C11"),
  site! "curve25519-dalek/src/backend/serial/u64/field.rs" "FieldElement51::pow2k"
    "debug_assert!" "debug_assert!(a[4] < (1 << 54))" 1
    (.arithmeticC11
      "the asserted limb bound 2^54 is exactly the kernel contract Field51.pre_mul / pre_pow2k_body of C11 (Field51_mul_safe, Field51_pow2k_body_safe); that every caller meets the contract is the whole-program bound obligation of C11"),
  site! "curve25519-dalek/src/backend/serial/u64/field.rs" "FieldElement51::square2"
    "index" "square.0[i]" 1
    (.guardedBy
      "loop variable ranges over 0..5 and the indexed array has length 5"),
  -- -------------------- curve25519-dalek/src/backend/serial/u64/scalar.rs
  site! "curve25519-dalek/src/backend/serial/u64/scalar.rs" "<Scalar52 as Index<usize>>::index"
    "index" "self.0[_index]" 1
    (.guardedBy
      "crate-private limb accessor: every use in the crate indexes with a literal below the limb count or with a loop variable over 0..5 (Scalar52) / 0..9 (Scalar29); literal indices through this impl are NOT separately inventoried (see module doc)"),
  site! "curve25519-dalek/src/backend/serial/u64/scalar.rs" "<Scalar52 as IndexMut<usize>>::index_mut"
    "index" "self.0[_index]" 1
    (.guardedBy
      "crate-private limb accessor: every use in the crate indexes with a literal below the limb count or with a loop variable over 0..5 (Scalar52) / 0..9 (Scalar29); literal indices through this impl are NOT separately inventoried (see module doc)"),
  site! "curve25519-dalek/src/backend/serial/u64/scalar.rs" "Scalar52::from_bytes"
    "index" "words[i]" 1
    (.guardedBy
      "loop variable ranges over 0..4 and the indexed array has length 4"),
  site! "curve25519-dalek/src/backend/serial/u64/scalar.rs" "Scalar52::from_bytes"
    "index" "bytes[(i * 8) + j]" 1
    (.guardedBy
      "i < 4, j < 8, so i * 8 + j <= 31 < 32 = length of bytes"),
  site! "curve25519-dalek/src/backend/serial/u64/scalar.rs" "Scalar52::from_bytes_wide"
    "index" "words[i]" 1
    (.guardedBy
      "loop variable ranges over 0..8 and the indexed array has length 8"),
  site! "curve25519-dalek/src/backend/serial/u64/scalar.rs" "Scalar52::from_bytes_wide"
    "index" "bytes[(i * 8) + j]" 1
    (.guardedBy
      "i < 8, j < 8, so i * 8 + j <= 63 < 64 = length of bytes"),
  site! "curve25519-dalek/src/backend/serial/u64/scalar.rs" "Scalar52::add"
    "index" "a[i]" 1
    (.guardedBy
      "loop variable ranges over 0..5 and the indexed array has length 5"),
  site! "curve25519-dalek/src/backend/serial/u64/scalar.rs" "Scalar52::add"
    "index" "b[i]" 1
    (.guardedBy
      "loop variable ranges over 0..5 and the indexed array has length 5"),
  site! "curve25519-dalek/src/backend/serial/u64/scalar.rs" "Scalar52::add"
    "index" "sum[i]" 1
    (.guardedBy
      "loop variable ranges over 0..5 and the indexed array has length 5"),
  site! "curve25519-dalek/src/backend/serial/u64/scalar.rs" "Scalar52::sub"
    "index" "a[i]" 1
    (.guardedBy
      "loop variable ranges over 0..5 and the indexed array has length 5"),
  site! "curve25519-dalek/src/backend/serial/u64/scalar.rs" "Scalar52::sub"
    "index" "b[i]" 1
    (.guardedBy
      "loop variable ranges over 0..5 and the indexed array has length 5"),
  site! "curve25519-dalek/src/backend/serial/u64/scalar.rs" "Scalar52::sub"
    "index" "difference[i]" 3
    (.guardedBy
      "loop variable ranges over 0..5 and the indexed array has length 5"),
  site! "curve25519-dalek/src/backend/serial/u64/scalar.rs" "Scalar52::sub"
    "index" "constants::L[i]" 1
    (.guardedBy
      "loop variable ranges over 0..5 and the indexed array has length 5"),
  site! "curve25519-dalek/src/backend/serial/u64/scalar.rs" "Scalar52::from_montgomery"
    "index" "limbs[i]" 1
    (.guardedBy
      "i ranges over 0..5; limbs : [u128; 9], self has 5 limbs"),
  site! "curve25519-dalek/src/backend/serial/u64/scalar.rs" "Scalar52::from_montgomery"
    "index" "self[i]" 1
    (.guardedBy
      "i ranges over 0..5; limbs : [u128; 9], self has 5 limbs"),
  -- -------------------- curve25519-dalek/src/backend/vector/avx2/edwards.rs
  site! "curve25519-dalek/src/backend/vector/avx2/edwards.rs" "<LookupTable as From<EdwardsPoint>>::from"
    "index" "points[i + 1]" 1
    (.guardedBy
      "i ranges over 0..7, points : [CachedPoint; 8]"),
  site! "curve25519-dalek/src/backend/vector/avx2/edwards.rs" "<LookupTable as From<EdwardsPoint>>::from"
    "index" "points[i]" 1
    (.guardedBy
      "i ranges over 0..7, points : [CachedPoint; 8]"),
  site! "curve25519-dalek/src/backend/vector/avx2/edwards.rs" "<NafLookupTable5 as From<EdwardsPoint>>::from"
    "index" "Ai[i + 1]" 1
    (.guardedBy
      "i ranges over 0..7, Ai : [CachedPoint; 8]"),
  site! "curve25519-dalek/src/backend/vector/avx2/edwards.rs" "<NafLookupTable5 as From<EdwardsPoint>>::from"
    "index" "Ai[i]" 1
    (.guardedBy
      "i ranges over 0..7, Ai : [CachedPoint; 8]"),
  site! "curve25519-dalek/src/backend/vector/avx2/edwards.rs" "<NafLookupTable8 as From<EdwardsPoint>>::from"
    "index" "Ai[i + 1]" 1
    (.guardedBy
      "i ranges over 0..63, Ai : [CachedPoint; 64]"),
  site! "curve25519-dalek/src/backend/vector/avx2/edwards.rs" "<NafLookupTable8 as From<EdwardsPoint>>::from"
    "index" "Ai[i]" 1
    (.guardedBy
      "i ranges over 0..63, Ai : [CachedPoint; 64]"),
  -- -------------------- curve25519-dalek/src/backend/vector/avx2/field.rs
  site! "curve25519-dalek/src/backend/vector/avx2/field.rs" "FieldElement2625x4::split"
    "index" "self.0[i]" 8
    (.guardedBy
      "loop variable ranges over 0..5 and the indexed array has length 5"),
  site! "curve25519-dalek/src/backend/vector/avx2/field.rs" "FieldElement2625x4::split"
    "index" "out[0].0[i]" 1
    (.guardedBy
      "loop variable ranges over 0..5 and the indexed array has length 5"),
  site! "curve25519-dalek/src/backend/vector/avx2/field.rs" "FieldElement2625x4::split"
    "index" "out[1].0[i]" 1
    (.guardedBy
      "loop variable ranges over 0..5 and the indexed array has length 5"),
  site! "curve25519-dalek/src/backend/vector/avx2/field.rs" "FieldElement2625x4::split"
    "index" "out[2].0[i]" 1
    (.guardedBy
      "loop variable ranges over 0..5 and the indexed array has length 5"),
  site! "curve25519-dalek/src/backend/vector/avx2/field.rs" "FieldElement2625x4::split"
    "index" "out[3].0[i]" 1
    (.guardedBy
      "loop variable ranges over 0..5 and the indexed array has length 5"),
  site! "curve25519-dalek/src/backend/vector/avx2/field.rs" "FieldElement2625x4::new"
    "index" "x0.0[i]" 2
    (.guardedBy
      "loop variable ranges over 0..5 and the indexed array has length 5"),
  site! "curve25519-dalek/src/backend/vector/avx2/field.rs" "FieldElement2625x4::new"
    "index" "x1.0[i]" 2
    (.guardedBy
      "loop variable ranges over 0..5 and the indexed array has length 5"),
  site! "curve25519-dalek/src/backend/vector/avx2/field.rs" "FieldElement2625x4::new"
    "index" "x2.0[i]" 2
    (.guardedBy
      "loop variable ranges over 0..5 and the indexed array has length 5"),
  site! "curve25519-dalek/src/backend/vector/avx2/field.rs" "FieldElement2625x4::new"
    "index" "x3.0[i]" 2
    (.guardedBy
      "loop variable ranges over 0..5 and the indexed array has length 5"),
  site! "curve25519-dalek/src/backend/vector/avx2/field.rs" "FieldElement2625x4::new"
    "index" "buf[i]" 1
    (.guardedBy
      "loop variable ranges over 0..5 and the indexed array has length 5"),
  site! "curve25519-dalek/src/backend/vector/avx2/field.rs" "FieldElement2625x4::reduce64"
    "debug_assert!" "debug_assert!(i < 9)" 1
    (.guardedBy
      "all 10 call sites of the closure pass a literal i in {0, ..., 8}"),
  site! "curve25519-dalek/src/backend/vector/avx2/field.rs" "FieldElement2625x4::reduce64"
    "index" "z[i + 1]" 2
    (.guardedBy
      "all 10 call sites of the closure pass a literal i <= 8, so i + 1 <= 9 < 10"),
  site! "curve25519-dalek/src/backend/vector/avx2/field.rs" "FieldElement2625x4::reduce64"
    "index" "z[i]" 4
    (.guardedBy
      "all 10 call sites of the closure pass a literal i <= 8, so i + 1 <= 9 < 10"),
  -- -------------------- curve25519-dalek/src/backend/vector/ifma/edwards.rs
  site! "curve25519-dalek/src/backend/vector/ifma/edwards.rs" "<LookupTable as From<EdwardsPoint>>::from"
    "index" "points[i + 1]" 1
    (.guardedBy
      "i ranges over 0..7, points : [CachedPoint; 8]"),
  site! "curve25519-dalek/src/backend/vector/ifma/edwards.rs" "<LookupTable as From<EdwardsPoint>>::from"
    "index" "points[i]" 1
    (.guardedBy
      "i ranges over 0..7, points : [CachedPoint; 8]"),
  site! "curve25519-dalek/src/backend/vector/ifma/edwards.rs" "<NafLookupTable5 as From<EdwardsPoint>>::from"
    "index" "Ai[i + 1]" 1
    (.guardedBy
      "i ranges over 0..7, Ai : [CachedPoint; 8]"),
  site! "curve25519-dalek/src/backend/vector/ifma/edwards.rs" "<NafLookupTable5 as From<EdwardsPoint>>::from"
    "index" "Ai[i]" 1
    (.guardedBy
      "i ranges over 0..7, Ai : [CachedPoint; 8]"),
  site! "curve25519-dalek/src/backend/vector/ifma/edwards.rs" "<NafLookupTable8 as From<EdwardsPoint>>::from"
    "index" "Ai[i + 1]" 1
    (.guardedBy
      "i ranges over 0..63, Ai : [CachedPoint; 64]"),
  site! "curve25519-dalek/src/backend/vector/ifma/edwards.rs" "<NafLookupTable8 as From<EdwardsPoint>>::from"
    "index" "Ai[i]" 1
    (.guardedBy
      "i ranges over 0..63, Ai : [CachedPoint; 64]"),
  -- -------------------- curve25519-dalek/src/backend/vector/scalar_mul/pippenger.rs
  site! "curve25519-dalek/src/backend/vector/scalar_mul/pippenger.rs" "spec::<Pippenger as VartimeMultiscalarMul>::optional_multiscalar_mul"
    "index" "digits[digit_index]" 1
    (.guardedBy
      "digit_index < digits_count = to_radix_2w_size_hint(w) in {43, 37, 33} <= 64 = length of the digit array [i8; 64]"),
  site! "curve25519-dalek/src/backend/vector/scalar_mul/pippenger.rs" "spec::<Pippenger as VartimeMultiscalarMul>::optional_multiscalar_mul"
    "index" "buckets[b]" 4
    (.provedBy "Dalek.Proofs.Recode.asRadix2w_out"
      "radix-2^w digits lie in [-2^(w-1), 2^(w-1)) and the digit at index 32 (w = 8) is 0 or 1: b = |digit| - 1 <= 2^(w-1) - 1 = buckets_count - 1; for w < 8 the folded final carry is 0 because scalars are < 2^255 (Scalar invariant #1)"),
  site! "curve25519-dalek/src/backend/vector/scalar_mul/pippenger.rs" "spec::<Pippenger as VartimeMultiscalarMul>::optional_multiscalar_mul"
    "index" "buckets[buckets_count - 1]" 2
    (.guardedBy
      "buckets has exactly buckets_count = 2^w / 2 >= 32 elements (collected from 0..buckets_count), w in {6, 7, 8}"),
  site! "curve25519-dalek/src/backend/vector/scalar_mul/pippenger.rs" "spec::<Pippenger as VartimeMultiscalarMul>::optional_multiscalar_mul"
    "index" "buckets[i]" 1
    (.guardedBy
      "i ranges over 0..buckets_count - 1, buckets.len() = buckets_count"),
  site! "curve25519-dalek/src/backend/vector/scalar_mul/pippenger.rs" "spec::<Pippenger as VartimeMultiscalarMul>::optional_multiscalar_mul"
    "expect" "columns.next().expect(\"should have more than zero digits\")" 1
    (.guardedBy
      "columns iterates over (0..digits_count).rev() with digits_count in {43, 37, 33} > 0, so next() is Some"),
  -- -------------------- curve25519-dalek/src/backend/vector/scalar_mul/precomputed_straus.rs
  site! "curve25519-dalek/src/backend/vector/scalar_mul/precomputed_straus.rs" "spec::<VartimePrecomputedStraus as VartimePrecomputedMultiscalarMul>::optional_mixed_multiscalar_mul"
    "assert!" "assert!(sp >= static_nafs.len())" 1
    (.documentedContract
      "VartimePrecomputedMultiscalarMul documents that the scalar / point iterators must have matching lengths; the arguments are caller-constructed iterators, not untrusted bytes; no C15 entry point calls this function"),
  site! "curve25519-dalek/src/backend/vector/scalar_mul/precomputed_straus.rs" "spec::<VartimePrecomputedStraus as VartimePrecomputedMultiscalarMul>::optional_mixed_multiscalar_mul"
    "assert_eq!" "assert_eq!(dp, dynamic_nafs.len())" 1
    (.documentedContract
      "VartimePrecomputedMultiscalarMul documents that the scalar / point iterators must have matching lengths; the arguments are caller-constructed iterators, not untrusted bytes; no C15 entry point calls this function"),
  site! "curve25519-dalek/src/backend/vector/scalar_mul/precomputed_straus.rs" "spec::<VartimePrecomputedStraus as VartimePrecomputedMultiscalarMul>::optional_mixed_multiscalar_mul"
    "index" "dynamic_nafs[i]" 1
    (.guardedBy
      "i < dp = dynamic_nafs.len() (assert_eq! above)"),
  site! "curve25519-dalek/src/backend/vector/scalar_mul/precomputed_straus.rs" "spec::<VartimePrecomputedStraus as VartimePrecomputedMultiscalarMul>::optional_mixed_multiscalar_mul"
    "index" "dynamic_nafs[i][j]" 1
    (.guardedBy
      "i < dp = dynamic_nafs.len() (assert_eq! above), j ranges over 0..256 = length of a NAF"),
  site! "curve25519-dalek/src/backend/vector/scalar_mul/precomputed_straus.rs" "spec::<VartimePrecomputedStraus as VartimePrecomputedMultiscalarMul>::optional_mixed_multiscalar_mul"
    "index" "dynamic_lookup_tables[i]" 2
    (.guardedBy
      "i < dp = dynamic_lookup_tables.len()"),
  site! "curve25519-dalek/src/backend/vector/scalar_mul/precomputed_straus.rs" "spec::<VartimePrecomputedStraus as VartimePrecomputedMultiscalarMul>::optional_mixed_multiscalar_mul"
    "index" "static_nafs[i]" 1
    (.guardedBy
      "i ranges over 0..static_nafs.len()"),
  site! "curve25519-dalek/src/backend/vector/scalar_mul/precomputed_straus.rs" "spec::<VartimePrecomputedStraus as VartimePrecomputedMultiscalarMul>::optional_mixed_multiscalar_mul"
    "index" "static_nafs[i][j]" 1
    (.guardedBy
      "i ranges over 0..static_nafs.len(), j over 0..256"),
  site! "curve25519-dalek/src/backend/vector/scalar_mul/precomputed_straus.rs" "spec::<VartimePrecomputedStraus as VartimePrecomputedMultiscalarMul>::optional_mixed_multiscalar_mul"
    "index" "self.static_lookup_tables[i]" 2
    (.guardedBy
      "i < static_nafs.len() <= sp = self.static_lookup_tables.len() (assert! above)"),
  -- -------------------- curve25519-dalek/src/backend/vector/scalar_mul/straus.rs
  site! "curve25519-dalek/src/backend/vector/scalar_mul/straus.rs" "spec::<Straus as MultiscalarMul>::multiscalar_mul"
    "index" "s_i[j]" 1
    (.guardedBy
      "j ranges over 0..64, s_i : [i8; 64]"),
  site! "curve25519-dalek/src/backend/vector/scalar_mul/straus.rs" "spec::<Straus as VartimeMultiscalarMul>::optional_multiscalar_mul"
    "index" "naf[i]" 3
    (.guardedBy
      "i ranges over 0..256, naf : [i8; 256]"),
  -- -------------------- curve25519-dalek/src/backend/vector/scalar_mul/variable_base.rs
  site! "curve25519-dalek/src/backend/vector/scalar_mul/variable_base.rs" "spec::mul"
    "index" "scalar_digits[i]" 1
    (.guardedBy
      "i ranges over 0..63, scalar_digits : [i8; 64]"),
  -- -------------------- curve25519-dalek/src/backend/vector/scalar_mul/vartime_double_base.rs
  site! "curve25519-dalek/src/backend/vector/scalar_mul/vartime_double_base.rs" "spec::mul"
    "index" "a_naf[i]" 4
    (.guardedBy
      "i is assigned from j in 0..256 and afterwards only decremented down to 0; the NAFs are [i8; 256]"),
  site! "curve25519-dalek/src/backend/vector/scalar_mul/vartime_double_base.rs" "spec::mul"
    "index" "b_naf[i]" 4
    (.guardedBy
      "i is assigned from j in 0..256 and afterwards only decremented down to 0; the NAFs are [i8; 256]"),
  -- -------------------- curve25519-dalek/src/edwards.rs
  site! "curve25519-dalek/src/edwards.rs" "<EdwardsPoint as Deserialize>::deserialize::<EdwardsPointVisitor as Visitor>::visit_seq"
    "index" "bytes[i]" 1
    (.guardedBy
      "loop variable ranges over 0..32 and the indexed array has length 32"),
  site! "curve25519-dalek/src/edwards.rs" "<CompressedEdwardsY as Deserialize>::deserialize::<CompressedEdwardsYVisitor as Visitor>::visit_seq"
    "index" "bytes[i]" 1
    (.guardedBy
      "loop variable ranges over 0..32 and the indexed array has length 32"),
  site! "curve25519-dalek/src/edwards.rs" "EdwardsPoint::nonspec_map_to_curve"
    "call:copy_from_slice" "res.copy_from_slice(&h[.. 32])" 1
    (.guardedBy
      "h is the 64-byte output of a Digest<OutputSize = U64>; &h[..32] has length 32 = length of res"),
  site! "curve25519-dalek/src/edwards.rs" "EdwardsPoint::nonspec_map_to_curve"
    "expect" "E1_opt.expect(\"Montgomery conversion to Edwards point in Elligator failed\")" 1
    (.provedBy "Dalek.Props.C15.Facts.elligator_on_curve"
      "for every field element r and sign bit, elligator_encode(r).to_edwards(sign) is Some.  With g(u) = u^3 + A u^2 + u: (i) 1 + 2 r^2 != 0 because -1/2 is a non-residue mod p (2 is a non-residue, -1 a residue), so d = -A / (1 + 2 r^2) is a true quotient and d != 0; (ii) g(d) != 0 because A^2 - 4 is a non-residue; the output is u = d if g(d) is a square and u = -A - d otherwise, and g(-A - d) = 2 r^2 g(d) (for r = 0: u = 0), so g(u) is always a square; (iii) u != -1 because g(-1) = A - 2 is a non-residue, hence to_edwards does not take its early None; (iv) for u != -1 with g(u) a square, y = (u - 1) / (u + 1) is the y-coordinate of a curve point (birational equivalence), so CompressedEdwardsY::decompress returns Some"),
  site! "curve25519-dalek/src/edwards.rs" "<EdwardsPoint as MultiscalarMul>::multiscalar_mul"
    "assert_eq!" "assert_eq!(s_lo, p_lo)" 1
    (.documentedContract
      "MultiscalarMul documents that both iterators must have equal, exact lengths; the arguments are caller-constructed iterators (not untrusted bytes) and no C15 entry point calls the constant-time multiscalar_mul"),
  site! "curve25519-dalek/src/edwards.rs" "<EdwardsPoint as MultiscalarMul>::multiscalar_mul"
    "assert_eq!" "assert_eq!(s_hi, Some(s_lo))" 1
    (.documentedContract
      "MultiscalarMul documents that both iterators must have equal, exact lengths; the arguments are caller-constructed iterators (not untrusted bytes) and no C15 entry point calls the constant-time multiscalar_mul"),
  site! "curve25519-dalek/src/edwards.rs" "<EdwardsPoint as MultiscalarMul>::multiscalar_mul"
    "assert_eq!" "assert_eq!(p_hi, Some(p_lo))" 1
    (.documentedContract
      "MultiscalarMul documents that both iterators must have equal, exact lengths; the arguments are caller-constructed iterators (not untrusted bytes) and no C15 entry point calls the constant-time multiscalar_mul"),
  site! "curve25519-dalek/src/edwards.rs" "<EdwardsPoint as VartimeMultiscalarMul>::optional_multiscalar_mul"
    "assert_eq!" "assert_eq!(s_lo, p_lo)" 1
    (.provedBy "Dalek.Props.C15.Facts.verify_batch_sizes_equal"
      "the only C15 entry point reaching this is verify_batch, which passes once(..).chain(zs.iter().cloned()).chain(zhrams) and B.chain(Rs).chain(As): Once/Chain/Cloned/Map/Zip over slice iterators have exact size hints (1 + 2n, Some(1 + 2n)) on both sides because signatures, messages and verifying_keys have equal lengths n (checked at entry, Err otherwise); for other callers this is the documented contract of VartimeMultiscalarMul (caller-constructed iterators)"),
  site! "curve25519-dalek/src/edwards.rs" "<EdwardsPoint as VartimeMultiscalarMul>::optional_multiscalar_mul"
    "assert_eq!" "assert_eq!(s_hi, Some(s_lo))" 1
    (.provedBy "Dalek.Props.C15.Facts.verify_batch_sizes_equal"
      "the only C15 entry point reaching this is verify_batch, which passes once(..).chain(zs.iter().cloned()).chain(zhrams) and B.chain(Rs).chain(As): Once/Chain/Cloned/Map/Zip over slice iterators have exact size hints (1 + 2n, Some(1 + 2n)) on both sides because signatures, messages and verifying_keys have equal lengths n (checked at entry, Err otherwise); for other callers this is the documented contract of VartimeMultiscalarMul (caller-constructed iterators)"),
  site! "curve25519-dalek/src/edwards.rs" "<EdwardsPoint as VartimeMultiscalarMul>::optional_multiscalar_mul"
    "assert_eq!" "assert_eq!(p_hi, Some(p_lo))" 1
    (.provedBy "Dalek.Props.C15.Facts.verify_batch_sizes_equal"
      "the only C15 entry point reaching this is verify_batch, which passes once(..).chain(zs.iter().cloned()).chain(zhrams) and B.chain(Rs).chain(As): Once/Chain/Cloned/Map/Zip over slice iterators have exact size hints (1 + 2n, Some(1 + 2n)) on both sides because signatures, messages and verifying_keys have equal lengths n (checked at entry, Err otherwise); for other callers this is the documented contract of VartimeMultiscalarMul (caller-constructed iterators)"),
  site! "curve25519-dalek/src/edwards.rs" "EdwardsPoint::mul_by_pow_2"
    "debug_assert!" "debug_assert!(k > 0)" 1
    (.guardedBy
      "every call site passes a literal k in {1, 2, 3, 4}, w in {6, 7, 8}, or the macro literal $radix in {4, ..., 8} (2 * $radix)"),
  site! "curve25519-dalek/src/edwards.rs" "macro_rules!impl_basepoint_table::create"
    "index" "table.0[i]" 1
    (.guardedBy
      "i ranges over 0..32 and the table is an array of 32 lookup tables"),
  site! "curve25519-dalek/src/edwards.rs" "macro_rules!impl_basepoint_table::mul_base"
    "index" "tables[i / 2]" 2
    (.guardedBy
      "i ranges over 0..$adds with $adds in {64, 52, 43, 37, 33} in the five instantiations, so i / 2 <= 31 < 32 = number of tables"),
  site! "curve25519-dalek/src/edwards.rs" "macro_rules!impl_basepoint_table::mul_base"
    "index" "a[i]" 2
    (.guardedBy
      "i ranges over 0..$adds with $adds <= 64 = length of the digit array [i8; 64] returned by as_radix_2w"),
  site! "curve25519-dalek/src/edwards.rs" "macro_rules!impl_basepoint_table::fmt"
    "index" "self.0[i]" 1
    (.unreachableFromUntrusted
      "Debug formatting of a basepoint table; i ranges over 0..32 = number of tables anyway"),
  -- -------------------- curve25519-dalek/src/field.rs
  site! "curve25519-dalek/src/field.rs" "FieldElement::batch_invert"
    "assert!" "assert!(bool::from(!acc.is_zero()))" 1
    (.provedBy "Dalek.Props.C15.Facts.batch_invert_acc_nonzero"
      "acc is a product of the non-zero inputs only (zeros are skipped by conditional_assign) and F_p is a field, so acc != 0 for every input slice"),
  -- -------------------- curve25519-dalek/src/montgomery.rs
  site! "curve25519-dalek/src/montgomery.rs" "MontgomeryPoint::mul_bits_be"
    "debug_assert!" "debug_assert!(choice == 0 || choice == 1)" 1
    (.guardedBy
      "choice = (bool ^ bool) as u8 is 0 or 1"),
  -- -------------------- curve25519-dalek/src/ristretto.rs
  site! "curve25519-dalek/src/ristretto.rs" "<RistrettoPoint as Deserialize>::deserialize::<RistrettoPointVisitor as Visitor>::visit_seq"
    "index" "bytes[i]" 1
    (.guardedBy
      "loop variable ranges over 0..32 and the indexed array has length 32"),
  site! "curve25519-dalek/src/ristretto.rs" "<CompressedRistretto as Deserialize>::deserialize::<CompressedRistrettoVisitor as Visitor>::visit_seq"
    "index" "bytes[i]" 1
    (.guardedBy
      "loop variable ranges over 0..32 and the indexed array has length 32"),
  site! "curve25519-dalek/src/ristretto.rs" "RistrettoPoint::from_hash"
    "call:copy_from_slice" "output_bytes.copy_from_slice(output.as_slice())" 1
    (.guardedBy
      "output is the 64-byte output of a Digest<OutputSize = U64>; output_bytes : [u8; 64]"),
  site! "curve25519-dalek/src/ristretto.rs" "RistrettoPoint::from_uniform_bytes"
    "call:copy_from_slice" "r_1_bytes.copy_from_slice(&bytes[0 .. 32])" 1
    (.guardedBy
      "bytes : &[u8; 64]; the literal ranges 0..32 and 32..64 have length 32 = length of the destination"),
  site! "curve25519-dalek/src/ristretto.rs" "RistrettoPoint::from_uniform_bytes"
    "call:copy_from_slice" "r_2_bytes.copy_from_slice(&bytes[32 .. 64])" 1
    (.guardedBy
      "bytes : &[u8; 64]; the literal ranges 0..32 and 32..64 have length 32 = length of the destination"),
  -- -------------------- curve25519-dalek/src/scalar.rs
  site! "curve25519-dalek/src/scalar.rs" "Scalar::from_bytes_mod_order"
    "debug_assert_eq!" "debug_assert_eq!(0u8, s[31] >> 7)" 1
    (.arithmeticC11
      "reduce() returns a value < l < 2^253, so bit 255 is clear (C02 Scalar52 montgomery_reduce / pack correctness)"),
  site! "curve25519-dalek/src/scalar.rs" "<Scalar as Index<usize>>::index"
    "index" "self.bytes[_index]" 1
    (.guardedBy
      "crate-private byte accessor (`impl Index<usize> for Scalar` is not public API surface for untrusted data): every use in the crate indexes with a literal <= 31 or a loop variable over 0..32; literal indices through this impl are NOT separately inventoried (see module doc)"),
  site! "curve25519-dalek/src/scalar.rs" "<Scalar as ConditionallySelectable>::conditional_select"
    "index" "bytes[i]" 1
    (.guardedBy
      "loop variable ranges over 0..32 and the indexed array has length 32"),
  site! "curve25519-dalek/src/scalar.rs" "<Scalar as ConditionallySelectable>::conditional_select"
    "index" "a.bytes[i]" 1
    (.guardedBy
      "loop variable ranges over 0..32 and the indexed array has length 32"),
  site! "curve25519-dalek/src/scalar.rs" "<Scalar as ConditionallySelectable>::conditional_select"
    "index" "b.bytes[i]" 1
    (.guardedBy
      "loop variable ranges over 0..32 and the indexed array has length 32"),
  site! "curve25519-dalek/src/scalar.rs" "<Scalar as Deserialize>::deserialize::<ScalarVisitor as Visitor>::visit_seq"
    "index" "bytes[i]" 1
    (.guardedBy
      "loop variable ranges over 0..32 and the indexed array has length 32"),
  site! "curve25519-dalek/src/scalar.rs" "<Scalar as From<u16>>::from"
    "slice" "s_bytes[0 .. x_bytes.len()]" 1
    (.guardedBy
      "x_bytes.len() = size_of the integer <= 16 <= 32 = length of s_bytes"),
  site! "curve25519-dalek/src/scalar.rs" "<Scalar as From<u16>>::from"
    "call:copy_from_slice" "s_bytes[0 .. x_bytes.len()].copy_from_slice(&x_bytes)" 1
    (.guardedBy
      "destination is s_bytes[0..x_bytes.len()], source &x_bytes: equal lengths"),
  site! "curve25519-dalek/src/scalar.rs" "<Scalar as From<u32>>::from"
    "slice" "s_bytes[0 .. x_bytes.len()]" 1
    (.guardedBy
      "x_bytes.len() = size_of the integer <= 16 <= 32 = length of s_bytes"),
  site! "curve25519-dalek/src/scalar.rs" "<Scalar as From<u32>>::from"
    "call:copy_from_slice" "s_bytes[0 .. x_bytes.len()].copy_from_slice(&x_bytes)" 1
    (.guardedBy
      "destination is s_bytes[0..x_bytes.len()], source &x_bytes: equal lengths"),
  site! "curve25519-dalek/src/scalar.rs" "<Scalar as From<u64>>::from"
    "slice" "s_bytes[0 .. x_bytes.len()]" 1
    (.guardedBy
      "x_bytes.len() = size_of the integer <= 16 <= 32 = length of s_bytes"),
  site! "curve25519-dalek/src/scalar.rs" "<Scalar as From<u64>>::from"
    "call:copy_from_slice" "s_bytes[0 .. x_bytes.len()].copy_from_slice(&x_bytes)" 1
    (.guardedBy
      "destination is s_bytes[0..x_bytes.len()], source &x_bytes: equal lengths"),
  site! "curve25519-dalek/src/scalar.rs" "<Scalar as From<u128>>::from"
    "slice" "s_bytes[0 .. x_bytes.len()]" 1
    (.guardedBy
      "x_bytes.len() = size_of the integer <= 16 <= 32 = length of s_bytes"),
  site! "curve25519-dalek/src/scalar.rs" "<Scalar as From<u128>>::from"
    "call:copy_from_slice" "s_bytes[0 .. x_bytes.len()].copy_from_slice(&x_bytes)" 1
    (.guardedBy
      "destination is s_bytes[0..x_bytes.len()], source &x_bytes: equal lengths"),
  site! "curve25519-dalek/src/scalar.rs" "Scalar::from_hash"
    "call:copy_from_slice" "output.copy_from_slice(hash.finalize().as_slice())" 1
    (.guardedBy
      "hash is a Digest<OutputSize = U64>: 64 bytes into output : [u8; 64]"),
  site! "curve25519-dalek/src/scalar.rs" "Scalar::batch_invert"
    "debug_assert!" "debug_assert!(acc.pack() != Scalar::ZERO)" 1
    (.documentedContract
      "Scalar::batch_invert documents that all inputs MUST be non-zero; acc is the product of the inputs, non-zero iff all inputs are (Z/l is a field); no C15 entry point calls it (debug builds only)"),
  site! "curve25519-dalek/src/scalar.rs" "Scalar::bits_le"
    "index" "self.bytes[i >> 3]" 1
    (.guardedBy
      "i ranges over 0..256, so i >> 3 <= 31 < 32"),
  site! "curve25519-dalek/src/scalar.rs" "Scalar::non_adjacent_form"
    "debug_assert!" "debug_assert!(w >= 2)" 1
    (.guardedBy
      "every call site passes a literal w in {5, 8}"),
  site! "curve25519-dalek/src/scalar.rs" "Scalar::non_adjacent_form"
    "debug_assert!" "debug_assert!(w <= 8)" 1
    (.guardedBy
      "every call site passes a literal w in {5, 8}"),
  site! "curve25519-dalek/src/scalar.rs" "Scalar::non_adjacent_form"
    "index" "x_u64[u64_idx]" 2
    (.guardedBy
      "pos < 256, so u64_idx = pos / 64 <= 3 < 5 = length of x_u64"),
  site! "curve25519-dalek/src/scalar.rs" "Scalar::non_adjacent_form"
    "index" "x_u64[1 + u64_idx]" 1
    (.guardedBy
      "u64_idx <= 3, so 1 + u64_idx <= 4 < 5 = length of x_u64 (the fifth word is 0)"),
  site! "curve25519-dalek/src/scalar.rs" "Scalar::non_adjacent_form"
    "index" "naf[pos]" 2
    (.guardedBy
      "inside `while pos < 256`, pos unchanged since the test; naf : [i8; 256]"),
  site! "curve25519-dalek/src/scalar.rs" "Scalar::as_radix_16"
    "debug_assert!" "debug_assert!(self[31] <= 127)" 1
    (.provedBy "Dalek.Props.C15.Facts.scalar_invariant_high_bit_clear"
      "Scalar invariant #1: every constructor (from_canonical_bytes, from_bytes_mod_order[_wide], from_bits / clamp_integer, arithmetic results via pack()) yields bytes[31] <= 127; Scalar.bytes is pub(crate)"),
  site! "curve25519-dalek/src/scalar.rs" "Scalar::as_radix_16"
    "index" "output[2 * i]" 1
    (.guardedBy
      "i ranges over 0..32, so 2 * i + 1 <= 63 < 64 = length of output"),
  site! "curve25519-dalek/src/scalar.rs" "Scalar::as_radix_16"
    "index" "self[i]" 2
    (.guardedBy
      "loop variable ranges over 0..32 and the indexed array has length 32"),
  site! "curve25519-dalek/src/scalar.rs" "Scalar::as_radix_16"
    "index" "output[2 * i + 1]" 1
    (.guardedBy
      "i ranges over 0..32, so 2 * i + 1 <= 63 < 64 = length of output"),
  site! "curve25519-dalek/src/scalar.rs" "Scalar::as_radix_16"
    "index" "output[i]" 2
    (.guardedBy
      "i ranges over 0..63, so i + 1 <= 63 < 64 = length of output"),
  site! "curve25519-dalek/src/scalar.rs" "Scalar::as_radix_16"
    "index" "output[i + 1]" 1
    (.guardedBy
      "i ranges over 0..63, so i + 1 <= 63 < 64 = length of output"),
  site! "curve25519-dalek/src/scalar.rs" "Scalar::to_radix_2w_size_hint"
    "debug_assert!" "debug_assert!(w >= 4)" 1
    (.guardedBy
      "call sites pass w in {6, 7, 8} (Pippenger) or the macro literal $radix in {4, ..., 8} (basepoint tables)"),
  site! "curve25519-dalek/src/scalar.rs" "Scalar::to_radix_2w_size_hint"
    "debug_assert!" "debug_assert!(w <= 8)" 1
    (.guardedBy
      "call sites pass w in {6, 7, 8} (Pippenger) or the macro literal $radix in {4, ..., 8} (basepoint tables)"),
  site! "curve25519-dalek/src/scalar.rs" "Scalar::to_radix_2w_size_hint"
    "div" "(256 + w - 1) / w" 1
    (.guardedBy
      "inside the match arms 4..=7 and 8: w != 0"),
  site! "curve25519-dalek/src/scalar.rs" "Scalar::to_radix_2w_size_hint"
    "div" "(256 + w - 1) / w + 1_usize" 1
    (.guardedBy
      "inside the match arms 4..=7 and 8: w != 0"),
  site! "curve25519-dalek/src/scalar.rs" "Scalar::to_radix_2w_size_hint"
    "panic!" "panic!(\"invalid radix parameter\")" 1
    (.guardedBy
      "reached only for w outside 4..=8; the two call sites (serial and vector Pippenger) pass w in {6, 7, 8}"),
  site! "curve25519-dalek/src/scalar.rs" "Scalar::to_radix_2w_size_hint"
    "debug_assert!" "debug_assert!(digits_count <= 64)" 1
    (.guardedBy
      "digits_count in {64, 52, 43, 37, 33} for w in {4, ..., 8}"),
  site! "curve25519-dalek/src/scalar.rs" "Scalar::as_radix_2w"
    "debug_assert!" "debug_assert!(w >= 4)" 1
    (.guardedBy
      "call sites pass w in {6, 7, 8} (Pippenger) or the macro literal $radix in {4, ..., 8} (basepoint tables)"),
  site! "curve25519-dalek/src/scalar.rs" "Scalar::as_radix_2w"
    "debug_assert!" "debug_assert!(w <= 8)" 1
    (.guardedBy
      "call sites pass w in {6, 7, 8} (Pippenger) or the macro literal $radix in {4, ..., 8} (basepoint tables)"),
  site! "curve25519-dalek/src/scalar.rs" "Scalar::as_radix_2w"
    "div" "(256 + w - 1) / w" 1
    (.guardedBy
      "call sites pass w in {5, ..., 8} (w = 4 returns earlier): w != 0"),
  site! "curve25519-dalek/src/scalar.rs" "Scalar::as_radix_2w"
    "index" "scalar64x4[u64_idx]" 2
    (.guardedBy
      "u64_idx = (i * w) / 64 with i * w <= (digits_count - 1) * w <= 255, so u64_idx <= 3 < 4"),
  site! "curve25519-dalek/src/scalar.rs" "Scalar::as_radix_2w"
    "index" "scalar64x4[1 + u64_idx]" 1
    (.guardedBy
      "else-branch of `bit_idx < 64 - w || u64_idx == 3`: u64_idx <= 2, so 1 + u64_idx <= 3 < 4"),
  site! "curve25519-dalek/src/scalar.rs" "Scalar::as_radix_2w"
    "index" "digits[i]" 1
    (.guardedBy
      "i < digits_count <= 52 < 64 = length of digits"),
  site! "curve25519-dalek/src/scalar.rs" "Scalar::as_radix_2w"
    "index" "digits[digits_count]" 1
    (.guardedBy
      "only in the arm w = 8, where digits_count = 32 < 64"),
  site! "curve25519-dalek/src/scalar.rs" "Scalar::as_radix_2w"
    "index" "digits[digits_count - 1]" 1
    (.guardedBy
      "digits_count = ceil(256 / w) in {52, 43, 37} for w in {5, 6, 7}: 1 <= digits_count <= 64"),
  site! "curve25519-dalek/src/scalar.rs" "read_le_u64_into"
    "assert!" "assert!(src.len() == 8 * dst.len(), \"src.len() = {}, dst.len() = {}\", src.len(), dst.len())" 1
    (.guardedBy
      "private fn; the two call sites pass (&self.bytes, &mut x[0..4]) with bytes : [u8; 32]: 32 = 8 * 4"),
  site! "curve25519-dalek/src/scalar.rs" "read_le_u64_into"
    "call:chunks" "src.chunks(8)" 1
    (.guardedBy
      "literal chunk size 8 != 0"),
  site! "curve25519-dalek/src/scalar.rs" "read_le_u64_into"
    "expect" "bytes.try_into().expect(\"Incorrect src length, should be 8 * dst.len()\")" 1
    (.guardedBy
      "src.len() = 8 * dst.len() (assert! above), so every chunk of chunks(8) has exactly 8 bytes and try_into::<[u8; 8]> is Ok"),
  -- -------------------- curve25519-dalek/src/traits.rs
  site! "curve25519-dalek/src/traits.rs" "VartimeMultiscalarMul::vartime_multiscalar_mul"
    "expect" "..._multiscalar_mul(scalars, points.into_iter().map(| P | Some(P.borrow().clone())),).expect(\"should return some point\")" 1
    (.provedBy "Dalek.Props.C15.Facts.optional_some_of_all_some"
      "every implementation of optional_[mixed_]multiscalar_mul (serial/vector Straus, Pippenger, precomputed Straus, the Edwards/Ristretto dispatchers) returns None only via `collect::<Option<Vec<_>>>()?` when some point is None; here every point is wrapped in Some"),
  site! "curve25519-dalek/src/traits.rs" "VartimePrecomputedMultiscalarMul::vartime_mixed_multiscalar_mul"
    "expect" "... dynamic_scalars, dynamic_points.into_iter().map(| P | Some(P.borrow().clone())),).expect(\"should return some point\")" 1
    (.provedBy "Dalek.Props.C15.Facts.optional_some_of_all_some"
      "every implementation of optional_[mixed_]multiscalar_mul (serial/vector Straus, Pippenger, precomputed Straus, the Edwards/Ristretto dispatchers) returns None only via `collect::<Option<Vec<_>>>()?` when some point is None; here every point is wrapped in Some"),
  -- -------------------- curve25519-dalek/src/window.rs
  site! "curve25519-dalek/src/window.rs" "macro_rules!impl_lookup_table::select"
    "debug_assert!" "debug_assert!(x >= $neg)" 1
    (.provedBy "Dalek.Proofs.Recode.asRadix16_gen / Dalek.Proofs.Recode.asRadix2w_out"
      "the digit passed to select lies in [-$size, $size]: radix-16 digits lie in [-8, 8) (digit 63 in [0, 8] for scalars < 2^255): resp. radix-2^w digits lie in [-2^(w-1), 2^(w-1)) and the digit at index 32 (w = 8) is 0 or 1: (debug builds only; in release an out-of-range digit selects the identity, no panic)"),
  site! "curve25519-dalek/src/window.rs" "macro_rules!impl_lookup_table::select"
    "debug_assert!" "debug_assert!(x as i16 <= $size as i16)" 1
    (.provedBy "Dalek.Proofs.Recode.asRadix16_gen / Dalek.Proofs.Recode.asRadix2w_out"
      "the digit passed to select lies in [-$size, $size]: radix-16 digits lie in [-8, 8) (digit 63 in [0, 8] for scalars < 2^255): resp. radix-2^w digits lie in [-2^(w-1), 2^(w-1)) and the digit at index 32 (w = 8) is 0 or 1: (debug builds only; in release an out-of-range digit selects the identity, no panic)"),
  site! "curve25519-dalek/src/window.rs" "macro_rules!impl_lookup_table::select"
    "index" "self.0[j - 1]" 1
    (.guardedBy
      "j ranges over $range = 1..$size + 1 in all five instantiations (1..9/8, 1..17/16, 1..33/32, 1..65/64, 1..129/128), so j - 1 < $size"),
  site! "curve25519-dalek/src/window.rs" "macro_rules!impl_lookup_table::from"
    "index" "points[j + 1]" 2
    (.guardedBy
      "j ranges over $conv_range = 0..$size - 1 in all five instantiations (0..7/8, 0..15/16, 0..31/32, 0..63/64, 0..127/128)"),
  site! "curve25519-dalek/src/window.rs" "macro_rules!impl_lookup_table::from"
    "index" "points[j]" 2
    (.guardedBy
      "j ranges over $conv_range = 0..$size - 1 in all five instantiations (0..7/8, 0..15/16, 0..31/32, 0..63/64, 0..127/128)"),
  site! "curve25519-dalek/src/window.rs" "NafLookupTable5::select"
    "debug_assert_eq!" "debug_assert_eq!(x & 1, 1)" 1
    (.provedBy "Dalek.Proofs.Recode.nonAdjacentForm_out"
      "non-zero NAF digits are odd with |d| < 2^(w-1) (NafOut; model-level theorem about Dalek.Model.Recode.nonAdjacentForm, tied to the source by the C04 correspondence): w = 5: x odd and x < 16"),
  site! "curve25519-dalek/src/window.rs" "NafLookupTable5::select"
    "debug_assert!" "debug_assert!(x < 16)" 1
    (.provedBy "Dalek.Proofs.Recode.nonAdjacentForm_out"
      "non-zero NAF digits are odd with |d| < 2^(w-1) (NafOut; model-level theorem about Dalek.Model.Recode.nonAdjacentForm, tied to the source by the C04 correspondence): w = 5: x odd and x < 16"),
  site! "curve25519-dalek/src/window.rs" "NafLookupTable5::select"
    "index" "self.0[x / 2]" 1
    (.provedBy "Dalek.Proofs.Recode.nonAdjacentForm_out"
      "non-zero NAF digits are odd with |d| < 2^(w-1) (NafOut; model-level theorem about Dalek.Model.Recode.nonAdjacentForm, tied to the source by the C04 correspondence): w = 5: x < 16, so x / 2 < 8 = table length"),
  site! "curve25519-dalek/src/window.rs" "<NafLookupTable5 as From<EdwardsPoint>>::from"
    "index" "Ai[i + 1]" 2
    (.guardedBy
      "i ranges over 0..7, Ai : [_; 8]"),
  site! "curve25519-dalek/src/window.rs" "<NafLookupTable5 as From<EdwardsPoint>>::from"
    "index" "Ai[i]" 2
    (.guardedBy
      "i ranges over 0..7, Ai : [_; 8]"),
  site! "curve25519-dalek/src/window.rs" "NafLookupTable8::select"
    "debug_assert_eq!" "debug_assert_eq!(x & 1, 1)" 1
    (.provedBy "Dalek.Proofs.Recode.nonAdjacentForm_out"
      "non-zero NAF digits are odd with |d| < 2^(w-1) (NafOut; model-level theorem about Dalek.Model.Recode.nonAdjacentForm, tied to the source by the C04 correspondence): w = 8: x odd and x < 128"),
  site! "curve25519-dalek/src/window.rs" "NafLookupTable8::select"
    "debug_assert!" "debug_assert!(x < 128)" 1
    (.provedBy "Dalek.Proofs.Recode.nonAdjacentForm_out"
      "non-zero NAF digits are odd with |d| < 2^(w-1) (NafOut; model-level theorem about Dalek.Model.Recode.nonAdjacentForm, tied to the source by the C04 correspondence): w = 8: x odd and x < 128"),
  site! "curve25519-dalek/src/window.rs" "NafLookupTable8::select"
    "index" "self.0[x / 2]" 1
    (.provedBy "Dalek.Proofs.Recode.nonAdjacentForm_out"
      "non-zero NAF digits are odd with |d| < 2^(w-1) (NafOut; model-level theorem about Dalek.Model.Recode.nonAdjacentForm, tied to the source by the C04 correspondence): w = 8: x < 128, so x / 2 < 64 = table length"),
  site! "curve25519-dalek/src/window.rs" "<NafLookupTable8 as Debug>::fmt"
    "index" "self.0[i]" 1
    (.unreachableFromUntrusted
      "Debug formatting of a crate-private table; i ranges over 0..64 anyway"),
  site! "curve25519-dalek/src/window.rs" "<NafLookupTable8 as From<EdwardsPoint>>::from"
    "index" "Ai[i + 1]" 2
    (.guardedBy
      "i ranges over 0..63, Ai : [_; 64]"),
  site! "curve25519-dalek/src/window.rs" "<NafLookupTable8 as From<EdwardsPoint>>::from"
    "index" "Ai[i]" 2
    (.guardedBy
      "i ranges over 0..63, Ai : [_; 64]"),
  -- -------------------- ed25519-dalek/src/batch.rs
  site! "ed25519-dalek/src/batch.rs" "verify_batch"
    "index" "signatures[i]" 1
    (.guardedBy
      "i ranges over 0..signatures.len(); messages and verifying_keys have the same length (checked at entry, Err otherwise)"),
  site! "ed25519-dalek/src/batch.rs" "verify_batch"
    "index" "verifying_keys[i]" 1
    (.guardedBy
      "i ranges over 0..signatures.len(); messages and verifying_keys have the same length (checked at entry, Err otherwise)"),
  site! "ed25519-dalek/src/batch.rs" "verify_batch"
    "index" "messages[i]" 1
    (.guardedBy
      "i ranges over 0..signatures.len(); messages and verifying_keys have the same length (checked at entry, Err otherwise)"),
  -- -------------------- ed25519-dalek/src/hazmat.rs
  site! "ed25519-dalek/src/hazmat.rs" "ExpandedSecretKey::from_bytes"
    "call:copy_from_slice" "scalar_bytes.copy_from_slice(&bytes[00 .. 32])" 1
    (.guardedBy
      "bytes : &[u8; 64]; literal ranges of length 32 into [u8; 32] destinations"),
  site! "ed25519-dalek/src/hazmat.rs" "ExpandedSecretKey::from_bytes"
    "call:copy_from_slice" "hash_prefix.copy_from_slice(&bytes[32 .. 64])" 1
    (.guardedBy
      "bytes : &[u8; 64]; literal ranges of length 32 into [u8; 32] destinations"),
  -- -------------------- ed25519-dalek/src/signature.rs
  site! "ed25519-dalek/src/signature.rs" "InternalSignature::from_bytes"
    "call:copy_from_slice" "R_bytes.copy_from_slice(&bytes[00 .. 32])" 1
    (.guardedBy
      "bytes : &[u8; 64]; literal ranges of length 32 into [u8; 32] destinations"),
  site! "ed25519-dalek/src/signature.rs" "InternalSignature::from_bytes"
    "call:copy_from_slice" "s_bytes.copy_from_slice(&bytes[32 .. 64])" 1
    (.guardedBy
      "bytes : &[u8; 64]; literal ranges of length 32 into [u8; 32] destinations"),
  -- -------------------- ed25519-dalek/src/signing.rs
  site! "ed25519-dalek/src/signing.rs" "SigningKey::from_keypair_bytes"
    "call:split_at" "bytes.split_at(SECRET_KEY_LENGTH)" 1
    (.guardedBy
      "bytes : &[u8; 64], SECRET_KEY_LENGTH = 32 <= 64"),
  site! "ed25519-dalek/src/signing.rs" "SigningKey::to_keypair_bytes"
    "slice" "bytes[.. SECRET_KEY_LENGTH]" 1
    (.guardedBy
      "bytes : [u8; 64], SECRET_KEY_LENGTH = 32 <= 64"),
  site! "ed25519-dalek/src/signing.rs" "SigningKey::to_keypair_bytes"
    "call:copy_from_slice" "bytes[.. SECRET_KEY_LENGTH].copy_from_slice(&self.secret_key)" 1
    (.guardedBy
      "both halves of the 64-byte array have length 32 = length of secret_key resp. verifying_key.as_bytes()"),
  site! "ed25519-dalek/src/signing.rs" "SigningKey::to_keypair_bytes"
    "slice" "bytes[SECRET_KEY_LENGTH ..]" 1
    (.guardedBy
      "bytes : [u8; 64], SECRET_KEY_LENGTH = 32 <= 64"),
  site! "ed25519-dalek/src/signing.rs" "SigningKey::to_keypair_bytes"
    "call:copy_from_slice" "bytes[SECRET_KEY_LENGTH ..].copy_from_slice(self.verifying_key.as_bytes())" 1
    (.guardedBy
      "both halves of the 64-byte array have length 32 = length of secret_key resp. verifying_key.as_bytes()"),
  site! "ed25519-dalek/src/signing.rs" "SigningKey::to_scalar_bytes"
    "call:copy_from_slice" "buf.copy_from_slice(&scalar_and_hash_prefix[.. 32])" 1
    (.guardedBy
      "SHA-512 output has 64 bytes; [..32] has length 32 = length of buf"),
  site! "ed25519-dalek/src/signing.rs" "<SigningKey as Deserialize>::deserialize::<SigningKeyVisitor as Visitor>::visit_seq"
    "index" "bytes[i]" 1
    (.guardedBy
      "loop variable ranges over 0..32 and the indexed array has length 32"),
  site! "ed25519-dalek/src/signing.rs" "ExpandedSecretKey::raw_sign_prehashed"
    "call:copy_from_slice" "prehash.copy_from_slice(prehashed_message.finalize().as_slice())" 1
    (.guardedBy
      "MsgDigest : Digest<OutputSize = U64>: 64 bytes into prehash : [u8; 64]"),
  -- -------------------- ed25519-dalek/src/verifying.rs
  site! "ed25519-dalek/src/verifying.rs" "<VerifyingKey as Deserialize>::deserialize::<VerifyingKeyVisitor as Visitor>::visit_seq"
    "index" "bytes[i]" 1
    (.guardedBy
      "loop variable ranges over 0..32 and the indexed array has length 32")
]

/-- the discharge of a site: the first entry with the site's key that covers its occurrence number -/
def lookupKey (key occ : Nat) : Option Discharge :=
  match table.find? (fun e => e.key == key && occ < e.count) with
  | some e => some e.discharge
  | none => none

def lookup (s : PanicSite) : Option Discharge := lookupKey s.key s.occ

/-! Integrity of the numeric keys (checked by evaluation when this file is built). -/
#guard table.all (fun e => e.key == encodeKey e.file e.func e.kind e.text)
#guard panicSites.all (fun s => s.key == encodeKey s.file s.func s.kind s.text)
#guard scanErrors.isEmpty

end Dalek.Model.PanicTable

/-
Helper lemmas for C17 part B (group half): the hand model `Dalek/Model/Group.lean` of the
`group::GroupEncoding` / `group::cofactor::CofactorGroup` implementations (`edFromBytes`, `subFromBytes`,
`risFromBytes`, `intoSubgroup`, `clearCofactor`), their meaning in the group `Ed` of the curve, the
extended-coordinate (`EPt`) forms executed by the model driver, and `sqrtRatio`
(`ff::helpers::sqrt_ratio_generic`).
-/
import Dalek.Proofs.GroupSqrt

namespace Dalek.Proofs.Group

open Dalek.Spec Dalek.Bridge Dalek.Model
open Dalek.Model.Group (TM1D2 ROOT_OF_UNITY)

/-! ## `subFromBytes`, `intoSubgroup`, `clearCofactor` -/

theorem subFromBytes_eq_some_iff (b : List UInt8) (p : Pt) :
    Model.Group.subFromBytes b = some p ↔ decompress b = some p ∧ isTorsionFree p = true := by
  unfold Model.Group.subFromBytes
  cases hd : decompress b with
  | none => simp
  | some q =>
    by_cases ht : isTorsionFree q = true
    · simp only [ht, if_true, Option.some.injEq]
      constructor
      · rintro rfl; exact ⟨rfl, ht⟩
      · rintro ⟨rfl, -⟩; rfl
    · simp only [ht, Option.some.injEq]
      constructor
      · intro h; cases h
      · rintro ⟨rfl, h⟩; exact absurd h ht

theorem subFromBytes_eq (b : List UInt8) :
    Model.Group.subFromBytes b = (decompress b).bind Model.Group.intoSubgroup := by
  unfold Model.Group.subFromBytes Model.Group.intoSubgroup
  cases decompress b <;> rfl

theorem intoSubgroup_eq_some_iff (p q : Pt) :
    Model.Group.intoSubgroup p = some q ↔ q = p ∧ isTorsionFree p = true := by
  unfold Model.Group.intoSubgroup
  by_cases ht : isTorsionFree p = true
  · simp only [ht, if_true, Option.some.injEq, and_true]; exact eq_comm
  · simp only [ht, and_false]
    constructor
    · intro h; cases h
    · exact False.elim

theorem intoSubgroup_isSome (p : Pt) :
    (Model.Group.intoSubgroup p).isSome = isTorsionFree p := by
  unfold Model.Group.intoSubgroup
  cases isTorsionFree p <;> rfl

theorem subFromBytes_isSome_iff (b : List UInt8) :
    (Model.Group.subFromBytes b).isSome = true ↔
      ∃ p, decompress b = some p ∧ isTorsionFree p = true := by
  rw [Option.isSome_iff_exists]
  exact exists_congr fun p => subFromBytes_eq_some_iff b p

/-! ## The extended-coordinate forms executed by the driver -/

/-- `EPt.decompress` followed by `toAffine` is the specification `decompress`. -/
theorem decompressE_toAffine (b : List UInt8) :
    (EPt.decompress b).map EPt.toAffine = decompress b := by
  unfold EPt.decompress
  cases hd : decompress b with
  | none => rfl
  | some p =>
    obtain ⟨hp, cp, -⟩ := decompress_some hd
    simp only [Option.map_some]
    rw [toAffine_ofAffine hp, Nat.mod_eq_of_lt cp.1, Nat.mod_eq_of_lt cp.2]

/-- A valid extended point is torsion free iff its affine image is (the specification predicate). -/
theorem isTorsionFreeE_eq {e : EPt} (he : e.Valid) : e.isTorsionFree = isTorsionFree e.toAffine := by
  obtain ⟨Q, hQ⟩ := he
  have h1 := isTorsionFree_iff_E hQ
  have hr := rep_toAffine hQ
  have h2 := isTorsionFree_iff hr.on
  rw [hr.toEd_eq hr.on] at h2
  rw [Bool.eq_iff_iff, h1, h2]

/-- `mul_by_pow_2(3)` on a valid extended point is `clearCofactor` of its affine image. -/
theorem mulByPow2_three_toAffine {e : EPt} (he : e.Valid) :
    (EPt.mulByPow2 3 e).toAffine = Model.Group.clearCofactor e.toAffine := by
  obtain ⟨Q, hQ⟩ := he
  have h1 := rep_toAffine (erep_mulByPow2 hQ 3)
  have h2 := rep_smul (rep_toAffine hQ) 8
  have e8 : (2 : Nat) ^ 3 = 8 := by norm_num
  rw [e8] at h1
  exact Rep.unique h1 h2 (canon_toAffine _) (canon_smul 8 _)

theorem isTorsionFree_ofAffine {p : Pt} (hp : onCurve p = true) :
    (EPt.ofAffine p).isTorsionFree = isTorsionFree p := by
  have h1 := isTorsionFree_iff_E (erep_ofAffine (rep_toEd p hp))
  rw [Bool.eq_iff_iff, h1, isTorsionFree_iff hp]

/-- The driver's `grp.sub_from_bytes` computation, mapped to affine, is `subFromBytes`. -/
theorem subFromBytesE_toAffine (b : List UInt8) :
    (match EPt.decompress b with
      | some e => if EPt.isTorsionFree e then some e else none
      | none => none).map EPt.toAffine = Model.Group.subFromBytes b := by
  unfold Model.Group.subFromBytes EPt.decompress
  cases hd : decompress b with
  | none => rfl
  | some p =>
    obtain ⟨hp, cp, -⟩ := decompress_some hd
    simp only [Option.map_some]
    rw [isTorsionFree_ofAffine hp]
    cases isTorsionFree p
    · rfl
    · simp only [if_true, Option.map_some]
      rw [toAffine_ofAffine hp, Nat.mod_eq_of_lt cp.1, Nat.mod_eq_of_lt cp.2]

/-! ## `sqrtRatio` -/

theorem cast_L_half_pos : L / 2 = 2 * (2 * TM1D2 + 1) := by decide +kernel

theorem root_ne_zero : (ROOT_OF_UNITY : Fl) ≠ 0 := by
  intro h
  have := root_sq
  rw [h, mul_zero] at this
  exact neg_ne_zero.2 one_ne_zero this.symm

/-- `ROOT_OF_UNITY^((ℓ-1)/2) = -1`: the root of unity is a non-residue. -/
theorem root_pow_half : (ROOT_OF_UNITY : Fl) ^ (L / 2) = -1 := by
  rw [cast_L_half_pos, pow_mul, sq, root_sq]
  exact Odd.neg_one_pow ⟨TM1D2, rfl⟩

/-- A non-residue times `ROOT_OF_UNITY` is a residue. -/
theorem isSquare_mul_root {a : Fl} (ha : ¬ IsSquare a) : IsSquare (a * (ROOT_OF_UNITY : Fl)) := by
  have ha0 : a ≠ 0 := fun h => ha (h ▸ IsSquare.zero)
  have h1 : a ^ (L / 2) = -1 := by
    rcases ZMod.pow_div_two_eq_neg_one_or_one L ha0 with h | h
    · exact absurd ((ZMod.euler_criterion L ha0).2 h) ha
    · exact h
  rw [ZMod.euler_criterion L (mul_ne_zero ha0 root_ne_zero), mul_pow, h1, root_pow_half]
  norm_num

theorem sqrt_zero_mod {x : Nat} (h : x % L = 0) : Model.Group.sqrt x = some 0 := by
  have hs : IsSquare ((x : Nat) : Fl) := by
    rw [(castL_eq_zero_iff x).2 h]; exact IsSquare.zero
  cases hr : Model.Group.sqrt x with
  | none => exact absurd hs ((sqrt_none_iff x).1 hr)
  | some r =>
    obtain ⟨hlt, hsq, -⟩ := sqrt_some hr
    rw [h] at hsq
    have : ((r : Nat) : Fl) * ((r : Nat) : Fl) = 0 := by
      rw [← Nat.cast_mul, castL_eq_zero_iff]; exact hsq
    have hr0 : ((r : Nat) : Fl) = ((0 : Nat) : Fl) := by
      rw [Nat.cast_zero]; exact mul_self_eq_zero.1 this
    rw [(castL_inj_of_lt hlt L_pos).1 hr0]

/-- The quotient computed by `sqrtRatio` (`0` when the divisor is `0`). -/
theorem cast_ratio (num div : Nat) :
    ((Spec.smul ((Model.Group.invert (div % L)).getD 0) (num % L) : Nat) : Fl) =
      (num : Fl) / (div : Fl) := by
  rw [cast_smul, cast_mod_L]
  by_cases h : div % L = 0
  · have h' : div % L % L = 0 := by rw [Nat.mod_mod]; exact h
    rw [(invert_none_iff _).2 h', Option.getD_none, Nat.cast_zero, (castL_eq_zero_iff div).2 h]
    simp
  · have h' : div % L % L ≠ 0 := by rw [Nat.mod_mod]; exact h
    rw [invert_of_ne h', Option.getD_some, cast_sinv, cast_mod_L]
    ring

end Dalek.Proofs.Group

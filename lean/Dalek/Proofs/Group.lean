/-
Helper lemmas for C17 part B (group half): the hand model `Dalek/Model/Group.lean` of the
`group::GroupEncoding` / `group::cofactor::CofactorGroup` implementations (`edFromBytes`, `subFromBytes`,
`risFromBytes`, `intoSubgroup`, `clearCofactor`), their meaning in the group `Ed` of the curve, the
extended-coordinate (`EPt`) forms executed by the model driver, and `sqrtRatio`
(`ff::helpers::sqrt_ratio_generic`).
-/
import Dalek.Proofs.GroupSqrt

namespace Dalek.Proofs.Group

open Dalek.Spec Dalek.Bridge Dalek.Model
open Dalek.Model.Group (TM1D2 ROOT_OF_UNITY)

/-! ## `subFromBytes`, `intoSubgroup`, `clearCofactor`

Care is needed never to let the elaborator or the kernel weak-head normalise `decompress b` or
`isTorsionFree p` for a variable argument (the unfolding of the 250-step exponentiation / scalar
multiplication explodes): `subFromBytes` is a `match` on `decompress b`, and matchers are unfolded eagerly in
definitional equality checks.  We therefore unfold it at the function level, generalise the discriminant, and
from then on only use the `Option.bind` form `subFromBytes_eq`. -/

attribute [local irreducible] Dalek.Spec.decompress Dalek.Spec.isTorsionFree

theorem subFromBytes_fun :
    Model.Group.subFromBytes = fun b => (decompress b).bind Model.Group.intoSubgroup := by
  delta Model.Group.subFromBytes
  funext b
  generalize decompress b = o
  cases o with
  | none => rfl
  | some p =>
    rw [Option.bind_some]
    unfold Model.Group.intoSubgroup
    exact Eq.refl _

/-- `subFromBytes = decompress >=> intoSubgroup`. -/
theorem subFromBytes_eq (b : List UInt8) :
    Model.Group.subFromBytes b = (decompress b).bind Model.Group.intoSubgroup := by
  rw [subFromBytes_fun]

theorem intoSubgroup_eq_some_iff (p q : Pt) :
    Model.Group.intoSubgroup p = some q ↔ q = p ∧ isTorsionFree p = true := by
  unfold Model.Group.intoSubgroup
  by_cases ht : isTorsionFree p = true
  · rw [if_pos ht]
    constructor
    · intro h; exact ⟨(Option.some.inj h).symm, ht⟩
    · rintro ⟨rfl, -⟩; rfl
  · rw [if_neg ht]
    constructor
    · intro h; cases h
    · rintro ⟨-, h⟩; exact absurd h ht

theorem intoSubgroup_isSome (p : Pt) :
    (Model.Group.intoSubgroup p).isSome = isTorsionFree p := by
  unfold Model.Group.intoSubgroup
  cases isTorsionFree p <;> rfl

theorem subFromBytes_eq_some_iff (b : List UInt8) (p : Pt) :
    Model.Group.subFromBytes b = some p ↔ decompress b = some p ∧ isTorsionFree p = true := by
  rw [subFromBytes_eq]
  cases hd : decompress b with
  | none =>
    rw [Option.bind_none]
    constructor
    · intro h; cases h
    · rintro ⟨h, -⟩; cases h
  | some q =>
    rw [Option.bind_some, intoSubgroup_eq_some_iff]
    constructor
    · rintro ⟨rfl, h⟩; exact ⟨rfl, h⟩
    · rintro ⟨h, ht⟩
      have : q = p := Option.some.inj h
      subst this; exact ⟨rfl, ht⟩

theorem subFromBytes_isSome_iff (b : List UInt8) :
    (Model.Group.subFromBytes b).isSome = true ↔
      ∃ p, decompress b = some p ∧ isTorsionFree p = true := by
  rw [Option.isSome_iff_exists]
  exact exists_congr fun p => subFromBytes_eq_some_iff b p

/-! ## Small-order points are not torsion free -/

theorem gcd_eight_L : Nat.gcd 8 L = 1 := by decide +kernel

/-- In the group: `8·Q = 0` and `ℓ·Q = 0` force `Q = 0` (`gcd(8, ℓ) = 1`). -/
theorem eq_zero_of_eight_of_L {Q : Ed} (h8 : 8 • Q = 0) (hL : L • Q = 0) : Q = 0 := by
  have d8 := addOrderOf_dvd_of_nsmul_eq_zero h8
  have dL := addOrderOf_dvd_of_nsmul_eq_zero hL
  have d1 := Nat.dvd_gcd d8 dL
  rw [gcd_eight_L, Nat.dvd_one] at d1
  exact AddMonoid.addOrderOf_eq_one_iff.1 d1

/-- A canonical curve point of small order other than the identity is not torsion free. -/
theorem not_torsionFree_of_smallOrder {p : Pt} (hp : onCurve p = true) (cp : Canon p)
    (h8 : isSmallOrder p = true) (hne : p ≠ Pt.zero) : isTorsionFree p = false := by
  rw [← Bool.not_eq_true]
  intro hL
  have h0 := eq_zero_of_eight_of_L ((isSmallOrder_iff hp).1 h8) ((isTorsionFree_iff hp).1 hL)
  have := (isIdentity_iff hp cp).2 h0
  unfold isIdentity at this
  exact hne (beq_iff_eq.1 this)

/-- The basepoint is torsion free (`[ℓ]B = 0`, `Bridge/Order.lean`). -/
theorem isTorsionFree_B : isTorsionFree B = true := (isTorsionFree_iff onCurve_B).2 L_nsmul_Bpt

/-! ## The extended-coordinate forms executed by the driver -/

/-- `EPt.decompress` followed by `toAffine` is the specification `decompress`. -/
theorem decompressE_toAffine (b : List UInt8) :
    (EPt.decompress b).map EPt.toAffine = decompress b := by
  unfold EPt.decompress
  cases hd : decompress b with
  | none => rfl
  | some p =>
    obtain ⟨hp, cp, -⟩ := decompress_some hd
    simp only [Option.map_some]
    rw [toAffine_ofAffine hp, Nat.mod_eq_of_lt cp.1, Nat.mod_eq_of_lt cp.2]

/-- A valid extended point is torsion free iff its affine image is (the specification predicate). -/
theorem isTorsionFreeE_eq {e : EPt} (he : e.Valid) : e.isTorsionFree = isTorsionFree e.toAffine := by
  obtain ⟨Q, hQ⟩ := he
  have h1 := isTorsionFree_iff_E hQ
  have hr := rep_toAffine hQ
  have h2 := isTorsionFree_iff hr.on
  rw [hr.toEd_eq hr.on] at h2
  rw [Bool.eq_iff_iff, h1, h2]

/-- `mul_by_pow_2(3)` on a valid extended point is `clearCofactor` of its affine image. -/
theorem mulByPow2_three_toAffine {e : EPt} (he : e.Valid) :
    (EPt.mulByPow2 3 e).toAffine = Model.Group.clearCofactor e.toAffine := by
  obtain ⟨Q, hQ⟩ := he
  have h1 := rep_toAffine (erep_mulByPow2 hQ 3)
  have h2 := rep_smul (rep_toAffine hQ) 8
  have e8 : (2 : Nat) ^ 3 = 8 := by norm_num
  rw [e8] at h1
  exact Rep.unique h1 h2 (canon_toAffine _) (canon_smul 8 _)

theorem isTorsionFree_ofAffine {p : Pt} (hp : onCurve p = true) :
    (EPt.ofAffine p).isTorsionFree = isTorsionFree p := by
  have h1 := isTorsionFree_iff_E (erep_ofAffine (rep_toEd p hp))
  rw [Bool.eq_iff_iff, h1, isTorsionFree_iff hp]

/-- The driver's `grp.sub_from_bytes` computation (`match EPt.decompress b with | some e => if
e.isTorsionFree then some e else none | none => none`, written with `Option.bind`), mapped to affine, is
`subFromBytes`. -/
theorem subFromBytesE_toAffine (b : List UInt8) :
    ((EPt.decompress b).bind (fun e => if EPt.isTorsionFree e then some e else none)).map EPt.toAffine =
      Model.Group.subFromBytes b := by
  rw [subFromBytes_eq]
  unfold EPt.decompress
  cases hd : decompress b with
  | none => rfl
  | some p =>
    obtain ⟨hp, cp, -⟩ := decompress_some hd
    rw [Option.map_some, Option.bind_some, Option.bind_some, isTorsionFree_ofAffine hp]
    unfold Model.Group.intoSubgroup
    by_cases ht : isTorsionFree p = true
    · rw [if_pos ht, if_pos ht, Option.map_some, toAffine_ofAffine hp, Nat.mod_eq_of_lt cp.1,
        Nat.mod_eq_of_lt cp.2]
    · rw [if_neg ht, if_neg ht, Option.map_none]

/-! ## `sqrtRatio` -/

theorem cast_L_half_pos : L / 2 = 2 * (2 * TM1D2 + 1) := by decide +kernel

theorem root_ne_zero : (ROOT_OF_UNITY : Fl) ≠ 0 := by
  intro h
  have := root_sq
  rw [h, mul_zero] at this
  exact neg_ne_zero.2 one_ne_zero this.symm

/-- `ROOT_OF_UNITY^((ℓ-1)/2) = -1`: the root of unity is a non-residue. -/
theorem root_pow_half : (ROOT_OF_UNITY : Fl) ^ (L / 2) = -1 := by
  rw [cast_L_half_pos, pow_mul, sq, root_sq]
  exact Odd.neg_one_pow ⟨TM1D2, rfl⟩

/-- A non-residue times `ROOT_OF_UNITY` is a residue. -/
theorem isSquare_mul_root {a : Fl} (ha : ¬ IsSquare a) : IsSquare (a * (ROOT_OF_UNITY : Fl)) := by
  have ha0 : a ≠ 0 := fun h => ha (h ▸ IsSquare.zero)
  have h1 : a ^ (L / 2) = -1 := by
    rcases ZMod.pow_div_two_eq_neg_one_or_one L ha0 with h | h
    · exact absurd ((ZMod.euler_criterion L ha0).2 h) ha
    · exact h
  rw [ZMod.euler_criterion L (mul_ne_zero ha0 root_ne_zero), mul_pow, h1, root_pow_half]
  norm_num

theorem sqrt_zero_mod {x : Nat} (h : x % L = 0) : Model.Group.sqrt x = some 0 := by
  have hs : IsSquare ((x : Nat) : Fl) := by
    rw [(castL_eq_zero_iff x).2 h]; exact IsSquare.zero
  cases hr : Model.Group.sqrt x with
  | none => exact absurd hs ((sqrt_none_iff x).1 hr)
  | some r =>
    obtain ⟨hlt, hsq, -⟩ := sqrt_some hr
    rw [h] at hsq
    have : ((r : Nat) : Fl) * ((r : Nat) : Fl) = 0 := by
      rw [← Nat.cast_mul, castL_eq_zero_iff]; exact hsq
    have hr0 : ((r : Nat) : Fl) = ((0 : Nat) : Fl) := by
      rw [Nat.cast_zero]; exact mul_self_eq_zero.1 this
    rw [(castL_inj_of_lt hlt L_pos).1 hr0]

/-- The quotient computed by `sqrtRatio` (`0` when the divisor is `0`). -/
theorem cast_ratio (num div : Nat) :
    ((Spec.smul ((Model.Group.invert (div % L)).getD 0) (num % L) : Nat) : Fl) =
      (num : Fl) / (div : Fl) := by
  rw [cast_smul, cast_mod_L]
  by_cases h : div % L = 0
  · have h' : div % L % L = 0 := by rw [Nat.mod_mod]; exact h
    rw [(invert_none_iff _).2 h', Option.getD_none, Nat.cast_zero, (castL_eq_zero_iff div).2 h]
    simp
  · have h' : div % L % L ≠ 0 := by rw [Nat.mod_mod]; exact h
    rw [invert_of_ne h', Option.getD_some, cast_sinv, cast_mod_L]
    ring

theorem flag_iff (n d : Nat) : (n == 0 || !(d == 0)) = true ↔ (n = 0 ∨ d ≠ 0) := by
  by_cases hn : n = 0 <;> by_cases hd : d = 0 <;> simp [hn, hd]

theorem flag_false_iff (n d : Nat) : (n == 0 || !(d == 0)) = false ↔ (n ≠ 0 ∧ d = 0) := by
  by_cases hn : n = 0 <;> by_cases hd : d = 0 <;> simp [hn, hd]

/-- `sqrtRatio` in terms of `sqrt` of the quotient `a` and of `a·ROOT_OF_UNITY`. -/
theorem sqrtRatio_eq (num div : Nat) :
    Model.Group.sqrtRatio num div =
      let a := Spec.smul ((Model.Group.invert (div % L)).getD 0) (num % L)
      ((Model.Group.sqrt a).isSome && (num % L == 0 || !(div % L == 0)),
        (if (Model.Group.sqrt a).isSome then Model.Group.sqrt a
          else Model.Group.sqrt (Spec.smul a ROOT_OF_UNITY)).getD 0) := rfl

/-- **Specification of `sqrtRatio`** (`ff::Field::sqrt_ratio`, generic implementation), in `ℤ/ℓ`. -/
theorem sqrtRatio_spec (num div : Nat) :
    (Model.Group.sqrtRatio num div).2 < L ∧
    ((Model.Group.sqrtRatio num div).1 = true ↔
      (num % L = 0 ∨ (div % L ≠ 0 ∧ IsSquare ((num : Fl) / (div : Fl))))) ∧
    ((Model.Group.sqrtRatio num div).1 = true →
      (((Model.Group.sqrtRatio num div).2 : Nat) : Fl) ^ 2 * (div : Fl) = (num : Fl)) ∧
    ((Model.Group.sqrtRatio num div).1 = false → div % L ≠ 0 →
      (((Model.Group.sqrtRatio num div).2 : Nat) : Fl) ^ 2 * (div : Fl) =
        (ROOT_OF_UNITY : Fl) * (num : Fl)) ∧
    ((Model.Group.sqrtRatio num div).1 = false → div % L = 0 →
      (Model.Group.sqrtRatio num div).2 = 0) := by
  rw [sqrtRatio_eq]
  have hcast := cast_ratio num div
  generalize Spec.smul ((Model.Group.invert (div % L)).getD 0) (num % L) = a at hcast
  dsimp only
  have hnum : num % L = 0 ↔ (num : Fl) = 0 := (castL_eq_zero_iff num).symm
  have hdiv : div % L = 0 ↔ (div : Fl) = 0 := (castL_eq_zero_iff div).symm
  cases hA : Model.Group.sqrt a with
  | some r =>
    obtain ⟨hlt, hsq, -⟩ := sqrt_some hA
    have hr : (r : Fl) ^ 2 = (num : Fl) / (div : Fl) := by
      rw [← hcast, sq, ← Nat.cast_mul, castL_eq_iff]; exact hsq
    simp only [Option.isSome_some, if_true, Option.getD_some, Bool.true_and]
    rw [flag_iff, flag_false_iff]
    refine ⟨hlt, ?_, ?_, ?_, ?_⟩
    · constructor
      · rintro (h | h)
        · exact Or.inl h
        · exact Or.inr ⟨h, ⟨(r : Fl), by rw [← hr, sq]⟩⟩
      · rintro (h | ⟨h, -⟩)
        · exact Or.inl h
        · exact Or.inr h
    · rintro (h | h)
      · rw [hnum] at h
        rw [hr, h, zero_div, zero_mul]
      · have h' : (div : Fl) ≠ 0 := fun e => h (hdiv.2 e)
        rw [hr, div_mul_cancel₀ _ h']
    · rintro ⟨-, h⟩ h'; exact absurd h h'
    · rintro ⟨-, h⟩ -
      rw [hdiv] at h
      rw [h, div_zero] at hr
      have hr0 : ((r : Nat) : Fl) = ((0 : Nat) : Fl) := by
        rw [Nat.cast_zero]; exact (pow_eq_zero_iff two_ne_zero).1 hr
      exact (castL_inj_of_lt hlt L_pos).1 hr0
  | none =>
    have hns : ¬ IsSquare ((a : Nat) : Fl) := (sqrt_none_iff a).1 hA
    rw [hcast] at hns
    have hq0 : (num : Fl) / (div : Fl) ≠ 0 := fun h => hns (h ▸ IsSquare.zero)
    have hn0 : (num : Fl) ≠ 0 := fun h => hq0 (by rw [h, zero_div])
    have hd0 : (div : Fl) ≠ 0 := fun h => hq0 (by rw [h, div_zero])
    have hsB : IsSquare (((Spec.smul a ROOT_OF_UNITY : Nat) : Fl)) := by
      rw [cast_smul, hcast]; exact isSquare_mul_root hns
    simp only [Option.isSome_none, Bool.false_and, Bool.false_eq_true, if_false, false_iff, not_or,
      not_and, false_imp_iff, true_and, forall_const]
    cases hB : Model.Group.sqrt (Spec.smul a ROOT_OF_UNITY) with
    | none => exact absurd hsB ((sqrt_none_iff _).1 hB)
    | some r =>
      obtain ⟨hlt, hsq, -⟩ := sqrt_some hB
      have hr : (r : Fl) ^ 2 = (num : Fl) / (div : Fl) * (ROOT_OF_UNITY : Fl) := by
        rw [← hcast, ← cast_smul, sq, ← Nat.cast_mul, castL_eq_iff]; exact hsq
      rw [Option.getD_some]
      refine ⟨hlt, ⟨fun h => hn0 (hnum.1 h), fun _ => hns⟩, ?_, ?_⟩
      · intro _
        rw [hr]; field_simp
      · intro h; exact absurd (hdiv.1 h) hd0

end Dalek.Proofs.Group

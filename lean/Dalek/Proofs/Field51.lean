import Dalek.Proofs.LimbTac
import Dalek.Gen.Norm.Field51
/-! Functional correctness of the translated serial-u64 field kernels in `ZMod p`, for ALL integer inputs
(bounds are not needed for these identities; they are needed, and proved separately by the analyser,
for "the Rust arithmetic does not overflow, so it computes these integer functions"). -/
namespace Dalek.Proofs.Field51
open Dalek Dalek.Gen.Norm.Field51

abbrev P : Nat := 2 ^ 255 - 19

/-- value of a 5-limb radix-2^51 vector -/
def rep51 (l : List Int) : Int :=
  l.getD 0 0 + 2 ^ 51 * l.getD 1 0 + 2 ^ 102 * l.getD 2 0 + 2 ^ 153 * l.getD 3 0 + 2 ^ 204 * l.getD 4 0

macro "limb_finish" : tactic =>
  `(tactic| (simp only [rep51, List.getD_cons_zero, List.getD_cons_succ, emod_emod_pow _ (show 51 ≤ 64 by norm_num)] at *
             limb_push
             simp only [*]
             ring_nf
             try reduce_mod_char))

theorem mul_correct (x0 x1 x2 x3 x4 x5 x6 x7 x8 x9 : Int) :
    ((rep51 (mul_fn x0 x1 x2 x3 x4 x5 x6 x7 x8 x9) : Int) : ZMod P)
      = ((rep51 [x0, x1, x2, x3, x4] : Int) : ZMod P) * ((rep51 [x5, x6, x7, x8, x9] : Int) : ZMod P) := by
  limb_lets mul_fn
  cast_eqs (ZMod P)
  limb_finish

theorem pow2k_body_correct (x0 x1 x2 x3 x4 : Int) :
    ((rep51 (pow2k_body_fn x0 x1 x2 x3 x4) : Int) : ZMod P)
      = ((rep51 [x0, x1, x2, x3, x4] : Int) : ZMod P) ^ 2 := by
  limb_lets pow2k_body_fn
  cast_eqs (ZMod P)
  limb_finish

theorem add_correct (x0 x1 x2 x3 x4 x5 x6 x7 x8 x9 : Int) :
    ((rep51 (add_fn x0 x1 x2 x3 x4 x5 x6 x7 x8 x9) : Int) : ZMod P)
      = ((rep51 [x0, x1, x2, x3, x4] : Int) : ZMod P) + ((rep51 [x5, x6, x7, x8, x9] : Int) : ZMod P) := by
  limb_lets add_fn
  cast_eqs (ZMod P)
  limb_finish

theorem sub_correct (x0 x1 x2 x3 x4 x5 x6 x7 x8 x9 : Int) :
    ((rep51 (sub_fn x0 x1 x2 x3 x4 x5 x6 x7 x8 x9) : Int) : ZMod P)
      = ((rep51 [x0, x1, x2, x3, x4] : Int) : ZMod P) - ((rep51 [x5, x6, x7, x8, x9] : Int) : ZMod P) := by
  limb_lets sub_fn
  cast_eqs (ZMod P)
  limb_finish

theorem neg_correct (x0 x1 x2 x3 x4 : Int) :
    ((rep51 (neg_fn x0 x1 x2 x3 x4) : Int) : ZMod P) = - ((rep51 [x0, x1, x2, x3, x4] : Int) : ZMod P) := by
  limb_lets neg_fn
  cast_eqs (ZMod P)
  limb_finish

theorem reduce_correct (x0 x1 x2 x3 x4 : Int) :
    ((rep51 (reduce_fn x0 x1 x2 x3 x4) : Int) : ZMod P) = ((rep51 [x0, x1, x2, x3, x4] : Int) : ZMod P) := by
  limb_lets reduce_fn
  cast_eqs (ZMod P)
  limb_finish

theorem square2_tail_correct (x0 x1 x2 x3 x4 : Int) :
    ((rep51 (square2_tail_fn x0 x1 x2 x3 x4) : Int) : ZMod P) = 2 * ((rep51 [x0, x1, x2, x3, x4] : Int) : ZMod P) := by
  limb_lets square2_tail_fn
  cast_eqs (ZMod P)
  limb_finish

end Dalek.Proofs.Field51

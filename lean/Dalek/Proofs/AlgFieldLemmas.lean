/-
`sqrt_ratio_i` in the field: the mathematical mirror `sqrtRatioFp` of the translated program, its
agreement with the executable specification `Spec.sqrtRatioM1` on canonical representatives, and the
four-case contract imported from `Bridge.sqrtRatioM1_spec`.

* `sqrt_ratio_i_sh_eq`, `invsqrt_sh_eq`   the translated programs (run by `zmodOps`) compute `sqrtRatioFp`
* `sqrtRatioFp_eq_spec`                   `sqrtRatioFp u v = (c2f ok, r)` for `(ok, r) = sqrtRatioM1 u.val v.val`
* `sqrtRatioFp_spec`, `sqrtRatioFp_ok_iff`, `sqrtRatioFp_ok`, `sqrtRatioFp_not_isNeg`   the contract in `Fp`
-/
import Dalek.Proofs.AlgTac
import Dalek.Gen.AlgFieldSh

namespace Dalek.Proofs

open Dalek.IR Dalek.Spec Dalek.Gen.AlgField
open Dalek.FieldFacts (sqrtM1)

/-- `(p - 5) / 8 = 2^252 - 3`, the exponent of `pow_p58`. -/
theorem p58_eq : (P - 5) / 8 = 2 ^ 252 - 3 := by decide +kernel

/-- The candidate root `u v³ (u v⁷)^((p-5)/8)`. -/
noncomputable def sqrtCand (u v : Fp) : Fp := u * v ^ 3 * (u * v ^ 7) ^ (2 ^ 252 - 3)

/-- `sqrt_ratio_i(u, v)` as a function on the field: `(was_nonzero_square, r)`, the first component
being the choice (`0`/`1`), following the steps of the Rust function / RFC 9496 `SQRT_RATIO_M1`. -/
noncomputable def sqrtRatioFp (u v : Fp) : Fp × Fp :=
  let r := sqrtCand u v
  let check := v * r ^ 2
  let r' := if check = -u ∨ check = -u * sqrtM1 then sqrtM1 * r else r
  (c2f (check = u ∨ check = -u), if fpIsNeg r' then -r' else r')

/-- The translated `FieldElement::sqrt_ratio_i`, interpreted in `Fp`, computes `sqrtRatioFp`. -/
theorem sqrt_ratio_i_sh_eq (u v : Fp) :
    sqrt_ratio_i_sh zmodOps u v = [(sqrtRatioFp u v).1, (sqrtRatioFp u v).2] := by
  alg_lets sqrt_ratio_i_sh
  simp only [sqrtRatioFp, sqrtCand]
  ring_nf

/-- The translated `FieldElement::invsqrt` is `sqrt_ratio_i(1, ·)`. -/
theorem invsqrt_sh_eq (x : Fp) :
    invsqrt_sh zmodOps x = [(sqrtRatioFp 1 x).1, (sqrtRatioFp 1 x).2] := by
  alg_lets invsqrt_sh
  simp only [sqrtRatioFp, sqrtCand]
  ring_nf

/-! ## Agreement with the executable specification -/

theorem cast_fabs_ite (x : Nat) :
    ((fabs x : Nat) : Fp) = if fpIsNeg (x : Fp) then -(x : Fp) else (x : Fp) := by
  unfold fabs
  by_cases h : isNeg x = true
  · have h' : fpIsNeg (x : Fp) := (Bridge.isNeg_iff_val x).1 h
    rw [if_pos h, if_pos h', Bridge.cast_fneg]
  · have h' : ¬ fpIsNeg (x : Fp) := fun h' => h ((Bridge.isNeg_iff_val x).2 h')
    rw [if_neg h, if_neg h', Bridge.cast_mod_P]

/-- **The field function `sqrtRatioFp` is the executable specification `Spec.sqrtRatioM1`** on the
canonical representatives. -/
theorem sqrtRatioFp_eq_spec (u v : Fp) :
    sqrtRatioFp u v =
      (c2f ((sqrtRatioM1 u.val v.val).1 = true), (((sqrtRatioM1 u.val v.val).2 : Nat) : Fp)) := by
  have hu : ((u.val : Nat) : Fp) = u := ZMod.natCast_zmod_val u
  have hv : ((v.val : Nat) : Fp) = v := ZMod.natCast_zmod_val v
  generalize u.val = a at hu
  generalize v.val = b at hv
  have hc : ((Bridge.cand a b : Nat) : Fp) = sqrtCand u v := by
    rw [Bridge.cast_cand, hu, hv, p58_eq]; unfold sqrtCand; rfl
  have hk : ((Bridge.chk a b : Nat) : Fp) = v * sqrtCand u v ^ 2 := by
    rw [Bridge.cast_chk', hc, hv]
  have e1 : (Bridge.chk a b == a % P) = true ↔ v * sqrtCand u v ^ 2 = u := by
    rw [Bridge.beq_iff_cast (Bridge.chk_lt a b) (Nat.mod_lt _ Bridge.P_pos), Bridge.cast_mod_P, hk, hu]
  have e2 : (Bridge.chk a b == fneg (a % P)) = true ↔ v * sqrtCand u v ^ 2 = -u := by
    rw [Bridge.beq_iff_cast (Bridge.chk_lt a b) (Bridge.fneg_lt _), Bridge.cast_fneg,
      Bridge.cast_mod_P, hk, hu]
  have e3 : (Bridge.chk a b == fmul (fneg (a % P)) SQRT_M1) = true ↔
      v * sqrtCand u v ^ 2 = -u * sqrtM1 := by
    rw [Bridge.beq_iff_cast (Bridge.chk_lt a b) (Bridge.fmul_lt _ _), Bridge.cast_fmul,
      Bridge.cast_fneg, Bridge.cast_mod_P, Bridge.cast_SQRT_M1, hk, hu]
  have hcond : ((Bridge.chk a b == fneg (a % P)) || (Bridge.chk a b == fmul (fneg (a % P)) SQRT_M1)) = true ↔
      (v * sqrtCand u v ^ 2 = -u ∨ v * sqrtCand u v ^ 2 = -u * sqrtM1) := by
    rw [Bool.or_eq_true, e2, e3]
  rw [Bridge.sqrtRatioM1_unfold]
  unfold sqrtRatioFp
  generalize sqrtCand u v = c at hc hk e1 e2 e3 hcond
  generalize Bridge.cand a b = n at hc hk e1 e2 e3 hcond
  generalize Bridge.chk a b = k at hk e1 e2 e3 hcond
  refine Prod.ext ?_ ?_
  · show c2f _ = c2f _
    apply c2f_congr
    rw [Bool.or_eq_true, e1, e2]
  · show (if fpIsNeg _ then _ else _) = ((fabs _ : Nat) : Fp)
    rw [cast_fabs_ite]
    by_cases h : (v * c ^ 2 = -u ∨ v * c ^ 2 = -u * sqrtM1)
    · simp only [if_pos h, if_pos (hcond.2 h), Bridge.cast_fmul, Bridge.cast_SQRT_M1, hc]
    · simp only [if_neg h, if_neg (fun h' => h (hcond.1 h')), hc]

/-! ## The contract in the field -/

theorem sqrtRatioFp_fst (u v : Fp) :
    (sqrtRatioFp u v).1 = c2f ((sqrtRatioM1 u.val v.val).1 = true) := by
  rw [sqrtRatioFp_eq_spec]

theorem sqrtRatioFp_snd (u v : Fp) :
    (sqrtRatioFp u v).2 = (((sqrtRatioM1 u.val v.val).2 : Nat) : Fp) := by
  rw [sqrtRatioFp_eq_spec]

/-- The returned root is non-negative. -/
theorem sqrtRatioFp_not_isNeg (u v : Fp) : ¬ fpIsNeg (sqrtRatioFp u v).2 := by
  rw [sqrtRatioFp_snd]
  show ¬ ((((sqrtRatioM1 u.val v.val).2 : Nat) : Fp)).val % 2 = 1
  rw [Bridge.val_cast, Nat.mod_eq_of_lt (Bridge.sqrtRatioM1_lt _ _), Bridge.sqrtRatioM1_even]
  decide

/-- The flag is a choice. -/
theorem sqrtRatioFp_flag (u v : Fp) : (sqrtRatioFp u v).1 = 0 ∨ (sqrtRatioFp u v).1 = 1 := by
  unfold sqrtRatioFp c2f; dsimp only; split
  · right; rfl
  · left; rfl

private theorem flag_true {u v : Fp} (h : (sqrtRatioM1 u.val v.val).1 = true) : (sqrtRatioFp u v).1 = 1 := by
  rw [sqrtRatioFp_fst]; exact c2f_true h

private theorem flag_false {u v : Fp} (h : (sqrtRatioM1 u.val v.val).1 = false) : (sqrtRatioFp u v).1 = 0 := by
  rw [sqrtRatioFp_fst]; exact c2f_false (by rw [h]; decide)

/-- **Contract of `sqrt_ratio_i`** (the four documented cases), in the field; in every case the root
is non-negative (`sqrtRatioFp_not_isNeg`). -/
theorem sqrtRatioFp_spec (u v : Fp) :
    (u = 0 → sqrtRatioFp u v = (1, 0)) ∧
    (v = 0 → u ≠ 0 → sqrtRatioFp u v = (0, 0)) ∧
    (v ≠ 0 → IsSquare (u / v) → (sqrtRatioFp u v).1 = 1 ∧ (sqrtRatioFp u v).2 ^ 2 * v = u) ∧
    (v ≠ 0 → ¬ IsSquare (u / v) → (sqrtRatioFp u v).1 = 0 ∧ (sqrtRatioFp u v).2 ^ 2 * v = sqrtM1 * u) := by
  have hu : ((u.val : Nat) : Fp) = u := ZMod.natCast_zmod_val u
  have hv : ((v.val : Nat) : Fp) = v := ZMod.natCast_zmod_val v
  obtain ⟨-, -, h1, h2, h3, h4⟩ := Bridge.sqrtRatioM1_spec u.val v.val
  simp only [hu, hv] at h1 h2 h3 h4
  refine ⟨fun h => ?_, fun h h' => ?_, fun h h' => ?_, fun h h' => ?_⟩
  · refine Prod.ext ?_ ?_
    · exact flag_true (by rw [h1 h])
    · rw [sqrtRatioFp_snd, h1 h]; exact Nat.cast_zero
  · refine Prod.ext ?_ ?_
    · exact flag_false (by rw [h2 h h'])
    · rw [sqrtRatioFp_snd, h2 h h']; exact Nat.cast_zero
  · obtain ⟨a, b⟩ := h3 h h'
    refine ⟨flag_true a, ?_⟩
    rw [sqrtRatioFp_snd]; exact b
  · obtain ⟨a, b⟩ := h4 h h'
    refine ⟨flag_false a, ?_⟩
    rw [sqrtRatioFp_snd]; exact b

/-- The flag is set exactly when `u = 0`, or `v ≠ 0` and `u / v` is a square. -/
theorem sqrtRatioFp_ok_iff (u v : Fp) :
    (sqrtRatioFp u v).1 = 1 ↔ (u = 0 ∨ (v ≠ 0 ∧ IsSquare (u / v))) := by
  have hu : ((u.val : Nat) : Fp) = u := ZMod.natCast_zmod_val u
  have hv : ((v.val : Nat) : Fp) = v := ZMod.natCast_zmod_val v
  have h := Bridge.sqrtRatioM1_ok_iff u.val v.val
  simp only [hu, hv] at h
  rw [← h, sqrtRatioFp_fst]; exact c2f_eq_one_iff

theorem sqrtRatioFp_flag_ne_zero_iff (u v : Fp) :
    (sqrtRatioFp u v).1 ≠ 0 ↔ (u = 0 ∨ (v ≠ 0 ∧ IsSquare (u / v))) := by
  rw [← sqrtRatioFp_ok_iff]
  rcases sqrtRatioFp_flag u v with h | h <;> rw [h] <;> simp

/-- When the flag is set, `r² v = u`. -/
theorem sqrtRatioFp_ok {u v : Fp} (h : (sqrtRatioFp u v).1 = 1) : (sqrtRatioFp u v).2 ^ 2 * v = u := by
  have hu : ((u.val : Nat) : Fp) = u := ZMod.natCast_zmod_val u
  have hv : ((v.val : Nat) : Fp) = v := ZMod.natCast_zmod_val v
  rw [sqrtRatioFp_fst] at h
  rw [sqrtRatioFp_snd]
  have := Bridge.sqrtRatioM1_ok (c2f_eq_one_iff.1 h)
  simp only [hu, hv] at this; exact this

/-! `sqrtCand` contains the exponent `2^252 - 3`: seal both definitions so that no later unifier / `whnf`
call tries to evaluate it (unfold explicitly with `simp only [sqrtRatioFp, sqrtCand]` / `unfold`). -/
attribute [irreducible] sqrtCand sqrtRatioFp

/-- info: 'Dalek.Proofs.sqrt_ratio_i_sh_eq' depends on axioms: [propext, Classical.choice, Quot.sound] -/
#guard_msgs in #print axioms sqrt_ratio_i_sh_eq

/-- info: 'Dalek.Proofs.sqrtRatioFp_spec' depends on axioms: [propext, Classical.choice, Quot.sound] -/
#guard_msgs in #print axioms sqrtRatioFp_spec

end Dalek.Proofs

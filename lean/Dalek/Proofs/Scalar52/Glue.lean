import Dalek.Proofs.Scalar52.Compose
/-! # Scalar52: glue between the `Nat`-level property statements and the `Int`-level kernel lemmas -/
set_option exponentiation.threshold 600

namespace Dalek.Proofs.Scalar52
open Dalek.IR

theorem val_of_toZ {out : List Nat} {o : List Int} (h : toZ out = o) : (val52 out : Int) = repZ o := by
  rw [← repZ_toZ, h]

theorem repZ_cast5 (a0 a1 a2 a3 a4 : Nat) :
    repZ [(a0 : Int), a1, a2, a3, a4] = (val52 [a0, a1, a2, a3, a4] : Int) := repZ_toZ [a0, a1, a2, a3, a4]

theorem repZ_cast9 (a0 a1 a2 a3 a4 a5 a6 a7 a8 : Nat) :
    repZ [(a0 : Int), a1, a2, a3, a4, a5, a6, a7, a8] = (val52 [a0, a1, a2, a3, a4, a5, a6, a7, a8] : Int) :=
  repZ_toZ [a0, a1, a2, a3, a4, a5, a6, a7, a8]

theorem Lim_split5 {B : Int} {a0 a1 a2 a3 a4 : Int} {rest : List Int}
    (h : Lim B (a0 :: a1 :: a2 :: a3 :: a4 :: rest)) : Lim B [a0, a1, a2, a3, a4] ∧ Lim B rest := by
  simp only [Lim] at h ⊢
  exact ⟨⟨h.1, h.2.1, h.2.2.1, h.2.2.2.1, h.2.2.2.2.1, trivial⟩, h.2.2.2.2.2⟩

/-- `Nat`-level canonical-value statement from the `Int`-level one -/
theorem nat_emod_of_int {o X : Nat} (h : (o : Int) = (X : Int) % ell) : o = X % ell := by
  exact_mod_cast h

theorem nat_modEq_of_zmod {a b : Nat} (h : ((a : Int) : ZMod ell) = ((b : Int) : ZMod ell)) : a % ell = b % ell := by
  apply (ZMod.natCast_eq_natCast_iff' a b ell).1
  exact_mod_cast h

theorem nat_mont_of_zmod {o N : Nat} (h : ((o : Int) : ZMod ell) * 2 ^ 260 = ((N : Int) : ZMod ell)) :
    o * 2 ^ 260 % ell = N % ell := by
  apply (ZMod.natCast_eq_natCast_iff' _ _ ell).1
  rw [Int.cast_natCast, Int.cast_natCast] at h
  rw [Nat.cast_mul, Nat.cast_pow, Nat.cast_ofNat]
  exact h

theorem nat_mont_mul_of_zmod {o A B : Nat}
    (h : ((o : Int) : ZMod ell) * 2 ^ 260 = ((A : Int) : ZMod ell) * ((B : Int) : ZMod ell)) :
    o * 2 ^ 260 % ell = A * B % ell := by
  apply nat_mont_of_zmod
  rw [h, Nat.cast_mul, Int.cast_mul]

end Dalek.Proofs.Scalar52

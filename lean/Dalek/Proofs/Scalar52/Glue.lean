import Dalek.Proofs.Scalar52.Compose
import Dalek.Proofs.Scalar52.Bytes
/-! # Scalar52: glue between the `Nat`-level property statements and the `Int`-level kernel lemmas -/
set_option exponentiation.threshold 600

namespace Dalek.Proofs.Scalar52
open Dalek.IR Dalek.Model.FieldBytes

theorem val_of_toZ {out : List Nat} {o : List Int} (h : toZ out = o) : (val52 out : Int) = repZ o := by
  rw [← repZ_toZ, h]

theorem repZ_cast5 (a0 a1 a2 a3 a4 : Nat) :
    repZ [(a0 : Int), a1, a2, a3, a4] = (val52 [a0, a1, a2, a3, a4] : Int) := repZ_toZ [a0, a1, a2, a3, a4]

theorem repZ_cast9 (a0 a1 a2 a3 a4 a5 a6 a7 a8 : Nat) :
    repZ [(a0 : Int), a1, a2, a3, a4, a5, a6, a7, a8] = (val52 [a0, a1, a2, a3, a4, a5, a6, a7, a8] : Int) :=
  repZ_toZ [a0, a1, a2, a3, a4, a5, a6, a7, a8]

theorem Lim_split5 {B : Int} {a0 a1 a2 a3 a4 : Int} {rest : List Int}
    (h : Lim B (a0 :: a1 :: a2 :: a3 :: a4 :: rest)) : Lim B [a0, a1, a2, a3, a4] ∧ Lim B rest := by
  simp only [Lim] at h ⊢
  exact ⟨⟨h.1, h.2.1, h.2.2.1, h.2.2.2.1, h.2.2.2.2.1, trivial⟩, h.2.2.2.2.2⟩

/-- `Nat`-level canonical-value statement from the `Int`-level one -/
theorem nat_emod_of_int {o X : Nat} (h : (o : Int) = (X : Int) % ell) : o = X % ell := by
  exact_mod_cast h

theorem nat_modEq_of_zmod {a b : Nat} (h : ((a : Int) : ZMod ell) = ((b : Int) : ZMod ell)) : a % ell = b % ell := by
  apply (ZMod.natCast_eq_natCast_iff' a b ell).1
  exact_mod_cast h

theorem nat_mont_of_zmod {o N : Nat} (h : ((o : Int) : ZMod ell) * 2 ^ 260 = ((N : Int) : ZMod ell)) :
    o * 2 ^ 260 % ell = N % ell := by
  apply (ZMod.natCast_eq_natCast_iff' _ _ ell).1
  rw [Int.cast_natCast, Int.cast_natCast] at h
  rw [Nat.cast_mul, Nat.cast_pow, Nat.cast_ofNat]
  exact h

theorem nat_mont_mul_of_zmod {o A B : Nat}
    (h : ((o : Int) : ZMod ell) * 2 ^ 260 = ((A : Int) : ZMod ell) * ((B : Int) : ZMod ell)) :
    o * 2 ^ 260 % ell = A * B % ell := by
  apply nat_mont_of_zmod
  rw [h, Nat.cast_mul, Int.cast_mul]

theorem leValZ_toZ : ∀ l : List Nat, leValZ (toZ l) = (leVal l : Int)
  | [] => rfl
  | b :: bs => by rw [toZ_cons, leValZ, leVal, leValZ_toZ bs]; push_cast; rfl

theorem leVal_of_toZ {out : List Nat} {o : List Int} (h : toZ out = o) : (leVal out : Int) = leValZ o := by
  rw [← leValZ_toZ, h]

/-- inputs inside `bytes n` are `< 256` -/
theorem limBytes_of_envIn {n : Nat} {xs : List Nat} (h : EnvIn xs (Dalek.Model.Contracts.bytes n)) :
    Lim 256 (toZ xs) :=
  lim_of_envIn 255 256 (by norm_num) n xs h

theorem Lim_split4 {B : Int} {a0 a1 a2 a3 : Int} {rest : List Int}
    (h : Lim B (a0 :: a1 :: a2 :: a3 :: rest)) : Lim B [a0, a1, a2, a3] ∧ Lim B rest := by
  simp only [Lim] at h ⊢
  exact ⟨⟨h.1, h.2.1, h.2.2.1, h.2.2.2.1, trivial⟩, h.2.2.2.2⟩

end Dalek.Proofs.Scalar52

import Dalek.Proofs.Scalar52.Basic
/-! # Scalar52: `mul_internal`, `square_internal` are the schoolbook product (9 coefficients, within the
`montgomery_reduce` input contract). -/
set_option exponentiation.threshold 600

namespace Dalek.Proofs.Scalar52
open Dalek.IR Dalek.Gen.Norm.Scalar52 Dalek.Gen.Consts

theorem mul_bd {x y : Int} (hx : 0 ≤ x ∧ x < 2 ^ 52) (hy : 0 ≤ y ∧ y < 2 ^ 52) :
    0 ≤ x * y ∧ x * y ≤ 20282409603651661416747996545025 := by
  refine ⟨Int.mul_nonneg hx.1 hy.1, ?_⟩
  have h1 : x ≤ 4503599627370495 := by omega
  have h2 : y ≤ 4503599627370495 := by omega
  calc x * y ≤ 4503599627370495 * 4503599627370495 := Int.mul_le_mul h1 h2 hy.1 (by norm_num)
    _ = 20282409603651661416747996545025 := by norm_num

theorem mul_internal_fn_spec (a0 a1 a2 a3 a4 b0 b1 b2 b3 b4 : Int)
    (ha : Lim (2 ^ 52) [a0, a1, a2, a3, a4]) (hb : Lim (2 ^ 52) [b0, b1, b2, b3, b4]) :
    ∃ z0 z1 z2 z3 z4 z5 z6 z7 z8, mul_internal_fn a0 a1 a2 a3 a4 b0 b1 b2 b3 b4 = [z0, z1, z2, z3, z4, z5, z6, z7, z8] ∧
      Lim W1 [z0, z1, z2, z3, z4, z5, z6, z7, z8] ∧
      repZ [z0, z1, z2, z3, z4, z5, z6, z7, z8] = repZ [a0, a1, a2, a3, a4] * repZ [b0, b1, b2, b3, b4] := by
  unfold mul_internal_fn
  refine ⟨_, _, _, _, _, _, _, _, _, rfl, ?_, ?_⟩
  · simp only [Lim, and_true] at ha hb ⊢
    obtain ⟨ha0, ha1, ha2, ha3, ha4⟩ := ha
    obtain ⟨hb0, hb1, hb2, hb3, hb4⟩ := hb
    have := mul_bd ha0 hb0; have := mul_bd ha0 hb1; have := mul_bd ha0 hb2; have := mul_bd ha0 hb3; have := mul_bd ha0 hb4
    have := mul_bd ha1 hb0; have := mul_bd ha1 hb1; have := mul_bd ha1 hb2; have := mul_bd ha1 hb3; have := mul_bd ha1 hb4
    have := mul_bd ha2 hb0; have := mul_bd ha2 hb1; have := mul_bd ha2 hb2; have := mul_bd ha2 hb3; have := mul_bd ha2 hb4
    have := mul_bd ha3 hb0; have := mul_bd ha3 hb1; have := mul_bd ha3 hb2; have := mul_bd ha3 hb3; have := mul_bd ha3 hb4
    have := mul_bd ha4 hb0; have := mul_bd ha4 hb1; have := mul_bd ha4 hb2; have := mul_bd ha4 hb3; have := mul_bd ha4 hb4
    simp only [W1]
    omega
  · simp only [repZ]; ring

/-- `square_internal(a)` computes the same nine coefficients as `mul_internal(a, a)` -/
theorem square_internal_fn_eq (a0 a1 a2 a3 a4 : Int) :
    square_internal_fn a0 a1 a2 a3 a4 = mul_internal_fn a0 a1 a2 a3 a4 a0 a1 a2 a3 a4 := by
  simp only [square_internal_fn, mul_internal_fn]
  ring_nf

end Dalek.Proofs.Scalar52

import Dalek.IR.LimbSound
import Dalek.Gen.Consts
import Dalek.Gen.Norm.Scalar52
import Dalek.Proofs.LimbTac
import Mathlib.Tactic.NormNum
/-!
# Scalar52: radix-2^52 values, constants, `sub` and `add` of the translated serial-u64 scalar kernels

Method.  The shallow functions `k_fn` (generated) are first shown, BY `rfl`, to be equal to a hand-written
let-chain with names of our own (`*_fn_eq`); for the kernels that inline `Scalar52::sub` the chain ends in a call
of the generated `sub_fn`, so its specification is proved once.  The value statements are then linear integer
arithmetic (`omega`), one limb at a time.  No proof refers to an SSA name of the generated code; a semantic change
of the source (including a change of the constant `L`) breaks the `rfl`.
-/
set_option exponentiation.threshold 600

namespace Dalek.Proofs.Scalar52
open Dalek.IR Dalek.Gen.Norm.Scalar52 Dalek.Gen.Consts

/-- the group order `l` -/
abbrev ell : Nat := 2 ^ 252 + 27742317777372353535851937790883648493

theorem ell_eq : ell = 7237005577332262213973186563042994240857116359379907606001950938285454250989 := by
  norm_num [ell]

theorem ell_eqZ : (ell : Int) = 7237005577332262213973186563042994240857116359379907606001950938285454250989 := by
  rw [ell_eq]; rfl

/-- value of a little-endian radix-2^52 limb vector (any length) -/
def val52 : List Nat → Nat
  | [] => 0
  | x :: xs => x + 2 ^ 52 * val52 xs

/-- the same over `Int` -/
def repZ : List Int → Int
  | [] => 0
  | x :: xs => x + 2 ^ 52 * repZ xs

theorem toZ_cons (x : Nat) (xs : List Nat) : toZ (x :: xs) = (x : Int) :: toZ xs := rfl
theorem toZ_nil : toZ [] = [] := rfl

theorem repZ_toZ : ∀ l : List Nat, repZ (toZ l) = (val52 l : Int)
  | [] => rfl
  | x :: xs => by
    rw [toZ_cons, repZ, val52, repZ_toZ xs]; push_cast; rfl

/-- every entry in `[0, B)` -/
def Lim (B : Int) : List Int → Prop
  | [] => True
  | x :: xs => (0 ≤ x ∧ x < B) ∧ Lim B xs

theorem lim_of_envIn (h : Nat) (B : Int) (hB : (h : Int) < B) :
    ∀ (n : Nat) (xs : List Nat), EnvIn xs (Dalek.Model.Contracts.rep n (Dalek.Model.Contracts.ub h)) → Lim B (toZ xs)
  | 0, [], _ => trivial
  | 0, _ :: _, he => by simp [Dalek.Model.Contracts.rep, EnvIn] at he
  | n + 1, [], he => by simp [Dalek.Model.Contracts.rep, List.replicate_succ, EnvIn] at he
  | n + 1, x :: xs, he => by
    simp only [Dalek.Model.Contracts.rep, List.replicate_succ, EnvIn] at he
    rw [toZ_cons]
    refine ⟨⟨Int.natCast_nonneg x, ?_⟩, lim_of_envIn h B hB n xs he.2⟩
    have := he.1.2.1
    simp only [Dalek.Model.Contracts.ub] at this
    omega

/-- inputs inside `rep n Scalar52.lim` are `< 2^52` -/
theorem lim52_of_envIn {n : Nat} {xs : List Nat} (h : EnvIn xs (Dalek.Model.Contracts.rep n Dalek.Model.Contracts.Scalar52.lim)) :
    Lim (2 ^ 52) (toZ xs) :=
  lim_of_envIn _ _ (by norm_num) n xs h

/-- the `montgomery_reduce` input bound `5·(2^52-1)^2`, plus one -/
abbrev W1 : Int := 101412048018258307083739982725126

theorem limW_of_envIn {n : Nat} {xs : List Nat} (h : EnvIn xs (Dalek.Model.Contracts.rep n Dalek.Model.Contracts.Scalar52.wide)) :
    Lim W1 (toZ xs) :=
  lim_of_envIn _ _ (by norm_num [W1]) n xs h

/-! ## the constants (facts about the REGENERATED literals) -/

theorem val52_L : val52 U64.L = ell := by decide +kernel
theorem val52_R : val52 U64.R = 2 ^ 260 % ell := by decide +kernel
theorem val52_RR : val52 U64.RR = (2 ^ 260) ^ 2 % ell := by decide +kernel
theorem lfactor_spec : U64.LFACTOR * U64.L.getD 0 0 % 2 ^ 52 = 2 ^ 52 - 1 := by decide +kernel
theorem L_lim : EnvIn U64.L (Dalek.Model.Contracts.rep 5 Dalek.Model.Contracts.Scalar52.lim) := by decide +kernel
theorem R_lim : EnvIn U64.R (Dalek.Model.Contracts.rep 5 Dalek.Model.Contracts.Scalar52.lim) := by decide +kernel
theorem RR_lim : EnvIn U64.RR (Dalek.Model.Contracts.rep 5 Dalek.Model.Contracts.Scalar52.lim) := by decide +kernel

/-! ## `sub` -/

/-- one limb of the borrow chain `borrow = a[i].wrapping_sub(b[i] + (borrow >> 63))` -/
theorem sub_limb (a b c w : Int) (ha0 : 0 ≤ a) (ha : a < 2 ^ 52) (hb0 : 0 ≤ b) (hb : b < 2 ^ 52)
    (hc0 : 0 ≤ c) (hc : c ≤ 1) (hw : w = (a - (b + c)) % 2 ^ 64) :
    0 ≤ w / 2 ^ 63 ∧ w / 2 ^ 63 ≤ 1 ∧ w % 2 ^ 52 + b + c = a + 2 ^ 52 * (w / 2 ^ 63) := by
  omega

/-- `sub_fn` is the borrow chain followed by the conditional addition of the literal `L`
(structural equality, checked by `rfl`). -/
theorem sub_fn_eq (a0 a1 a2 a3 a4 b0 b1 b2 b3 b4 : Int) : sub_fn a0 a1 a2 a3 a4 b0 b1 b2 b3 b4 =
    (let w0 := (a0 - (b0 + 0)) % 2 ^ 64
     let w1 := (a1 - (b1 + w0 / 2 ^ 63)) % 2 ^ 64
     let w2 := (a2 - (b2 + w1 / 2 ^ 63)) % 2 ^ 64
     let w3 := (a3 - (b3 + w2 / 2 ^ 63)) % 2 ^ 64
     let w4 := (a4 - (b4 + w3 / 2 ^ 63)) % 2 ^ 64
     let m := w4 / 2 ^ 63
     let t0 := (0 + w0 % 2 ^ 52) + (if m = 0 then 0 else 671914833335277)
     let t1 := (t0 / 2 ^ 52 + w1 % 2 ^ 52) + (if m = 0 then 0 else 3916664325105025)
     let t2 := (t1 / 2 ^ 52 + w2 % 2 ^ 52) + (if m = 0 then 0 else 1367801)
     let t3 := (t2 / 2 ^ 52 + w3 % 2 ^ 52) + (if m = 0 then 0 else 0)
     let t4 := (t3 / 2 ^ 52 + w4 % 2 ^ 52) + (if m = 0 then 0 else 17592186044416)
     [t0 % 2 ^ 52, t1 % 2 ^ 52, t2 % 2 ^ 52, t3 % 2 ^ 52, t4 % 2 ^ 52]) := rfl

/-- `sub` on arbitrary 52-bit limb vectors: `a - b`, plus `l` if that is negative, modulo `2^260`. -/
theorem sub_fn_spec (a0 a1 a2 a3 a4 b0 b1 b2 b3 b4 : Int)
    (ha : Lim (2 ^ 52) [a0, a1, a2, a3, a4]) (hb : Lim (2 ^ 52) [b0, b1, b2, b3, b4]) :
    ∃ o0 o1 o2 o3 o4, sub_fn a0 a1 a2 a3 a4 b0 b1 b2 b3 b4 = [o0, o1, o2, o3, o4] ∧
      Lim (2 ^ 52) [o0, o1, o2, o3, o4] ∧
      repZ [o0, o1, o2, o3, o4] = (repZ [a0, a1, a2, a3, a4] - repZ [b0, b1, b2, b3, b4]
        + (if repZ [a0, a1, a2, a3, a4] < repZ [b0, b1, b2, b3, b4] then (ell : Int) else 0)) % 2 ^ 260 := by
  rw [sub_fn_eq]
  extract_lets w0 w1 w2 w3 w4 m t0 t1 t2 t3 t4
  refine ⟨_, _, _, _, _, rfl, ?_, ?_⟩
  · simp only [Lim, and_true]; omega
  simp only [Lim, repZ] at *
  obtain ⟨h0a, h0b, h0⟩ := sub_limb a0 b0 0 w0 (by omega) (by omega) (by omega) (by omega) (by omega) (by omega) rfl
  obtain ⟨h1a, h1b, h1⟩ := sub_limb a1 b1 _ w1 (by omega) (by omega) (by omega) (by omega) h0a h0b rfl
  obtain ⟨h2a, h2b, h2⟩ := sub_limb a2 b2 _ w2 (by omega) (by omega) (by omega) (by omega) h1a h1b rfl
  obtain ⟨h3a, h3b, h3⟩ := sub_limb a3 b3 _ w3 (by omega) (by omega) (by omega) (by omega) h2a h2b rfl
  obtain ⟨h4a, h4b, h4⟩ := sub_limb a4 b4 _ w4 (by omega) (by omega) (by omega) (by omega) h3a h3b rfl
  have hm : m = w4 / 2 ^ 63 := rfl
  rw [ell_eqZ]
  have hd : (w0 % 2 ^ 52 + 2 ^ 52 * (w1 % 2 ^ 52 + 2 ^ 52 * (w2 % 2 ^ 52 + 2 ^ 52 * (w3 % 2 ^ 52 + 2 ^ 52 * (w4 % 2 ^ 52)))))
      + (b0 + 2 ^ 52 * (b1 + 2 ^ 52 * (b2 + 2 ^ 52 * (b3 + 2 ^ 52 * b4))))
      = (a0 + 2 ^ 52 * (a1 + 2 ^ 52 * (a2 + 2 ^ 52 * (a3 + 2 ^ 52 * a4)))) + 2 ^ 260 * m := by omega
  have ho : (t0 % 2 ^ 52 + 2 ^ 52 * (t1 % 2 ^ 52 + 2 ^ 52 * (t2 % 2 ^ 52 + 2 ^ 52 * (t3 % 2 ^ 52 + 2 ^ 52 * (t4 % 2 ^ 52 + 2 ^ 52 * 0)))))
      + 2 ^ 260 * (t4 / 2 ^ 52)
      = (w0 % 2 ^ 52 + 2 ^ 52 * (w1 % 2 ^ 52 + 2 ^ 52 * (w2 % 2 ^ 52 + 2 ^ 52 * (w3 % 2 ^ 52 + 2 ^ 52 * (w4 % 2 ^ 52)))))
        + (if m = 0 then 0 else 7237005577332262213973186563042994240857116359379907606001950938285454250989) := by
    by_cases hm0 : m = 0
    · simp only [hm0, if_true, t0, t1, t2, t3, t4]; omega
    · simp only [hm0, if_false, t0, t1, t2, t3, t4]; omega
  clear_value t0 t1 t2 t3 t4 m w0 w1 w2 w3 w4
  split_ifs with hlt <;> split_ifs at ho with hm0 <;> omega

/-- `Lim (2^52)` and `repZ` of the literal `L` -/
theorem L_literal : toZ U64.L = [671914833335277, 3916664325105025, 1367801, 0, 17592186044416] := rfl

/-- `sub(r, L)` for `r < 2l`: the canonical representative `r mod l`
(the tail of `add` and of `montgomery_reduce`). -/
theorem sub_fn_L_spec (r0 r1 r2 r3 r4 : Int) (hr : Lim (2 ^ 52) [r0, r1, r2, r3, r4])
    (h2 : repZ [r0, r1, r2, r3, r4] < 2 * ell) :
    ∃ o0 o1 o2 o3 o4, sub_fn r0 r1 r2 r3 r4 671914833335277 3916664325105025 1367801 0 17592186044416
        = [o0, o1, o2, o3, o4] ∧ Lim (2 ^ 52) [o0, o1, o2, o3, o4] ∧
      repZ [o0, o1, o2, o3, o4] = repZ [r0, r1, r2, r3, r4] % ell := by
  obtain ⟨o0, o1, o2, o3, o4, he, hl, hv⟩ := sub_fn_spec r0 r1 r2 r3 r4 671914833335277 3916664325105025 1367801 0
    17592186044416 hr (by simp only [Lim]; norm_num)
  refine ⟨o0, o1, o2, o3, o4, he, hl, ?_⟩
  rw [hv]
  have hL : repZ [671914833335277, 3916664325105025, 1367801, 0, 17592186044416] = (ell : Int) := by
    rw [ell_eqZ]; simp only [repZ]; norm_num
  rw [hL]
  have h0 : 0 ≤ repZ [r0, r1, r2, r3, r4] := by simp only [Lim, repZ] at hr ⊢; omega
  generalize repZ [r0, r1, r2, r3, r4] = R at *
  rw [ell_eqZ] at *
  split_ifs <;> omega

/-- `sub` on canonical inputs is subtraction modulo `l`. -/
theorem sub_fn_canon (a0 a1 a2 a3 a4 b0 b1 b2 b3 b4 : Int)
    (ha : Lim (2 ^ 52) [a0, a1, a2, a3, a4]) (hb : Lim (2 ^ 52) [b0, b1, b2, b3, b4])
    (hal : repZ [a0, a1, a2, a3, a4] < ell) (hbl : repZ [b0, b1, b2, b3, b4] < ell) :
    ∃ o0 o1 o2 o3 o4, sub_fn a0 a1 a2 a3 a4 b0 b1 b2 b3 b4 = [o0, o1, o2, o3, o4] ∧
      Lim (2 ^ 52) [o0, o1, o2, o3, o4] ∧
      repZ [o0, o1, o2, o3, o4] = (repZ [a0, a1, a2, a3, a4] - repZ [b0, b1, b2, b3, b4]) % ell := by
  obtain ⟨o0, o1, o2, o3, o4, he, hl, hv⟩ := sub_fn_spec a0 a1 a2 a3 a4 b0 b1 b2 b3 b4 ha hb
  refine ⟨o0, o1, o2, o3, o4, he, hl, ?_⟩
  rw [hv]
  have h0 : 0 ≤ repZ [a0, a1, a2, a3, a4] := by simp only [Lim, repZ] at ha ⊢; omega
  have h1 : 0 ≤ repZ [b0, b1, b2, b3, b4] := by simp only [Lim, repZ] at hb ⊢; omega
  generalize repZ [a0, a1, a2, a3, a4] = A at *
  generalize repZ [b0, b1, b2, b3, b4] = B at *
  rw [ell_eqZ] at *
  split_ifs <;> omega

/-! ## `add` -/

/-- `add_fn` is the carry chain followed by `sub(·, L)` (structural equality, by `rfl`). -/
theorem add_fn_eq (a0 a1 a2 a3 a4 b0 b1 b2 b3 b4 : Int) :
    add_fn a0 a1 a2 a3 a4 b0 b1 b2 b3 b4 =
      (let s0 := (a0 + b0) + 0
       let s1 := (a1 + b1) + s0 / 2 ^ 52
       let s2 := (a2 + b2) + s1 / 2 ^ 52
       let s3 := (a3 + b3) + s2 / 2 ^ 52
       let s4 := (a4 + b4) + s3 / 2 ^ 52
       sub_fn (s0 % 2 ^ 52) (s1 % 2 ^ 52) (s2 % 2 ^ 52) (s3 % 2 ^ 52) (s4 % 2 ^ 52)
         671914833335277 3916664325105025 1367801 0 17592186044416) := rfl

theorem add_fn_spec (a0 a1 a2 a3 a4 b0 b1 b2 b3 b4 : Int)
    (ha : Lim (2 ^ 52) [a0, a1, a2, a3, a4]) (hb : Lim (2 ^ 52) [b0, b1, b2, b3, b4])
    (hal : repZ [a0, a1, a2, a3, a4] < ell) (hbl : repZ [b0, b1, b2, b3, b4] < ell) :
    ∃ o0 o1 o2 o3 o4, add_fn a0 a1 a2 a3 a4 b0 b1 b2 b3 b4 = [o0, o1, o2, o3, o4] ∧
      Lim (2 ^ 52) [o0, o1, o2, o3, o4] ∧
      repZ [o0, o1, o2, o3, o4] = (repZ [a0, a1, a2, a3, a4] + repZ [b0, b1, b2, b3, b4]) % ell := by
  rw [add_fn_eq]
  extract_lets s0 s1 s2 s3 s4
  have hs : repZ [s0 % 2 ^ 52, s1 % 2 ^ 52, s2 % 2 ^ 52, s3 % 2 ^ 52, s4 % 2 ^ 52]
      = repZ [a0, a1, a2, a3, a4] + repZ [b0, b1, b2, b3, b4] := by
    simp only [Lim, repZ] at *
    rw [ell_eqZ] at *
    have e0 : s0 = (a0 + b0) + 0 := rfl
    have e1 : s1 = (a1 + b1) + s0 / 2 ^ 52 := rfl
    have e2 : s2 = (a2 + b2) + s1 / 2 ^ 52 := rfl
    have e3 : s3 = (a3 + b3) + s2 / 2 ^ 52 := rfl
    have e4 : s4 = (a4 + b4) + s3 / 2 ^ 52 := rfl
    clear_value s0 s1 s2 s3 s4
    omega
  obtain ⟨o0, o1, o2, o3, o4, he, hl, hv⟩ := sub_fn_L_spec (s0 % 2 ^ 52) (s1 % 2 ^ 52) (s2 % 2 ^ 52) (s3 % 2 ^ 52)
    (s4 % 2 ^ 52) (by simp only [Lim, and_true]; omega) (by rw [hs]; omega)
  exact ⟨o0, o1, o2, o3, o4, he, hl, by rw [hv, hs]⟩

end Dalek.Proofs.Scalar52

import Dalek.Proofs.Scalar52.Compose
import Dalek.Model.FieldBytes
/-! # Scalar52: the byte codecs `from_bytes`, `as_bytes` and the wide reduction `from_bytes_wide`

`word` is the little-endian assembly of eight bytes into a `u64` as the translator emits it; the limb extraction
formulas are stated on words, so the `omega` problems have 4 (resp. 8) variables. -/
set_option exponentiation.threshold 600
set_option maxRecDepth 100000

namespace Dalek.Proofs.Scalar52
open Dalek.IR Dalek.Gen.Norm.Scalar52 Dalek.Gen.Consts Dalek.Model.FieldBytes

/-- little-endian `u64` from eight bytes, in the shape produced by the translator -/
def word (b0 b1 b2 b3 b4 b5 b6 b7 : Int) : Int :=
  ((((((((0 + b0 * 1) + b1 * 256) + b2 * 65536) + b3 * 16777216) + b4 * 4294967296) + b5 * 1099511627776)
    + b6 * 281474976710656) + b7 * 72057594037927936)

theorem word_bd {b0 b1 b2 b3 b4 b5 b6 b7 : Int} (h : Lim 256 [b0, b1, b2, b3, b4, b5, b6, b7]) :
    0 ≤ word b0 b1 b2 b3 b4 b5 b6 b7 ∧ word b0 b1 b2 b3 b4 b5 b6 b7 < 2 ^ 64 := by
  simp only [Lim, word] at *
  omega

theorem Lim_split8 {B : Int} {a0 a1 a2 a3 a4 a5 a6 a7 : Int} {rest : List Int}
    (h : Lim B (a0 :: a1 :: a2 :: a3 :: a4 :: a5 :: a6 :: a7 :: rest)) :
    Lim B [a0, a1, a2, a3, a4, a5, a6, a7] ∧ Lim B rest := by
  simp only [Lim] at h ⊢
  exact ⟨⟨h.1, h.2.1, h.2.2.1, h.2.2.2.1, h.2.2.2.2.1, h.2.2.2.2.2.1, h.2.2.2.2.2.2.1, h.2.2.2.2.2.2.2.1, trivial⟩,
    h.2.2.2.2.2.2.2.2⟩

/-! ## `from_bytes` -/

/-- the five limbs of `from_bytes` as functions of the four words -/
def limbs4 (w0 w1 w2 w3 : Int) : List Int :=
  [w0 % 2 ^ 52,
   ((w0 / 2 ^ 52) + ((w1 * 4096) % 2 ^ 64)) % 2 ^ 52,
   ((w1 / 2 ^ 40) + ((w2 * 16777216) % 2 ^ 64)) % 2 ^ 52,
   ((w2 / 2 ^ 28) + ((w3 * 68719476736) % 2 ^ 64)) % 2 ^ 52,
   w3 / 2 ^ 16]

theorem from_bytes_fn_eq (x0 x1 x2 x3 x4 x5 x6 x7 x8 x9 x10 x11 x12 x13 x14 x15 x16 x17 x18 x19 x20 x21 x22 x23 x24 x25 x26 x27 x28 x29 x30 x31 : Int) :
    from_bytes_fn x0 x1 x2 x3 x4 x5 x6 x7 x8 x9 x10 x11 x12 x13 x14 x15 x16 x17 x18 x19 x20 x21 x22 x23 x24 x25 x26 x27 x28 x29 x30 x31 = limbs4 (word x0 x1 x2 x3 x4 x5 x6 x7) (word x8 x9 x10 x11 x12 x13 x14 x15) (word x16 x17 x18 x19 x20 x21 x22 x23) (word x24 x25 x26 x27 x28 x29 x30 x31) := rfl

theorem limbs4_spec (w0 w1 w2 w3 : Int) (h0 : 0 ≤ w0 ∧ w0 < 2 ^ 64) (h1 : 0 ≤ w1 ∧ w1 < 2 ^ 64)
    (h2 : 0 ≤ w2 ∧ w2 < 2 ^ 64) (h3 : 0 ≤ w3 ∧ w3 < 2 ^ 64) :
    ∃ o0 o1 o2 o3 o4, limbs4 w0 w1 w2 w3 = [o0, o1, o2, o3, o4] ∧ Lim (2 ^ 52) [o0, o1, o2, o3] ∧
      (0 ≤ o4 ∧ o4 < 2 ^ 48) ∧
      repZ [o0, o1, o2, o3, o4] = w0 + 2 ^ 64 * w1 + 2 ^ 128 * w2 + 2 ^ 192 * w3 := by
  refine ⟨_, _, _, _, _, rfl, ?_, ?_, ?_⟩
  · simp only [Lim, and_true]; omega
  · omega
  · simp only [repZ]; omega

theorem leValZ32_words (x0 x1 x2 x3 x4 x5 x6 x7 x8 x9 x10 x11 x12 x13 x14 x15 x16 x17 x18 x19 x20 x21 x22 x23 x24 x25 x26 x27 x28 x29 x30 x31 : Int) :
    leValZ [x0, x1, x2, x3, x4, x5, x6, x7, x8, x9, x10, x11, x12, x13, x14, x15, x16, x17, x18, x19, x20, x21, x22, x23, x24, x25, x26, x27, x28, x29, x30, x31] = word x0 x1 x2 x3 x4 x5 x6 x7 + 2 ^ 64 * word x8 x9 x10 x11 x12 x13 x14 x15 + 2 ^ 128 * word x16 x17 x18 x19 x20 x21 x22 x23 + 2 ^ 192 * word x24 x25 x26 x27 x28 x29 x30 x31 := by
  simp only [leValZ, word]; ring

theorem from_bytes_fn_spec (x0 x1 x2 x3 x4 x5 x6 x7 x8 x9 x10 x11 x12 x13 x14 x15 x16 x17 x18 x19 x20 x21 x22 x23 x24 x25 x26 x27 x28 x29 x30 x31 : Int) (h : Lim 256 [x0, x1, x2, x3, x4, x5, x6, x7, x8, x9, x10, x11, x12, x13, x14, x15, x16, x17, x18, x19, x20, x21, x22, x23, x24, x25, x26, x27, x28, x29, x30, x31]) :
    ∃ o0 o1 o2 o3 o4, from_bytes_fn x0 x1 x2 x3 x4 x5 x6 x7 x8 x9 x10 x11 x12 x13 x14 x15 x16 x17 x18 x19 x20 x21 x22 x23 x24 x25 x26 x27 x28 x29 x30 x31 = [o0, o1, o2, o3, o4] ∧ Lim (2 ^ 52) [o0, o1, o2, o3] ∧
      (0 ≤ o4 ∧ o4 < 2 ^ 48) ∧ repZ [o0, o1, o2, o3, o4] = leValZ [x0, x1, x2, x3, x4, x5, x6, x7, x8, x9, x10, x11, x12, x13, x14, x15, x16, x17, x18, x19, x20, x21, x22, x23, x24, x25, x26, x27, x28, x29, x30, x31] := by
  obtain ⟨hb0, h⟩ := Lim_split8 h
  obtain ⟨hb1, h⟩ := Lim_split8 h
  obtain ⟨hb2, h⟩ := Lim_split8 h
  obtain ⟨hb3, -⟩ := Lim_split8 h
  rw [from_bytes_fn_eq, leValZ32_words]
  exact limbs4_spec _ _ _ _ (word_bd hb0) (word_bd hb1) (word_bd hb2) (word_bd hb3)

/-! ## `as_bytes` -/

theorem as_bytes_fn_spec (a0 a1 a2 a3 a4 : Int) (ha : Lim (2 ^ 52) [a0, a1, a2, a3]) (h4 : 0 ≤ a4 ∧ a4 < 2 ^ 48) :
    leValZ (as_bytes_fn a0 a1 a2 a3 a4) = repZ [a0, a1, a2, a3, a4] := by
  unfold as_bytes_fn
  simp only [leValZ, repZ, Lim] at *
  omega

/-! ## `from_bytes_wide` -/

/-- `mul_internal(·, R)` with the literal limbs of `constants::R` -/
def mulR (c0 c1 c2 c3 c4 : Int) : List Int :=
  mul_internal_fn c0 c1 c2 c3 c4 4302102966953709 1049714374468698 4503599278581019 4503599627370495 17592186044415

/-- apply a 10-argument function to two 5-element lists -/
def ap55 (f : Int → Int → Int → Int → Int → Int → Int → Int → Int → Int → List Int) : List Int → List Int → List Int
  | [a0, a1, a2, a3, a4], [b0, b1, b2, b3, b4] => f a0 a1 a2 a3 a4 b0 b1 b2 b3 b4
  | _, _ => []

/-- the low five limbs (bits 0..259) of a 512-bit value given as eight words -/
def limbsLo (w0 w1 w2 w3 w4 : Int) : List Int :=
  [w0 % 2 ^ 52,
   ((w0 / 2 ^ 52) + ((w1 * 4096) % 2 ^ 64)) % 2 ^ 52,
   ((w1 / 2 ^ 40) + ((w2 * 16777216) % 2 ^ 64)) % 2 ^ 52,
   ((w2 / 2 ^ 28) + ((w3 * 68719476736) % 2 ^ 64)) % 2 ^ 52,
   ((w3 / 2 ^ 16) + ((w4 * 281474976710656) % 2 ^ 64)) % 2 ^ 52]

/-- the high five limbs (bits 260..511) -/
def limbsHi (w4 w5 w6 w7 : Int) : List Int :=
  [(w4 / 2 ^ 4) % 2 ^ 52,
   ((w4 / 2 ^ 56) + ((w5 * 256) % 2 ^ 64)) % 2 ^ 52,
   ((w5 / 2 ^ 44) + ((w6 * 1048576) % 2 ^ 64)) % 2 ^ 52,
   ((w6 / 2 ^ 32) + ((w7 * 4294967296) % 2 ^ 64)) % 2 ^ 52,
   w7 / 2 ^ 20]

/-- `from_bytes_wide = add(montgomery_mul(hi, RR), montgomery_mul(lo, R))` (structural equality, by `rfl`) -/
theorem from_bytes_wide_fn_eq (x0 x1 x2 x3 x4 x5 x6 x7 x8 x9 x10 x11 x12 x13 x14 x15 x16 x17 x18 x19 x20 x21 x22 x23 x24 x25 x26 x27 x28 x29 x30 x31 x32 x33 x34 x35 x36 x37 x38 x39 x40 x41 x42 x43 x44 x45 x46 x47 x48 x49 x50 x51 x52 x53 x54 x55 x56 x57 x58 x59 x60 x61 x62 x63 : Int) :
    from_bytes_wide_fn x0 x1 x2 x3 x4 x5 x6 x7 x8 x9 x10 x11 x12 x13 x14 x15 x16 x17 x18 x19 x20 x21 x22 x23 x24 x25 x26 x27 x28 x29 x30 x31 x32 x33 x34 x35 x36 x37 x38 x39 x40 x41 x42 x43 x44 x45 x46 x47 x48 x49 x50 x51 x52 x53 x54 x55 x56 x57 x58 x59 x60 x61 x62 x63 =
      ap55 add_fn
        (ap9 montgomery_reduce_fn (ap5 mulRR (limbsHi (word x32 x33 x34 x35 x36 x37 x38 x39) (word x40 x41 x42 x43 x44 x45 x46 x47) (word x48 x49 x50 x51 x52 x53 x54 x55) (word x56 x57 x58 x59 x60 x61 x62 x63))))
        (ap9 montgomery_reduce_fn (ap5 mulR (limbsLo (word x0 x1 x2 x3 x4 x5 x6 x7) (word x8 x9 x10 x11 x12 x13 x14 x15) (word x16 x17 x18 x19 x20 x21 x22 x23) (word x24 x25 x26 x27 x28 x29 x30 x31) (word x32 x33 x34 x35 x36 x37 x38 x39)))) := by
  kernel_rfl

theorem limbsLoHi_spec (w0 w1 w2 w3 w4 w5 w6 w7 : Int) (h0 : 0 ≤ w0 ∧ w0 < 2 ^ 64) (h1 : 0 ≤ w1 ∧ w1 < 2 ^ 64)
    (h2 : 0 ≤ w2 ∧ w2 < 2 ^ 64) (h3 : 0 ≤ w3 ∧ w3 < 2 ^ 64) (h4 : 0 ≤ w4 ∧ w4 < 2 ^ 64) (h5 : 0 ≤ w5 ∧ w5 < 2 ^ 64)
    (h6 : 0 ≤ w6 ∧ w6 < 2 ^ 64) (h7 : 0 ≤ w7 ∧ w7 < 2 ^ 64) :
    ∃ l0 l1 l2 l3 l4 g0 g1 g2 g3 g4, limbsLo w0 w1 w2 w3 w4 = [l0, l1, l2, l3, l4] ∧
      limbsHi w4 w5 w6 w7 = [g0, g1, g2, g3, g4] ∧
      Lim (2 ^ 52) [l0, l1, l2, l3, l4] ∧ Lim (2 ^ 52) [g0, g1, g2, g3, g4] ∧
      repZ [l0, l1, l2, l3, l4] + 2 ^ 260 * repZ [g0, g1, g2, g3, g4]
        = w0 + 2 ^ 64 * w1 + 2 ^ 128 * w2 + 2 ^ 192 * w3 + 2 ^ 256 * w4 + 2 ^ 320 * w5 + 2 ^ 384 * w6 + 2 ^ 448 * w7 := by
  refine ⟨_, _, _, _, _, _, _, _, _, _, rfl, rfl, ?_, ?_, ?_⟩
  · simp only [Lim, and_true]; omega
  · simp only [Lim, and_true]; omega
  · simp only [repZ]; omega

theorem leValZ64_words (x0 x1 x2 x3 x4 x5 x6 x7 x8 x9 x10 x11 x12 x13 x14 x15 x16 x17 x18 x19 x20 x21 x22 x23 x24 x25 x26 x27 x28 x29 x30 x31 x32 x33 x34 x35 x36 x37 x38 x39 x40 x41 x42 x43 x44 x45 x46 x47 x48 x49 x50 x51 x52 x53 x54 x55 x56 x57 x58 x59 x60 x61 x62 x63 : Int) :
    leValZ [x0, x1, x2, x3, x4, x5, x6, x7, x8, x9, x10, x11, x12, x13, x14, x15, x16, x17, x18, x19, x20, x21, x22, x23, x24, x25, x26, x27, x28, x29, x30, x31, x32, x33, x34, x35, x36, x37, x38, x39, x40, x41, x42, x43, x44, x45, x46, x47, x48, x49, x50, x51, x52, x53, x54, x55, x56, x57, x58, x59, x60, x61, x62, x63] = word x0 x1 x2 x3 x4 x5 x6 x7 + 2 ^ 64 * word x8 x9 x10 x11 x12 x13 x14 x15 + 2 ^ 128 * word x16 x17 x18 x19 x20 x21 x22 x23 + 2 ^ 192 * word x24 x25 x26 x27 x28 x29 x30 x31
      + 2 ^ 256 * word x32 x33 x34 x35 x36 x37 x38 x39 + 2 ^ 320 * word x40 x41 x42 x43 x44 x45 x46 x47 + 2 ^ 384 * word x48 x49 x50 x51 x52 x53 x54 x55 + 2 ^ 448 * word x56 x57 x58 x59 x60 x61 x62 x63 := by
  simp only [leValZ, word]; ring

/-- `montgomery_reduce(mul_internal(c, R))`: the canonical representative of `c` (any 52-bit limbs `c`) -/
theorem mr_mulR_spec (c0 c1 c2 c3 c4 : Int) (hc : Lim (2 ^ 52) [c0, c1, c2, c3, c4]) :
    ∃ o0 o1 o2 o3 o4, ap9 montgomery_reduce_fn (mulR c0 c1 c2 c3 c4) = [o0, o1, o2, o3, o4] ∧
      Lim (2 ^ 52) [o0, o1, o2, o3, o4] ∧
      (0 ≤ repZ [o0, o1, o2, o3, o4] ∧ repZ [o0, o1, o2, o3, o4] < ell) ∧
      ((repZ [o0, o1, o2, o3, o4] : Int) : ZMod ell) = ((repZ [c0, c1, c2, c3, c4] : Int) : ZMod ell) := by
  obtain ⟨_, hC⟩ := repZ5_bd c0 c1 c2 c3 c4 hc
  have hR : (0 : Int) ≤ repZ [4302102966953709, 1049714374468698, 4503599278581019, 4503599627370495, 17592186044415]
      ∧ repZ [4302102966953709, 1049714374468698, 4503599278581019, 4503599627370495, 17592186044415] < ell := by
    rw [repZ_R]
    exact ⟨Int.natCast_nonneg _, by exact_mod_cast Nat.mod_lt _ (by norm_num [ell])⟩
  obtain ⟨o0, o1, o2, o3, o4, he, hl, hcan, hv⟩ := mr_mi_spec c0 c1 c2 c3 c4 _ _ _ _ _ hc R_lim_lit
    (mul_lt_of_lt_pow hC hR.1 hR.2)
  refine ⟨o0, o1, o2, o3, o4, he, hl, hcan, ?_⟩
  rw [R_zmod] at hv
  exact mul_right_cancel₀ two_pow_ne_zero hv

theorem from_bytes_wide_fn_spec (x0 x1 x2 x3 x4 x5 x6 x7 x8 x9 x10 x11 x12 x13 x14 x15 x16 x17 x18 x19 x20 x21 x22 x23 x24 x25 x26 x27 x28 x29 x30 x31 x32 x33 x34 x35 x36 x37 x38 x39 x40 x41 x42 x43 x44 x45 x46 x47 x48 x49 x50 x51 x52 x53 x54 x55 x56 x57 x58 x59 x60 x61 x62 x63 : Int) (h : Lim 256 [x0, x1, x2, x3, x4, x5, x6, x7, x8, x9, x10, x11, x12, x13, x14, x15, x16, x17, x18, x19, x20, x21, x22, x23, x24, x25, x26, x27, x28, x29, x30, x31, x32, x33, x34, x35, x36, x37, x38, x39, x40, x41, x42, x43, x44, x45, x46, x47, x48, x49, x50, x51, x52, x53, x54, x55, x56, x57, x58, x59, x60, x61, x62, x63]) :
    ∃ o0 o1 o2 o3 o4, from_bytes_wide_fn x0 x1 x2 x3 x4 x5 x6 x7 x8 x9 x10 x11 x12 x13 x14 x15 x16 x17 x18 x19 x20 x21 x22 x23 x24 x25 x26 x27 x28 x29 x30 x31 x32 x33 x34 x35 x36 x37 x38 x39 x40 x41 x42 x43 x44 x45 x46 x47 x48 x49 x50 x51 x52 x53 x54 x55 x56 x57 x58 x59 x60 x61 x62 x63 = [o0, o1, o2, o3, o4] ∧ Lim (2 ^ 52) [o0, o1, o2, o3, o4] ∧
      repZ [o0, o1, o2, o3, o4] = leValZ [x0, x1, x2, x3, x4, x5, x6, x7, x8, x9, x10, x11, x12, x13, x14, x15, x16, x17, x18, x19, x20, x21, x22, x23, x24, x25, x26, x27, x28, x29, x30, x31, x32, x33, x34, x35, x36, x37, x38, x39, x40, x41, x42, x43, x44, x45, x46, x47, x48, x49, x50, x51, x52, x53, x54, x55, x56, x57, x58, x59, x60, x61, x62, x63] % ell := by
  obtain ⟨hb0, h⟩ := Lim_split8 h
  obtain ⟨hb1, h⟩ := Lim_split8 h
  obtain ⟨hb2, h⟩ := Lim_split8 h
  obtain ⟨hb3, h⟩ := Lim_split8 h
  obtain ⟨hb4, h⟩ := Lim_split8 h
  obtain ⟨hb5, h⟩ := Lim_split8 h
  obtain ⟨hb6, h⟩ := Lim_split8 h
  obtain ⟨hb7, -⟩ := Lim_split8 h
  rw [from_bytes_wide_fn_eq, leValZ64_words]
  obtain ⟨l0, l1, l2, l3, l4, g0, g1, g2, g3, g4, hlo, hhi, hllo, hlhi, hval⟩ := limbsLoHi_spec _ _ _ _ _ _ _ _
    (word_bd hb0) (word_bd hb1) (word_bd hb2) (word_bd hb3) (word_bd hb4) (word_bd hb5) (word_bd hb6) (word_bd hb7)
  rw [hlo, hhi, ← hval]
  obtain ⟨p0, p1, p2, p3, p4, hep, hlp, hcp, hvp⟩ := mr_mulR_spec l0 l1 l2 l3 l4 hllo
  obtain ⟨q0, q1, q2, q3, q4, heq, hlq, hcq, hvq⟩ := mr_mulRR_spec g0 g1 g2 g3 g4 hlhi
  show ∃ o0 o1 o2 o3 o4, ap55 add_fn (ap9 montgomery_reduce_fn (mulRR g0 g1 g2 g3 g4))
    (ap9 montgomery_reduce_fn (mulR l0 l1 l2 l3 l4)) = [o0, o1, o2, o3, o4] ∧ _
  rw [hep, heq]
  obtain ⟨o0, o1, o2, o3, o4, he, hl, hv⟩ := add_fn_spec q0 q1 q2 q3 q4 p0 p1 p2 p3 p4 hlq hlp hcq.2 hcp.2
  refine ⟨o0, o1, o2, o3, o4, he, hl, ?_⟩
  rw [hv]
  apply (ZMod.intCast_eq_intCast_iff' _ _ ell).1
  push_cast
  rw [hvq, hvp]; ring

end Dalek.Proofs.Scalar52

import Dalek.Proofs.Scalar52.Mul
/-! # Scalar52: `montgomery_reduce` divides by `R = 2^260` modulo `l` and returns the canonical representative -/
set_option exponentiation.threshold 600

namespace Dalek.Proofs.Scalar52
open Dalek.IR Dalek.Gen.Norm.Scalar52 Dalek.Gen.Consts

/-- `part1`: with `p = (sum · LFACTOR mod 2^64) mod 2^52`, `sum + p·L[0]` is divisible by `2^52`
(holds because `LFACTOR · L[0] ≡ -1 (mod 2^52)`; both are literals of the generated code). -/
theorem part1_div (s : Int) :
    (s + ((((s % 2 ^ 64) * 1439961107955227) % 2 ^ 64) % 2 ^ 52) * 671914833335277) % 2 ^ 52 = 0 := by
  omega

theorem part1_step (s n c : Int) (hn : n = (((s % 2 ^ 64) * 1439961107955227) % 2 ^ 64) % 2 ^ 52)
    (hc : c = (s + n * 671914833335277) / 2 ^ 52) :
    (0 ≤ n ∧ n < 2 ^ 52) ∧ s + n * 671914833335277 = 2 ^ 52 * c := by
  have d := part1_div s
  rw [← hn] at d
  omega

theorem part2_step (s c : Int) (hc : c = s / 2 ^ 52) : s = (s % 2 ^ 64) % 2 ^ 52 + 2 ^ 52 * c := by
  omega

theorem repZ5_bd (a0 a1 a2 a3 a4 : Int) (h : Lim (2 ^ 52) [a0, a1, a2, a3, a4]) :
    0 ≤ repZ [a0, a1, a2, a3, a4] ∧ repZ [a0, a1, a2, a3, a4] < 2 ^ 260 := by
  simp only [Lim, repZ] at *
  omega

theorem lt_two_ell (R N n : Int) (h : 2 ^ 260 * R = N + n * ell) (hN : N < 2 ^ 260 * ell) (hn : n < 2 ^ 260) :
    R < 2 * ell := by
  rw [ell_eqZ] at *
  omega

theorem top_limb_bd (r0 r1 r2 r3 r4 : Int) (h0 : 0 ≤ r0) (h1 : 0 ≤ r1) (h2 : 0 ≤ r2) (h3 : 0 ≤ r3)
    (h : repZ [r0, r1, r2, r3, r4] < 2 * ell) : r4 < 2 ^ 52 := by
  simp only [repZ] at h
  rw [ell_eqZ] at h
  omega

/-- five `part1` steps (the first Montgomery factor `n0` is a parameter), four `part2` steps and `sub(·, L)` -/
def mrTail (z0 z1 z2 z3 z4 z5 z6 z7 z8 n0 : Int) : List Int :=
  let c0 := (z0 + n0 * 671914833335277) / 2 ^ 52
  let s1 := (c0 + z1) + n0 * 3916664325105025
  let n1 := (((s1 % 2 ^ 64) * 1439961107955227) % 2 ^ 64) % 2 ^ 52
  let c1 := (s1 + n1 * 671914833335277) / 2 ^ 52
  let s2 := ((c1 + z2) + n0 * 1367801) + n1 * 3916664325105025
  let n2 := (((s2 % 2 ^ 64) * 1439961107955227) % 2 ^ 64) % 2 ^ 52
  let c2 := (s2 + n2 * 671914833335277) / 2 ^ 52
  let s3 := ((c2 + z3) + n1 * 1367801) + n2 * 3916664325105025
  let n3 := (((s3 % 2 ^ 64) * 1439961107955227) % 2 ^ 64) % 2 ^ 52
  let c3 := (s3 + n3 * 671914833335277) / 2 ^ 52
  let s4 := (((c3 + z4) + n0 * 17592186044416) + n2 * 1367801) + n3 * 3916664325105025
  let n4 := (((s4 % 2 ^ 64) * 1439961107955227) % 2 ^ 64) % 2 ^ 52
  let c4 := (s4 + n4 * 671914833335277) / 2 ^ 52
  let s5 := (((c4 + z5) + n1 * 17592186044416) + n3 * 1367801) + n4 * 3916664325105025
  let c5 := s5 / 2 ^ 52
  let s6 := ((c5 + z6) + n2 * 17592186044416) + n4 * 1367801
  let c6 := s6 / 2 ^ 52
  let s7 := (c6 + z7) + n3 * 17592186044416
  let c7 := s7 / 2 ^ 52
  let s8 := (c7 + z8) + n4 * 17592186044416
  let c8 := s8 / 2 ^ 52
  sub_fn ((s5 % 2 ^ 64) % 2 ^ 52) ((s6 % 2 ^ 64) % 2 ^ 52) ((s7 % 2 ^ 64) % 2 ^ 52) ((s8 % 2 ^ 64) % 2 ^ 52) c8
    671914833335277 3916664325105025 1367801 0 17592186044416

/-- `montgomery_reduce_fn` has this shape (structural equality, by `rfl`). -/
theorem montgomery_reduce_fn_eq (z0 z1 z2 z3 z4 z5 z6 z7 z8 : Int) :
    montgomery_reduce_fn z0 z1 z2 z3 z4 z5 z6 z7 z8 =
      mrTail z0 z1 z2 z3 z4 z5 z6 z7 z8 ((((z0 % 2 ^ 64) * 1439961107955227) % 2 ^ 64) % 2 ^ 52) := rfl

/-- the arithmetic core: the intermediate `r = (N + n·l) / 2^260` -/
theorem montgomery_core (z0 z1 z2 z3 z4 z5 z6 z7 z8 : Int)
    (n0 c0 s1 n1 c1 s2 n2 c2 s3 n3 c3 s4 n4 c4 s5 c5 s6 c6 s7 c7 s8 c8 : Int)
    (hz : Lim W1 [z0, z1, z2, z3, z4, z5, z6, z7, z8])
    (hN : repZ [z0, z1, z2, z3, z4, z5, z6, z7, z8] < 2 ^ 260 * ell)
    (hn0 : n0 = (((z0 % 2 ^ 64) * 1439961107955227) % 2 ^ 64) % 2 ^ 52)
    (hc0 : c0 = (z0 + n0 * 671914833335277) / 2 ^ 52)
    (hs1 : s1 = (c0 + z1) + n0 * 3916664325105025)
    (hn1 : n1 = (((s1 % 2 ^ 64) * 1439961107955227) % 2 ^ 64) % 2 ^ 52)
    (hc1 : c1 = (s1 + n1 * 671914833335277) / 2 ^ 52)
    (hs2 : s2 = ((c1 + z2) + n0 * 1367801) + n1 * 3916664325105025)
    (hn2 : n2 = (((s2 % 2 ^ 64) * 1439961107955227) % 2 ^ 64) % 2 ^ 52)
    (hc2 : c2 = (s2 + n2 * 671914833335277) / 2 ^ 52)
    (hs3 : s3 = ((c2 + z3) + n1 * 1367801) + n2 * 3916664325105025)
    (hn3 : n3 = (((s3 % 2 ^ 64) * 1439961107955227) % 2 ^ 64) % 2 ^ 52)
    (hc3 : c3 = (s3 + n3 * 671914833335277) / 2 ^ 52)
    (hs4 : s4 = (((c3 + z4) + n0 * 17592186044416) + n2 * 1367801) + n3 * 3916664325105025)
    (hn4 : n4 = (((s4 % 2 ^ 64) * 1439961107955227) % 2 ^ 64) % 2 ^ 52)
    (hc4 : c4 = (s4 + n4 * 671914833335277) / 2 ^ 52)
    (hs5 : s5 = (((c4 + z5) + n1 * 17592186044416) + n3 * 1367801) + n4 * 3916664325105025)
    (hc5 : c5 = s5 / 2 ^ 52)
    (hs6 : s6 = ((c5 + z6) + n2 * 17592186044416) + n4 * 1367801)
    (hc6 : c6 = s6 / 2 ^ 52)
    (hs7 : s7 = (c6 + z7) + n3 * 17592186044416)
    (hc7 : c7 = s7 / 2 ^ 52)
    (hs8 : s8 = (c7 + z8) + n4 * 17592186044416)
    (hc8 : c8 = s8 / 2 ^ 52) :
    Lim (2 ^ 52) [(s5 % 2 ^ 64) % 2 ^ 52, (s6 % 2 ^ 64) % 2 ^ 52, (s7 % 2 ^ 64) % 2 ^ 52, (s8 % 2 ^ 64) % 2 ^ 52, c8] ∧
    repZ [(s5 % 2 ^ 64) % 2 ^ 52, (s6 % 2 ^ 64) % 2 ^ 52, (s7 % 2 ^ 64) % 2 ^ 52, (s8 % 2 ^ 64) % 2 ^ 52, c8] < 2 * ell ∧
    2 ^ 260 * repZ [(s5 % 2 ^ 64) % 2 ^ 52, (s6 % 2 ^ 64) % 2 ^ 52, (s7 % 2 ^ 64) % 2 ^ 52, (s8 % 2 ^ 64) % 2 ^ 52, c8]
      = repZ [z0, z1, z2, z3, z4, z5, z6, z7, z8] + repZ [n0, n1, n2, n3, n4] * ell := by
  obtain ⟨b0, e0⟩ := part1_step z0 n0 c0 hn0 hc0
  obtain ⟨b1, e1⟩ := part1_step s1 n1 c1 hn1 hc1
  obtain ⟨b2, e2⟩ := part1_step s2 n2 c2 hn2 hc2
  obtain ⟨b3, e3⟩ := part1_step s3 n3 c3 hn3 hc3
  obtain ⟨b4, e4⟩ := part1_step s4 n4 c4 hn4 hc4
  have e5 := part2_step s5 c5 hc5
  have e6 := part2_step s6 c6 hc6
  have e7 := part2_step s7 c7 hc7
  have e8 := part2_step s8 c8 hc8
  clear hn0 hn1 hn2 hn3 hn4 hc0 hc1 hc2 hc3 hc4 hc5 hc6 hc7 hc8
  simp only [Lim, and_true, W1] at hz
  have p0 : 0 ≤ c0 := by omega
  have p1 : 0 ≤ c1 := by omega
  have p2 : 0 ≤ c2 := by omega
  have p3 : 0 ≤ c3 := by omega
  have p4 : 0 ≤ c4 := by omega
  have p5 : 0 ≤ c5 := by omega
  have p6 : 0 ≤ c6 := by omega
  have p7 : 0 ≤ c7 := by omega
  have p8 : 0 ≤ c8 := by omega
  have key : 2 ^ 260 * repZ [(s5 % 2 ^ 64) % 2 ^ 52, (s6 % 2 ^ 64) % 2 ^ 52, (s7 % 2 ^ 64) % 2 ^ 52, (s8 % 2 ^ 64) % 2 ^ 52, c8]
      = repZ [z0, z1, z2, z3, z4, z5, z6, z7, z8] + repZ [n0, n1, n2, n3, n4] * ell := by
    rw [ell_eqZ]
    simp only [repZ]
    linear_combination (-1 : Int) * e0 - 2 ^ 52 * (e1 - hs1) - 2 ^ 104 * (e2 - hs2) - 2 ^ 156 * (e3 - hs3)
      - 2 ^ 208 * (e4 - hs4) - 2 ^ 260 * (e5 - hs5) - 2 ^ 312 * (e6 - hs6) - 2 ^ 364 * (e7 - hs7) - 2 ^ 416 * (e8 - hs8)
  obtain ⟨hn', hn⟩ := repZ5_bd n0 n1 n2 n3 n4 (by simp only [Lim, and_true]; exact ⟨b0, b1, b2, b3, b4⟩)
  have h2l := lt_two_ell _ _ _ key hN hn
  refine ⟨?_, h2l, key⟩
  have ht := top_limb_bd _ _ _ _ c8 (by omega) (by omega) (by omega) (by omega) h2l
  simp only [Lim, and_true]
  clear key h2l hN e0 e1 e2 e3 e4 e5 e6 e7 e8
  omega

/-- `montgomery_reduce` (with the first factor given): canonical output `o` with `o·2^260 ≡ N (mod l)` -/
theorem mrTail_spec (z0 z1 z2 z3 z4 z5 z6 z7 z8 n0 : Int)
    (hn0 : n0 = (((z0 % 2 ^ 64) * 1439961107955227) % 2 ^ 64) % 2 ^ 52)
    (hz : Lim W1 [z0, z1, z2, z3, z4, z5, z6, z7, z8])
    (hN : repZ [z0, z1, z2, z3, z4, z5, z6, z7, z8] < 2 ^ 260 * ell) :
    ∃ o0 o1 o2 o3 o4, mrTail z0 z1 z2 z3 z4 z5 z6 z7 z8 n0 = [o0, o1, o2, o3, o4] ∧
      Lim (2 ^ 52) [o0, o1, o2, o3, o4] ∧
      (0 ≤ repZ [o0, o1, o2, o3, o4] ∧ repZ [o0, o1, o2, o3, o4] < ell) ∧
      (ell : Int) ∣ repZ [o0, o1, o2, o3, o4] * 2 ^ 260 - repZ [z0, z1, z2, z3, z4, z5, z6, z7, z8] := by
  unfold mrTail
  extract_lets c0 s1 n1 c1 s2 n2 c2 s3 n3 c3 s4 n4 c4 s5 c5 s6 c6 s7 c7 s8 c8
  obtain ⟨hl, h2l, key⟩ := montgomery_core z0 z1 z2 z3 z4 z5 z6 z7 z8 n0 c0 s1 n1 c1 s2 n2 c2 s3 n3 c3 s4 n4 c4
    s5 c5 s6 c6 s7 c7 s8 c8 hz hN hn0 rfl rfl rfl rfl rfl rfl rfl rfl rfl rfl rfl rfl rfl rfl rfl rfl rfl rfl rfl rfl rfl
  obtain ⟨o0, o1, o2, o3, o4, he, hlo, hv⟩ := sub_fn_L_spec _ _ _ _ _ hl h2l
  refine ⟨o0, o1, o2, o3, o4, he, hlo, ?_, ?_⟩
  · rw [hv]
    exact ⟨Int.emod_nonneg _ (by norm_num [ell]), Int.emod_lt_of_pos _ (by norm_num [ell])⟩
  · rw [hv]
    generalize repZ [(s5 % 2 ^ 64) % 2 ^ 52, (s6 % 2 ^ 64) % 2 ^ 52, (s7 % 2 ^ 64) % 2 ^ 52, (s8 % 2 ^ 64) % 2 ^ 52, c8] = R at *
    have h1 := Int.emod_add_mul_ediv R ell
    exact ⟨repZ [n0, n1, n2, n3, n4] - 2 ^ 260 * (R / ell), by linear_combination (2 : Int) ^ 260 * h1 + key⟩

theorem montgomery_reduce_fn_spec (z0 z1 z2 z3 z4 z5 z6 z7 z8 : Int)
    (hz : Lim W1 [z0, z1, z2, z3, z4, z5, z6, z7, z8])
    (hN : repZ [z0, z1, z2, z3, z4, z5, z6, z7, z8] < 2 ^ 260 * ell) :
    ∃ o0 o1 o2 o3 o4, montgomery_reduce_fn z0 z1 z2 z3 z4 z5 z6 z7 z8 = [o0, o1, o2, o3, o4] ∧
      Lim (2 ^ 52) [o0, o1, o2, o3, o4] ∧
      (0 ≤ repZ [o0, o1, o2, o3, o4] ∧ repZ [o0, o1, o2, o3, o4] < ell) ∧
      (ell : Int) ∣ repZ [o0, o1, o2, o3, o4] * 2 ^ 260 - repZ [z0, z1, z2, z3, z4, z5, z6, z7, z8] := by
  rw [montgomery_reduce_fn_eq]
  exact mrTail_spec _ _ _ _ _ _ _ _ _ _ rfl hz hN

end Dalek.Proofs.Scalar52

import Dalek.Proofs.Scalar52.Montgomery
import Dalek.Proofs.Primes
import Mathlib.Data.ZMod.Basic
/-! # Scalar52: the composed kernels (`montgomery_mul`, `mul`, `square`, `as_montgomery`, `from_montgomery`, …)

Each composed kernel is a separate translated program that inlines its sub-kernels.  Its shallow function is
shown (by `rfl`) to be the composition of the shallow functions of the sub-kernels; the specifications of the
latter are then composed in `ZMod l`. -/
set_option exponentiation.threshold 600
set_option maxRecDepth 100000

namespace Dalek.Proofs.Scalar52
open Dalek.IR Dalek.Gen.Norm.Scalar52 Dalek.Gen.Consts

/-- apply a 9-argument function to a 9-element list -/
def ap9 (f : Int → Int → Int → Int → Int → Int → Int → Int → Int → List Int) : List Int → List Int
  | [z0, z1, z2, z3, z4, z5, z6, z7, z8] => f z0 z1 z2 z3 z4 z5 z6 z7 z8
  | _ => []

/-- apply a 5-argument function to a 5-element list -/
def ap5 (f : Int → Int → Int → Int → Int → List Int) : List Int → List Int
  | [a0, a1, a2, a3, a4] => f a0 a1 a2 a3 a4
  | _ => []

/-- `mul_internal(·, RR)` with the literal limbs of `constants::RR` -/
def mulRR (c0 c1 c2 c3 c4 : Int) : List Int :=
  mul_internal_fn c0 c1 c2 c3 c4 2764609938444603 3768881411696287 1616719297148420 1087343033131391 10175238647962

theorem RR_literal : toZ U64.RR = [2764609938444603, 3768881411696287, 1616719297148420, 1087343033131391, 10175238647962] := rfl
theorem R_literal : toZ U64.R = [4302102966953709, 1049714374468698, 4503599278581019, 4503599627370495, 17592186044415] := rfl

/-! ## structural equalities (all by `rfl`) -/

theorem montgomery_mul_fn_eq (a0 a1 a2 a3 a4 b0 b1 b2 b3 b4 : Int) :
    montgomery_mul_fn a0 a1 a2 a3 a4 b0 b1 b2 b3 b4
      = ap9 montgomery_reduce_fn (mul_internal_fn a0 a1 a2 a3 a4 b0 b1 b2 b3 b4) := rfl

theorem montgomery_square_fn_eq (a0 a1 a2 a3 a4 : Int) :
    montgomery_square_fn a0 a1 a2 a3 a4 = ap9 montgomery_reduce_fn (square_internal_fn a0 a1 a2 a3 a4) := rfl

theorem mul_fn_eq (a0 a1 a2 a3 a4 b0 b1 b2 b3 b4 : Int) :
    mul_fn a0 a1 a2 a3 a4 b0 b1 b2 b3 b4
      = ap9 montgomery_reduce_fn (ap5 mulRR (ap9 montgomery_reduce_fn (mul_internal_fn a0 a1 a2 a3 a4 b0 b1 b2 b3 b4))) := rfl

theorem square_fn_eq (a0 a1 a2 a3 a4 : Int) :
    square_fn a0 a1 a2 a3 a4
      = ap9 montgomery_reduce_fn (ap5 mulRR (ap9 montgomery_reduce_fn (square_internal_fn a0 a1 a2 a3 a4))) := rfl

theorem as_montgomery_fn_eq (a0 a1 a2 a3 a4 : Int) :
    as_montgomery_fn a0 a1 a2 a3 a4 = ap9 montgomery_reduce_fn (mulRR a0 a1 a2 a3 a4) := rfl

/-- in `from_montgomery` the translator knows `limbs[0] < 2^64` and drops the first `as u64` -/
theorem from_montgomery_fn_eq (a0 a1 a2 a3 a4 : Int) :
    from_montgomery_fn a0 a1 a2 a3 a4
      = mrTail a0 a1 a2 a3 a4 0 0 0 0 (((a0 * 1439961107955227) % 2 ^ 64) % 2 ^ 52) := rfl

/-! ## arithmetic in `ZMod l` -/

theorem two_pow_ne_zero : ((2 : ZMod ell) ^ 260) ≠ 0 := by
  apply pow_ne_zero
  have h : ((2 : Nat) : ZMod ell) ≠ 0 := by
    rw [Ne, ZMod.natCast_eq_zero_iff]
    exact Nat.not_dvd_of_pos_of_lt (by norm_num) (by norm_num [ell])
  exact_mod_cast h

theorem zmod_of_dvd {o N : Int} (h : (ell : Int) ∣ o * 2 ^ 260 - N) :
    (o : ZMod ell) * 2 ^ 260 = (N : ZMod ell) := by
  have := (ZMod.intCast_eq_intCast_iff_dvd_sub N (o * 2 ^ 260) ell).2 h
  rw [this]; push_cast; ring

theorem eq_emod_of_zmod {o X : Int} (h0 : 0 ≤ o) (h1 : o < ell) (h : (o : ZMod ell) = (X : ZMod ell)) :
    o = X % ell := by
  have := (ZMod.intCast_eq_intCast_iff' o X ell).1 h
  rwa [Int.emod_eq_of_lt h0 h1] at this

theorem repZ_RR : repZ [2764609938444603, 3768881411696287, 1616719297148420, 1087343033131391, 10175238647962]
    = (((2 ^ 260) ^ 2 % ell : Nat) : Int) := by
  rw [← val52_RR, ← repZ_toZ, RR_literal]

theorem repZ_R : repZ [4302102966953709, 1049714374468698, 4503599278581019, 4503599627370495, 17592186044415]
    = ((2 ^ 260 % ell : Nat) : Int) := by
  rw [← val52_R, ← repZ_toZ, R_literal]

theorem RR_zmod : ((repZ [2764609938444603, 3768881411696287, 1616719297148420, 1087343033131391, 10175238647962] : Int) : ZMod ell)
    = (2 ^ 260) ^ 2 := by
  rw [repZ_RR, Int.cast_natCast, ZMod.natCast_mod]; push_cast; rfl

theorem R_zmod : ((repZ [4302102966953709, 1049714374468698, 4503599278581019, 4503599627370495, 17592186044415] : Int) : ZMod ell)
    = 2 ^ 260 := by
  rw [repZ_R, Int.cast_natCast, ZMod.natCast_mod]; push_cast; rfl

theorem RR_lim_lit : Lim (2 ^ 52) [2764609938444603, 3768881411696287, 1616719297148420, 1087343033131391, 10175238647962] := by
  simp only [Lim]; norm_num

theorem R_lim_lit : Lim (2 ^ 52) [4302102966953709, 1049714374468698, 4503599278581019, 4503599627370495, 17592186044415] := by
  simp only [Lim]; norm_num

/-! ## `montgomery_reduce ∘ mul_internal` -/

/-- `montgomery_reduce(mul_internal(a, b))` for `a·b < 2^260·l`: canonical `o` with `o·2^260 = a·b` in `ZMod l` -/
theorem mr_mi_spec (a0 a1 a2 a3 a4 b0 b1 b2 b3 b4 : Int)
    (ha : Lim (2 ^ 52) [a0, a1, a2, a3, a4]) (hb : Lim (2 ^ 52) [b0, b1, b2, b3, b4])
    (hab : repZ [a0, a1, a2, a3, a4] * repZ [b0, b1, b2, b3, b4] < 2 ^ 260 * ell) :
    ∃ o0 o1 o2 o3 o4, ap9 montgomery_reduce_fn (mul_internal_fn a0 a1 a2 a3 a4 b0 b1 b2 b3 b4) = [o0, o1, o2, o3, o4] ∧
      Lim (2 ^ 52) [o0, o1, o2, o3, o4] ∧
      (0 ≤ repZ [o0, o1, o2, o3, o4] ∧ repZ [o0, o1, o2, o3, o4] < ell) ∧
      ((repZ [o0, o1, o2, o3, o4] : Int) : ZMod ell) * 2 ^ 260
        = ((repZ [a0, a1, a2, a3, a4] : Int) : ZMod ell) * ((repZ [b0, b1, b2, b3, b4] : Int) : ZMod ell) := by
  obtain ⟨z0, z1, z2, z3, z4, z5, z6, z7, z8, hz, hzl, hzv⟩ := mul_internal_fn_spec a0 a1 a2 a3 a4 b0 b1 b2 b3 b4 ha hb
  rw [hz]
  obtain ⟨o0, o1, o2, o3, o4, he, hl, hc, hd⟩ := montgomery_reduce_fn_spec z0 z1 z2 z3 z4 z5 z6 z7 z8 hzl (by rw [hzv]; exact hab)
  refine ⟨o0, o1, o2, o3, o4, he, hl, hc, ?_⟩
  rw [zmod_of_dvd hd, hzv]; push_cast; rfl

theorem mul_lt_of_lt_pow {A B : Int} (hA : A < 2 ^ 260) (hB0 : 0 ≤ B) (hB : B < ell) :
    A * B < 2 ^ 260 * ell := by
  rcases hB0.eq_or_lt with h | h
  · rw [← h]; norm_num [ell]
  · exact Int.mul_lt_mul hA (le_of_lt hB) h (by norm_num)

/-- `montgomery_reduce(mul_internal(c, RR))`: canonical representative of `c·2^260` (any 52-bit limbs `c`) -/
theorem mr_mulRR_spec (c0 c1 c2 c3 c4 : Int) (hc : Lim (2 ^ 52) [c0, c1, c2, c3, c4]) :
    ∃ o0 o1 o2 o3 o4, ap9 montgomery_reduce_fn (mulRR c0 c1 c2 c3 c4) = [o0, o1, o2, o3, o4] ∧
      Lim (2 ^ 52) [o0, o1, o2, o3, o4] ∧
      (0 ≤ repZ [o0, o1, o2, o3, o4] ∧ repZ [o0, o1, o2, o3, o4] < ell) ∧
      ((repZ [o0, o1, o2, o3, o4] : Int) : ZMod ell) = ((repZ [c0, c1, c2, c3, c4] : Int) : ZMod ell) * 2 ^ 260 := by
  obtain ⟨hC0, hC⟩ := repZ5_bd c0 c1 c2 c3 c4 hc
  have hRR : (0 : Int) ≤ repZ [2764609938444603, 3768881411696287, 1616719297148420, 1087343033131391, 10175238647962]
      ∧ repZ [2764609938444603, 3768881411696287, 1616719297148420, 1087343033131391, 10175238647962] < ell := by
    rw [repZ_RR]
    exact ⟨Int.natCast_nonneg _, by exact_mod_cast Nat.mod_lt _ (by norm_num [ell])⟩
  obtain ⟨o0, o1, o2, o3, o4, he, hl, hcan, hv⟩ := mr_mi_spec c0 c1 c2 c3 c4 _ _ _ _ _ hc RR_lim_lit
    (mul_lt_of_lt_pow hC hRR.1 hRR.2)
  refine ⟨o0, o1, o2, o3, o4, he, hl, hcan, ?_⟩
  rw [RR_zmod] at hv
  apply mul_right_cancel₀ two_pow_ne_zero
  rw [hv]; ring

/-! ## the composed kernels -/

theorem montgomery_mul_fn_spec (a0 a1 a2 a3 a4 b0 b1 b2 b3 b4 : Int)
    (ha : Lim (2 ^ 52) [a0, a1, a2, a3, a4]) (hb : Lim (2 ^ 52) [b0, b1, b2, b3, b4])
    (hab : repZ [a0, a1, a2, a3, a4] * repZ [b0, b1, b2, b3, b4] < 2 ^ 260 * ell) :
    ∃ o0 o1 o2 o3 o4, montgomery_mul_fn a0 a1 a2 a3 a4 b0 b1 b2 b3 b4 = [o0, o1, o2, o3, o4] ∧
      Lim (2 ^ 52) [o0, o1, o2, o3, o4] ∧
      (0 ≤ repZ [o0, o1, o2, o3, o4] ∧ repZ [o0, o1, o2, o3, o4] < ell) ∧
      ((repZ [o0, o1, o2, o3, o4] : Int) : ZMod ell) * 2 ^ 260
        = ((repZ [a0, a1, a2, a3, a4] : Int) : ZMod ell) * ((repZ [b0, b1, b2, b3, b4] : Int) : ZMod ell) := by
  rw [montgomery_mul_fn_eq]
  exact mr_mi_spec _ _ _ _ _ _ _ _ _ _ ha hb hab

theorem montgomery_square_fn_spec (a0 a1 a2 a3 a4 : Int) (ha : Lim (2 ^ 52) [a0, a1, a2, a3, a4])
    (hab : repZ [a0, a1, a2, a3, a4] * repZ [a0, a1, a2, a3, a4] < 2 ^ 260 * ell) :
    ∃ o0 o1 o2 o3 o4, montgomery_square_fn a0 a1 a2 a3 a4 = [o0, o1, o2, o3, o4] ∧
      Lim (2 ^ 52) [o0, o1, o2, o3, o4] ∧
      (0 ≤ repZ [o0, o1, o2, o3, o4] ∧ repZ [o0, o1, o2, o3, o4] < ell) ∧
      ((repZ [o0, o1, o2, o3, o4] : Int) : ZMod ell) * 2 ^ 260
        = ((repZ [a0, a1, a2, a3, a4] : Int) : ZMod ell) * ((repZ [a0, a1, a2, a3, a4] : Int) : ZMod ell) := by
  rw [montgomery_square_fn_eq, square_internal_fn_eq]
  exact mr_mi_spec _ _ _ _ _ _ _ _ _ _ ha ha hab

/-- two Montgomery reductions: `montgomery_reduce(mul_internal(montgomery_reduce(mul_internal(a,b)), RR))` -/
theorem mr_mulRR_mr_mi_spec (a0 a1 a2 a3 a4 b0 b1 b2 b3 b4 : Int)
    (ha : Lim (2 ^ 52) [a0, a1, a2, a3, a4]) (hb : Lim (2 ^ 52) [b0, b1, b2, b3, b4])
    (hab : repZ [a0, a1, a2, a3, a4] * repZ [b0, b1, b2, b3, b4] < 2 ^ 260 * ell) :
    ∃ o0 o1 o2 o3 o4,
      ap9 montgomery_reduce_fn (ap5 mulRR (ap9 montgomery_reduce_fn (mul_internal_fn a0 a1 a2 a3 a4 b0 b1 b2 b3 b4)))
        = [o0, o1, o2, o3, o4] ∧
      Lim (2 ^ 52) [o0, o1, o2, o3, o4] ∧
      repZ [o0, o1, o2, o3, o4] = (repZ [a0, a1, a2, a3, a4] * repZ [b0, b1, b2, b3, b4]) % ell := by
  obtain ⟨c0, c1, c2, c3, c4, he1, hl1, _, hv1⟩ := mr_mi_spec a0 a1 a2 a3 a4 b0 b1 b2 b3 b4 ha hb hab
  rw [he1]
  obtain ⟨o0, o1, o2, o3, o4, he2, hl2, hcan2, hv2⟩ := mr_mulRR_spec c0 c1 c2 c3 c4 hl1
  refine ⟨o0, o1, o2, o3, o4, he2, hl2, ?_⟩
  apply eq_emod_of_zmod hcan2.1 hcan2.2
  rw [hv2, hv1]; push_cast; rfl

theorem mul_fn_spec (a0 a1 a2 a3 a4 b0 b1 b2 b3 b4 : Int)
    (ha : Lim (2 ^ 52) [a0, a1, a2, a3, a4]) (hb : Lim (2 ^ 52) [b0, b1, b2, b3, b4])
    (hab : repZ [a0, a1, a2, a3, a4] * repZ [b0, b1, b2, b3, b4] < 2 ^ 260 * ell) :
    ∃ o0 o1 o2 o3 o4, mul_fn a0 a1 a2 a3 a4 b0 b1 b2 b3 b4 = [o0, o1, o2, o3, o4] ∧
      Lim (2 ^ 52) [o0, o1, o2, o3, o4] ∧
      repZ [o0, o1, o2, o3, o4] = (repZ [a0, a1, a2, a3, a4] * repZ [b0, b1, b2, b3, b4]) % ell := by
  rw [mul_fn_eq]
  exact mr_mulRR_mr_mi_spec _ _ _ _ _ _ _ _ _ _ ha hb hab

theorem square_fn_spec (a0 a1 a2 a3 a4 : Int) (ha : Lim (2 ^ 52) [a0, a1, a2, a3, a4])
    (hab : repZ [a0, a1, a2, a3, a4] * repZ [a0, a1, a2, a3, a4] < 2 ^ 260 * ell) :
    ∃ o0 o1 o2 o3 o4, square_fn a0 a1 a2 a3 a4 = [o0, o1, o2, o3, o4] ∧
      Lim (2 ^ 52) [o0, o1, o2, o3, o4] ∧
      repZ [o0, o1, o2, o3, o4] = (repZ [a0, a1, a2, a3, a4] * repZ [a0, a1, a2, a3, a4]) % ell := by
  rw [square_fn_eq, square_internal_fn_eq]
  exact mr_mulRR_mr_mi_spec _ _ _ _ _ _ _ _ _ _ ha ha hab

theorem as_montgomery_fn_spec (a0 a1 a2 a3 a4 : Int) (ha : Lim (2 ^ 52) [a0, a1, a2, a3, a4]) :
    ∃ o0 o1 o2 o3 o4, as_montgomery_fn a0 a1 a2 a3 a4 = [o0, o1, o2, o3, o4] ∧
      Lim (2 ^ 52) [o0, o1, o2, o3, o4] ∧
      repZ [o0, o1, o2, o3, o4] = (repZ [a0, a1, a2, a3, a4] * 2 ^ 260) % ell := by
  rw [as_montgomery_fn_eq]
  obtain ⟨o0, o1, o2, o3, o4, he, hl, hcan, hv⟩ := mr_mulRR_spec a0 a1 a2 a3 a4 ha
  refine ⟨o0, o1, o2, o3, o4, he, hl, ?_⟩
  apply eq_emod_of_zmod hcan.1 hcan.2
  rw [hv]; push_cast; rfl

theorem from_montgomery_fn_spec (a0 a1 a2 a3 a4 : Int) (ha : Lim (2 ^ 52) [a0, a1, a2, a3, a4]) :
    ∃ o0 o1 o2 o3 o4, from_montgomery_fn a0 a1 a2 a3 a4 = [o0, o1, o2, o3, o4] ∧
      Lim (2 ^ 52) [o0, o1, o2, o3, o4] ∧
      (0 ≤ repZ [o0, o1, o2, o3, o4] ∧ repZ [o0, o1, o2, o3, o4] < ell) ∧
      ((repZ [o0, o1, o2, o3, o4] : Int) : ZMod ell) * 2 ^ 260 = ((repZ [a0, a1, a2, a3, a4] : Int) : ZMod ell) := by
  rw [from_montgomery_fn_eq]
  obtain ⟨hA0, hA⟩ := repZ5_bd a0 a1 a2 a3 a4 ha
  have hrep : repZ [a0, a1, a2, a3, a4, 0, 0, 0, 0] = repZ [a0, a1, a2, a3, a4] := by simp only [repZ]; ring
  obtain ⟨o0, o1, o2, o3, o4, he, hl, hcan, hd⟩ := mrTail_spec a0 a1 a2 a3 a4 0 0 0 0 (((a0 * 1439961107955227) % 2 ^ 64) % 2 ^ 52)
    (by simp only [Lim] at ha; rw [Int.emod_eq_of_lt ha.1.1 (by omega)])
    (by simp only [Lim, W1, and_true] at ha ⊢; omega)
    (by rw [hrep]; have : (0:Int) < ell := by norm_num [ell]
        nlinarith)
  refine ⟨o0, o1, o2, o3, o4, he, hl, hcan, ?_⟩
  rw [zmod_of_dvd hd, hrep]

end Dalek.Proofs.Scalar52

import Dalek.Model.AlgBounds
import Dalek.IR.LimbSound
import Dalek.IR.AlgSound
/-!
# Soundness of the limb-bound abstract interpretation of AlgIR formulas

`boundOps_rel`: the abstract interpretation `boundOps B` (kernel analyses) is operation-wise related to the pair
(debug-build execution `limbOps B`, release-build execution `limbOpsW B`): whenever the analysis of an operation
succeeds, the debug build of that operation does not panic, returns what the release build returns, and the
result lies inside the analysed interval vector.  Every case is `Prog.norm_sound`.

`check_sound`: hence (by the parametricity theorem `AProg.run_rel`) a successful `check B F pre post` means: for
all concrete inputs inside `pre`, the debug-build execution of the WHOLE formula does not panic, agrees with the
release build, and the outputs lie inside `post`.

Mathlib-free.
-/
namespace Dalek.Proofs.AlgBoundsSound
open Dalek.IR Dalek.Model.AlgBounds

/-! ## product of two interpretations -/

def prodOps {V W : Type} (o : FOps V) (o' : FOps W) : FOps (V × W) where
  add := fun a b => (o.add a.1 b.1, o'.add a.2 b.2)
  sub := fun a b => (o.sub a.1 b.1, o'.sub a.2 b.2)
  mul := fun a b => (o.mul a.1 b.1, o'.mul a.2 b.2)
  neg := fun a => (o.neg a.1, o'.neg a.2)
  square := fun a => (o.square a.1, o'.square a.2)
  square2 := fun a => (o.square2 a.1, o'.square2 a.2)
  pow2k := fun a k => (o.pow2k a.1 k, o'.pow2k a.2 k)
  const := fun i => (o.const i, o'.const i)
  ctEq := fun a b => (o.ctEq a.1 b.1, o'.ctEq a.2 b.2)
  isNeg := fun a => (o.isNeg a.1, o'.isNeg a.2)
  isZero := fun a => (o.isZero a.1, o'.isZero a.2)
  cand := fun a b => (o.cand a.1 b.1, o'.cand a.2 b.2)
  cor := fun a b => (o.cor a.1 b.1, o'.cor a.2 b.2)
  cxor := fun a b => (o.cxor a.1 b.1, o'.cxor a.2 b.2)
  cnot := fun a => (o.cnot a.1, o'.cnot a.2)
  csel := fun c a b => (o.csel c.1 a.1 b.1, o'.csel c.2 a.2 b.2)
  dflt := (o.dflt, o'.dflt)

theorem prodOps_fst {V W : Type} (o : FOps V) (o' : FOps W) :
    FOps.Rel (fun (p : V × W) (v : V) => p.1 = v) (prodOps o o') o where
  add := by intro a b a' b' h1 h2; subst h1; subst h2; rfl
  sub := by intro a b a' b' h1 h2; subst h1; subst h2; rfl
  mul := by intro a b a' b' h1 h2; subst h1; subst h2; rfl
  neg := by intro a a' h1; subst h1; rfl
  square := by intro a a' h1; subst h1; rfl
  square2 := by intro a a' h1; subst h1; rfl
  pow2k := by intro a a' k h1; subst h1; rfl
  const := by intro i; rfl
  ctEq := by intro a b a' b' h1 h2; subst h1; subst h2; rfl
  isNeg := by intro a a' h1; subst h1; rfl
  isZero := by intro a a' h1; subst h1; rfl
  cand := by intro a b a' b' h1 h2; subst h1; subst h2; rfl
  cor := by intro a b a' b' h1 h2; subst h1; subst h2; rfl
  cxor := by intro a b a' b' h1 h2; subst h1; subst h2; rfl
  cnot := by intro a a' h1; subst h1; rfl
  csel := by intro c a b c' a' b' h0 h1 h2; subst h0; subst h1; subst h2; rfl
  dflt := rfl

theorem prodOps_snd {V W : Type} (o : FOps V) (o' : FOps W) :
    FOps.Rel (fun (p : V × W) (w : W) => p.2 = w) (prodOps o o') o' where
  add := by intro a b a' b' h1 h2; subst h1; subst h2; rfl
  sub := by intro a b a' b' h1 h2; subst h1; subst h2; rfl
  mul := by intro a b a' b' h1 h2; subst h1; subst h2; rfl
  neg := by intro a a' h1; subst h1; rfl
  square := by intro a a' h1; subst h1; rfl
  square2 := by intro a a' h1; subst h1; rfl
  pow2k := by intro a a' k h1; subst h1; rfl
  const := by intro i; rfl
  ctEq := by intro a b a' b' h1 h2; subst h1; subst h2; rfl
  isNeg := by intro a a' h1; subst h1; rfl
  isZero := by intro a a' h1; subst h1; rfl
  cand := by intro a b a' b' h1 h2; subst h1; subst h2; rfl
  cor := by intro a b a' b' h1 h2; subst h1; subst h2; rfl
  cxor := by intro a b a' b' h1 h2; subst h1; subst h2; rfl
  cnot := by intro a a' h1; subst h1; rfl
  csel := by intro c a b c' a' b' h0 h1 h2; subst h0; subst h1; subst h2; rfl
  dflt := rfl

theorem ListRel.eq_map {V W : Type} {f : V → W} {xs : List V} {ys : List W}
    (h : ListRel (fun p c => f p = c) xs ys) : ys = xs.map f := by
  induction h with
  | nil => rfl
  | cons hab _ ih => subst hab; rw [ih]; rfl

theorem ListRel.map_map {A V W : Type} {R : V → W → Prop} (f : A → V) (g : A → W) (h : ∀ a, R (f a) (g a)) :
    ∀ l : List A, ListRel R (l.map f) (l.map g)
  | [] => .nil
  | a :: l => .cons (h a) (ListRel.map_map f g h l)

/-! ## the relation -/

/-- the pair (debug-build result, release-build result) -/
abbrev PVal := CVal × List Nat

/-- a successful analysis implies: no panic, both builds agree, the value is inside the interval vector -/
def R (a : AVal) (p : PVal) : Prop := ∀ I, a = some I → p.1 = some p.2 ∧ EnvIn p.2 I

theorem EnvIn_append : ∀ (a : List Nat) (I : List Itv) {b : List Nat} {J : List Itv},
    EnvIn a I → EnvIn b J → EnvIn (a ++ b) (I ++ J)
  | [], [], _, _, _, hb => by simpa using hb
  | x :: xs, t :: ts, b, J, ha, hb => by
      simp only [EnvIn] at ha
      simp only [List.cons_append, EnvIn]
      exact ⟨ha.1, EnvIn_append xs ts ha.2 hb⟩
  | [], _ :: _, _, _, ha, _ => by simp [EnvIn] at ha
  | _ :: _, [], _, _, ha, _ => by simp [EnvIn] at ha

theorem absK_sound {p : Prog} {I P : List Itv} {l : List Nat} (h : absK p I = some P) (hl : EnvIn l I) :
    p.evalC l = some (p.evalW l) ∧ EnvIn (p.evalW l) P := by
  unfold absK at h
  cases hn : p.norm I with
  | none => rw [hn] at h; cases h
  | some qp =>
    obtain ⟨q, post⟩ := qp
    rw [hn] at h
    simp only [Option.map_some, Option.some.injEq] at h
    subst h
    obtain ⟨outs, h1, h2, h3, _⟩ := Prog.norm_sound p I q post hn l hl
    subst h2
    exact ⟨h1, h3⟩

theorem absSeq_sound : ∀ (ps : List Prog) {I P : List Itv} {l : List Nat}, absSeq ps I = some P → EnvIn l I →
    concSeq ps l = some (wrapSeq ps l) ∧ EnvIn (wrapSeq ps l) P
  | [], I, P, l, h, hl => by
      simp only [absSeq, Option.some.injEq] at h
      subst h
      exact ⟨rfl, hl⟩
  | p :: ps, I, P, l, h, hl => by
      simp only [absSeq] at h
      cases hk : absK p I with
      | none => rw [hk] at h; cases h
      | some Q =>
        rw [hk] at h
        simp only [Option.bind_some] at h
        obtain ⟨h1, h2⟩ := absK_sound hk hl
        obtain ⟨h3, h4⟩ := absSeq_sound ps h h2
        refine ⟨?_, h4⟩
        simp only [concSeq, wrapSeq, h1, Option.bind_some, h3]

theorem joinV_sound {a b j : List Itv} (h : joinV a b = some j) :
    itvsLe a j = true ∧ itvsLe b j = true := by
  unfold joinV at h
  simp only at h
  split at h
  · rename_i hc
    simp only [Option.some.injEq] at h
    subst h
    simpa only [Bool.and_eq_true] using hc
  · cases h

/-- the invariant found by `powFix`: a vector `H'` containing the start vector, closed under the body -/
theorem powFix_sound (body : Prog) : ∀ (fuel : Nat) {H P : List Itv}, powFix body fuel H = some P →
    ∃ H', (∀ l, EnvIn l H → EnvIn l H') ∧ absK body H' = some P ∧ itvsLe P H' = true := by
  intro fuel
  induction fuel with
  | zero =>
    intro H P h
    unfold powFix at h
    cases hk : absK body H with
    | none => rw [hk] at h; cases h
    | some Q =>
      rw [hk] at h
      simp only at h
      split at h
      · rename_i hle
        simp only [Option.some.injEq] at h
        subst h
        exact ⟨H, fun _ hl => hl, hk, hle⟩
      · cases h
  | succ f ih =>
    intro H P h
    unfold powFix at h
    cases hk : absK body H with
    | none => rw [hk] at h; cases h
    | some Q =>
      rw [hk] at h
      simp only at h
      split at h
      · rename_i hle
        simp only [Option.some.injEq] at h
        subst h
        exact ⟨H, fun _ hl => hl, hk, hle⟩
      · cases hj : joinV H Q with
        | none => rw [hj] at h; cases h
        | some J =>
          rw [hj] at h
          simp only at h
          split at h
          · rename_i hw
            obtain ⟨H', h1, h2, h3⟩ := ih h
            exact ⟨H', fun l hl => h1 l (EnvIn_of_itvsLe hl hw), h2, h3⟩
          · cases h

theorem absPow_sound (body : Prog) (pre : List Itv) {x P : List Itv} (h : absPow body pre x = some P) :
    ∃ H', (∀ l, EnvIn l x → EnvIn l H') ∧ absK body H' = some P ∧ itvsLe P H' = true := by
  unfold absPow at h
  split at h
  · rename_i hx
    cases hk : absK body pre with
    | none => rw [hk] at h; exact powFix_sound body _ h
    | some Q =>
      rw [hk] at h
      simp only at h
      split at h
      · rename_i hQ
        simp only [Option.some.injEq] at h
        subst h
        exact ⟨pre, fun l hl => EnvIn_of_itvsLe hl hx, hk, hQ⟩
      · exact powFix_sound body _ h
  · exact powFix_sound body _ h

theorem absEnc_sound {p : Prog} {pre x : List Itv} {l : List Nat} (h : absEnc p pre x = true) (hl : EnvIn l x) :
    p.evalC l = some (p.evalW l) := by
  unfold absEnc at h
  split at h
  · rename_i hx
    cases hk : absK p pre with
    | none => rw [hk] at h; cases h
    | some Q => exact (absK_sound hk (EnvIn_of_itvsLe hl hx)).1
  · cases hk : absK p x with
    | none => rw [hk] at h; cases h
    | some Q => exact (absK_sound hk hl).1

/-- iterating a body whose analysis from `H` lands inside `H` again -/
theorem iter_sound {body : Prog} {H P : List Itv} (hk : absK body H = some P) (hle : itvsLe P H = true) :
    ∀ (k : Nat) (l : List Nat), EnvIn l H →
      iterC body (k + 1) l = some (iterW body (k + 1) l) ∧ EnvIn (iterW body (k + 1) l) P
  | 0, l, hl => by
      obtain ⟨h1, h2⟩ := absK_sound hk hl
      simp only [iterC, iterW, h1, Option.bind_some]
      exact ⟨trivial, h2⟩
  | k + 1, l, hl => by
      obtain ⟨h1, h2⟩ := absK_sound hk hl
      obtain ⟨h3, h4⟩ := iter_sound hk hle k _ (EnvIn_of_itvsLe h2 hle)
      rw [show iterC body (k + 1 + 1) l = (body.evalC l).bind (iterC body (k + 1)) from rfl,
        show iterW body (k + 1 + 1) l = iterW body (k + 1) (body.evalW l) from rfl, h1]
      exact ⟨h3, h4⟩

theorem isChoice_sound {c : List Itv} {l : List Nat} (hc : isChoice c = true) (hl : EnvIn l c) :
    ∃ x, l = [x] ∧ x < 2 := by
  match c, l, hc, hl with
  | [t], [x], hc, hl =>
    simp only [isChoice, decide_eq_true_eq] at hc
    simp only [EnvIn, Itv.mem, and_true] at hl
    exact ⟨x, rfl, by omega⟩
  | [_], [], _, hl => simp [EnvIn] at hl
  | [_], _ :: _ :: _, _, hl => simp [EnvIn] at hl
  | [], _, hc, _ => simp [isChoice] at hc
  | _ :: _ :: _, _, hc, _ => simp [isChoice] at hc

theorem EnvIn_choice {x : Nat} (h : x < 2) : EnvIn [x] choiceItv := by
  simp only [choiceItv, EnvIn, Itv.mem, and_true, Nat.pow_zero, Nat.one_dvd]
  omega

theorem EnvIn_point : ∀ (l : List Nat), EnvIn l (l.map (fun n => (⟨n, n, 0⟩ : Itv)))
  | [] => trivial
  | x :: xs => by
      simp only [List.map_cons, EnvIn, Itv.mem, Nat.pow_zero, Nat.one_dvd, and_true, Nat.le_refl, true_and]
      exact EnvIn_point xs

theorem b2n_lt (b : Bool) : b2n b < 2 := by cases b <;> simp [b2n]

/-! ## operation-wise soundness -/

theorem rel_bin (p : Prog) {a b : AVal} {a' b' : PVal} (ha : R a a') (hb : R b b') :
    R (absBin p a b) (concBin p a'.1 b'.1, p.evalW (a'.2 ++ b'.2)) := by
  intro I hI
  match a, b, hI with
  | some x, some y, hI =>
    obtain ⟨ha1, ha2⟩ := ha x rfl
    obtain ⟨hb1, hb2⟩ := hb y rfl
    obtain ⟨h1, h2⟩ := absK_sound (show absK p (x ++ y) = some I from hI) (EnvIn_append _ _ ha2 hb2)
    refine ⟨?_, h2⟩
    simp only [ha1, hb1, concBin, h1]
  | none, _, hI => simp [absBin] at hI
  | some _, none, hI => simp [absBin] at hI

theorem rel_un (ps : List Prog) {a : AVal} {a' : PVal} (ha : R a a') :
    R (absUn ps a) (concUn ps a'.1, wrapSeq ps a'.2) := by
  intro I hI
  match a, hI with
  | some x, hI =>
    obtain ⟨ha1, ha2⟩ := ha x rfl
    obtain ⟨h1, h2⟩ := absSeq_sound ps (show absSeq ps x = some I from hI) ha2
    refine ⟨?_, h2⟩
    simp only [ha1, concUn, h1]
  | none, hI => simp [absUn] at hI

theorem rel_pred1 (p : Prog) (pre : List Itv) (f : List Nat → Nat) (hf : ∀ bs, f bs < 2) {a : AVal} {a' : PVal}
    (ha : R a a') : R (absPred1 p pre a) (concPred1 p f a'.1, [f (p.evalW a'.2)]) := by
  intro I hI
  match a, hI with
  | some x, hI =>
    obtain ⟨ha1, ha2⟩ := ha x rfl
    simp only [absPred1] at hI
    split at hI
    · rename_i he
      simp only [Option.some.injEq] at hI
      subst hI
      have h1 := absEnc_sound he ha2
      refine ⟨?_, EnvIn_choice (hf _)⟩
      simp only [ha1, concPred1, h1, Option.map_some]
    · cases hI
  | none, hI => simp [absPred1] at hI

theorem rel_pred2 (p : Prog) (pre : List Itv) {a b : AVal} {a' b' : PVal} (ha : R a a') (hb : R b b') :
    R (absPred2 p pre a b) (concPred2 p a'.1 b'.1, [b2n (p.evalW a'.2 == p.evalW b'.2)]) := by
  intro I hI
  match a, b, hI with
  | some x, some y, hI =>
    obtain ⟨ha1, ha2⟩ := ha x rfl
    obtain ⟨hb1, hb2⟩ := hb y rfl
    simp only [absPred2] at hI
    split at hI
    · rename_i he
      simp only [Bool.and_eq_true] at he
      simp only [Option.some.injEq] at hI
      subst hI
      have h1 := absEnc_sound he.1 ha2
      have h2 := absEnc_sound he.2 hb2
      refine ⟨?_, EnvIn_choice (b2n_lt _)⟩
      simp only [ha1, hb1, concPred2, h1, h2]
    · cases hI
  | none, _, hI => simp [absPred2] at hI
  | some _, none, hI => simp [absPred2] at hI

theorem rel_ch2 (f : Nat → Nat → Nat) (hf : ∀ x y, x < 2 → y < 2 → f x y < 2) {a b : AVal} {a' b' : PVal}
    (ha : R a a') (hb : R b b') :
    R (absCh2 a b) (concCh2 f a'.1 b'.1, [f (a'.2.getD 0 0) (b'.2.getD 0 0)]) := by
  intro I hI
  match a, b, hI with
  | some x, some y, hI =>
    obtain ⟨ha1, ha2⟩ := ha x rfl
    obtain ⟨hb1, hb2⟩ := hb y rfl
    simp only [absCh2] at hI
    split at hI
    · rename_i hc
      simp only [Bool.and_eq_true] at hc
      simp only [Option.some.injEq] at hI
      subst hI
      obtain ⟨u, hu, hu2⟩ := isChoice_sound hc.1 ha2
      obtain ⟨v, hv, hv2⟩ := isChoice_sound hc.2 hb2
      refine ⟨?_, ?_⟩
      · simp only [ha1, hb1, hu, hv, concCh2, hu2, hv2, and_self, if_true, List.getD_cons_zero]
      · simp only [hu, hv, List.getD_cons_zero]
        exact EnvIn_choice (hf u v hu2 hv2)
    · cases hI
  | none, _, hI => simp [absCh2] at hI
  | some _, none, hI => simp [absCh2] at hI

theorem rel_ch1 (f : Nat → Nat) (hf : ∀ x, x < 2 → f x < 2) {a : AVal} {a' : PVal} (ha : R a a') :
    R (absCh1 a) (concCh1 f a'.1, [f (a'.2.getD 0 0)]) := by
  intro I hI
  match a, hI with
  | some x, hI =>
    obtain ⟨ha1, ha2⟩ := ha x rfl
    simp only [absCh1] at hI
    split at hI
    · rename_i hc
      simp only [Option.some.injEq] at hI
      subst hI
      obtain ⟨u, hu, hu2⟩ := isChoice_sound hc ha2
      refine ⟨?_, ?_⟩
      · simp only [ha1, hu, concCh1, hu2, if_true, List.getD_cons_zero]
      · simp only [hu, List.getD_cons_zero]
        exact EnvIn_choice (hf u hu2)
    · cases hI
  | none, hI => simp [absCh1] at hI

theorem rel_sel {c a b : AVal} {c' a' b' : PVal} (hc : R c c') (ha : R a a') (hb : R b b') :
    R (absSel c a b) (concSel c'.1 a'.1 b'.1, if c'.2.getD 0 0 = 0 then a'.2 else b'.2) := by
  intro I hI
  match c, a, b, hI with
  | some ci, some x, some y, hI =>
    obtain ⟨hc1, hc2⟩ := hc ci rfl
    obtain ⟨ha1, ha2⟩ := ha x rfl
    obtain ⟨hb1, hb2⟩ := hb y rfl
    simp only [absSel] at hI
    split at hI
    · rename_i hch
      obtain ⟨z, hz, hz2⟩ := isChoice_sound hch hc2
      obtain ⟨hj1, hj2⟩ := joinV_sound hI
      have hz01 : z = 0 ∨ z = 1 := by omega
      rcases hz01 with rfl | rfl
      · refine ⟨?_, ?_⟩
        · simp [hc1, ha1, hb1, hz, concSel]
        · simp only [hz, List.getD_cons_zero, if_true]
          exact EnvIn_of_itvsLe ha2 hj1
      · refine ⟨?_, ?_⟩
        · simp [hc1, ha1, hb1, hz, concSel]
        · simp only [hz, List.getD_cons_zero, Nat.one_ne_zero, if_false]
          exact EnvIn_of_itvsLe hb2 hj2
    · cases hI
  | none, _, _, hI => simp [absSel] at hI
  | some _, none, _, hI => simp [absSel] at hI
  | some _, some _, none, hI => simp [absSel] at hI

theorem chAnd_lt (x y : Nat) (hx : x < 2) (hy : y < 2) : chAnd x y < 2 := by
  have : x = 0 ∨ x = 1 := by omega
  have : y = 0 ∨ y = 1 := by omega
  rcases ‹x = 0 ∨ x = 1› with rfl | rfl <;> rcases ‹y = 0 ∨ y = 1› with rfl | rfl <;> decide
theorem chOr_lt (x y : Nat) (hx : x < 2) (hy : y < 2) : chOr x y < 2 := by
  have : x = 0 ∨ x = 1 := by omega
  have : y = 0 ∨ y = 1 := by omega
  rcases ‹x = 0 ∨ x = 1› with rfl | rfl <;> rcases ‹y = 0 ∨ y = 1› with rfl | rfl <;> decide
theorem chXor_lt (x y : Nat) (_ : x < 2) (_ : y < 2) : chXor x y < 2 := Nat.mod_lt _ (by decide)
theorem chNot_lt (x : Nat) (_ : x < 2) : chNot x < 2 := by unfold chNot; omega

/-- **Operation-wise soundness** of the abstract interpretation w.r.t. both builds. -/
theorem boundOps_rel (B : Backend) : FOps.Rel R (boundOps B) (prodOps (limbOps B) (limbOpsW B)) where
  add := fun ha hb => rel_bin B.add ha hb
  sub := fun ha hb => rel_bin B.sub ha hb
  mul := fun ha hb => rel_bin B.mul ha hb
  neg := fun ha => rel_un [B.neg] ha
  square := fun ha => rel_un B.square ha
  square2 := fun ha => rel_un B.square2 ha
  pow2k := by
    intro a a' k ha I hI
    match a, hI with
    | some x, hI =>
      obtain ⟨ha1, ha2⟩ := ha x rfl
      simp only [boundOps] at hI
      split at hI
      · cases hI
      · rename_i hk
        obtain ⟨H', h1, h2, h3⟩ := absPow_sound B.powBody B.powPre hI
        obtain ⟨k', rfl⟩ : ∃ k', k = k' + 1 := ⟨k - 1, by omega⟩
        obtain ⟨h4, h5⟩ := iter_sound h2 h3 k' _ (h1 _ ha2)
        refine ⟨?_, h5⟩
        show (limbOps B).pow2k a'.1 (k' + 1) = some ((limbOpsW B).pow2k a'.2 (k' + 1))
        simp only [limbOps, limbOpsW, ha1, hk, if_false, h4]
    | none, hI => simp [boundOps] at hI
  const := by
    intro i I hI
    simp only [boundOps, Option.map_eq_some_iff] at hI
    obtain ⟨l, hl, rfl⟩ := hI
    refine ⟨?_, ?_⟩
    · show (limbOps B).const i = some ((limbOpsW B).const i)
      simp only [limbOps, limbOpsW, hl, List.getD_eq_getElem?_getD, Option.getD_some]
    · show EnvIn ((limbOpsW B).const i) _
      simp only [limbOpsW, hl, List.getD_eq_getElem?_getD, Option.getD_some]
      exact EnvIn_point l
  ctEq := fun ha hb => rel_pred2 B.asBytes B.asBytesPre ha hb
  isNeg := fun ha => rel_pred1 B.asBytes B.asBytesPre negBit (fun _ => Nat.mod_lt _ (by decide)) ha
  isZero := fun ha => rel_pred1 B.asBytes B.asBytesPre zeroBit (fun _ => b2n_lt _) ha
  cand := fun ha hb => rel_ch2 chAnd chAnd_lt ha hb
  cor := fun ha hb => rel_ch2 chOr chOr_lt ha hb
  cxor := fun ha hb => rel_ch2 chXor chXor_lt ha hb
  cnot := fun ha => rel_ch1 chNot chNot_lt ha
  csel := fun hc ha hb => rel_sel hc ha hb
  dflt := by intro I hI; cases hI

/-! ## whole formulas -/

theorem EnvsIn_iff : ∀ {ls : List (List Nat)} {ts : List (List Itv)}, EnvsIn ls ts ↔ ListRel EnvIn ls ts
  | [], [] => ⟨fun _ => .nil, fun _ => trivial⟩
  | l :: ls, t :: ts => by
      simp only [EnvsIn]
      constructor
      · rintro ⟨h1, h2⟩; exact .cons h1 (EnvsIn_iff.1 h2)
      · intro h; cases h with | cons h1 h2 => exact ⟨h1, EnvsIn_iff.2 h2⟩
  | [], _ :: _ => ⟨fun h => h.elim, fun h => by cases h⟩
  | _ :: _, [] => ⟨fun h => h.elim, fun h => by cases h⟩

theorem envsIn_iff : ∀ {ls : List (List Nat)} {ts : List (List Itv)}, envsIn ls ts = true ↔ EnvsIn ls ts
  | [], [] => by simp [envsIn, EnvsIn]
  | l :: ls, t :: ts => by simp [envsIn, EnvsIn, envsIn_iff (ls := ls) (ts := ts)]
  | [], _ :: _ => by simp [envsIn, EnvsIn]
  | _ :: _, [] => by simp [envsIn, EnvsIn]

theorem outsLe_sound : ∀ {as : List AVal} {ps : List PVal} {post : List (List Itv)},
    ListRel R as ps → outsLe as post = true →
      ps.map (·.1) = (ps.map (·.2)).map some ∧ ListRel EnvIn (ps.map (·.2)) post
  | [], [], [], _, _ => ⟨rfl, .nil⟩
  | some a :: as, p :: ps, t :: ts, h, hle => by
      cases h with
      | cons h1 h2 =>
        simp only [outsLe, Bool.and_eq_true] at hle
        obtain ⟨e1, e2⟩ := h1 a rfl
        obtain ⟨r1, r2⟩ := outsLe_sound h2 hle.2
        refine ⟨?_, ?_⟩
        · simp only [List.map_cons, e1, r1]
        · exact .cons (EnvIn_of_itvsLe e2 hle.1) r2
  | [], _ :: _, _, h, _ => by cases h
  | _ :: _, [], _, h, _ => by cases h
  | [], [], _ :: _, _, hle => by simp [outsLe] at hle
  | none :: _, _, _, _, hle => by simp [outsLe] at hle
  | some _ :: _, _, [], _, hle => by simp [outsLe] at hle

theorem allSome_sound : ∀ {as : List AVal} {ps : List PVal},
    ListRel R as ps → allSome as = true → ps.map (·.1) = (ps.map (·.2)).map some
  | [], [], _, _ => rfl
  | some a :: as, p :: ps, h, hs => by
      cases h with
      | cons h1 h2 =>
        obtain ⟨e1, _⟩ := h1 a rfl
        simp only [List.map_cons, e1, allSome_sound h2 (by simpa [allSome] using hs)]
  | none :: _, _, _, hs => by simp [allSome] at hs
  | [], _ :: _, h, _ => by cases h
  | some _ :: _, [], h, _ => by cases h

/-- **Soundness of `check`.**  If the abstract run of the formula `F` from the input vectors `pre` succeeds at
every statement with all outputs inside `post`, then `F` is `Safe` from `pre` to `post`: for ALL concrete limb
inputs inside `pre`, no statement of the debug-build execution of the whole formula (every field operation being
the checked semantics of the regenerated kernel) panics — no integer overflow, no failed `debug_assert!` —, all
intermediate values and the outputs agree with the release-build execution, and the outputs lie inside `post`. -/
theorem check_sound (B : Backend) (F : AProg) (pre post : List (List Itv))
    (h : check B F pre post = true) : Safe B F pre post := by
  intro ins hin
  simp only [check, Bool.and_eq_true] at h
  obtain ⟨⟨hlen, hall⟩, hout⟩ := h
  have hin' := EnvsIn_iff.1 hin
  have hR : ListRel R (pre.map some) (ins.map (fun l => ((some l, l) : PVal))) := by
    clear hall hout hin hlen
    induction hin' with
    | nil => exact .nil
    | cons hab _ ih =>
      refine .cons ?_ ih
      intro I hI
      cases hI
      exact ⟨rfl, hab⟩
  have hfst : ListRel (fun (p : PVal) (c : CVal) => p.1 = c) (ins.map (fun l => ((some l, l) : PVal)))
      (ins.map some) :=
    ListRel.map_map (R := fun (p : PVal) (c : CVal) => p.1 = c) (fun l => (some l, l)) some (fun _ => rfl) ins
  have hsnd : ListRel (fun (p : PVal) (c : List Nat) => p.2 = c) (ins.map (fun l => ((some l, l) : PVal)))
      (ins.map id) :=
    ListRel.map_map (R := fun (p : PVal) (c : List Nat) => p.2 = c) (fun l => (some l, l)) id (fun _ => rfl) ins
  rw [List.map_id] at hsnd
  -- whole environments
  have e1 := arunBody_rel (boundOps_rel B) F.body hR
  have e2 := ListRel.eq_map (arunBody_rel (prodOps_fst (limbOps B) (limbOpsW B)) F.body hfst)
  have e3 := ListRel.eq_map (arunBody_rel (prodOps_snd (limbOps B) (limbOpsW B)) F.body hsnd)
  -- outputs
  have h1 := AProg.run_rel (boundOps_rel B) F hR
  have h2 := ListRel.eq_map (AProg.run_rel (prodOps_fst (limbOps B) (limbOpsW B)) F hfst)
  have h3 := ListRel.eq_map (AProg.run_rel (prodOps_snd (limbOps B) (limbOpsW B)) F hsnd)
  obtain ⟨r1, r2⟩ := outsLe_sound h1 hout
  refine ⟨?_, ?_, ?_⟩
  · rw [e2, e3]; exact allSome_sound e1 hall
  · rw [h2, h3]; exact r1
  · rw [h3]; exact EnvsIn_iff.2 r2

theorem Sig.safe_of_ok {B : Backend} {s : Sig} (h : s.ok B = true) : s.Safe B :=
  check_sound B s.F s.pre s.post h

/-- a single kernel (used for the byte-level producers / consumers `from_bytes`, `as_bytes` at the boundary of the
formulas): Bool check and its meaning -/
def kernelOk (p : Prog) (pre post : List Itv) : Bool :=
  match absK p pre with
  | some P => itvsLe P post
  | none => false

theorem kernelOk_sound {p : Prog} {pre post : List Itv} (h : kernelOk p pre post = true) (l : List Nat)
    (hl : EnvIn l pre) : p.evalC l = some (p.evalW l) ∧ EnvIn (p.evalW l) post := by
  unfold kernelOk at h
  cases hk : absK p pre with
  | none => rw [hk] at h; cases h
  | some P =>
    rw [hk] at h
    obtain ⟨h1, h2⟩ := absK_sound hk hl
    exact ⟨h1, EnvIn_of_itvsLe h2 h⟩

/-! ## histories of formula calls -/

theorem EnvsIn_append : ∀ {a : List (List Nat)} {I : List (List Itv)} {b : List (List Nat)} {J : List (List Itv)},
    EnvsIn a I → EnvsIn b J → EnvsIn (a ++ b) (I ++ J)
  | [], [], _, _, _, hb => by simpa using hb
  | x :: xs, t :: ts, b, J, ha, hb => by
      simp only [EnvsIn] at ha
      simp only [List.cons_append, EnvsIn]
      exact ⟨ha.1, EnvsIn_append ha.2 hb⟩
  | [], _ :: _, _, _, ha, _ => ha.elim
  | _ :: _, [], _, _, ha, _ => ha.elim

theorem EnvsIn_get : ∀ {ls : List (List Nat)} {ts : List (List Itv)}, EnvsIn ls ts → ∀ {j : Nat} {t : List Itv},
    ts[j]? = some t → ∃ l, ls[j]? = some l ∧ EnvIn l t
  | [], [], _, j, t, ht => by simp at ht
  | l :: ls, s :: ss, h, 0, t, ht => by
      simp only [List.getElem?_cons_zero, Option.some.injEq] at ht
      subst ht
      exact ⟨l, by simp, h.1⟩
  | l :: ls, s :: ss, h, j + 1, t, ht => by
      simp only [List.getElem?_cons_succ] at ht ⊢
      exact EnvsIn_get h.2 ht
  | [], _ :: _, h, _, _, _ => h.elim
  | _ :: _, [], h, _, _, _ => h.elim

theorem getAll_sound {regs : List (List Nat)} {tys : List (List Itv)} (hr : EnvsIn regs tys) :
    ∀ (args : List Nat) {ats : List (List Itv)}, getAll tys args = some ats →
      getAll regs args = some (args.map (fun j => regs.getD j [])) ∧
        EnvsIn (args.map (fun j => regs.getD j [])) ats
  | [], ats, h => by
      simp only [getAll, Option.some.injEq] at h
      subst h
      exact ⟨rfl, trivial⟩
  | j :: js, ats, h => by
      simp only [getAll] at h
      cases hj : tys[j]? with
      | none => rw [hj] at h; simp at h
      | some t =>
        cases hjs : getAll tys js with
        | none => rw [hj, hjs] at h; simp at h
        | some r =>
          rw [hj, hjs] at h
          simp only [Option.some.injEq] at h
          subst h
          obtain ⟨l, hl, hlt⟩ := EnvsIn_get hr hj
          obtain ⟨g1, g2⟩ := getAll_sound hr js hjs
          have hd : regs.getD j [] = l := by simp [List.getD_eq_getElem?_getD, hl]
          refine ⟨?_, ?_⟩
          · simp only [getAll, hl, g1, List.map_cons, hd]
          · simp only [List.map_cons, hd, EnvsIn]
            exact ⟨hlt, g2⟩

theorem subTys_sound : ∀ {ls : List (List Nat)} {as bs : List (List Itv)}, EnvsIn ls as → subTys as bs = true →
    EnvsIn ls bs
  | [], [], [], _, _ => trivial
  | l :: ls, a :: as, b :: bs, h, hs => by
      simp only [subTys, Bool.and_eq_true] at hs
      exact ⟨EnvIn_of_itvsLe h.1 hs.1, subTys_sound h.2 hs.2⟩
  | [], [], _ :: _, _, hs => by simp [subTys] at hs
  | _, _ :: _, [], _, hs => by simp [subTys] at hs
  | [], _ :: _, _, h, _ => h.elim
  | _ :: _, [], _, h, _ => h.elim

theorem allSome_map_some {α : Type} : ∀ (l : List α), allSome (l.map some) = true
  | [] => rfl
  | _ :: l => by simpa [allSome] using allSome_map_some l

theorem unwrapAll_map_some {α : Type} : ∀ (l : List α), unwrapAll (l.map some) = some l
  | [] => rfl
  | a :: l => by simp [unwrapAll, unwrapAll_map_some l]

/-- a `Safe` formula called on arguments inside its input invariants: the debug-build call does not panic and
returns the release-build result, which lies inside the output invariants -/
theorem callC_of_safe {B : Backend} {s : Sig} (hs : s.Safe B) {as : List (List Nat)} (has : EnvsIn as s.pre) :
    callC B s.F as = some (s.F.run (limbOpsW B) as) ∧ EnvsIn (s.F.run (limbOpsW B) as) s.post := by
  obtain ⟨h1, h2, h3⟩ := hs as has
  refine ⟨?_, h3⟩
  simp only [callC, h1, h2, allSome_map_some, if_true, unwrapAll_map_some]

/-- **No overflow along any history.**  `tbl` is a table of typed formulas, each `Safe` for the backend `B`.
For EVERY history of formula calls and external inputs that is well typed (every argument register's bound vector
is included in the input invariant of the formula it is passed to) and every initial register file inside its
bound vectors: the debug-build execution of the whole history does not panic, returns exactly the register file of
the release-build execution, and EVERY register (i.e. every value ever produced along the history) lies inside
its bound vector. -/
theorem no_overflow_history (B : Backend) (tbl : List Sig) (htbl : ∀ s ∈ tbl, s.Safe B) :
    ∀ (h : List Step) (tys0 tys : List (List Itv)) (regs0 : List (List Nat)),
      typeHist tbl h tys0 = some tys → EnvsIn regs0 tys0 →
        runHistC B tbl h regs0 = some (runHistW B tbl h regs0) ∧ EnvsIn (runHistW B tbl h regs0) tys
  | [], tys0, tys, regs0, ht, hr => by
      simp only [typeHist, Option.some.injEq] at ht
      subst ht
      exact ⟨rfl, hr⟩
  | st :: h, tys0, tys, regs0, ht, hr => by
      simp only [typeHist] at ht
      cases hst : typeStep tbl tys0 st with
      | none => rw [hst] at ht; cases ht
      | some new =>
        rw [hst] at ht
        simp only at ht
        have key : stepC B tbl regs0 st = some (stepW B tbl regs0 st) ∧ EnvsIn (stepW B tbl regs0 st) new := by
          cases st with
          | input v ty =>
            simp only [typeStep] at hst
            split at hst
            · rename_i hv
              simp only [Option.some.injEq] at hst
              subst hst
              exact ⟨rfl, hv, trivial⟩
            · cases hst
          | call i args =>
            simp only [typeStep] at hst
            cases hi : tbl[i]? with
            | none => rw [hi] at hst; simp at hst
            | some s =>
              cases ha : getAll tys0 args with
              | none => rw [hi, ha] at hst; simp at hst
              | some ats =>
                rw [hi, ha] at hst
                simp only at hst
                split at hst
                · rename_i hsub
                  simp only [Option.some.injEq] at hst
                  subst hst
                  obtain ⟨g1, g2⟩ := getAll_sound hr args ha
                  have hmem : s ∈ tbl := List.mem_of_getElem? hi
                  obtain ⟨c1, c2⟩ := callC_of_safe (htbl s hmem) (subTys_sound g2 hsub)
                  refine ⟨?_, ?_⟩
                  · simp only [stepC, stepW, hi, g1, c1]
                  · simp only [stepW, hi]; exact c2
                · cases hst
        obtain ⟨k1, k2⟩ := key
        obtain ⟨r1, r2⟩ := no_overflow_history B tbl htbl h _ tys _ ht (EnvsIn_append hr k2)
        refine ⟨?_, ?_⟩
        · simp only [runHistC, runHistW, k1]; exact r1
        · simp only [runHistW]; exact r2

end Dalek.Proofs.AlgBoundsSound

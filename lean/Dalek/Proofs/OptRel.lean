import Mathlib.Data.List.Forall2
/-! Small generic helpers for relating two partial evaluations (used by `Props/C03/History.lean`). -/
namespace Dalek.Proofs

/-- both undefined, or both defined and related -/
def OptRel {α β : Type} (R : α → β → Prop) : Option α → Option β → Prop
  | none, none => True
  | some a, some b => R a b
  | _, _ => False

theorem OptRel.bind {α β γ δ : Type} {R : α → β → Prop} {S : γ → δ → Prop} {oa : Option α} {ob : Option β}
    {f : α → Option γ} {g : β → Option δ} (h : OptRel R oa ob)
    (hfg : ∀ a b, R a b → OptRel S (f a) (g b)) : OptRel S (oa.bind f) (ob.bind g) := by
  cases oa <;> cases ob <;> simp only [OptRel] at h
  · trivial
  · exact hfg _ _ h

theorem OptRel.some_iff {α β : Type} {R : α → β → Prop} {a : α} {b : β} : OptRel R (some a) (some b) ↔ R a b :=
  Iff.rfl

theorem OptRel.of_some_right {α β : Type} {R : α → β → Prop} {oa : Option α} {b : β}
    (h : OptRel R oa (some b)) : ∃ a, oa = some a ∧ R a b := by
  cases oa
  · exact h.elim
  · exact ⟨_, rfl, h⟩

theorem OptRel.of_some_left {α β : Type} {R : α → β → Prop} {a : α} {ob : Option β}
    (h : OptRel R (some a) ob) : ∃ b, ob = some b ∧ R a b := by
  cases ob
  · exact h.elim
  · exact ⟨_, rfl, h⟩

theorem forall₂_getElem? {α β : Type} {R : α → β → Prop} {l₁ : List α} {l₂ : List β}
    (h : List.Forall₂ R l₁ l₂) (i : Nat) : OptRel R l₁[i]? l₂[i]? := by
  induction h generalizing i with
  | nil => simp [OptRel]
  | cons hab _ ih =>
    cases i with
    | zero => simpa [OptRel] using hab
    | succ n => simpa using ih n

theorem forall₂_snoc {α β : Type} {R : α → β → Prop} {l₁ : List α} {l₂ : List β}
    (h : List.Forall₂ R l₁ l₂) {a : α} {b : β} (hab : R a b) : List.Forall₂ R (l₁ ++ [a]) (l₂ ++ [b]) := by
  induction h with
  | nil => exact .cons hab .nil
  | cons h1 _ ih => exact .cons h1 ih

end Dalek.Proofs

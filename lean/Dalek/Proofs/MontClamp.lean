/-
The translated `clamp_integer` kernel (`Dalek.Gen.Clamp.clamp_integer`, LimbIR) computes `Spec.clampInteger`
on every 32-byte input, in the checked (debug) and in the wrapping (release) semantics.
-/
import Dalek.IR.LimbSound
import Dalek.Gen.Norm.Clamp.clamp_integer
import Dalek.Spec.Scalar
import Mathlib.Tactic.NormNum

namespace Dalek.Proofs.Mont
open Dalek.IR Dalek.Spec Dalek.Gen.Norm.Clamp

theorem list32 {α : Type} (l : List α) (h : l.length = 32) :
    ∃ b0 b1 b2 b3 b4 b5 b6 b7 b8 b9 b10 b11 b12 b13 b14 b15 b16 b17 b18 b19 b20 b21 b22 b23 b24 b25 b26 b27 b28 b29 b30 b31 : α, l = [b0, b1, b2, b3, b4, b5, b6, b7, b8, b9, b10, b11, b12, b13, b14, b15, b16, b17, b18, b19, b20, b21, b22, b23, b24, b25, b26, b27, b28, b29, b30, b31] := by
  rcases l with _ | ⟨b0, l⟩
  · simp at h
  rcases l with _ | ⟨b1, l⟩
  · simp at h
  rcases l with _ | ⟨b2, l⟩
  · simp at h
  rcases l with _ | ⟨b3, l⟩
  · simp at h
  rcases l with _ | ⟨b4, l⟩
  · simp at h
  rcases l with _ | ⟨b5, l⟩
  · simp at h
  rcases l with _ | ⟨b6, l⟩
  · simp at h
  rcases l with _ | ⟨b7, l⟩
  · simp at h
  rcases l with _ | ⟨b8, l⟩
  · simp at h
  rcases l with _ | ⟨b9, l⟩
  · simp at h
  rcases l with _ | ⟨b10, l⟩
  · simp at h
  rcases l with _ | ⟨b11, l⟩
  · simp at h
  rcases l with _ | ⟨b12, l⟩
  · simp at h
  rcases l with _ | ⟨b13, l⟩
  · simp at h
  rcases l with _ | ⟨b14, l⟩
  · simp at h
  rcases l with _ | ⟨b15, l⟩
  · simp at h
  rcases l with _ | ⟨b16, l⟩
  · simp at h
  rcases l with _ | ⟨b17, l⟩
  · simp at h
  rcases l with _ | ⟨b18, l⟩
  · simp at h
  rcases l with _ | ⟨b19, l⟩
  · simp at h
  rcases l with _ | ⟨b20, l⟩
  · simp at h
  rcases l with _ | ⟨b21, l⟩
  · simp at h
  rcases l with _ | ⟨b22, l⟩
  · simp at h
  rcases l with _ | ⟨b23, l⟩
  · simp at h
  rcases l with _ | ⟨b24, l⟩
  · simp at h
  rcases l with _ | ⟨b25, l⟩
  · simp at h
  rcases l with _ | ⟨b26, l⟩
  · simp at h
  rcases l with _ | ⟨b27, l⟩
  · simp at h
  rcases l with _ | ⟨b28, l⟩
  · simp at h
  rcases l with _ | ⟨b29, l⟩
  · simp at h
  rcases l with _ | ⟨b30, l⟩
  · simp at h
  rcases l with _ | ⟨b31, l⟩
  · simp at h
  rcases l with _ | ⟨c, l⟩
  · exact ⟨b0, b1, b2, b3, b4, b5, b6, b7, b8, b9, b10, b11, b12, b13, b14, b15, b16, b17, b18, b19, b20, b21, b22, b23, b24, b25, b26, b27, b28, b29, b30, b31, rfl⟩
  · simp at h

theorem toZ_inj {a b : List Nat} (h : toZ a = toZ b) : a = b := by
  unfold toZ at h
  induction a generalizing b with
  | nil => cases b with
    | nil => rfl
    | cons y ys => simp at h
  | cons x xs ih => cases b with
    | nil => simp at h
    | cons y ys =>
      simp only [List.map_cons, List.cons.injEq] at h
      rw [Int.ofNat.inj h.1, ih h.2]

theorem mem_byte (x : UInt8) : (Itv.mk 0 255 0).mem x.toNat := by
  have := UInt8.toNat_lt x
  refine ⟨Nat.zero_le _, ?_, by simp⟩
  show x.toNat ≤ 255
  omega

theorem and_127 (n : Nat) : n % 2 ^ 7 = n &&& 127 := (Nat.and_two_pow_sub_one_eq_mod n 7).symm

/-- **`clamp_integer`**: the translated kernel never panics in the debug build, the release build agrees, and
the result is `Spec.clampInteger` (clear bits 0,1,2 and 255, set bit 254). -/
theorem clamp_kernel_spec (b : List UInt8) (hlen : b.length = 32) :
    Dalek.Gen.Clamp.clamp_integer.evalC (b.map UInt8.toNat) = some ((clampInteger b).map UInt8.toNat) ∧
    Dalek.Gen.Clamp.clamp_integer.evalW (b.map UInt8.toNat) = (clampInteger b).map UInt8.toNat := by
  obtain ⟨b0, b1, b2, b3, b4, b5, b6, b7, b8, b9, b10, b11, b12, b13, b14, b15, b16, b17, b18, b19, b20, b21, b22, b23, b24, b25, b26, b27, b28, b29, b30, b31, rfl⟩ := list32 b hlen
  have hin : EnvIn ([b0, b1, b2, b3, b4, b5, b6, b7, b8, b9, b10, b11, b12, b13, b14, b15, b16, b17, b18, b19, b20, b21, b22, b23, b24, b25, b26, b27, b28, b29, b30, b31].map UInt8.toNat) Dalek.Model.Contracts.Clamp.pre_clamp_integer := by
    simp only [List.map_cons, List.map_nil]
    exact ⟨mem_byte b0, mem_byte b1, mem_byte b2, mem_byte b3, mem_byte b4, mem_byte b5, mem_byte b6, mem_byte b7, mem_byte b8, mem_byte b9, mem_byte b10, mem_byte b11, mem_byte b12, mem_byte b13, mem_byte b14, mem_byte b15, mem_byte b16, mem_byte b17, mem_byte b18, mem_byte b19, mem_byte b20, mem_byte b21, mem_byte b22, mem_byte b23, mem_byte b24, mem_byte b25, mem_byte b26, mem_byte b27, mem_byte b28, mem_byte b29, mem_byte b30, mem_byte b31, trivial⟩
  obtain ⟨out, hC, hW, -, hZ⟩ := Prog.norm_sound _ _ _ _ clamp_integer_norm_ok _ hin
  have hout : out = (clampInteger [b0, b1, b2, b3, b4, b5, b6, b7, b8, b9, b10, b11, b12, b13, b14, b15, b16, b17, b18, b19, b20, b21, b22, b23, b24, b25, b26, b27, b28, b29, b30, b31]).map UInt8.toNat := by
    apply toZ_inj
    rw [← hZ]
    simp only [List.map_cons, List.map_nil, toZ]
    rw [clamp_integer_fn_ok]
    simp only [clamp_integer_fn, clampInteger, modifyNth, List.map_cons, List.map_nil, UInt8.toNat_and, UInt8.toNat_or]
    have e1 : (248 : Int).toNat = 248 := rfl
    have e2 : (64 : Int).toNat = 64 := rfl
    have e3 : UInt8.toNat 248 = 248 := rfl
    have e4 : UInt8.toNat 127 = 127 := rfl
    have e5 : UInt8.toNat 64 = 64 := rfl
    have e6 : ∀ n : Nat, (Int.ofNat n).toNat = n := fun n => rfl
    have e7 : ∀ n : Nat, (Int.ofNat n % 2 ^ 7).toNat = n &&& 127 := by
      intro n
      rw [← and_127]
      show ((n : Int) % 2 ^ 7).toNat = n % 2 ^ 7
      omega
    simp only [e1, e2, e3, e4, e5, e6, e7]
    rfl
  subst hout
  exact ⟨hC, hW⟩

end Dalek.Proofs.Mont

/-
The PARALLEL (4-lane vector) point formulas of the AVX2 and IFMA backends
(`curve25519-dalek/src/backend/vector/{avx2,ifma}/edwards.rs`, translated by lane scalarisation into
the AlgIR programs `Dalek.Gen.AlgAvx2Edwards.*` / `Dalek.Gen.AlgIfmaEdwards.*`): the interpretation
`zmodOpsV` of the AlgIR signature with the EXTENDED constant table (the 14 shared field constants
followed by the three `u32` lane multipliers 121666, 243330, 243332), the representation predicate
`RepCached` of the vector `CachedPoint`, and the algebraic lemmas that connect the vector formulas to
the refinement lemmas of `Proofs/Edwards/Extended.lean`.  Property theorems: `Props/C03/Vector.lean`,
`Props/C05/Vector.lean`.
-/
import Dalek.Proofs.AlgCurveLemmas
import Dalek.Gen.AlgAvx2Edwards
import Dalek.Gen.AlgIfmaEdwards
import Mathlib.Logic.Function.Iterate
import Mathlib.Data.List.GetD

namespace Dalek.Proofs

open Dalek.IR Dalek.Spec Dalek.Model
open Dalek.Edwards
open Dalek.Bridge (Ed edParams edParams_d)
open Dalek.FieldFacts (d)

/-! ## 1. The extended constant table and its interpretation -/

/-- The constant table of the two vector modules: the shared table followed by the integers named
`u32:121666`, `u32:243330`, `u32:243332` in the generated `constNames`. -/
def vecConstTable : List Nat := algConstTable ++ [121666, 243330, 243332]

/-- The names `vecConstTable` is laid out by. -/
def vecConstNames : List String := algConstNames ++ ["u32:121666", "u32:243330", "u32:243332"]

/-- The generated constant table of the AVX2 module has exactly the layout of `vecConstTable`
(a reordering / insertion in the generated table is caught here). -/
theorem avx2_constNames_eq : Dalek.Gen.AlgAvx2Edwards.constNames = vecConstNames := by decide

/-- Same for the IFMA module. -/
theorem ifma_constNames_eq : Dalek.Gen.AlgIfmaEdwards.constNames = vecConstNames := by decide

theorem vecConstTable_length : vecConstTable.length = vecConstNames.length := by decide

/-- The `u32:<n>` entries are the integers `n`, at the positions of their names. -/
theorem vecConstTable_u32 :
    (vecConstNames.zip vecConstTable).drop 14
      = [("u32:121666", 121666), ("u32:243330", 243330), ("u32:243332", 243332)] := by
  decide +kernel

/-- Interpretation of the AlgIR signature in `Fp` with the extended constant table; every operation
other than `const` is the one of `zmodOps`. -/
noncomputable def zmodOpsV : FOps Fp :=
  { zmodOps with const := fun i => ((vecConstTable.getD i 0 : Nat) : Fp) }

theorem zmodOpsV_add (a b : Fp) : zmodOpsV.add a b = a + b := rfl
theorem zmodOpsV_sub (a b : Fp) : zmodOpsV.sub a b = a - b := rfl
theorem zmodOpsV_mul (a b : Fp) : zmodOpsV.mul a b = a * b := rfl
theorem zmodOpsV_neg (a : Fp) : zmodOpsV.neg a = -a := rfl
theorem zmodOpsV_square (a : Fp) : zmodOpsV.square a = a * a := rfl
theorem zmodOpsV_square2 (a : Fp) : zmodOpsV.square2 a = 2 * (a * a) := rfl
theorem zmodOpsV_pow2k (a : Fp) (k : Nat) : zmodOpsV.pow2k a k = a ^ (2 ^ k) := rfl
theorem zmodOpsV_ctEq (a b : Fp) : zmodOpsV.ctEq a b = c2f (a = b) := rfl
theorem zmodOpsV_isNeg (a : Fp) : zmodOpsV.isNeg a = c2f (fpIsNeg a) := rfl
theorem zmodOpsV_isZero (a : Fp) : zmodOpsV.isZero a = c2f (a = 0) := rfl
theorem zmodOpsV_cand (a b : Fp) : zmodOpsV.cand a b = c2f (a ≠ 0 ∧ b ≠ 0) := rfl
theorem zmodOpsV_cor (a b : Fp) : zmodOpsV.cor a b = c2f (a ≠ 0 ∨ b ≠ 0) := rfl
theorem zmodOpsV_cxor (a b : Fp) : zmodOpsV.cxor a b = c2f (¬ ((a ≠ 0) ↔ (b ≠ 0))) := rfl
theorem zmodOpsV_cnot (a : Fp) : zmodOpsV.cnot a = c2f (a = 0) := rfl
theorem zmodOpsV_csel (c a b : Fp) : zmodOpsV.csel c a b = if c = 0 then a else b := rfl
theorem zmodOpsV_dflt : zmodOpsV.dflt = 0 := rfl

theorem zmodOpsV_const (i : Nat) : zmodOpsV.const i = ((vecConstTable.getD i 0 : Nat) : Fp) := rfl

/-- On the shared part of the table `zmodOpsV` and `zmodOps` have the same constants. -/
theorem zmodOpsV_const_of_lt {i : Nat} (h : i < 14) : zmodOpsV.const i = zmodOps.const i := by
  rw [zmodOpsV_const, zmodOps_const, vecConstTable,
    List.getD_append _ _ _ _ (by rw [algConstTable_length]; exact h)]

/-- `FieldElement::ZERO` (lanes of `FieldElement2625x4::ZERO`, `EXTENDEDPOINT_IDENTITY`, …). -/
theorem constV_ZERO : zmodOpsV.const 0 = 0 := by
  rw [zmodOpsV_const_of_lt (by decide), const_ZERO]

/-- `FieldElement::ONE`. -/
theorem constV_ONE : zmodOpsV.const 1 = 1 := by
  rw [zmodOpsV_const_of_lt (by decide), const_ONE]

/-- `u32:121666`. -/
theorem constV_121666 : zmodOpsV.const 14 = 121666 := by
  rw [zmodOpsV_const]
  have h : vecConstTable.getD 14 0 = 121666 := by decide +kernel
  rw [h]; push_cast; rfl

/-- `u32:243330` (`= 2·121665`). -/
theorem constV_243330 : zmodOpsV.const 15 = 243330 := by
  rw [zmodOpsV_const]
  have h : vecConstTable.getD 15 0 = 243330 := by decide +kernel
  rw [h]; push_cast; rfl

/-- `u32:243332` (`= 2·121666`). -/
theorem constV_243332 : zmodOpsV.const 16 = 243332 := by
  rw [zmodOpsV_const]
  have h : vecConstTable.getD 16 0 = 243332 := by decide +kernel
  rw [h]; push_cast; rfl

/-! ## 2. Field facts about the lane multipliers -/

/-- `121666 ≠ 0` in `Fp`. -/
theorem c121666_ne_zero : (121666 : Fp) ≠ 0 := by
  have h : ((121666 : Nat) : Fp) ≠ 0 := Dalek.FieldFacts.natCast_ne_zero_of_mod (by decide +kernel)
  simpa using h

/-- `121666 · d = -121665` (`d = -121665/121666`): why the `T` lane of a cached point is scaled by
`-2·121665 = -2·d·121666`. -/
theorem c121666_mul_d : (121666 : Fp) * d = -121665 := by
  rw [mul_comm]; exact Dalek.FieldFacts.d_mul

/-! ## 3. Projective rescaling of extended coordinates -/

/-- Extended coordinates are projective: multiplying all four by `k ≠ 0` represents the same point. -/
theorem _root_.Dalek.Edwards.RepExt.scale {Q : Ed} {X Y Z T k : Fp} (h : RepExt Q X Y Z T) (hk : k ≠ 0) :
    RepExt Q (k * X) (k * Y) (k * Z) (k * T) := by
  obtain ⟨hZ, hx, hy, hT⟩ := h
  refine ⟨mul_ne_zero hk hZ, ?_, ?_, by linear_combination k ^ 2 * hT⟩
  · rw [hx, mul_div_mul_left _ _ hk]
  · rw [hy, mul_div_mul_left _ _ hk]

/-- All four coordinates negated. -/
theorem _root_.Dalek.Edwards.RepExt.neg_all {Q : Ed} {X Y Z T : Fp} (h : RepExt Q X Y Z T) :
    RepExt Q (-X) (-Y) (-Z) (-T) :=
  (h.scale (k := -1) (neg_ne_zero.2 one_ne_zero)).of_eq (by ring) (by ring) (by ring) (by ring)

/-! ## 4. The vector `CachedPoint` -/

/-- The vector backends' `CachedPoint` with lanes `(a, b, c, e)` represents `Q`: the lanes are
`(121666·(Y−X), 121666·(Y+X), 2·121666·Z, −2·121665·T)` of an extended representative `(X:Y:Z:T)`
of `Q` — exactly the value computed by `CachedPoint::from(ExtendedPoint)` (this is the serial
`ProjectiveNielsPoint` `(Y+X, Y−X, Z, 2d·T)` with the first two lanes swapped and everything scaled
by `121666`, since `2d·121666 = −2·121665`). -/
def RepCached (Q : Ed) (a b c e : Fp) : Prop :=
  ∃ X Y Z T, RepExt Q X Y Z T ∧ a = 121666 * (Y - X) ∧ b = 121666 * (Y + X) ∧
    c = 243332 * Z ∧ e = -(243330 * T)

theorem _root_.Dalek.Edwards.RepExt.toCached {Q : Ed} {X Y Z T : Fp} (h : RepExt Q X Y Z T) :
    RepCached Q (121666 * (Y - X)) (121666 * (Y + X)) (243332 * Z) (-(243330 * T)) :=
  ⟨X, Y, Z, T, h, rfl, rfl, rfl, rfl⟩

theorem RepCached.of_eq {Q : Ed} {a b c e a' b' c' e' : Fp} (h : RepCached Q a b c e)
    (ha : a' = a) (hb : b' = b) (hc : c' = c) (he : e' = e) : RepCached Q a' b' c' e' := by
  subst ha hb hc he; exact h

/-- `CachedPoint::identity()` = `(121666, 121666, 243332, 0)`. -/
theorem repCached_zero : RepCached (0 : Ed) 121666 121666 243332 0 :=
  ⟨0, 1, 1, 0, repExt_zero, by ring, by ring, by ring, by ring⟩

/-- `-&CachedPoint`: swap lanes A and B, negate lane D. -/
theorem RepCached.neg {Q : Ed} {a b c e : Fp} (h : RepCached Q a b c e) : RepCached (-Q) b a c (-e) := by
  obtain ⟨X, Y, Z, T, hQ, rfl, rfl, rfl, rfl⟩ := h
  exact ⟨-X, Y, Z, -T, hQ.neg, by ring, by ring, by ring, by ring⟩

/-- The serial `ProjectiveNielsPoint` and the vector `CachedPoint` of the same extended representative:
the cached lanes are `121666 ·` the Niels entries (with `Y+X`, `Y−X` swapped). -/
theorem RepPNiels.toCached {Q : Ed} {Yp Ym Z T2d : Fp} (h : RepPNiels Q Yp Ym Z T2d) :
    RepCached Q (121666 * Ym) (121666 * Yp) (121666 * (Z + Z)) (121666 * T2d) := by
  obtain ⟨X, Y, T, hQ, rfl, rfl, rfl⟩ := h
  refine ⟨X, Y, Z, T, hQ, rfl, rfl, by ring, ?_⟩
  linear_combination (2 * T) * c121666_mul_d

/-- **The vector mixed addition** `&ExtendedPoint + &CachedPoint`
(lanes `(X1,Y1,Z1,T1)` and `(a,b,c,e)`): the Hisil–Wong–Carter addition with the cached point
rescaled by `121666`; the result is `121666²` times the serial
`(add_ProjectiveNielsPoint).as_extended()` output, hence represents `P + Q`.
The coordinates are written exactly as the lane program computes them. -/
theorem add_cached {P Q : Ed} {X1 Y1 Z1 T1 a b c e : Fp}
    (hP : RepExt P X1 Y1 Z1 T1) (hQ : RepCached Q a b c e) :
    RepExt (P + Q)
      (((X1 + Y1) * b - (Y1 - X1) * a) * (Z1 * c - T1 * e))
      ((T1 * e + Z1 * c) * ((Y1 - X1) * a + (X1 + Y1) * b))
      ((T1 * e + Z1 * c) * (Z1 * c - T1 * e))
      (((X1 + Y1) * b - (Y1 - X1) * a) * ((Y1 - X1) * a + (X1 + Y1) * b)) := by
  obtain ⟨X2, Y2, Z2, T2, hQ, rfl, rfl, rfl, rfl⟩ := hQ
  have h := (add_projectiveNiels hP hQ).as_extended
  simp only [edParams_d] at h
  have hT : T1 * -(243330 * T2) = 121666 * (T1 * (T2 * (2 * d))) := by
    linear_combination (-2 * T1 * T2) * c121666_mul_d
  rw [hT]
  exact (h.scale (pow_ne_zero 2 c121666_ne_zero)).of_eq (by ring) (by ring) (by ring) (by ring)

/-- **The vector mixed subtraction** `&ExtendedPoint - &CachedPoint` = addition of the negated
cached point (lanes A, B swapped, lane D negated). -/
theorem sub_cached {P Q : Ed} {X1 Y1 Z1 T1 a b c e : Fp}
    (hP : RepExt P X1 Y1 Z1 T1) (hQ : RepCached Q a b c e) :
    RepExt (P - Q)
      (((X1 + Y1) * a - (Y1 - X1) * b) * (Z1 * c - T1 * -e))
      ((T1 * -e + Z1 * c) * ((Y1 - X1) * b + (X1 + Y1) * a))
      ((T1 * -e + Z1 * c) * (Z1 * c - T1 * -e))
      (((X1 + Y1) * a - (Y1 - X1) * b) * ((Y1 - X1) * b + (X1 + Y1) * a)) := by
  rw [sub_eq_add_neg]
  exact add_cached hP hQ.neg

/-- **The vector doubling** (`ExtendedPoint::double`, both backends): with `S1 = X²`, `S2 = Y²`,
`S3 = Z²`, `S4 = (X+Y)²` the lanes `S5 = S1+S2`, `S6 = S1−S2`, `S8 = S1+2S3−S2`, `S9 = S1+S2−S4` are
`(Y', −Z', T', −X')` of the serial `ProjectivePoint::double` completed point `(X':Y':Z':T')`, so the
output `(S8·S9, S5·S6, S8·S6, S5·S9)` is the NEGATED serial extended output — the same point. -/
theorem double_vec {P : Ed} {X Y Z T : Fp} (hP : RepExt P X Y Z T) :
    RepExt (2 • P)
      ((X * X + 2 * (Z * Z) - Y * Y) * (X * X + Y * Y - (X + Y) * (X + Y)))
      ((X * X + Y * Y) * (X * X - Y * Y))
      ((X * X + 2 * (Z * Z) - Y * Y) * (X * X - Y * Y))
      ((X * X + Y * Y) * (X * X + Y * Y - (X + Y) * (X + Y))) := by
  have h := (double_projective_nsmul hP.toProj).as_extended.neg_all
  exact h.of_eq (by ring) (by ring) (by ring) (by ring)

/-! ## 5. Iterated doubling (`mul_by_pow_2`) -/

/-- If one application of `f` to a quadruple representing `P` gives a quadruple representing `2 • P`,
then `k` applications give a quadruple representing `2 ^ k • P`. -/
theorem iterate_double_rep {f : List Fp → List Fp}
    (hf : ∀ {P : Ed} {X Y Z T : Fp}, RepExt P X Y Z T →
      ∃ X' Y' Z' T', f [X, Y, Z, T] = [X', Y', Z', T'] ∧ RepExt (2 • P) X' Y' Z' T')
    (k : Nat) {P : Ed} {X Y Z T : Fp} (hP : RepExt P X Y Z T) :
    ∃ X' Y' Z' T', f^[k] [X, Y, Z, T] = [X', Y', Z', T'] ∧ RepExt (2 ^ k • P) X' Y' Z' T' := by
  induction k generalizing P X Y Z T with
  | zero => exact ⟨X, Y, Z, T, rfl, by rw [pow_zero, one_smul]; exact hP⟩
  | succ k ih =>
    obtain ⟨X1, Y1, Z1, T1, e1, h1⟩ := hf hP
    obtain ⟨X2, Y2, Z2, T2, e2, h2⟩ := ih h1
    refine ⟨X2, Y2, Z2, T2, ?_, ?_⟩
    · rw [Function.iterate_succ_apply, e1, e2]
    · rw [pow_succ (2 : ℕ) k, mul_smul]; exact h2

/-! ### Axiom audit -/

/-- info: 'Dalek.Proofs.add_cached' depends on axioms: [propext, Classical.choice, Quot.sound] -/
#guard_msgs in #print axioms add_cached

/-- info: 'Dalek.Proofs.double_vec' depends on axioms: [propext, Classical.choice, Quot.sound] -/
#guard_msgs in #print axioms double_vec

/-- info: 'Dalek.Proofs.constV_243330' depends on axioms: [propext, Classical.choice, Quot.sound] -/
#guard_msgs in #print axioms constV_243330

end Dalek.Proofs

import Dalek.Proofs.RecodeBase
/-!
# `Scalar::as_radix_16` (model `asRadix16`): nibble split and recentring loop
-/
namespace Dalek.Proofs.Recode
open Dalek.Model.Recode Dalek.Spec

theorem nib_lo (n : Nat) : n &&& 15 = n % 16 := Nat.and_two_pow_sub_one_eq_mod n 4
theorem nib_hi (n : Nat) : (n >>> 4) &&& 15 = n / 16 % 16 := by
  rw [nib_lo, Nat.shiftRight_eq_div_pow]

theorem nibbles_length (bs : List UInt8) : (nibbles bs).length = 2 * bs.length := by
  induction bs with
  | nil => rfl
  | cons b bs ih => simp only [nibbles, List.length_cons, ih]; ring

theorem nibbles_range (bs : List UInt8) : ∀ x ∈ nibbles bs, 0 ≤ x ∧ x < 16 := by
  induction bs with
  | nil => simp [nibbles]
  | cons b bs ih =>
    intro x hx
    simp only [nibbles, List.mem_cons, nib_lo, Nat.shiftRight_eq_div_pow] at hx
    rcases hx with rfl | rfl | hx
    · simp only [Int.ofNat_eq_natCast]; omega
    · simp only [Int.ofNat_eq_natCast]; omega
    · exact ih x hx

/-- Step 1 of `as_radix_16` is exact: the 2·len nibbles are the radix-16 digits of the value. -/
theorem nibbles_sum (bs : List UInt8) : digitSum 16 (nibbles bs) = (leToNat bs : Int) := by
  induction bs with
  | nil => rfl
  | cons b bs ih =>
    simp only [nibbles, digitSum, ih, leToNat, nib_lo, Nat.shiftRight_eq_div_pow, Int.ofNat_eq_natCast]
    have hb : b.toNat < 256 := b.toNat_lt
    push_cast
    omega

theorem nibbles_getD (bs : List UInt8) (i : Nat) :
    (nibbles bs).getD i 0 = ((leToNat bs / 16 ^ i % 16 : Nat) : Int) := by
  induction bs generalizing i with
  | nil => simp [nibbles, leToNat]
  | cons b bs ih =>
    have hb : b.toNat < 256 := b.toNat_lt
    match i with
    | 0 => simp only [nibbles, List.getD_cons_zero, nib_lo, leToNat, Int.ofNat_eq_natCast]; congr 1; omega
    | 1 =>
      simp only [nibbles, List.getD_cons_succ, List.getD_cons_zero, Nat.shiftRight_eq_div_pow, leToNat,
        Int.ofNat_eq_natCast, nib_lo, pow_one]
      congr 1; omega
    | i + 2 =>
      simp only [nibbles, List.getD_cons_succ, ih i, leToNat]
      congr 2
      rw [show (16 : Nat) ^ (i + 2) = 256 * 16 ^ i by rw [pow_add]; ring,
        ← Nat.div_div_eq_div_mul]
      congr 1; omega

/-- Step 2 of `as_radix_16` on any non-empty list of nibbles with incoming carry `c ∈ {0,1}`:
value preserved, all digits but the last in `[-8, 8)`, last digit = last nibble + (0 or 1). -/
theorem recenter16_spec (l : List Int) (c : Int) (hl : l ≠ []) (hr : ∀ x ∈ l, 0 ≤ x ∧ x < 16)
    (hc : 0 ≤ c ∧ c ≤ 1) :
    (recenter16 c l).length = l.length ∧
    digitSum 16 (recenter16 c l) = c + digitSum 16 l ∧
    (∀ i, i + 1 < l.length →
      -8 ≤ (recenter16 c l).getD i 0 ∧ (recenter16 c l).getD i 0 < 8) ∧
    l.getD (l.length - 1) 0 ≤ (recenter16 c l).getD (l.length - 1) 0 ∧
    (recenter16 c l).getD (l.length - 1) 0 ≤ l.getD (l.length - 1) 0 + 1 := by
  induction l generalizing c with
  | nil => exact absurd rfl hl
  | cons x xs ih =>
    have hx := hr x (by simp)
    cases xs with
    | nil =>
      rw [recenter16.eq_2, toI8_id (by omega) (by omega)]
      refine ⟨rfl, ?_, ?_, ?_, ?_⟩
      · simp [digitSum]; ring
      · intro i hi; simp at hi
      · simp; omega
      · simp; omega
    | cons y ys =>
      rw [recenter16.eq_3 _ _ _ (by simp)]
      have hcar : 0 ≤ (x + c + 8) / 16 ∧ (x + c + 8) / 16 ≤ 1 := by omega
      obtain ⟨h1, h2, h3, h4, h5⟩ := ih ((x + c + 8) / 16) (by simp)
        (fun z hz => hr z (List.mem_cons_of_mem _ hz)) hcar
      rw [toI8_id (by omega) (by omega)]
      refine ⟨by simp only [List.length_cons] at h1 ⊢; omega, ?_, ?_, ?_, ?_⟩
      · simp only [digitSum] at h2 ⊢
        rw [h2]; ring
      · intro i hi
        cases i with
        | zero => simp only [List.getD_cons_zero]; omega
        | succ i =>
          simp only [List.getD_cons_succ]
          exact h3 i (by simp only [List.length_cons] at hi ⊢; omega)
      · simpa using h4
      · simpa using h5

/-- `as_radix_16` on any 32-byte string (no precondition): 64 digits, exact value, digits `0..62` in
`[-8, 8)`, and the last digit is the top nibble `s / 2^252` plus a carry in `{0,1}`. -/
theorem asRadix16_gen (bytes : List UInt8) (hlen : bytes.length = 32) :
    (asRadix16 bytes).length = 64 ∧
    digitSum 16 (asRadix16 bytes) = (leToNat bytes : Int) ∧
    (∀ i, i < 63 → -8 ≤ (asRadix16 bytes).getD i 0 ∧ (asRadix16 bytes).getD i 0 < 8) ∧
    ((leToNat bytes / 2 ^ 252 : Nat) : Int) ≤ (asRadix16 bytes).getD 63 0 ∧
    (asRadix16 bytes).getD 63 0 ≤ ((leToNat bytes / 2 ^ 252 : Nat) : Int) + 1 := by
  have hn : (nibbles bytes).length = 64 := by rw [nibbles_length, hlen]
  have hne : nibbles bytes ≠ [] := by intro h; rw [h] at hn; simp at hn
  obtain ⟨h1, h2, h3, h4, h5⟩ :=
    recenter16_spec (nibbles bytes) 0 hne (nibbles_range bytes) (by omega)
  have hs : leToNat bytes < 2 ^ 256 := by
    have := leToNat_lt bytes; rw [hlen] at this; norm_num at this ⊢; exact this
  have hlast : (nibbles bytes).getD 63 0 = ((leToNat bytes / 2 ^ 252 : Nat) : Int) := by
    rw [nibbles_getD]
    congr 1
    rw [show (16 : Nat) ^ 63 = 2 ^ 252 by norm_num]
    omega
  rw [hn] at h1 h3 h4 h5
  simp only [show 64 - 1 = 63 from rfl, hlast] at h4 h5
  refine ⟨h1, ?_, fun i hi => h3 i (by omega), h4, h5⟩
  unfold asRadix16
  rw [h2, nibbles_sum]; ring

end Dalek.Proofs.Recode

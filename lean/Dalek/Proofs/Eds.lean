/-
Helper library for the Ed25519 property theorems (C08, C09, C13): the byte codecs of the executable
specification phrased on the group `Ed` (`encodeEd`, `decodeEd`), the specification `Ops` in group terms,
facts about the prime-order subgroup `⟨B⟩`, `checkScalar`, and the characterisation of the verification
core `verifyCoreWith` and of `batchItemWith`.

SHA-512 is never unfolded here, except for `sha512_length` (the digest has 64 bytes): all statements hold
for any hash function with 64-byte output.
-/
import Dalek.Spec.Ed25519
import Dalek.Proofs.Primes
import Dalek.Proofs.Bridge.Bytes
import Dalek.Proofs.Bridge.Scalar
import Dalek.Proofs.Bridge.Edwards
import Dalek.Proofs.Bridge.Order
import Mathlib.GroupTheory.OrderOfElement

namespace Dalek.Eds

open Dalek.Spec Dalek.Spec.Ed25519 Dalek.Bridge

/-! ## Codecs on the group `Ed` -/

/-- The group element denoted by a specification point (`0` off the curve; never used there). -/
noncomputable def edOf (p : Pt) : Ed := if h : onCurve p = true then toEd p h else 0

theorem edOf_eq {p : Pt} (h : onCurve p = true) : edOf p = toEd p h := dif_pos h

/-- **Canonical encoding** of a curve point (RFC 8032 §5.1.2): `compress` of its canonical coordinates. -/
noncomputable def encodeEd (Q : Ed) : List UInt8 := compress (ofEd Q)

/-- **Decoding** with dalek's acceptance rules (`CompressedEdwardsY::decompress`: non-canonical `y` and
"negative zero" are accepted). -/
noncomputable def decodeEd (b : List UInt8) : Option Ed := (decompress b).map edOf

theorem onCurve_ofEd (Q : Ed) : onCurve (ofEd Q) = true := (rep_ofEd Q).on

theorem edOf_ofEd (Q : Ed) : edOf (ofEd Q) = Q := by
  rw [edOf_eq (onCurve_ofEd Q)]; exact (rep_ofEd Q).toEd_eq _

theorem ofEd_edOf {p : Pt} (h : onCurve p = true) (c : Canon p) : ofEd (edOf p) = p :=
  Rep.unique (rep_ofEd _) (by rw [edOf_eq h]; exact rep_toEd p h) (canon_ofEd _) c

theorem compress_eq_encodeEd {p : Pt} (h : onCurve p = true) (c : Canon p) :
    compress p = encodeEd (edOf p) := by
  rw [encodeEd, ofEd_edOf h c]

@[simp] theorem encodeEd_length (Q : Ed) : (encodeEd Q).length = 32 := compress_length _

theorem decompress_encodeEd (Q : Ed) : decompress (encodeEd Q) = some (ofEd Q) :=
  decompress_compress (onCurve_ofEd Q) (canon_ofEd Q)

theorem decodeEd_encodeEd (Q : Ed) : decodeEd (encodeEd Q) = some Q := by
  rw [decodeEd, decompress_encodeEd, Option.map_some, edOf_ofEd]

theorem encodeEd_injective : Function.Injective encodeEd := by
  intro Q R h
  have := decodeEd_encodeEd Q
  rw [h, decodeEd_encodeEd] at this
  exact (Option.some.inj this).symm

theorem decodeEd_eq_some_iff {b : List UInt8} {Q : Ed} :
    decodeEd b = some Q ↔ decompress b = some (ofEd Q) := by
  unfold decodeEd
  cases h : decompress b with
  | none => simp
  | some p =>
    obtain ⟨hon, hc, -⟩ := decompress_some h
    simp only [Option.map_some, Option.some.injEq]
    constructor
    · intro e; rw [← e, ofEd_edOf hon hc]
    · intro e; rw [e, edOf_ofEd]

theorem decodeEd_of_decompress {b : List UInt8} {p : Pt} (h : decompress b = some p) :
    decodeEd b = some (edOf p) := by
  rw [decodeEd, h, Option.map_some]

theorem decodeEd_eq_none_iff {b : List UInt8} : decodeEd b = none ↔ decompress b = none := by
  unfold decodeEd; cases decompress b <;> simp

/-- The integer value of a canonical encoding: `y + 2^255·(x mod 2)` with `y < p`. -/
theorem leToNat_compress (p : Pt) :
    leToNat (compress p) = p.y % P + (if isNeg p.x then 2 ^ 255 else 0) := by
  unfold compress
  rw [leToNat_setSignBit (feToBytes_length _) (leToNat_feToBytes_lt_255 _), leToNat_feToBytes]

theorem leToNat_compress_mod (p : Pt) : leToNat (compress p) % 2 ^ 255 = p.y % P := by
  rw [leToNat_compress]
  have h1 : p.y % P < 2 ^ 255 := Nat.lt_trans (Nat.mod_lt _ P_pos) P_lt_255
  split
  · rw [Nat.add_mod_right, Nat.mod_eq_of_lt h1]
  · rw [Nat.add_zero, Nat.mod_eq_of_lt h1]

/-- **Characterisation of the canonical encoding.**  A byte string `b` is `encodeEd Q` iff it has 32
bytes, its low 255 bits are a reduced field element (`< p`), it decodes to `Q`, and it is not the
"negative zero" encoding (`x = 0` with bit 255 set). -/
theorem encodeEd_eq_iff {b : List UInt8} {Q : Ed} :
    encodeEd Q = b ↔
      b.length = 32 ∧ leToNat b % 2 ^ 255 < P ∧ decodeEd b = some Q ∧ ¬ (Q.x = 0 ∧ signBit b = true) := by
  constructor
  · rintro rfl
    refine ⟨encodeEd_length Q, ?_, decodeEd_encodeEd Q, ?_⟩
    · rw [encodeEd, leToNat_compress_mod]; exact Nat.mod_lt _ P_pos
    · rintro ⟨hx, hs⟩
      rw [encodeEd, signBit_compress] at hs
      have : (ofEd Q).x = 0 := by simp [ofEd, hx]
      rw [this, isNeg_zero] at hs
      cases hs
  · rintro ⟨hlen, hcan, hdec, hnz⟩
    rw [decodeEd_eq_some_iff] at hdec
    refine compress_decompress hlen hcan hdec ?_
    rintro ⟨hx, hs⟩
    apply hnz
    refine ⟨?_, hs⟩
    have : ((ofEd Q).x : Fp) = Q.x := (rep_ofEd Q).1
    rw [← this, hx]; rfl

/-- A byte string is a canonical point encoding. -/
def IsCanonicalEnc (b : List UInt8) : Prop := ∃ Q : Ed, encodeEd Q = b

theorem isCanonicalEnc_iff {b : List UInt8} :
    IsCanonicalEnc b ↔ b.length = 32 ∧ leToNat b % 2 ^ 255 < P ∧
      ∃ Q, decodeEd b = some Q ∧ ¬ (Q.x = 0 ∧ signBit b = true) := by
  unfold IsCanonicalEnc
  constructor
  · rintro ⟨Q, h⟩
    obtain ⟨h1, h2, h3, h4⟩ := encodeEd_eq_iff.1 h
    exact ⟨h1, h2, Q, h3, h4⟩
  · rintro ⟨h1, h2, Q, h3, h4⟩
    exact ⟨Q, encodeEd_eq_iff.2 ⟨h1, h2, h3, h4⟩⟩

/-- On canonical encodings, equality of bytes is equality of the decoded points. -/
theorem IsCanonicalEnc.eq_of_decodeEd_eq {b b' : List UInt8} (h : IsCanonicalEnc b)
    (h' : IsCanonicalEnc b') (hd : decodeEd b = decodeEd b') : b = b' := by
  obtain ⟨Q, rfl⟩ := h
  obtain ⟨Q', rfl⟩ := h'
  rw [decodeEd_encodeEd, decodeEd_encodeEd] at hd
  rw [Option.some.inj hd]

/-! ## The specification `Ops` in group terms -/

theorem edOf_B : edOf B = Bpt := edOf_eq onCurve_B

theorem edOf_smul {p : Pt} (hp : onCurve p = true) (n : Nat) : edOf (Pt.smul n p) = n • edOf p := by
  rw [edOf_eq (onCurve_smul hp n), edOf_eq hp, toEd_smul]

theorem edOf_add {p q : Pt} (hp : onCurve p = true) (hq : onCurve q = true) :
    edOf (p.add q) = edOf p + edOf q := by
  rw [edOf_eq (onCurve_add hp hq), edOf_eq hp, edOf_eq hq, toEd_add]

theorem edOf_neg {p : Pt} (hp : onCurve p = true) : edOf p.neg = -edOf p := by
  rw [edOf_eq (onCurve_neg hp), edOf_eq hp, toEd_neg]

theorem mulBase_spec (n : Nat) : Ops.spec.mulBase n = encodeEd (n • Bpt) := by
  have e : Ops.spec.mulBase n = compress (Pt.smul n B) := by simp only [Ops.spec]
  rw [e]
  rw [compress_eq_encodeEd (onCurve_smul onCurve_B n) (canon_smul n B), edOf_smul onCurve_B, edOf_B]

theorem dsm_spec (k : Nat) {A : Pt} (hA : onCurve A = true) (s : Nat) :
    Ops.spec.dsm k A s = encodeEd (s • Bpt - k • edOf A) := by
  have e : Ops.spec.dsm k A s = compress (Pt.add (Pt.smul k (Pt.neg A)) (Pt.smul s B)) := by
    simp only [Ops.spec]
  rw [e]
  have h1 := onCurve_smul (onCurve_neg hA) k
  have h2 := onCurve_smul onCurve_B s
  rw [compress_eq_encodeEd (onCurve_add h1 h2) (canon_add _ _), edOf_add h1 h2,
    edOf_smul (onCurve_neg hA), edOf_neg hA, edOf_smul onCurve_B, edOf_B]
  rw [smul_neg, sub_eq_add_neg, add_comm]

theorem smallOrder_spec {A : Pt} (hA : onCurve A = true) :
    Ops.spec.smallOrder A = true ↔ 8 • edOf A = 0 := by
  have e : Ops.spec.smallOrder A = isSmallOrder A := by simp only [Ops.spec]
  rw [e]
  rw [isSmallOrder_iff hA, edOf_eq hA]

/-- An `Ops` record that computes the specification's results (on canonical curve points, the only
arguments the Ed25519 functions pass). -/
structure OpsCorrect (ops : Ops) : Prop where
  mulBase : ∀ n, ops.mulBase n = Ops.spec.mulBase n
  dsm : ∀ k A s, onCurve A = true → Canon A → ops.dsm k A s = Ops.spec.dsm k A s
  smallOrder : ∀ A, onCurve A = true → Canon A → ops.smallOrder A = Ops.spec.smallOrder A

theorem opsCorrect_spec : OpsCorrect Ops.spec := ⟨fun _ => rfl, fun _ _ _ _ _ => rfl, fun _ _ _ => rfl⟩

/-! ## The prime-order subgroup -/

theorem prime_L : Nat.Prime L := Dalek.Primes.prime_l

theorem nsmul_Bpt_eq_zero_iff (n : Nat) : n • Bpt = 0 ↔ n % L = 0 := by
  rw [← addOrderOf_dvd_iff_nsmul_eq_zero, addOrderOf_Bpt, Nat.dvd_iff_mod_eq_zero]

theorem coprime_8_L : Nat.Coprime 8 L := by
  have : Nat.Coprime 2 L := (Nat.coprime_primes Nat.prime_two prime_L).2 (by norm_num)
  exact Nat.Coprime.pow_left 3 this

/-- A point of `ℓ`-torsion that is also of small order (`[8]Q = 0`) is the identity. -/
theorem eq_zero_of_small_and_L {G : Type*} [AddGroup G] {Q : G} (h8 : 8 • Q = 0) (hL : L • Q = 0) :
    Q = 0 := by
  rw [← addOrderOf_dvd_iff_nsmul_eq_zero] at h8 hL
  have := Nat.dvd_gcd h8 hL
  rw [coprime_8_L] at this
  exact AddMonoid.addOrderOf_eq_one_iff.1 (Nat.dvd_one.1 this)

/-- **Single-fault lemma** (group theory behind batch verification): a non-zero element of order `ℓ`
(prime) is only annihilated by multiples of `ℓ`. -/
theorem dvd_of_nsmul_eq_zero {G : Type*} [AddGroup G] {E : G} (hL : L • E = 0) (hE : E ≠ 0) {z : Nat}
    (hz : z • E = 0) : L ∣ z := by
  have h1 : addOrderOf E ∣ L := addOrderOf_dvd_of_nsmul_eq_zero hL
  rcases (Nat.dvd_prime prime_L).1 h1 with h | h
  · exact absurd (AddMonoid.addOrderOf_eq_one_iff.1 h) hE
  · rw [← h]; exact addOrderOf_dvd_of_nsmul_eq_zero hz

/-- A multiple `[n]B` of the basepoint has small order only if `n ≡ 0 (mod ℓ)`. -/
theorem eight_nsmul_Bpt_ne_zero {n : Nat} (hn : n % L ≠ 0) : 8 • (n • Bpt) ≠ 0 := by
  intro h
  have hL : L • (n • Bpt) = 0 := by rw [smul_comm, L_nsmul_Bpt, smul_zero]
  exact hn ((nsmul_Bpt_eq_zero_iff n).1 (eq_zero_of_small_and_L h hL))

/-- A clamped integer (multiple of 8 in `[2^254, 2^255)`) is not divisible by `ℓ` (`8ℓ > 2^255`). -/
theorem clamped_mod_L_ne_zero {a : Nat} (h8 : a % 8 = 0) (hlo : 2 ^ 254 ≤ a) (hhi : a < 2 ^ 255) :
    a % L ≠ 0 := by
  intro h
  have hd : 8 * L ∣ a :=
    Nat.Coprime.mul_dvd_of_dvd_of_dvd coprime_8_L (Nat.dvd_of_mod_eq_zero h8) (Nat.dvd_of_mod_eq_zero h)
  have hpos : 0 < a := Nat.lt_of_lt_of_le (by norm_num) hlo
  have := Nat.le_of_dvd hpos hd
  have : 2 ^ 255 < 8 * L := by norm_num
  omega

end Dalek.Eds

import Dalek.Proofs.AlgBoundsInv
/-!
# C11, formula level: kernel evaluations of the abstract interpretation (serial u32 backend, part a)

One `decide +kernel` per translated formula: the abstract run of the formula from the type invariants of its inputs
(every abstract field operation being the verified analysis of the regenerated limb kernel) proves every statement
safe and every output inside the type invariant of its type.  Helper of `Dalek/Props/C11/Formulas.lean`.
-/
namespace Dalek.Props.C11.Formulas
open Dalek.Model.AlgBounds

theorem Curve_ProjectivePoint_identity_ok26 : (sig_Curve_ProjectivePoint_identity I26).ok B26 = true := by decide +kernel
theorem Curve_ProjectivePoint_is_valid_ok26 : (sig_Curve_ProjectivePoint_is_valid I26).ok B26 = true := by decide +kernel
theorem Curve_AffineNielsPoint_conditional_select_ok26 : (sig_Curve_AffineNielsPoint_conditional_select I26).ok B26 = true := by decide +kernel
theorem Curve_CompletedPoint_as_projective_ok26 : (sig_Curve_CompletedPoint_as_projective I26).ok B26 = true := by decide +kernel
theorem Curve_add_ProjectiveNielsPoint_ok26 : (sig_Curve_add_ProjectiveNielsPoint I26).ok B26 = true := by decide +kernel
theorem Curve_sub_AffineNielsPoint_ok26 : (sig_Curve_sub_AffineNielsPoint I26).ok B26 = true := by decide +kernel
theorem Edwards_decompress_step_1_ok26 : (sig_Edwards_decompress_step_1 I26).ok B26 = true := by decide +kernel
theorem Edwards_decompress_step_2_ok26 : (sig_Edwards_decompress_step_2 I26).ok B26 = true := by decide +kernel
theorem Edwards_as_affine_niels_ok26 : (sig_Edwards_as_affine_niels I26).ok B26 = true := by decide +kernel
theorem Edwards_identity_ok26 : (sig_Edwards_identity I26).ok B26 = true := by decide +kernel
theorem Edwards_neg_ok26 : (sig_Edwards_neg I26).ok B26 = true := by decide +kernel
theorem Edwards_sub_ok26 : (sig_Edwards_sub I26).ok B26 = true := by decide +kernel
theorem Montgomery_ProjectivePoint_identity_ok26 : (sig_Montgomery_ProjectivePoint_identity I26).ok B26 = true := by decide +kernel
theorem Montgomery_elligator_encode_ok26 : (sig_Montgomery_elligator_encode I26).ok B26 = true := by decide +kernel
theorem Ristretto_ct_eq_ok26 : (sig_Ristretto_ct_eq I26).ok B26 = true := by decide +kernel
theorem Field_pow_p58_ok26 : (sig_Field_pow_p58 I26).ok B26 = true := by decide +kernel

end Dalek.Props.C11.Formulas

/-
The translated `ristretto.rs` formulas (`Dalek.Gen.AlgRistretto.*`, `sqrt_ratio_i` inlined), interpreted in the
field `Fp` by `zmodOps`, as explicit field functions written with `sqrtRatioFp` (the field mirror of
`sqrt_ratio_i`, `Proofs/AlgFieldLemmas.lean`).  Proofs are normalising (`alg_lets` + `ring_nf`): they do not
mention SSA variable numbers or the order of operations of the generated code.
-/
import Dalek.Proofs.AlgFieldLemmas
import Dalek.Gen.AlgRistrettoSh

namespace Dalek.Proofs.Ris

open Dalek.IR Dalek.Spec Dalek.Gen Dalek.Proofs
open Dalek.FieldFacts (d sqrtM1)

/-- absolute value: the non-negative one of `x`, `-x` (`CT_ABS` of RFC 9496) -/
noncomputable def fpAbs (x : Fp) : Fp := if fpIsNeg x then -x else x

/-- the non-positive one of `x`, `-x` -/
noncomputable def fpNegAbs (x : Fp) : Fp := if fpIsNeg x then x else -x

theorem fpNegAbs_eq (x : Fp) : fpNegAbs x = -fpAbs x := by
  unfold fpNegAbs fpAbs; split <;> simp

/-! ## `decompress::step_2` -/

/-- `v = a d u1² − u2²` (`a = −1`) -/
noncomputable def decV (s : Fp) : Fp := -d * (1 - s ^ 2) ^ 2 - (1 + s ^ 2) ^ 2
/-- `(was_square, invsqrt) = SQRT_RATIO_M1(1, v u2²)` -/
noncomputable def decI (s : Fp) : Fp × Fp := sqrtRatioFp 1 (decV s * (1 + s ^ 2) ^ 2)
noncomputable def decX (s : Fp) : Fp := fpAbs ((s + s) * ((decI s).2 * (1 + s ^ 2)))
noncomputable def decY (s : Fp) : Fp := (1 - s ^ 2) * ((decI s).2 * ((decI s).2 * (1 + s ^ 2) * decV s))
noncomputable def decT (s : Fp) : Fp := decX s * decY s

/-- `decompress::step_2(s) = (ok, t_is_negative, y_is_zero, (X, Y, Z, T))`. -/
theorem decompress_step_2_sh_eq (s : Fp) :
    AlgRistretto.decompress_step_2_sh zmodOps s =
      [(decI s).1, c2f (fpIsNeg (decT s)), c2f (decY s = 0), decX s, decY s, 1, decT s] := by
  unfold decT decX decY decI decV fpAbs
  generalize hu1 : 1 - s ^ 2 = u1
  generalize hu2 : 1 + s ^ 2 = u2
  generalize hv : -d * u1 ^ 2 - u2 ^ 2 = v
  alg_lets AlgRistretto.decompress_step_2_sh [hu1, hu2, hv]
  simp only [sqrtRatioFp, sqrtCand]
  ring_nf

/-! ## `RistrettoPoint::compress` -/

/-- `constants::INVSQRT_A_MINUS_D` (`1/sqrt(a − d)`, see `const_INVSQRT_A_MINUS_D_sq`) -/
noncomputable def invSqrtAmD : Fp := zmodOps.const 9
/-- `constants::SQRT_AD_MINUS_ONE` (`sqrt(a d − 1)`, see `const_SQRT_AD_MINUS_ONE_sq`) -/
noncomputable def sqrtADm1 : Fp := zmodOps.const 8

/-- `invsqrt` of `u1 u2²`, `u1 = (Z+Y)(Z−Y)`, `u2 = XY` -/
noncomputable def encI (X Y Z : Fp) : Fp := (sqrtRatioFp 1 ((Z + Y) * (Z - Y) * (X * Y) ^ 2)).2
noncomputable def encZinv (X Y Z T : Fp) : Fp :=
  encI X Y Z * ((Z + Y) * (Z - Y)) * (encI X Y Z * (X * Y)) * T
/-- the `rotate` decision -/
abbrev encRot (X Y Z T : Fp) : Prop := fpIsNeg (T * encZinv X Y Z T)
noncomputable def encX (X Y Z T : Fp) : Fp := if encRot X Y Z T then Y * sqrtM1 else X
noncomputable def encY0 (X Y Z T : Fp) : Fp := if encRot X Y Z T then X * sqrtM1 else Y
noncomputable def encDen (X Y Z T : Fp) : Fp :=
  if encRot X Y Z T then encI X Y Z * ((Z + Y) * (Z - Y)) * invSqrtAmD else encI X Y Z * (X * Y)
noncomputable def encY (X Y Z T : Fp) : Fp :=
  if fpIsNeg (encX X Y Z T * encZinv X Y Z T) then -encY0 X Y Z T else encY0 X Y Z T
/-- the field element `s` whose canonical bytes are the encoding -/
noncomputable def encS (X Y Z T : Fp) : Fp := fpAbs (encDen X Y Z T * (Z - encY X Y Z T))

/-- `RistrettoPoint::compress` (field part: `s` before `as_bytes`). -/
theorem compress_sh_eq (X Y Z T : Fp) :
    AlgRistretto.compress_sh zmodOps X Y Z T = [encS X Y Z T] := by
  unfold encS encY encDen encY0 encX encRot encZinv encI fpAbs invSqrtAmD
  obtain ⟨a, ha⟩ : ∃ a, Z + Y = a := ⟨_, rfl⟩
  obtain ⟨b, hb⟩ : ∃ b, Z - Y = b := ⟨_, rfl⟩
  simp only [ha, hb]
  alg_lets AlgRistretto.compress_sh [ha, hb]
  simp only [sqrtRatioFp, sqrtCand]
  ring_nf

/-! ## `ct_eq` -/

/-- `RistrettoPoint::ct_eq`: `X1 Y2 = Y1 X2 ∨ X1 X2 = Y1 Y2`. -/
theorem ct_eq_sh_eq (X1 Y1 Z1 T1 X2 Y2 Z2 T2 : Fp) :
    AlgRistretto.ct_eq_sh zmodOps X1 Y1 Z1 T1 X2 Y2 Z2 T2 =
      [c2f (X1 * Y2 = Y1 * X2 ∨ X1 * X2 = Y1 * Y2)] := by
  alg_lets AlgRistretto.ct_eq_sh
  ring_nf

/-! ## `elligator_ristretto_flavor` -/

noncomputable def mapR (t : Fp) : Fp := sqrtM1 * t ^ 2
noncomputable def mapU (t : Fp) : Fp := (mapR t + 1) * zmodOps.const 6
noncomputable def mapV (t : Fp) : Fp := (-1 - d * mapR t) * (mapR t + d)
noncomputable def mapSq (t : Fp) : Fp × Fp := sqrtRatioFp (mapU t) (mapV t)
noncomputable def mapS (t : Fp) : Fp :=
  if (mapSq t).1 ≠ 0 then (mapSq t).2 else fpNegAbs ((mapSq t).2 * t)
noncomputable def mapC (t : Fp) : Fp := if (mapSq t).1 ≠ 0 then -1 else mapR t
noncomputable def mapN (t : Fp) : Fp := mapC t * (mapR t - 1) * zmodOps.const 7 - mapV t
noncomputable def mapW0 (t : Fp) : Fp := (mapS t + mapS t) * mapV t
noncomputable def mapW1 (t : Fp) : Fp := mapN t * sqrtADm1
noncomputable def mapW2 (t : Fp) : Fp := 1 - mapS t ^ 2
noncomputable def mapW3 (t : Fp) : Fp := 1 + mapS t ^ 2

/-- `elligator_ristretto_flavor(r_0)`: the extended coordinates `(w0 w3, w2 w1, w1 w3, w0 w2)` of RFC 9496 MAP. -/
theorem elligator_sh_eq (t : Fp) :
    AlgRistretto.elligator_ristretto_flavor_sh zmodOps t =
      [mapW0 t * mapW3 t, mapW2 t * mapW1 t, mapW1 t * mapW3 t, mapW0 t * mapW2 t] := by
  unfold mapW0 mapW1 mapW2 mapW3 mapN mapC mapS mapSq mapV mapU mapR fpNegAbs sqrtADm1
  generalize ha : sqrtM1 * t ^ 2 + 1 = a
  generalize hb : -1 - d * (sqrtM1 * t ^ 2) = b
  generalize hc : sqrtM1 * t ^ 2 + d = c
  alg_lets AlgRistretto.elligator_ristretto_flavor_sh [ha, hb, hc]
  simp only [sqrtRatioFp, sqrtCand, c2f_eq_zero_iff, ite_not]
  ring_nf

/-! ## `double_and_compress_batch` -/

/-- `BatchCompressState::from(P)`: `(e, f, g, h, eg, fh)` with `e = 2XY`, `f = Z² + dT²`, `g = Y² + X²`,
`h = Z² − dT²`. -/
theorem batch_state_from_sh_eq (X Y Z T : Fp) :
    AlgRistretto.batch_state_from_sh zmodOps X Y Z T =
      [X * (Y + Y), Z ^ 2 + T ^ 2 * d, Y ^ 2 + X ^ 2, Z ^ 2 - T ^ 2 * d,
       X * (Y + Y) * (Y ^ 2 + X ^ 2), (Z ^ 2 + T ^ 2 * d) * (Z ^ 2 - T ^ 2 * d)] := by
  alg_lets AlgRistretto.batch_state_from_sh
  ring_nf

abbrev batRot (eg inv : Fp) : Prop := fpIsNeg (eg * (eg * inv))
noncomputable def batE (e g eg inv : Fp) : Fp := if batRot eg inv then g else e
noncomputable def batG0 (e g eg inv : Fp) : Fp := if batRot eg inv then -e else g
noncomputable def batH (f h eg inv : Fp) : Fp := if batRot eg inv then f * sqrtM1 else h
noncomputable def batMagic (eg inv : Fp) : Fp := if batRot eg inv then sqrtM1 else invSqrtAmD
noncomputable def batG (e f g h eg inv : Fp) : Fp :=
  if fpIsNeg (batH f h eg inv * batE e g eg inv * (eg * inv)) then -batG0 e g eg inv else batG0 e g eg inv
noncomputable def batS (e f g h eg fh inv : Fp) : Fp :=
  fpAbs ((batH f h eg inv - batG e f g h eg inv) * (batMagic eg inv * (batG e f g h eg inv * (fh * inv))))

/-- the per-point closure of `double_and_compress_batch` (field part: `s` before `as_bytes`). -/
theorem batch_compress_closure_sh_eq (e f g h eg fh inv : Fp) :
    AlgRistretto.batch_compress_closure_sh zmodOps e f g h eg fh inv = [batS e f g h eg fh inv] := by
  unfold batS batG batMagic batH batG0 batE batRot fpAbs invSqrtAmD
  alg_lets AlgRistretto.batch_compress_closure_sh
  ring_nf

end Dalek.Proofs.Ris

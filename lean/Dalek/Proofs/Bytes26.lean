import Dalek.Proofs.Bytes51
import Dalek.Gen.Norm.Field26.from_bytes
import Dalek.Gen.Norm.Field26.as_bytes
/-!
# Byte codecs of the serial-u32 field backend: integer-level correctness of the normalised kernels

Helper lemmas for `Dalek/Props/C01/Bytes26.lean`; same plan as `Dalek/Proofs/Bytes51.lean`.

* `from_bytes_fn_eq` / `from_bytes_fn_val`: on bytes in `[0,255]` the ten limbs are the 26/25-bit digits of `N % 2^255`
  (`omega` per limb; the limb that receives the last carry of `reduce` is done after rewriting with the result for
  limb 0);
* `as_bytes_fn_eq_model`: the generated normal form equals the hand model `asBytesModel26` (normalising);
* `asBytesModel26_val`: for limbs inside the contract (even `< 2^28`, odd `< 2^27`) the output bytes are in `[0,255]`
  and their little-endian value is `(Σ a_i 2^⌈25.5 i⌉) % p`.
-/
set_option linter.unusedVariables false
set_option linter.unusedTactic false
set_option linter.unreachableTactic false
set_option linter.unusedSimpArgs false
namespace Dalek.Proofs.Bytes26
open Dalek Dalek.IR Dalek.Model.FieldBytes Dalek.Proofs.Bytes51

theorem val26Z_toZ (l : List Nat) : val26Z (toZ l) = (val26N l : Int) := by
  simp only [val26Z, val26N, getD_toZ]; push_cast; rfl

theorem and_chain {a b : Prop} (ha : a) (hb : a → b) : a ∧ b := ⟨ha, hb ha⟩

theorem list_eq_of_length_10 {α : Type} {l : List α} (hl : l.length = 10) :
    ∃ a0 a1 a2 a3 a4 a5 a6 a7 a8 a9, l = [a0, a1, a2, a3, a4, a5, a6, a7, a8, a9] := by
  obtain ⟨a0, t0, rfl, hl0⟩ := exists_of_length_succ hl
  obtain ⟨a1, t1, rfl, hl1⟩ := exists_of_length_succ hl0
  obtain ⟨a2, t2, rfl, hl2⟩ := exists_of_length_succ hl1
  obtain ⟨a3, t3, rfl, hl3⟩ := exists_of_length_succ hl2
  obtain ⟨a4, t4, rfl, hl4⟩ := exists_of_length_succ hl3
  obtain ⟨a5, t5, rfl, hl5⟩ := exists_of_length_succ hl4
  obtain ⟨a6, t6, rfl, hl6⟩ := exists_of_length_succ hl5
  obtain ⟨a7, t7, rfl, hl7⟩ := exists_of_length_succ hl6
  obtain ⟨a8, t8, rfl, hl8⟩ := exists_of_length_succ hl7
  obtain ⟨a9, t9, rfl, hl9⟩ := exists_of_length_succ hl8
  obtain rfl := List.length_eq_zero_iff.mp hl9
  exact ⟨a0, a1, a2, a3, a4, a5, a6, a7, a8, a9, rfl⟩

/-! ### `from_bytes` -/
open Dalek.Gen.Norm.Field26

set_option maxHeartbeats 8000000 in
/-- the ten limbs are the 26/25-bit digits of the little-endian value with bit 255 cleared -/
theorem from_bytes_fn_eq (x0 x1 x2 x3 x4 x5 x6 x7 x8 x9 x10 x11 x12 x13 x14 x15 x16 x17 x18 x19 x20 x21 x22 x23 x24 x25 x26 x27 x28 x29 x30 x31 : Int)
    (h0 : 0 ≤ x0 ∧ x0 ≤ 255) (h1 : 0 ≤ x1 ∧ x1 ≤ 255) (h2 : 0 ≤ x2 ∧ x2 ≤ 255) (h3 : 0 ≤ x3 ∧ x3 ≤ 255) (h4 : 0 ≤ x4 ∧ x4 ≤ 255) (h5 : 0 ≤ x5 ∧ x5 ≤ 255) (h6 : 0 ≤ x6 ∧ x6 ≤ 255) (h7 : 0 ≤ x7 ∧ x7 ≤ 255) (h8 : 0 ≤ x8 ∧ x8 ≤ 255) (h9 : 0 ≤ x9 ∧ x9 ≤ 255) (h10 : 0 ≤ x10 ∧ x10 ≤ 255) (h11 : 0 ≤ x11 ∧ x11 ≤ 255) (h12 : 0 ≤ x12 ∧ x12 ≤ 255) (h13 : 0 ≤ x13 ∧ x13 ≤ 255) (h14 : 0 ≤ x14 ∧ x14 ≤ 255) (h15 : 0 ≤ x15 ∧ x15 ≤ 255) (h16 : 0 ≤ x16 ∧ x16 ≤ 255) (h17 : 0 ≤ x17 ∧ x17 ≤ 255) (h18 : 0 ≤ x18 ∧ x18 ≤ 255) (h19 : 0 ≤ x19 ∧ x19 ≤ 255) (h20 : 0 ≤ x20 ∧ x20 ≤ 255) (h21 : 0 ≤ x21 ∧ x21 ≤ 255) (h22 : 0 ≤ x22 ∧ x22 ≤ 255) (h23 : 0 ≤ x23 ∧ x23 ≤ 255) (h24 : 0 ≤ x24 ∧ x24 ≤ 255) (h25 : 0 ≤ x25 ∧ x25 ≤ 255) (h26 : 0 ≤ x26 ∧ x26 ≤ 255) (h27 : 0 ≤ x27 ∧ x27 ≤ 255) (h28 : 0 ≤ x28 ∧ x28 ≤ 255) (h29 : 0 ≤ x29 ∧ x29 ≤ 255) (h30 : 0 ≤ x30 ∧ x30 ≤ 255) (h31 : 0 ≤ x31 ∧ x31 ≤ 255) :
    from_bytes_fn x0 x1 x2 x3 x4 x5 x6 x7 x8 x9 x10 x11 x12 x13 x14 x15 x16 x17 x18 x19 x20 x21 x22 x23 x24 x25 x26 x27 x28 x29 x30 x31
      = [leValZ [x0, x1, x2, x3, x4, x5, x6, x7, x8, x9, x10, x11, x12, x13, x14, x15, x16, x17, x18, x19, x20, x21, x22, x23, x24, x25, x26, x27, x28, x29, x30, x31] % 2 ^ 255 / 2 ^ 0 % 2 ^ 26,
         leValZ [x0, x1, x2, x3, x4, x5, x6, x7, x8, x9, x10, x11, x12, x13, x14, x15, x16, x17, x18, x19, x20, x21, x22, x23, x24, x25, x26, x27, x28, x29, x30, x31] % 2 ^ 255 / 2 ^ 26 % 2 ^ 25,
         leValZ [x0, x1, x2, x3, x4, x5, x6, x7, x8, x9, x10, x11, x12, x13, x14, x15, x16, x17, x18, x19, x20, x21, x22, x23, x24, x25, x26, x27, x28, x29, x30, x31] % 2 ^ 255 / 2 ^ 51 % 2 ^ 26,
         leValZ [x0, x1, x2, x3, x4, x5, x6, x7, x8, x9, x10, x11, x12, x13, x14, x15, x16, x17, x18, x19, x20, x21, x22, x23, x24, x25, x26, x27, x28, x29, x30, x31] % 2 ^ 255 / 2 ^ 77 % 2 ^ 25,
         leValZ [x0, x1, x2, x3, x4, x5, x6, x7, x8, x9, x10, x11, x12, x13, x14, x15, x16, x17, x18, x19, x20, x21, x22, x23, x24, x25, x26, x27, x28, x29, x30, x31] % 2 ^ 255 / 2 ^ 102 % 2 ^ 26,
         leValZ [x0, x1, x2, x3, x4, x5, x6, x7, x8, x9, x10, x11, x12, x13, x14, x15, x16, x17, x18, x19, x20, x21, x22, x23, x24, x25, x26, x27, x28, x29, x30, x31] % 2 ^ 255 / 2 ^ 128 % 2 ^ 25,
         leValZ [x0, x1, x2, x3, x4, x5, x6, x7, x8, x9, x10, x11, x12, x13, x14, x15, x16, x17, x18, x19, x20, x21, x22, x23, x24, x25, x26, x27, x28, x29, x30, x31] % 2 ^ 255 / 2 ^ 153 % 2 ^ 26,
         leValZ [x0, x1, x2, x3, x4, x5, x6, x7, x8, x9, x10, x11, x12, x13, x14, x15, x16, x17, x18, x19, x20, x21, x22, x23, x24, x25, x26, x27, x28, x29, x30, x31] % 2 ^ 255 / 2 ^ 179 % 2 ^ 25,
         leValZ [x0, x1, x2, x3, x4, x5, x6, x7, x8, x9, x10, x11, x12, x13, x14, x15, x16, x17, x18, x19, x20, x21, x22, x23, x24, x25, x26, x27, x28, x29, x30, x31] % 2 ^ 255 / 2 ^ 204 % 2 ^ 26,
         leValZ [x0, x1, x2, x3, x4, x5, x6, x7, x8, x9, x10, x11, x12, x13, x14, x15, x16, x17, x18, x19, x20, x21, x22, x23, x24, x25, x26, x27, x28, x29, x30, x31] % 2 ^ 255 / 2 ^ 230 % 2 ^ 25] := by
  unfold from_bytes_fn
  simp only [leValZ, List.cons.injEq, and_true]
  refine and_chain (by omega) (fun h0 => ?_)
  repeat' apply And.intro
  all_goals first
    | (clear h0; omega)
    | (rw [h0]; clear h0; omega)

theorem digits26 (N : Int) :
    (N / 2 ^ 0 % 2 ^ 26) + 2 ^ 26 * (N / 2 ^ 26 % 2 ^ 25) + 2 ^ 51 * (N / 2 ^ 51 % 2 ^ 26) + 2 ^ 77 * (N / 2 ^ 77 % 2 ^ 25) + 2 ^ 102 * (N / 2 ^ 102 % 2 ^ 26) + 2 ^ 128 * (N / 2 ^ 128 % 2 ^ 25) + 2 ^ 153 * (N / 2 ^ 153 % 2 ^ 26) + 2 ^ 179 * (N / 2 ^ 179 % 2 ^ 25) + 2 ^ 204 * (N / 2 ^ 204 % 2 ^ 26) + 2 ^ 230 * (N / 2 ^ 230 % 2 ^ 25) = N % 2 ^ 255 := by
  omega

theorem from_bytes_fn_val (x0 x1 x2 x3 x4 x5 x6 x7 x8 x9 x10 x11 x12 x13 x14 x15 x16 x17 x18 x19 x20 x21 x22 x23 x24 x25 x26 x27 x28 x29 x30 x31 : Int)
    (h0 : 0 ≤ x0 ∧ x0 ≤ 255) (h1 : 0 ≤ x1 ∧ x1 ≤ 255) (h2 : 0 ≤ x2 ∧ x2 ≤ 255) (h3 : 0 ≤ x3 ∧ x3 ≤ 255) (h4 : 0 ≤ x4 ∧ x4 ≤ 255) (h5 : 0 ≤ x5 ∧ x5 ≤ 255) (h6 : 0 ≤ x6 ∧ x6 ≤ 255) (h7 : 0 ≤ x7 ∧ x7 ≤ 255) (h8 : 0 ≤ x8 ∧ x8 ≤ 255) (h9 : 0 ≤ x9 ∧ x9 ≤ 255) (h10 : 0 ≤ x10 ∧ x10 ≤ 255) (h11 : 0 ≤ x11 ∧ x11 ≤ 255) (h12 : 0 ≤ x12 ∧ x12 ≤ 255) (h13 : 0 ≤ x13 ∧ x13 ≤ 255) (h14 : 0 ≤ x14 ∧ x14 ≤ 255) (h15 : 0 ≤ x15 ∧ x15 ≤ 255) (h16 : 0 ≤ x16 ∧ x16 ≤ 255) (h17 : 0 ≤ x17 ∧ x17 ≤ 255) (h18 : 0 ≤ x18 ∧ x18 ≤ 255) (h19 : 0 ≤ x19 ∧ x19 ≤ 255) (h20 : 0 ≤ x20 ∧ x20 ≤ 255) (h21 : 0 ≤ x21 ∧ x21 ≤ 255) (h22 : 0 ≤ x22 ∧ x22 ≤ 255) (h23 : 0 ≤ x23 ∧ x23 ≤ 255) (h24 : 0 ≤ x24 ∧ x24 ≤ 255) (h25 : 0 ≤ x25 ∧ x25 ≤ 255) (h26 : 0 ≤ x26 ∧ x26 ≤ 255) (h27 : 0 ≤ x27 ∧ x27 ≤ 255) (h28 : 0 ≤ x28 ∧ x28 ≤ 255) (h29 : 0 ≤ x29 ∧ x29 ≤ 255) (h30 : 0 ≤ x30 ∧ x30 ≤ 255) (h31 : 0 ≤ x31 ∧ x31 ≤ 255) :
    val26Z (from_bytes_fn x0 x1 x2 x3 x4 x5 x6 x7 x8 x9 x10 x11 x12 x13 x14 x15 x16 x17 x18 x19 x20 x21 x22 x23 x24 x25 x26 x27 x28 x29 x30 x31) = leValZ [x0, x1, x2, x3, x4, x5, x6, x7, x8, x9, x10, x11, x12, x13, x14, x15, x16, x17, x18, x19, x20, x21, x22, x23, x24, x25, x26, x27, x28, x29, x30, x31] % 2 ^ 255 := by
  rw [from_bytes_fn_eq x0 x1 x2 x3 x4 x5 x6 x7 x8 x9 x10 x11 x12 x13 x14 x15 x16 x17 x18 x19 x20 x21 x22 x23 x24 x25 x26 x27 x28 x29 x30 x31 h0 h1 h2 h3 h4 h5 h6 h7 h8 h9 h10 h11 h12 h13 h14 h15 h16 h17 h18 h19 h20 h21 h22 h23 h24 h25 h26 h27 h28 h29 h30 h31]
  simp only [val26Z, List.getD_cons_zero, List.getD_cons_succ]
  have h := digits26 (leValZ [x0, x1, x2, x3, x4, x5, x6, x7, x8, x9, x10, x11, x12, x13, x14, x15, x16, x17, x18, x19, x20, x21, x22, x23, x24, x25, x26, x27, x28, x29, x30, x31] % 2 ^ 255)
  rw [Int.emod_emod_of_dvd _ (dvd_refl _)] at h
  simpa only [pow_zero, Int.ediv_one] using h

/-! ### `as_bytes` -/

set_option maxHeartbeats 16000000 in
/-- the generated normal form and the hand model are the same integer function -/
theorem as_bytes_fn_eq_model (a0 a1 a2 a3 a4 a5 a6 a7 a8 a9 : Int) :
    as_bytes_fn a0 a1 a2 a3 a4 a5 a6 a7 a8 a9 = asBytesModel26 a0 a1 a2 a3 a4 a5 a6 a7 a8 a9 := by
  unfold as_bytes_fn asBytesModel26 pack26
  simp only [List.cons.injEq, and_true, pow_zero, Int.ediv_one]
  repeat' apply And.intro
  all_goals ring_nf

/-- weak reduction (`FieldElement2625::reduce`): limbs `< 2^26 + 2^10` / `< 2^25 + 2^10`, value changed by a multiple of `p` -/
theorem reduce26_abs (a0 a1 a2 a3 a4 a5 a6 a7 a8 a9 l0 l1 l2 l3 l4 l5 l6 l7 l8 l9 b1 b2 b3 b4 b5 b6 b7 b8 b9 c0 z0 z1 z4 z5 : Int)
    (ba0 : 0 ≤ a0 ∧ a0 < 2 ^ 28) (ba1 : 0 ≤ a1 ∧ a1 < 2 ^ 27) (ba2 : 0 ≤ a2 ∧ a2 < 2 ^ 28) (ba3 : 0 ≤ a3 ∧ a3 < 2 ^ 27) (ba4 : 0 ≤ a4 ∧ a4 < 2 ^ 28) (ba5 : 0 ≤ a5 ∧ a5 < 2 ^ 27) (ba6 : 0 ≤ a6 ∧ a6 < 2 ^ 28) (ba7 : 0 ≤ a7 ∧ a7 < 2 ^ 27) (ba8 : 0 ≤ a8 ∧ a8 < 2 ^ 28) (ba9 : 0 ≤ a9 ∧ a9 < 2 ^ 27)
    (e1 : b1 = a1 + a0 / 2 ^ 26) (ez0 : z0 = a0 % 2 ^ 26) (e5 : b5 = a5 + a4 / 2 ^ 26) (ez4 : z4 = a4 % 2 ^ 26)
    (e2 : b2 = a2 + b1 / 2 ^ 25) (ez1 : z1 = b1 % 2 ^ 25) (e6 : b6 = a6 + b5 / 2 ^ 25) (ez5 : z5 = b5 % 2 ^ 25)
    (e3 : b3 = a3 + b2 / 2 ^ 26) (el2 : l2 = b2 % 2 ^ 26) (e7 : b7 = a7 + b6 / 2 ^ 26) (el6 : l6 = b6 % 2 ^ 26)
    (e4 : b4 = z4 + b3 / 2 ^ 25) (el3 : l3 = b3 % 2 ^ 25) (e8 : b8 = a8 + b7 / 2 ^ 25) (el7 : l7 = b7 % 2 ^ 25)
    (el5 : l5 = z5 + b4 / 2 ^ 26) (el4 : l4 = b4 % 2 ^ 26) (e9 : b9 = a9 + b8 / 2 ^ 26) (el8 : l8 = b8 % 2 ^ 26)
    (ec0 : c0 = z0 + 19 * (b9 / 2 ^ 25)) (el9 : l9 = b9 % 2 ^ 25) (el1 : l1 = z1 + c0 / 2 ^ 26) (el0 : l0 = c0 % 2 ^ 26) :
    ((0 ≤ l0 ∧ l0 < 2 ^ 26 + 2 ^ 10) ∧ (0 ≤ l1 ∧ l1 < 2 ^ 25 + 2 ^ 10) ∧ (0 ≤ l2 ∧ l2 < 2 ^ 26 + 2 ^ 10) ∧ (0 ≤ l3 ∧ l3 < 2 ^ 25 + 2 ^ 10) ∧ (0 ≤ l4 ∧ l4 < 2 ^ 26 + 2 ^ 10) ∧ (0 ≤ l5 ∧ l5 < 2 ^ 25 + 2 ^ 10) ∧ (0 ≤ l6 ∧ l6 < 2 ^ 26 + 2 ^ 10) ∧ (0 ≤ l7 ∧ l7 < 2 ^ 25 + 2 ^ 10) ∧ (0 ≤ l8 ∧ l8 < 2 ^ 26 + 2 ^ 10) ∧ (0 ≤ l9 ∧ l9 < 2 ^ 25 + 2 ^ 10)) ∧
    l0 + 2 ^ 26 * l1 + 2 ^ 51 * l2 + 2 ^ 77 * l3 + 2 ^ 102 * l4 + 2 ^ 128 * l5 + 2 ^ 153 * l6 + 2 ^ 179 * l7 + 2 ^ 204 * l8 + 2 ^ 230 * l9
      = a0 + 2 ^ 26 * a1 + 2 ^ 51 * a2 + 2 ^ 77 * a3 + 2 ^ 102 * a4 + 2 ^ 128 * a5 + 2 ^ 153 * a6 + 2 ^ 179 * a7 + 2 ^ 204 * a8 + 2 ^ 230 * a9 - (2 ^ 255 - 19) * (b9 / 2 ^ 25) := by
  refine ⟨?_, ?_⟩
  · omega
  · omega

set_option maxHeartbeats 4000000 in
/-- canonical reduction of weakly reduced limbs -/
theorem canon26 (l0 l1 l2 l3 l4 l5 l6 l7 l8 l9 q0 q1 q2 q3 q4 q5 q6 q7 q8 q t0 t1 t2 t3 t4 t5 t6 t7 t8 t9 f0 f1 f2 f3 f4 f5 f6 f7 f8 f9 : Int)
    (b0 : 0 ≤ l0 ∧ l0 < 2 ^ 26 + 2 ^ 10) (b1 : 0 ≤ l1 ∧ l1 < 2 ^ 25 + 2 ^ 10) (b2 : 0 ≤ l2 ∧ l2 < 2 ^ 26 + 2 ^ 10) (b3 : 0 ≤ l3 ∧ l3 < 2 ^ 25 + 2 ^ 10) (b4 : 0 ≤ l4 ∧ l4 < 2 ^ 26 + 2 ^ 10) (b5 : 0 ≤ l5 ∧ l5 < 2 ^ 25 + 2 ^ 10) (b6 : 0 ≤ l6 ∧ l6 < 2 ^ 26 + 2 ^ 10) (b7 : 0 ≤ l7 ∧ l7 < 2 ^ 25 + 2 ^ 10) (b8 : 0 ≤ l8 ∧ l8 < 2 ^ 26 + 2 ^ 10) (b9 : 0 ≤ l9 ∧ l9 < 2 ^ 25 + 2 ^ 10)
    (eq0 : q0 = (l0 + 19) / 2 ^ 26) (eq1 : q1 = (l1 + q0) / 2 ^ 25) (eq2 : q2 = (l2 + q1) / 2 ^ 26) (eq3 : q3 = (l3 + q2) / 2 ^ 25) (eq4 : q4 = (l4 + q3) / 2 ^ 26) (eq5 : q5 = (l5 + q4) / 2 ^ 25) (eq6 : q6 = (l6 + q5) / 2 ^ 26) (eq7 : q7 = (l7 + q6) / 2 ^ 25) (eq8 : q8 = (l8 + q7) / 2 ^ 26) (eq9 : q = (l9 + q8) / 2 ^ 25)
    (et0 : t0 = l0 + 19 * q) (et1 : t1 = l1 + t0 / 2 ^ 26) (et2 : t2 = l2 + t1 / 2 ^ 25) (et3 : t3 = l3 + t2 / 2 ^ 26) (et4 : t4 = l4 + t3 / 2 ^ 25) (et5 : t5 = l5 + t4 / 2 ^ 26) (et6 : t6 = l6 + t5 / 2 ^ 25) (et7 : t7 = l7 + t6 / 2 ^ 26) (et8 : t8 = l8 + t7 / 2 ^ 25) (et9 : t9 = l9 + t8 / 2 ^ 26)
    (ef0 : f0 = t0 % 2 ^ 26) (ef1 : f1 = t1 % 2 ^ 25) (ef2 : f2 = t2 % 2 ^ 26) (ef3 : f3 = t3 % 2 ^ 25) (ef4 : f4 = t4 % 2 ^ 26) (ef5 : f5 = t5 % 2 ^ 25) (ef6 : f6 = t6 % 2 ^ 26) (ef7 : f7 = t7 % 2 ^ 25) (ef8 : f8 = t8 % 2 ^ 26) (ef9 : f9 = t9 % 2 ^ 25) :
    ((0 ≤ f0 ∧ f0 < 2 ^ 26) ∧ (0 ≤ f1 ∧ f1 < 2 ^ 25) ∧ (0 ≤ f2 ∧ f2 < 2 ^ 26) ∧ (0 ≤ f3 ∧ f3 < 2 ^ 25) ∧ (0 ≤ f4 ∧ f4 < 2 ^ 26) ∧ (0 ≤ f5 ∧ f5 < 2 ^ 25) ∧ (0 ≤ f6 ∧ f6 < 2 ^ 26) ∧ (0 ≤ f7 ∧ f7 < 2 ^ 25) ∧ (0 ≤ f8 ∧ f8 < 2 ^ 26) ∧ (0 ≤ f9 ∧ f9 < 2 ^ 25)) ∧ (0 ≤ q ∧ q ≤ 1) ∧
    f0 + 2 ^ 26 * f1 + 2 ^ 51 * f2 + 2 ^ 77 * f3 + 2 ^ 102 * f4 + 2 ^ 128 * f5 + 2 ^ 153 * f6 + 2 ^ 179 * f7 + 2 ^ 204 * f8 + 2 ^ 230 * f9
      = l0 + 2 ^ 26 * l1 + 2 ^ 51 * l2 + 2 ^ 77 * l3 + 2 ^ 102 * l4 + 2 ^ 128 * l5 + 2 ^ 153 * l6 + 2 ^ 179 * l7 + 2 ^ 204 * l8 + 2 ^ 230 * l9 - (2 ^ 255 - 19) * q ∧
    0 ≤ f0 + 2 ^ 26 * f1 + 2 ^ 51 * f2 + 2 ^ 77 * f3 + 2 ^ 102 * f4 + 2 ^ 128 * f5 + 2 ^ 153 * f6 + 2 ^ 179 * f7 + 2 ^ 204 * f8 + 2 ^ 230 * f9 ∧
    f0 + 2 ^ 26 * f1 + 2 ^ 51 * f2 + 2 ^ 77 * f3 + 2 ^ 102 * f4 + 2 ^ 128 * f5 + 2 ^ 153 * f6 + 2 ^ 179 * f7 + 2 ^ 204 * f8 + 2 ^ 230 * f9 < 2 ^ 255 - 19 := by
  have hq : 0 ≤ q0 ∧ q0 ≤ 1 ∧ 0 ≤ q1 ∧ q1 ≤ 1 ∧ 0 ≤ q2 ∧ q2 ≤ 1 ∧ 0 ≤ q3 ∧ q3 ≤ 1 ∧ 0 ≤ q4 ∧ q4 ≤ 1 ∧ 0 ≤ q5 ∧ q5 ≤ 1 ∧ 0 ≤ q6 ∧ q6 ≤ 1 ∧ 0 ≤ q7 ∧ q7 ≤ 1 ∧ 0 ≤ q8 ∧ q8 ≤ 1 ∧ 0 ≤ q ∧ q ≤ 1 := by omega
  have key : l0 + 2 ^ 26 * l1 + 2 ^ 51 * l2 + 2 ^ 77 * l3 + 2 ^ 102 * l4 + 2 ^ 128 * l5 + 2 ^ 153 * l6 + 2 ^ 179 * l7 + 2 ^ 204 * l8 + 2 ^ 230 * l9 + 19
      = 2 ^ 255 * q + ((l0 + 19) % 2 ^ 26 + 2 ^ 26 * ((l1 + q0) % 2 ^ 25) + 2 ^ 51 * ((l2 + q1) % 2 ^ 26) + 2 ^ 77 * ((l3 + q2) % 2 ^ 25) + 2 ^ 102 * ((l4 + q3) % 2 ^ 26) + 2 ^ 128 * ((l5 + q4) % 2 ^ 25) + 2 ^ 153 * ((l6 + q5) % 2 ^ 26) + 2 ^ 179 * ((l7 + q6) % 2 ^ 25) + 2 ^ 204 * ((l8 + q7) % 2 ^ 26) + 2 ^ 230 * ((l9 + q8) % 2 ^ 25)) := by omega
  have rb : 0 ≤ ((l0 + 19) % 2 ^ 26 + 2 ^ 26 * ((l1 + q0) % 2 ^ 25) + 2 ^ 51 * ((l2 + q1) % 2 ^ 26) + 2 ^ 77 * ((l3 + q2) % 2 ^ 25) + 2 ^ 102 * ((l4 + q3) % 2 ^ 26) + 2 ^ 128 * ((l5 + q4) % 2 ^ 25) + 2 ^ 153 * ((l6 + q5) % 2 ^ 26) + 2 ^ 179 * ((l7 + q6) % 2 ^ 25) + 2 ^ 204 * ((l8 + q7) % 2 ^ 26) + 2 ^ 230 * ((l9 + q8) % 2 ^ 25)) ∧
      ((l0 + 19) % 2 ^ 26 + 2 ^ 26 * ((l1 + q0) % 2 ^ 25) + 2 ^ 51 * ((l2 + q1) % 2 ^ 26) + 2 ^ 77 * ((l3 + q2) % 2 ^ 25) + 2 ^ 102 * ((l4 + q3) % 2 ^ 26) + 2 ^ 128 * ((l5 + q4) % 2 ^ 25) + 2 ^ 153 * ((l6 + q5) % 2 ^ 26) + 2 ^ 179 * ((l7 + q6) % 2 ^ 25) + 2 ^ 204 * ((l8 + q7) % 2 ^ 26) + 2 ^ 230 * ((l9 + q8) % 2 ^ 25)) < 2 ^ 255 := by omega
  have tel : f0 + 2 ^ 26 * f1 + 2 ^ 51 * f2 + 2 ^ 77 * f3 + 2 ^ 102 * f4 + 2 ^ 128 * f5 + 2 ^ 153 * f6 + 2 ^ 179 * f7 + 2 ^ 204 * f8 + 2 ^ 230 * f9 + 2 ^ 255 * (t9 / 2 ^ 25)
      = l0 + 2 ^ 26 * l1 + 2 ^ 51 * l2 + 2 ^ 77 * l3 + 2 ^ 102 * l4 + 2 ^ 128 * l5 + 2 ^ 153 * l6 + 2 ^ 179 * l7 + 2 ^ 204 * l8 + 2 ^ 230 * l9 + 19 * q := by omega
  have fb : (0 ≤ f0 ∧ f0 < 2 ^ 26) ∧ (0 ≤ f1 ∧ f1 < 2 ^ 25) ∧ (0 ≤ f2 ∧ f2 < 2 ^ 26) ∧ (0 ≤ f3 ∧ f3 < 2 ^ 25) ∧ (0 ≤ f4 ∧ f4 < 2 ^ 26) ∧ (0 ≤ f5 ∧ f5 < 2 ^ 25) ∧ (0 ≤ f6 ∧ f6 < 2 ^ 26) ∧ (0 ≤ f7 ∧ f7 < 2 ^ 25) ∧ (0 ≤ f8 ∧ f8 < 2 ^ 26) ∧ (0 ≤ f9 ∧ f9 < 2 ^ 25) := by omega
  have hb : l0 + 2 ^ 26 * l1 + 2 ^ 51 * l2 + 2 ^ 77 * l3 + 2 ^ 102 * l4 + 2 ^ 128 * l5 + 2 ^ 153 * l6 + 2 ^ 179 * l7 + 2 ^ 204 * l8 + 2 ^ 230 * l9 < 2 ^ 255 + 2 ^ 250 := by omega
  have Hb : 0 ≤ l0 + 2 ^ 26 * l1 + 2 ^ 51 * l2 + 2 ^ 77 * l3 + 2 ^ 102 * l4 + 2 ^ 128 * l5 + 2 ^ 153 * l6 + 2 ^ 179 * l7 + 2 ^ 204 * l8 + 2 ^ 230 * l9 := by omega
  have Fb : 0 ≤ f0 + 2 ^ 26 * f1 + 2 ^ 51 * f2 + 2 ^ 77 * f3 + 2 ^ 102 * f4 + 2 ^ 128 * f5 + 2 ^ 153 * f6 + 2 ^ 179 * f7 + 2 ^ 204 * f8 + 2 ^ 230 * f9 ∧
      f0 + 2 ^ 26 * f1 + 2 ^ 51 * f2 + 2 ^ 77 * f3 + 2 ^ 102 * f4 + 2 ^ 128 * f5 + 2 ^ 153 * f6 + 2 ^ 179 * f7 + 2 ^ 204 * f8 + 2 ^ 230 * f9 < 2 ^ 255 := by omega
  have fin := canon_abs _ _ _ _ _ key rb tel Fb ⟨Hb, hb⟩ hq.2.2.2.2.2.2.2.2.2.2.2.2.2.2.2.2.2.2
  exact ⟨fb, hq.2.2.2.2.2.2.2.2.2.2.2.2.2.2.2.2.2.2, fin.1, Fb.1, fin.2⟩

set_option maxHeartbeats 4000000 in
/-- packing: the little-endian value of the 32 bytes is the value of the ten limbs -/
theorem pack26_val (f0 f1 f2 f3 f4 f5 f6 f7 f8 f9 : Int)
    (b0 : 0 ≤ f0 ∧ f0 < 2 ^ 26) (b1 : 0 ≤ f1 ∧ f1 < 2 ^ 25) (b2 : 0 ≤ f2 ∧ f2 < 2 ^ 26) (b3 : 0 ≤ f3 ∧ f3 < 2 ^ 25) (b4 : 0 ≤ f4 ∧ f4 < 2 ^ 26) (b5 : 0 ≤ f5 ∧ f5 < 2 ^ 25) (b6 : 0 ≤ f6 ∧ f6 < 2 ^ 26) (b7 : 0 ≤ f7 ∧ f7 < 2 ^ 25) (b8 : 0 ≤ f8 ∧ f8 < 2 ^ 26) (b9 : 0 ≤ f9 ∧ f9 < 2 ^ 25) :
    leValZ (pack26 f0 f1 f2 f3 f4 f5 f6 f7 f8 f9) = f0 + 2 ^ 26 * f1 + 2 ^ 51 * f2 + 2 ^ 77 * f3 + 2 ^ 102 * f4 + 2 ^ 128 * f5 + 2 ^ 153 * f6 + 2 ^ 179 * f7 + 2 ^ 204 * f8 + 2 ^ 230 * f9 := by
  simp only [pack26, leValZ]
  omega

theorem pack26_bytes (f0 f1 f2 f3 f4 f5 f6 f7 f8 f9 : Int)
    (b0 : 0 ≤ f0 ∧ f0 < 2 ^ 26) (b1 : 0 ≤ f1 ∧ f1 < 2 ^ 25) (b2 : 0 ≤ f2 ∧ f2 < 2 ^ 26) (b3 : 0 ≤ f3 ∧ f3 < 2 ^ 25) (b4 : 0 ≤ f4 ∧ f4 < 2 ^ 26) (b5 : 0 ≤ f5 ∧ f5 < 2 ^ 25) (b6 : 0 ≤ f6 ∧ f6 < 2 ^ 26) (b7 : 0 ≤ f7 ∧ f7 < 2 ^ 25) (b8 : 0 ≤ f8 ∧ f8 < 2 ^ 26) (b9 : 0 ≤ f9 ∧ f9 < 2 ^ 25) :
    ∀ b ∈ pack26 f0 f1 f2 f3 f4 f5 f6 f7 f8 f9, 0 ≤ b ∧ b ≤ 255 := by
  intro b hb
  simp only [pack26, List.mem_cons, List.not_mem_nil, or_false] at hb
  rcases hb with rfl|rfl|rfl|rfl|rfl|rfl|rfl|rfl|rfl|rfl|rfl|rfl|rfl|rfl|rfl|rfl|rfl|rfl|rfl|rfl|rfl|rfl|rfl|rfl|rfl|rfl|rfl|rfl|rfl|rfl|rfl|rfl <;> omega

/-- **the hand model computes the canonical encoding**: for limbs inside the contract every output is a byte and the
little-endian value of the output is `(Σ a_i 2^⌈25.5 i⌉) mod p` -/
theorem asBytesModel26_val (a0 a1 a2 a3 a4 a5 a6 a7 a8 a9 : Int)
    (ha0 : 0 ≤ a0 ∧ a0 < 2 ^ 28) (ha1 : 0 ≤ a1 ∧ a1 < 2 ^ 27) (ha2 : 0 ≤ a2 ∧ a2 < 2 ^ 28) (ha3 : 0 ≤ a3 ∧ a3 < 2 ^ 27) (ha4 : 0 ≤ a4 ∧ a4 < 2 ^ 28) (ha5 : 0 ≤ a5 ∧ a5 < 2 ^ 27) (ha6 : 0 ≤ a6 ∧ a6 < 2 ^ 28) (ha7 : 0 ≤ a7 ∧ a7 < 2 ^ 27) (ha8 : 0 ≤ a8 ∧ a8 < 2 ^ 28) (ha9 : 0 ≤ a9 ∧ a9 < 2 ^ 27) :
    (∀ b ∈ asBytesModel26 a0 a1 a2 a3 a4 a5 a6 a7 a8 a9, 0 ≤ b ∧ b ≤ 255) ∧
    leValZ (asBytesModel26 a0 a1 a2 a3 a4 a5 a6 a7 a8 a9) = val26Z [a0, a1, a2, a3, a4, a5, a6, a7, a8, a9] % (2 ^ 255 - 19) := by
  unfold asBytesModel26
  extract_lets b1 z0 b5 z4 b2 z1 b6 z5 b3 l2 b7 l6 b4 l3 b8 l7 l5 l4 b9 l8 c0 l9 l1 l0 q0 q1 q2 q3 q4 q5 q6 q7 q8 q t0 t1 t2 t3 t4 t5 t6 t7 t8 t9 f0 f1 f2 f3 f4 f5 f6 f7 f8 f9
  obtain ⟨⟨bl0, bl1, bl2, bl3, bl4, bl5, bl6, bl7, bl8, bl9⟩, hH⟩ :=
    reduce26_abs a0 a1 a2 a3 a4 a5 a6 a7 a8 a9 l0 l1 l2 l3 l4 l5 l6 l7 l8 l9 b1 b2 b3 b4 b5 b6 b7 b8 b9 c0 z0 z1 z4 z5
      ha0 ha1 ha2 ha3 ha4 ha5 ha6 ha7 ha8 ha9 rfl rfl rfl rfl rfl rfl rfl rfl rfl rfl rfl rfl rfl rfl rfl rfl rfl rfl rfl rfl rfl rfl rfl rfl
  obtain ⟨⟨bf0, bf1, bf2, bf3, bf4, bf5, bf6, bf7, bf8, bf9⟩, hq, hF, hF0, hFp⟩ :=
    canon26 l0 l1 l2 l3 l4 l5 l6 l7 l8 l9 q0 q1 q2 q3 q4 q5 q6 q7 q8 q t0 t1 t2 t3 t4 t5 t6 t7 t8 t9 f0 f1 f2 f3 f4 f5 f6 f7 f8 f9 bl0 bl1 bl2 bl3 bl4 bl5 bl6 bl7 bl8 bl9
      rfl rfl rfl rfl rfl rfl rfl rfl rfl rfl rfl rfl rfl rfl rfl rfl rfl rfl rfl rfl rfl rfl rfl rfl rfl rfl rfl rfl rfl rfl
  refine ⟨pack26_bytes f0 f1 f2 f3 f4 f5 f6 f7 f8 f9 bf0 bf1 bf2 bf3 bf4 bf5 bf6 bf7 bf8 bf9, ?_⟩
  rw [pack26_val f0 f1 f2 f3 f4 f5 f6 f7 f8 f9 bf0 bf1 bf2 bf3 bf4 bf5 bf6 bf7 bf8 bf9]
  simp only [val26Z, List.getD_cons_zero, List.getD_cons_succ]
  exact mod_abs _ _ (b9 / 2 ^ 25 + q) (by rw [hF, hH]; ring) ⟨hF0, hFp⟩

/-- the same for the generated normal form -/
theorem as_bytes_fn_val (a0 a1 a2 a3 a4 a5 a6 a7 a8 a9 : Int)
    (ha0 : 0 ≤ a0 ∧ a0 < 2 ^ 28) (ha1 : 0 ≤ a1 ∧ a1 < 2 ^ 27) (ha2 : 0 ≤ a2 ∧ a2 < 2 ^ 28) (ha3 : 0 ≤ a3 ∧ a3 < 2 ^ 27) (ha4 : 0 ≤ a4 ∧ a4 < 2 ^ 28) (ha5 : 0 ≤ a5 ∧ a5 < 2 ^ 27) (ha6 : 0 ≤ a6 ∧ a6 < 2 ^ 28) (ha7 : 0 ≤ a7 ∧ a7 < 2 ^ 27) (ha8 : 0 ≤ a8 ∧ a8 < 2 ^ 28) (ha9 : 0 ≤ a9 ∧ a9 < 2 ^ 27) :
    leValZ (as_bytes_fn a0 a1 a2 a3 a4 a5 a6 a7 a8 a9) = val26Z [a0, a1, a2, a3, a4, a5, a6, a7, a8, a9] % (2 ^ 255 - 19) := by
  rw [as_bytes_fn_eq_model]
  exact (asBytesModel26_val a0 a1 a2 a3 a4 a5 a6 a7 a8 a9 ha0 ha1 ha2 ha3 ha4 ha5 ha6 ha7 ha8 ha9).2

end Dalek.Proofs.Bytes26

/-
The hand model of `MontgomeryPoint::mul_bits_be` over the translated step (`Dalek.Model.Ladder.mulBitsBE natOps`)
is the RFC 7748 ladder `Spec.ladderBitsBE`: the loop states coincide COMPONENT-WISE
(`x0 = (x2:z2)`, `x1 = (x3:z3)`, `prev_bit = swap`) after every iteration.
-/
import Dalek.Proofs.MontField

namespace Dalek.Proofs.Mont
open Dalek.IR Dalek.Spec Dalek.Model Dalek.Bridge Dalek.Model.Ladder

/-- dalek's loop state read as an RFC 7748 ladder state -/
def toL (s : LState Nat) : Spec.Ladder := ⟨s.x0.U, s.x0.W, s.x1.U, s.x1.W, s.prev⟩

theorem choiceOf_nat (b : Bool) : choiceOf natOps b = if b then 1 else 0 := by
  unfold choiceOf; rw [const_0, const_1]

theorem condSelect_nat (a b : PPt Nat) (c : Bool) :
    condSelect natOps a b (choiceOf natOps c) = if c then b else a := by
  unfold condSelect
  rw [cond_select_nat, choiceOf_nat]
  cases c <;> simp

theorem condSwap_nat (a b : PPt Nat) (c : Bool) :
    condSwap natOps a b (choiceOf natOps c) = if c then (b, a) else (a, b) := by
  unfold condSwap
  simp only [condSelect_nat]
  cases c <;> simp

theorem diffAddDouble_nat (p q : PPt Nat) (x1 : Nat) :
    diffAddDouble natOps p q x1 =
      (let r := ladderStep x1 ⟨p.U, p.W, q.U, q.W, false⟩ false
       (⟨r.x2, r.z2⟩, ⟨r.x3, r.z3⟩)) := by
  unfold diffAddDouble
  rw [dadd_nat]
  simp [ladderStep, cswap]

theorem step_nat (u : Nat) (s : LState Nat) (kt : Bool) :
    toL (step natOps u s kt) = ladderStep u (toL s) kt := by
  obtain ⟨⟨x2, z2⟩, ⟨x3, z3⟩, sw⟩ := s
  unfold step
  rw [condSwap_nat]
  cases h : (sw != kt) <;>
    simp [diffAddDouble_nat, toL, ladderStep, cswap, h]

theorem foldl_nat (u : Nat) (bits : List Bool) (s : LState Nat) :
    toL (bits.foldl (step natOps u) s) = bits.foldl (ladderStep u) (toL s) := by
  induction bits generalizing s with
  | nil => rfl
  | cons b bs ih => simp only [List.foldl_cons]; rw [ih, step_nat]

/-- **`mul_bits_be` for arbitrary bit lists is the RFC 7748 ladder** (field level, `u` canonical as produced
by `from_bytes`). -/
theorem mulBitsBE_nat (u : Nat) (hu : u < P) (bits : List Bool) :
    mulBitsBE natOps u bits = ladderBitsBE u bits := by
  unfold mulBitsBE ladderBitsBE
  have h0 : toL ⟨identity natOps, ⟨u, natOps.const 1⟩, false⟩ =
      { x2 := 1, z2 := 0, x3 := u % P, z3 := 1, swap := false } := by
    simp [toL, identity, identity_nat, const_1, Nat.mod_eq_of_lt hu]
  have h := foldl_nat u bits ⟨identity natOps, ⟨u, natOps.const 1⟩, false⟩
  rw [h0] at h
  rw [Nat.mod_eq_of_lt hu] at h ⊢
  generalize bits.foldl (step natOps u) ⟨identity natOps, ⟨u, natOps.const 1⟩, false⟩ = s at h
  simp only []
  rw [← h]
  obtain ⟨⟨x2, z2⟩, ⟨x3, z3⟩, sw⟩ := s
  rw [condSwap_nat]
  cases sw <;> simp [toL, cswap, asAffine, as_affine_nat]

end Dalek.Proofs.Mont

import Dalek.Props.C12.Consts
import Dalek.Props.C17.Consts
import Dalek.Proofs.Bridge.Scalar
import Dalek.Proofs.Bridge.FastEdwards
import Dalek.Proofs.Bridge.Order
/-!
# Lifting the C12 checker results to `ZMod p` and to the group of the curve

`Dalek/Props/C12/Consts.lean` proves `check… = true` for executable checkers over `Nat`.  Here the most
important of them are given their mathematical meaning:

* field constants as elements of `Fp = ZMod (2^255-19)`;
* soundness of the table checkers (`basepointTable_sound`, `oddTable_sound`, `cachedTable_sound`), for ANY
  table literal, in terms of scalar multiples `n • Bpt` in the commutative group `Ed = EdPoint edParams`
  (`Bpt` = the Ed25519 basepoint, of order `l`: `Dalek.Bridge.addOrderOf_Bpt`);
* their instances for the eight shipped tables.

The chain "entry `j+1` from entry `j` by one addition, row `i+1` from row `i` by eight doublings" of the
checker is justified by `erep_add`, `erep_mulByPow2` (the extended-coordinate formulas compute the group law).
-/
namespace Dalek.Proofs.ConstLift
open Dalek.Spec Dalek.Model Dalek.Model.ConstCheck Dalek.Bridge Dalek.FieldFacts
open Dalek.Gen.Consts

/-! ## Field constants in `Fp` -/

theorem cast_P_sub_one : ((P - 1 : Nat) : Fp) = -1 := natCast_pred_eq_neg_one (m := P) (by norm_num)

/-- `SQRT_M1² = -1` in the field (u64 literal) -/
theorem SQRT_M1_u64_sq : ((val51 U64.SQRT_M1 : Nat) : Fp) ^ 2 = -1 := by
  have h := congrArg (Nat.cast : Nat → Fp) Dalek.Props.C12.SQRT_M1_u64_sq
  rw [cast_mod_P, Nat.cast_mul, cast_P_sub_one] at h
  rw [sq, h]

/-- `SQRT_M1² = -1` in the field (u32 literal) -/
theorem SQRT_M1_u32_sq : ((val26 U32.SQRT_M1 : Nat) : Fp) ^ 2 = -1 := by
  have h := congrArg (Nat.cast : Nat → Fp) Dalek.Props.C12.SQRT_M1_u32_sq
  rw [cast_mod_P, Nat.cast_mul, cast_P_sub_one] at h
  rw [sq, h]

/-- the u64 / u32 literals `EDWARDS_D` denote the curve parameter `d` of `edParams` -/
theorem EDWARDS_D_u64_eq : ((val51 U64.EDWARDS_D : Nat) : Fp) = d := by
  have h : val51 U64.EDWARDS_D = D := by decide +kernel
  rw [h, cast_D]

theorem EDWARDS_D_u32_eq : ((val26 U32.EDWARDS_D : Nat) : Fp) = d := by
  have h : val26 U32.EDWARDS_D = D := by decide +kernel
  rw [h, cast_D]

/-- `d · 121666 = -121665` for the u64 literal, in the field -/
theorem EDWARDS_D_u64_mul : ((val51 U64.EDWARDS_D : Nat) : Fp) * 121666 = -121665 := by
  rw [EDWARDS_D_u64_eq]; exact d_mul

/-- `EDWARDS_D2 = 2d` -/
theorem EDWARDS_D2_u64_eq : ((val51 U64.EDWARDS_D2 : Nat) : Fp) = 2 * d := by
  have h : val51 U64.EDWARDS_D2 = EPt.D2 := by decide +kernel
  rw [h, cast_D2]

theorem EDWARDS_D2_u32_eq : ((val26 U32.EDWARDS_D2 : Nat) : Fp) = 2 * d := by
  have h : val26 U32.EDWARDS_D2 = EPt.D2 := by decide +kernel
  rw [h, cast_D2]

/-! ## The basepoint literal -/

/-- `ED25519_BASEPOINT_POINT` (u64) is an extended-coordinates representation of `Bpt` -/
theorem basepoint_u64_rep : ERep (decodePt val51 U64.ED25519_BASEPOINT_POINT) Bpt := by
  have h : decodePt val51 U64.ED25519_BASEPOINT_POINT = EPt.basepoint := by
    have hX : (decodePt val51 U64.ED25519_BASEPOINT_POINT).X = EPt.basepoint.X := by decide +kernel
    have hY : (decodePt val51 U64.ED25519_BASEPOINT_POINT).Y = EPt.basepoint.Y := by decide +kernel
    have hZ : (decodePt val51 U64.ED25519_BASEPOINT_POINT).Z = EPt.basepoint.Z := by decide +kernel
    have hT : (decodePt val51 U64.ED25519_BASEPOINT_POINT).T = EPt.basepoint.T := by decide +kernel
    cases h1 : decodePt val51 U64.ED25519_BASEPOINT_POINT
    cases h2 : EPt.basepoint
    rw [h1, h2] at hX hY hZ hT
    simp only at hX hY hZ hT
    subst hX hY hZ hT
    rfl
  rw [h]; exact erep_basepoint

/-- `ED25519_BASEPOINT_POINT` (u32) is an extended-coordinates representation of `Bpt` -/
theorem basepoint_u32_rep : ERep (decodePt val26 U32.ED25519_BASEPOINT_POINT) Bpt := by
  have h : decodePt val26 U32.ED25519_BASEPOINT_POINT = EPt.basepoint := by
    have hX : (decodePt val26 U32.ED25519_BASEPOINT_POINT).X = EPt.basepoint.X := by decide +kernel
    have hY : (decodePt val26 U32.ED25519_BASEPOINT_POINT).Y = EPt.basepoint.Y := by decide +kernel
    have hZ : (decodePt val26 U32.ED25519_BASEPOINT_POINT).Z = EPt.basepoint.Z := by decide +kernel
    have hT : (decodePt val26 U32.ED25519_BASEPOINT_POINT).T = EPt.basepoint.T := by decide +kernel
    cases h1 : decodePt val26 U32.ED25519_BASEPOINT_POINT
    cases h2 : EPt.basepoint
    rw [h1, h2] at hX hY hZ hT
    simp only at hX hY hZ hT
    subst hX hY hZ hT
    rfl
  rw [h]; exact erep_basepoint

/-! ## Affine Niels tables -/

/-- the literal `e = [y_plus_x, y_minus_x, xy2d]` denotes (via `val`) the affine Niels form
`(y + x, y - x, 2 d x y)` of the curve point `Q` -/
def NielsRep (val : List Nat → Nat) (e : List (List Nat)) (Q : Ed) : Prop :=
  ∃ ypx ymx xy2d, e = [ypx, ymx, xy2d] ∧
    ((val ypx : Nat) : Fp) = Q.y + Q.x ∧
    ((val ymx : Nat) : Fp) = Q.y - Q.x ∧
    ((val xy2d : Nat) : Fp) = 2 * d * Q.x * Q.y

theorem nielsOk_sound {val : List Nat → Nat} {e : List (List Nat)} {p : EPt} {Q : Ed}
    (hp : ERep p Q) (h : nielsOk val e p = true) : NielsRep val e Q := by
  unfold nielsOk at h
  split at h
  · rename_i ypx ymx xy2d
    simp only [Bool.and_eq_true, beq_iff_eq] at h
    obtain ⟨⟨⟨-, h1⟩, h2⟩, h3⟩ := h
    obtain ⟨hZ, hx, hy, hT⟩ := hp
    have c1 := congrArg (Nat.cast : Nat → Fp) h1
    have c2 := congrArg (Nat.cast : Nat → Fp) h2
    have c3 := congrArg (Nat.cast : Nat → Fp) h3
    rw [cast_fmul, cast_fadd] at c1
    rw [cast_fmul, cast_fsub] at c2
    rw [cast_fmul, cast_fmul, cast_D2] at c3
    refine ⟨ypx, ymx, xy2d, rfl, ?_, ?_, ?_⟩
    · rw [hx, hy, ← add_div, eq_div_iff hZ]; exact c1
    · rw [hx, hy, ← sub_div, eq_div_iff hZ]; exact c2
    · rw [hx, hy]
      field_simp
      linear_combination (p.Z : Fp) * c3 - 2 * d * hT
  · exact absurd h (by simp)

theorem rowFails_sound {val : List Nat → Nat} {i : Nat} {base : EPt} {Qb : Ed} (hb : ERep base Qb) :
    ∀ (es : List (List (List Nat))) (j : Nat) (cur : EPt), ERep cur ((j + 1) • Qb) →
      rowFails (nielsOk val) i base es j cur = [] →
      ∀ (k : Nat) (e : List (List Nat)), es[k]? = some e → NielsRep val e ((j + k + 1) • Qb)
  | [], _, _, _, _, k, e, hk => by simp at hk
  | e0 :: es, j, cur, hc, h, k, e, hk => by
    simp only [rowFails] at h
    split at h
    · rename_i hok
      cases k with
      | zero =>
        simp only [List.getElem?_cons_zero, Option.some.injEq] at hk
        subst hk
        simpa using nielsOk_sound hc hok
      | succ k =>
        simp only [List.getElem?_cons_succ] at hk
        have hc' : ERep (cur.add base) ((j + 1 + 1) • Qb) := by
          have := erep_add hc hb
          rwa [← succ_nsmul] at this
        have := rowFails_sound hb es (j + 1) (cur.add base) hc' h k e hk
        have e1 : j + 1 + k + 1 = j + (k + 1) + 1 := by omega
        rwa [e1] at this
    · exact absurd h (by simp)

theorem tableFails_sound {val : List Nat → Nat} :
    ∀ (rs : List (List (List (List Nat)))) (i : Nat) (base : EPt), ERep base (256 ^ i • Bpt) →
      tableFails (nielsOk val) rs i base = [] →
      ∀ (a : Nat) (r : List (List (List Nat))), rs[a]? = some r →
      ∀ (k : Nat) (e : List (List Nat)), r[k]? = some e →
        NielsRep val e ((k + 1) • 256 ^ (i + a) • Bpt)
  | [], _, _, _, _, a, r, ha => by simp at ha
  | r0 :: rs, i, base, hb, h, a, r, ha => by
    simp only [tableFails, List.append_eq_nil_iff] at h
    obtain ⟨hrow, hrest⟩ := h
    cases a with
    | zero =>
      simp only [List.getElem?_cons_zero, Option.some.injEq] at ha
      subst ha
      intro k e hk
      have := rowFails_sound hb r0 0 base (by simpa using hb) hrow k e hk
      simpa using this
    | succ a =>
      simp only [List.getElem?_cons_succ] at ha
      have hb' : ERep (EPt.mulByPow2 8 base) (256 ^ (i + 1) • Bpt) := by
        have := erep_mulByPow2 hb 8
        have e1 : (2 ^ 8 : Nat) • 256 ^ i • Bpt = 256 ^ (i + 1) • Bpt := by
          rw [← mul_nsmul, show 256 ^ i * 2 ^ 8 = 256 ^ (i + 1) by ring]
        rwa [e1] at this
      intro k e hk
      have := tableFails_sound rs (i + 1) (EPt.mulByPow2 8 base) hb' hrest a r ha k e hk
      have e2 : i + 1 + a = i + (a + 1) := by omega
      rwa [e2] at this

theorem getD_getD_eq {α} [Inhabited α] (t : List (List α)) (i j : Nat) (r : List α) (e : α)
    (hr : t[i]? = some r) (he : r[j]? = some e) (dflt : α) : (t.getD i []).getD j dflt = e := by
  simp [List.getD, hr, he]

/-- **Soundness of `checkBasepointTable`**: if the check succeeds for a table literal `t`, then for every
`i < 32`, `j < 8` the entry `t[i][j]` is the affine Niels form of `((j+1)·256^i) • Bpt`. -/
theorem basepointTable_sound {val : List Nat → Nat} {t : List (List (List (List Nat)))}
    (h : checkBasepointTable val t = true) (i j : Nat) (hi : i < 32) (hj : j < 8) :
    NielsRep val ((t.getD i []).getD j []) (((j + 1) * 256 ^ i) • Bpt) := by
  simp only [checkBasepointTable, Bool.and_eq_true, beq_iff_eq, List.all_eq_true,
    List.isEmpty_iff] at h
  obtain ⟨⟨hlen, hrows⟩, hf⟩ := h
  have hi' : i < t.length := by omega
  have hr : t[i]? = some t[i] := List.getElem?_eq_getElem hi'
  have hrl : t[i].length = 8 := hrows _ (List.getElem_mem hi')
  have hj' : j < t[i].length := by omega
  have he : t[i][j]? = some t[i][j] := List.getElem?_eq_getElem hj'
  have hb0 : ERep EPt.basepoint (256 ^ 0 • Bpt) := by simpa using erep_basepoint
  have := tableFails_sound t 0 EPt.basepoint hb0 hf i _ hr j _ he
  rw [getD_getD_eq t i j _ _ hr he]
  have e1 : (j + 1) • 256 ^ (0 + i) • Bpt = ((j + 1) * 256 ^ i) • Bpt := by
    rw [Nat.zero_add, ← mul_nsmul, Nat.mul_comm]
  rwa [e1] at this

/-! ## Odd-multiples tables (serial and vector) -/

theorem oddFails_sound {α} {ok : α → EPt → Bool} {R : α → Ed → Prop}
    (hok : ∀ e p Q, ERep p Q → ok e p = true → R e Q)
    {twoB : EPt} {Q1 Q2 : Ed} (h2 : ERep twoB Q2) :
    ∀ (es : List α) (i : Nat) (cur : EPt), ERep cur (Q1 + i • Q2) →
      oddFails ok twoB es i cur = [] →
      ∀ (k : Nat) (e : α), es[k]? = some e → R e (Q1 + (i + k) • Q2)
  | [], _, _, _, _, k, e, hk => by simp at hk
  | e0 :: es, i, cur, hc, h, k, e, hk => by
    simp only [oddFails] at h
    split at h
    · rename_i hok0
      cases k with
      | zero =>
        simp only [List.getElem?_cons_zero, Option.some.injEq] at hk
        subst hk
        simpa using hok _ _ _ hc hok0
      | succ k =>
        simp only [List.getElem?_cons_succ] at hk
        have hc' : ERep (cur.add twoB) (Q1 + (i + 1) • Q2) := by
          have := erep_add hc h2
          rwa [add_assoc, ← succ_nsmul] at this
        have := oddFails_sound hok h2 es (i + 1) (cur.add twoB) hc' h k e hk
        have e1 : i + 1 + k = i + (k + 1) := by omega
        rwa [e1] at this
    · exact absurd h (by simp)

theorem odd_nsmul (k : Nat) : Bpt + (0 + k) • (2 • Bpt) = (2 * k + 1) • Bpt := by
  rw [Nat.zero_add, ← mul_nsmul, add_comm, succ_nsmul, Nat.mul_comm]

/-- **Soundness of `checkOddTable`**: entry `i < 64` is the affine Niels form of `(2i+1) • Bpt`. -/
theorem oddTable_sound {val : List Nat → Nat} {t : List (List (List Nat))}
    (h : checkOddTable val t = true) (i : Nat) (hi : i < 64) :
    NielsRep val (t.getD i []) ((2 * i + 1) • Bpt) := by
  simp only [checkOddTable, Bool.and_eq_true, beq_iff_eq, List.isEmpty_iff] at h
  obtain ⟨hlen, hf⟩ := h
  have hi' : i < t.length := by omega
  have hr : t[i]? = some t[i] := List.getElem?_eq_getElem hi'
  have h2 : ERep (EPt.double EPt.basepoint) (2 • Bpt) := erep_double' erep_basepoint
  have hc : ERep EPt.basepoint (Bpt + 0 • (2 • Bpt)) := by simpa using erep_basepoint
  have := oddFails_sound (R := NielsRep val) (fun e p Q hp hk => nielsOk_sound hp hk) h2
    t 0 EPt.basepoint hc hf i _ hr
  rw [odd_nsmul] at this
  have e1 : t.getD i [] = t[i] := by simp [List.getD, hr]
  rwa [e1]

/-- the four lanes of the vector literal `e` are a `CachedPoint` of `Q`:
`(A, B, C, D) = c · (y - x, y + x, 2, 2 d x y)` for some `c ≠ 0` -/
def CachedRep (lane : List (List Nat) → Nat → Nat) (e : List (List Nat)) (Q : Ed) : Prop :=
  ∃ c : Fp, c ≠ 0 ∧
    ((lane e 0 : Nat) : Fp) = c * (Q.y - Q.x) ∧
    ((lane e 1 : Nat) : Fp) = c * (Q.y + Q.x) ∧
    ((lane e 2 : Nat) : Fp) = c * 2 ∧
    ((lane e 3 : Nat) : Fp) = c * (2 * d * Q.x * Q.y)

theorem cachedOk_sound {lane : List (List Nat) → Nat → Nat} {e : List (List Nat)} {p : EPt} {Q : Ed}
    (hp : ERep p Q) (h : cachedOk lane e p = true) : CachedRep lane e Q := by
  simp only [cachedOk, cachedOf, List.map, proj4Eq, Bool.and_eq_true, beq_iff_eq, bne_iff_ne,
    ne_eq] at h
  obtain ⟨⟨⟨⟨⟨⟨⟨ha2, -⟩, -⟩, h02⟩, -⟩, h12⟩, -⟩, h23⟩ := h
  obtain ⟨hZ, hx, hy, hT⟩ := hp
  have two_ne : (2 : Fp) ≠ 0 := two_ne_zero_p
  have c02 := congrArg (Nat.cast : Nat → Fp) h02
  have c12 := congrArg (Nat.cast : Nat → Fp) h12
  have c23 := congrArg (Nat.cast : Nat → Fp) h23
  simp only [cast_fmul, cast_fadd, cast_fsub, cast_mod_P, cast_D2] at c02 c12 c23
  have hc : ((lane e 2 : Nat) : Fp) ≠ 0 := by
    intro h0
    apply ha2
    rw [Nat.mod_mod]
    exact (cast_eq_zero_iff _).1 h0
  have hX : (p.X : Fp) = Q.x * (p.Z : Fp) := by rw [hx, div_mul_cancel₀ _ hZ]
  have hY : (p.Y : Fp) = Q.y * (p.Z : Fp) := by rw [hy, div_mul_cancel₀ _ hZ]
  have hT' : (p.T : Fp) = Q.x * Q.y * (p.Z : Fp) := by
    have : (p.Z : Fp) * (p.T : Fp) = (p.Z : Fp) * (Q.x * Q.y * (p.Z : Fp)) := by
      rw [← hT, hX, hY]; ring
    exact mul_left_cancel₀ hZ this
  have half : ∀ {a b : Fp}, 2 * a = b → a = b / 2 := by
    intro a b h; rw [← h, mul_div_cancel_left₀ _ two_ne]
  refine ⟨((lane e 2 : Nat) : Fp) / 2, div_ne_zero hc two_ne, ?_, ?_, ?_, ?_⟩
  · have h : 2 * ((lane e 0 : Nat) : Fp) = ((lane e 2 : Nat) : Fp) * (Q.y - Q.x) := by
      apply mul_right_cancel₀ hZ
      rw [hX, hY] at c02
      linear_combination c02
    rw [half h]; ring
  · have h : 2 * ((lane e 1 : Nat) : Fp) = ((lane e 2 : Nat) : Fp) * (Q.y + Q.x) := by
      apply mul_right_cancel₀ hZ
      rw [hX, hY] at c12
      linear_combination c12
    rw [half h]; ring
  · rw [div_mul_cancel₀ _ two_ne]
  · have h : 2 * ((lane e 3 : Nat) : Fp) = ((lane e 2 : Nat) : Fp) * (2 * d * Q.x * Q.y) := by
      apply mul_right_cancel₀ hZ
      rw [hT'] at c23
      linear_combination -c23
    rw [half h]; ring

/-- **Soundness of `checkCachedTable`**: entry `i < 64` of a vector table is a `CachedPoint` of
`(2i+1) • Bpt`. -/
theorem cachedTable_sound {lane : List (List Nat) → Nat → Nat} {t : List (List (List Nat))}
    (h : checkCachedTable lane t = true) (i : Nat) (hi : i < 64) :
    CachedRep lane (t.getD i []) ((2 * i + 1) • Bpt) := by
  simp only [checkCachedTable, Bool.and_eq_true, beq_iff_eq, List.isEmpty_iff] at h
  obtain ⟨hlen, hf⟩ := h
  have hi' : i < t.length := by omega
  have hr : t[i]? = some t[i] := List.getElem?_eq_getElem hi'
  have h2 : ERep (EPt.double EPt.basepoint) (2 • Bpt) := erep_double' erep_basepoint
  have hc : ERep EPt.basepoint (Bpt + 0 • (2 • Bpt)) := by simpa using erep_basepoint
  have := oddFails_sound (R := CachedRep lane) (fun e p Q hp hk => cachedOk_sound hp hk) h2
    t 0 EPt.basepoint hc hf i _ hr
  rw [odd_nsmul] at this
  have e1 : t.getD i [] = t[i] := by simp [List.getD, hr]
  rwa [e1]

/-! ## The shipped tables -/

/-- u64 `ED25519_BASEPOINT_TABLE[i][j]` is the affine Niels form of `((j+1)·256^i) • B` in the group `Ed` -/
theorem ED25519_BASEPOINT_TABLE_u64 (i j : Nat) (hi : i < 32) (hj : j < 8) :
    NielsRep val51 ((U64.ED25519_BASEPOINT_TABLE.getD i []).getD j []) (((j + 1) * 256 ^ i) • Bpt) :=
  basepointTable_sound Dalek.Props.C12.ED25519_BASEPOINT_TABLE_u64_ok i j hi hj

/-- u32 `ED25519_BASEPOINT_TABLE[i][j]` is the affine Niels form of `((j+1)·256^i) • B` -/
theorem ED25519_BASEPOINT_TABLE_u32 (i j : Nat) (hi : i < 32) (hj : j < 8) :
    NielsRep val26 ((U32.ED25519_BASEPOINT_TABLE.getD i []).getD j []) (((j + 1) * 256 ^ i) • Bpt) :=
  basepointTable_sound Dalek.Props.C12.ED25519_BASEPOINT_TABLE_u32_ok i j hi hj

/-- u64 `AFFINE_ODD_MULTIPLES_OF_BASEPOINT[i]` is the affine Niels form of `(2i+1) • B` -/
theorem AFFINE_ODD_MULTIPLES_OF_BASEPOINT_u64 (i : Nat) (hi : i < 64) :
    NielsRep val51 (U64.AFFINE_ODD_MULTIPLES_OF_BASEPOINT.getD i []) ((2 * i + 1) • Bpt) :=
  oddTable_sound Dalek.Props.C12.AFFINE_ODD_MULTIPLES_OF_BASEPOINT_u64_ok i hi

/-- u32 `AFFINE_ODD_MULTIPLES_OF_BASEPOINT[i]` is the affine Niels form of `(2i+1) • B` -/
theorem AFFINE_ODD_MULTIPLES_OF_BASEPOINT_u32 (i : Nat) (hi : i < 64) :
    NielsRep val26 (U32.AFFINE_ODD_MULTIPLES_OF_BASEPOINT.getD i []) ((2 * i + 1) • Bpt) :=
  oddTable_sound Dalek.Props.C12.AFFINE_ODD_MULTIPLES_OF_BASEPOINT_u32_ok i hi

/-- AVX2 `BASEPOINT_ODD_LOOKUP_TABLE[i]` is a `CachedPoint` of `(2i+1) • B` -/
theorem BASEPOINT_ODD_LOOKUP_TABLE_avx2 (i : Nat) (hi : i < 64) :
    CachedRep laneAvx2 (Avx2.BASEPOINT_ODD_LOOKUP_TABLE.getD i []) ((2 * i + 1) • Bpt) :=
  cachedTable_sound Dalek.Props.C12.BASEPOINT_ODD_LOOKUP_TABLE_avx2_ok i hi

/-- IFMA `BASEPOINT_ODD_LOOKUP_TABLE[i]` is a `CachedPoint` of `(2i+1) • B` -/
theorem BASEPOINT_ODD_LOOKUP_TABLE_ifma (i : Nat) (hi : i < 64) :
    CachedRep laneIfma (Ifma.BASEPOINT_ODD_LOOKUP_TABLE.getD i []) ((2 * i + 1) • Bpt) :=
  cachedTable_sound Dalek.Props.C12.BASEPOINT_ODD_LOOKUP_TABLE_ifma_ok i hi

/-- non-vacuity: the `NielsRep` predicate pins the three field values down (they are functions of `Q`) -/
example (val : List Nat → Nat) (e : List (List Nat)) (Q : Ed) (h : NielsRep val e Q) :
    ((val (e.getD 0 []) : Nat) : Fp) + ((val (e.getD 1 []) : Nat) : Fp) = 2 * Q.y := by
  obtain ⟨a, b, c, rfl, h1, h2, -⟩ := h
  simp only [List.getD_cons_zero, List.getD_cons_succ]
  rw [h1, h2]; ring

/-! ## Torsion -/

/-- a normalised extended literal (`extOk`) represents the curve point with affine coordinates `(X, Y)` -/
theorem extOk_rep {p : EPt} (h : extOk p = true) :
    ∃ Q : Ed, ERep p Q ∧ Q.x = (p.X : Fp) ∧ Q.y = (p.Y : Fp) := by
  simp only [extOk, Bool.and_eq_true, beq_iff_eq] at h
  obtain ⟨⟨hZ, hT⟩, hon⟩ := h
  refine ⟨toEd ⟨p.X, p.Y⟩ hon, ⟨?_, ?_, ?_, ?_⟩, rfl, rfl⟩
  · rw [hZ]; simp
  · rw [hZ]; simp [toEd]
  · rw [hZ]; simp [toEd]
  · rw [hZ, hT, cast_fmul]; simp

theorem torsionFails_extOk {val : List Nat → Nat} {canon : List Nat → Bool} {t1 : EPt} :
    ∀ (es : List (List (List Nat))) (i : Nat) (cur : EPt),
      torsionFails val canon t1 es i cur = [] →
      ∀ (k : Nat) (e : List (List Nat)), es[k]? = some e → extOk (decodePt val e) = true
  | [], _, _, _, k, e, hk => by simp at hk
  | e0 :: es, i, cur, h, k, e, hk => by
    simp only [torsionFails] at h
    split at h
    · rename_i hok
      cases k with
      | zero =>
        simp only [List.getElem?_cons_zero, Option.some.injEq] at hk
        subst hk
        simp only [Bool.and_eq_true] at hok
        exact hok.1.1.1.2
      | succ k =>
        simp only [List.getElem?_cons_succ] at hk
        exact torsionFails_extOk es (i + 1) (cur.add t1) h k e hk
    · exact absurd h (by simp)

theorem torsionFails_sound {val : List Nat → Nat} {canon : List Nat → Bool} {t1 : EPt} {Q1 : Ed}
    (h1 : ERep t1 Q1) :
    ∀ (es : List (List (List Nat))) (i : Nat) (cur : EPt), ERep cur (i • Q1) →
      torsionFails val canon t1 es i cur = [] →
      ∀ (k : Nat) (e : List (List Nat)), es[k]? = some e → ERep (decodePt val e) ((i + k) • Q1)
  | [], _, _, _, _, k, e, hk => by simp at hk
  | e0 :: es, i, cur, hc, h, k, e, hk => by
    simp only [torsionFails] at h
    split at h
    · rename_i hok
      cases k with
      | zero =>
        simp only [List.getElem?_cons_zero, Option.some.injEq] at hk
        subst hk
        simp only [Bool.and_eq_true] at hok
        obtain ⟨Q, hQ, -, -⟩ := extOk_rep hok.1.1.1.2
        have : Q = i • Q1 := (eq_iff hQ hc).1 hok.1.1.2
        rw [this] at hQ
        simpa using hQ
      | succ k =>
        simp only [List.getElem?_cons_succ] at hk
        have hc' : ERep (cur.add t1) ((i + 1) • Q1) := by
          have := erep_add hc h1
          rwa [← succ_nsmul] at this
        have := torsionFails_sound h1 es (i + 1) (cur.add t1) hc' h k e hk
        have e1 : i + 1 + k = i + (k + 1) := by omega
        rwa [e1] at this
    · exact absurd h (by simp)

/-- **Soundness of `checkEightTorsion`**: there is a point `T₁` of the curve of order exactly 8 such that
the `i`-th literal (`i < 8`) is an extended-coordinates representation of `i • T₁`. -/
theorem eightTorsion_sound {val : List Nat → Nat} {canon : List Nat → Bool}
    {t : List (List (List Nat))} (h : checkEightTorsion val canon t = true) :
    ∃ T1 : Ed, addOrderOf T1 = 8 ∧ ∀ i, i < 8 → ERep (decodePt val (t.getD i [])) (i • T1) := by
  simp only [checkEightTorsion, Bool.and_eq_true, beq_iff_eq, List.isEmpty_iff, List.all_eq_true,
    Bool.not_eq_true'] at h
  obtain ⟨⟨⟨⟨⟨⟨hlen, hf⟩, -⟩, h8⟩, h4⟩, -⟩, -⟩ := h
  have hget : ∀ i, i < 8 → t[i]? = some (t.getD i []) := by
    intro i hi
    have hi' : i < t.length := by omega
    simp [List.getD, List.getElem?_eq_getElem hi']
  obtain ⟨T1, hT1, -, -⟩ := extOk_rep (torsionFails_extOk t 0 EPt.zero hf 1 _ (hget 1 (by omega)))
  have hall := torsionFails_sound hT1 t 0 EPt.zero (by simpa using erep_zero) hf
  refine ⟨T1, ?_, ?_⟩
  · have e8 : (8 : Nat) = 2 ^ (2 + 1) := by norm_num
    rw [e8]
    apply addOrderOf_eq_prime_pow
    · intro h0
      have := (isIdentity_iff_E (erep_mulByPow2 hT1 2)).2 h0
      rw [this] at h4
      exact absurd h4 (by simp)
    · have hmem : decodePt val (t.getD 1 []) ∈ t.map (decodePt val) := by
        have h1 : 1 < t.length := by omega
        have : t.getD 1 [] = t[1] := by simp [List.getD, List.getElem?_eq_getElem h1]
        rw [this]
        exact List.mem_map_of_mem (List.getElem_mem h1)
      have := h8 _ hmem
      exact (isIdentity_iff_E (erep_mulByPow2 hT1 3)).1 this
  · intro i hi
    have := hall i _ (hget i hi)
    simpa using this

/-- the shipped `EIGHT_TORSION` arrays: `T[i] = i • T₁` with `T₁` of order exactly 8 -/
theorem EIGHT_TORSION_u64 :
    ∃ T1 : Ed, addOrderOf T1 = 8 ∧
      ∀ i, i < 8 → ERep (decodePt val51 (U64.EIGHT_TORSION.getD i [])) (i • T1) := by
  have h := Dalek.Props.C12.EIGHT_TORSION_ok
  rw [Bool.and_eq_true] at h
  exact eightTorsion_sound h.1

theorem EIGHT_TORSION_u32 :
    ∃ T1 : Ed, addOrderOf T1 = 8 ∧
      ∀ i, i < 8 → ERep (decodePt val26 (U32.EIGHT_TORSION.getD i [])) (i • T1) := by
  have h := Dalek.Props.C12.EIGHT_TORSION_ok
  rw [Bool.and_eq_true] at h
  exact eightTorsion_sound h.2

/-! ## C17: the multiplicative generator -/

theorem l_minus_one_eq :
    L - 1 = 2 ^ 2 * 3 * 11 * 198211423230930754013084525763697 *
      276602624281642239937218680557139826668747 := by decide +kernel

/-- **`MULTIPLICATIVE_GENERATOR` is a primitive root modulo `l`**: its multiplicative order in `ZMod l` is
`l - 1`. -/
theorem MULTIPLICATIVE_GENERATOR_order : orderOf ((ffG : Nat) : Fl) = L - 1 := by
  have hg := Dalek.Props.C17.MULTIPLICATIVE_GENERATOR_ok
  simp only [checkGenerator, Bool.and_eq_true, beq_iff_eq, bne_iff_ne, ne_eq,
    List.all_eq_true] at hg
  obtain ⟨⟨-, hpow⟩, hall⟩ := hg
  have one_lt : 1 < L := by norm_num
  have hne : ∀ q e, (q, e) ∈ lMinusOneFactors → ((ffG : Nat) : Fl) ^ ((L - 1) / q) ≠ 1 := by
    intro q e hmem h1
    have := (hall (q, e) hmem).2
    apply this
    have hc : ((spow ffG ((L - 1) / q) : Nat) : Fl) = ((1 : Nat) : Fl) := by
      rw [cast_spow, h1]; simp
    exact (castL_inj_of_lt (spow_lt _ _) one_lt).1 hc
  apply orderOf_eq_of_pow_and_pow_div_prime (by norm_num)
  · rw [← cast_spow, hpow]; simp
  · intro q hq hdvd
    rw [l_minus_one_eq] at hdvd
    have hprimes := Dalek.Props.C17.l_minus_one_factors_prime
    rcases (Nat.Prime.dvd_mul hq).1 hdvd with hd | hd
    · rcases (Nat.Prime.dvd_mul hq).1 hd with hd | hd
      · rcases (Nat.Prime.dvd_mul hq).1 hd with hd | hd
        · rcases (Nat.Prime.dvd_mul hq).1 hd with hd | hd
          · have : q = 2 := (Nat.prime_dvd_prime_iff_eq hq Nat.prime_two).1 (hq.dvd_of_dvd_pow hd)
            subst this
            exact hne 2 2 (by simp [lMinusOneFactors])
          · have : q = 3 := (Nat.prime_dvd_prime_iff_eq hq (hprimes (3, 1) (by simp [lMinusOneFactors]))).1 hd
            subst this
            exact hne 3 1 (by simp [lMinusOneFactors])
        · have : q = 11 := (Nat.prime_dvd_prime_iff_eq hq (hprimes (11, 1) (by simp [lMinusOneFactors]))).1 hd
          subst this
          exact hne 11 1 (by simp [lMinusOneFactors])
      · have : q = 198211423230930754013084525763697 :=
          (Nat.prime_dvd_prime_iff_eq hq
            (hprimes (198211423230930754013084525763697, 1) (by simp [lMinusOneFactors]))).1 hd
        subst this
        exact hne _ 1 (by simp [lMinusOneFactors])
    · have : q = 276602624281642239937218680557139826668747 :=
        (Nat.prime_dvd_prime_iff_eq hq
          (hprimes (276602624281642239937218680557139826668747, 1) (by simp [lMinusOneFactors]))).1 hd
      subst this
      exact hne _ 1 (by simp [lMinusOneFactors])

end Dalek.Proofs.ConstLift

import Dalek.Proofs.RecodeBase
/-!
# `Scalar::bits_le` (model `bitsLe`)
-/
namespace Dalek.Proofs.Recode
open Dalek.Model.Recode Dalek.Spec

theorem bitsLe_length (bytes : List UInt8) : (bitsLe bytes).length = 256 := by
  simp [bitsLe]

/-- bit `i` of `bits_le` is bit `i` of the little-endian value -/
theorem bitsLe_getD (bytes : List UInt8) (i : Nat) (hi : i < 256) :
    (bitsLe bytes).getD i false = (leToNat bytes).testBit i := by
  unfold bitsLe
  rw [List.getD_eq_getElem?_getD, List.getElem?_map, List.getElem?_range hi]
  simp only [Option.map_some, Option.getD_some]
  rw [byte_getD, Nat.and_one_is_mod, Nat.shiftRight_eq_div_pow, Nat.shiftRight_eq_div_pow,
    show (7 : Nat) = 2 ^ 3 - 1 from rfl, Nat.and_two_pow_sub_one_eq_mod]
  simp only [Nat.reducePow]
  have hbeq : ∀ x : Nat, (x % 2 == 1) = decide (x % 2 = 1) := by
    intro x; by_cases h : x % 2 = 1 <;> simp [h]
  rw [hbeq, ← Nat.testBit_eq_decide_div_mod_eq, show (256 : Nat) = 2 ^ 8 from rfl, ← pow_mul,
    Nat.testBit_mod_two_pow, Nat.testBit_div_two_pow]
  have h2 : i % 8 < 8 := by omega
  have h3 : i % 8 + 8 * (i / 8) = i := by omega
  rw [h3, decide_eq_true h2, Bool.true_and]

theorem sum_testBit (s n : Nat) :
    ∑ i ∈ Finset.range n, (if s.testBit i then 1 else 0) * 2 ^ i = s % 2 ^ n := by
  induction n with
  | zero => simp [Nat.mod_one]
  | succ n ih =>
    rw [Finset.sum_range_succ, ih, Nat.mod_pow_succ, Nat.testBit_eq_decide_div_mod_eq]
    have : s / 2 ^ n % 2 = 0 ∨ s / 2 ^ n % 2 = 1 := by omega
    rcases this with h | h <;> simp [h]

theorem bitsLe_sum (bytes : List UInt8) (hlen : bytes.length = 32) :
    ∑ i ∈ Finset.range 256, (if (bitsLe bytes).getD i false then 1 else 0) * 2 ^ i =
      leToNat bytes := by
  have hs : leToNat bytes < 2 ^ 256 := by
    have := leToNat_lt bytes; rw [hlen] at this; norm_num at this ⊢; exact this
  rw [← Nat.mod_eq_of_lt hs, ← sum_testBit]
  apply Finset.sum_congr rfl
  intro i hi
  rw [bitsLe_getD bytes i (Finset.mem_range.mp hi)]

end Dalek.Proofs.Recode

/-
Helpers for C13: list bookkeeping for the batch model, and the algebra of the random linear combination
that the real `verify_batch` checks.
-/
import Dalek.Proofs.EdsVerify
import Mathlib.Algebra.BigOperators.Group.List.Basic

namespace Dalek.Eds

open Dalek.Spec Dalek.Spec.Ed25519 Dalek.Bridge

attribute [local irreducible] decompress

/-! ## Lists -/

theorem mem_zip3_of_lt {α β γ : Type*} (xs : List α) (bs : List β) (cs : List γ)
    (h1 : xs.length = bs.length) (h2 : bs.length = cs.length) (i : Nat) (hi : i < bs.length) :
    (xs[i]'(h1 ▸ hi), bs[i], cs[i]'(h2 ▸ hi)) ∈ xs.zip (bs.zip cs) := by
  rw [List.mem_iff_getElem]
  refine ⟨i, by simp only [List.length_zip]; omega, ?_⟩
  simp only [List.getElem_zip]

theorem exists_index_of_mem_zip3 {α β γ : Type*} {xs : List α} {bs : List β} {cs : List γ}
    {x : α × β × γ} (hx : x ∈ xs.zip (bs.zip cs)) :
    ∃ (i : Nat) (h1 : i < xs.length) (h2 : i < bs.length) (h3 : i < cs.length),
      x = (xs[i], bs[i], cs[i]) := by
  rw [List.mem_iff_getElem] at hx
  obtain ⟨i, hi, rfl⟩ := hx
  simp only [List.length_zip] at hi
  exact ⟨i, by omega, by omega, by omega, by simp only [List.getElem_zip]⟩

/-- The batch model on a list of entries `(msg, sig, vk)`. -/
def batchOf (legacy : Bool) (es : List (List UInt8 × List UInt8 × List UInt8)) : Bool :=
  verifyBatch legacy (es.map (·.1)) (es.map (·.2.1)) (es.map (·.2.2))

theorem zip3_map (es : List (List UInt8 × List UInt8 × List UInt8)) :
    (es.map (·.1)).zip ((es.map (·.2.1)).zip (es.map (·.2.2))) = es := by
  rw [List.zip_map', List.zip_map']
  simp only [Prod.mk.eta, List.map_id']

theorem batchOf_iff (legacy : Bool) (es : List (List UInt8 × List UInt8 × List UInt8)) :
    batchOf legacy es = true ↔ ∀ x ∈ es, batchItemWith Ops.spec legacy x.1 x.2.1 x.2.2 = some true := by
  unfold batchOf
  show verifyBatchWith Ops.spec legacy _ _ _ = true ↔ _
  rw [verifyBatch_iff, zip3_map]
  simp only [List.length_map, true_and]

/-! ## The random linear combination -/

section Algebra
variable {G : Type*} [AddCommGroup G]

/-- If every error term `Eᵢ` vanishes, every linear combination `Σ zᵢ•Eᵢ` vanishes — whatever the
coefficients. -/
theorem combination_eq_zero_of_all_zero (z : List Nat) (E : List G) (h : ∀ e ∈ E, e = 0) :
    (List.zipWith (fun (n : Nat) (e : G) => n • e) z E).sum = 0 := by
  induction z generalizing E with
  | nil => simp
  | cons a z ih =>
    cases E with
    | nil => simp
    | cons e E =>
      simp only [List.zipWith_cons_cons, List.sum_cons]
      rw [h e (by simp), smul_zero, zero_add]
      exact ih E (fun e' he' => h e' (by simp [he']))

/-- **Single fault.**  If exactly one error term `Eⱼ` is non-zero, it has order `ℓ` (`ℓ•Eⱼ = 0`), and the
combination vanishes, then `ℓ ∣ zⱼ`. -/
theorem single_fault_dvd (z1 z2 : List Nat) (zj : Nat) (E1 E2 : List G) (Ej : G)
    (hlen : z1.length = E1.length) (h1 : ∀ e ∈ E1, e = 0) (h2 : ∀ e ∈ E2, e = 0)
    (hL : L • Ej = 0) (hne : Ej ≠ 0)
    (hsum : (List.zipWith (fun (n : Nat) (e : G) => n • e) (z1 ++ zj :: z2) (E1 ++ Ej :: E2)).sum = 0) :
    L ∣ zj := by
  rw [List.zipWith_append hlen, List.sum_append, List.zipWith_cons_cons, List.sum_cons,
    combination_eq_zero_of_all_zero z1 E1 h1, combination_eq_zero_of_all_zero z2 E2 h2, zero_add,
    add_zero] at hsum
  exact dvd_of_nsmul_eq_zero hL hne hsum

end Algebra

/-- A 128-bit coefficient is `≡ 0 (mod ℓ)` only if it is `0`. -/
theorem eq_zero_of_dvd_of_lt_128 {z : Nat} (hd : L ∣ z) (hz : z < 2 ^ 128) : z = 0 := by
  by_contra hne
  have := Nat.le_of_dvd (Nat.pos_of_ne_zero hne) hd
  have : (2:Nat) ^ 128 < L := by norm_num
  omega

/-! ## The equation the code evaluates

`verify_batch` computes `(-Σ zᵢsᵢ mod ℓ)•B + Σ zᵢ•Rᵢ + Σ (zᵢkᵢ mod ℓ)•Aᵢ` and tests it against the
identity.  For keys of order dividing `ℓ` this is `-(Σ zᵢ•Eᵢ)` with `Eᵢ = sᵢ•B - Rᵢ - kᵢ•Aᵢ`. -/

theorem mod_L_nsmul {G : Type*} [AddCommGroup G] {A : G} (hA : L • A = 0) (n : Nat) : (n % L) • A = n • A := by
  conv_rhs => rw [← Nat.mod_add_div n L]
  rw [add_nsmul, mul_nsmul, hA, smul_zero, add_zero]

theorem sneg_nsmul_Bpt (n : Nat) : ((L - n % L) % L) • Bpt = -(n • Bpt) := by
  rw [mod_L_nsmul_Bpt, eq_neg_iff_add_eq_zero, ← mod_L_nsmul_Bpt n, ← add_nsmul,
    Nat.sub_add_cancel (Nat.le_of_lt (Nat.mod_lt _ L_pos)), L_nsmul_Bpt]

/-- One batch term: coefficients and decoded points `(z, s, R, k, A)`. -/
structure BatchTerm where
  z : Nat
  s : Nat
  R : Ed
  k : Nat
  A : Ed

/-- The error term `E = s•B - R - k•A` of an entry. -/
noncomputable def BatchTerm.err (t : BatchTerm) : Ed := t.s • Bpt - t.R - t.k • t.A

/-- The point the code tests against the identity (scalars reduced mod `ℓ` as in the code). -/
noncomputable def codeBatchPoint (ts : List BatchTerm) : Ed :=
  ((L - (ts.map fun t => t.z * t.s).sum % L) % L) • Bpt + (ts.map fun t => t.z • t.R).sum +
    (ts.map fun t => ((t.z * t.k) % L) • t.A).sum

theorem codeBatchPoint_eq (ts : List BatchTerm) (hA : ∀ t ∈ ts, L • t.A = 0) :
    codeBatchPoint ts = -((ts.map fun t => t.z • t.err).sum) := by
  unfold codeBatchPoint
  rw [sneg_nsmul_Bpt]
  induction ts with
  | nil => simp
  | cons t ts ih =>
    have ih' := ih (fun t' ht' => hA t' (by simp [ht']))
    have hAt := mod_L_nsmul (hA t (by simp)) (t.z * t.k)
    simp only [List.map_cons, List.sum_cons] at ih' ⊢
    rw [hAt, add_nsmul, BatchTerm.err, smul_sub, smul_sub, ← mul_nsmul', ← mul_nsmul']
    rw [neg_add ((t.z * t.s) • Bpt - t.z • t.R - (t.z * t.k) • t.A), ← ih']
    abel

/-! ## The merlin transcript -/

/-- The list of challenge hashes `SHA-512(Rᵢ ‖ vkᵢ ‖ msgᵢ)` of a batch. -/
def batchHrams (msgs sigs vks : List (List UInt8)) : List (List UInt8) :=
  (msgs.zip (sigs.zip vks)).map fun x => sha512 (x.2.1.take 32 ++ x.2.2 ++ x.1)

theorem batchTranscript_eq (msgs sigs vks : List (List UInt8))
    (hl1 : msgs.length = sigs.length) (hl2 : sigs.length = vks.length) :
    batchTranscript msgs sigs vks =
      [("new".toUTF8.toList, "ed25519 batch verification".toUTF8.toList),
       ("dom-sep".toUTF8.toList, "ed25519 batch verification".toUTF8.toList)]
        ++ (batchHrams msgs sigs vks).map (fun hr => ("hram".toUTF8.toList, hr))
        ++ sigs.map (fun s => ("sig.s".toUTF8.toList, s.drop 32))
        ++ [("finalize".toUTF8.toList, [])] := by
  unfold batchTranscript batchHrams
  simp only [hl1, hl2, bne_self_eq_false, Bool.or_self, Bool.false_eq_true, if_false]

theorem batchHrams_length (msgs sigs vks : List (List UInt8))
    (hl1 : msgs.length = sigs.length) (hl2 : sigs.length = vks.length) :
    (batchHrams msgs sigs vks).length = sigs.length := by
  unfold batchHrams
  simp only [List.length_map, List.length_zip]; omega

/-- **The transcript binds all challenge hashes and all `S`**: two batches (with consistent lengths) that
produce the same transcript have the same number of entries, the same list of `H(R‖A‖M)` and the same
list of `S` halves. -/
theorem batchTranscript_binds (msgs sigs vks msgs' sigs' vks' : List (List UInt8))
    (hl1 : msgs.length = sigs.length) (hl2 : sigs.length = vks.length)
    (hl1' : msgs'.length = sigs'.length) (hl2' : sigs'.length = vks'.length)
    (h : batchTranscript msgs sigs vks = batchTranscript msgs' sigs' vks') :
    sigs.length = sigs'.length ∧ batchHrams msgs sigs vks = batchHrams msgs' sigs' vks' ∧
      sigs.map (·.drop 32) = sigs'.map (·.drop 32) := by
  rw [batchTranscript_eq _ _ _ hl1 hl2, batchTranscript_eq _ _ _ hl1' hl2'] at h
  have hlen := congrArg List.length h
  simp only [List.length_append, List.length_map, List.length_cons, List.length_nil,
    batchHrams_length _ _ _ hl1 hl2, batchHrams_length _ _ _ hl1' hl2'] at hlen
  have hn : sigs.length = sigs'.length := by omega
  have h1 := List.append_inj_left' h rfl
  have h2 := List.append_inj_right h1 (by
    simp only [List.length_append, List.length_map, List.length_cons, List.length_nil,
      batchHrams_length _ _ _ hl1 hl2, batchHrams_length _ _ _ hl1' hl2', hn])
  have h3 := List.append_inj_left h1 (by
    simp only [List.length_append, List.length_map, List.length_cons, List.length_nil,
      batchHrams_length _ _ _ hl1 hl2, batchHrams_length _ _ _ hl1' hl2', hn])
  have h4 := List.append_inj_right h3 rfl
  refine ⟨hn, ?_, ?_⟩
  · have := congrArg (List.map Prod.snd) h4
    simpa only [List.map_map, Function.comp_def, List.map_id'] using this
  · have := congrArg (List.map Prod.snd) h2
    simpa only [List.map_map, Function.comp_def] using this

/-- Mismatched lengths: no transcript operation is performed. -/
theorem batchTranscript_len_mismatch (msgs sigs vks : List (List UInt8))
    (h : msgs.length ≠ sigs.length ∨ sigs.length ≠ vks.length) : batchTranscript msgs sigs vks = [] := by
  unfold batchTranscript
  have : (msgs.length != sigs.length || sigs.length != vks.length) = true := by
    rcases h with h | h
    · simp [bne_iff_ne.2 h]
    · simp [bne_iff_ne.2 h]
  rw [if_pos this]

end Dalek.Eds

import Dalek.Props.C02.Scalar52
import Dalek.Proofs.Bytes51
import Dalek.Model.ScalarApi
import Mathlib.Data.ZMod.Basic
/-!
# `Scalar` API glue, part 1: the kernel theorems of `Props/C02/Scalar52.lean` restated on limb LISTS

Helper lemmas for `Dalek/Props/C02/Api.lean`.  Each kernel theorem (given there for explicit limbs `a0 … a4`)
is restated for the model's wrappers `Dalek.Model.ScalarApi.*52` on arbitrary lists inside the limb contract
(`EnvIn a limbs52`: exactly five limbs `< 2^52`; `EnvIn b (bytes 32)`: exactly 32 entries `≤ 255`).
(the explicit 64-variable list lemma is produced by a script; nothing here depends on the shape of generated code)
-/
set_option exponentiation.threshold 600

namespace Dalek.Proofs.ScalarApi
open Dalek.IR Dalek.Proofs.Scalar52 Dalek.Model.Contracts Dalek.Gen.Consts Dalek.Model.ScalarApi
open Dalek.Model.FieldBytes (leVal natToLeN)
open Dalek.Proofs.Bytes51 (list_eq_of_length_5 list_eq_of_length_32 exists_of_length_succ)
open Dalek.Props.C02.Scalar52

/-! ## lists -/

theorem EnvIn_append : ∀ (a : List Nat) (I : List Itv) {b : List Nat} {J : List Itv},
    EnvIn a I → EnvIn b J → EnvIn (a ++ b) (I ++ J)
  | [], [], _, _, _, hb => by simpa using hb
  | x :: xs, t :: ts, b, J, ha, hb => by
      simp only [EnvIn] at ha
      simp only [List.cons_append, EnvIn]
      exact ⟨ha.1, EnvIn_append xs ts ha.2 hb⟩
  | [], _ :: _, _, _, ha, _ => by simp [EnvIn] at ha
  | _ :: _, [], _, _, ha, _ => by simp [EnvIn] at ha

theorem len_rep {a : List Nat} {n : Nat} {x : Itv} (h : EnvIn a (rep n x)) : a.length = n := by
  rw [Dalek.Proofs.Bytes51.envIn_length h]; simp [rep]

theorem list_eq_of_length_9 {α : Type} {l : List α} (hl : l.length = 9) :
    ∃ a0 a1 a2 a3 a4 a5 a6 a7 a8, l = [a0, a1, a2, a3, a4, a5, a6, a7, a8] := by
  obtain ⟨a0, t0, rfl, hl0⟩ := exists_of_length_succ hl
  obtain ⟨a1, t1, rfl, hl1⟩ := exists_of_length_succ hl0
  obtain ⟨a2, t2, rfl, hl2⟩ := exists_of_length_succ hl1
  obtain ⟨a3, t3, rfl, hl3⟩ := exists_of_length_succ hl2
  obtain ⟨a4, t4, rfl, hl4⟩ := exists_of_length_succ hl3
  obtain ⟨a5, t5, rfl, hl5⟩ := exists_of_length_succ hl4
  obtain ⟨a6, t6, rfl, hl6⟩ := exists_of_length_succ hl5
  obtain ⟨a7, t7, rfl, hl7⟩ := exists_of_length_succ hl6
  obtain ⟨a8, t8, rfl, hl8⟩ := exists_of_length_succ hl7
  obtain rfl := List.length_eq_zero_iff.mp hl8
  exact ⟨a0, a1, a2, a3, a4, a5, a6, a7, a8, rfl⟩

theorem list_eq_of_length_64 {α : Type} {l : List α} (hl : l.length = 64) :
    ∃ x0 x1 x2 x3 x4 x5 x6 x7 x8 x9 x10 x11 x12 x13 x14 x15 x16 x17 x18 x19 x20 x21 x22 x23 x24 x25 x26 x27 x28 x29 x30 x31 x32 x33 x34 x35 x36 x37 x38 x39 x40 x41 x42 x43 x44 x45 x46 x47 x48 x49 x50 x51 x52 x53 x54 x55 x56 x57 x58 x59 x60 x61 x62 x63, l = [x0, x1, x2, x3, x4, x5, x6, x7, x8, x9, x10, x11, x12, x13, x14, x15, x16, x17, x18, x19, x20, x21, x22, x23, x24, x25, x26, x27, x28, x29, x30, x31, x32, x33, x34, x35, x36, x37, x38, x39, x40, x41, x42, x43, x44, x45, x46, x47, x48, x49, x50, x51, x52, x53, x54, x55, x56, x57, x58, x59, x60, x61, x62, x63] := by
  obtain ⟨x0, t0, rfl, hl0⟩ := exists_of_length_succ hl
  obtain ⟨x1, t1, rfl, hl1⟩ := exists_of_length_succ hl0
  obtain ⟨x2, t2, rfl, hl2⟩ := exists_of_length_succ hl1
  obtain ⟨x3, t3, rfl, hl3⟩ := exists_of_length_succ hl2
  obtain ⟨x4, t4, rfl, hl4⟩ := exists_of_length_succ hl3
  obtain ⟨x5, t5, rfl, hl5⟩ := exists_of_length_succ hl4
  obtain ⟨x6, t6, rfl, hl6⟩ := exists_of_length_succ hl5
  obtain ⟨x7, t7, rfl, hl7⟩ := exists_of_length_succ hl6
  obtain ⟨x8, t8, rfl, hl8⟩ := exists_of_length_succ hl7
  obtain ⟨x9, t9, rfl, hl9⟩ := exists_of_length_succ hl8
  obtain ⟨x10, t10, rfl, hl10⟩ := exists_of_length_succ hl9
  obtain ⟨x11, t11, rfl, hl11⟩ := exists_of_length_succ hl10
  obtain ⟨x12, t12, rfl, hl12⟩ := exists_of_length_succ hl11
  obtain ⟨x13, t13, rfl, hl13⟩ := exists_of_length_succ hl12
  obtain ⟨x14, t14, rfl, hl14⟩ := exists_of_length_succ hl13
  obtain ⟨x15, t15, rfl, hl15⟩ := exists_of_length_succ hl14
  obtain ⟨x16, t16, rfl, hl16⟩ := exists_of_length_succ hl15
  obtain ⟨x17, t17, rfl, hl17⟩ := exists_of_length_succ hl16
  obtain ⟨x18, t18, rfl, hl18⟩ := exists_of_length_succ hl17
  obtain ⟨x19, t19, rfl, hl19⟩ := exists_of_length_succ hl18
  obtain ⟨x20, t20, rfl, hl20⟩ := exists_of_length_succ hl19
  obtain ⟨x21, t21, rfl, hl21⟩ := exists_of_length_succ hl20
  obtain ⟨x22, t22, rfl, hl22⟩ := exists_of_length_succ hl21
  obtain ⟨x23, t23, rfl, hl23⟩ := exists_of_length_succ hl22
  obtain ⟨x24, t24, rfl, hl24⟩ := exists_of_length_succ hl23
  obtain ⟨x25, t25, rfl, hl25⟩ := exists_of_length_succ hl24
  obtain ⟨x26, t26, rfl, hl26⟩ := exists_of_length_succ hl25
  obtain ⟨x27, t27, rfl, hl27⟩ := exists_of_length_succ hl26
  obtain ⟨x28, t28, rfl, hl28⟩ := exists_of_length_succ hl27
  obtain ⟨x29, t29, rfl, hl29⟩ := exists_of_length_succ hl28
  obtain ⟨x30, t30, rfl, hl30⟩ := exists_of_length_succ hl29
  obtain ⟨x31, t31, rfl, hl31⟩ := exists_of_length_succ hl30
  obtain ⟨x32, t32, rfl, hl32⟩ := exists_of_length_succ hl31
  obtain ⟨x33, t33, rfl, hl33⟩ := exists_of_length_succ hl32
  obtain ⟨x34, t34, rfl, hl34⟩ := exists_of_length_succ hl33
  obtain ⟨x35, t35, rfl, hl35⟩ := exists_of_length_succ hl34
  obtain ⟨x36, t36, rfl, hl36⟩ := exists_of_length_succ hl35
  obtain ⟨x37, t37, rfl, hl37⟩ := exists_of_length_succ hl36
  obtain ⟨x38, t38, rfl, hl38⟩ := exists_of_length_succ hl37
  obtain ⟨x39, t39, rfl, hl39⟩ := exists_of_length_succ hl38
  obtain ⟨x40, t40, rfl, hl40⟩ := exists_of_length_succ hl39
  obtain ⟨x41, t41, rfl, hl41⟩ := exists_of_length_succ hl40
  obtain ⟨x42, t42, rfl, hl42⟩ := exists_of_length_succ hl41
  obtain ⟨x43, t43, rfl, hl43⟩ := exists_of_length_succ hl42
  obtain ⟨x44, t44, rfl, hl44⟩ := exists_of_length_succ hl43
  obtain ⟨x45, t45, rfl, hl45⟩ := exists_of_length_succ hl44
  obtain ⟨x46, t46, rfl, hl46⟩ := exists_of_length_succ hl45
  obtain ⟨x47, t47, rfl, hl47⟩ := exists_of_length_succ hl46
  obtain ⟨x48, t48, rfl, hl48⟩ := exists_of_length_succ hl47
  obtain ⟨x49, t49, rfl, hl49⟩ := exists_of_length_succ hl48
  obtain ⟨x50, t50, rfl, hl50⟩ := exists_of_length_succ hl49
  obtain ⟨x51, t51, rfl, hl51⟩ := exists_of_length_succ hl50
  obtain ⟨x52, t52, rfl, hl52⟩ := exists_of_length_succ hl51
  obtain ⟨x53, t53, rfl, hl53⟩ := exists_of_length_succ hl52
  obtain ⟨x54, t54, rfl, hl54⟩ := exists_of_length_succ hl53
  obtain ⟨x55, t55, rfl, hl55⟩ := exists_of_length_succ hl54
  obtain ⟨x56, t56, rfl, hl56⟩ := exists_of_length_succ hl55
  obtain ⟨x57, t57, rfl, hl57⟩ := exists_of_length_succ hl56
  obtain ⟨x58, t58, rfl, hl58⟩ := exists_of_length_succ hl57
  obtain ⟨x59, t59, rfl, hl59⟩ := exists_of_length_succ hl58
  obtain ⟨x60, t60, rfl, hl60⟩ := exists_of_length_succ hl59
  obtain ⟨x61, t61, rfl, hl61⟩ := exists_of_length_succ hl60
  obtain ⟨x62, t62, rfl, hl62⟩ := exists_of_length_succ hl61
  obtain ⟨x63, t63, rfl, hl63⟩ := exists_of_length_succ hl62
  obtain rfl := List.length_eq_zero_iff.mp hl63
  exact ⟨x0, x1, x2, x3, x4, x5, x6, x7, x8, x9, x10, x11, x12, x13, x14, x15, x16, x17, x18, x19, x20, x21, x22, x23, x24, x25, x26, x27, x28, x29, x30, x31, x32, x33, x34, x35, x36, x37, x38, x39, x40, x41, x42, x43, x44, x45, x46, x47, x48, x49, x50, x51, x52, x53, x54, x55, x56, x57, x58, x59, x60, x61, x62, x63, rfl⟩

/-- two limb vectors inside the contract, concatenated, are inside the contract of a binary kernel -/
theorem envIn10 {a b : List Nat} (ha : EnvIn a limbs52) (hb : EnvIn b limbs52) :
    EnvIn (a ++ b) (rep 10 Scalar52.lim) :=
  EnvIn_append _ _ ha hb

theorem l_lt_pow : l < 2 ^ 253 := by norm_num [l]
theorem l_pos : 0 < l := by norm_num [l]

/-! ## the kernels on lists -/

theorem unpack_ok {b : List Nat} (hb : EnvIn b (bytes 32)) :
    EnvIn (fromBytes52 b) limbs52 ∧ val52 (fromBytes52 b) = leVal b := by
  obtain ⟨x0, x1, x2, x3, x4, x5, x6, x7, x8, x9, x10, x11, x12, x13, x14, x15, x16, x17, x18, x19, x20, x21, x22, x23, x24, x25, x26, x27, x28, x29, x30, x31, rfl⟩ := list_eq_of_length_32 (len_rep hb)
  obtain ⟨out, -, hW, he, hv⟩ := from_bytes_spec x0 x1 x2 x3 x4 x5 x6 x7 x8 x9 x10 x11 x12 x13 x14 x15 x16 x17 x18 x19 x20 x21 x22 x23 x24 x25 x26 x27 x28 x29 x30 x31 hb
  subst hW
  exact ⟨EnvIn_of_itvsLe he (by decide +kernel), hv⟩

theorem fromBytesWide_ok {b : List Nat} (hb : EnvIn b (bytes 64)) :
    EnvIn (fromBytesWide52 b) limbs52 ∧ val52 (fromBytesWide52 b) = leVal b % l := by
  obtain ⟨x0, x1, x2, x3, x4, x5, x6, x7, x8, x9, x10, x11, x12, x13, x14, x15, x16, x17, x18, x19, x20, x21, x22, x23, x24, x25, x26, x27, x28, x29, x30, x31, x32, x33, x34, x35, x36, x37, x38, x39, x40, x41, x42, x43, x44, x45, x46, x47, x48, x49, x50, x51, x52, x53, x54, x55, x56, x57, x58, x59, x60, x61, x62, x63, rfl⟩ := list_eq_of_length_64 (len_rep hb)
  obtain ⟨out, -, hW, he, hv⟩ := from_bytes_wide_spec x0 x1 x2 x3 x4 x5 x6 x7 x8 x9 x10 x11 x12 x13 x14 x15 x16 x17 x18 x19 x20 x21 x22 x23 x24 x25 x26 x27 x28 x29 x30 x31 x32 x33 x34 x35 x36 x37 x38 x39 x40 x41 x42 x43 x44 x45 x46 x47 x48 x49 x50 x51 x52 x53 x54 x55 x56 x57 x58 x59 x60 x61 x62 x63 hb
  subst hW
  exact ⟨he, hv⟩

theorem pack_ok {a : List Nat} (ha : EnvIn a limbs52) (hv : val52 a < 2 ^ 256) :
    EnvIn (asBytes52 a) (bytes 32) ∧ leVal (asBytes52 a) = val52 a := by
  obtain ⟨a0, a1, a2, a3, a4, rfl⟩ := list_eq_of_length_5 (len_rep ha)
  obtain ⟨out, -, hW, he, hv⟩ := as_bytes_spec a0 a1 a2 a3 a4 ha hv
  subst hW
  exact ⟨he, hv⟩

theorem add52_ok {a b : List Nat} (ha : EnvIn a limbs52) (hb : EnvIn b limbs52)
    (hav : val52 a < l) (hbv : val52 b < l) :
    EnvIn (add52 a b) limbs52 ∧ val52 (add52 a b) = (val52 a + val52 b) % l := by
  obtain ⟨a0, a1, a2, a3, a4, rfl⟩ := list_eq_of_length_5 (len_rep ha)
  obtain ⟨b0, b1, b2, b3, b4, rfl⟩ := list_eq_of_length_5 (len_rep hb)
  obtain ⟨out, -, hW, he, hv⟩ := add_spec a0 a1 a2 a3 a4 b0 b1 b2 b3 b4 (envIn10 ha hb) hav hbv
  subst hW
  exact ⟨he, hv⟩

theorem sub52_ok {a b : List Nat} (ha : EnvIn a limbs52) (hb : EnvIn b limbs52)
    (hav : val52 a < l) (hbv : val52 b < l) :
    EnvIn (sub52 a b) limbs52 ∧ val52 (sub52 a b) = (val52 a + l - val52 b) % l := by
  obtain ⟨a0, a1, a2, a3, a4, rfl⟩ := list_eq_of_length_5 (len_rep ha)
  obtain ⟨b0, b1, b2, b3, b4, rfl⟩ := list_eq_of_length_5 (len_rep hb)
  obtain ⟨out, -, hW, he, -, hv⟩ := sub_spec a0 a1 a2 a3 a4 b0 b1 b2 b3 b4 (envIn10 ha hb) hav hbv
  subst hW
  exact ⟨he, hv⟩

theorem mul52_ok {a b : List Nat} (ha : EnvIn a limbs52) (hb : EnvIn b limbs52)
    (hav : val52 a < l) (hbv : val52 b < l) :
    EnvIn (mul52 a b) limbs52 ∧ val52 (mul52 a b) = val52 a * val52 b % l := by
  obtain ⟨a0, a1, a2, a3, a4, rfl⟩ := list_eq_of_length_5 (len_rep ha)
  obtain ⟨b0, b1, b2, b3, b4, rfl⟩ := list_eq_of_length_5 (len_rep hb)
  obtain ⟨out, -, hW, he, hv⟩ := mul_spec a0 a1 a2 a3 a4 b0 b1 b2 b3 b4 (envIn10 ha hb) hav hbv
  subst hW
  exact ⟨he, hv⟩

theorem mulInternal52_ok {a b : List Nat} (ha : EnvIn a limbs52) (hb : EnvIn b limbs52) :
    EnvIn (mulInternal52 a b) Scalar52.pre_montgomery_reduce ∧
      val52 (mulInternal52 a b) = val52 a * val52 b := by
  obtain ⟨a0, a1, a2, a3, a4, rfl⟩ := list_eq_of_length_5 (len_rep ha)
  obtain ⟨b0, b1, b2, b3, b4, rfl⟩ := list_eq_of_length_5 (len_rep hb)
  obtain ⟨out, -, hW, he, hv⟩ := mul_internal_spec a0 a1 a2 a3 a4 b0 b1 b2 b3 b4 (envIn10 ha hb)
  subst hW
  exact ⟨he, hv⟩

theorem montgomeryReduce52_ok {z : List Nat} (hz : EnvIn z Scalar52.pre_montgomery_reduce)
    (hN : val52 z < 2 ^ 260 * l) :
    EnvIn (montgomeryReduce52 z) limbs52 ∧ val52 (montgomeryReduce52 z) < l ∧
      val52 (montgomeryReduce52 z) * 2 ^ 260 % l = val52 z % l := by
  obtain ⟨z0, z1, z2, z3, z4, z5, z6, z7, z8, rfl⟩ := list_eq_of_length_9 (len_rep hz)
  obtain ⟨out, -, hW, he, hlt, hv⟩ := montgomery_reduce_spec z0 z1 z2 z3 z4 z5 z6 z7 z8 hz hN
  subst hW
  exact ⟨he, hlt, hv⟩

theorem montgomeryMul52_ok {a b : List Nat} (ha : EnvIn a limbs52) (hb : EnvIn b limbs52)
    (hav : val52 a < l) (hbv : val52 b < l) :
    EnvIn (montgomeryMul52 a b) limbs52 ∧ val52 (montgomeryMul52 a b) < l ∧
      val52 (montgomeryMul52 a b) * 2 ^ 260 % l = val52 a * val52 b % l := by
  obtain ⟨a0, a1, a2, a3, a4, rfl⟩ := list_eq_of_length_5 (len_rep ha)
  obtain ⟨b0, b1, b2, b3, b4, rfl⟩ := list_eq_of_length_5 (len_rep hb)
  obtain ⟨out, -, hW, he, hlt, hv⟩ := montgomery_mul_spec a0 a1 a2 a3 a4 b0 b1 b2 b3 b4 (envIn10 ha hb)
    (Nat.mul_lt_mul'' (lt_trans hav (by norm_num [l])) hbv)
  subst hW
  exact ⟨he, hlt, hv⟩

theorem montgomerySquare52_ok {a : List Nat} (ha : EnvIn a limbs52) (hav : val52 a < l) :
    EnvIn (montgomerySquare52 a) limbs52 ∧ val52 (montgomerySquare52 a) < l ∧
      val52 (montgomerySquare52 a) * 2 ^ 260 % l = val52 a * val52 a % l := by
  obtain ⟨a0, a1, a2, a3, a4, rfl⟩ := list_eq_of_length_5 (len_rep ha)
  obtain ⟨out, -, hW, he, hlt, hv⟩ := montgomery_square_spec a0 a1 a2 a3 a4 ha
    (Nat.mul_lt_mul'' (lt_trans hav (by norm_num [l])) hav)
  subst hW
  exact ⟨he, hlt, hv⟩

theorem asMontgomery52_ok {a : List Nat} (ha : EnvIn a limbs52) :
    EnvIn (asMontgomery52 a) limbs52 ∧ val52 (asMontgomery52 a) = val52 a * 2 ^ 260 % l := by
  obtain ⟨a0, a1, a2, a3, a4, rfl⟩ := list_eq_of_length_5 (len_rep ha)
  obtain ⟨out, -, hW, he, hv⟩ := as_montgomery_spec a0 a1 a2 a3 a4 ha
  subst hW
  exact ⟨he, hv⟩

theorem fromMontgomery52_ok {a : List Nat} (ha : EnvIn a limbs52) :
    EnvIn (fromMontgomery52 a) limbs52 ∧ val52 (fromMontgomery52 a) < l ∧
      val52 (fromMontgomery52 a) * 2 ^ 260 % l = val52 a % l := by
  obtain ⟨a0, a1, a2, a3, a4, rfl⟩ := list_eq_of_length_5 (len_rep ha)
  obtain ⟨out, -, hW, he, hlt, hv⟩ := from_montgomery_spec a0 a1 a2 a3 a4 ha
  subst hW
  exact ⟨he, hlt, hv⟩

theorem R_limbs : EnvIn U64.R limbs52 := by decide +kernel
theorem ZERO52_limbs : EnvIn ZERO52 limbs52 := by decide +kernel
theorem ZERO52_val : val52 ZERO52 = 0 := by decide +kernel

end Dalek.Proofs.ScalarApi

/-
Concrete facts about the field `ZMod (2^255 - 19)` used by the curve25519-dalek proofs:
`p ≡ 5 (mod 8)`, `sqrtM1 ^ 2 = -1`, the Edwards `d` constant (`d * 121666 = -121665`, `d` is a
non-square, `-1` is a square), `2 ≠ 0`, and Fermat inversion.

All big-number computations are kernel evaluations (`decide +kernel`) of closed `Nat` terms,
transferred to `ZMod` through the `powMod` bridge of `Dalek.Proofs.Primes`.
-/
import Dalek.Proofs.Primes
import Mathlib.NumberTheory.LegendreSymbol.Basic
import Mathlib.FieldTheory.Finite.Basic

namespace Dalek.FieldFacts

open Dalek.Primes

/-! ## Generic bridge helpers -/

/-- `m - 1` is `-1` in `ZMod m`. -/
theorem natCast_pred_eq_neg_one {m : Nat} (hm : 1 ≤ m) : ((m - 1 : Nat) : ZMod m) = -1 := by
  rw [Nat.cast_sub hm, ZMod.natCast_self, Nat.cast_one, zero_sub]

/-- To prove `a ^ e = -1` in `ZMod m`, evaluate `powMod a e m = m - 1` on naturals. -/
theorem zmod_pow_eq_neg_one_of_powMod {a e m : Nat} (hm : 1 ≤ m) (h : powMod a e m = m - 1) :
    (a : ZMod m) ^ e = -1 := by
  rw [← natCast_pred_eq_neg_one hm]
  exact zmod_pow_eq_of_powMod (by rw [h, Nat.mod_eq_of_lt (by omega)])

/-- A natural-number cast is zero in `ZMod m` when `a % m = 0` (kernel-checkable). -/
theorem natCast_eq_zero_of_mod {a m : Nat} (h : a % m = 0) : (a : ZMod m) = 0 :=
  (ZMod.natCast_eq_zero_iff a m).2 (Nat.dvd_of_mod_eq_zero h)

theorem natCast_ne_zero_of_mod {a m : Nat} (h : a % m ≠ 0) : (a : ZMod m) ≠ 0 := fun h0 =>
  h (Nat.mod_eq_zero_of_dvd ((ZMod.natCast_eq_zero_iff a m).1 h0))

/-! ## The field `ZMod (2^255 - 19)` -/

/-- `p ≡ 5 (mod 8)` (so square roots are computed by the Atkin / `(p+3)/8` method). -/
theorem p_mod_8 : (2 ^ 255 - 19) % 8 = 5 := by norm_num

theorem p_pos : 1 ≤ 2 ^ 255 - 19 := by norm_num

/-- `p` is odd: `(p - 1) / 2 = p / 2`. -/
theorem p_half : (2 ^ 255 - 19 - 1) / 2 = (2 ^ 255 - 19) / 2 := by norm_num

theorem p_sub_one : 2 ^ 255 - 19 - 1 = 2 ^ 255 - 20 := by norm_num
theorem p_sub_two : 2 ^ 255 - 19 - 2 = 2 ^ 255 - 21 := by norm_num

/-- Natural-number value of `sqrt(-1)` (the constant `SQRT_M1` of curve25519-dalek). -/
def sqrtM1Nat : Nat :=
  19681161376707505956807079304988542015446066515923890162744021073123829784752

/-- Natural-number value of the Edwards `d` constant `-121665/121666`. -/
def dNat : Nat :=
  37095705934669439343138083508754565189542113879843219016388785533085940283555

/-- `sqrt(-1)` in the field. -/
def sqrtM1 : ZMod (2 ^ 255 - 19) :=
  19681161376707505956807079304988542015446066515923890162744021073123829784752

/-- The Edwards curve constant `d = -121665/121666`. -/
def d : ZMod (2 ^ 255 - 19) :=
  37095705934669439343138083508754565189542113879843219016388785533085940283555

theorem sqrtM1_eq_cast : sqrtM1 = ((sqrtM1Nat : Nat) : ZMod (2 ^ 255 - 19)) := by
  simp only [sqrtM1, sqrtM1Nat, Nat.cast_ofNat]

theorem d_eq_cast : d = ((dNat : Nat) : ZMod (2 ^ 255 - 19)) := by
  simp only [d, dNat, Nat.cast_ofNat]

/-- `sqrtM1 ^ 2 = -1`. -/
theorem sqrtM1_sq : sqrtM1 ^ 2 = -1 := by
  rw [sqrtM1_eq_cast]
  exact zmod_pow_eq_neg_one_of_powMod p_pos (by decide +kernel)

theorem sqrtM1_mul_self : sqrtM1 * sqrtM1 = -1 := by
  rw [← pow_two, sqrtM1_sq]

/-- `-1` is a square in the field. -/
theorem isSquare_neg_one : IsSquare (-1 : ZMod (2 ^ 255 - 19)) :=
  ⟨sqrtM1, sqrtM1_mul_self.symm⟩

/-- `d * 121666 = -121665`, i.e. `d = -121665/121666`. -/
theorem d_mul : d * 121666 = -121665 := by
  rw [eq_neg_iff_add_eq_zero, d_eq_cast]
  have h : ((dNat * 121666 + 121665 : Nat) : ZMod (2 ^ 255 - 19)) = 0 :=
    natCast_eq_zero_of_mod (by decide +kernel)
  simpa using h

theorem d_ne_zero : d ≠ 0 := by
  rw [d_eq_cast]
  exact natCast_ne_zero_of_mod (by decide +kernel)

/-- Euler's criterion value for `d`: `d ^ ((p-1)/2) = -1`. -/
theorem d_pow_half : d ^ ((2 ^ 255 - 19 - 1) / 2) = -1 := by
  rw [d_eq_cast]
  exact zmod_pow_eq_neg_one_of_powMod p_pos (by decide +kernel)

theorem two_ne_zero_p : (2 : ZMod (2 ^ 255 - 19)) ≠ 0 := by
  have h : ((2 : Nat) : ZMod (2 ^ 255 - 19)) ≠ 0 := natCast_ne_zero_of_mod (by decide +kernel)
  simpa using h

theorem neg_one_ne_one_p : (-1 : ZMod (2 ^ 255 - 19)) ≠ 1 := by
  intro h
  apply two_ne_zero_p
  have : (1 : ZMod (2 ^ 255 - 19)) + 1 = 0 := by
    nth_rewrite 1 [← h]
    exact neg_add_cancel 1
  rw [← this]; norm_num

/-- `d` is not a square in the field (Euler's criterion). -/
theorem d_not_isSquare : ¬ IsSquare d := by
  rw [ZMod.euler_criterion (2 ^ 255 - 19) d_ne_zero, ← p_half, d_pow_half]
  exact neg_one_ne_one_p

/-- Fermat's little theorem. -/
theorem pow_p_sub_one {a : ZMod (2 ^ 255 - 19)} (ha : a ≠ 0) : a ^ (2 ^ 255 - 19 - 1) = 1 :=
  ZMod.pow_card_sub_one_eq_one ha

/-- Fermat inversion: `a ^ (p - 2) = a⁻¹` (for nonzero `a`). -/
theorem pow_p_sub_two {a : ZMod (2 ^ 255 - 19)} (ha : a ≠ 0) : a ^ (2 ^ 255 - 19 - 2) = a⁻¹ := by
  apply eq_inv_of_mul_eq_one_left
  rw [← pow_succ]
  exact pow_p_sub_one ha

/-- `0 ^ (p - 2) = 0`. -/
theorem zero_pow_p_sub_two : (0 : ZMod (2 ^ 255 - 19)) ^ (2 ^ 255 - 19 - 2) = 0 :=
  zero_pow (by norm_num)

/-- Fermat inversion, total version (`0⁻¹ = 0`). -/
theorem pow_p_sub_two' (a : ZMod (2 ^ 255 - 19)) : a ^ (2 ^ 255 - 19 - 2) = a⁻¹ := by
  by_cases ha : a = 0
  · subst ha; rw [zero_pow_p_sub_two, inv_zero]
  · exact pow_p_sub_two ha

/-- Same with the exponent written `2^255 - 21` (the addition chain of `FieldElement::invert`). -/
theorem pow_inv_exponent (a : ZMod (2 ^ 255 - 19)) : a ^ (2 ^ 255 - 21) = a⁻¹ := by
  rw [← p_sub_two]; exact pow_p_sub_two' a

theorem pow_fermat_exponent {a : ZMod (2 ^ 255 - 19)} (ha : a ≠ 0) : a ^ (2 ^ 255 - 20) = 1 := by
  rw [← p_sub_one]; exact pow_p_sub_one ha

end Dalek.FieldFacts

import Dalek.IR.Tactics
import Dalek.Proofs.AlgZModLemmas
import Mathlib.Tactic.Ring
/-! Tactics for proofs about shallow twins (`*_sh`) of translated AlgIR programs interpreted by `zmodOps`.

`alg_lets f` unfolds the shallow twin `f`, turns its `let` chain into local variables with defining
equations, rewrites the `zmodOps` operations into field operations, and then eliminates the variables
oldest first, normalising each defining equation with `ring_nf` before it is substituted.  The effect is
the same as `simp only [f, zmodOps_…]` followed by `ring_nf`, but every `ring_nf` call works on a small
term (the normal forms of the operands), which matters for the ~250-squaring exponent chains.
Nothing here is trusted: the tactics only build proof terms. -/
open Lean Elab Tactic Meta

/-- Eliminate all hypotheses `hL_i : x = v` produced by `lets_to_eqs`, oldest definition first
(`lets_to_eqs` numbers the latest definition `0`), normalising `v` by `ring_nf` before substituting. -/
elab "subst_lets_ring" : tactic => withMainContext do
  let lctx ← getLCtx
  let mut idx : Array Nat := #[]
  for d in lctx do
    if d.isImplementationDetail then continue
    let s := d.userName.toString
    if s.startsWith "hL_" then
      if let some n := (s.drop 3).toNat? then idx := idx.push n
  let sorted := idx.qsort (· > ·)
  for n in sorted do
    let h := mkIdent (Name.mkSimple s!"hL_{n}")
    evalTactic (← `(tactic| try ring_nf at $h:ident))
    evalTactic (← `(tactic| replace $h:ident := Eq.symm $h:ident))
    evalTactic (← `(tactic| subst $h:ident))

/-- the `rfl` lemmas unfolding the operations of `zmodOps` -/
macro "zmodOps_unfold_at_all" : tactic =>
  `(tactic| simp only [Dalek.Proofs.zmodOps_add, Dalek.Proofs.zmodOps_sub, Dalek.Proofs.zmodOps_mul,
      Dalek.Proofs.zmodOps_neg, Dalek.Proofs.zmodOps_square, Dalek.Proofs.zmodOps_square2,
      Dalek.Proofs.zmodOps_pow2k, Dalek.Proofs.zmodOps_ctEq, Dalek.Proofs.zmodOps_isNeg,
      Dalek.Proofs.zmodOps_isZero, Dalek.Proofs.zmodOps_cand, Dalek.Proofs.zmodOps_cor,
      Dalek.Proofs.zmodOps_cxor, Dalek.Proofs.zmodOps_cnot, Dalek.Proofs.zmodOps_csel,
      Dalek.Proofs.const_ZERO, Dalek.Proofs.const_ONE, Dalek.Proofs.const_FE_MINUS_ONE,
      Dalek.Proofs.const_MINUS_ONE, Dalek.Proofs.const_EDWARDS_D, Dalek.Proofs.const_EDWARDS_D2,
      Dalek.Proofs.const_SQRT_M1, Dalek.Proofs.c2f_ne_zero_iff, Dalek.Proofs.c2f_eq_zero_iff, ite_not] at *)

macro "alg_lets " f:ident : tactic =>
  `(tactic| (unfold $f; extract_lets; lets_to_eqs; zmodOps_unfold_at_all; subst_lets_ring;
             try simp only [Dalek.Proofs.c2f_ne_zero_iff, Dalek.Proofs.c2f_eq_zero_iff, ite_not]))

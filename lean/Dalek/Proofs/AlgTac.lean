import Dalek.IR.Tactics
import Dalek.Proofs.AlgZModLemmas
import Mathlib.Tactic.Ring
import Mathlib.Tactic.LinearCombination
/-! Tactics for proofs about shallow twins (`*_sh`) of translated AlgIR programs interpreted by `zmodOps`.

`alg_lets f` unfolds the shallow twin `f`, turns its `let` chain into local variables with defining
equations, rewrites the `zmodOps` operations into field operations, and then eliminates the variables
oldest first, normalising each defining equation with `ring_nf` before it is substituted.  The effect is
the same as `simp only [f, zmodOps_…]` followed by `ring_nf`, but every `ring_nf` call works on a small
term (the normal forms of the operands), which matters for the ~250-squaring exponent chains.
Intermediate values that are sums/differences are kept as atoms while the chain is normalised; with
`alg_lets f [c₁, …]` they are identified (by `linear_combination`) with variables of the goal introduced
by `generalize cᵢ : sᵢ = uᵢ`, so that e.g. `(Z - Y)^(p-2)` is never expanded as a polynomial.
The proofs never mention SSA variable numbers or the shape of the generated code.
Nothing here is trusted: the tactics only build proof terms. -/
open Lean Elab Tactic Meta

/-- indices `n` of the hypotheses `hL_n` in the context, oldest definition first
(`lets_to_eqs` numbers the latest definition `0`) -/
def hLIndices : TacticM (Array Nat) := withMainContext do
  let lctx ← getLCtx
  let mut idx : Array Nat := #[]
  for d in lctx do
    if d.isImplementationDetail then continue
    let s := d.userName.toString
    if s.startsWith "hL_" then
      if let some n := (s.drop 3).toNat? then idx := idx.push n
  return idx.qsort (· > ·)

/-- the two sides of the equation that is the type of the hypothesis named `n` -/
def eqSidesOf (n : Name) : TacticM (Option (Expr × Expr)) := withMainContext do
  let lctx ← getLCtx
  let some d := lctx.findFromUserName? n | return none
  let t ← instantiateMVars d.type
  let some (_, l, r) := t.eq? | return none
  return some (l, r)

/-- Eliminate the hypotheses `hL_i : x = v` produced by `lets_to_eqs`, oldest definition first,
normalising `v` by `ring_nf` before substituting.  Definitions whose normal form is a sum or a
difference are KEPT as atoms (so that a later exponent chain is applied to a variable, not to a
polynomial); they are dealt with by `alg_match` / `subst_lets_rest`. -/
elab "subst_lets_ring" : tactic => do
  for n in (← hLIndices) do
    let hn := Name.mkSimple s!"hL_{n}"
    let h := mkIdent hn
    evalTactic (← `(tactic| try ring_nf at $h:ident))
    let keep ← do
      match ← eqSidesOf hn with
      | some (_, r) => pure (r.isAppOf ``HAdd.hAdd || r.isAppOf ``HSub.hSub)
      | none => pure false
    unless keep do
      evalTactic (← `(tactic| replace $h:ident := Eq.symm $h:ident))
      evalTactic (← `(tactic| subst $h:ident))

/-- `alg_match [c₁, …]`: for every kept hypothesis `hL_i : x = s` and the first given hypothesis
`c : s' = u` with `s = s'` (checked by `linear_combination`), replace `x` by `u` everywhere. -/
elab "alg_match " "[" cs:ident,* "]" : tactic => do
  for n in (← hLIndices) do
    let hn := Name.mkSimple s!"hL_{n}"
    let h := mkIdent hn
    for c in cs.getElems do
      let st ← saveState
      try
        let some (x, _) ← eqSidesOf hn | throwError "no equation"
        let some (_, u) ← eqSidesOf c.getId | throwError "no equation"
        let xs ← withMainContext <| Tactic.runTermElab (Term.exprToSyntax x)
        let us ← withMainContext <| Tactic.runTermElab (Term.exprToSyntax u)
        Tactic.withoutRecover <| evalTactic
          (← `(tactic| replace $h:ident : $xs = $us := by linear_combination $h:ident + $c:ident))
        evalTactic (← `(tactic| replace $h:ident := Eq.symm $h:ident))
        evalTactic (← `(tactic| subst $h:ident))
        break
      catch _ => st.restore

/-- substitute all remaining `hL_i : x = v` (oldest first) -/
elab "subst_lets_rest" : tactic => do
  for n in (← hLIndices) do
    let h := mkIdent (Name.mkSimple s!"hL_{n}")
    evalTactic (← `(tactic| replace $h:ident := Eq.symm $h:ident))
    evalTactic (← `(tactic| subst $h:ident))

/-- the `rfl` lemmas unfolding the operations of `zmodOps` -/
macro "zmodOps_unfold_at_all" : tactic =>
  `(tactic| simp only [Dalek.Proofs.zmodOps_add, Dalek.Proofs.zmodOps_sub, Dalek.Proofs.zmodOps_mul,
      Dalek.Proofs.zmodOps_neg, Dalek.Proofs.zmodOps_square, Dalek.Proofs.zmodOps_square2,
      Dalek.Proofs.zmodOps_pow2k, Dalek.Proofs.zmodOps_ctEq, Dalek.Proofs.zmodOps_isNeg,
      Dalek.Proofs.zmodOps_isZero, Dalek.Proofs.zmodOps_cand, Dalek.Proofs.zmodOps_cor,
      Dalek.Proofs.zmodOps_cxor, Dalek.Proofs.zmodOps_cnot, Dalek.Proofs.zmodOps_csel,
      Dalek.Proofs.const_ZERO, Dalek.Proofs.const_ONE, Dalek.Proofs.const_FE_MINUS_ONE,
      Dalek.Proofs.const_MINUS_ONE, Dalek.Proofs.const_EDWARDS_D, Dalek.Proofs.const_EDWARDS_D2,
      Dalek.Proofs.const_SQRT_M1, Dalek.Proofs.c2f_ne_zero_iff, Dalek.Proofs.c2f_eq_zero_iff, ite_not] at *)

/-- `alg_lets f`: see the module doc.  `alg_lets f [c₁, …]` additionally identifies intermediate sums
with the variables given by hypotheses `cᵢ : sᵢ = uᵢ` (obtained by `generalize cᵢ : sᵢ = uᵢ` on the
goal), so that exponent chains applied to such sums are normalised with `uᵢ` as an atom. -/
syntax "alg_lets " ident (" [" ident,* "]")? : tactic
macro_rules
  | `(tactic| alg_lets $f:ident) =>
    `(tactic| (unfold $f; extract_lets; lets_to_eqs; zmodOps_unfold_at_all; subst_lets_ring; subst_lets_rest;
               try simp only [Dalek.Proofs.c2f_ne_zero_iff, Dalek.Proofs.c2f_eq_zero_iff, ite_not]))
  | `(tactic| alg_lets $f:ident [$cs,*]) =>
    `(tactic| (unfold $f; extract_lets; lets_to_eqs; zmodOps_unfold_at_all; subst_lets_ring;
               alg_match [$cs,*]; subst_lets_rest;
               try simp only [Dalek.Proofs.c2f_ne_zero_iff, Dalek.Proofs.c2f_eq_zero_iff, ite_not]))

/-
Algebra of ristretto255 in the field `Fp`, about the field functions of `Proofs/RisFormulas.lean`
(which the translated formulas compute): the decoded point is on the curve, and re-encoding a decoded
point gives back `s` (RFC 9496 round trip `ENCODE ∘ DECODE = id` on accepted strings).
-/
import Dalek.Proofs.RisFormulas
import Dalek.Proofs.AlgEdwardsLemmas

namespace Dalek.Proofs.Ris

open Dalek.IR Dalek.Spec Dalek.Gen Dalek.Proofs
open Dalek.Edwards
open Dalek.FieldFacts (d sqrtM1)

/-! ## Signs -/

theorem fpAbs_of_not_neg {x : Fp} (h : ¬ fpIsNeg x) : fpAbs x = x := by
  unfold fpAbs; rw [if_neg h]

theorem fpAbs_of_neg {x : Fp} (h : fpIsNeg x) : fpAbs x = -x := by
  unfold fpAbs; rw [if_pos h]

theorem fpAbs_zero : fpAbs (0 : Fp) = 0 := fpAbs_of_not_neg not_fpIsNeg_zero

theorem fpAbs_sq (x : Fp) : fpAbs x ^ 2 = x ^ 2 := by
  unfold fpAbs; split
  · ring
  · rfl

theorem fpAbs_eq_zero_iff {x : Fp} : fpAbs x = 0 ↔ x = 0 := by
  constructor
  · intro h
    have := fpAbs_sq x
    rw [h] at this
    exact (pow_eq_zero_iff (two_ne_zero)).1 this.symm
  · rintro rfl; exact fpAbs_zero

theorem not_fpIsNeg_fpAbs (x : Fp) : ¬ fpIsNeg (fpAbs x) := by
  by_cases h : fpIsNeg x
  · rw [fpAbs_of_neg h]
    have hx : x ≠ 0 := by rintro rfl; exact not_fpIsNeg_zero h
    rw [fpIsNeg_neg hx]; exact not_not.2 h
  · rw [fpAbs_of_not_neg h]; exact h

theorem fpAbs_neg (x : Fp) : fpAbs (-x) = fpAbs x := by
  by_cases hx : x = 0
  · rw [hx, neg_zero]
  by_cases h : fpIsNeg x
  · rw [fpAbs_of_neg h, fpAbs_of_not_neg ((fpIsNeg_neg hx).not.2 (not_not.2 h))]
  · rw [fpAbs_of_not_neg h, fpAbs_of_neg ((fpIsNeg_neg hx).2 h), neg_neg]

/-- the non-negative square root is unique -/
theorem fpAbs_eq_of_sq_eq {z s : Fp} (h : z ^ 2 = s ^ 2) (hs : ¬ fpIsNeg s) : fpAbs z = s := by
  have h' : (z - s) * (z + s) = 0 := by linear_combination h
  rcases mul_eq_zero.1 h' with h1 | h1
  · rw [sub_eq_zero.1 h1]; exact fpAbs_of_not_neg hs
  · have : z = -s := by linear_combination h1
    rw [this, fpAbs_neg]; exact fpAbs_of_not_neg hs

/-! ## DECODE: the point is on the curve -/

/-- what a successful `invsqrt` in `step_2` gives: with `I = invsqrt(v u2²)`: `I² v u2² = 1`,
`x² v = 4 s²`, `y u2 = u1`. -/
theorem dec_facts {s : Fp} (hok : (decI s).1 = 1) :
    (decI s).2 ^ 2 * (decV s * (1 + s ^ 2) ^ 2) = 1 ∧ decX s ^ 2 * decV s = 4 * s ^ 2 ∧
      decY s * (1 + s ^ 2) = 1 - s ^ 2 := by
  have hI : (decI s).2 ^ 2 * (decV s * (1 + s ^ 2) ^ 2) = 1 := sqrtRatioFp_ok hok
  refine ⟨hI, ?_, ?_⟩
  · unfold decX; rw [fpAbs_sq]
    linear_combination (4 * s ^ 2) * hI
  · unfold decY
    linear_combination (1 - s ^ 2) * hI

theorem dec_ne_zero {s : Fp} (hok : (decI s).1 = 1) : decV s ≠ 0 ∧ 1 + s ^ 2 ≠ 0 ∧ (decI s).2 ≠ 0 := by
  have hI := (dec_facts hok).1
  refine ⟨?_, ?_, ?_⟩
  · intro h; rw [h] at hI; simp at hI
  · intro h; rw [h] at hI; simp at hI
  · intro h; rw [h] at hI; simp at hI

/-- **The decoded point satisfies the curve equation.** -/
theorem dec_onCurve {s : Fp} (hok : (decI s).1 = 1) : Dalek.Edwards.onCurve d (decX s) (decY s) := by
  obtain ⟨-, hx, hy⟩ := dec_facts hok
  obtain ⟨hv, hu2, -⟩ := dec_ne_zero hok
  unfold Dalek.Edwards.onCurve
  have hne : decV s * (1 + s ^ 2) ^ 2 ≠ 0 := mul_ne_zero hv (pow_ne_zero _ hu2)
  apply mul_right_cancel₀ hne
  have hvdef : decV s = -d * (1 - s ^ 2) ^ 2 - (1 + s ^ 2) ^ 2 := rfl
  generalize decX s = X at hx ⊢
  generalize decY s = Y at hy ⊢
  generalize decV s = v at hx hvdef ⊢
  linear_combination (-(1 + s ^ 2) ^ 2 - d * Y ^ 2 * (1 + s ^ 2) ^ 2) * hx +
    ((Y * (1 + s ^ 2) + (1 - s ^ 2)) * (v - 4 * d * s ^ 2)) * hy +
    ((1 - s ^ 2) ^ 2 - (1 + s ^ 2) ^ 2) * hvdef

/-! ## ENCODE ∘ DECODE -/

/-- the identity: `s = 0` decodes to `(0, 1)` -/
theorem dec_zero {s : Fp} (hs0 : s = 0) (hok : (decI s).1 = 1) : decX s = 0 ∧ decY s = 1 := by
  obtain ⟨-, -, hy⟩ := dec_facts hok
  refine ⟨?_, ?_⟩
  · unfold decX; rw [hs0, add_zero, zero_mul]; exact fpAbs_zero
  · linear_combination hy - (s * decY s + s) * hs0

theorem encS_identity : encS 0 1 1 0 = 0 := by
  have hJ : encI 0 1 1 = 0 := by
    unfold encI
    have h0 : ((1 : Fp) + 1) * (1 - 1) * (0 * 1) ^ 2 = 0 := by ring
    rw [h0, ((sqrtRatioFp_spec 1 0).2.1 rfl one_ne_zero)]
  unfold encS encDen
  rw [hJ]
  simp only [zero_mul, ite_self]
  exact fpAbs_zero

/-- **Round trip in the field**: if `step_2` accepts a non-negative `s`, then `compress` of the decoded point
`(x, y, 1, x y)` computes `s`. -/
theorem encS_dec {s : Fp} (hs : ¬ fpIsNeg s) (hok : (decI s).1 = 1) (ht : ¬ fpIsNeg (decT s))
    (hy0 : decY s ≠ 0) : encS (decX s) (decY s) 1 (decT s) = s := by
  by_cases hs0 : s = 0
  · obtain ⟨hx, hy⟩ := dec_zero hs0 hok
    have hT : decT s = 0 := by unfold decT; rw [hx, zero_mul]
    rw [hT, hx, hy, hs0]; exact encS_identity
  obtain ⟨hI, hx, hy⟩ := dec_facts hok
  obtain ⟨hv, hu2, hI0⟩ := dec_ne_zero hok
  have hxneg : ¬ fpIsNeg (decX s) := not_fpIsNeg_fpAbs _
  have hT : decT s = decX s * decY s := rfl
  have hvdef : decV s = -d * (1 - s ^ 2) ^ 2 - (1 + s ^ 2) ^ 2 := rfl
  generalize decT s = T at ht hT
  generalize decX s = X at hx hxneg hT
  generalize decY s = Y at hy hy0 hT
  generalize decV s = v at hx hI hv hvdef
  generalize (decI s).2 = I at hI hI0
  subst hT
  -- the argument of the second invsqrt is a nonzero square
  have hW : (1 + Y) * (1 - Y) * (X * Y) ^ 2 = (4 * s ^ 2 * Y * I) ^ 2 := by
    have hne : v * (1 + s ^ 2) ^ 2 ≠ 0 := mul_ne_zero hv (pow_ne_zero _ hu2)
    apply mul_right_cancel₀ hne
    linear_combination (Y ^ 2 * ((1 + s ^ 2) ^ 2 - (Y * (1 + s ^ 2)) ^ 2)) * hx
      - (4 * s ^ 2 * Y ^ 2 * (Y * (1 + s ^ 2) + (1 - s ^ 2))) * hy - (16 * s ^ 4 * Y ^ 2) * hI
  have hW0 : (1 + Y) * (1 - Y) * (X * Y) ^ 2 ≠ 0 := by
    rw [hW]
    have h4 : (4 : Fp) ≠ 0 := by
      rw [show (4 : Fp) = 2 * 2 by ring]
      exact mul_ne_zero Dalek.FieldFacts.two_ne_zero_p Dalek.FieldFacts.two_ne_zero_p
    exact pow_ne_zero _ (mul_ne_zero (mul_ne_zero (mul_ne_zero h4 (pow_ne_zero _ hs0)) hy0) hI0)
  have hsq : IsSquare (1 / ((1 + Y) * (1 - Y) * (X * Y) ^ 2)) := by
    rw [one_div, isSquare_inv, hW]; exact ⟨_, sq _⟩
  have hJ : encI X Y 1 ^ 2 * ((1 + Y) * (1 - Y) * (X * Y) ^ 2) = 1 :=
    ((sqrtRatioFp_spec 1 _).2.2.1 hW0 hsq).2
  have hz : encZinv X Y 1 (X * Y) = 1 := by
    unfold encZinv; linear_combination hJ
  have hrot : ¬ encRot X Y 1 (X * Y) := by
    show ¬ fpIsNeg (X * Y * encZinv X Y 1 (X * Y)); rw [hz, mul_one]; exact ht
  have hX : encX X Y 1 (X * Y) = X := by unfold encX; rw [if_neg hrot]
  have hY0 : encY0 X Y 1 (X * Y) = Y := by unfold encY0; rw [if_neg hrot]
  have hDen : encDen X Y 1 (X * Y) = encI X Y 1 * (X * Y) := by unfold encDen; rw [if_neg hrot]
  have hY : encY X Y 1 (X * Y) = Y := by
    unfold encY; rw [hX, hz, mul_one, if_neg hxneg, hY0]
  unfold encS
  rw [hDen, hY]
  apply fpAbs_eq_of_sq_eq _ hs
  have h1Y : (1 + Y) ≠ 0 := by
    intro h
    have : (1 + Y) * (1 + s ^ 2) = 2 := by linear_combination hy
    rw [h, zero_mul] at this
    exact Dalek.FieldFacts.two_ne_zero_p this.symm
  apply mul_right_cancel₀ h1Y
  have e1 : (encI X Y 1 * (X * Y) * (1 - Y)) ^ 2 * (1 + Y) = 1 - Y := by
    linear_combination (1 - Y) * hJ
  rw [e1]
  apply mul_right_cancel₀ hu2
  linear_combination (-1 - s ^ 2) * hy

/-! ## MAP (Elligator): the image is on the curve -/

open Dalek.Bridge (Ed edParams edParams_d)

theorem d_ne_neg_one : d ≠ -1 := by
  intro h; exact Dalek.FieldFacts.d_not_isSquare (h ▸ Dalek.FieldFacts.isSquare_neg_one)

theorem d_ne_one : d ≠ 1 := by
  intro h; exact Dalek.FieldFacts.d_not_isSquare (h ▸ ⟨1, (mul_one 1).symm⟩)

/-- `-d` is not a square (`-1` is, `d` is not) -/
theorem neg_d_not_isSquare : ¬ IsSquare (-d) := by
  rintro ⟨w, hw⟩
  apply Dalek.FieldFacts.d_not_isSquare
  refine ⟨sqrtM1 * w, ?_⟩
  have hi := Dalek.FieldFacts.sqrtM1_mul_self
  linear_combination (-1 : Fp) * hw - (w * w) * hi

/-- `(1+s²)² + d (1−s²)² ≠ 0` -/
theorem mapE_ne_zero (s : Fp) : (1 + s ^ 2) ^ 2 + d * (1 - s ^ 2) ^ 2 ≠ 0 := by
  intro h
  by_cases h1 : 1 - s ^ 2 = 0
  · rw [h1] at h
    have h2 : (1 + s ^ 2) ^ 2 = 0 := by linear_combination h
    have h3 : 1 + s ^ 2 = 0 := (pow_eq_zero_iff two_ne_zero).1 h2
    apply Dalek.FieldFacts.two_ne_zero_p
    linear_combination h1 + h3
  · apply neg_d_not_isSquare
    refine ⟨(1 + s ^ 2) / (1 - s ^ 2), ?_⟩
    field_simp
    linear_combination -h

/-- Core of the Elligator argument: from `N²(d+1) = v²((1+s²)² + d(1−s²)²)` with `v ≠ 0`, the completed point
`((2sv : N q), (1−s² : 1+s²))` (`q² = ad − 1`) is a point of the curve. -/
theorem map_core {s v N q : Fp} (hq : q ^ 2 = -d - 1) (hv : v ≠ 0)
    (hK : N ^ 2 * (d + 1) = v ^ 2 * ((1 + s ^ 2) ^ 2 + d * (1 - s ^ 2) ^ 2)) :
    N * q ≠ 0 ∧ 1 + s ^ 2 ≠ 0 ∧ onCurve d (2 * s * v / (N * q)) ((1 - s ^ 2) / (1 + s ^ 2)) := by
  have hq0 : q ≠ 0 := by
    intro h; rw [h] at hq
    apply d_ne_neg_one; linear_combination hq
  have hN : N ≠ 0 := by
    intro h; rw [h] at hK
    have : v ^ 2 * ((1 + s ^ 2) ^ 2 + d * (1 - s ^ 2) ^ 2) = 0 := by linear_combination -hK
    rcases mul_eq_zero.1 this with h' | h'
    · exact hv ((pow_eq_zero_iff two_ne_zero).1 h')
    · exact mapE_ne_zero s h'
  have hw3 : 1 + s ^ 2 ≠ 0 := by
    intro h
    apply Dalek.FieldFacts.d_not_isSquare
    refine ⟨sqrtM1 * N * q / (2 * v), ?_⟩
    have hi := Dalek.FieldFacts.sqrtM1_mul_self
    have h2 := Dalek.FieldFacts.two_ne_zero_p
    have hs2 : s ^ 2 = -1 := by linear_combination h
    field_simp
    linear_combination (-(N ^ 2 * q ^ 2)) * hi + (N ^ 2) * hq - hK
      - (v ^ 2 * ((1 + s ^ 2) - d * (3 - s ^ 2))) * hs2
  refine ⟨mul_ne_zero hN hq0, hw3, ?_⟩
  apply onCurve_div (mul_ne_zero hN hq0) hw3
  linear_combination (4 * s ^ 2) * hK + (-4 * s ^ 2 * N ^ 2) * hq

/-- the two polynomial identities behind Elligator (square / non-square branch) -/
theorem map_identity_sq (r : Fp) :
    (-1 * (r - 1) * (d - 1) ^ 2 - (-1 - d * r) * (r + d)) ^ 2 * (d + 1) =
      ((-1 - d * r) * (r + d) + (r + 1) * (1 - d ^ 2)) ^ 2 +
        d * ((-1 - d * r) * (r + d) - (r + 1) * (1 - d ^ 2)) ^ 2 := by ring

theorem map_identity_nonsq (r : Fp) :
    (r * (r - 1) * (d - 1) ^ 2 - (-1 - d * r) * (r + d)) ^ 2 * (d + 1) =
      ((-1 - d * r) * (r + d) + r * ((r + 1) * (1 - d ^ 2))) ^ 2 +
        d * ((-1 - d * r) * (r + d) - r * ((r + 1) * (1 - d ^ 2))) ^ 2 := by ring

theorem fpNegAbs_sq (x : Fp) : fpNegAbs x ^ 2 = x ^ 2 := by
  rw [fpNegAbs_eq, neg_sq, fpAbs_sq]

theorem fpNegAbs_zero : fpNegAbs (0 : Fp) = 0 := by
  rw [fpNegAbs_eq, fpAbs_zero, neg_zero]

/-- **Elligator lands on the curve**: for every `t`, the completed point `((w0 : w1), (w2 : w3))` computed by
`elligator_ristretto_flavor` / RFC 9496 MAP denotes a point of the Ed25519 curve (both denominators are nonzero). -/
theorem map_valid (t : Fp) : ∃ Q : Ed, RepCompleted Q (mapW0 t) (mapW2 t) (mapW1 t) (mapW3 t) := by
  have hc6 : zmodOps.const 6 = 1 - d ^ 2 := const_ONE_MINUS_EDWARDS_D_SQUARED
  have hc7 : zmodOps.const 7 = (d - 1) ^ 2 := const_EDWARDS_D_MINUS_ONE_SQUARED
  have hq : sqrtADm1 ^ 2 = -d - 1 := const_SQRT_AD_MINUS_ONE_sq
  have hd1 : d - 1 ≠ 0 := sub_ne_zero.2 d_ne_one
  have hd1' : d + 1 ≠ 0 := fun h => d_ne_neg_one (by linear_combination h)
  suffices h : mapW1 t ≠ 0 ∧ mapW3 t ≠ 0 ∧ onCurve d (mapW0 t / mapW1 t) (mapW2 t / mapW3 t) by
    obtain ⟨h1, h3, hc⟩ := h
    exact ⟨⟨_, _, hc⟩, h1, h3, rfl, rfl⟩
  have hW0 : mapW0 t = 2 * mapS t * mapV t := by unfold mapW0; ring
  have hUdef : mapU t = (mapR t + 1) * (1 - d ^ 2) := by unfold mapU; rw [hc6]
  have hVdef : mapV t = (-1 - d * mapR t) * (mapR t + d) := rfl
  have hNdef : mapN t = mapC t * (mapR t - 1) * (d - 1) ^ 2 - mapV t := by unfold mapN; rw [hc7]
  have hRdef : mapR t = sqrtM1 * t ^ 2 := rfl
  have hSq : mapSq t = sqrtRatioFp (mapU t) (mapV t) := rfl
  rw [hW0]
  unfold mapW1 mapW2 mapW3
  -- `u = 0` forces `v ≠ 0`
  have hu_v : mapU t = 0 → mapV t ≠ 0 := by
    intro hu hv
    rw [hUdef] at hu; rw [hVdef] at hv
    have hr : mapR t = -1 := by
      rcases mul_eq_zero.1 hu with h | h
      · linear_combination h
      · exfalso
        have : (1 - d) * (1 + d) = 0 := by linear_combination h
        rcases mul_eq_zero.1 this with h' | h'
        · exact hd1 (by linear_combination -h')
        · exact hd1' (by linear_combination h')
    rw [hr] at hv
    have : (d - 1) ^ 2 = 0 := by linear_combination hv
    exact hd1 ((pow_eq_zero_iff two_ne_zero).1 this)
  rcases sqrtRatioFp_flag (mapU t) (mapV t) with h0 | h1
  · -- not a square: `s = -|s0 t|`, `c = r`
    have hflag : ¬ (mapSq t).1 ≠ 0 := by rw [hSq, h0]; exact not_not.2 rfl
    have hS : mapS t = fpNegAbs ((mapSq t).2 * t) := by unfold mapS; rw [if_neg hflag]
    have hC : mapC t = mapR t := by unfold mapC; rw [if_neg hflag]
    have hnot : ¬ (mapU t = 0 ∨ (mapV t ≠ 0 ∧ IsSquare (mapU t / mapV t))) := by
      rw [← sqrtRatioFp_ok_iff, h0]; exact zero_ne_one
    have hu : mapU t ≠ 0 := fun h => hnot (Or.inl h)
    by_cases hv : mapV t = 0
    · -- `v = 0`: `s = 0`, the image is the identity
      have hs0 : mapS t = 0 := by
        rw [hS, hSq, (sqrtRatioFp_spec _ _).2.1 hv hu, zero_mul]; exact fpNegAbs_zero
      have hr0 : mapR t ≠ 0 := by
        intro h; rw [hVdef, h] at hv
        exact Dalek.FieldFacts.d_ne_zero (by linear_combination -hv)
      have hr1 : mapR t - 1 ≠ 0 := by
        intro h
        have h' : mapR t = 1 := by linear_combination h
        rw [hVdef, h'] at hv
        have : (d + 1) ^ 2 = 0 := by linear_combination -hv
        exact hd1' ((pow_eq_zero_iff two_ne_zero).1 this)
      have hN : mapN t ≠ 0 := by
        rw [hNdef, hC, hv, sub_zero]
        exact mul_ne_zero (mul_ne_zero hr0 hr1) (pow_ne_zero _ hd1)
      have hq0 : sqrtADm1 ≠ 0 := by
        intro h; rw [h] at hq; exact hd1' (by linear_combination hq)
      rw [hs0]
      refine ⟨mul_ne_zero hN hq0, by rw [zero_pow two_ne_zero, add_zero]; exact one_ne_zero, ?_⟩
      unfold Dalek.Edwards.onCurve
      rw [mul_zero, zero_mul, zero_div]; ring
    · have hns : ¬ IsSquare (mapU t / mapV t) := fun h => hnot (Or.inr ⟨hv, h⟩)
      have h4 := ((sqrtRatioFp_spec (mapU t) (mapV t)).2.2.2 hv hns).2
      rw [← hSq] at h4
      have hs : mapS t ^ 2 * mapV t = mapR t * mapU t := by
        rw [hS, fpNegAbs_sq, hRdef]; linear_combination (t ^ 2) * h4
      have hK : mapN t ^ 2 * (d + 1) =
          mapV t ^ 2 * ((1 + mapS t ^ 2) ^ 2 + d * (1 - mapS t ^ 2) ^ 2) := by
        have hid := map_identity_nonsq (mapR t)
        rw [hNdef, hC]
        rw [hUdef] at hs
        rw [hVdef] at hs ⊢
        generalize mapR t = r at hs hid ⊢
        generalize mapS t = s at hs ⊢
        linear_combination hid - ((2 * ((-1 - d * r) * (r + d)) + s ^ 2 * ((-1 - d * r) * (r + d))
          + r * ((r + 1) * (1 - d ^ 2))) - d * (2 * ((-1 - d * r) * (r + d)) - s ^ 2 * ((-1 - d * r) * (r + d))
          - r * ((r + 1) * (1 - d ^ 2)))) * hs
      exact map_core hq hv hK
  · -- a square: `s = s0`, `c = -1`
    have hflag : (mapSq t).1 ≠ 0 := by rw [hSq, h1]; exact one_ne_zero
    have hS : mapS t = (mapSq t).2 := by unfold mapS; rw [if_pos hflag]
    have hC : mapC t = -1 := by unfold mapC; rw [if_pos hflag]
    have hs : mapS t ^ 2 * mapV t = mapU t := by rw [hS, hSq]; exact sqrtRatioFp_ok h1
    have hv : mapV t ≠ 0 := by
      intro hv
      refine hu_v ?_ hv
      rw [← hs, hv, mul_zero]
    have hK : mapN t ^ 2 * (d + 1) =
        mapV t ^ 2 * ((1 + mapS t ^ 2) ^ 2 + d * (1 - mapS t ^ 2) ^ 2) := by
      have hid := map_identity_sq (mapR t)
      rw [hNdef, hC]
      rw [hUdef] at hs
      rw [hVdef] at hs ⊢
      generalize mapR t = r at hs hid ⊢
      generalize mapS t = s at hs ⊢
      linear_combination hid - ((2 * ((-1 - d * r) * (r + d)) + s ^ 2 * ((-1 - d * r) * (r + d))
        + (r + 1) * (1 - d ^ 2)) - d * (2 * ((-1 - d * r) * (r + d)) - s ^ 2 * ((-1 - d * r) * (r + d))
        - (r + 1) * (1 - d ^ 2))) * hs
    exact map_core hq hv hK

end Dalek.Proofs.Ris

/-
C04 layer 2, helper lemmas (part 2): the multiscalar algorithms (Straus constant-time and variable-time,
vartime double-base, precomputed Straus) at DIGIT level, over an arbitrary commutative group.
-/
import Dalek.Proofs.ScalarMul
import Mathlib.Data.List.GetD

namespace Dalek.Proofs.ScalarMul
open Dalek.Model.ScalarMul Dalek.Model.Recode

variable {G : Type} [AddCommGroup G]

/-- value of a digit list: `Σ_{i<n} dᵢ·2^(w·i)` -/
def digVal (w n : ℕ) (d : List ℤ) : ℤ := ∑ i ∈ Finset.range n, d.getD i 0 * 2 ^ (w * i)

/-- `Σ (digit value) • point` over the zipped lists -/
def zipSum (w n : ℕ) (ds : List (List ℤ)) (ps : List G) : G :=
  ((List.zip ds ps).map fun dp => digVal w n dp.1 • dp.2).sum

/-- outer loop `for j in (0..n).rev()`, inner loop over a list, every inner step adds `digit • point` -/
theorem multi_horner {α : Type} (w n : ℕ) (l : List α) (stp : ℕ → G → α → G) (pre : G → G)
    (dig : α → ℕ → ℤ) (pt : α → G) (hpre : ∀ Q, pre Q = ((2 : ℤ) ^ w) • Q)
    (h : ∀ j, j < n → ∀ x ∈ l, ∀ Q, stp j Q x = Q + dig x j • pt x) :
    (List.range n).reverse.foldl (fun acc j => l.foldl (stp j) (pre acc)) 0
      = (l.map fun x => (∑ j ∈ Finset.range n, dig x j * 2 ^ (w * j)) • pt x).sum := by
  rw [foldl_congr_mem _ (fun acc j => ((2 : ℤ) ^ w) • acc + (l.map fun x => dig x j • pt x).sum)]
  · rw [horner_fold, smul_zero, zero_add, sum_smul_list_sum]
    congr 1
    refine List.map_congr_left fun x _ => ?_
    rw [sum_smul_smul]
  · intro acc j hj
    rw [List.mem_reverse, List.mem_range] at hj
    rw [foldl_congr_mem _ (fun Q x => Q + dig x j • pt x) l _ (fun Q x hx => h j hj x hx Q),
      foldl_add_eq, hpre]

/-! ### Straus, constant time -/

/-- digit ranges of `as_radix_16` (all 64 digits in `[-8, 8]`) -/
def Radix16Range (d : List ℤ) : Prop := ∀ i, i < 64 → -8 ≤ d.getD i 0 ∧ d.getD i 0 ≤ 8

theorem select16 {d : List ℤ} (h : Radix16Range d) (P : G) (i : ℕ) (hi : i < 64) :
    selectModel groupOps (lookupTableFrom groupOps 8 P) (d.getD i 0) = d.getD i 0 • P := by
  have := h i hi
  exact selectModel_eq (lookupTableFrom_isTable 8 P) (by push_cast; omega) (by push_cast; omega)
    (by omega) (by omega)

theorem strausCT_eq (digits : List (List ℤ)) (points : List G) (hd : ∀ d ∈ digits, Radix16Range d) :
    strausCT groupOps digits points = zipSum 4 64 digits points := by
  unfold strausCT zipSum digVal
  simp only [List.zip_map_right, List.foldl_map, groupOps_zero]
  exact multi_horner 4 64 (List.zip digits points) _ _ (fun dp j => dp.1.getD j 0) (fun dp => dp.2)
    (fun Q => mulByPow2_eq 4 Q) (fun j hj x hx Q => by
      obtain ⟨d, P⟩ := x
      have := (List.of_mem_zip hx).1
      simp only [Prod.map, id, groupOps_add]
      rw [select16 (hd d this) P j hj])

/-! ### `collect::<Option<Vec<_>>>` -/

theorem collectOption_map_some {α : Type} (l : List α) : collectOption (l.map some) = some l := by
  induction l with
  | nil => rfl
  | cons a l ih => simp [collectOption, ih]

theorem collectOption_eq_some {α : Type} {l : List (Option α)} {r : List α}
    (h : collectOption l = some r) : l = r.map some := by
  induction l generalizing r with
  | nil => simp [collectOption] at h; subst h; rfl
  | cons a l ih =>
    cases a with
    | none => simp [collectOption] at h
    | some a =>
      simp only [collectOption, Option.map_eq_some_iff] at h
      obtain ⟨r', hr', rfl⟩ := h
      rw [ih hr']; rfl

theorem collectOption_eq_none_iff {α : Type} (l : List (Option α)) :
    collectOption l = none ↔ none ∈ l := by
  induction l with
  | nil => simp [collectOption]
  | cons a l ih =>
    cases a with
    | none => simp [collectOption]
    | some a => simp [collectOption, ih]

/-! ### Straus, variable time (width-5 NAF) -/

/-- digit shape of a width-`k` NAF: every digit is `0` or odd with `|d| < 2^(k-1)` -/
def NafRange (k : ℕ) (d : List ℤ) : Prop :=
  ∀ i, d.getD i 0 = 0 ∨ (d.getD i 0 % 2 = 1 ∧ -(2 ^ (k - 1) : ℤ) < d.getD i 0 ∧ d.getD i 0 < 2 ^ (k - 1))

theorem nafStep5 {d : List ℤ} (h : NafRange 5 d) {table : List G} {A : G} (ht : IsOddTable table 8 A)
    (t : G) (i : ℕ) : nafStep groupOps t table (d.getD i 0) = t + d.getD i 0 • A := by
  refine nafStep_eq ht t ?_
  rcases h i with h0 | ⟨h1, h2, h3⟩
  · exact Or.inl h0
  · refine Or.inr ⟨h1, ?_, ?_⟩ <;> norm_num at h2 h3 ⊢ <;> omega

theorem nafStep8 {d : List ℤ} (h : NafRange 8 d) {table : List G} {A : G} (ht : IsOddTable table 64 A)
    (t : G) (i : ℕ) : nafStep groupOps t table (d.getD i 0) = t + d.getD i 0 • A := by
  refine nafStep_eq ht t ?_
  rcases h i with h0 | ⟨h1, h2, h3⟩
  · exact Or.inl h0
  · refine Or.inr ⟨h1, ?_, ?_⟩ <;> norm_num at h2 h3 ⊢ <;> omega

theorem strausVT_eq (nafs : List (List ℤ)) (points : List (Option G)) (hd : ∀ d ∈ nafs, NafRange 5 d) :
    strausVT groupOps nafs points = (collectOption points).map fun ps => zipSum 1 256 nafs ps := by
  unfold strausVT
  cases hc : collectOption points with
  | none => rfl
  | some ps =>
    simp only [Option.map_some, Option.some.injEq]
    unfold zipSum digVal
    simp only [List.zip_map_right, List.foldl_map, groupOps_zero]
    exact multi_horner 1 256 (List.zip nafs ps) _ _ (fun dp j => dp.1.getD j 0) (fun dp => dp.2)
      (fun Q => by rw [groupOps_double]; norm_num) (fun j _ x hx Q => by
        obtain ⟨d, P⟩ := x
        have := (List.of_mem_zip hx).1
        simp only [Prod.map, id]
        exact nafStep5 (hd d this) (nafTableFrom_isOddTable 8 P) Q j)

/-! ### vartime double-base -/

theorem doubleBaseTop_spec (a b : List ℤ) (n : ℕ) :
    (doubleBaseTop a b n < n ∨ n = 0 ∧ doubleBaseTop a b n = 0) ∧
    ∀ i, doubleBaseTop a b n < i → i < n → a.getD i 0 = 0 ∧ b.getD i 0 = 0 := by
  induction n with
  | zero => exact ⟨Or.inr ⟨rfl, rfl⟩, fun i _ h => by omega⟩
  | succ n ih =>
    rw [doubleBaseTop]
    by_cases h : (a.getD n 0 != 0 || b.getD n 0 != 0) = true
    · rw [if_pos h]
      exact ⟨Or.inl (by omega), fun i h1 h2 => by omega⟩
    · rw [if_neg h]
      have hz : a.getD n 0 = 0 ∧ b.getD n 0 = 0 := by
        simpa using h
      refine ⟨Or.inl ?_, fun i h1 h2 => ?_⟩
      · rcases ih.1 with h | ⟨_, h⟩ <;> omega
      · rcases Nat.lt_or_ge i n with h3 | h3
        · exact ih.2 i h1 h3
        · have : i = n := by omega
          subst this; exact hz

/-- `vartime_double_base::mul`, digit level: `aNaf` of width 5 with the table built from `A`; `bNaf` with
digits fitting the table `tableB` of `m` odd multiples of `B`. -/
theorem doubleBaseLoop_eq {aNaf bNaf : List ℤ} (A B : G) {tableB : List G} {m : ℕ}
    (ha : NafRange 5 aNaf) (htB : IsOddTable tableB m B)
    (hb : ∀ i, bNaf.getD i 0 = 0 ∨
      (bNaf.getD i 0 % 2 = 1 ∧ -(2 * m : ℤ) < bNaf.getD i 0 ∧ bNaf.getD i 0 < 2 * m)) :
    doubleBaseLoop groupOps aNaf bNaf A tableB = digVal 1 256 aNaf • A + digVal 1 256 bNaf • B := by
  unfold doubleBaseLoop
  simp only
  obtain ⟨htop, hzero⟩ := doubleBaseTop_spec aNaf bNaf 256
  have htop' : doubleBaseTop aNaf bNaf 256 + 1 ≤ 256 := by omega
  rw [foldl_congr_mem _ (fun acc i => ((2 : ℤ) ^ 1) • acc + (aNaf.getD i 0 • A + bNaf.getD i 0 • B))]
  · rw [horner_fold, groupOps_zero, smul_zero, zero_add,
      Finset.sum_subset (Finset.range_subset_range.2 htop')]
    · simp only [smul_add, Finset.sum_add_distrib, sum_smul_smul]
      rfl
    · intro i hi1 hi2
      rw [Finset.mem_range] at hi1 hi2
      obtain ⟨h1, h2⟩ := hzero i (by omega) hi1
      rw [h1, h2]; simp
  · intro acc i _
    rw [nafStep5 ha (nafTableFrom_isOddTable 8 A), nafStep_eq htB _ (hb i), groupOps_double]
    norm_num
    abel

/-! ### precomputed Straus -/

/-- `Σ_{i<n} f i (l[i])` as a list sum -/
theorem sum_range_getD_zip {α β : Type} (l : List α) (m : List β) (da : α) (db : β)
    (f : α → β → G) (n : ℕ) (hn : n = min l.length m.length) :
    ∑ i ∈ Finset.range n, f (l.getD i da) (m.getD i db) = ((List.zip l m).map fun x => f x.1 x.2).sum := by
  induction l generalizing m n with
  | nil => simp at hn; subst hn; simp
  | cons a l ih =>
    cases m with
    | nil => simp at hn; subst hn; simp
    | cons b m =>
      simp only [List.length_cons] at hn
      have : n = min l.length m.length + 1 := by omega
      subst this
      rw [Finset.sum_range_succ', List.zip_cons_cons, List.map_cons, List.sum_cons]
      simp only [List.getD_cons_succ, List.getD_cons_zero]
      rw [ih m _ rfl, add_comm]

theorem sum_sum_zip (ds : List (List ℤ)) (ps : List G) (n : ℕ) (hn : n = min ds.length ps.length) :
    ∑ j ∈ Finset.range 256, ∑ i ∈ Finset.range n,
        ((2 : ℤ) ^ (1 * j)) • (ds.getD i []).getD j 0 • ps.getD i 0 = zipSum 1 256 ds ps := by
  rw [Finset.sum_comm]
  unfold zipSum digVal
  rw [← sum_range_getD_zip ds ps [] 0
    (fun d P => (∑ i ∈ Finset.range 256, d.getD i 0 * 2 ^ (1 * i)) • P) n hn]
  refine Finset.sum_congr rfl fun i _ => ?_
  rw [Finset.sum_smul]
  refine Finset.sum_congr rfl fun j _ => ?_
  rw [smul_smul, mul_comm]

theorem foldl_range_add (f : ℕ → G) (n : ℕ) (z : G) :
    (List.range n).foldl (fun acc i => acc + f i) z = z + ∑ i ∈ Finset.range n, f i := by
  rw [foldl_add_eq, list_range_map_sum]

/-- `optional_mixed_multiscalar_mul`, digit level.  `staticTables` are odd-multiples tables (64 entries) of
`staticPoints`; there may be fewer static NAFs than static tables. -/
theorem precomputedMixed_eq (staticPoints : List G) (staticTables : List (List G))
    (staticNafs dynamicNafs : List (List ℤ)) (dynamicPoints : List (Option G))
    (hlenT : staticTables.length = staticPoints.length)
    (hT : ∀ i, i < staticPoints.length →
      IsOddTable (staticTables.getD i []) 64 (staticPoints.getD i 0))
    (hs : ∀ d ∈ staticNafs, NafRange 5 d) (hd : ∀ d ∈ dynamicNafs, NafRange 5 d) :
    precomputedMixed groupOps staticTables staticNafs dynamicNafs dynamicPoints =
      match collectOption dynamicPoints with
      | none => some none
      | some dps =>
        if staticNafs.length ≤ staticPoints.length ∧ dps.length = dynamicNafs.length then
          some (some (zipSum 1 256 staticNafs staticPoints + zipSum 1 256 dynamicNafs dps))
        else none := by
  unfold precomputedMixed
  cases hc : collectOption dynamicPoints with
  | none => rfl
  | some dps =>
    simp only [List.length_map, hlenT, ge_iff_le, not_le, ne_eq, ite_not]
    by_cases h1 : staticNafs.length ≤ staticPoints.length
    · by_cases h2 : dps.length = dynamicNafs.length
      · rw [if_neg (by omega), if_pos h2, if_pos ⟨h1, h2⟩]
        congr 2
        -- NAF digits of list entries (default `[]` is harmless)
        have hsR : ∀ i, NafRange 5 (staticNafs.getD i []) := by
          intro i
          by_cases hi : i < staticNafs.length
          · rw [List.getD_eq_getElem _ _ hi]; exact hs _ (List.getElem_mem hi)
          · rw [List.getD_eq_default _ _ (by omega)]; intro j; left; simp
        have hdR : ∀ i, NafRange 5 (dynamicNafs.getD i []) := by
          intro i
          by_cases hi : i < dynamicNafs.length
          · rw [List.getD_eq_getElem _ _ hi]; exact hd _ (List.getElem_mem hi)
          · rw [List.getD_eq_default _ _ (by omega)]; intro j; left; simp
        have hdT : ∀ i, i < dps.length →
            IsOddTable ((dps.map (nafTableFrom groupOps 8)).getD i []) 8 (dps.getD i 0) := by
          intro i hi
          rw [List.getD_eq_getElem _ _ (by simpa using hi), List.getElem_map,
            List.getD_eq_getElem _ _ hi]
          exact nafTableFrom_isOddTable 8 _
        rw [foldl_congr_mem _ (fun acc j => ((2 : ℤ) ^ 1) • acc +
          (∑ i ∈ Finset.range dps.length, (dynamicNafs.getD i []).getD j 0 • dps.getD i 0 +
           ∑ i ∈ Finset.range staticNafs.length, (staticNafs.getD i []).getD j 0 • staticPoints.getD i 0))]
        · rw [horner_fold, groupOps_zero, smul_zero, zero_add]
          simp only [smul_add, Finset.sum_add_distrib, Finset.smul_sum]
          rw [add_comm]
          congr 1
          · exact sum_sum_zip staticNafs staticPoints _ (by omega)
          · exact sum_sum_zip dynamicNafs dps _ (by omega)
        · intro acc j _
          rw [foldl_congr_mem _ (fun R i => R + (dynamicNafs.getD i []).getD j 0 • dps.getD i 0)
            (List.range dps.length) _ (fun R i hi => by
              rw [List.mem_range] at hi
              exact nafStep5 (hdR i) (hdT i hi) R j)]
          rw [foldl_congr_mem _ (fun R i => R + (staticNafs.getD i []).getD j 0 • staticPoints.getD i 0)
            (List.range staticNafs.length) _ (fun R i hi => by
              rw [List.mem_range] at hi
              exact nafStep_eq (hT i (by omega)) R (by
                rcases hsR i j with h0 | ⟨h1, h2, h3⟩
                · exact Or.inl h0
                · refine Or.inr ⟨h1, ?_, ?_⟩ <;> norm_num at h2 h3 ⊢ <;> omega))]
          rw [foldl_range_add, foldl_range_add, groupOps_double]
          norm_num
          abel
      · rw [if_neg (by omega), if_neg h2, if_neg (by tauto)]
    · rw [if_pos (by omega), if_neg (by tauto)]

end Dalek.Proofs.ScalarMul

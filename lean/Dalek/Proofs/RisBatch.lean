/-
`double_and_compress_batch`: the per-point closure, applied to `BatchCompressState::from(P)` and the inverse of
`e g f h`, computes the encoding of `2 P`.  Also: points of the even subgroup have a square `w` (so the encoding
equation `encS_sq` applies to them).
-/
import Dalek.Proofs.RisEncode

namespace Dalek.Proofs.Ris

open Dalek.IR Dalek.Spec Dalek.Proofs
open Dalek.Edwards
open Dalek.Bridge (Ed edParams edParams_d)
open Dalek.FieldFacts (d sqrtM1)

theorem magic_ne_zero : invSqrtAmD ≠ 0 := by
  have hm := magic_sq
  rintro h0; rw [h0] at hm; simp at hm

/-- **Points of the even subgroup `2E` have a square `w = (1−y²)x²y²`.** -/
theorem isSquare_encW_even (R : Ed) : IsSquare (encW (2 • R).x (2 • R).y) := by
  have hm := magic_sq
  have hm0 := magic_ne_zero
  have hden := (EdPoint.add_den_ne_zero R R).2
  have hy := EdPoint.two_nsmul_y R
  have hc : -R.x ^ 2 + R.y ^ 2 = 1 + d * R.x ^ 2 * R.y ^ 2 := R.on
  rw [edParams_d] at hden hy
  have hd2 : 1 - d * R.x ^ 2 * R.y ^ 2 ≠ 0 := by
    intro h'; apply hden; linear_combination h'
  have hy' : (2 • R).y * (1 - d * R.x ^ 2 * R.y ^ 2) = R.y ^ 2 + R.x ^ 2 := by
    rw [hy, div_mul_cancel₀ _ hd2]
  generalize (2 • R).x = x at *
  generalize (2 • R).y = y at *
  generalize R.x = a at *
  generalize R.y = b at *
  refine ⟨2 * a * b * x * y / (invSqrtAmD * (1 - d * a ^ 2 * b ^ 2)), ?_⟩
  rw [div_mul_div_comm, eq_div_iff (mul_ne_zero (mul_ne_zero hm0 hd2) (mul_ne_zero hm0 hd2))]
  unfold encW
  linear_combination (x ^ 2 * y ^ 2 * (2 * a * b) ^ 2) * hm
    - (x ^ 2 * y ^ 2 * invSqrtAmD ^ 2 * (2 * (1 + d * a ^ 2 * b ^ 2) + (-a ^ 2 + b ^ 2 - 1 - d * a ^ 2 * b ^ 2))) * hc
    - (x ^ 2 * y ^ 2 * invSqrtAmD ^ 2 * (y * (1 - d * a ^ 2 * b ^ 2) + b ^ 2 + a ^ 2)) * hy'

theorem sq_ratio {A p q c sel : Fp} (hc : c ≠ 0) (h1 : (1 + sel) * c = q) (h2 : (1 - sel) * c = p)
    (hA : A ^ 2 * q = p) : A ^ 2 * (1 + sel) = 1 - sel := by
  apply mul_right_cancel₀ hc
  rw [mul_assoc, h1, hA, h2]

/-- the equation determining the output of the batch closure (same as `encS_sq` for `2P = (e/f, g/h)`) -/
theorem batS_sq {e f g h x3 y3 inv : Fp} (hf : f ≠ 0) (hh : h ≠ 0) (hx3 : x3 * f = e) (hy3 : y3 * h = g)
    (r1 : g ^ 2 = f ^ 2 + e ^ 2) (r2 : f ^ 2 = h ^ 2 + d * e ^ 2) (hinv : inv * (e * g * (f * h)) = 1) :
    batS e f g h (e * g) (f * h) inv ^ 2 * (1 + selY x3 y3) = 1 - selY x3 y3 := by
  have hi := Dalek.FieldFacts.sqrtM1_sq
  have hm := magic_sq
  have hz : e * g * inv * (f * h) = 1 := by linear_combination hinv
  have ht : f * h * inv * (e * g) = 1 := by linear_combination hinv
  have k1 : h ^ 2 - g ^ 2 = (-1 - d) * e ^ 2 := by linear_combination -r1 - r2
  have k2 : invSqrtAmD ^ 2 * (h ^ 2 - g ^ 2) = e ^ 2 := by
    linear_combination (invSqrtAmD ^ 2) * k1 + (e ^ 2) * hm
  have k3 : e ^ 2 * g ^ 2 * (f * h * inv) ^ 2 = 1 := by
    linear_combination (f * h * inv * (e * g) + 1) * ht
  have hrotarg : e * g * (e * g * inv) = x3 * y3 := by
    linear_combination (x3 * y3) * hz - (e * g * inv * e) * hy3 - (e * g * inv * y3 * h) * hx3
  generalize hTi : f * h * inv = Ti at ht k3
  by_cases hr : fpIsNeg (x3 * y3)
  · -- rotated
    have hr' : batRot (e * g) inv := by show fpIsNeg (e * g * (e * g * inv)); rw [hrotarg]; exact hr
    have hE : batE e g (e * g) inv = g := by unfold batE; rw [if_pos hr']
    have hG0 : batG0 e g (e * g) inv = -e := by unfold batG0; rw [if_pos hr']
    have hH : batH f h (e * g) inv = f * sqrtM1 := by unfold batH; rw [if_pos hr']
    have hM : batMagic (e * g) inv = sqrtM1 := by unfold batMagic; rw [if_pos hr']
    have hx1 : selX1 x3 y3 = sqrtM1 * y3 := by unfold selX1; rw [if_pos hr]
    have hy1 : selY1 x3 y3 = sqrtM1 * x3 := by unfold selY1; rw [if_pos hr]
    have hneg : batH f h (e * g) inv * batE e g (e * g) inv * (e * g * inv) = sqrtM1 * y3 := by
      rw [hH, hE]
      linear_combination (sqrtM1 * y3) * hz - (sqrtM1 * f * (e * g * inv)) * hy3
    unfold batS batG selY
    rw [hneg, hx1, hy1, hG0, hH, hM, hTi, fpAbs_sq]
    by_cases hn : fpIsNeg (sqrtM1 * y3)
    · rw [if_pos hn, if_pos hn]
      refine sq_ratio hf (p := f + sqrtM1 * e) (q := f - sqrtM1 * e) ?_ ?_ ?_
      · linear_combination (-sqrtM1) * hx3
      · linear_combination sqrtM1 * hx3
      · linear_combination (f + sqrtM1 * e) * k3 - ((f + sqrtM1 * e) * e ^ 2 * Ti ^ 2) * r1
          + (-(f + sqrtM1 * e) * e ^ 4 * Ti ^ 2
            + e ^ 2 * Ti ^ 2 * (f - sqrtM1 * e) * (f ^ 2 * (sqrtM1 ^ 2 - 1) - 2 * f * sqrtM1 * e)) * hi
    · rw [if_neg hn, if_neg hn]
      refine sq_ratio hf (p := f - sqrtM1 * e) (q := f + sqrtM1 * e) ?_ ?_ ?_
      · linear_combination sqrtM1 * hx3
      · linear_combination (-sqrtM1) * hx3
      · linear_combination (f - sqrtM1 * e) * k3 - ((f - sqrtM1 * e) * e ^ 2 * Ti ^ 2) * r1
          + (-(f - sqrtM1 * e) * e ^ 4 * Ti ^ 2
            + e ^ 2 * Ti ^ 2 * (f + sqrtM1 * e) * (f ^ 2 * (sqrtM1 ^ 2 - 1) + 2 * f * sqrtM1 * e)) * hi
  · -- not rotated
    have hr' : ¬ batRot (e * g) inv := by
      show ¬ fpIsNeg (e * g * (e * g * inv)); rw [hrotarg]; exact hr
    have hE : batE e g (e * g) inv = e := by unfold batE; rw [if_neg hr']
    have hG0 : batG0 e g (e * g) inv = g := by unfold batG0; rw [if_neg hr']
    have hH : batH f h (e * g) inv = h := by unfold batH; rw [if_neg hr']
    have hM : batMagic (e * g) inv = invSqrtAmD := by unfold batMagic; rw [if_neg hr']
    have hx1 : selX1 x3 y3 = x3 := by unfold selX1; rw [if_neg hr]
    have hy1 : selY1 x3 y3 = y3 := by unfold selY1; rw [if_neg hr]
    have hneg : batH f h (e * g) inv * batE e g (e * g) inv * (e * g * inv) = x3 := by
      rw [hH, hE]
      linear_combination x3 * hz - (h * (e * g * inv)) * hx3
    unfold batS batG selY
    rw [hneg, hx1, hy1, hG0, hH, hM, hTi, fpAbs_sq]
    by_cases hn : fpIsNeg x3
    · rw [if_pos hn, if_pos hn]
      refine sq_ratio hh (p := h + g) (q := h - g) ?_ ?_ ?_
      · linear_combination (-1 : Fp) * hy3
      · linear_combination hy3
      · linear_combination ((h + g) * g ^ 2 * Ti ^ 2) * k2 + (h + g) * k3
    · rw [if_neg hn, if_neg hn]
      refine sq_ratio hh (p := h - g) (q := h + g) ?_ ?_ ?_
      · linear_combination hy3
      · linear_combination (-1 : Fp) * hy3
      · linear_combination ((h - g) * g ^ 2 * Ti ^ 2) * k2 + (h - g) * k3

theorem eq_of_sq_char {s s' σ : Fp} (h1 : s ^ 2 * (1 + σ) = 1 - σ) (h2 : s' ^ 2 * (1 + σ) = 1 - σ)
    (hσ : 1 + σ ≠ 0) (hs : ¬ fpIsNeg s) (hs' : ¬ fpIsNeg s') : s' = s := by
  have hsq : s' ^ 2 = s ^ 2 := by
    apply mul_right_cancel₀ hσ; rw [h1, h2]
  have := fpAbs_eq_of_sq_eq hsq hs
  rwa [fpAbs_of_not_neg hs'] at this

theorem batS_inv_zero (e f g h eg fh : Fp) : batS e f g h eg fh 0 = 0 := by
  unfold batS
  rw [mul_zero, mul_zero, mul_zero, mul_zero]
  exact fpAbs_zero

/-- **Batched double-and-compress** in the field: for a valid extended point `(X:Y:Z:T)` of `R`, the closure of
`double_and_compress_batch` applied to `BatchCompressState::from` of it and to the inverse of `eg·fh` (`0` if that
product is `0`, as `batch_invert` returns) computes the `s` that `compress` computes for ANY representation of `2R`. -/
theorem batS_eq_encS_double {R : Ed} {X Y Z T X' Y' Z' T' : Fp} (hR : RepExt R X Y Z T)
    (hR2 : RepExt (2 • R) X' Y' Z' T') :
    batS (X * (Y + Y)) (Z ^ 2 + T ^ 2 * d) (Y ^ 2 + X ^ 2) (Z ^ 2 - T ^ 2 * d)
        (X * (Y + Y) * (Y ^ 2 + X ^ 2)) ((Z ^ 2 + T ^ 2 * d) * (Z ^ 2 - T ^ 2 * d))
        ((X * (Y + Y) * (Y ^ 2 + X ^ 2) * ((Z ^ 2 + T ^ 2 * d) * (Z ^ 2 - T ^ 2 * d)))⁻¹) =
      encS X' Y' Z' T' := by
  obtain ⟨hX, hY, hT⟩ := repExt_coords hR
  obtain ⟨hX', hY', hT'⟩ := repExt_coords hR2
  have hZ := hR.1
  have hZ' := hR2.1
  have hden := EdPoint.add_den_ne_zero R R
  have hx3 := EdPoint.two_nsmul_x R
  have hy3 := EdPoint.two_nsmul_y R
  have hc : -R.x ^ 2 + R.y ^ 2 = 1 + d * R.x ^ 2 * R.y ^ 2 := R.on
  have hc3 : onCurve d (2 • R).x (2 • R).y := (2 • R).on
  rw [edParams_d] at hden hx3 hy3
  have hd1 : 1 + d * R.x ^ 2 * R.y ^ 2 ≠ 0 := by
    intro h'; apply hden.1; linear_combination h'
  have hd2 : 1 - d * R.x ^ 2 * R.y ^ 2 ≠ 0 := by
    intro h'; apply hden.2; linear_combination h'
  have hx3' : (2 • R).x * (1 + d * R.x ^ 2 * R.y ^ 2) = 2 * R.x * R.y := by
    rw [hx3, div_mul_cancel₀ _ hd1]
  have hy3' : (2 • R).y * (1 - d * R.x ^ 2 * R.y ^ 2) = R.y ^ 2 + R.x ^ 2 := by
    rw [hy3, div_mul_cancel₀ _ hd2]
  have hsqW := isSquare_encW_even R
  generalize (2 • R).x = x3 at *
  generalize (2 • R).y = y3 at *
  generalize R.x = a at *
  generalize R.y = b at *
  subst hX hY hT hX' hY' hT'
  have hf : Z ^ 2 + (a * b * Z) ^ 2 * d ≠ 0 := by
    have : Z ^ 2 + (a * b * Z) ^ 2 * d = Z ^ 2 * (1 + d * a ^ 2 * b ^ 2) := by ring
    rw [this]; exact mul_ne_zero (pow_ne_zero _ hZ) hd1
  have hh : Z ^ 2 - (a * b * Z) ^ 2 * d ≠ 0 := by
    have : Z ^ 2 - (a * b * Z) ^ 2 * d = Z ^ 2 * (1 - d * a ^ 2 * b ^ 2) := by ring
    rw [this]; exact mul_ne_zero (pow_ne_zero _ hZ) hd2
  have ex : x3 * (Z ^ 2 + (a * b * Z) ^ 2 * d) = a * Z * (b * Z + b * Z) := by
    linear_combination (Z ^ 2) * hx3'
  have ey : y3 * (Z ^ 2 - (a * b * Z) ^ 2 * d) = (b * Z) ^ 2 + (a * Z) ^ 2 := by
    linear_combination (Z ^ 2) * hy3'
  have r1 : ((b * Z) ^ 2 + (a * Z) ^ 2) ^ 2 = (Z ^ 2 + (a * b * Z) ^ 2 * d) ^ 2 + (a * Z * (b * Z + b * Z)) ^ 2 := by
    linear_combination (Z ^ 4 * (b ^ 2 - a ^ 2 + 1 + d * a ^ 2 * b ^ 2)) * hc
  have r2 : (Z ^ 2 + (a * b * Z) ^ 2 * d) ^ 2 =
      (Z ^ 2 - (a * b * Z) ^ 2 * d) ^ 2 + d * (a * Z * (b * Z + b * Z)) ^ 2 := by ring
  generalize he : a * Z * (b * Z + b * Z) = e at *
  generalize hfdef : Z ^ 2 + (a * b * Z) ^ 2 * d = f at *
  generalize hg : (b * Z) ^ 2 + (a * Z) ^ 2 = g at *
  generalize hhdef : Z ^ 2 - (a * b * Z) ^ 2 * d = h at *
  by_cases heg : e * g = 0
  · rw [heg, zero_mul, inv_zero, batS_inv_zero]
    have hxy : x3 * y3 = 0 := by
      have : x3 * y3 * (f * h) = 0 := by linear_combination heg + (y3 * h) * ex + e * ey
      rcases mul_eq_zero.1 this with h' | h'
      · exact h'
      · exact absurd h' (mul_ne_zero hf hh)
    rw [encS_of_mul_eq_zero Z' _ (by linear_combination (Z' ^ 2) * hxy)]
  · have hne : e * g * (f * h) ≠ 0 := mul_ne_zero heg (mul_ne_zero hf hh)
    have hinv : (e * g * (f * h))⁻¹ * (e * g * (f * h)) = 1 := inv_mul_cancel₀ hne
    have hxy : x3 * y3 ≠ 0 := by
      intro h'
      apply heg
      have : e * g = x3 * y3 * (f * h) := by linear_combination -(y3 * h) * ex - e * ey
      rw [this, h', zero_mul]
    have e1 := batS_sq hf hh ex ey r1 r2 hinv
    have e2 := encS_sq hZ' hc3 ((encW_ne_zero_iff hc3).2 hxy) hsqW
    exact (eq_of_sq_char e1 e2 (one_add_selY_ne_zero hc3 hxy) (not_fpIsNeg_fpAbs _)
      (not_fpIsNeg_encS _ _ _ _)).symm

end Dalek.Proofs.Ris

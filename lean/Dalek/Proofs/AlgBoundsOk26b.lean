import Dalek.Proofs.AlgBoundsInv
/-!
# C11, formula level: kernel evaluations of the abstract interpretation (serial u32 backend, part b)

One `decide +kernel` per translated formula: the abstract run of the formula from the type invariants of its inputs
(every abstract field operation being the verified analysis of the regenerated limb kernel) proves every statement
safe and every output inside the type invariant of its type.  Helper of `Dalek/Props/C11/Formulas.lean`.
-/
namespace Dalek.Props.C11.Formulas
open Dalek.Model.AlgBounds

theorem Curve_ProjectiveNielsPoint_identity_ok26 : (sig_Curve_ProjectiveNielsPoint_identity I26).ok B26 = true := by decide +kernel
theorem Curve_ProjectiveNielsPoint_conditional_select_ok26 : (sig_Curve_ProjectiveNielsPoint_conditional_select I26).ok B26 = true := by decide +kernel
theorem Curve_AffineNielsPoint_conditional_assign_ok26 : (sig_Curve_AffineNielsPoint_conditional_assign I26).ok B26 = true := by decide +kernel
theorem Curve_CompletedPoint_as_extended_ok26 : (sig_Curve_CompletedPoint_as_extended I26).ok B26 = true := by decide +kernel
theorem Curve_sub_ProjectiveNielsPoint_ok26 : (sig_Curve_sub_ProjectiveNielsPoint I26).ok B26 = true := by decide +kernel
theorem Curve_ProjectiveNielsPoint_neg_ok26 : (sig_Curve_ProjectiveNielsPoint_neg I26).ok B26 = true := by decide +kernel
theorem Edwards_compress_ok26 : (sig_Edwards_compress I26).ok B26 = true := by decide +kernel
theorem Edwards_as_projective_niels_ok26 : (sig_Edwards_as_projective_niels I26).ok B26 = true := by decide +kernel
theorem Edwards_ct_eq_ok26 : (sig_Edwards_ct_eq I26).ok B26 = true := by decide +kernel
theorem Edwards_double_ok26 : (sig_Edwards_double I26).ok B26 = true := by decide +kernel
theorem Edwards_is_valid_ok26 : (sig_Edwards_is_valid I26).ok B26 = true := by decide +kernel
theorem Montgomery_ProjectivePoint_conditional_select_ok26 : (sig_Montgomery_ProjectivePoint_conditional_select I26).ok B26 = true := by decide +kernel
theorem Montgomery_ProjectivePoint_as_affine_ok26 : (sig_Montgomery_ProjectivePoint_as_affine I26).ok B26 = true := by decide +kernel
theorem Ristretto_decompress_step_2_ok26 : (sig_Ristretto_decompress_step_2 I26).ok B26 = true := by decide +kernel
theorem Ristretto_batch_state_from_ok26 : (sig_Ristretto_batch_state_from I26).ok B26 = true := by decide +kernel
theorem Ristretto_batch_compress_closure_ok26 : (sig_Ristretto_batch_compress_closure I26).ok B26 = true := by decide +kernel
theorem Field_invert_ok26 : (sig_Field_invert I26).ok B26 = true := by decide +kernel
theorem Field_invsqrt_ok26 : (sig_Field_invsqrt I26).ok B26 = true := by decide +kernel

end Dalek.Props.C11.Formulas

/-
C04 layer 2, helper lemmas (part 1): the scalar-multiplication models of `Dalek.Model.ScalarMul`, with the
point operations interpreted as the operations of an arbitrary commutative group `G`
(`groupOps`), compute the expected ℤ-linear combinations.

Contents: `groupOps`, `mulByPow2`, lookup tables (`tableGo`, `lookupTableFrom`, `nafTableFrom`), `selectModel`,
`nafSelect`/`nafStep`, the Horner lemma `horner_fold`, `variableBaseMul(Vec)`, the basepoint tables.
Everything here is at DIGIT level (hypotheses: digit ranges and digit sums); the byte-level statements
(using the layer-1 recoding theorems) are in `ScalarMulBytes.lean`.
-/
import Dalek.Model.ScalarMul
import Mathlib.Algebra.BigOperators.Group.Finset.Basic
import Mathlib.Algebra.BigOperators.Group.List.Basic
import Mathlib.Algebra.Module.Basic
import Mathlib.Algebra.Module.BigOperators
import Mathlib.Algebra.BigOperators.GroupWithZero.Action
import Mathlib.Tactic.Module
import Mathlib.Tactic.Abel
import Mathlib.Tactic.Ring
import Mathlib.Tactic.Linarith
import Mathlib.Tactic.NormNum

namespace Dalek.Proofs.ScalarMul
open Dalek.Model.ScalarMul Dalek.Model.Recode

variable {G : Type} [AddCommGroup G]

/-- The point operations of a commutative group. -/
def groupOps : PointOps G := ⟨0, (· + ·), (· - ·), (- ·), fun P => P + P⟩

@[simp] theorem groupOps_zero : (groupOps : PointOps G).zero = 0 := rfl
@[simp] theorem groupOps_add (a b : G) : (groupOps : PointOps G).add a b = a + b := rfl
@[simp] theorem groupOps_sub (a b : G) : (groupOps : PointOps G).sub a b = a - b := rfl
@[simp] theorem groupOps_neg (a : G) : (groupOps : PointOps G).neg a = -a := rfl
@[simp] theorem groupOps_double (a : G) : (groupOps : PointOps G).double a = (2 : ℤ) • a := by
  show a + a = _
  module

/-! ### `mul_by_pow_2` -/

@[simp] theorem mulByPow2_eq (k : ℕ) (P : G) : mulByPow2 groupOps k P = ((2 : ℤ) ^ k) • P := by
  induction k generalizing P with
  | zero => simp [mulByPow2]
  | succ k ih =>
    rw [mulByPow2, ih, groupOps_double, smul_smul, pow_succ]

/-! ### tables -/

theorem tableGo_length (D : G) (n : ℕ) (cur : G) : (tableGo groupOps D n cur).length = n := by
  induction n generalizing cur with
  | zero => rfl
  | succ n ih => simp [tableGo, ih]

theorem tableGo_getD (D : G) (n : ℕ) (cur : G) (j : ℕ) (h : j < n) :
    (tableGo groupOps D n cur).getD j 0 = cur + (j : ℤ) • D := by
  induction n generalizing cur j with
  | zero => omega
  | succ n ih =>
    cases j with
    | zero => simp [tableGo]
    | succ j =>
      rw [tableGo, List.getD_cons_succ, ih _ _ (by omega), groupOps_add]
      push_cast
      module

/-- A list of points is the table `[P, 2P, …, nP]`. -/
def IsTable (table : List G) (n : ℕ) (P : G) : Prop :=
  table.length = n ∧ ∀ j, j < n → table.getD j 0 = ((j : ℤ) + 1) • P

/-- A list of points is the table `[A, 3A, 5A, …, (2n-1)A]`. -/
def IsOddTable (table : List G) (n : ℕ) (A : G) : Prop :=
  table.length = n ∧ ∀ j, j < n → table.getD j 0 = (2 * (j : ℤ) + 1) • A

theorem lookupTableFrom_isTable (n : ℕ) (P : G) : IsTable (lookupTableFrom groupOps n P) n P := by
  refine ⟨tableGo_length _ _ _, fun j hj => ?_⟩
  rw [lookupTableFrom, tableGo_getD _ _ _ _ hj]
  module

theorem nafTableFrom_isOddTable (n : ℕ) (A : G) : IsOddTable (nafTableFrom groupOps n A) n A := by
  refine ⟨tableGo_length _ _ _, fun j hj => ?_⟩
  rw [nafTableFrom, tableGo_getD _ _ _ _ hj, groupOps_double]
  module

/-! ### `select` -/

theorem int_not_eq (a : ℤ) : ~~~a = -a - 1 := by
  cases a with
  | ofNat n => show Int.negSucc n = _; rw [Int.negSucc_eq]; simp; ring
  | negSucc n => show Int.ofNat n = _; rw [Int.negSucc_eq]; simp

theorem shr7_of_nonneg {x : ℤ} (h0 : 0 ≤ x) (h1 : x ≤ 127) : x >>> 7 = 0 := by
  rw [Int.shiftRight_eq_div_pow]; norm_num; omega

theorem shr7_of_neg {x : ℤ} (h0 : -128 ≤ x) (h1 : x < 0) : x >>> 7 = -1 := by
  rw [Int.shiftRight_eq_div_pow]; norm_num; omega

/-- the constant-time scan `for j in 1..=n { if xabs == j { t = table[j-1] } }` -/
theorem scan_eq (table : List G) (xabs : ℤ) (n : ℕ) :
    (List.range n).foldl
      (fun t j0 => if xabs == Int.ofNat (j0 + 1) then table.getD j0 (groupOps : PointOps G).zero else t)
      (groupOps : PointOps G).zero
    = if 0 < xabs ∧ xabs ≤ n then table.getD (xabs.toNat - 1) 0 else 0 := by
  induction n with
  | zero =>
    simp only [List.range_zero, List.foldl_nil, groupOps_zero]
    rw [if_neg]; intro h; have := h.1; have := h.2; push_cast at *; omega
  | succ n ih =>
    rw [List.range_succ, List.foldl_append, ih]
    simp only [List.foldl_cons, List.foldl_nil, groupOps_zero, beq_iff_eq, Int.ofNat_eq_natCast]
    by_cases h : xabs = ((n + 1 : ℕ) : ℤ)
    · rw [if_pos h, if_pos (by constructor <;> omega)]
      congr 1; omega
    · rw [if_neg h]
      by_cases h2 : 0 < xabs ∧ xabs ≤ (n : ℤ)
      · rw [if_pos h2, if_pos (by push_cast; constructor <;> omega)]
      · rw [if_neg h2, if_neg (by push_cast at *; omega)]

/-- `LookupTable*::select`: for a table `[P, …, nP]` and `-n ≤ x ≤ n` (`x` an `i8`) the result is `x•P`. -/
theorem selectModel_eq {table : List G} {n : ℕ} {P : G} (ht : IsTable table n P) {x : ℤ}
    (hlo : -(n : ℤ) ≤ x) (hhi : x ≤ n) (h8lo : -128 ≤ x) (h8hi : x ≤ 127) :
    selectModel groupOps table x = x • P := by
  obtain ⟨hlen, hent⟩ := ht
  unfold selectModel
  simp only
  rw [hlen, scan_eq]
  rcases lt_or_ge x 0 with hneg | hpos
  · rw [shr7_of_neg h8lo hneg]
    have habs : xorMask (x + -1) (-1) = -x := by
      unfold xorMask; simp only [beq_self_eq_true, if_true]; rw [int_not_eq]; ring
    have e1 : (((-1 : ℤ) % 2 == 1) = true) := by decide
    rw [habs, if_pos e1, if_pos (by constructor <;> omega), groupOps_neg,
      hent _ (by omega)]
    have : (((-x).toNat - 1 : ℕ) : ℤ) = -x - 1 := by omega
    rw [this]; module
  · rw [shr7_of_nonneg hpos h8hi]
    have habs : xorMask (x + 0) 0 = x := by
      unfold xorMask; simp
    have e0 : ¬ (((0 : ℤ) % 2 == 1) = true) := by decide
    rw [habs, if_neg e0]
    by_cases hx0 : x = 0
    · subst hx0; simp
    · rw [if_pos (by constructor <;> omega), hent _ (by omega)]
      have : ((x.toNat - 1 : ℕ) : ℤ) = x - 1 := by omega
      rw [this]; module

/-! ### `NafLookupTable::select` and the signed-digit step -/

/-- for a table of odd multiples `[A, 3A, …, (2n-1)A]` and a digit `d` that is `0` or odd with `|d| < 2n`:
`nafStep t table d = t + d•A`. -/
theorem nafStep_eq {table : List G} {n : ℕ} {A : G} (ht : IsOddTable table n A) (t : G) {d : ℤ}
    (hd : d = 0 ∨ (d % 2 = 1 ∧ -(2 * n : ℤ) < d ∧ d < 2 * n)) :
    nafStep groupOps t table d = t + d • A := by
  obtain ⟨hlen, hent⟩ := ht
  unfold nafStep nafSelect
  rcases hd with rfl | ⟨hodd, hlo, hhi⟩
  · simp
  · rcases lt_trichotomy d 0 with hneg | h0 | hpos
    · rw [if_neg (by omega), if_pos hneg, groupOps_sub, groupOps_zero, hent _ (by omega)]
      have : (((-d).toNat / 2 : ℕ) : ℤ) = (-d - 1) / 2 := by omega
      rw [this]
      have h2 : 2 * ((-d - 1) / 2) + 1 = -d := by omega
      rw [h2]; module
    · omega
    · rw [if_pos hpos, groupOps_add, groupOps_zero, hent _ (by omega)]
      have : ((d.toNat / 2 : ℕ) : ℤ) = (d - 1) / 2 := by omega
      rw [this]
      have h2 : 2 * ((d - 1) / 2) + 1 = d := by omega
      rw [h2]

/-- index safety of `NafLookupTable::select`: `x / 2 < n` for `|d| < 2n`. -/
theorem nafSelect_index_ok {n : ℕ} {d : ℤ} (hlo : -(2 * n : ℤ) < d) (hhi : d < 2 * n) :
    d.toNat / 2 < n ∧ (-d).toNat / 2 < n := by
  constructor <;> omega

/-! ### Horner folds -/

theorem range_succ_reverse (n : ℕ) : (List.range (n + 1)).reverse = n :: (List.range n).reverse := by
  rw [List.range_succ, List.reverse_append]; rfl

/-- `for i in (0..n).rev() { acc = 2^w • acc + c i }` -/
theorem horner_fold (w : ℕ) (c : ℕ → G) (n : ℕ) (z : G) :
    (List.range n).reverse.foldl (fun acc i => ((2 : ℤ) ^ w) • acc + c i) z
      = ((2 : ℤ) ^ (w * n)) • z + ∑ i ∈ Finset.range n, ((2 : ℤ) ^ (w * i)) • c i := by
  induction n generalizing z with
  | zero => simp
  | succ n ih =>
    rw [range_succ_reverse, List.foldl_cons, ih, Finset.sum_range_succ]
    have : (2 : ℤ) ^ (w * (n + 1)) = 2 ^ (w * n) * 2 ^ w := by rw [← pow_add]; ring_nf
    rw [this]
    module

/-- `foldl` of `acc + f x` -/
theorem foldl_add_eq {α : Type} (f : α → G) (l : List α) (z : G) :
    l.foldl (fun acc x => acc + f x) z = z + (l.map f).sum := by
  induction l generalizing z with
  | nil => simp
  | cons a l ih => rw [List.foldl_cons, ih, List.map_cons, List.sum_cons]; abel

/-- pulling a weighted finite sum through a list sum -/
theorem sum_smul_list_sum {α : Type} (R : Finset ℕ) (a : ℕ → ℤ) (f : ℕ → α → G) (l : List α) :
    ∑ i ∈ R, a i • (l.map (f i)).sum = (l.map fun x => ∑ i ∈ R, a i • f i x).sum := by
  induction l with
  | nil => simp
  | cons x l ih =>
    simp only [List.map_cons, List.sum_cons, smul_add, Finset.sum_add_distrib, ih]

/-- `Σ aᵢ • (dᵢ • P) = (Σ dᵢ aᵢ) • P` -/
theorem sum_smul_smul (R : Finset ℕ) (a d : ℕ → ℤ) (P : G) :
    ∑ i ∈ R, a i • (d i • P) = (∑ i ∈ R, d i * a i) • P := by
  rw [Finset.sum_smul]
  refine Finset.sum_congr rfl fun i _ => ?_
  rw [smul_smul, mul_comm]

/-! ### `variable_base::mul` (both copies), digit level -/

/-- The radix-16 digit hypotheses delivered by `radix16_spec`. -/
structure Radix16Digits (d : List ℤ) (s : ℤ) : Prop where
  sum : ∑ i ∈ Finset.range 64, d.getD i 0 * 16 ^ i = s
  lo : ∀ i, i < 64 → -8 ≤ d.getD i 0
  hi : ∀ i, i < 64 → d.getD i 0 ≤ 8

theorem Radix16Digits.select {d : List ℤ} {s : ℤ} (h : Radix16Digits d s) (P : G) (i : ℕ) (hi : i < 64) :
    selectModel groupOps (lookupTableFrom groupOps 8 P) (d.getD i 0) = d.getD i 0 • P := by
  have := h.lo i hi
  have := h.hi i hi
  exact selectModel_eq (lookupTableFrom_isTable 8 P) (by push_cast; omega) (by push_cast; omega)
    (by omega) (by omega)

theorem foldl_congr_mem {α β : Type} (f g : β → α → β) (l : List α) (z : β)
    (h : ∀ acc, ∀ x ∈ l, f acc x = g acc x) : l.foldl f z = l.foldl g z := by
  induction l generalizing z with
  | nil => rfl
  | cons a l ih =>
    rw [List.foldl_cons, List.foldl_cons, h z a (by simp)]
    exact ih _ fun acc x hx => h acc x (by simp [hx])

theorem pow_four_mul (i : ℕ) : (2 : ℤ) ^ (4 * i) = 16 ^ i := by
  rw [pow_mul]; norm_num

theorem variableBaseMulVec_eq {d : List ℤ} {s : ℤ} (h : Radix16Digits d s) (P : G) :
    variableBaseMulVec groupOps d P = s • P := by
  unfold variableBaseMulVec
  simp only
  rw [foldl_congr_mem _ (fun acc i => ((2 : ℤ) ^ 4) • acc + d.getD i 0 • P)]
  · rw [horner_fold, groupOps_zero, smul_zero, zero_add, sum_smul_smul, ← h.sum]
    simp only [pow_four_mul]
  · intro acc i hi
    rw [List.mem_reverse, List.mem_range] at hi
    rw [groupOps_add, mulByPow2_eq, h.select P i hi]

theorem variableBaseMul_eq {d : List ℤ} {s : ℤ} (h : Radix16Digits d s) (P : G) :
    variableBaseMul groupOps d P = s • P := by
  unfold variableBaseMul
  simp only
  rw [foldl_congr_mem _ (fun acc i => ((2 : ℤ) ^ 4) • acc + d.getD i 0 • P)]
  · have hs : s = ∑ i ∈ Finset.range 63, d.getD i 0 * 16 ^ i + d.getD 63 0 * 16 ^ 63 := by
      rw [← h.sum, Finset.sum_range_succ]
    rw [horner_fold, groupOps_zero, groupOps_add, zero_add, h.select P 63 (by omega), smul_smul,
      sum_smul_smul, ← add_smul, hs]
    simp only [pow_four_mul]
    congr 1
    ring
  · intro acc i hi
    rw [List.mem_reverse, List.mem_range] at hi
    rw [groupOps_add, mulByPow2_eq, h.select P i (by omega)]

/-! ### basepoint tables (`impl_basepoint_table!`), digit level -/

/-- `tables[i] = [1·(2^(2w))^i B, …, 2^(w-1)·(2^(2w))^i B]` for `i < 32`: what `create` builds and what the
shipped constant `ED25519_BASEPOINT_TABLE` is (C12). -/
def IsBasepointTable (tables : List (List G)) (w : ℕ) (B : G) : Prop :=
  ∀ i, i < 32 → IsTable (tables.getD i []) (2 ^ (w - 1)) (((2 : ℤ) ^ (2 * w * i)) • B)

theorem basepointTableCreate_go_getD (w : ℕ) (n : ℕ) (P : G) (i : ℕ) (hi : i < n) :
    (basepointTableCreate.go groupOps w n P).getD i []
      = lookupTableFrom groupOps (2 ^ (w - 1)) (((2 : ℤ) ^ (2 * w * i)) • P) := by
  induction n generalizing P i with
  | zero => omega
  | succ n ih =>
    cases i with
    | zero => simp [basepointTableCreate.go]
    | succ i =>
      rw [basepointTableCreate.go, List.getD_cons_succ, ih _ _ (by omega), mulByPow2_eq, smul_smul]
      congr 2
      rw [← pow_add]; congr 1; ring

theorem basepointTableCreate_isBasepointTable (w : ℕ) (P : G) :
    IsBasepointTable (basepointTableCreate groupOps w P) w P := by
  intro i hi
  rw [basepointTableCreate, basepointTableCreate_go_getD _ _ _ _ hi]
  exact lookupTableFrom_isTable _ _

/-- The radix-`2^w` digit hypotheses delivered by `radix2w_spec` (`h = basepointAdditions w`). -/
structure Radix2wDigits (w : ℕ) (d : List ℤ) (s : ℤ) : Prop where
  sum : ∑ i ∈ Finset.range 64, d.getD i 0 * 2 ^ (w * i) = s
  zero : ∀ i, basepointAdditions w ≤ i → d.getD i 0 = 0
  lo : ∀ i, -(2 ^ (w - 1) : ℤ) ≤ d.getD i 0
  hi : ∀ i, d.getD i 0 ≤ 2 ^ (w - 1)
  i8lo : ∀ i, -128 ≤ d.getD i 0
  i8hi : ∀ i, d.getD i 0 ≤ 127

theorem list_range_map_sum (f : ℕ → G) (n : ℕ) :
    ((List.range n).map f).sum = ∑ i ∈ Finset.range n, f i := by
  induction n with
  | zero => simp
  | succ n ih => rw [List.range_succ, List.map_append, List.sum_append, ih, Finset.sum_range_succ]; simp

theorem filter_split_sum (l : List ℕ) (p : ℕ → Bool) (f g : ℕ → G) :
    ((l.filter p).map f).sum + ((l.filter fun i => !p i).map g).sum
      = (l.map fun i => if p i then f i else g i).sum := by
  induction l with
  | nil => simp
  | cons a l ih =>
    cases hp : p a
    · simp only [List.filter_cons, hp, Bool.false_eq_true, if_false, Bool.not_false, if_true,
        List.map_cons, List.sum_cons, ← ih]
      abel
    · simp only [List.filter_cons, hp, if_true, Bool.not_true, Bool.false_eq_true, if_false,
        List.map_cons, List.sum_cons, ← ih]
      abel

theorem list_smul_sum {α : Type} (a : ℤ) (f : α → G) (l : List α) :
    a • (l.map f).sum = (l.map fun x => a • f x).sum := by
  induction l with
  | nil => simp
  | cons x l ih => simp only [List.map_cons, List.sum_cons, smul_add, ih]

theorem basepointAdditions_le (w : ℕ) : basepointAdditions w ≤ 64 := by
  unfold basepointAdditions; split <;> omega

theorem even_filter_eq : (fun x : ℕ => x % 2 == 0) = fun x => !(x % 2 == 1) := by
  funext x
  rcases Nat.mod_two_eq_zero_or_one x with h | h <;> simp [h]

/-- `mul_base` with correct tables and correct digits returns `s • B`. -/
theorem basepointTableMulBase_eq {w : ℕ} {tables : List (List G)} {B : G}
    (ht : IsBasepointTable tables w B) {d : List ℤ} {s : ℤ} (hd : Radix2wDigits w d s) :
    basepointTableMulBase groupOps w tables d = s • B := by
  have hsel : ∀ i, i < basepointAdditions w →
      selectModel groupOps (tables.getD (i / 2) []) (d.getD i 0)
        = d.getD i 0 • (((2 : ℤ) ^ (2 * w * (i / 2))) • B) := by
    intro i hi
    have h64 := basepointAdditions_le w
    refine selectModel_eq (ht (i / 2) (by omega)) ?_ ?_ (hd.i8lo i) (hd.i8hi i)
    · push_cast; exact hd.lo i
    · push_cast; exact hd.hi i
  unfold basepointTableMulBase
  simp only
  rw [foldl_congr_mem _ (fun P i => P + d.getD i 0 • (((2 : ℤ) ^ (2 * w * (i / 2))) • B)),
    foldl_congr_mem _ (fun P i => P + d.getD i 0 • (((2 : ℤ) ^ (2 * w * (i / 2))) • B))
      ((List.range (basepointAdditions w)).filter (· % 2 == 1))]
  · rw [foldl_add_eq, foldl_add_eq, groupOps_zero, zero_add, mulByPow2_eq, list_smul_sum, even_filter_eq,
      filter_split_sum, list_range_map_sum, ← hd.sum, Finset.sum_smul]
    rw [← Finset.sum_subset (Finset.range_subset_range.2 (basepointAdditions_le w))]
    · refine Finset.sum_congr rfl fun i _ => ?_
      rcases Nat.mod_two_eq_zero_or_one i with h | h
      · have e : (i % 2 == 1) = false := by simp [h]
        rw [e]; simp only [Bool.false_eq_true, if_false]
        rw [smul_smul]
        have : 2 * w * (i / 2) = w * i := by
          have := Nat.div_add_mod i 2
          calc 2 * w * (i / 2) = w * (2 * (i / 2)) := by ring
            _ = w * i := by congr 1; omega
        rw [this]
      · have e : (i % 2 == 1) = true := by simp [h]
        rw [e]; simp only [if_true]
        rw [smul_smul, smul_smul]
        have : w + 2 * w * (i / 2) = w * i := by
          have := Nat.div_add_mod i 2
          calc w + 2 * w * (i / 2) = w * (2 * (i / 2) + 1) := by ring
            _ = w * i := by congr 1; omega
        rw [← this, pow_add]
        congr 1; ring
    · intro i _ hi
      rw [Finset.mem_range, not_lt] at hi
      rw [hd.zero i hi, zero_mul, zero_smul]
  · intro acc i hi
    rw [List.mem_filter, List.mem_range] at hi
    rw [groupOps_add, hsel i hi.1]
  · intro acc i hi
    rw [List.mem_filter, List.mem_range] at hi
    rw [groupOps_add, hsel i hi.1]

/-- `BasepointTable::basepoint` returns the point the table was made for. -/
theorem basepointTableBasepoint_eq {w : ℕ} {tables : List (List G)} {B : G}
    (ht : IsBasepointTable tables w B) : basepointTableBasepoint groupOps tables = B := by
  unfold basepointTableBasepoint
  have h1 : (1 : ℤ) ≤ 2 ^ (w - 1) := one_le_pow₀ (by norm_num)
  rw [groupOps_add, groupOps_zero, zero_add,
    selectModel_eq (ht 0 (by omega)) (by push_cast; omega) (by push_cast; omega) (by omega) (by omega)]
  simp

end Dalek.Proofs.ScalarMul

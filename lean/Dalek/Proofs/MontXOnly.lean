/-
Correctness of the RFC 7748 ladder with respect to the GROUP of the Edwards curve (`LadderXOnly`):
under the map `π(P) = (1+y : 1−y)` (the Montgomery `u`-line, `∞ = π(0)`), the doubling formula computes `π(2P)`,
the differential addition computes `π(P₁+P₂)` from `π(P₁)`, `π(P₂)` and the affine `u(P₁−P₂) ∉ {0, ∞}`, and the
degenerate base points (`u = 0`: the identity and the point of order two) are handled separately.
-/
import Dalek.Proofs.MontGroup

namespace Dalek.Proofs.Mont
open Dalek.Spec Dalek.Bridge Dalek.Edwards

local notation "dE" => Dalek.FieldFacts.d

theorem ed_on (P : Ed) : -P.x ^ 2 + P.y ^ 2 = 1 + dE * P.x ^ 2 * P.y ^ 2 := by
  have := P.on; unfold Dalek.Edwards.onCurve at this; rwa [edParams_d] at this

theorem two_ne : (2 : Fp) ≠ 0 := Dalek.FieldFacts.two_ne_zero_p

/-- `(X : Z)` is the point `π(P) = (1+y : 1−y)` of the projective line -/
def PRep (P : Ed) (X Z : Fp) : Prop := ∃ l : Fp, l ≠ 0 ∧ X = l * (1 + P.y) ∧ Z = l * (1 - P.y)

theorem PRep.of_cross {P : Ed} {X Z : Fp} (hne : X ≠ 0 ∨ Z ≠ 0) (h : X * (1 - P.y) = Z * (1 + P.y)) :
    PRep P X Z := by
  by_cases hp : 1 + P.y = 0
  · have hm : 1 - P.y = 2 := by linear_combination -hp
    have hX : X = 0 := by
      rw [hp, mul_zero, hm] at h
      exact (mul_eq_zero.1 h).resolve_right two_ne
    have hZ : Z ≠ 0 := hne.resolve_left (fun h => h hX)
    refine ⟨Z / 2, div_ne_zero hZ two_ne, ?_, ?_⟩
    · rw [hp, hX]; ring
    · rw [hm, div_mul_cancel₀ _ two_ne]
  · refine ⟨X / (1 + P.y), ?_, by field_simp, ?_⟩
    · intro h0
      have hX : X = 0 := by
        rcases div_eq_zero_iff.1 h0 with h1 | h1
        · exact h1
        · exact absurd h1 hp
      have hZ : Z ≠ 0 := hne.resolve_left (fun h => h hX)
      rw [hX, zero_mul] at h
      exact hp ((mul_eq_zero.1 h.symm).resolve_left hZ)
    · field_simp
      linear_combination -h

theorem PRep.cross {P : Ed} {X Z : Fp} (h : PRep P X Z) : X * (1 - P.y) = Z * (1 + P.y) := by
  obtain ⟨l, -, rfl, rfl⟩ := h; ring

/-- reading off the affine coordinate with the `0⁻¹ = 0` convention: `X·Z⁻¹ = (1+y)/(1−y)` -/
theorem PRep.affine {P : Ed} {X Z : Fp} (h : PRep P X Z) : X * Z⁻¹ = (1 + P.y) / (1 - P.y) := by
  obtain ⟨l, hl, rfl, rfl⟩ := h
  by_cases hm : 1 - P.y = 0
  · rw [hm]; simp
  · field_simp

/-! ### doubling -/

def dblX (X Z : Fp) : Fp := (X + Z) ^ 2 * (X - Z) ^ 2
def dblZ (X Z : Fp) : Fp := ((X + Z) ^ 2 - (X - Z) ^ 2) * ((X + Z) ^ 2 + 121665 * ((X + Z) ^ 2 - (X - Z) ^ 2))

theorem c1946656_ne : (1946656 : Fp) ≠ 0 := by
  have h : ((1946656 : Nat) : Fp) ≠ 0 := Dalek.FieldFacts.natCast_ne_zero_of_mod (by decide +kernel)
  simpa using h

theorem dbl_rep {P : Ed} {X Z : Fp} (h : PRep P X Z) : PRep (P + P) (dblX X Z) (dblZ X Z) := by
  obtain ⟨l, hl, rfl, rfl⟩ := h
  have hc := ed_on P
  have hd := Dalek.FieldFacts.d_mul
  have hm : 1 - dE * P.x * P.x * P.y * P.y ≠ 0 := by
    have := (EdPoint.add_den_ne_zero P P).2; rwa [edParams_d] at this
  apply PRep.of_cross
  · by_contra hcon
    push Not at hcon
    obtain ⟨h1, h2⟩ := hcon
    have e1 : dblX (l * (1 + P.y)) (l * (1 - P.y)) = 16 * l ^ 4 * P.y ^ 2 := by unfold dblX; ring
    rw [e1] at h1
    have hy : P.y = 0 := by
      have : (16 : Fp) ≠ 0 := by
        have : (16 : Fp) = 2 ^ 4 := by norm_num
        rw [this]; exact pow_ne_zero 4 two_ne
      have h16 : 16 * l ^ 4 ≠ 0 := mul_ne_zero this (pow_ne_zero 4 hl)
      exact pow_eq_zero_iff (n := 2) (by norm_num) |>.1 ((mul_eq_zero.1 h1).resolve_left h16)
    have e2 : dblZ (l * (1 + P.y)) (l * (1 - P.y)) = 1946656 * l ^ 4 := by unfold dblZ; rw [hy]; ring
    rw [e2] at h2
    exact (mul_ne_zero c1946656_ne (pow_ne_zero 4 hl)) h2
  · rw [EdPoint.add_y, edParams_d]
    have key : dblX (l * (1 + P.y)) (l * (1 - P.y)) *
          ((1 - dE * P.x * P.x * P.y * P.y) - (P.y * P.y + P.x * P.x)) =
        dblZ (l * (1 + P.y)) (l * (1 - P.y)) *
          ((1 - dE * P.x * P.x * P.y * P.y) + (P.y * P.y + P.x * P.x)) := by
      unfold dblX dblZ
      linear_combination (-16 * l ^ 4 * (121665 * P.y ^ 4 - 121666)) * hc +
        (-32 * l ^ 4 * P.x ^ 2 * P.y ^ 2 * (P.y - 1) * (P.y + 1)) * hd
    rw [one_sub_div hm, one_add_div hm, ← mul_div_assoc, ← mul_div_assoc, key]

/-! ### differential addition -/

def daddX (X1 Z1 X2 Z2 : Fp) : Fp := ((X2 - Z2) * (X1 + Z1) + (X2 + Z2) * (X1 - Z1)) ^ 2
def daddZ (u X1 Z1 X2 Z2 : Fp) : Fp := u * ((X2 - Z2) * (X1 + Z1) - (X2 + Z2) * (X1 - Z1)) ^ 2

theorem dadd_rep {P1 P2 : Ed} {X1 Z1 X2 Z2 u : Fp} (h1 : PRep P1 X1 Z1) (h2 : PRep P2 X2 Z2)
    (hp : 1 + (P1 - P2).y ≠ 0) (hm : 1 - (P1 - P2).y ≠ 0) (hu : u = (1 + (P1 - P2).y) / (1 - (P1 - P2).y)) :
    PRep (P1 + P2) (daddX X1 Z1 X2 Z2) (daddZ u X1 Z1 X2 Z2) := by
  obtain ⟨l, hl, rfl, rfl⟩ := h1
  obtain ⟨k, hk, rfl, rfl⟩ := h2
  have hc1 := ed_on P1
  have hc2 := ed_on P2
  have hmp : 1 - dE * P1.x * P2.x * P1.y * P2.y ≠ 0 := by
    have := (EdPoint.add_den_ne_zero P1 P2).2; rwa [edParams_d] at this
  have hmm : 1 + dE * P1.x * P2.x * P1.y * P2.y ≠ 0 := by
    have := (EdPoint.add_den_ne_zero P1 P2).1; rwa [edParams_d] at this
  have hyD : (P1 - P2).y = (P1.y * P2.y - P1.x * P2.x) / (1 + dE * P1.x * P2.x * P1.y * P2.y) := by
    rw [sub_eq_add_neg, EdPoint.add_y, edParams_d, EdPoint.neg_x, EdPoint.neg_y]
    congr 1 <;> ring
  have eX : daddX (l * (1 + P1.y)) (l * (1 - P1.y)) (k * (1 + P2.y)) (k * (1 - P2.y)) =
      16 * l ^ 2 * k ^ 2 * (P1.y + P2.y) ^ 2 := by unfold daddX; ring
  have eZ : daddZ u (l * (1 + P1.y)) (l * (1 - P1.y)) (k * (1 + P2.y)) (k * (1 - P2.y)) =
      u * (16 * l ^ 2 * k ^ 2 * (P2.y - P1.y) ^ 2) := by unfold daddZ; ring
  have h16 : (16 : Fp) * l ^ 2 * k ^ 2 ≠ 0 := by
    have : (16 : Fp) = 2 ^ 4 := by norm_num
    rw [this]
    exact mul_ne_zero (mul_ne_zero (pow_ne_zero 4 two_ne) (pow_ne_zero 2 hl)) (pow_ne_zero 2 hk)
  have hu0 : u ≠ 0 := by rw [hu]; exact div_ne_zero hp hm
  rw [eX, eZ]
  apply PRep.of_cross
  · by_contra hcon
    push Not at hcon
    obtain ⟨g1, g2⟩ := hcon
    have s1 : P1.y + P2.y = 0 :=
      pow_eq_zero_iff (n := 2) (by norm_num) |>.1 ((mul_eq_zero.1 g1).resolve_left h16)
    have s2 : P2.y - P1.y = 0 :=
      pow_eq_zero_iff (n := 2) (by norm_num) |>.1
        ((mul_eq_zero.1 ((mul_eq_zero.1 g2).resolve_left hu0)).resolve_left h16)
    have y1 : P1.y = 0 := by
      have : 2 * P1.y = 0 := by linear_combination s1 - s2
      exact (mul_eq_zero.1 this).resolve_left two_ne
    have y2 : P2.y = 0 := by linear_combination s1 - y1
    rw [y1] at hc1; rw [y2] at hc2
    have hy : (P1 - P2).y = -(P1.x * P2.x) := by rw [hyD, y1, y2]; simp
    have : (1 + (P1 - P2).y) * (1 - (P1 - P2).y) = 0 := by
      rw [hy]; linear_combination (P2.x ^ 2) * hc1 - hc2
    rcases mul_eq_zero.1 this with h | h
    · exact hp h
    · exact hm h
  · rw [EdPoint.add_y, edParams_d, hu, hyD]
    have key : (P1.y + P2.y) ^ 2 *
        ((1 - dE * P1.x * P2.x * P1.y * P2.y) - (P1.y * P2.y + P1.x * P2.x)) *
        ((1 + dE * P1.x * P2.x * P1.y * P2.y) - (P1.y * P2.y - P1.x * P2.x)) =
        (P2.y - P1.y) ^ 2 *
        ((1 + dE * P1.x * P2.x * P1.y * P2.y) + (P1.y * P2.y - P1.x * P2.x)) *
        ((1 - dE * P1.x * P2.x * P1.y * P2.y) + (P1.y * P2.y + P1.x * P2.x)) := by
      linear_combination (4 * P2.x ^ 2 * P1.y * P2.y * (dE * P2.y ^ 2 + 1)) * hc1 +
        (4 * P1.y * P2.y * (P1.y - 1) * (P1.y + 1)) * hc2
    have hm' : (1 + dE * P1.x * P2.x * P1.y * P2.y) - (P1.y * P2.y - P1.x * P2.x) ≠ 0 := by
      intro h0; apply hm; rw [hyD, one_sub_div hmm, h0, zero_div]
    have main : (P1.y + P2.y) ^ 2 *
        (1 - (P1.y * P2.y + P1.x * P2.x) / (1 - dE * P1.x * P2.x * P1.y * P2.y)) =
        (1 + (P1.y * P2.y - P1.x * P2.x) / (1 + dE * P1.x * P2.x * P1.y * P2.y)) /
          (1 - (P1.y * P2.y - P1.x * P2.x) / (1 + dE * P1.x * P2.x * P1.y * P2.y)) * (P2.y - P1.y) ^ 2 *
        (1 + (P1.y * P2.y + P1.x * P2.x) / (1 - dE * P1.x * P2.x * P1.y * P2.y)) := by
      rw [one_sub_div hmp, one_add_div hmp, one_sub_div hmm, one_add_div hmm, div_div_div_cancel_right₀ hmm]
      rw [div_mul_eq_mul_div, div_mul_div_comm, mul_div_assoc', div_eq_div_iff hmp (mul_ne_zero hm' hmp)]
      linear_combination (1 - dE * P1.x * P2.x * P1.y * P2.y) * key
    linear_combination (16 * l ^ 2 * k ^ 2) * main

/-! ### one ladder step on casts -/

/-- the pair of the state that is operated on as `(x2:z2)` after the conditional swap of a step with bit `kt` -/
def fstPair (s : Ladder) (kt : Bool) : Nat × Nat := if (s.swap != kt) then (s.x3, s.z3) else (s.x2, s.z2)
def sndPair (s : Ladder) (kt : Bool) : Nat × Nat := if (s.swap != kt) then (s.x2, s.z2) else (s.x3, s.z3)

theorem ladderStep_cast (x1 : Nat) (s : Ladder) (kt : Bool) :
    ((ladderStep x1 s kt).x2 : Fp) = dblX (fstPair s kt).1 (fstPair s kt).2 ∧
    ((ladderStep x1 s kt).z2 : Fp) = dblZ (fstPair s kt).1 (fstPair s kt).2 ∧
    ((ladderStep x1 s kt).x3 : Fp) =
      daddX (fstPair s kt).1 (fstPair s kt).2 (sndPair s kt).1 (sndPair s kt).2 ∧
    ((ladderStep x1 s kt).z3 : Fp) =
      daddZ x1 (fstPair s kt).1 (fstPair s kt).2 (sndPair s kt).1 (sndPair s kt).2 ∧
    (ladderStep x1 s kt).swap = kt := by
  unfold fstPair sndPair dblX dblZ daddX daddZ
  cases h : (s.swap != kt) <;>
    simp [ladderStep, cswap, h, a24, cast_fmul, cast_fsq, cast_fadd, cast_fsub]

/-- logical pairs: `lo ~ [k]Q`, `hi ~ [k+1]Q` -/
def loPair (s : Ladder) : Nat × Nat := if s.swap then (s.x3, s.z3) else (s.x2, s.z2)
def hiPair (s : Ladder) : Nat × Nat := if s.swap then (s.x2, s.z2) else (s.x3, s.z3)

def LInv (Q : Ed) (k : Nat) (s : Ladder) : Prop :=
  PRep (k • Q) (loPair s).1 (loPair s).2 ∧ PRep ((k + 1) • Q) (hiPair s).1 (hiPair s).2

theorem neg_y_sub (P1 P2 : Ed) : (P1 - P2).y = (P2 - P1).y := by
  rw [← neg_sub P2 P1, EdPoint.neg_y]

theorem ladderStep_inv {Q : Ed} {x1 : Nat} (hp : 1 + Q.y ≠ 0) (hm : 1 - Q.y ≠ 0)
    (hx1 : (x1 : Fp) = (1 + Q.y) / (1 - Q.y)) {k : Nat} {s : Ladder} (kt : Bool) (h : LInv Q k s) :
    LInv Q (2 * k + (if kt then 1 else 0)) (ladderStep x1 s kt) := by
  obtain ⟨e1, e2, e3, e4, e5⟩ := ladderStep_cast x1 s kt
  obtain ⟨hlo, hhi⟩ := h
  have hd1 : ((k + 1) • Q - k • Q).y = Q.y := by rw [succ_nsmul, add_sub_cancel_left]
  have hd2 : (k • Q - (k + 1) • Q).y = Q.y := by rw [neg_y_sub, hd1]
  unfold LInv loPair hiPair
  rw [e5]
  cases kt
  · -- bit 0: first pair is lo
    have f1 : fstPair s false = loPair s := by unfold fstPair loPair; cases s.swap <;> rfl
    have f2 : sndPair s false = hiPair s := by unfold sndPair hiPair; cases s.swap <;> rfl
    rw [f1] at e1 e2 e3 e4
    rw [f2] at e3 e4
    simp only [Bool.false_eq_true, if_false, add_zero]
    rw [e1, e2, e3, e4]
    refine ⟨?_, ?_⟩
    · have := dbl_rep hlo
      have e : k • Q + k • Q = (2 * k) • Q := by rw [← add_nsmul]; congr 1; ring
      rwa [e] at this
    · have := dadd_rep (u := (x1 : Fp)) hlo hhi (by rw [hd2]; exact hp) (by rw [hd2]; exact hm)
        (by rw [hd2]; exact hx1)
      have e : k • Q + (k + 1) • Q = (2 * k + 1) • Q := by rw [← add_nsmul]; congr 1; ring
      rwa [e] at this
  · -- bit 1: first pair is hi
    have f1 : fstPair s true = hiPair s := by unfold fstPair hiPair; cases s.swap <;> rfl
    have f2 : sndPair s true = loPair s := by unfold sndPair loPair; cases s.swap <;> rfl
    rw [f1] at e1 e2 e3 e4
    rw [f2] at e3 e4
    simp only [if_true]
    rw [e1, e2, e3, e4]
    refine ⟨?_, ?_⟩
    · have := dadd_rep (u := (x1 : Fp)) hhi hlo (by rw [hd1]; exact hp) (by rw [hd1]; exact hm)
        (by rw [hd1]; exact hx1)
      have e : (k + 1) • Q + k • Q = (2 * k + 1) • Q := by rw [← add_nsmul]; congr 1; ring
      rwa [e] at this
    · have := dbl_rep hhi
      have e : (k + 1) • Q + (k + 1) • Q = (2 * k + 1 + 1) • Q := by rw [← add_nsmul]; congr 1; ring
      rwa [e] at this

/-- value of an MSB-first bit list, continuing from `k` -/
def bitsAcc (bits : List Bool) (k : Nat) : Nat := bits.foldl (fun k b => 2 * k + (if b then 1 else 0)) k

theorem foldl_inv {Q : Ed} {x1 : Nat} (hp : 1 + Q.y ≠ 0) (hm : 1 - Q.y ≠ 0)
    (hx1 : (x1 : Fp) = (1 + Q.y) / (1 - Q.y)) (bits : List Bool) {k : Nat} {s : Ladder} (h : LInv Q k s) :
    LInv Q (bitsAcc bits k) (bits.foldl (ladderStep x1) s) := by
  induction bits generalizing k s with
  | nil => exact h
  | cons b bs ih => exact ih (ladderStep_inv hp hm hx1 b h)

theorem bitsAcc_bitsBE (n t k : Nat) : bitsAcc (bitsBE n t) k = k * 2 ^ t + n % 2 ^ t := by
  induction t generalizing k with
  | zero => simp [bitsAcc, bitsBE, Nat.mod_one]
  | succ t ih =>
    have hb : (if ((n >>> t) % 2 == 1) = true then 1 else 0) = n / 2 ^ t % 2 := by
      rw [Nat.shiftRight_eq_div_pow]
      rcases Nat.mod_two_eq_zero_or_one (n / 2 ^ t) with h | h <;> simp [h]
    show bitsAcc (bitsBE n t) (2 * k + (if ((n >>> t) % 2 == 1) = true then 1 else 0)) = _
    rw [ih, hb, Nat.mod_pow_succ, Nat.pow_succ]
    ring

/-! ### the two cases of the base point -/

/-- generic base point (`u(Q) ∉ {0, ∞}`) -/
theorem ladder_generic (Q : Ed) (hp : 1 + Q.y ≠ 0) (hm : 1 - Q.y ≠ 0) (n : Nat) (hn : n < 2 ^ 255) :
    ladderBitsBE (uOfEd Q) (bitsBE n 255) = uOfEd (n • Q) := by
  have hx1 := cast_uOfEd Q
  have h0 : LInv Q 0 { x2 := 1, z2 := 0, x3 := uOfEd Q, z3 := 1, swap := false } := by
    refine ⟨⟨2⁻¹, inv_ne_zero two_ne, ?_, ?_⟩, PRep.of_cross (Or.inr ?_) ?_⟩
    · simp only [loPair, zero_nsmul, EdPoint.zero_y, Bool.false_eq_true, if_false, Nat.cast_one]
      rw [show (1 : Fp) + 1 = 2 by norm_num, inv_mul_cancel₀ two_ne]
    · simp [loPair]
    · simp [hiPair]
    · simp only [hiPair, Bool.false_eq_true, if_false, zero_add, one_nsmul, Nat.cast_one, hx1]
      field_simp
  have h := foldl_inv hp hm hx1 (bitsBE n 255) h0
  rw [bitsAcc_bitsBE, zero_mul, zero_add, Nat.mod_eq_of_lt hn] at h
  unfold ladderBitsBE
  simp only [Nat.mod_eq_of_lt (uOfEd_lt Q)]
  generalize (bitsBE n 255).foldl (ladderStep (uOfEd Q))
    { x2 := 1, z2 := 0, x3 := uOfEd Q, z3 := 1, swap := false } = s at h
  have hlo : (cswap s.swap s.x2 s.x3).1 = (loPair s).1 ∧ (cswap s.swap s.z2 s.z3).1 = (loPair s).2 := by
    unfold cswap loPair; cases s.swap <;> simp
  rw [hlo.1, hlo.2]
  apply eq_of_cast_eq (fmul_lt _ _) (uOfEd_lt _)
  rw [cast_fmul, cast_fpow, cast_uOfEd, Dalek.FieldFacts.pow_p_sub_two']
  exact h.1.affine

theorem one_add_d_ne : (1 : Fp) + dE ≠ 0 := by
  intro h
  have hd := Dalek.FieldFacts.d_mul
  have : (1 : Fp) = 0 := by linear_combination (121666 : Fp) * h - hd
  exact one_ne_zero this

/-- points with `x = 0` (the identity and the point of order two) form a subgroup on which `u = 0` -/
theorem nsmul_x_zero {Q : Ed} (hx : Q.x = 0) (n : Nat) : (n • Q).x = 0 := by
  induction n with
  | zero => simp
  | succ n ih => rw [succ_nsmul, EdPoint.add_x, ih, hx]; simp

theorem uOfEd_eq_zero_of_x {Q : Ed} (hx : Q.x = 0) : uOfEd Q = 0 := by
  have hc := ed_on Q
  rw [hx] at hc
  have : (1 + Q.y) * (1 - Q.y) = 0 := by linear_combination -hc
  unfold uOfEd
  rcases mul_eq_zero.1 this with h | h
  · rw [h]; simp
  · rw [h]; simp

theorem x_zero_of_y {Q : Ed} (h : 1 + Q.y = 0 ∨ 1 - Q.y = 0) : Q.x = 0 := by
  have hc := ed_on Q
  have hy : Q.y ^ 2 = 1 := by
    rcases h with h | h
    · have : Q.y = -1 := by linear_combination h
      rw [this]; ring
    · have : Q.y = 1 := by linear_combination -h
      rw [this]; ring
  have : Q.x ^ 2 * (1 + dE) = 0 := by rw [hy] at hc; linear_combination -hc
  exact pow_eq_zero_iff (n := 2) (by norm_num) |>.1 ((mul_eq_zero.1 this).resolve_right one_add_d_ne)

/-- degenerate base point: with `x1 = 0` the ladder returns `0` on every bit list -/
theorem ladder_zero (bits : List Bool) : ladderBitsBE 0 bits = 0 := by
  unfold ladderBitsBE
  simp only [Nat.zero_mod]
  have inv : ∀ (bits : List Bool) (s : Ladder),
      (((s.x2 : Nat) : Fp) = 0 ∨ ((s.z2 : Nat) : Fp) = 0) → (((s.x3 : Nat) : Fp) = 0 ∨ ((s.z3 : Nat) : Fp) = 0) →
      ((((bits.foldl (ladderStep 0) s).x2 : Nat) : Fp) = 0 ∨ (((bits.foldl (ladderStep 0) s).z2 : Nat) : Fp) = 0) ∧
      ((((bits.foldl (ladderStep 0) s).x3 : Nat) : Fp) = 0 ∨ (((bits.foldl (ladderStep 0) s).z3 : Nat) : Fp) = 0) := by
    intro bits
    induction bits with
    | nil => intro s h2 h3; exact ⟨h2, h3⟩
    | cons b bs ih =>
      intro s h2 h3
      obtain ⟨-, e2, -, e4, -⟩ := ladderStep_cast 0 s b
      apply ih
      · right
        rw [e2]; unfold dblZ fstPair
        split
        · rcases h3 with h | h <;> rw [h] <;> ring
        · rcases h2 with h | h <;> rw [h] <;> ring
      · right
        rw [e4]; unfold daddZ; simp
  obtain ⟨h2, h3⟩ := inv bits { x2 := 1, z2 := 0, x3 := 0, z3 := 1, swap := false } (Or.inr (by simp)) (Or.inl (by simp))
  generalize bits.foldl (ladderStep 0) { x2 := 1, z2 := 0, x3 := 0, z3 := 1, swap := false } = s at h2 h3
  apply (cast_eq_zero_of_lt (fmul_lt _ _)).1
  rw [cast_fmul, cast_fpow, Dalek.FieldFacts.pow_p_sub_two']
  unfold cswap
  cases s.swap
  · simp only [Bool.false_eq_true, if_false]
    rcases h2 with h | h <;> rw [h] <;> simp
  · simp only [if_true]
    rcases h3 with h | h <;> rw [h] <;> simp

/-- **`LadderXOnly` holds**: the RFC 7748 ladder on the 255 bits of `n < 2^255`, started from the `u`-coordinate
of ANY point `Q` of the Edwards curve, returns the `u`-coordinate of `[n]Q`. -/
theorem ladderXOnly : LadderXOnly := by
  intro Q n hn
  by_cases h : 1 + Q.y = 0 ∨ 1 - Q.y = 0
  · have hx := x_zero_of_y h
    rw [uOfEd_eq_zero_of_x hx, uOfEd_eq_zero_of_x (nsmul_x_zero hx n)]
    exact ladder_zero _
  · push Not at h
    exact ladder_generic Q h.1 h.2 n hn

/-! ### arbitrary scalars: only bits 254 … 0 are used -/

theorem bitsBE_mod (n m : Nat) : ∀ t, t ≤ m → bitsBE (n % 2 ^ m) t = bitsBE n t := by
  intro t
  induction t with
  | zero => intro _; rfl
  | succ t ih =>
    intro h
    have hb : ((n % 2 ^ m) >>> t) % 2 = (n >>> t) % 2 := by
      have h1 := Nat.testBit_mod_two_pow n m t
      rw [Nat.testBit_eq_decide_div_mod_eq, Nat.testBit_eq_decide_div_mod_eq] at h1
      have ht : t < m := by omega
      simp only [ht, decide_true, Bool.true_and, decide_eq_decide] at h1
      rw [Nat.shiftRight_eq_div_pow, Nat.shiftRight_eq_div_pow]
      rcases Nat.mod_two_eq_zero_or_one (n / 2 ^ t) with h2 | h2 <;>
        rcases Nat.mod_two_eq_zero_or_one (n % 2 ^ m / 2 ^ t) with h3 | h3 <;> simp_all
    show (((n % 2 ^ m) >>> t) % 2 == 1) :: bitsBE (n % 2 ^ m) t = ((n >>> t) % 2 == 1) :: bitsBE n t
    rw [hb, ih (by omega)]

/-- the ladder on bits 254 … 0 of an ARBITRARY natural number `n` computes `u([n mod 2^255]Q)` -/
theorem ladder_bits_group (Q : Ed) (n : Nat) :
    ladderBitsBE (uOfEd Q) (bitsBE n 255) = uOfEd ((n % 2 ^ 255) • Q) := by
  rw [← bitsBE_mod n 255 255 (le_refl _)]
  exact ladderXOnly Q _ (Nat.mod_lt _ (by norm_num))

end Dalek.Proofs.Mont

/-
The JSON array reader of `Dalek.Model.Serde` (`nextElem`, `readElems`, `endSeqAndEnd`, `jsonDe`)
against an explicit description of the accepted texts (helpers for property C16):

  `arrayText w0 w1 t0 pads toks w2 w3 = w0 [ w1 t0 (p.1 , p.2 t)* w2 ] w3`

where the `w`s / `p`s are whitespace and `t0`, `toks` are number tokens.

* `jsonDe_arrayText` (evaluation): on every such text made of DIGIT-STRING tokens, `jsonDe ty` answers
  `ofOption (validate ty bytes)` if there are exactly `ty.len` tokens and each is an accepted `u8` token
  (`TokOK`: no leading zero, value ≤ 255), and `.err` otherwise (too few / too many elements, element > 255,
  leading zero).
* `jsonDe_ok_inv` (inversion): if `jsonDe ty x = .ok v` then `x` is such a text (or, for the
  `deserialize_bytes` types, a JSON string).
-/
import Dalek.Proofs.SerdeJson

namespace Dalek.Proofs.Serde
open Dalek.Spec Dalek.Model.Serde

/-! ## Texts -/

/-- every pad consists of whitespace -/
def PadsWs (pads : List (List UInt8 × List UInt8)) : Prop := ∀ p ∈ pads, AllWs p.1 ∧ AllWs p.2

theorem padsWs_nil : PadsWs [] := fun _ h => (by cases h)

theorem padsWs_cons {p : List UInt8 × List UInt8} {ps : List (List UInt8 × List UInt8)} :
    PadsWs (p :: ps) ↔ (AllWs p.1 ∧ AllWs p.2) ∧ PadsWs ps := by
  unfold PadsWs; simp

theorem padsWs_drop {pads : List (List UInt8 × List UInt8)} (h : PadsWs pads) (k : Nat) :
    PadsWs (pads.drop k) := fun p hp => h p (List.mem_of_mem_drop hp)

/-- the elements after the first one: `ws* , ws* token` each -/
def restText : List (List UInt8 × List UInt8) → List (List UInt8) → List UInt8
  | p :: ps, t :: ts => p.1 ++ 0x2c :: (p.2 ++ (t ++ restText ps ts))
  | [], _ => []
  | _ :: _, [] => []

/-- `ws* [ ws* t0 (ws* , ws* t)* ws* ] ws*` -/
def arrayText (w0 w1 t0 : List UInt8) (pads : List (List UInt8 × List UInt8))
    (toks : List (List UInt8)) (w2 w3 : List UInt8) : List UInt8 :=
  w0 ++ 0x5b :: (w1 ++ (t0 ++ (restText pads toks ++ (w2 ++ 0x5d :: w3))))

theorem restText_nil_left (toks : List (List UInt8)) : restText [] toks = [] := by
  cases toks <;> rfl

theorem restText_nil_right (pads : List (List UInt8 × List UInt8)) : restText pads [] = [] := by
  cases pads <;> rfl

theorem contB_ws_append {w r : List UInt8} (hw : AllWs w) (hr : contB r = false) :
    contB (w ++ r) = false := by
  cases w with
  | nil => exact hr
  | cons c w' => exact contB_of_isWs (allWs_cons.1 hw).1

theorem contB_tail {w2 w3 : List UInt8} (hw : AllWs w2) : contB (w2 ++ 0x5d :: w3) = false :=
  contB_ws_append hw (contB_rbracket w3)

theorem contB_restText {pads : List (List UInt8 × List UInt8)} (hp : PadsWs pads)
    (toks : List (List UInt8)) {r : List UInt8} (hr : contB r = false) :
    contB (restText pads toks ++ r) = false := by
  cases pads with
  | nil => rw [restText_nil_left]; exact hr
  | cons p ps =>
    cases toks with
    | nil => rw [restText_nil_right]; exact hr
    | cons t ts =>
      simp only [restText, List.append_assoc, List.cons_append]
      exact contB_ws_append (padsWs_cons.1 hp).1.1 (contB_comma _)

/-! ## `nextElem` -/

theorem isWs_comma : isWs 0x2c = false := by decide
theorem isWs_lbracket : isWs 0x5b = false := by decide
theorem isWs_rbracket : isWs 0x5d = false := by decide
theorem isWs_quote : isWs 0x22 = false := by decide

theorem skipWs_digits {t : List UInt8} (ht : IsDigits t) (r : List UInt8) :
    skipWs (t ++ r) = t ++ r := by
  obtain ⟨hne, hd⟩ := ht
  obtain ⟨c, t', rfl⟩ := List.exists_cons_of_ne_nil hne
  exact skipWs_cons_of_not_ws (isDigit_not_ws (hd c (by simp))) _

theorem nextElem_skip {w : List UInt8} (hw : AllWs w) (first : Bool) (s : List UInt8) :
    nextElem first (w ++ s) = nextElem first s := by
  unfold nextElem; rw [skipWs_append_of_allWs hw]

theorem nextElem_true_tok {t : List UInt8} (ht : IsDigits t) (r : List UInt8) :
    nextElem true (t ++ r) = parseU8 (t ++ r) := by
  unfold nextElem
  rw [skipWs_digits ht]
  obtain ⟨c, t', rfl⟩ := List.exists_cons_of_ne_nil ht.1
  simp

theorem nextElem_false_comma (s : List UInt8) : nextElem false (0x2c :: s) = parseU8 (skipWs s) := by
  unfold nextElem
  rw [skipWs_cons_of_not_ws isWs_comma]
  simp

theorem nextElem_false_tok {w w' t : List UInt8} (hw : AllWs w) (hw' : AllWs w') (ht : IsDigits t)
    (r : List UInt8) : nextElem false (w ++ 0x2c :: (w' ++ (t ++ r))) = parseU8 (t ++ r) := by
  rw [nextElem_skip hw, nextElem_false_comma, skipWs_append_of_allWs hw', skipWs_digits ht]

theorem nextElem_false_rbracket (s : List UInt8) : nextElem false (0x5d :: s) = none := by
  unfold nextElem
  rw [skipWs_cons_of_not_ws isWs_rbracket]
  simp

theorem nextElem_true_rbracket (s : List UInt8) : nextElem true (0x5d :: s) = none := by
  unfold nextElem
  rw [skipWs_cons_of_not_ws isWs_rbracket]
  have : (0x5d : UInt8) ≠ 0x30 := by decide
  simp only [if_true]
  rw [parseU8_cons _ _ this]
  have hd : isDigit (0x5d : UInt8) = false := by decide
  simp [hd]

theorem nextElem_true_inv {s r : List UInt8} {u : UInt8} (h : nextElem true s = some (u, r)) :
    ∃ w t, AllWs w ∧ s = w ++ (t ++ r) ∧ IsDigits t ∧ TokOK t ∧ u = tokByte t ∧ contB r = false := by
  obtain ⟨w, hw, hs, -⟩ := skipWs_spec s
  unfold nextElem at h
  cases hk : skipWs s with
  | nil => rw [hk] at h; simp at h
  | cons c s' =>
    rw [hk] at h hs
    simp only [if_true] at h
    obtain ⟨t, h1, h2, h3, h4, h5⟩ := parseU8_some h
    exact ⟨w, t, hw, by rw [hs, h1], h2, h3, h4, h5⟩

theorem nextElem_false_inv {s r : List UInt8} {u : UInt8} (h : nextElem false s = some (u, r)) :
    ∃ w w' t, AllWs w ∧ AllWs w' ∧ s = w ++ 0x2c :: (w' ++ (t ++ r)) ∧ IsDigits t ∧ TokOK t ∧
      u = tokByte t ∧ contB r = false := by
  obtain ⟨w, hw, hs, -⟩ := skipWs_spec s
  unfold nextElem at h
  cases hk : skipWs s with
  | nil => rw [hk] at h; simp at h
  | cons c s' =>
    rw [hk] at h hs
    by_cases hc : c = 0x2c
    · subst hc
      simp only [Bool.false_eq_true, if_false, beq_self_eq_true, if_true] at h
      obtain ⟨w', hw', hs', -⟩ := skipWs_spec s'
      obtain ⟨t, h1, h2, h3, h4, h5⟩ := parseU8_some h
      refine ⟨w, w', t, hw, hw', ?_, h2, h3, h4, h5⟩
      rw [hs, hs', h1]
    · simp [hc] at h

/-! ## `readElems` -/

theorem readElems_succ (n : Nat) (first : Bool) (s : List UInt8) :
    readElems (n + 1) first s =
      match nextElem first s with
      | some (v, r) => (readElems n false r).map fun (vs, r') => (v :: vs, r')
      | none => none := rfl

/-- **Evaluation of `readElems`** on `k ≤ |toks|` further elements. -/
theorem readElems_restText (k : Nat) :
    ∀ (pads : List (List UInt8 × List UInt8)) (toks : List (List UInt8)) (r : List UInt8),
      pads.length = toks.length → k ≤ toks.length → PadsWs pads → (∀ t ∈ toks, IsDigits t) →
      contB r = false →
      readElems k false (restText pads toks ++ r) =
        if ∀ t ∈ toks.take k, TokOK t then
          some ((toks.take k).map tokByte, restText (pads.drop k) (toks.drop k) ++ r)
        else none := by
  induction k with
  | zero => intro pads toks r _ _ _ _ _; simp [readElems]
  | succ k ih =>
    intro pads toks r hlen hk hp hd hr
    cases toks with
    | nil => simp at hk
    | cons t ts =>
      cases pads with
      | nil => simp at hlen
      | cons p ps =>
        have hp' := padsWs_cons.1 hp
        have ht : IsDigits t := hd t (by simp)
        have hcr : contB (restText ps ts ++ r) = false := contB_restText hp'.2 ts hr
        have hnd : NoDigitHead (restText ps ts ++ r) := noDigitHead_of_contB hcr
        rw [readElems_succ]
        simp only [restText, List.append_assoc, List.cons_append]
        rw [nextElem_false_tok hp'.1.1 hp'.1.2 ht, parseU8_tok ht hnd]
        by_cases htok : TokOK t
        · rw [if_pos ⟨htok, hcr⟩]
          simp only
          rw [ih ps ts r (by simpa using hlen) (by simpa using hk) hp'.2
            (fun t' ht' => hd t' (List.mem_cons_of_mem _ ht')) hr]
          by_cases hall : ∀ t' ∈ ts.take k, TokOK t'
          · have : ∀ t' ∈ (t :: ts).take (k + 1), TokOK t' := by
              intro t' ht'
              rw [List.take_succ_cons] at ht'
              rcases List.mem_cons.1 ht' with rfl | ht'
              · exact htok
              · exact hall t' ht'
            rw [if_pos hall, if_pos this]
            simp
          · have : ¬ ∀ t' ∈ (t :: ts).take (k + 1), TokOK t' := by
              intro h; apply hall
              intro t' ht'
              exact h t' (by rw [List.take_succ_cons]; exact List.mem_cons_of_mem _ ht')
            rw [if_neg hall, if_neg this]
            rfl
        · have h1 : ¬ (TokOK t ∧ contB (restText ps ts ++ r) = false) := fun h => htok h.1
          have h2 : ¬ ∀ t' ∈ (t :: ts).take (k + 1), TokOK t' := by
            intro h; exact htok (h t (by simp))
          rw [if_neg h1, if_neg h2]

/-- Too few elements: if fewer than `k` elements are present and the text then continues with
something `nextElem` refuses (e.g. `]`), `readElems k` fails. -/
theorem readElems_short :
    ∀ (toks : List (List UInt8)) (pads : List (List UInt8 × List UInt8)) (k : Nat) (r : List UInt8),
      pads.length = toks.length → toks.length < k → PadsWs pads → (∀ t ∈ toks, IsDigits t) →
      contB r = false → nextElem false r = none →
      readElems k false (restText pads toks ++ r) = none := by
  intro toks
  induction toks with
  | nil =>
    intro pads k r _ hk _ _ _ hr
    obtain ⟨k', rfl⟩ : ∃ k', k = k' + 1 := ⟨k - 1, by simp at hk; omega⟩
    rw [restText_nil_right, List.nil_append, readElems_succ, hr]
  | cons t ts ih =>
    intro pads k r hlen hk hp hd hcr hr
    obtain ⟨k', rfl⟩ : ∃ k', k = k' + 1 := ⟨k - 1, by omega⟩
    cases pads with
    | nil => simp at hlen
    | cons p ps =>
      have hp' := padsWs_cons.1 hp
      have ht : IsDigits t := hd t (by simp)
      have hcr' : contB (restText ps ts ++ r) = false := contB_restText hp'.2 ts hcr
      rw [readElems_succ]
      simp only [restText, List.append_assoc, List.cons_append]
      rw [nextElem_false_tok hp'.1.1 hp'.1.2 ht, parseU8_tok ht (noDigitHead_of_contB hcr')]
      by_cases htok : TokOK t ∧ contB (restText ps ts ++ r) = false
      · rw [if_pos htok]
        simp only
        rw [ih ps k' r (by simpa using hlen) (by simp at hk; omega) hp'.2
          (fun t' ht' => hd t' (List.mem_cons_of_mem _ ht')) hcr hr]
        rfl
      · rw [if_neg htok]

/-- **Inversion of `readElems`.** -/
theorem readElems_inv (k : Nat) :
    ∀ (s r : List UInt8) (bs : List UInt8), readElems k false s = some (bs, r) →
      ∃ (pads : List (List UInt8 × List UInt8)) (toks : List (List UInt8)),
        pads.length = k ∧ toks.length = k ∧ PadsWs pads ∧ (∀ t ∈ toks, IsDigits t ∧ TokOK t) ∧
        s = restText pads toks ++ r ∧ bs = toks.map tokByte ∧ (k ≠ 0 → contB r = false) := by
  induction k with
  | zero =>
    intro s r bs h
    simp only [readElems, Option.some.injEq, Prod.mk.injEq] at h
    obtain ⟨rfl, rfl⟩ := h
    exact ⟨[], [], rfl, rfl, padsWs_nil, fun _ h => (by cases h), by simp [restText], rfl,
      fun h => absurd rfl h⟩
  | succ k ih =>
    intro s r bs h
    rw [readElems_succ] at h
    cases hne : nextElem false s with
    | none => rw [hne] at h; cases h
    | some q =>
      obtain ⟨u, r1⟩ := q
      rw [hne] at h
      simp only [Option.map_eq_some_iff] at h
      obtain ⟨⟨vs, r'⟩, hre, heq⟩ := h
      simp only [Prod.mk.injEq] at heq
      obtain ⟨rfl, rfl⟩ := heq
      obtain ⟨w, w', t, hw, hw', hs, htd, htok, hu, hc1⟩ := nextElem_false_inv hne
      obtain ⟨pads, toks, hl1, hl2, hp, htoks, hs', hbs, hc⟩ := ih r1 r' vs hre
      refine ⟨(w, w') :: pads, t :: toks, by simp [hl1], by simp [hl2],
        padsWs_cons.2 ⟨⟨hw, hw'⟩, hp⟩, ?_, ?_, ?_, ?_⟩
      · intro t' ht'
        rcases List.mem_cons.1 ht' with rfl | ht'
        · exact ⟨htd, htok⟩
        · exact htoks t' ht'
      · rw [hs, hs']; simp [restText]
      · rw [hbs, hu]; rfl
      · intro _
        by_cases hk : k = 0
        · subst hk
          have : toks = [] := List.length_eq_zero_iff.1 hl2
          subst this
          rw [restText_nil_right, List.nil_append] at hs'
          rw [← hs']; exact hc1
        · exact hc hk

/-! ## `endSeqAndEnd` -/

theorem endSeqAndEnd_tail {w2 w3 : List UInt8} (h2 : AllWs w2) (h3 : AllWs w3) :
    endSeqAndEnd (w2 ++ 0x5d :: w3) = true := by
  unfold endSeqAndEnd
  rw [skipWs_append_of_allWs h2, skipWs_cons_of_not_ws isWs_rbracket]
  simp [skipWs_of_allWs h3]

theorem endSeqAndEnd_more {p : List UInt8 × List UInt8} {ps : List (List UInt8 × List UInt8)}
    {t : List UInt8} {ts : List (List UInt8)} (hp : AllWs p.1) (r : List UInt8) :
    endSeqAndEnd (restText (p :: ps) (t :: ts) ++ r) = false := by
  unfold endSeqAndEnd
  simp only [restText, List.append_assoc, List.cons_append]
  rw [skipWs_append_of_allWs hp, skipWs_cons_of_not_ws isWs_comma]
  simp

theorem endSeqAndEnd_inv {s : List UInt8} (h : endSeqAndEnd s = true) :
    ∃ w2 w3, AllWs w2 ∧ AllWs w3 ∧ s = w2 ++ 0x5d :: w3 := by
  obtain ⟨w, hw, hs, -⟩ := skipWs_spec s
  unfold endSeqAndEnd at h
  cases hk : skipWs s with
  | nil => rw [hk] at h; simp at h
  | cons c s' =>
    rw [hk] at h hs
    simp only [Bool.and_eq_true, beq_iff_eq] at h
    obtain ⟨rfl, h3⟩ := h
    exact ⟨w, s', hw, (skipWs_isEmpty_iff s').1 h3, hs⟩

/-! ## `jsonDe` -/

theorem ty_len_pos (ty : Ty) : ∃ n, ty.len = n + 1 := by
  cases ty <;> first | exact ⟨31, rfl⟩ | exact ⟨63, rfl⟩

/-- what `jsonDe` does with the result of `readElems` -/
def finishArr (ty : Ty) : Option (List UInt8 × List UInt8) → DeResult
  | none => .err
  | some (bytes, rest) =>
    match validate ty bytes with
    | none => .err
    | some native => if endSeqAndEnd rest then .ok native else .err

theorem finishArr_some (ty : Ty) (bytes rest : List UInt8) :
    finishArr ty (some (bytes, rest)) =
      if endSeqAndEnd rest then ofOption (validate ty bytes) else .err := by
  show (match validate ty bytes with
    | none => DeResult.err
    | some native => if endSeqAndEnd rest then DeResult.ok native else DeResult.err) = _
  cases validate ty bytes with
  | none => simp [ofOption]
  | some b => simp [ofOption]

theorem jsonDe_lbracket (ty : Ty) {w0 : List UInt8} (h0 : AllWs w0) (body : List UInt8) :
    jsonDe ty (w0 ++ 0x5b :: body) = finishArr ty (readElems ty.len true body) := by
  unfold jsonDe
  rw [skipWs_append_of_allWs h0, skipWs_cons_of_not_ws isWs_lbracket]
  simp only [beq_self_eq_true, if_true]
  cases readElems ty.len true body with
  | none => rfl
  | some q =>
    obtain ⟨bytes, rest⟩ := q
    simp only [finishArr]
    cases validate ty bytes <;> rfl

/-- **Evaluation of `jsonDe` on array texts of digit-string tokens.**  Exactly `ty.len` elements, each an
accepted `u8` token, are required; then the native validity rule decides. -/
theorem jsonDe_arrayText (ty : Ty) {w0 w1 t0 : List UInt8} {pads : List (List UInt8 × List UInt8)}
    {toks : List (List UInt8)} {w2 w3 : List UInt8}
    (h0 : AllWs w0) (h1 : AllWs w1) (h2 : AllWs w2) (h3 : AllWs w3) (hp : PadsWs pads)
    (hlen : pads.length = toks.length) (ht0 : IsDigits t0) (ht : ∀ t ∈ toks, IsDigits t) :
    jsonDe ty (arrayText w0 w1 t0 pads toks w2 w3) =
      if toks.length + 1 = ty.len ∧ ∀ t ∈ t0 :: toks, TokOK t then
        ofOption (validate ty ((t0 :: toks).map tokByte))
      else .err := by
  obtain ⟨n, hn⟩ := ty_len_pos ty
  unfold arrayText
  rw [jsonDe_lbracket ty h0, hn, readElems_succ, nextElem_skip h1, nextElem_true_tok ht0]
  have htail : contB (w2 ++ 0x5d :: w3) = false := contB_tail h2
  have hcr : contB (restText pads toks ++ (w2 ++ 0x5d :: w3)) = false := contB_restText hp toks htail
  rw [parseU8_tok ht0 (noDigitHead_of_contB hcr)]
  by_cases htok0 : TokOK t0
  · rw [if_pos ⟨htok0, hcr⟩]
    simp only
    rcases Nat.lt_or_ge toks.length n with hlt | hge
    · -- too few elements
      rw [readElems_short toks pads n _ hlen hlt hp ht htail
        (by rw [nextElem_skip h2, nextElem_false_rbracket])]
      have : ¬ (toks.length + 1 = n + 1 ∧ ∀ t ∈ t0 :: toks, TokOK t) := by
        rintro ⟨h, -⟩; omega
      rw [if_neg this]; rfl
    · rw [readElems_restText n pads toks _ hlen hge hp ht htail]
      by_cases hall : ∀ t ∈ toks.take n, TokOK t
      · rw [if_pos hall]
        simp only [Option.map_some]
        rcases Nat.eq_or_lt_of_le hge with heq | hgt
        · -- exactly `ty.len` elements
          have htake : toks.take n = toks := by rw [heq]; exact List.take_length
          have hdropt : toks.drop n = [] := by rw [heq]; exact List.drop_length
          rw [htake] at hall
          rw [htake, hdropt, restText_nil_right, List.nil_append, finishArr_some,
            endSeqAndEnd_tail h2 h3, if_pos rfl]
          have : toks.length + 1 = n + 1 ∧ ∀ t ∈ t0 :: toks, TokOK t := by
            refine ⟨by omega, ?_⟩
            intro t htm
            rcases List.mem_cons.1 htm with rfl | htm
            · exact htok0
            · exact hall t htm
          rw [if_pos this]
          rfl
        · -- too many elements
          have hd1 : toks.drop n ≠ [] := by
            intro h
            have := congrArg List.length h
            simp at this; omega
          have hd2 : pads.drop n ≠ [] := by
            intro h
            have := congrArg List.length h
            simp at this; omega
          obtain ⟨t, ts, hts⟩ := List.exists_cons_of_ne_nil hd1
          obtain ⟨p, ps, hps⟩ := List.exists_cons_of_ne_nil hd2
          have hpw : AllWs p.1 := ((padsWs_drop hp n) p (by rw [hps]; simp)).1
          rw [hts, hps, finishArr_some, endSeqAndEnd_more hpw]
          have : ¬ (toks.length + 1 = n + 1 ∧ ∀ t ∈ t0 :: toks, TokOK t) := by
            rintro ⟨h, -⟩; omega
          rw [if_neg this]
          simp
      · rw [if_neg hall]
        have : ¬ (toks.length + 1 = n + 1 ∧ ∀ t ∈ t0 :: toks, TokOK t) := by
          rintro ⟨-, h⟩
          exact hall fun t htm => h t (List.mem_cons_of_mem _ (List.mem_of_mem_take htm))
        rw [if_neg this]; rfl
  · have h1 : ¬ (TokOK t0 ∧ contB (restText pads toks ++ (w2 ++ 0x5d :: w3)) = false) :=
      fun h => htok0 h.1
    have h2' : ¬ (toks.length + 1 = n + 1 ∧ ∀ t ∈ t0 :: toks, TokOK t) := by
      rintro ⟨-, h⟩; exact htok0 (h t0 (by simp))
    rw [if_neg h1, if_neg h2']
    rfl

/-- The empty array is rejected by every type. -/
theorem jsonDe_empty_array (ty : Ty) {w0 w1 : List UInt8} (h0 : AllWs w0) (h1 : AllWs w1)
    (w3 : List UInt8) : jsonDe ty (w0 ++ 0x5b :: (w1 ++ 0x5d :: w3)) = .err := by
  obtain ⟨n, hn⟩ := ty_len_pos ty
  rw [jsonDe_lbracket ty h0, hn, readElems_succ, nextElem_skip h1, nextElem_true_rbracket]
  rfl

/-- The JSON-string form accepted by `deserialize_bytes` (types `vk`, `sk` only): optional whitespace,
`"`, a body that `readRawString` (serde_json's `parse_str_raw`) unescapes to `b` up to the closing quote,
then only whitespace. -/
def IsJsonStringOf (b x : List UInt8) : Prop :=
  ∃ w0 body rest, AllWs w0 ∧ AllWs rest ∧ x = w0 ++ 0x22 :: body ∧
    readRawString body [] = some (some (b, rest))

/-- **Inversion of `jsonDe`**: an accepted input is an array text of exactly `ty.len` accepted `u8`
tokens whose bytes pass the native validity rule — or, for the `deserialize_bytes` types, a JSON
string. -/
theorem jsonDe_ok_inv {ty : Ty} {x v : List UInt8} (h : jsonDe ty x = .ok v) :
    (∃ w0 w1 t0 pads toks w2 w3, AllWs w0 ∧ AllWs w1 ∧ AllWs w2 ∧ AllWs w3 ∧ PadsWs pads ∧
        pads.length = toks.length ∧ toks.length + 1 = ty.len ∧
        (∀ t ∈ t0 :: toks, IsDigits t ∧ TokOK t) ∧
        x = arrayText w0 w1 t0 pads toks w2 w3 ∧ validate ty ((t0 :: toks).map tokByte) = some v) ∨
    (ty.bytesStyle = true ∧ ∃ b, IsJsonStringOf b x ∧ validate ty b = some v) := by
  obtain ⟨n, hn⟩ := ty_len_pos ty
  obtain ⟨w0, h0, hx, -⟩ := skipWs_spec x
  unfold jsonDe at h
  cases hk : skipWs x with
  | nil => rw [hk] at h; simp at h
  | cons c body =>
    rw [hk] at h hx
    by_cases hc : c = 0x5b
    · left
      subst hc
      simp only [beq_self_eq_true, if_true] at h
      cases hre : readElems ty.len true body with
      | none => rw [hre] at h; simp at h
      | some q =>
        obtain ⟨bytes, rest⟩ := q
        rw [hre] at h
        simp only at h
        cases hval : validate ty bytes with
        | none => rw [hval] at h; simp at h
        | some native =>
          rw [hval] at h
          simp only at h
          by_cases hend : endSeqAndEnd rest = true
          · rw [if_pos hend] at h
            cases h
            rw [hn, readElems_succ] at hre
            cases hne : nextElem true body with
            | none => rw [hne] at hre; cases hre
            | some q =>
              obtain ⟨u, r1⟩ := q
              rw [hne] at hre
              simp only [Option.map_eq_some_iff] at hre
              obtain ⟨⟨vs, r'⟩, hre', heq⟩ := hre
              simp only [Prod.mk.injEq] at heq
              obtain ⟨rfl, rfl⟩ := heq
              obtain ⟨w1, t0, h1, hb, htd, htok, hu, -⟩ := nextElem_true_inv hne
              obtain ⟨pads, toks, hl1, hl2, hp, htoks, hs', hbs, -⟩ := readElems_inv n r1 r' vs hre'
              obtain ⟨w2, w3, h2, h3, hr⟩ := endSeqAndEnd_inv hend
              refine ⟨w0, w1, t0, pads, toks, w2, w3, h0, h1, h2, h3, hp, by rw [hl1, hl2],
                by rw [hl2, hn], ?_, ?_, ?_⟩
              · intro t htm
                rcases List.mem_cons.1 htm with rfl | htm
                · exact ⟨htd, htok⟩
                · exact htoks t htm
              · unfold arrayText; rw [hx, hb, hs', hr]
              · rw [List.map_cons, ← hu, ← hbs]; exact hval
          · rw [if_neg hend] at h; cases h
    · right
      have hc' : (c == 0x5b) = false := by simpa using hc
      simp only [hc', Bool.false_eq_true, if_false] at h
      by_cases hq : (c == 0x22 && ty.bytesStyle) = true
      · rw [if_pos hq] at h
        simp only [Bool.and_eq_true, beq_iff_eq] at hq
        obtain ⟨rfl, hbs⟩ := hq
        refine ⟨hbs, ?_⟩
        cases hrs : readRawString body [] with
        | none => rw [hrs] at h; simp at h
        | some o =>
          cases o with
          | none => rw [hrs] at h; simp at h
          | some q =>
            obtain ⟨b, rest⟩ := q
            rw [hrs] at h
            simp only at h
            cases hval : validate ty b with
            | none => rw [hval] at h; simp at h
            | some native =>
              rw [hval] at h
              simp only at h
              by_cases hend : (skipWs rest).isEmpty = true
              · rw [if_pos hend] at h
                cases h
                exact ⟨b, ⟨w0, body, rest, h0, (skipWs_isEmpty_iff rest).1 hend, hx, hrs⟩, hval⟩
              · rw [if_neg hend] at h; cases h
      · rw [if_neg hq] at h; cases h

/-- **Evaluation of `jsonDe` on JSON strings** (the `deserialize_bytes` types). -/
theorem jsonDe_string {ty : Ty} (hty : ty.bytesStyle = true) {b x : List UInt8}
    (h : IsJsonStringOf b x) : jsonDe ty x = ofOption (validate ty b) := by
  obtain ⟨w0, body, rest, h0, hr, rfl, hrs⟩ := h
  unfold jsonDe
  rw [skipWs_append_of_allWs h0, skipWs_cons_of_not_ws isWs_quote]
  have : ((0x22 : UInt8) == 0x5b) = false := by decide
  simp only [this, Bool.false_eq_true, if_false, beq_self_eq_true, hty, Bool.and_self, if_true, hrs]
  cases validate ty b with
  | none => rfl
  | some native => simp [ofOption, (skipWs_isEmpty_iff rest).2 hr]

end Dalek.Proofs.Serde

import Dalek.Proofs.Scalar29.Basic
import Dalek.Proofs.Scalar29.Mul
import Dalek.Proofs.Scalar29.Montgomery
import Dalek.Proofs.Scalar29.Compose
import Dalek.Proofs.Scalar29.Bytes
import Dalek.Proofs.Scalar29.Glue

import Dalek.Proofs.ScalarApi29Gen
/-!
# `Scalar` API glue over an abstract backend, part 2: `montgomery_invert`, `invert`, `batch_invert`

The addition chain is backend independent: `invertChain`, its abstract interpretation `invertChain_rel` and the
exponent computation `invertChain_exponent` (`= l - 2`) are REUSED from the 64-bit development
(`Dalek/Proofs/ScalarApiInvert.lean`); only the two operations it is run on come from the backend `K`.

For `batch_invert` the second pass is first described as a function `pass2F` on FIELD elements that makes no
non-zero assumption (`pass2_val`); with all inputs non-zero it yields the inverses (`pass2F_inv`), and for arbitrary
canonical inputs it shows that any two backends return the same bytes (`batchInvert_agree`).
-/
set_option exponentiation.threshold 600

namespace Dalek.Proofs.ScalarApiGen
open Dalek.IR Dalek.Model.Contracts Dalek.Gen.Consts
open Dalek.Model (ScalarKernels)
open Dalek.Model.FieldBytes (leVal natToLeN)
open Dalek.Props.C02.Scalar52 (l)
open Dalek.Proofs.ScalarApi (F Canonical IsSc ZERO_isSc ONE_isSc invertChain_rel invertChain_exponent
  pow_l_sub_two)

variable {K : ScalarKernels}

/-! ## the chain -/

/-- `montgomery_invert` on a Montgomery representative of `u`: a Montgomery representative of `u^(l-2) = u⁻¹` -/
theorem montgomeryInvert_isLm {ok : KernelsOk K} {a : List Nat} {u : F} (ha : IsLm ok a (u * Rm ok)) :
    IsLm ok (K.montgomeryInvert a) (u⁻¹ * Rm ok) := by
  have key := invertChain_rel (fun (a : List Nat) (e : Nat) => IsLm ok a (u ^ e * Rm ok))
    (sq := K.montgomerySquare) (mm := K.montgomeryMul) (sq' := fun e => 2 * e) (mm' := fun a b => a + b)
    (by
      intro a e h
      have := h.montgomerySquare
      have e2 : u ^ e * Rm ok * (u ^ e * Rm ok) * (Rm ok)⁻¹ = u ^ (2 * e) * Rm ok := by
        have := Rm_ne_zero ok
        rw [two_mul, pow_add]; field_simp
      rwa [e2] at this)
    (by
      intro a e c f h1 h2
      have := h1.montgomeryMul h2
      have e2 : u ^ e * Rm ok * (u ^ f * Rm ok) * (Rm ok)⁻¹ = u ^ (e + f) * Rm ok := by
        have := Rm_ne_zero ok
        rw [pow_add]; field_simp
      rwa [e2] at this)
    a 1 (by simpa using ha)
  rw [invertChain_exponent, pow_l_sub_two] at key
  exact key

/-- `Scalar::invert` is the field inverse (total: `invert 0 = 0`) -/
theorem invert_isSc (ok : KernelsOk K) {b : List Nat} {u : F} (hb : IsSc b u) : IsSc (K.invert b) u⁻¹ := by
  have h := (montgomeryInvert_isLm (toLimbs ok hb).asMontgomery).fromMontgomery
  rw [mul_Rm_cancel] at h
  exact h.toBytes

/-! ## `batch_invert` -/

/-- post-condition of the first pass on the list of `(input, scratch)` pairs: with `q` the product of the inputs
before the current position, `input` holds the Montgomery form of `x` and `scratch` the Montgomery form of `q` -/
def Pass1Post (ok : KernelsOk K) : List (List Nat × List Nat) → List F → F → Prop
  | [], [], _ => True
  | (i, s) :: ps, x :: xs, q => IsSc i (x * Rm ok) ∧ IsLm ok s (q * Rm ok) ∧ Pass1Post ok ps xs (q * x)
  | _, _, _ => False

theorem pass1_spec (ok : KernelsOk K) : ∀ {ps : List (List Nat × List Nat)} {xs : List F} (acc : List Nat) (q : F),
    List.Forall₂ (fun p x => IsSc p.1 x) ps xs → IsLm ok acc (q * Rm ok) →
    Pass1Post ok (K.batchPass1 ps acc).1 xs q ∧ IsLm ok (K.batchPass1 ps acc).2 (q * xs.prod * Rm ok)
  | _, _, acc, q, .nil, ha => by
      simp only [ScalarKernels.batchPass1, Pass1Post, List.prod_nil, mul_one, true_and]; exact ha
  | (i, s) :: ps, x :: xs, acc, q, .cons hi hps, ha => by
      have htmp := (toLimbs ok hi).asMontgomery
      have hacc : IsLm ok (K.montgomeryMul acc (K.asMontgomery (K.unpack i))) (q * x * Rm ok) := by
        have := ha.montgomeryMul htmp
        have e : q * Rm ok * (x * Rm ok) * (Rm ok)⁻¹ = q * x * Rm ok := by
          have := Rm_ne_zero ok
          field_simp
        rwa [e] at this
      obtain ⟨h1, h2⟩ := pass1_spec ok (K.montgomeryMul acc (K.asMontgomery (K.unpack i))) (q * x) hps hacc
      simp only [ScalarKernels.batchPass1, Pass1Post, List.prod_cons]
      refine ⟨⟨htmp.toBytes, ha, h1⟩, ?_⟩
      rw [← mul_assoc]
      exact h2

/-- the second pass on field elements: `q` is the product of the inputs before the current position, `A` the value
of `acc` entering the loop (at the END of the list); returns the outputs and the final `acc` -/
def pass2F : List F → F → F → List F × F
  | [], _, A => ([], A)
  | x :: xs, q, A => ((pass2F xs (q * x) A).2 * q :: (pass2F xs (q * x) A).1, (pass2F xs (q * x) A).2 * x)

/-- the second pass computes `pass2F` — for ALL inputs (no non-zero hypothesis) -/
theorem pass2_val (ok : KernelsOk K) : ∀ {ps : List (List Nat × List Nat)} {xs : List F} (acc : List Nat) (q A : F),
    Pass1Post ok ps xs q → IsLm ok acc A →
    List.Forall₂ IsSc (K.batchPass2 ps acc).1 (pass2F xs q A).1 ∧ IsLm ok (K.batchPass2 ps acc).2 (pass2F xs q A).2
  | [], [], acc, q, A, _, ha => by
      simp only [ScalarKernels.batchPass2, pass2F]
      exact ⟨.nil, ha⟩
  | [], _ :: _, _, _, _, h, _ => by simp [Pass1Post] at h
  | _ :: _, [], _, _, _, h, _ => by simp [Pass1Post] at h
  | (i, s) :: ps, x :: xs, acc, q, A, h, ha => by
      simp only [Pass1Post] at h
      obtain ⟨hi, hs, hps⟩ := h
      obtain ⟨h1, h2⟩ := pass2_val ok acc (q * x) A hps ha
      simp only [ScalarKernels.batchPass2, pass2F]
      refine ⟨.cons ?_ h1, ?_⟩
      · have := (h2.montgomeryMul hs).toBytes
        rwa [← mul_assoc, mul_Rm_cancel] at this
      · have := h2.montgomeryMul (toLimbs ok hi)
        rwa [← mul_assoc, mul_Rm_cancel] at this

/-- with all inputs (and the prefix product) non-zero and `A = (q·∏xs)⁻¹`, `pass2F` yields the inverses -/
theorem pass2F_inv : ∀ (xs : List F) (q : F), q ≠ 0 → (∀ x ∈ xs, x ≠ 0) →
    pass2F xs q (q * xs.prod)⁻¹ = (xs.map (fun x => x⁻¹), q⁻¹)
  | [], q, _, _ => by simp [pass2F]
  | x :: xs, q, hq, hx => by
      have hx0 : x ≠ 0 := hx x (by simp)
      have ih := pass2F_inv xs (q * x) (mul_ne_zero hq hx0) (fun y hy => hx y (by simp [hy]))
      have e : (q * (x :: xs).prod)⁻¹ = (q * x * xs.prod)⁻¹ := by rw [List.prod_cons, ← mul_assoc]
      rw [e]
      simp only [pass2F, ih, List.map_cons]
      refine Prod.ext ?_ ?_
      · refine List.cons_eq_cons.2 ⟨?_, rfl⟩
        field_simp
      · show (q * x)⁻¹ * x = q⁻¹
        field_simp

theorem forall2_zip_replicate {c : List Nat} : ∀ {bs : List (List Nat)} {xs : List F},
    List.Forall₂ IsSc bs xs →
    List.Forall₂ (fun (p : List Nat × List Nat) x => IsSc p.1 x) (bs.zip (List.replicate bs.length c)) xs
  | _, _, .nil => .nil
  | _, _, .cons h hs => by
      simp only [List.length_cons, List.replicate_succ, List.zip_cons_cons]
      exact .cons h (forall2_zip_replicate hs)

/-- the Montgomery form of one, the initial `acc` -/
theorem one_mont_isLm (ok : KernelsOk K) : IsLm ok (K.asMontgomery (K.unpack ScalarRs.ONE)) (1 * Rm ok) :=
  (toLimbs ok ONE_isSc).asMontgomery

/-- the value tested by `debug_assert!(acc.pack() != Scalar::ZERO)` represents the Montgomery form of the product -/
theorem batchInvert_acc (ok : KernelsOk K) {bs : List (List Nat)} {xs : List F} (h : List.Forall₂ IsSc bs xs) :
    IsSc (K.batchInvertAccPacked bs) (xs.prod * Rm ok) := by
  have := (pass1_spec ok _ 1 (forall2_zip_replicate (c := K.asMontgomery (K.unpack ScalarRs.ONE)) h)
    (one_mont_isLm ok)).2.toBytes
  rw [one_mul] at this
  exact this

/-- `batch_invert` for ALL canonical inputs (zero included): the outputs are the field function `pass2F` of the
inputs, the returned scalar the (total) inverse of their product -/
theorem batchInvert_val (ok : KernelsOk K) {bs : List (List Nat)} {xs : List F} (h : List.Forall₂ IsSc bs xs) :
    List.Forall₂ IsSc (K.batchInvert bs).1 (pass2F xs 1 (1 * xs.prod)⁻¹).1 ∧ IsSc (K.batchInvert bs).2 xs.prod⁻¹ := by
  obtain ⟨h1, h2⟩ := pass1_spec ok _ 1 (forall2_zip_replicate (c := K.asMontgomery (K.unpack ScalarRs.ONE)) h)
    (one_mont_isLm ok)
  have hacc := (montgomeryInvert_isLm h2).fromMontgomery
  rw [mul_Rm_cancel] at hacc
  refine ⟨(pass2_val ok _ 1 _ h1 hacc).1, ?_⟩
  have := hacc.toBytes
  rw [one_mul] at this
  exact this

/-- `batch_invert`: every input is replaced by its inverse; the inverse of the product is returned -/
theorem batchInvert_isSc (ok : KernelsOk K) {bs : List (List Nat)} {xs : List F} (h : List.Forall₂ IsSc bs xs)
    (hx : ∀ x ∈ xs, x ≠ 0) :
    List.Forall₂ (fun o x => IsSc o x⁻¹) (K.batchInvert bs).1 xs ∧ IsSc (K.batchInvert bs).2 xs.prod⁻¹ := by
  obtain ⟨h1, h2⟩ := batchInvert_val ok h
  refine ⟨?_, h2⟩
  rw [pass2F_inv xs 1 one_ne_zero hx] at h1
  exact List.forall₂_map_right_iff.1 h1

/-- `batch_invert` returns canonical scalars for ALL canonical inputs (zero included) -/
theorem batchInvert_canonical (ok : KernelsOk K) {bs : List (List Nat)} {xs : List F} (h : List.Forall₂ IsSc bs xs) :
    (∀ o ∈ (K.batchInvert bs).1, Canonical o) ∧ Canonical (K.batchInvert bs).2 := by
  obtain ⟨h1, h2⟩ := batchInvert_val ok h
  refine ⟨?_, h2.canonical⟩
  generalize (K.batchInvert bs).1 = os at h1
  generalize (pass2F xs 1 (1 * xs.prod)⁻¹).1 = ys at h1
  intro o ho
  induction h1 with
  | nil => simp at ho
  | cons hh _ ih =>
    rcases List.mem_cons.1 ho with rfl | ho
    · exact hh.canonical
    · exact ih ho

/-! ## two backends agree -/

/-- lists of canonical scalars representing the same field elements are equal -/
theorem forall2_isSc_unique : ∀ {os os' : List (List Nat)} {xs : List F},
    List.Forall₂ IsSc os xs → List.Forall₂ IsSc os' xs → os = os'
  | _, _, _, .nil, .nil => rfl
  | _, _, _, .cons h hs, .cons h' hs' => by
      rw [h.unique h', forall2_isSc_unique hs hs']

/-- any two backends satisfying the kernel theorems return the same bytes from `batch_invert`, for ALL lists of
canonical inputs (zero included) -/
theorem batchInvert_agree {K K' : ScalarKernels} (ok : KernelsOk K) (ok' : KernelsOk K') {bs : List (List Nat)}
    {xs : List F} (h : List.Forall₂ IsSc bs xs) : K.batchInvert bs = K'.batchInvert bs := by
  obtain ⟨h1, h2⟩ := batchInvert_val ok h
  obtain ⟨h1', h2'⟩ := batchInvert_val ok' h
  exact Prod.ext (forall2_isSc_unique h1 h1') (h2.unique h2')

end Dalek.Proofs.ScalarApiGen

/-
Helper lemmas for C17 part B (scalar-field half): the hand model `Dalek/Model/Group.lean` of the
`ff::Field` / `ff::PrimeField` implementation for `Scalar`:
`sqrt` (`ff::helpers::sqrt_tonelli_shanks`), `invert`, `sqrtRatio`, `fromRepr`.

The Tonelli–Shanks loop for `S = 2` is unrolled (`sqrt_eq`): the outer loop visits `max_v = 2, 1` and the
inner loop `for j in 2..max_v` is empty both times.  The candidate root `cand f` is then analysed in the
field `Fl = ZMod ℓ` (`candF`, `candF_sq`, `candF_sq_iff`).
-/
import Dalek.Model.Group
import Dalek.Proofs.SpecBridge

namespace Dalek.Proofs.Group

open Dalek.Spec Dalek.Bridge
open Dalek.Model.Group (TM1D2 ROOT_OF_UNITY outerStep innerStep Outer Inner)

/-! ## The loop structure -/

/-- `(1..=S).rev()` is `[2, 1]`. -/
theorem outer_range : ((List.range (Model.Group.S + 1)).drop 1).reverse = [2, 1] := by decide

/-- `2..2` is empty. -/
theorem inner_range_two : (List.range 2).drop 2 = [] := by decide

/-- `2..1` is empty. -/
theorem inner_range_one : (List.range 1).drop 2 = [] := by decide

/-- The candidate root computed by the two unrolled outer iterations (input already reduced). -/
def cand (f : Nat) : Nat :=
  let w := spow f TM1D2
  let x0 := Spec.smul w f
  let b0 := Spec.smul x0 w
  let z0 := ROOT_OF_UNITY
  let x1 := if b0 == 1 then x0 else Spec.smul x0 z0
  let z1 := Spec.smul z0 z0
  let b1 := Spec.smul b0 z1
  if b1 == 1 then x1 else Spec.smul x1 z1

/-- **Unrolling**: `sqrt x` is the final check applied to `cand (x mod ℓ)`. -/
theorem sqrt_eq (x : Nat) :
    Model.Group.sqrt x =
      if Spec.smul (cand (x % L)) (cand (x % L)) == x % L then some (cand (x % L)) else none := by
  unfold Model.Group.sqrt
  simp only [outer_range, List.foldl_cons, List.foldl_nil, outerStep, inner_range_two,
    inner_range_one]
  rfl

theorem cand_lt (f : Nat) : cand f < L := by
  unfold cand
  dsimp only
  split <;> [split; skip]
  · exact smul_lt _ _
  · exact smul_lt _ _
  · exact smul_lt _ _

/-! ## Field facts -/

theorem beq_one_iff {a : Nat} (ha : a < L) : (a == 1) = true ↔ (a : Fl) = 1 := by
  rw [beq_iff_eq, ← castL_inj_of_lt ha (by norm_num : 1 < L), Nat.cast_one]

theorem cast_ite_beq_one {a : Nat} (ha : a < L) (u v : Nat) :
    (((if (a == 1) = true then u else v) : Nat) : Fl) = if (a : Fl) = 1 then (u : Fl) else (v : Fl) := by
  have h := beq_one_iff ha
  by_cases h1 : (a : Fl) = 1
  · rw [if_pos h1, if_pos (h.2 h1)]
  · rw [if_neg h1, if_neg (fun h' => h1 (h.1 h'))]

theorem cast_ite_smul_beq_one (a b u v : Nat) :
    (((if (Spec.smul a b == 1) = true then u else v) : Nat) : Fl) =
      if (Spec.smul a b : Fl) = 1 then (u : Fl) else (v : Fl) :=
  cast_ite_beq_one (smul_lt a b) u v

/-- `ROOT_OF_UNITY² = ℓ - 1` (kernel evaluation on the model literal). -/
theorem root_sq_nat : Spec.smul ROOT_OF_UNITY ROOT_OF_UNITY + 1 = L := by decide +kernel

/-- `ROOT_OF_UNITY² = -1` in `ℤ/ℓ`. -/
theorem root_sq : (ROOT_OF_UNITY : Fl) * (ROOT_OF_UNITY : Fl) = -1 := by
  have h : ((Spec.smul ROOT_OF_UNITY ROOT_OF_UNITY + 1 : Nat) : Fl) = ((L : Nat) : Fl) := by
    rw [root_sq_nat]
  rw [Nat.cast_add, cast_smul, cast_L, Nat.cast_one] at h
  exact eq_neg_of_add_eq_zero_left h

theorem neg_one_ne_one : (-1 : Fl) ≠ 1 := by
  intro h
  have h2 : ((2 : Nat) : Fl) = 0 := by
    have : (1 : Fl) + 1 = 0 := by nth_rewrite 1 [← h]; exact neg_add_cancel 1
    rw [← this]; norm_num
  rw [castL_eq_zero_iff] at h2
  revert h2; decide

/-- `4·TM1D2 + 2 = (ℓ-1)/2`, i.e. `t = 2·TM1D2 + 1` is the odd part of `ℓ - 1 = 4t`. -/
theorem tm1d2_eq : 4 * TM1D2 + 2 = L / 2 := by decide +kernel

theorem tm1d2_eq' : 8 * TM1D2 + 4 = L - 1 := by decide +kernel

/-- The candidate root as a function on `ℤ/ℓ`. -/
def candF (f : Fl) : Fl :=
  let w := f ^ TM1D2
  let x0 := w * f
  let b0 := x0 * w
  let z0 : Fl := (ROOT_OF_UNITY : Fl)
  let x1 := if b0 = 1 then x0 else x0 * z0
  let z1 := z0 * z0
  let b1 := b0 * z1
  if b1 = 1 then x1 else x1 * z1

theorem cast_cand (f : Nat) : ((cand f : Nat) : Fl) = candF (f : Fl) := by
  unfold cand candF
  dsimp only
  simp only [cast_ite_smul_beq_one, cast_smul, cast_spow]

/-- `b0 = f^t` squares to `1` when `f` is a nonzero square (Euler / Fermat). -/
theorem b0_sq_of_isSquare {f : Fl} (hf : f ≠ 0) (hs : IsSquare f) :
    (f ^ TM1D2 * f * f ^ TM1D2) ^ 2 = 1 := by
  obtain ⟨y, rfl⟩ := hs
  have hy : y ≠ 0 := fun h => hf (by rw [h, mul_zero])
  have e : ((y * y) ^ TM1D2 * (y * y) * (y * y) ^ TM1D2) ^ 2 = y ^ (8 * TM1D2 + 4) := by ring
  rw [e, tm1d2_eq']
  exact ZMod.pow_card_sub_one_eq_one hy

/-- **Core of Tonelli–Shanks for `S = 2`**: if `b0 = f^t ∈ {1, -1}` or `f = 0`, the candidate squares to
`f`. -/
theorem candF_sq_of (f : Fl) (h : (f ^ TM1D2 * f * f ^ TM1D2) ^ 2 = 1 ∨ f = 0) :
    candF f * candF f = f := by
  unfold candF
  dsimp only
  rw [root_sq]
  rcases h with h | rfl
  · have hb : f ^ TM1D2 * f * f ^ TM1D2 = 1 ∨ f ^ TM1D2 * f * f ^ TM1D2 = -1 := by
      rw [sq] at h; exact mul_self_eq_one_iff.1 h
    rcases hb with hb | hb
    · -- b0 = 1: x1 = x0, b1 = -1 ≠ 1, x2 = -x0
      rw [hb, if_pos rfl, one_mul, if_neg neg_one_ne_one]
      linear_combination (f) * hb
    · -- b0 = -1: x1 = x0·z0, b1 = 1, x2 = x1
      rw [hb, if_neg neg_one_ne_one, neg_mul_neg, one_mul, if_pos rfl]
      linear_combination (-f) * hb + (f ^ TM1D2 * f) ^ 2 * root_sq
  · have hT : TM1D2 ≠ 0 := by decide +kernel
    simp [zero_pow hT]

theorem candF_sq_of_isSquare {f : Fl} (hs : IsSquare f) : candF f * candF f = f := by
  by_cases hf : f = 0
  · exact candF_sq_of f (Or.inr hf)
  · exact candF_sq_of f (Or.inl (b0_sq_of_isSquare hf hs))

/-- The final check of `sqrt` succeeds iff the input is a square in `ℤ/ℓ`. -/
theorem candF_sq_iff (f : Fl) : candF f * candF f = f ↔ IsSquare f :=
  ⟨fun h => ⟨candF f, h.symm⟩, candF_sq_of_isSquare⟩

/-- The final check, in `Nat`. -/
theorem check_iff (x : Nat) :
    (Spec.smul (cand (x % L)) (cand (x % L)) == x % L) = true ↔ IsSquare ((x : Nat) : Fl) := by
  rw [beq_iff_eq, ← castL_inj_of_lt (smul_lt _ _) (Nat.mod_lt _ L_pos), cast_smul, cast_cand,
    cast_mod_L]
  exact candF_sq_iff _

/-! ## `sqrt` -/

theorem sqrt_some {x r : Nat} (h : Model.Group.sqrt x = some r) :
    r < L ∧ r * r % L = x % L ∧ r = cand (x % L) := by
  rw [sqrt_eq] at h
  split at h
  · rename_i hc
    have hr : cand (x % L) = r := Option.some.inj h
    rw [beq_iff_eq] at hc
    rw [← hr]
    exact ⟨cand_lt _, hc, rfl⟩
  · cases h

theorem sqrt_isSome_iff (x : Nat) : (Model.Group.sqrt x).isSome = true ↔ IsSquare ((x : Nat) : Fl) := by
  rw [sqrt_eq, ← check_iff]
  split <;> simp_all

theorem sqrt_none_iff (x : Nat) : Model.Group.sqrt x = none ↔ ¬ IsSquare ((x : Nat) : Fl) := by
  rw [← sqrt_isSome_iff, Option.isSome_iff_ne_none, not_not]

/-- The root returned is determined: `sqrt` depends on `x mod ℓ` only. -/
theorem sqrt_mod (x : Nat) : Model.Group.sqrt (x % L) = Model.Group.sqrt x := by
  rw [sqrt_eq, sqrt_eq, Nat.mod_mod]

/-! ## `invert` -/

theorem invert_none_iff (a : Nat) : Model.Group.invert a = none ↔ a % L = 0 := by
  unfold Model.Group.invert
  by_cases h : a % L = 0
  · simp [h]
  · simp [h]

theorem invert_some {a r : Nat} (h : Model.Group.invert a = some r) :
    a % L ≠ 0 ∧ r = sinv a ∧ r < L ∧ a * r % L = 1 := by
  unfold Model.Group.invert at h
  by_cases h0 : a % L = 0
  · simp [h0] at h
  · have hb : ¬ ((a % L == 0) = true) := by rw [beq_iff_eq]; exact h0
    rw [if_neg hb] at h
    have hr : sinv a = r := Option.some.inj h
    subst hr
    exact ⟨h0, rfl, sinv_lt a, smul_sinv h0⟩

theorem invert_of_ne {a : Nat} (h : a % L ≠ 0) : Model.Group.invert a = some (sinv a) := by
  unfold Model.Group.invert
  have hb : ¬ ((a % L == 0) = true) := by rw [beq_iff_eq]; exact h
  rw [if_neg hb]

/-! ## `fromRepr` -/

theorem fromRepr_eq_some_iff (b : List UInt8) (n : Nat) :
    Model.Group.fromRepr b = some n ↔ (b.length = 32 ∧ leToNat b < L ∧ n = leToNat b) := by
  unfold Model.Group.fromRepr
  by_cases h : isCanonicalScalar b = true
  · rw [if_pos h]
    have := (isCanonicalScalar_iff b).1 h
    constructor
    · intro e; exact ⟨this.1, this.2, (Option.some.inj e).symm⟩
    · rintro ⟨-, -, rfl⟩; rfl
  · rw [if_neg h]
    constructor
    · intro e; cases e
    · rintro ⟨h1, h2, -⟩; exact absurd ((isCanonicalScalar_iff b).2 ⟨h1, h2⟩) h

theorem fromRepr_isSome (b : List UInt8) :
    (Model.Group.fromRepr b).isSome = isCanonicalScalar b := by
  unfold Model.Group.fromRepr
  cases isCanonicalScalar b <;> rfl

theorem fromRepr_scToBytes (n : Nat) : Model.Group.fromRepr (scToBytes n) = some (n % L) := by
  unfold Model.Group.fromRepr
  rw [if_pos (isCanonicalScalar_scToBytes n), leToNat_scToBytes]

end Dalek.Proofs.Group

import Dalek.Proofs.Avx2Field.Defs
import Dalek.Gen.Norm.Avx2Field
/-! `new`, `split`, `negate_lazy`, `diff_sum`, `reduce`, `neg`, `add` of the AVX2 backend, for ALL integer lane values. -/
set_option maxRecDepth 100000
set_option maxHeartbeats 4000000
set_option linter.unusedSimpArgs false
namespace Dalek.Proofs.Avx2Field
open Dalek Dalek.Gen.Norm.Avx2Field Dalek.Proofs.Field26

/-- `new(a, b, c, d)` packs (and weakly reduces) four `FieldElement51` with limbs `< 2^54`: lane `k` holds the `k`-th argument -/
theorem new_correct (k : Lane) (a0 a1 a2 a3 a4 b0 b1 b2 b3 b4 c0 c1 c2 c3 c4 d0 d1 d2 d3 d4 : Int)
    (hb : Bounded (a0 :: a1 :: a2 :: a3 :: a4 :: b0 :: b1 :: b2 :: b3 :: b4 :: c0 :: c1 :: c2 :: c3 :: c4 :: d0 :: d1 :: d2 :: d3 :: d4 :: []) (List.replicate 20 18014398509481983)) :
    laneVal k (new_fn a0 a1 a2 a3 a4 b0 b1 b2 b3 b4 c0 c1 c2 c3 c4 d0 d1 d2 d3 d4) = val51 k (a0 :: a1 :: a2 :: a3 :: a4 :: b0 :: b1 :: b2 :: b3 :: b4 :: c0 :: c1 :: c2 :: c3 :: c4 :: d0 :: d1 :: d2 :: d3 :: d4 :: []) := by
  simp only [Bounded, List.replicate, List.cons_append, List.nil_append, Nat.cast_ofNat] at hb
  avx_lets_int new_fn
  cases k <;> avx_finish_bounded

/-- `split` is the inverse: the `k`-th `FieldElement51` of the result has the value of lane `k` -/
theorem split_correct (k : Lane) (x0 x1 x2 x3 x4 x5 x6 x7 x8 x9 x10 x11 x12 x13 x14 x15 x16 x17 x18 x19 x20 x21 x22 x23 x24 x25 x26 x27 x28 x29 x30 x31 x32 x33 x34 x35 x36 x37 x38 x39 : Int) :
    val51 k (split_fn x0 x1 x2 x3 x4 x5 x6 x7 x8 x9 x10 x11 x12 x13 x14 x15 x16 x17 x18 x19 x20 x21 x22 x23 x24 x25 x26 x27 x28 x29 x30 x31 x32 x33 x34 x35 x36 x37 x38 x39) = laneVal k (x0 :: x1 :: x2 :: x3 :: x4 :: x5 :: x6 :: x7 :: x8 :: x9 :: x10 :: x11 :: x12 :: x13 :: x14 :: x15 :: x16 :: x17 :: x18 :: x19 :: x20 :: x21 :: x22 :: x23 :: x24 :: x25 :: x26 :: x27 :: x28 :: x29 :: x30 :: x31 :: x32 :: x33 :: x34 :: x35 :: x36 :: x37 :: x38 :: x39 :: []) := by
  avx_lets split_fn
  cases k <;> avx_finish

/-- `negate_lazy`: `2p − x` lane-wise -/
theorem negate_lazy_correct (k : Lane) (x0 x1 x2 x3 x4 x5 x6 x7 x8 x9 x10 x11 x12 x13 x14 x15 x16 x17 x18 x19 x20 x21 x22 x23 x24 x25 x26 x27 x28 x29 x30 x31 x32 x33 x34 x35 x36 x37 x38 x39 : Int) :
    laneVal k (negate_lazy_fn x0 x1 x2 x3 x4 x5 x6 x7 x8 x9 x10 x11 x12 x13 x14 x15 x16 x17 x18 x19 x20 x21 x22 x23 x24 x25 x26 x27 x28 x29 x30 x31 x32 x33 x34 x35 x36 x37 x38 x39) = - laneVal k (x0 :: x1 :: x2 :: x3 :: x4 :: x5 :: x6 :: x7 :: x8 :: x9 :: x10 :: x11 :: x12 :: x13 :: x14 :: x15 :: x16 :: x17 :: x18 :: x19 :: x20 :: x21 :: x22 :: x23 :: x24 :: x25 :: x26 :: x27 :: x28 :: x29 :: x30 :: x31 :: x32 :: x33 :: x34 :: x35 :: x36 :: x37 :: x38 :: x39 :: []) := by
  avx_lets negate_lazy_fn
  cases k <;> avx_finish

/-- `diff_sum`: `(A,B,C,D) ↦ (B − A, B + A, D − C, D + C)` -/
theorem diff_sum_correct (k : Lane) (x0 x1 x2 x3 x4 x5 x6 x7 x8 x9 x10 x11 x12 x13 x14 x15 x16 x17 x18 x19 x20 x21 x22 x23 x24 x25 x26 x27 x28 x29 x30 x31 x32 x33 x34 x35 x36 x37 x38 x39 : Int) :
    laneVal k (diff_sum_fn x0 x1 x2 x3 x4 x5 x6 x7 x8 x9 x10 x11 x12 x13 x14 x15 x16 x17 x18 x19 x20 x21 x22 x23 x24 x25 x26 x27 x28 x29 x30 x31 x32 x33 x34 x35 x36 x37 x38 x39) = k.sel (laneVal .B (x0 :: x1 :: x2 :: x3 :: x4 :: x5 :: x6 :: x7 :: x8 :: x9 :: x10 :: x11 :: x12 :: x13 :: x14 :: x15 :: x16 :: x17 :: x18 :: x19 :: x20 :: x21 :: x22 :: x23 :: x24 :: x25 :: x26 :: x27 :: x28 :: x29 :: x30 :: x31 :: x32 :: x33 :: x34 :: x35 :: x36 :: x37 :: x38 :: x39 :: []) - laneVal .A (x0 :: x1 :: x2 :: x3 :: x4 :: x5 :: x6 :: x7 :: x8 :: x9 :: x10 :: x11 :: x12 :: x13 :: x14 :: x15 :: x16 :: x17 :: x18 :: x19 :: x20 :: x21 :: x22 :: x23 :: x24 :: x25 :: x26 :: x27 :: x28 :: x29 :: x30 :: x31 :: x32 :: x33 :: x34 :: x35 :: x36 :: x37 :: x38 :: x39 :: [])) (laneVal .B (x0 :: x1 :: x2 :: x3 :: x4 :: x5 :: x6 :: x7 :: x8 :: x9 :: x10 :: x11 :: x12 :: x13 :: x14 :: x15 :: x16 :: x17 :: x18 :: x19 :: x20 :: x21 :: x22 :: x23 :: x24 :: x25 :: x26 :: x27 :: x28 :: x29 :: x30 :: x31 :: x32 :: x33 :: x34 :: x35 :: x36 :: x37 :: x38 :: x39 :: []) + laneVal .A (x0 :: x1 :: x2 :: x3 :: x4 :: x5 :: x6 :: x7 :: x8 :: x9 :: x10 :: x11 :: x12 :: x13 :: x14 :: x15 :: x16 :: x17 :: x18 :: x19 :: x20 :: x21 :: x22 :: x23 :: x24 :: x25 :: x26 :: x27 :: x28 :: x29 :: x30 :: x31 :: x32 :: x33 :: x34 :: x35 :: x36 :: x37 :: x38 :: x39 :: [])) (laneVal .D (x0 :: x1 :: x2 :: x3 :: x4 :: x5 :: x6 :: x7 :: x8 :: x9 :: x10 :: x11 :: x12 :: x13 :: x14 :: x15 :: x16 :: x17 :: x18 :: x19 :: x20 :: x21 :: x22 :: x23 :: x24 :: x25 :: x26 :: x27 :: x28 :: x29 :: x30 :: x31 :: x32 :: x33 :: x34 :: x35 :: x36 :: x37 :: x38 :: x39 :: []) - laneVal .C (x0 :: x1 :: x2 :: x3 :: x4 :: x5 :: x6 :: x7 :: x8 :: x9 :: x10 :: x11 :: x12 :: x13 :: x14 :: x15 :: x16 :: x17 :: x18 :: x19 :: x20 :: x21 :: x22 :: x23 :: x24 :: x25 :: x26 :: x27 :: x28 :: x29 :: x30 :: x31 :: x32 :: x33 :: x34 :: x35 :: x36 :: x37 :: x38 :: x39 :: [])) (laneVal .D (x0 :: x1 :: x2 :: x3 :: x4 :: x5 :: x6 :: x7 :: x8 :: x9 :: x10 :: x11 :: x12 :: x13 :: x14 :: x15 :: x16 :: x17 :: x18 :: x19 :: x20 :: x21 :: x22 :: x23 :: x24 :: x25 :: x26 :: x27 :: x28 :: x29 :: x30 :: x31 :: x32 :: x33 :: x34 :: x35 :: x36 :: x37 :: x38 :: x39 :: []) + laneVal .C (x0 :: x1 :: x2 :: x3 :: x4 :: x5 :: x6 :: x7 :: x8 :: x9 :: x10 :: x11 :: x12 :: x13 :: x14 :: x15 :: x16 :: x17 :: x18 :: x19 :: x20 :: x21 :: x22 :: x23 :: x24 :: x25 :: x26 :: x27 :: x28 :: x29 :: x30 :: x31 :: x32 :: x33 :: x34 :: x35 :: x36 :: x37 :: x38 :: x39 :: [])) := by
  avx_lets diff_sum_fn
  cases k <;> avx_finish

/-- `reduce` (the 32-bit carry chain) preserves the four values, for any forty u32 lanes -/
theorem reduce_correct (k : Lane) (x0 x1 x2 x3 x4 x5 x6 x7 x8 x9 x10 x11 x12 x13 x14 x15 x16 x17 x18 x19 x20 x21 x22 x23 x24 x25 x26 x27 x28 x29 x30 x31 x32 x33 x34 x35 x36 x37 x38 x39 : Int)
    (hb : Bounded (x0 :: x1 :: x2 :: x3 :: x4 :: x5 :: x6 :: x7 :: x8 :: x9 :: x10 :: x11 :: x12 :: x13 :: x14 :: x15 :: x16 :: x17 :: x18 :: x19 :: x20 :: x21 :: x22 :: x23 :: x24 :: x25 :: x26 :: x27 :: x28 :: x29 :: x30 :: x31 :: x32 :: x33 :: x34 :: x35 :: x36 :: x37 :: x38 :: x39 :: []) (List.replicate 40 4294967295)) :
    laneVal k (reduce_fn x0 x1 x2 x3 x4 x5 x6 x7 x8 x9 x10 x11 x12 x13 x14 x15 x16 x17 x18 x19 x20 x21 x22 x23 x24 x25 x26 x27 x28 x29 x30 x31 x32 x33 x34 x35 x36 x37 x38 x39) = laneVal k (x0 :: x1 :: x2 :: x3 :: x4 :: x5 :: x6 :: x7 :: x8 :: x9 :: x10 :: x11 :: x12 :: x13 :: x14 :: x15 :: x16 :: x17 :: x18 :: x19 :: x20 :: x21 :: x22 :: x23 :: x24 :: x25 :: x26 :: x27 :: x28 :: x29 :: x30 :: x31 :: x32 :: x33 :: x34 :: x35 :: x36 :: x37 :: x38 :: x39 :: []) := by
  simp only [Bounded, List.replicate, List.cons_append, List.nil_append, Nat.cast_ofNat] at hb
  avx_lets_int reduce_fn
  cases k <;> avx_finish_bounded

/-- `-x`: `16p − x` lane-wise, then `reduce`; every lane `≤` the corresponding lane of `(16p,16p,16p,16p)` -/
theorem neg_correct (k : Lane) (x0 x1 x2 x3 x4 x5 x6 x7 x8 x9 x10 x11 x12 x13 x14 x15 x16 x17 x18 x19 x20 x21 x22 x23 x24 x25 x26 x27 x28 x29 x30 x31 x32 x33 x34 x35 x36 x37 x38 x39 : Int)
    (hb : Bounded (x0 :: x1 :: x2 :: x3 :: x4 :: x5 :: x6 :: x7 :: x8 :: x9 :: x10 :: x11 :: x12 :: x13 :: x14 :: x15 :: x16 :: x17 :: x18 :: x19 :: x20 :: x21 :: x22 :: x23 :: x24 :: x25 :: x26 :: x27 :: x28 :: x29 :: x30 :: x31 :: x32 :: x33 :: x34 :: x35 :: x36 :: x37 :: x38 :: x39 :: []) p16Lanes) :
    laneVal k (neg_fn x0 x1 x2 x3 x4 x5 x6 x7 x8 x9 x10 x11 x12 x13 x14 x15 x16 x17 x18 x19 x20 x21 x22 x23 x24 x25 x26 x27 x28 x29 x30 x31 x32 x33 x34 x35 x36 x37 x38 x39) = - laneVal k (x0 :: x1 :: x2 :: x3 :: x4 :: x5 :: x6 :: x7 :: x8 :: x9 :: x10 :: x11 :: x12 :: x13 :: x14 :: x15 :: x16 :: x17 :: x18 :: x19 :: x20 :: x21 :: x22 :: x23 :: x24 :: x25 :: x26 :: x27 :: x28 :: x29 :: x30 :: x31 :: x32 :: x33 :: x34 :: x35 :: x36 :: x37 :: x38 :: x39 :: []) := by
  simp only [Bounded, List.replicate, List.cons_append, List.nil_append, Nat.cast_ofNat, p16Lanes, Dalek.Gen.Consts.Avx2.P_TIMES_16_LO, Dalek.Gen.Consts.Avx2.P_TIMES_16_HI] at hb
  avx_lets_int neg_fn
  cases k <;> avx_finish_bounded

/-- `x + y` lane-wise -/
theorem add_correct (k : Lane) (x0 x1 x2 x3 x4 x5 x6 x7 x8 x9 x10 x11 x12 x13 x14 x15 x16 x17 x18 x19 x20 x21 x22 x23 x24 x25 x26 x27 x28 x29 x30 x31 x32 x33 x34 x35 x36 x37 x38 x39 y0 y1 y2 y3 y4 y5 y6 y7 y8 y9 y10 y11 y12 y13 y14 y15 y16 y17 y18 y19 y20 y21 y22 y23 y24 y25 y26 y27 y28 y29 y30 y31 y32 y33 y34 y35 y36 y37 y38 y39 : Int) :
    laneVal k (add_fn x0 x1 x2 x3 x4 x5 x6 x7 x8 x9 x10 x11 x12 x13 x14 x15 x16 x17 x18 x19 x20 x21 x22 x23 x24 x25 x26 x27 x28 x29 x30 x31 x32 x33 x34 x35 x36 x37 x38 x39 y0 y1 y2 y3 y4 y5 y6 y7 y8 y9 y10 y11 y12 y13 y14 y15 y16 y17 y18 y19 y20 y21 y22 y23 y24 y25 y26 y27 y28 y29 y30 y31 y32 y33 y34 y35 y36 y37 y38 y39) = laneVal k (x0 :: x1 :: x2 :: x3 :: x4 :: x5 :: x6 :: x7 :: x8 :: x9 :: x10 :: x11 :: x12 :: x13 :: x14 :: x15 :: x16 :: x17 :: x18 :: x19 :: x20 :: x21 :: x22 :: x23 :: x24 :: x25 :: x26 :: x27 :: x28 :: x29 :: x30 :: x31 :: x32 :: x33 :: x34 :: x35 :: x36 :: x37 :: x38 :: x39 :: []) + laneVal k (y0 :: y1 :: y2 :: y3 :: y4 :: y5 :: y6 :: y7 :: y8 :: y9 :: y10 :: y11 :: y12 :: y13 :: y14 :: y15 :: y16 :: y17 :: y18 :: y19 :: y20 :: y21 :: y22 :: y23 :: y24 :: y25 :: y26 :: y27 :: y28 :: y29 :: y30 :: y31 :: y32 :: y33 :: y34 :: y35 :: y36 :: y37 :: y38 :: y39 :: []) := by
  avx_lets add_fn
  cases k <;> avx_finish


end Dalek.Proofs.Avx2Field

import Dalek.Proofs.Avx2Field.Defs
import Dalek.Gen.Norm.Avx2Field
/-! `&x * &y` of the AVX2 backend: lane-wise product in `ZMod (2^255-19)`, for ALL integer lane values. -/
set_option maxRecDepth 100000
set_option maxHeartbeats 4000000
set_option linter.unusedSimpArgs false
namespace Dalek.Proofs.Avx2Field
open Dalek Dalek.Gen.Norm.Avx2Field Dalek.Proofs.Field26

/-- `(A,B,C,D) * (A',B',C',D') = (A A', B B', C C', D D')` -/
theorem mul_correct (k : Lane) (x0 x1 x2 x3 x4 x5 x6 x7 x8 x9 x10 x11 x12 x13 x14 x15 x16 x17 x18 x19 x20 x21 x22 x23 x24 x25 x26 x27 x28 x29 x30 x31 x32 x33 x34 x35 x36 x37 x38 x39 y0 y1 y2 y3 y4 y5 y6 y7 y8 y9 y10 y11 y12 y13 y14 y15 y16 y17 y18 y19 y20 y21 y22 y23 y24 y25 y26 y27 y28 y29 y30 y31 y32 y33 y34 y35 y36 y37 y38 y39 : Int) :
    laneVal k (mul_fn x0 x1 x2 x3 x4 x5 x6 x7 x8 x9 x10 x11 x12 x13 x14 x15 x16 x17 x18 x19 x20 x21 x22 x23 x24 x25 x26 x27 x28 x29 x30 x31 x32 x33 x34 x35 x36 x37 x38 x39 y0 y1 y2 y3 y4 y5 y6 y7 y8 y9 y10 y11 y12 y13 y14 y15 y16 y17 y18 y19 y20 y21 y22 y23 y24 y25 y26 y27 y28 y29 y30 y31 y32 y33 y34 y35 y36 y37 y38 y39) = laneVal k (x0 :: x1 :: x2 :: x3 :: x4 :: x5 :: x6 :: x7 :: x8 :: x9 :: x10 :: x11 :: x12 :: x13 :: x14 :: x15 :: x16 :: x17 :: x18 :: x19 :: x20 :: x21 :: x22 :: x23 :: x24 :: x25 :: x26 :: x27 :: x28 :: x29 :: x30 :: x31 :: x32 :: x33 :: x34 :: x35 :: x36 :: x37 :: x38 :: x39 :: []) * laneVal k (y0 :: y1 :: y2 :: y3 :: y4 :: y5 :: y6 :: y7 :: y8 :: y9 :: y10 :: y11 :: y12 :: y13 :: y14 :: y15 :: y16 :: y17 :: y18 :: y19 :: y20 :: y21 :: y22 :: y23 :: y24 :: y25 :: y26 :: y27 :: y28 :: y29 :: y30 :: y31 :: y32 :: y33 :: y34 :: y35 :: y36 :: y37 :: y38 :: y39 :: []) := by
  avx_lets mul_fn
  cases k <;> avx_finish


end Dalek.Proofs.Avx2Field

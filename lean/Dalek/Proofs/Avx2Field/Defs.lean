import Dalek.Proofs.Field26
import Dalek.Proofs.Field51
import Dalek.IR.LimbSound
/-! Lane-level value semantics of the AVX2 vector field backend (`backend/vector/avx2/field.rs`) and the proof
macro used for the functional-correctness lemmas of `Dalek/Proofs/Avx2Field/*`.

A `FieldElement2625x4 = [u32x8; 5]` is modelled as a list of 40 lanes; lane `8 i + j` is lane `j` of vector `i`.
Lane order inside vector `i` (read off the translated `new` / `split`, see `Dalek.Gen.Avx2Field`):
`(a_{2i}, b_{2i}, a_{2i+1}, b_{2i+1}, c_{2i}, d_{2i}, c_{2i+1}, d_{2i+1})`
where `a_m, b_m, c_m, d_m` is limb `m` (radix 2^25.5: weight `2^⌈25.5 m⌉`) of the field elements A, B, C, D. -/
namespace Dalek.Proofs.Avx2Field
open Dalek Dalek.Proofs.Field26

/-- the four field elements packed in a vector -/
inductive Lane | A | B | C | D
deriving DecidableEq, Repr

/-- position of the even limb of the element inside each `u32x8` (the odd limb sits 2 positions later) -/
def Lane.off : Lane → Nat
  | .A => 0 | .B => 1 | .C => 4 | .D => 5

/-- index of the element among `(A, B, C, D)` (lane order of a `u64x4`, order of the arguments of `new`) -/
def Lane.idx : Lane → Nat
  | .A => 0 | .B => 1 | .C => 2 | .D => 3

/-- `k.sel a b c d` : the component for lane `k` of the 4-tuple `(a, b, c, d)` -/
def Lane.sel {α : Sort _} : Lane → α → α → α → α → α
  | .A, a, _, _, _ => a | .B, _, b, _, _ => b | .C, _, _, c, _ => c | .D, _, _, _, d => d

/-- the ten limbs of element `k` inside the 40 lanes `v` -/
def lane (k : Lane) (v : List Int) : List Int :=
  [v.getD k.off 0, v.getD (k.off + 2) 0, v.getD (k.off + 8) 0, v.getD (k.off + 10) 0, v.getD (k.off + 16) 0,
   v.getD (k.off + 18) 0, v.getD (k.off + 24) 0, v.getD (k.off + 26) 0, v.getD (k.off + 32) 0, v.getD (k.off + 34) 0]

/-- value in `ZMod (2^255-19)` of element `k` of the vector `v` (40 lanes) -/
def laneVal (k : Lane) (v : List Int) : ZMod P := ((rep26 (lane k v) : Int) : ZMod P)

/-- the ten wide coefficients of element `k` inside `[u64x4; 10]` (the argument of `reduce64`): `z[i]` is lanes
`4 i .. 4 i + 3`, in the order `(A, B, C, D)` -/
def lane64 (k : Lane) (z : List Int) : List Int :=
  [z.getD k.idx 0, z.getD (k.idx + 4) 0, z.getD (k.idx + 8) 0, z.getD (k.idx + 12) 0, z.getD (k.idx + 16) 0,
   z.getD (k.idx + 20) 0, z.getD (k.idx + 24) 0, z.getD (k.idx + 28) 0, z.getD (k.idx + 32) 0, z.getD (k.idx + 36) 0]

def laneVal64 (k : Lane) (z : List Int) : ZMod P := ((rep26 (lane64 k z) : Int) : ZMod P)

/-- the five radix-2^51 limbs of the `k`-th of four `FieldElement51` given as 20 limbs -/
def elem51 (k : Lane) (l : List Int) : List Int :=
  [l.getD (5 * k.idx) 0, l.getD (5 * k.idx + 1) 0, l.getD (5 * k.idx + 2) 0, l.getD (5 * k.idx + 3) 0,
   l.getD (5 * k.idx + 4) 0]

/-- value of the `k`-th `FieldElement51` -/
def val51 (k : Lane) (l : List Int) : ZMod P := ((Dalek.Proofs.Field51.rep51 (elem51 k l) : Int) : ZMod P)

/-! ### the documented bounds as interval vectors (`Dalek.Model.Contracts.Avx2Field.lanes num den`: even limbs
`< 2^26 · num/den`, odd limbs `< 2^25 · num/den`) -/
open Dalek.Model.Contracts in
/-- `b < 0.0002` (`2^0.0002 = 1.000138…`): post-condition documented for `new`, `reduce`, `neg` -/
def b0002 : List Dalek.IR.Itv := Avx2Field.lanes 10001 10000
open Dalek.Model.Contracts in
/-- `b < 0.007` (`2^0.007 = 1.004863…`): post-condition documented for `mul`, `square_and_negate_D`, `mul_consts`,
`reduce64` -/
def b007 : List Dalek.IR.Itv := Avx2Field.lanes 10048 10000
open Dalek.Model.Contracts in
/-- `b < 1` : post-condition documented for `negate_lazy` -/
def b1 : List Dalek.IR.Itv := Avx2Field.lanes 2 1
open Dalek.Model.Contracts in
/-- `b < 1.6` (`2^1.6 = 3.0314…`): post-condition documented for `diff_sum` -/
def b16 : List Dalek.IR.Itv := Avx2Field.lanes 3031 1000

/-! ### the same notions on vectors of naturals (the values the programs compute with) -/
/-- the ten limbs of element `k` of a vector of 40 u32 lanes -/
def vecLimbs (k : Lane) (v : List Nat) : List Int := lane k (Dalek.IR.toZ v)
/-- value of element `k` of a vector of 40 u32 lanes -/
def vecVal (k : Lane) (v : List Nat) : ZMod P := laneVal k (Dalek.IR.toZ v)
/-- value of element `k` of ten wide coefficient vectors (40 u64 lanes, argument of `reduce64`) -/
def wideVal (k : Lane) (z : List Nat) : ZMod P := laneVal64 k (Dalek.IR.toZ z)
/-- value of the `k`-th of four `FieldElement51` (20 u64 limbs) -/
def elemVal (k : Lane) (l : List Nat) : ZMod P := val51 k (Dalek.IR.toZ l)

theorem vecVal_eq_limbs (k : Lane) (v : List Nat) : vecVal k v = ((rep26 (vecLimbs k v) : Int) : ZMod P) := rfl

theorem toZ_injective : Function.Injective Dalek.IR.toZ :=
  List.map_injective_iff.mpr (fun _ _ h => Int.ofNat.inj h)

open Lean Elab Tactic Meta in
/-- List literals with more than 32 elements are elaborated with auxiliary `let`s; `lets_to_eqs` turns those into
equations `hL_i : l = a :: b :: … :: l'` between lists.  Substitute them away again. -/
elab "subst_list_eqs" : tactic => withMainContext do
  let lctx ← getLCtx
  let mut names : Array Name := #[]
  for d in lctx do
    if d.isImplementationDetail then continue
    if d.userName.toString.startsWith "hL_" then
      let t ← instantiateMVars d.type
      if let some (ty, _, _) := t.eq? then
        if ty.isAppOf ``List then names := names.push d.userName
  for n in names do
    evalTactic (← `(tactic| subst $(mkIdent n)))

/-- `0 ≤ x_i ≤ b_i` point-wise (the integer image of an interval contract; used by the few kernels whose
normal form is value-preserving only inside the contract, see `zero_quots`) -/
def Bounded : List Int → List Nat → Prop
  | [], [] => True
  | x :: xs, b :: bs => (0 ≤ x ∧ x ≤ (b : Int)) ∧ Bounded xs bs
  | _, _ => False

/-- the forty lanes of `(16p, 16p, 16p, 16p)` (constants regenerated from `avx2/constants.rs`) -/
def p16Lanes : List Nat :=
  Dalek.Gen.Consts.Avx2.P_TIMES_16_LO ++ Dalek.Gen.Consts.Avx2.P_TIMES_16_HI ++ Dalek.Gen.Consts.Avx2.P_TIMES_16_HI
    ++ Dalek.Gen.Consts.Avx2.P_TIMES_16_HI ++ Dalek.Gen.Consts.Avx2.P_TIMES_16_HI

theorem bounded_of_envIn : ∀ {xs : List Nat} {pre : List Dalek.IR.Itv}, Dalek.IR.EnvIn xs pre →
    Bounded (Dalek.IR.toZ xs) (pre.map (·.hi))
  | [], [], _ => trivial
  | x :: xs, t :: ts, h => by
      refine ⟨⟨Int.natCast_nonneg x, ?_⟩, bounded_of_envIn h.2⟩
      exact Int.ofNat_le.mpr h.1.2.1
  | [], _ :: _, h => h.elim
  | _ :: _, [], h => h.elim

open Lean Elab Tactic Meta in
/-- keep only those `hL_i : x = rhs` on which the goal (transitively) depends -/
elab "slice_hyps" : tactic => withMainContext do
  let g ← getMainGoal
  let lctx ← getLCtx
  let mut hyps : Array (FVarId × FVarId × Expr) := #[]
  for d in lctx do
    if d.isImplementationDetail then continue
    if d.userName.toString.startsWith "hL_" then
      let t ← instantiateMVars d.type
      if let some (_, lhs, rhs) := t.eq? then
        if lhs.isFVar then hyps := hyps.push (d.fvarId, lhs.fvarId!, rhs)
  let tgt ← instantiateMVars (← g.getType)
  let mut needed : Std.HashSet FVarId := {}
  for fv in (collectFVars {} tgt).fvarIds do needed := needed.insert fv
  let mut marked : Std.HashSet FVarId := {}
  let mut changed := true
  while changed do
    changed := false
    for (h, x, rhs) in hyps do
      if needed.contains x && !marked.contains h then
        marked := marked.insert h
        changed := true
        for fv in (collectFVars {} rhs).fvarIds do needed := needed.insert fv
  let mut g' := g
  for (h, _, _) in hyps.reverse do
    if !marked.contains h then
      g' ← g'.clear h
  replaceMainGoal [g']

open Lean in
/-- all quotients and all remainders occurring in an expression -/
partial def collectDivMod (e : Expr) : StateM (Array Expr × Array Expr) Unit := do
  match e.getAppFnArgs with
  | (``HDiv.hDiv, #[_, _, _, _, a, b]) =>
      modify (fun (d, m) => (d.push e, m)); collectDivMod a; collectDivMod b
  | (``HMod.hMod, #[_, _, _, _, a, b]) =>
      modify (fun (d, m) => (d, m.push e)); collectDivMod a; collectDivMod b
  | _ => for arg in e.getAppArgs do collectDivMod arg

open Lean Elab Tactic Meta in
/-- The normaliser drops a mask `t & (2^k-1)` when the interval analysis shows `t < 2^k`, but keeps the matching
`t >> k`; it also keeps the high 32 bits of a 64-bit lane product that a 32-bit shuffle moves into a neighbouring
lane.  Such a quotient `t / m`, whose remainder `t % m` is used nowhere, can only occur in a value-preserving
computation if it vanishes.  For each of them: prove `t / m = 0` by `omega` from the input bounds in the context and
rewrite with it (quotients for which this fails are left alone; the final `ring_nf` then fails). -/
elab "zero_quots" : tactic => do
  let mut failed : Array Expr := #[]
  let mut progress := true
  while progress do
    progress := false
    let cands ← withMainContext do
      let lctx ← getLCtx
      let mut st : Array Expr × Array Expr := (#[], #[])
      for d in lctx do
        if d.isImplementationDetail then continue
        if d.userName.toString.startsWith "hL_" then
          let t ← instantiateMVars d.type
          st := ((collectDivMod t).run st).2
      let (divs, mods) := st
      let mut cs : Array Expr := #[]
      for q in divs do
        let a := q.getAppArgs[4]!; let b := q.getAppArgs[5]!
        if !(mods.any fun m => m.getAppArgs[4]! == a && m.getAppArgs[5]! == b) && !cs.contains q then
          cs := cs.push q
      pure cs
    for q in cands do
      if failed.contains q then continue
      let ok ← withMainContext do
        let stx ← Term.exprToSyntax q
        try
          evalTactic (← `(tactic| (have hq : $stx = 0 := by omega)))
          evalTactic (← `(tactic| (simp only [hq, add_zero, zero_add] at *)))
          evalTactic (← `(tactic| (try clear hq)))
          pure true
        catch _ => pure false
      if ok then
        progress := true
        break
      else failed := failed.push q

/-- unfold the lane-value notions in the goal down to the SSA variables -/
macro "avx_goal" : tactic =>
  `(tactic| simp only [laneVal, laneVal64, val51, lane, lane64, elem51, Lane.off, Lane.idx, Lane.sel,
               Nat.reduceAdd, Nat.reduceMul, List.getD_cons_zero, List.getD_cons_succ])

/-- `avx_lets_int f`: unfold the shallow kernel `f` and turn its SSA lets into equations over `ℤ` -/
macro "avx_lets_int " f:ident : tactic =>
  `(tactic| (limb_lets $f; subst_list_eqs))


/-- `avx_lets f`: unfold the shallow kernel `f`, turn its SSA lets into equations, cast them to `ZMod P` -/
macro "avx_lets " f:ident : tactic =>
  `(tactic| (limb_lets $f; subst_list_eqs; cast_eqs (ZMod P)))

/-- finish a lane-value identity (normalising; the quotients of the carries stay opaque atoms) -/
macro "avx_finish" : tactic =>
  `(tactic| (simp only [laneVal, laneVal64, val51, lane, lane64, elem51, Lane.off, Lane.idx, Lane.sel,
               Nat.reduceAdd, Nat.reduceMul, rep26, Dalek.Proofs.Field51.rep51,
               List.getD_cons_zero, List.getD_cons_succ,
               emod_emod_pow _ (show 25 ≤ 32 by norm_num), emod_emod_pow _ (show 26 ≤ 32 by norm_num),
               emod_emod_pow _ (show 25 ≤ 64 by norm_num), emod_emod_pow _ (show 26 ≤ 64 by norm_num)] at *
             limb_push
             simp only [*]
             ring_nf
             try reduce_mod_char))

/-- lane identity inside the contract: slice, discharge the vanishing quotients, cast, normalise -/
macro "avx_finish_bounded" : tactic =>
  `(tactic| (avx_goal; slice_hyps; zero_quots; cast_eqs (ZMod P); avx_finish))

end Dalek.Proofs.Avx2Field

import Dalek.Proofs.Field26
import Dalek.Proofs.Field51
/-! Lane-level value semantics of the AVX2 vector field backend (`backend/vector/avx2/field.rs`) and the proof
macro used for the functional-correctness lemmas of `Dalek/Proofs/Avx2Field/*`.

A `FieldElement2625x4 = [u32x8; 5]` is modelled as a list of 40 lanes; lane `8 i + j` is lane `j` of vector `i`.
Lane order inside vector `i` (read off the translated `new` / `split`, see `Dalek.Gen.Avx2Field`):
`(a_{2i}, b_{2i}, a_{2i+1}, b_{2i+1}, c_{2i}, d_{2i}, c_{2i+1}, d_{2i+1})`
where `a_m, b_m, c_m, d_m` is limb `m` (radix 2^25.5: weight `2^⌈25.5 m⌉`) of the field elements A, B, C, D. -/
namespace Dalek.Proofs.Avx2Field
open Dalek Dalek.Proofs.Field26

/-- the four field elements packed in a vector -/
inductive Lane | A | B | C | D
deriving DecidableEq, Repr

/-- position of the even limb of the element inside each `u32x8` (the odd limb sits 2 positions later) -/
def Lane.off : Lane → Nat
  | .A => 0 | .B => 1 | .C => 4 | .D => 5

/-- index of the element among `(A, B, C, D)` (lane order of a `u64x4`, order of the arguments of `new`) -/
def Lane.idx : Lane → Nat
  | .A => 0 | .B => 1 | .C => 2 | .D => 3

/-- `k.sel a b c d` : the component for lane `k` of the 4-tuple `(a, b, c, d)` -/
def Lane.sel {α : Sort _} : Lane → α → α → α → α → α
  | .A, a, _, _, _ => a | .B, _, b, _, _ => b | .C, _, _, c, _ => c | .D, _, _, _, d => d

/-- the ten limbs of element `k` inside the 40 lanes `v` -/
def lane (k : Lane) (v : List Int) : List Int :=
  [v.getD k.off 0, v.getD (k.off + 2) 0, v.getD (k.off + 8) 0, v.getD (k.off + 10) 0, v.getD (k.off + 16) 0,
   v.getD (k.off + 18) 0, v.getD (k.off + 24) 0, v.getD (k.off + 26) 0, v.getD (k.off + 32) 0, v.getD (k.off + 34) 0]

/-- value in `ZMod (2^255-19)` of element `k` of the vector `v` (40 lanes) -/
def laneVal (k : Lane) (v : List Int) : ZMod P := ((rep26 (lane k v) : Int) : ZMod P)

/-- the ten wide coefficients of element `k` inside `[u64x4; 10]` (the argument of `reduce64`): `z[i]` is lanes
`4 i .. 4 i + 3`, in the order `(A, B, C, D)` -/
def lane64 (k : Lane) (z : List Int) : List Int :=
  [z.getD k.idx 0, z.getD (k.idx + 4) 0, z.getD (k.idx + 8) 0, z.getD (k.idx + 12) 0, z.getD (k.idx + 16) 0,
   z.getD (k.idx + 20) 0, z.getD (k.idx + 24) 0, z.getD (k.idx + 28) 0, z.getD (k.idx + 32) 0, z.getD (k.idx + 36) 0]

def laneVal64 (k : Lane) (z : List Int) : ZMod P := ((rep26 (lane64 k z) : Int) : ZMod P)

/-- the five radix-2^51 limbs of the `k`-th of four `FieldElement51` given as 20 limbs -/
def elem51 (k : Lane) (l : List Int) : List Int :=
  [l.getD (5 * k.idx) 0, l.getD (5 * k.idx + 1) 0, l.getD (5 * k.idx + 2) 0, l.getD (5 * k.idx + 3) 0,
   l.getD (5 * k.idx + 4) 0]

/-- value of the `k`-th `FieldElement51` -/
def val51 (k : Lane) (l : List Int) : ZMod P := ((Dalek.Proofs.Field51.rep51 (elem51 k l) : Int) : ZMod P)

open Lean Elab Tactic Meta in
/-- List literals with more than 32 elements are elaborated with auxiliary `let`s; `lets_to_eqs` turns those into
equations `hL_i : l = a :: b :: … :: l'` between lists.  Substitute them away again. -/
elab "subst_list_eqs" : tactic => withMainContext do
  let lctx ← getLCtx
  let mut names : Array Name := #[]
  for d in lctx do
    if d.isImplementationDetail then continue
    if d.userName.toString.startsWith "hL_" then
      let t ← instantiateMVars d.type
      if let some (ty, _, _) := t.eq? then
        if ty.isAppOf ``List then names := names.push d.userName
  for n in names do
    evalTactic (← `(tactic| subst $(mkIdent n)))

/-- `avx_lets f`: unfold the shallow kernel `f`, turn its SSA lets into equations, cast them to `ZMod P` -/
macro "avx_lets " f:ident : tactic =>
  `(tactic| (limb_lets $f; subst_list_eqs; cast_eqs (ZMod P)))

/-- finish a lane-value identity (normalising; the quotients of the carries stay opaque atoms) -/
macro "avx_finish" : tactic =>
  `(tactic| (simp only [laneVal, laneVal64, val51, lane, lane64, elem51, Lane.off, Lane.idx, Lane.sel,
               Nat.reduceAdd, Nat.reduceMul, rep26, Dalek.Proofs.Field51.rep51,
               List.getD_cons_zero, List.getD_cons_succ,
               emod_emod_pow _ (show 25 ≤ 32 by norm_num), emod_emod_pow _ (show 26 ≤ 32 by norm_num),
               emod_emod_pow _ (show 25 ≤ 64 by norm_num), emod_emod_pow _ (show 26 ≤ 64 by norm_num)] at *
             limb_push
             simp only [*]
             ring_nf
             try reduce_mod_char))

end Dalek.Proofs.Avx2Field

import Dalek.Proofs.Avx2Field.Defs
import Dalek.Gen.Norm.Avx2Field
/-! `square_and_negate_D` of the AVX2 backend, for ALL integer lane values. -/
set_option maxRecDepth 100000
set_option maxHeartbeats 4000000
set_option linter.unusedSimpArgs false
namespace Dalek.Proofs.Avx2Field
open Dalek Dalek.Gen.Norm.Avx2Field Dalek.Proofs.Field26

/-- `(A,B,C,D) ↦ (A², B², C², −D²)` -/
theorem square_and_negate_D_correct (k : Lane) (x0 x1 x2 x3 x4 x5 x6 x7 x8 x9 x10 x11 x12 x13 x14 x15 x16 x17 x18 x19 x20 x21 x22 x23 x24 x25 x26 x27 x28 x29 x30 x31 x32 x33 x34 x35 x36 x37 x38 x39 : Int) :
    laneVal k (square_and_negate_D_fn x0 x1 x2 x3 x4 x5 x6 x7 x8 x9 x10 x11 x12 x13 x14 x15 x16 x17 x18 x19 x20 x21 x22 x23 x24 x25 x26 x27 x28 x29 x30 x31 x32 x33 x34 x35 x36 x37 x38 x39) = k.sel (laneVal .A (x0 :: x1 :: x2 :: x3 :: x4 :: x5 :: x6 :: x7 :: x8 :: x9 :: x10 :: x11 :: x12 :: x13 :: x14 :: x15 :: x16 :: x17 :: x18 :: x19 :: x20 :: x21 :: x22 :: x23 :: x24 :: x25 :: x26 :: x27 :: x28 :: x29 :: x30 :: x31 :: x32 :: x33 :: x34 :: x35 :: x36 :: x37 :: x38 :: x39 :: []) ^ 2) (laneVal .B (x0 :: x1 :: x2 :: x3 :: x4 :: x5 :: x6 :: x7 :: x8 :: x9 :: x10 :: x11 :: x12 :: x13 :: x14 :: x15 :: x16 :: x17 :: x18 :: x19 :: x20 :: x21 :: x22 :: x23 :: x24 :: x25 :: x26 :: x27 :: x28 :: x29 :: x30 :: x31 :: x32 :: x33 :: x34 :: x35 :: x36 :: x37 :: x38 :: x39 :: []) ^ 2) (laneVal .C (x0 :: x1 :: x2 :: x3 :: x4 :: x5 :: x6 :: x7 :: x8 :: x9 :: x10 :: x11 :: x12 :: x13 :: x14 :: x15 :: x16 :: x17 :: x18 :: x19 :: x20 :: x21 :: x22 :: x23 :: x24 :: x25 :: x26 :: x27 :: x28 :: x29 :: x30 :: x31 :: x32 :: x33 :: x34 :: x35 :: x36 :: x37 :: x38 :: x39 :: []) ^ 2) (- laneVal .D (x0 :: x1 :: x2 :: x3 :: x4 :: x5 :: x6 :: x7 :: x8 :: x9 :: x10 :: x11 :: x12 :: x13 :: x14 :: x15 :: x16 :: x17 :: x18 :: x19 :: x20 :: x21 :: x22 :: x23 :: x24 :: x25 :: x26 :: x27 :: x28 :: x29 :: x30 :: x31 :: x32 :: x33 :: x34 :: x35 :: x36 :: x37 :: x38 :: x39 :: []) ^ 2) := by
  avx_lets square_and_negate_D_fn
  cases k <;> avx_finish


end Dalek.Proofs.Avx2Field

import Dalek.Proofs.Avx2Field.Defs
import Dalek.Gen.Norm.Avx2Field
/-! Multiplication by a vector of four u32 constants and `reduce64`, for ALL integer lane values. -/
set_option maxRecDepth 100000
set_option maxHeartbeats 4000000
set_option linter.unusedSimpArgs false
namespace Dalek.Proofs.Avx2Field
open Dalek Dalek.Gen.Norm.Avx2Field Dalek.Proofs.Field26

/-- `(A,B,C,D) * (s0,s1,s2,s3) = (s0 A, s1 B, s2 C, s3 D)` -/
theorem mul_consts_correct (k : Lane) (x0 x1 x2 x3 x4 x5 x6 x7 x8 x9 x10 x11 x12 x13 x14 x15 x16 x17 x18 x19 x20 x21 x22 x23 x24 x25 x26 x27 x28 x29 x30 x31 x32 x33 x34 x35 x36 x37 x38 x39 s0 s1 s2 s3 : Int) :
    laneVal k (mul_consts_fn x0 x1 x2 x3 x4 x5 x6 x7 x8 x9 x10 x11 x12 x13 x14 x15 x16 x17 x18 x19 x20 x21 x22 x23 x24 x25 x26 x27 x28 x29 x30 x31 x32 x33 x34 x35 x36 x37 x38 x39 s0 s1 s2 s3) = laneVal k (x0 :: x1 :: x2 :: x3 :: x4 :: x5 :: x6 :: x7 :: x8 :: x9 :: x10 :: x11 :: x12 :: x13 :: x14 :: x15 :: x16 :: x17 :: x18 :: x19 :: x20 :: x21 :: x22 :: x23 :: x24 :: x25 :: x26 :: x27 :: x28 :: x29 :: x30 :: x31 :: x32 :: x33 :: x34 :: x35 :: x36 :: x37 :: x38 :: x39 :: []) * ((k.sel s0 s1 s2 s3 : Int) : ZMod P) := by
  avx_lets mul_consts_fn
  cases k <;> avx_finish

/-- `reduce64` of ten wide coefficient vectors `z[0..10]` (10 × 4 u64 lanes) preserves the four values -/
theorem reduce64_correct (k : Lane) (z0 z1 z2 z3 z4 z5 z6 z7 z8 z9 z10 z11 z12 z13 z14 z15 z16 z17 z18 z19 z20 z21 z22 z23 z24 z25 z26 z27 z28 z29 z30 z31 z32 z33 z34 z35 z36 z37 z38 z39 : Int) :
    laneVal k (reduce64_fn z0 z1 z2 z3 z4 z5 z6 z7 z8 z9 z10 z11 z12 z13 z14 z15 z16 z17 z18 z19 z20 z21 z22 z23 z24 z25 z26 z27 z28 z29 z30 z31 z32 z33 z34 z35 z36 z37 z38 z39) = laneVal64 k (z0 :: z1 :: z2 :: z3 :: z4 :: z5 :: z6 :: z7 :: z8 :: z9 :: z10 :: z11 :: z12 :: z13 :: z14 :: z15 :: z16 :: z17 :: z18 :: z19 :: z20 :: z21 :: z22 :: z23 :: z24 :: z25 :: z26 :: z27 :: z28 :: z29 :: z30 :: z31 :: z32 :: z33 :: z34 :: z35 :: z36 :: z37 :: z38 :: z39 :: []) := by
  avx_lets reduce64_fn
  cases k <;> avx_finish


end Dalek.Proofs.Avx2Field

/-
C04 layer 2, helper lemmas (part 4): glue between the layer-1 recoding theorems
(`Dalek.Props.C04.Recode`: `radix16_spec`, `radix2w_spec`, `naf_spec`) and the digit-level hypotheses used by the
algorithm lemmas (`Radix16Digits`, `Radix2wDigits`, `PipDigits`, `NafRange`, `digVal`), and the reference sum
`msm`.
-/
import Dalek.Proofs.ScalarMulPippenger
import Dalek.Props.C04.Recode
import Dalek.Proofs.Bridge.Scalar

namespace Dalek.Proofs.ScalarMul
open Dalek.Model.ScalarMul Dalek.Model.Recode Dalek.Spec Dalek.Props.C04.Recode

variable {G : Type} [AddCommGroup G]

/-- The reference: `Σ sᵢ • Pᵢ` with `sᵢ` the little-endian value of the `i`-th 32-byte scalar (ℕ-multiples,
i.e. repeated group addition). -/
def msm (scalars : List (List UInt8)) (points : List G) : G :=
  (List.zipWith (fun b P => leToNat b • P) scalars points).sum

/-! ### radix 16 -/

theorem radix16Digits_of_bytes (b : List UInt8) (hlen : b.length = 32) (hs : leToNat b < 2 ^ 255) :
    Radix16Digits (asRadix16 b) (leToNat b) := by
  obtain ⟨_, h2, h3, h4, h5⟩ := radix16_spec b hlen hs
  refine ⟨h2, fun i hi => ?_, fun i hi => ?_⟩
  · rcases Nat.lt_or_ge i 63 with h | h
    · exact (h3 i h).1
    · have : i = 63 := by omega
      subst this; exact h4
  · rcases Nat.lt_or_ge i 63 with h | h
    · have := (h3 i h).2; omega
    · have : i = 63 := by omega
      subst this; exact h5

theorem radix16Range_of_bytes (b : List UInt8) (hlen : b.length = 32) (hs : leToNat b < 2 ^ 255) :
    Radix16Range (asRadix16 b) := fun i hi =>
  ⟨(radix16Digits_of_bytes b hlen hs).lo i hi, (radix16Digits_of_bytes b hlen hs).hi i hi⟩

theorem digVal16_of_bytes (b : List UInt8) (hlen : b.length = 32) (hs : leToNat b < 2 ^ 255) :
    digVal 4 64 (asRadix16 b) = leToNat b := by
  rw [← (radix16Digits_of_bytes b hlen hs).sum]
  unfold digVal
  simp only [pow_four_mul]

/-! ### radix `2^w` -/

theorem basepointAdditions_eq_sizeHint {w : ℕ} (hw4 : 4 ≤ w) (hw8 : w ≤ 8) :
    basepointAdditions w = toRadix2wSizeHint w := by
  interval_cases w <;> decide

/-- all facts about the digits of `as_radix_2w(w)` in one place -/
theorem radix2w_all (b : List UInt8) (w : ℕ) (hlen : b.length = 32) (hw4 : 4 ≤ w) (hw8 : w ≤ 8)
    (hs : w = 4 → leToNat b < 2 ^ 255) :
    (∑ i ∈ Finset.range 64, (asRadix2w b w).getD i 0 * 2 ^ (w * i) = (leToNat b : ℤ)) ∧
    (∀ i, toRadix2wSizeHint w ≤ i → (asRadix2w b w).getD i 0 = 0) ∧
    (∀ i, -(2 ^ (w - 1) : ℤ) ≤ (asRadix2w b w).getD i 0 ∧ (asRadix2w b w).getD i 0 ≤ 2 ^ (w - 1)) ∧
    (∀ i, -128 ≤ (asRadix2w b w).getD i 0 ∧ (asRadix2w b w).getD i 0 ≤ 127) := by
  obtain ⟨_, h2, h3, h4, h5, h6, h7⟩ := radix2w_spec b w hlen hw4 hw8 hs
  have hpos : (0 : ℤ) < 2 ^ (w - 1) := by positivity
  have hrange : ∀ i, -(2 ^ (w - 1) : ℤ) ≤ (asRadix2w b w).getD i 0 ∧
      (asRadix2w b w).getD i 0 ≤ 2 ^ (w - 1) := by
    intro i
    rcases Nat.lt_or_ge (i + 1) (toRadix2wSizeHint w) with h | h
    · have := h4 i h; constructor <;> omega
    · rcases Nat.lt_or_ge i (toRadix2wSizeHint w) with h' | h'
      · have : i = toRadix2wSizeHint w - 1 := by omega
        subst this; exact h5
      · rw [h3 i h']; constructor <;> omega
  refine ⟨h2, h3, hrange, fun i => ?_⟩
  rcases Nat.lt_or_ge w 8 with hlt | hge
  · have hp : (2 : ℤ) ^ (w - 1) ≤ 64 := by
      have : w - 1 ≤ 6 := by omega
      calc (2 : ℤ) ^ (w - 1) ≤ 2 ^ 6 := pow_le_pow_right₀ (by norm_num) this
        _ = 64 := by norm_num
    have := hrange i
    constructor <;> omega
  · have hw : w = 8 := by omega
    subst hw
    have hh : toRadix2wSizeHint 8 = 33 := by decide
    rw [hh] at h3 h4
    rcases Nat.lt_or_ge i 32 with h | h
    · have := h4 i (by omega)
      have e : (2 : ℤ) ^ (8 - 1) = 128 := by norm_num
      rw [e] at this
      constructor <;> omega
    · rcases Nat.lt_or_ge i 33 with h' | h'
      · have : i = 32 := by omega
        subst this
        rcases h7 rfl with h | h <;> rw [h] <;> constructor <;> norm_num
      · rw [h3 i h']; constructor <;> norm_num

theorem radix2wDigits_of_bytes (b : List UInt8) (w : ℕ) (hlen : b.length = 32) (hw4 : 4 ≤ w) (hw8 : w ≤ 8)
    (hs : w = 4 → leToNat b < 2 ^ 255) : Radix2wDigits w (asRadix2w b w) (leToNat b) := by
  obtain ⟨h1, h2, h3, h4⟩ := radix2w_all b w hlen hw4 hw8 hs
  exact ⟨h1, fun i hi => h2 i (by rw [← basepointAdditions_eq_sizeHint hw4 hw8]; exact hi),
    fun i => (h3 i).1, fun i => (h3 i).2, fun i => (h4 i).1, fun i => (h4 i).2⟩

theorem pipDigits_of_bytes (b : List UInt8) (w : ℕ) (hlen : b.length = 32) (hw5 : 5 ≤ w) (hw8 : w ≤ 8) :
    PipDigits w (asRadix2w b w) ∧ digVal w 64 (asRadix2w b w) = leToNat b := by
  obtain ⟨h1, h2, h3, _⟩ := radix2w_all b w hlen (by omega) hw8 (by omega)
  exact ⟨⟨h2, fun i => (h3 i).1, fun i => (h3 i).2⟩, h1⟩

/-! ### NAF -/

theorem naf_of_bytes (b : List UInt8) (k : ℕ) (hlen : b.length = 32) (hk2 : 2 ≤ k) (hk8 : k ≤ 8)
    (hs : leToNat b < 2 ^ 255) :
    NafRange k (nonAdjacentForm b k) ∧ digVal 1 256 (nonAdjacentForm b k) = leToNat b := by
  obtain ⟨_, h2, h3, _⟩ := naf_spec b k hlen hk2 hk8 hs
  refine ⟨h3, ?_⟩
  rw [← h2]
  unfold digVal
  simp only [one_mul]

/-! ### the reference sum -/

theorem zipSum_bytes (w n : ℕ) (f : List UInt8 → List ℤ) (scalars : List (List UInt8)) (points : List G)
    (h : ∀ b ∈ scalars, digVal w n (f b) = leToNat b) :
    zipSum w n (scalars.map f) points = msm scalars points := by
  unfold zipSum msm
  induction scalars generalizing points with
  | nil => simp
  | cons b bs ih =>
    cases points with
    | nil => simp
    | cons P Ps =>
      simp only [List.map_cons, List.zip_cons_cons, List.sum_cons, List.zipWith_cons_cons]
      rw [ih Ps (fun b hb => h b (by simp [hb])), h b (by simp), natCast_zsmul]

theorem msm_nil_left (points : List G) : msm [] points = 0 := by simp [msm]
theorem msm_nil_right (scalars : List (List UInt8)) : msm scalars ([] : List G) = 0 := by simp [msm]

theorem msm_cons (b : List UInt8) (bs : List (List UInt8)) (P : G) (Ps : List G) :
    msm (b :: bs) (P :: Ps) = leToNat b • P + msm bs Ps := by simp [msm]

omit [AddCommGroup G] in
/-- `collect` after `zip` when the two inputs have the same length -/
theorem zipCollect_of_length_eq {α : Type} (ds : List α) (ps : List (Option G)) (h : ds.length = ps.length) :
    zipCollect ds ps = (collectOption ps).map fun r => List.zip ds r := by
  cases hc : collectOption ps with
  | none =>
    rw [Option.map_none, zipCollect_eq_none_iff, h, List.take_length]
    exact (collectOption_eq_none_iff ps).1 hc
  | some r =>
    rw [collectOption_eq_some hc, zipCollect_some]; rfl

end Dalek.Proofs.ScalarMul

import Dalek.Proofs.Bytes26
import Dalek.Gen.Norm.FiatField26.from_bytes
import Dalek.Gen.Norm.FiatField26.as_bytes
/-!
# Byte codecs of the fiat-u32 field backend: integer-level correctness of the normalised kernels

Helper lemmas for `Dalek/Props/C01/FiatBytes26.lean`; same plan as `Dalek/Proofs/Bytes26.lean` (serial u32 backend).
The objects are `Dalek.Gen.Norm.FiatField26.from_bytes_fn` / `as_bytes_fn`: the shallow integer forms of the LimbIR
programs generated from `backend/serial/fiat_u32/field.rs` with `fiat_25519_from_bytes` / `fiat_25519_to_bytes` inlined.

* `from_bytes_fn_eq` / `from_bytes_fn_val`: on bytes in `[0,255]` the ten limbs are the 26/25-bit digits of `N % 2^255`
  (`N` the little-endian value of the 32 bytes; the wrapper clears bit 255 first); one `omega` per limb.
* `asBytesFiat26` / `packFiat26`: readable hand model of `fiat_25519_to_bytes` (subtract `p` limb-wise with a borrow
  chain, add `p` back under the mask of the final borrow with a carry chain whose last carry is dropped, pack);
  `as_bytes_fn_eq_model`: the generated normal form IS the hand model (normalising: inline all `let`s, `ring_nf` per byte).
* stage lemmas (`omega`, one limb per call, then a linear combination): `subP_chain`, `addP_chain`, `final_abs`,
  `packFiat26_val`, `packFiat26_bytes`.
* `asBytesFiat26_val` / `as_bytes_fn_val`: for limbs inside fiat's TIGHT bounds (even limbs `≤ 2^26`, odd limbs `≤ 2^25`,
  inclusive) every output is a byte and the little-endian value of the output is `(Σ a_i 2^⌈25.5 i⌉) % p`.

No script refers to SSA numbers or to the order of the generated `let`s.
-/
set_option linter.unusedVariables false
set_option linter.unusedTactic false
set_option linter.unreachableTactic false
set_option linter.unusedSimpArgs false
namespace Dalek.Proofs.FiatBytes26
open Dalek Dalek.IR Dalek.Model.FieldBytes Dalek.Proofs.Bytes51
open Dalek.Proofs.Bytes26 (val26Z_toZ digits26 list_eq_of_length_10)
open Dalek.Gen.Norm.FiatField26

/-! ### `from_bytes` -/

set_option maxHeartbeats 8000000 in
/-- the ten limbs are the 26/25-bit digits of the little-endian value with bit 255 cleared -/
theorem from_bytes_fn_eq (x0 x1 x2 x3 x4 x5 x6 x7 x8 x9 x10 x11 x12 x13 x14 x15 x16 x17 x18 x19 x20 x21 x22 x23 x24 x25 x26 x27 x28 x29 x30 x31 : Int)
    (h0 : 0 ≤ x0 ∧ x0 ≤ 255) (h1 : 0 ≤ x1 ∧ x1 ≤ 255) (h2 : 0 ≤ x2 ∧ x2 ≤ 255) (h3 : 0 ≤ x3 ∧ x3 ≤ 255) (h4 : 0 ≤ x4 ∧ x4 ≤ 255) (h5 : 0 ≤ x5 ∧ x5 ≤ 255) (h6 : 0 ≤ x6 ∧ x6 ≤ 255) (h7 : 0 ≤ x7 ∧ x7 ≤ 255) (h8 : 0 ≤ x8 ∧ x8 ≤ 255) (h9 : 0 ≤ x9 ∧ x9 ≤ 255) (h10 : 0 ≤ x10 ∧ x10 ≤ 255) (h11 : 0 ≤ x11 ∧ x11 ≤ 255) (h12 : 0 ≤ x12 ∧ x12 ≤ 255) (h13 : 0 ≤ x13 ∧ x13 ≤ 255) (h14 : 0 ≤ x14 ∧ x14 ≤ 255) (h15 : 0 ≤ x15 ∧ x15 ≤ 255) (h16 : 0 ≤ x16 ∧ x16 ≤ 255) (h17 : 0 ≤ x17 ∧ x17 ≤ 255) (h18 : 0 ≤ x18 ∧ x18 ≤ 255) (h19 : 0 ≤ x19 ∧ x19 ≤ 255) (h20 : 0 ≤ x20 ∧ x20 ≤ 255) (h21 : 0 ≤ x21 ∧ x21 ≤ 255) (h22 : 0 ≤ x22 ∧ x22 ≤ 255) (h23 : 0 ≤ x23 ∧ x23 ≤ 255) (h24 : 0 ≤ x24 ∧ x24 ≤ 255) (h25 : 0 ≤ x25 ∧ x25 ≤ 255) (h26 : 0 ≤ x26 ∧ x26 ≤ 255) (h27 : 0 ≤ x27 ∧ x27 ≤ 255) (h28 : 0 ≤ x28 ∧ x28 ≤ 255) (h29 : 0 ≤ x29 ∧ x29 ≤ 255) (h30 : 0 ≤ x30 ∧ x30 ≤ 255) (h31 : 0 ≤ x31 ∧ x31 ≤ 255) :
    from_bytes_fn x0 x1 x2 x3 x4 x5 x6 x7 x8 x9 x10 x11 x12 x13 x14 x15 x16 x17 x18 x19 x20 x21 x22 x23 x24 x25 x26 x27 x28 x29 x30 x31
      = [leValZ [x0, x1, x2, x3, x4, x5, x6, x7, x8, x9, x10, x11, x12, x13, x14, x15, x16, x17, x18, x19, x20, x21, x22, x23, x24, x25, x26, x27, x28, x29, x30, x31] % 2 ^ 255 / 2 ^ 0 % 2 ^ 26,
         leValZ [x0, x1, x2, x3, x4, x5, x6, x7, x8, x9, x10, x11, x12, x13, x14, x15, x16, x17, x18, x19, x20, x21, x22, x23, x24, x25, x26, x27, x28, x29, x30, x31] % 2 ^ 255 / 2 ^ 26 % 2 ^ 25,
         leValZ [x0, x1, x2, x3, x4, x5, x6, x7, x8, x9, x10, x11, x12, x13, x14, x15, x16, x17, x18, x19, x20, x21, x22, x23, x24, x25, x26, x27, x28, x29, x30, x31] % 2 ^ 255 / 2 ^ 51 % 2 ^ 26,
         leValZ [x0, x1, x2, x3, x4, x5, x6, x7, x8, x9, x10, x11, x12, x13, x14, x15, x16, x17, x18, x19, x20, x21, x22, x23, x24, x25, x26, x27, x28, x29, x30, x31] % 2 ^ 255 / 2 ^ 77 % 2 ^ 25,
         leValZ [x0, x1, x2, x3, x4, x5, x6, x7, x8, x9, x10, x11, x12, x13, x14, x15, x16, x17, x18, x19, x20, x21, x22, x23, x24, x25, x26, x27, x28, x29, x30, x31] % 2 ^ 255 / 2 ^ 102 % 2 ^ 26,
         leValZ [x0, x1, x2, x3, x4, x5, x6, x7, x8, x9, x10, x11, x12, x13, x14, x15, x16, x17, x18, x19, x20, x21, x22, x23, x24, x25, x26, x27, x28, x29, x30, x31] % 2 ^ 255 / 2 ^ 128 % 2 ^ 25,
         leValZ [x0, x1, x2, x3, x4, x5, x6, x7, x8, x9, x10, x11, x12, x13, x14, x15, x16, x17, x18, x19, x20, x21, x22, x23, x24, x25, x26, x27, x28, x29, x30, x31] % 2 ^ 255 / 2 ^ 153 % 2 ^ 26,
         leValZ [x0, x1, x2, x3, x4, x5, x6, x7, x8, x9, x10, x11, x12, x13, x14, x15, x16, x17, x18, x19, x20, x21, x22, x23, x24, x25, x26, x27, x28, x29, x30, x31] % 2 ^ 255 / 2 ^ 179 % 2 ^ 25,
         leValZ [x0, x1, x2, x3, x4, x5, x6, x7, x8, x9, x10, x11, x12, x13, x14, x15, x16, x17, x18, x19, x20, x21, x22, x23, x24, x25, x26, x27, x28, x29, x30, x31] % 2 ^ 255 / 2 ^ 204 % 2 ^ 26,
         leValZ [x0, x1, x2, x3, x4, x5, x6, x7, x8, x9, x10, x11, x12, x13, x14, x15, x16, x17, x18, x19, x20, x21, x22, x23, x24, x25, x26, x27, x28, x29, x30, x31] % 2 ^ 255 / 2 ^ 230 % 2 ^ 25] := by
  unfold from_bytes_fn
  simp only [leValZ, List.cons.injEq, and_true]
  repeat' apply And.intro
  all_goals omega

theorem from_bytes_fn_val (x0 x1 x2 x3 x4 x5 x6 x7 x8 x9 x10 x11 x12 x13 x14 x15 x16 x17 x18 x19 x20 x21 x22 x23 x24 x25 x26 x27 x28 x29 x30 x31 : Int)
    (h0 : 0 ≤ x0 ∧ x0 ≤ 255) (h1 : 0 ≤ x1 ∧ x1 ≤ 255) (h2 : 0 ≤ x2 ∧ x2 ≤ 255) (h3 : 0 ≤ x3 ∧ x3 ≤ 255) (h4 : 0 ≤ x4 ∧ x4 ≤ 255) (h5 : 0 ≤ x5 ∧ x5 ≤ 255) (h6 : 0 ≤ x6 ∧ x6 ≤ 255) (h7 : 0 ≤ x7 ∧ x7 ≤ 255) (h8 : 0 ≤ x8 ∧ x8 ≤ 255) (h9 : 0 ≤ x9 ∧ x9 ≤ 255) (h10 : 0 ≤ x10 ∧ x10 ≤ 255) (h11 : 0 ≤ x11 ∧ x11 ≤ 255) (h12 : 0 ≤ x12 ∧ x12 ≤ 255) (h13 : 0 ≤ x13 ∧ x13 ≤ 255) (h14 : 0 ≤ x14 ∧ x14 ≤ 255) (h15 : 0 ≤ x15 ∧ x15 ≤ 255) (h16 : 0 ≤ x16 ∧ x16 ≤ 255) (h17 : 0 ≤ x17 ∧ x17 ≤ 255) (h18 : 0 ≤ x18 ∧ x18 ≤ 255) (h19 : 0 ≤ x19 ∧ x19 ≤ 255) (h20 : 0 ≤ x20 ∧ x20 ≤ 255) (h21 : 0 ≤ x21 ∧ x21 ≤ 255) (h22 : 0 ≤ x22 ∧ x22 ≤ 255) (h23 : 0 ≤ x23 ∧ x23 ≤ 255) (h24 : 0 ≤ x24 ∧ x24 ≤ 255) (h25 : 0 ≤ x25 ∧ x25 ≤ 255) (h26 : 0 ≤ x26 ∧ x26 ≤ 255) (h27 : 0 ≤ x27 ∧ x27 ≤ 255) (h28 : 0 ≤ x28 ∧ x28 ≤ 255) (h29 : 0 ≤ x29 ∧ x29 ≤ 255) (h30 : 0 ≤ x30 ∧ x30 ≤ 255) (h31 : 0 ≤ x31 ∧ x31 ≤ 255) :
    val26Z (from_bytes_fn x0 x1 x2 x3 x4 x5 x6 x7 x8 x9 x10 x11 x12 x13 x14 x15 x16 x17 x18 x19 x20 x21 x22 x23 x24 x25 x26 x27 x28 x29 x30 x31) = leValZ [x0, x1, x2, x3, x4, x5, x6, x7, x8, x9, x10, x11, x12, x13, x14, x15, x16, x17, x18, x19, x20, x21, x22, x23, x24, x25, x26, x27, x28, x29, x30, x31] % 2 ^ 255 := by
  rw [from_bytes_fn_eq x0 x1 x2 x3 x4 x5 x6 x7 x8 x9 x10 x11 x12 x13 x14 x15 x16 x17 x18 x19 x20 x21 x22 x23 x24 x25 x26 x27 x28 x29 x30 x31 h0 h1 h2 h3 h4 h5 h6 h7 h8 h9 h10 h11 h12 h13 h14 h15 h16 h17 h18 h19 h20 h21 h22 h23 h24 h25 h26 h27 h28 h29 h30 h31]
  simp only [val26Z, List.getD_cons_zero, List.getD_cons_succ]
  have h := digits26 (leValZ [x0, x1, x2, x3, x4, x5, x6, x7, x8, x9, x10, x11, x12, x13, x14, x15, x16, x17, x18, x19, x20, x21, x22, x23, x24, x25, x26, x27, x28, x29, x30, x31] % 2 ^ 255)
  rw [Int.emod_emod_of_dvd _ (dvd_refl _)] at h
  simpa only [pow_zero, Int.ediv_one] using h

/-- the limbs returned by `from_bytes_fn` are reduced: even limbs `< 2^26`, odd limbs `< 2^25` -/
theorem from_bytes_fn_bounds (x0 x1 x2 x3 x4 x5 x6 x7 x8 x9 x10 x11 x12 x13 x14 x15 x16 x17 x18 x19 x20 x21 x22 x23 x24 x25 x26 x27 x28 x29 x30 x31 : Int)
    (h0 : 0 ≤ x0 ∧ x0 ≤ 255) (h1 : 0 ≤ x1 ∧ x1 ≤ 255) (h2 : 0 ≤ x2 ∧ x2 ≤ 255) (h3 : 0 ≤ x3 ∧ x3 ≤ 255) (h4 : 0 ≤ x4 ∧ x4 ≤ 255) (h5 : 0 ≤ x5 ∧ x5 ≤ 255) (h6 : 0 ≤ x6 ∧ x6 ≤ 255) (h7 : 0 ≤ x7 ∧ x7 ≤ 255) (h8 : 0 ≤ x8 ∧ x8 ≤ 255) (h9 : 0 ≤ x9 ∧ x9 ≤ 255) (h10 : 0 ≤ x10 ∧ x10 ≤ 255) (h11 : 0 ≤ x11 ∧ x11 ≤ 255) (h12 : 0 ≤ x12 ∧ x12 ≤ 255) (h13 : 0 ≤ x13 ∧ x13 ≤ 255) (h14 : 0 ≤ x14 ∧ x14 ≤ 255) (h15 : 0 ≤ x15 ∧ x15 ≤ 255) (h16 : 0 ≤ x16 ∧ x16 ≤ 255) (h17 : 0 ≤ x17 ∧ x17 ≤ 255) (h18 : 0 ≤ x18 ∧ x18 ≤ 255) (h19 : 0 ≤ x19 ∧ x19 ≤ 255) (h20 : 0 ≤ x20 ∧ x20 ≤ 255) (h21 : 0 ≤ x21 ∧ x21 ≤ 255) (h22 : 0 ≤ x22 ∧ x22 ≤ 255) (h23 : 0 ≤ x23 ∧ x23 ≤ 255) (h24 : 0 ≤ x24 ∧ x24 ≤ 255) (h25 : 0 ≤ x25 ∧ x25 ≤ 255) (h26 : 0 ≤ x26 ∧ x26 ≤ 255) (h27 : 0 ≤ x27 ∧ x27 ≤ 255) (h28 : 0 ≤ x28 ∧ x28 ≤ 255) (h29 : 0 ≤ x29 ∧ x29 ≤ 255) (h30 : 0 ≤ x30 ∧ x30 ≤ 255) (h31 : 0 ≤ x31 ∧ x31 ≤ 255) :
    ∀ l ∈ (from_bytes_fn x0 x1 x2 x3 x4 x5 x6 x7 x8 x9 x10 x11 x12 x13 x14 x15 x16 x17 x18 x19 x20 x21 x22 x23 x24 x25 x26 x27 x28 x29 x30 x31).zip [(2 : Int) ^ 26, 2 ^ 25, 2 ^ 26, 2 ^ 25, 2 ^ 26, 2 ^ 25, 2 ^ 26, 2 ^ 25, 2 ^ 26, 2 ^ 25], 0 ≤ l.1 ∧ l.1 < l.2 := by
  rw [from_bytes_fn_eq x0 x1 x2 x3 x4 x5 x6 x7 x8 x9 x10 x11 x12 x13 x14 x15 x16 x17 x18 x19 x20 x21 x22 x23 x24 x25 x26 x27 x28 x29 x30 x31 h0 h1 h2 h3 h4 h5 h6 h7 h8 h9 h10 h11 h12 h13 h14 h15 h16 h17 h18 h19 h20 h21 h22 h23 h24 h25 h26 h27 h28 h29 h30 h31]
  intro l hl
  simp only [List.zip_cons_cons, List.zip_nil_right, List.mem_cons, List.not_mem_nil, or_false] at hl
  rcases hl with rfl|rfl|rfl|rfl|rfl|rfl|rfl|rfl|rfl|rfl <;> exact ⟨Int.emod_nonneg _ (by norm_num), Int.emod_lt_of_pos _ (by norm_num)⟩

/-! ### `as_bytes`: hand model -/

/-- the final bit arrangement of `fiat_25519_to_bytes`: limbs 0..4 (bits 0..127) go to bytes 0..15, limbs 5..9 (bits
128..254) to bytes 16..31; a limb is shifted to its bit offset inside the current byte, the leftover bits of the previous
limb are added, and bytes are peeled off by `% 2^8`, `/ 2^8`. -/
def packFiat26 (f0 f1 f2 f3 f4 f5 f6 f7 f8 f9 : Int) : List Int :=
  let u1 := f1 * 4 + f0 / 2 ^ 8 / 2 ^ 8 / 2 ^ 8
  let u2 := f2 * 8 + u1 / 2 ^ 8 / 2 ^ 8 / 2 ^ 8
  let u3 := f3 * 32 + u2 / 2 ^ 8 / 2 ^ 8 / 2 ^ 8
  let u4 := f4 * 64 + u3 / 2 ^ 8 / 2 ^ 8 / 2 ^ 8
  let v6 := f6 * 2 + f5 / 2 ^ 8 / 2 ^ 8 / 2 ^ 8
  let v7 := f7 * 8 + v6 / 2 ^ 8 / 2 ^ 8 / 2 ^ 8
  let v8 := f8 * 16 + v7 / 2 ^ 8 / 2 ^ 8 / 2 ^ 8
  let v9 := f9 * 64 + v8 / 2 ^ 8 / 2 ^ 8 / 2 ^ 8
  [f0 % 2 ^ 8, f0 / 2 ^ 8 % 2 ^ 8, f0 / 2 ^ 8 / 2 ^ 8 % 2 ^ 8,
   u1 % 2 ^ 8, u1 / 2 ^ 8 % 2 ^ 8, u1 / 2 ^ 8 / 2 ^ 8 % 2 ^ 8,
   u2 % 2 ^ 8, u2 / 2 ^ 8 % 2 ^ 8, u2 / 2 ^ 8 / 2 ^ 8 % 2 ^ 8,
   u3 % 2 ^ 8, u3 / 2 ^ 8 % 2 ^ 8, u3 / 2 ^ 8 / 2 ^ 8 % 2 ^ 8,
   u4 % 2 ^ 8, u4 / 2 ^ 8 % 2 ^ 8, u4 / 2 ^ 8 / 2 ^ 8 % 2 ^ 8, u4 / 2 ^ 8 / 2 ^ 8 / 2 ^ 8,
   f5 % 2 ^ 8, f5 / 2 ^ 8 % 2 ^ 8, f5 / 2 ^ 8 / 2 ^ 8 % 2 ^ 8,
   v6 % 2 ^ 8, v6 / 2 ^ 8 % 2 ^ 8, v6 / 2 ^ 8 / 2 ^ 8 % 2 ^ 8,
   v7 % 2 ^ 8, v7 / 2 ^ 8 % 2 ^ 8, v7 / 2 ^ 8 / 2 ^ 8 % 2 ^ 8,
   v8 % 2 ^ 8, v8 / 2 ^ 8 % 2 ^ 8, v8 / 2 ^ 8 / 2 ^ 8 % 2 ^ 8,
   v9 % 2 ^ 8, v9 / 2 ^ 8 % 2 ^ 8, v9 / 2 ^ 8 / 2 ^ 8 % 2 ^ 8, v9 / 2 ^ 8 / 2 ^ 8 / 2 ^ 8]

/-- hand model of `FieldElement2625::as_bytes` of the fiat-u32 backend (= `fiat_25519_to_bytes`) over ideal integers.
`p = 2^255 - 19` has the limbs `2^26 - 19, 2^25 - 1, 2^26 - 1, 2^25 - 1, …`. -/
def asBytesFiat26 (a0 a1 a2 a3 a4 a5 a6 a7 a8 a9 : Int) : List Int :=
  -- `D = A - p` limb-wise in wrapping u32 arithmetic; `w_i` = the borrow = the sign bit (bit 31) of the difference
  let d0 := (a0 - 67108845) % 2 ^ 32
  let s0 := d0 % 2 ^ 26
  let w0 := d0 / 2 ^ 31
  let d1 := ((a1 - w0) % 2 ^ 32 - 33554431) % 2 ^ 32
  let s1 := d1 % 2 ^ 25
  let w1 := d1 / 2 ^ 31
  let d2 := ((a2 - w1) % 2 ^ 32 - 67108863) % 2 ^ 32
  let s2 := d2 % 2 ^ 26
  let w2 := d2 / 2 ^ 31
  let d3 := ((a3 - w2) % 2 ^ 32 - 33554431) % 2 ^ 32
  let s3 := d3 % 2 ^ 25
  let w3 := d3 / 2 ^ 31
  let d4 := ((a4 - w3) % 2 ^ 32 - 67108863) % 2 ^ 32
  let s4 := d4 % 2 ^ 26
  let w4 := d4 / 2 ^ 31
  let d5 := ((a5 - w4) % 2 ^ 32 - 33554431) % 2 ^ 32
  let s5 := d5 % 2 ^ 25
  let w5 := d5 / 2 ^ 31
  let d6 := ((a6 - w5) % 2 ^ 32 - 67108863) % 2 ^ 32
  let s6 := d6 % 2 ^ 26
  let w6 := d6 / 2 ^ 31
  let d7 := ((a7 - w6) % 2 ^ 32 - 33554431) % 2 ^ 32
  let s7 := d7 % 2 ^ 25
  let w7 := d7 / 2 ^ 31
  let d8 := ((a8 - w7) % 2 ^ 32 - 67108863) % 2 ^ 32
  let s8 := d8 % 2 ^ 26
  let w8 := d8 / 2 ^ 31
  let d9 := ((a9 - w8) % 2 ^ 32 - 33554431) % 2 ^ 32
  let s9 := d9 % 2 ^ 25
  let w9 := d9 / 2 ^ 31
  -- add `p` back iff the subtraction borrowed (constant-time mask), with a carry chain; the last carry is dropped
  let m0 := if w9 = 0 then (0 : Int) else 67108845
  let mE := if w9 = 0 then (0 : Int) else 67108863
  let mO := if w9 = 0 then (0 : Int) else 33554431
  let t0 := s0 + m0
  let f0 := t0 % 2 ^ 26
  let c0 := t0 / 2 ^ 26
  let t1 := c0 + s1 + mO
  let f1 := t1 % 2 ^ 25
  let c1 := t1 / 2 ^ 25
  let t2 := c1 + s2 + mE
  let f2 := t2 % 2 ^ 26
  let c2 := t2 / 2 ^ 26
  let t3 := c2 + s3 + mO
  let f3 := t3 % 2 ^ 25
  let c3 := t3 / 2 ^ 25
  let t4 := c3 + s4 + mE
  let f4 := t4 % 2 ^ 26
  let c4 := t4 / 2 ^ 26
  let t5 := c4 + s5 + mO
  let f5 := t5 % 2 ^ 25
  let c5 := t5 / 2 ^ 25
  let t6 := c5 + s6 + mE
  let f6 := t6 % 2 ^ 26
  let c6 := t6 / 2 ^ 26
  let t7 := c6 + s7 + mO
  let f7 := t7 % 2 ^ 25
  let c7 := t7 / 2 ^ 25
  let t8 := c7 + s8 + mE
  let f8 := t8 % 2 ^ 26
  let c8 := t8 / 2 ^ 26
  let t9 := c8 + s9 + mO
  let f9 := t9 % 2 ^ 25
  packFiat26 f0 f1 f2 f3 f4 f5 f6 f7 f8 f9

set_option maxHeartbeats 16000000 in
/-- the generated normal form and the hand model are the same integer function.  Normalising script: inline all `let`s on
both sides, then either the cheap normal form (`x - 0 = x`, `0 + x = x`) already makes the two sides identical (a few
seconds), or the full commutative-ring normal form of every byte is compared (`ring_nf` over the whole list in ONE call so
that shared subterms are normalised once; a few minutes).  Neither refers to the shape of the generated code. -/
theorem as_bytes_fn_eq_model (a0 a1 a2 a3 a4 a5 a6 a7 a8 a9 : Int) :
    as_bytes_fn a0 a1 a2 a3 a4 a5 a6 a7 a8 a9 = asBytesFiat26 a0 a1 a2 a3 a4 a5 a6 a7 a8 a9 := by
  unfold as_bytes_fn asBytesFiat26 packFiat26
  first
    | (simp only [sub_zero, zero_add]; done)
    | ring_nf

/-! ### `as_bytes`: stage lemmas -/

/-- first step of the borrow chain (limb 0 of `p` is `2^26 - 19`) -/
theorem borrow0 (a d s w : Int) (ha : 0 ≤ a ∧ a ≤ 2 ^ 26)
    (ed : d = (a - 67108845) % 2 ^ 32) (es : s = d % 2 ^ 26) (ew : w = d / 2 ^ 31) :
    (0 ≤ s ∧ s < 2 ^ 26) ∧ (0 ≤ w ∧ w ≤ 1) ∧ a - 67108845 = s - 2 ^ 26 * w := by
  omega

/-- a step of the borrow chain at an even (26-bit) limb -/
theorem borrowE (a b d s w : Int) (ha : 0 ≤ a ∧ a ≤ 2 ^ 26) (hb : 0 ≤ b ∧ b ≤ 1)
    (ed : d = ((a - b) % 2 ^ 32 - 67108863) % 2 ^ 32) (es : s = d % 2 ^ 26) (ew : w = d / 2 ^ 31) :
    (0 ≤ s ∧ s < 2 ^ 26) ∧ (0 ≤ w ∧ w ≤ 1) ∧ a - b - 67108863 = s - 2 ^ 26 * w := by
  omega

/-- a step of the borrow chain at an odd (25-bit) limb -/
theorem borrowO (a b d s w : Int) (ha : 0 ≤ a ∧ a ≤ 2 ^ 25) (hb : 0 ≤ b ∧ b ≤ 1)
    (ed : d = ((a - b) % 2 ^ 32 - 33554431) % 2 ^ 32) (es : s = d % 2 ^ 25) (ew : w = d / 2 ^ 31) :
    (0 ≤ s ∧ s < 2 ^ 25) ∧ (0 ≤ w ∧ w ≤ 1) ∧ a - b - 33554431 = s - 2 ^ 25 * w := by
  omega

/-- **borrow chain**: the limbs `s_i` are reduced and `Σ s_i 2^e_i = A - p + 2^255 w`, `w` the final borrow -/
theorem subP_chain (a0 a1 a2 a3 a4 a5 a6 a7 a8 a9 d0 d1 d2 d3 d4 d5 d6 d7 d8 d9 s0 s1 s2 s3 s4 s5 s6 s7 s8 s9 w0 w1 w2 w3 w4 w5 w6 w7 w8 w9 : Int)
    (ha0 : 0 ≤ a0 ∧ a0 ≤ 2 ^ 26) (ha1 : 0 ≤ a1 ∧ a1 ≤ 2 ^ 25) (ha2 : 0 ≤ a2 ∧ a2 ≤ 2 ^ 26) (ha3 : 0 ≤ a3 ∧ a3 ≤ 2 ^ 25) (ha4 : 0 ≤ a4 ∧ a4 ≤ 2 ^ 26) (ha5 : 0 ≤ a5 ∧ a5 ≤ 2 ^ 25) (ha6 : 0 ≤ a6 ∧ a6 ≤ 2 ^ 26) (ha7 : 0 ≤ a7 ∧ a7 ≤ 2 ^ 25) (ha8 : 0 ≤ a8 ∧ a8 ≤ 2 ^ 26) (ha9 : 0 ≤ a9 ∧ a9 ≤ 2 ^ 25)
    (ed0 : d0 = (a0 - 67108845) % 2 ^ 32) (ed1 : d1 = ((a1 - w0) % 2 ^ 32 - 33554431) % 2 ^ 32) (ed2 : d2 = ((a2 - w1) % 2 ^ 32 - 67108863) % 2 ^ 32) (ed3 : d3 = ((a3 - w2) % 2 ^ 32 - 33554431) % 2 ^ 32) (ed4 : d4 = ((a4 - w3) % 2 ^ 32 - 67108863) % 2 ^ 32) (ed5 : d5 = ((a5 - w4) % 2 ^ 32 - 33554431) % 2 ^ 32) (ed6 : d6 = ((a6 - w5) % 2 ^ 32 - 67108863) % 2 ^ 32) (ed7 : d7 = ((a7 - w6) % 2 ^ 32 - 33554431) % 2 ^ 32) (ed8 : d8 = ((a8 - w7) % 2 ^ 32 - 67108863) % 2 ^ 32) (ed9 : d9 = ((a9 - w8) % 2 ^ 32 - 33554431) % 2 ^ 32)
    (es0 : s0 = d0 % 2 ^ 26) (es1 : s1 = d1 % 2 ^ 25) (es2 : s2 = d2 % 2 ^ 26) (es3 : s3 = d3 % 2 ^ 25) (es4 : s4 = d4 % 2 ^ 26) (es5 : s5 = d5 % 2 ^ 25) (es6 : s6 = d6 % 2 ^ 26) (es7 : s7 = d7 % 2 ^ 25) (es8 : s8 = d8 % 2 ^ 26) (es9 : s9 = d9 % 2 ^ 25)
    (ew0 : w0 = d0 / 2 ^ 31) (ew1 : w1 = d1 / 2 ^ 31) (ew2 : w2 = d2 / 2 ^ 31) (ew3 : w3 = d3 / 2 ^ 31) (ew4 : w4 = d4 / 2 ^ 31) (ew5 : w5 = d5 / 2 ^ 31) (ew6 : w6 = d6 / 2 ^ 31) (ew7 : w7 = d7 / 2 ^ 31) (ew8 : w8 = d8 / 2 ^ 31) (ew9 : w9 = d9 / 2 ^ 31) :
    ((0 ≤ s0 ∧ s0 < 2 ^ 26) ∧ (0 ≤ s1 ∧ s1 < 2 ^ 25) ∧ (0 ≤ s2 ∧ s2 < 2 ^ 26) ∧ (0 ≤ s3 ∧ s3 < 2 ^ 25) ∧ (0 ≤ s4 ∧ s4 < 2 ^ 26) ∧ (0 ≤ s5 ∧ s5 < 2 ^ 25) ∧ (0 ≤ s6 ∧ s6 < 2 ^ 26) ∧ (0 ≤ s7 ∧ s7 < 2 ^ 25) ∧ (0 ≤ s8 ∧ s8 < 2 ^ 26) ∧ (0 ≤ s9 ∧ s9 < 2 ^ 25)) ∧ (0 ≤ w9 ∧ w9 ≤ 1) ∧
    s0 + 2 ^ 26 * s1 + 2 ^ 51 * s2 + 2 ^ 77 * s3 + 2 ^ 102 * s4 + 2 ^ 128 * s5 + 2 ^ 153 * s6 + 2 ^ 179 * s7 + 2 ^ 204 * s8 + 2 ^ 230 * s9
      = a0 + 2 ^ 26 * a1 + 2 ^ 51 * a2 + 2 ^ 77 * a3 + 2 ^ 102 * a4 + 2 ^ 128 * a5 + 2 ^ 153 * a6 + 2 ^ 179 * a7 + 2 ^ 204 * a8 + 2 ^ 230 * a9 - (2 ^ 255 - 19) + 2 ^ 255 * w9 := by
  obtain ⟨bs0, bw0, e0⟩ := borrow0 a0 d0 s0 w0 ha0 ed0 es0 ew0
  obtain ⟨bs1, bw1, e1⟩ := borrowO a1 w0 d1 s1 w1 ha1 bw0 ed1 es1 ew1
  obtain ⟨bs2, bw2, e2⟩ := borrowE a2 w1 d2 s2 w2 ha2 bw1 ed2 es2 ew2
  obtain ⟨bs3, bw3, e3⟩ := borrowO a3 w2 d3 s3 w3 ha3 bw2 ed3 es3 ew3
  obtain ⟨bs4, bw4, e4⟩ := borrowE a4 w3 d4 s4 w4 ha4 bw3 ed4 es4 ew4
  obtain ⟨bs5, bw5, e5⟩ := borrowO a5 w4 d5 s5 w5 ha5 bw4 ed5 es5 ew5
  obtain ⟨bs6, bw6, e6⟩ := borrowE a6 w5 d6 s6 w6 ha6 bw5 ed6 es6 ew6
  obtain ⟨bs7, bw7, e7⟩ := borrowO a7 w6 d7 s7 w7 ha7 bw6 ed7 es7 ew7
  obtain ⟨bs8, bw8, e8⟩ := borrowE a8 w7 d8 s8 w8 ha8 bw7 ed8 es8 ew8
  obtain ⟨bs9, bw9, e9⟩ := borrowO a9 w8 d9 s9 w9 ha9 bw8 ed9 es9 ew9
  refine ⟨⟨bs0, bs1, bs2, bs3, bs4, bs5, bs6, bs7, bs8, bs9⟩, bw9, ?_⟩
  omega

/-- first step of the add-back chain -/
theorem addback0 (s w t f c : Int) (hs : 0 ≤ s ∧ s < 2 ^ 26) (hw : 0 ≤ w ∧ w ≤ 1)
    (et : t = s + 67108845 * w) (ef : f = t % 2 ^ 26) (ec : c = t / 2 ^ 26) :
    (0 ≤ f ∧ f < 2 ^ 26) ∧ (0 ≤ c ∧ c ≤ 1) ∧ t = f + 2 ^ 26 * c := by
  omega

/-- a step of the add-back chain at an even limb -/
theorem addbackE (b s w t f c : Int) (hb : 0 ≤ b ∧ b ≤ 1) (hs : 0 ≤ s ∧ s < 2 ^ 26) (hw : 0 ≤ w ∧ w ≤ 1)
    (et : t = b + s + 67108863 * w) (ef : f = t % 2 ^ 26) (ec : c = t / 2 ^ 26) :
    (0 ≤ f ∧ f < 2 ^ 26) ∧ (0 ≤ c ∧ c ≤ 1) ∧ t = f + 2 ^ 26 * c := by
  omega

/-- a step of the add-back chain at an odd limb -/
theorem addbackO (b s w t f c : Int) (hb : 0 ≤ b ∧ b ≤ 1) (hs : 0 ≤ s ∧ s < 2 ^ 25) (hw : 0 ≤ w ∧ w ≤ 1)
    (et : t = b + s + 33554431 * w) (ef : f = t % 2 ^ 25) (ec : c = t / 2 ^ 25) :
    (0 ≤ f ∧ f < 2 ^ 25) ∧ (0 ≤ c ∧ c ≤ 1) ∧ t = f + 2 ^ 25 * c := by
  omega

/-- **add-back chain**: the limbs `f_i` are reduced and `Σ f_i 2^e_i + 2^255 c = S + p w`, `c` the (dropped) last carry -/
theorem addP_chain (s0 s1 s2 s3 s4 s5 s6 s7 s8 s9 w t0 t1 t2 t3 t4 t5 t6 t7 t8 t9 f0 f1 f2 f3 f4 f5 f6 f7 f8 f9 c0 c1 c2 c3 c4 c5 c6 c7 c8 c9 : Int)
    (hs0 : 0 ≤ s0 ∧ s0 < 2 ^ 26) (hs1 : 0 ≤ s1 ∧ s1 < 2 ^ 25) (hs2 : 0 ≤ s2 ∧ s2 < 2 ^ 26) (hs3 : 0 ≤ s3 ∧ s3 < 2 ^ 25) (hs4 : 0 ≤ s4 ∧ s4 < 2 ^ 26) (hs5 : 0 ≤ s5 ∧ s5 < 2 ^ 25) (hs6 : 0 ≤ s6 ∧ s6 < 2 ^ 26) (hs7 : 0 ≤ s7 ∧ s7 < 2 ^ 25) (hs8 : 0 ≤ s8 ∧ s8 < 2 ^ 26) (hs9 : 0 ≤ s9 ∧ s9 < 2 ^ 25) (hw : 0 ≤ w ∧ w ≤ 1)
    (et0 : t0 = s0 + 67108845 * w) (et1 : t1 = c0 + s1 + 33554431 * w) (et2 : t2 = c1 + s2 + 67108863 * w) (et3 : t3 = c2 + s3 + 33554431 * w) (et4 : t4 = c3 + s4 + 67108863 * w) (et5 : t5 = c4 + s5 + 33554431 * w) (et6 : t6 = c5 + s6 + 67108863 * w) (et7 : t7 = c6 + s7 + 33554431 * w) (et8 : t8 = c7 + s8 + 67108863 * w) (et9 : t9 = c8 + s9 + 33554431 * w)
    (ef0 : f0 = t0 % 2 ^ 26) (ef1 : f1 = t1 % 2 ^ 25) (ef2 : f2 = t2 % 2 ^ 26) (ef3 : f3 = t3 % 2 ^ 25) (ef4 : f4 = t4 % 2 ^ 26) (ef5 : f5 = t5 % 2 ^ 25) (ef6 : f6 = t6 % 2 ^ 26) (ef7 : f7 = t7 % 2 ^ 25) (ef8 : f8 = t8 % 2 ^ 26) (ef9 : f9 = t9 % 2 ^ 25)
    (ec0 : c0 = t0 / 2 ^ 26) (ec1 : c1 = t1 / 2 ^ 25) (ec2 : c2 = t2 / 2 ^ 26) (ec3 : c3 = t3 / 2 ^ 25) (ec4 : c4 = t4 / 2 ^ 26) (ec5 : c5 = t5 / 2 ^ 25) (ec6 : c6 = t6 / 2 ^ 26) (ec7 : c7 = t7 / 2 ^ 25) (ec8 : c8 = t8 / 2 ^ 26) (ec9 : c9 = t9 / 2 ^ 25) :
    ((0 ≤ f0 ∧ f0 < 2 ^ 26) ∧ (0 ≤ f1 ∧ f1 < 2 ^ 25) ∧ (0 ≤ f2 ∧ f2 < 2 ^ 26) ∧ (0 ≤ f3 ∧ f3 < 2 ^ 25) ∧ (0 ≤ f4 ∧ f4 < 2 ^ 26) ∧ (0 ≤ f5 ∧ f5 < 2 ^ 25) ∧ (0 ≤ f6 ∧ f6 < 2 ^ 26) ∧ (0 ≤ f7 ∧ f7 < 2 ^ 25) ∧ (0 ≤ f8 ∧ f8 < 2 ^ 26) ∧ (0 ≤ f9 ∧ f9 < 2 ^ 25)) ∧ (0 ≤ c9 ∧ c9 ≤ 1) ∧
    f0 + 2 ^ 26 * f1 + 2 ^ 51 * f2 + 2 ^ 77 * f3 + 2 ^ 102 * f4 + 2 ^ 128 * f5 + 2 ^ 153 * f6 + 2 ^ 179 * f7 + 2 ^ 204 * f8 + 2 ^ 230 * f9 + 2 ^ 255 * c9
      = s0 + 2 ^ 26 * s1 + 2 ^ 51 * s2 + 2 ^ 77 * s3 + 2 ^ 102 * s4 + 2 ^ 128 * s5 + 2 ^ 153 * s6 + 2 ^ 179 * s7 + 2 ^ 204 * s8 + 2 ^ 230 * s9 + (2 ^ 255 - 19) * w := by
  obtain ⟨bf0, bc0, e0⟩ := addback0 s0 w t0 f0 c0 hs0 hw et0 ef0 ec0
  obtain ⟨bf1, bc1, e1⟩ := addbackO c0 s1 w t1 f1 c1 bc0 hs1 hw et1 ef1 ec1
  obtain ⟨bf2, bc2, e2⟩ := addbackE c1 s2 w t2 f2 c2 bc1 hs2 hw et2 ef2 ec2
  obtain ⟨bf3, bc3, e3⟩ := addbackO c2 s3 w t3 f3 c3 bc2 hs3 hw et3 ef3 ec3
  obtain ⟨bf4, bc4, e4⟩ := addbackE c3 s4 w t4 f4 c4 bc3 hs4 hw et4 ef4 ec4
  obtain ⟨bf5, bc5, e5⟩ := addbackO c4 s5 w t5 f5 c5 bc4 hs5 hw et5 ef5 ec5
  obtain ⟨bf6, bc6, e6⟩ := addbackE c5 s6 w t6 f6 c6 bc5 hs6 hw et6 ef6 ec6
  obtain ⟨bf7, bc7, e7⟩ := addbackO c6 s7 w t7 f7 c7 bc6 hs7 hw et7 ef7 ec7
  obtain ⟨bf8, bc8, e8⟩ := addbackE c7 s8 w t8 f8 c8 bc7 hs8 hw et8 ef8 ec8
  obtain ⟨bf9, bc9, e9⟩ := addbackO c8 s9 w t9 f9 c9 bc8 hs9 hw et9 ef9 ec9
  refine ⟨⟨bf0, bf1, bf2, bf3, bf4, bf5, bf6, bf7, bf8, bf9⟩, bc9, ?_⟩
  omega

/-- the arithmetic heart: subtract `p` with final borrow `w`, add `w p` back dropping the carry `c`: the result is `A mod p`
for every `0 ≤ A < 2 p` -/
theorem final_abs (F A S w c : Int) (eS : S = A - (2 ^ 255 - 19) + 2 ^ 255 * w) (eF : F + 2 ^ 255 * c = S + (2 ^ 255 - 19) * w)
    (Sb : 0 ≤ S ∧ S < 2 ^ 255) (Fb : 0 ≤ F ∧ F < 2 ^ 255) (Ab : 0 ≤ A ∧ A < 2 * (2 ^ 255 - 19))
    (hw : 0 ≤ w ∧ w ≤ 1) (hc : 0 ≤ c ∧ c ≤ 1) : F = A % (2 ^ 255 - 19) := by
  have hw' : w = 0 ∨ w = 1 := by omega
  have hc' : c = 0 ∨ c = 1 := by omega
  rcases hw' with rfl | rfl <;> rcases hc' with rfl | rfl <;> omega

/-- ten reduced limbs represent a number below `2^255` -/
theorem val_lt (f0 f1 f2 f3 f4 f5 f6 f7 f8 f9 : Int)
    (b0 : 0 ≤ f0 ∧ f0 < 2 ^ 26) (b1 : 0 ≤ f1 ∧ f1 < 2 ^ 25) (b2 : 0 ≤ f2 ∧ f2 < 2 ^ 26) (b3 : 0 ≤ f3 ∧ f3 < 2 ^ 25) (b4 : 0 ≤ f4 ∧ f4 < 2 ^ 26) (b5 : 0 ≤ f5 ∧ f5 < 2 ^ 25) (b6 : 0 ≤ f6 ∧ f6 < 2 ^ 26) (b7 : 0 ≤ f7 ∧ f7 < 2 ^ 25) (b8 : 0 ≤ f8 ∧ f8 < 2 ^ 26) (b9 : 0 ≤ f9 ∧ f9 < 2 ^ 25) :
    0 ≤ f0 + 2 ^ 26 * f1 + 2 ^ 51 * f2 + 2 ^ 77 * f3 + 2 ^ 102 * f4 + 2 ^ 128 * f5 + 2 ^ 153 * f6 + 2 ^ 179 * f7 + 2 ^ 204 * f8 + 2 ^ 230 * f9 ∧
    f0 + 2 ^ 26 * f1 + 2 ^ 51 * f2 + 2 ^ 77 * f3 + 2 ^ 102 * f4 + 2 ^ 128 * f5 + 2 ^ 153 * f6 + 2 ^ 179 * f7 + 2 ^ 204 * f8 + 2 ^ 230 * f9 < 2 ^ 255 := by
  omega

/-- ten limbs inside fiat's tight bounds represent a number below `2 p` -/
theorem tight_lt (a0 a1 a2 a3 a4 a5 a6 a7 a8 a9 : Int)
    (ha0 : 0 ≤ a0 ∧ a0 ≤ 2 ^ 26) (ha1 : 0 ≤ a1 ∧ a1 ≤ 2 ^ 25) (ha2 : 0 ≤ a2 ∧ a2 ≤ 2 ^ 26) (ha3 : 0 ≤ a3 ∧ a3 ≤ 2 ^ 25) (ha4 : 0 ≤ a4 ∧ a4 ≤ 2 ^ 26) (ha5 : 0 ≤ a5 ∧ a5 ≤ 2 ^ 25) (ha6 : 0 ≤ a6 ∧ a6 ≤ 2 ^ 26) (ha7 : 0 ≤ a7 ∧ a7 ≤ 2 ^ 25) (ha8 : 0 ≤ a8 ∧ a8 ≤ 2 ^ 26) (ha9 : 0 ≤ a9 ∧ a9 ≤ 2 ^ 25) :
    0 ≤ a0 + 2 ^ 26 * a1 + 2 ^ 51 * a2 + 2 ^ 77 * a3 + 2 ^ 102 * a4 + 2 ^ 128 * a5 + 2 ^ 153 * a6 + 2 ^ 179 * a7 + 2 ^ 204 * a8 + 2 ^ 230 * a9 ∧
    a0 + 2 ^ 26 * a1 + 2 ^ 51 * a2 + 2 ^ 77 * a3 + 2 ^ 102 * a4 + 2 ^ 128 * a5 + 2 ^ 153 * a6 + 2 ^ 179 * a7 + 2 ^ 204 * a8 + 2 ^ 230 * a9 < 2 * (2 ^ 255 - 19) := by
  omega

/-- the constant-time mask `if borrow = 0 then 0 else m` is `m * borrow` for a borrow bit -/
theorem ite_mask (w m : Int) (hw : 0 ≤ w ∧ w ≤ 1) : (if w = 0 then (0 : Int) else m) = m * w := by
  have hw' : w = 0 ∨ w = 1 := by omega
  rcases hw' with rfl | rfl <;> simp

set_option maxHeartbeats 4000000 in
/-- packing: the little-endian value of the 32 bytes is the value of the ten limbs -/
theorem packFiat26_val (f0 f1 f2 f3 f4 f5 f6 f7 f8 f9 : Int)
    (b0 : 0 ≤ f0 ∧ f0 < 2 ^ 26) (b1 : 0 ≤ f1 ∧ f1 < 2 ^ 25) (b2 : 0 ≤ f2 ∧ f2 < 2 ^ 26) (b3 : 0 ≤ f3 ∧ f3 < 2 ^ 25) (b4 : 0 ≤ f4 ∧ f4 < 2 ^ 26) (b5 : 0 ≤ f5 ∧ f5 < 2 ^ 25) (b6 : 0 ≤ f6 ∧ f6 < 2 ^ 26) (b7 : 0 ≤ f7 ∧ f7 < 2 ^ 25) (b8 : 0 ≤ f8 ∧ f8 < 2 ^ 26) (b9 : 0 ≤ f9 ∧ f9 < 2 ^ 25) :
    leValZ (packFiat26 f0 f1 f2 f3 f4 f5 f6 f7 f8 f9) = f0 + 2 ^ 26 * f1 + 2 ^ 51 * f2 + 2 ^ 77 * f3 + 2 ^ 102 * f4 + 2 ^ 128 * f5 + 2 ^ 153 * f6 + 2 ^ 179 * f7 + 2 ^ 204 * f8 + 2 ^ 230 * f9 := by
  simp only [packFiat26, leValZ]
  omega

theorem packFiat26_bytes (f0 f1 f2 f3 f4 f5 f6 f7 f8 f9 : Int)
    (b0 : 0 ≤ f0 ∧ f0 < 2 ^ 26) (b1 : 0 ≤ f1 ∧ f1 < 2 ^ 25) (b2 : 0 ≤ f2 ∧ f2 < 2 ^ 26) (b3 : 0 ≤ f3 ∧ f3 < 2 ^ 25) (b4 : 0 ≤ f4 ∧ f4 < 2 ^ 26) (b5 : 0 ≤ f5 ∧ f5 < 2 ^ 25) (b6 : 0 ≤ f6 ∧ f6 < 2 ^ 26) (b7 : 0 ≤ f7 ∧ f7 < 2 ^ 25) (b8 : 0 ≤ f8 ∧ f8 < 2 ^ 26) (b9 : 0 ≤ f9 ∧ f9 < 2 ^ 25) :
    ∀ b ∈ packFiat26 f0 f1 f2 f3 f4 f5 f6 f7 f8 f9, 0 ≤ b ∧ b ≤ 255 := by
  intro b hb
  simp only [packFiat26, List.mem_cons, List.not_mem_nil, or_false] at hb
  rcases hb with rfl|rfl|rfl|rfl|rfl|rfl|rfl|rfl|rfl|rfl|rfl|rfl|rfl|rfl|rfl|rfl|rfl|rfl|rfl|rfl|rfl|rfl|rfl|rfl|rfl|rfl|rfl|rfl|rfl|rfl|rfl|rfl <;> omega

/-! ### `as_bytes`: combination -/

/-- **the hand model computes the canonical encoding**: for limbs inside fiat's tight bounds (inclusive) every output is a
byte and the little-endian value of the output is `(Σ a_i 2^⌈25.5 i⌉) mod p` -/
theorem asBytesFiat26_val (a0 a1 a2 a3 a4 a5 a6 a7 a8 a9 : Int)
    (ha0 : 0 ≤ a0 ∧ a0 ≤ 2 ^ 26) (ha1 : 0 ≤ a1 ∧ a1 ≤ 2 ^ 25) (ha2 : 0 ≤ a2 ∧ a2 ≤ 2 ^ 26) (ha3 : 0 ≤ a3 ∧ a3 ≤ 2 ^ 25) (ha4 : 0 ≤ a4 ∧ a4 ≤ 2 ^ 26) (ha5 : 0 ≤ a5 ∧ a5 ≤ 2 ^ 25) (ha6 : 0 ≤ a6 ∧ a6 ≤ 2 ^ 26) (ha7 : 0 ≤ a7 ∧ a7 ≤ 2 ^ 25) (ha8 : 0 ≤ a8 ∧ a8 ≤ 2 ^ 26) (ha9 : 0 ≤ a9 ∧ a9 ≤ 2 ^ 25) :
    (∀ b ∈ asBytesFiat26 a0 a1 a2 a3 a4 a5 a6 a7 a8 a9, 0 ≤ b ∧ b ≤ 255) ∧
    leValZ (asBytesFiat26 a0 a1 a2 a3 a4 a5 a6 a7 a8 a9) = val26Z [a0, a1, a2, a3, a4, a5, a6, a7, a8, a9] % (2 ^ 255 - 19) := by
  unfold asBytesFiat26
  extract_lets d0 s0 w0 d1 s1 w1 d2 s2 w2 d3 s3 w3 d4 s4 w4 d5 s5 w5 d6 s6 w6 d7 s7 w7 d8 s8 w8 d9 s9 w9 m0 mE mO t0 f0 c0 t1 f1 c1 t2 f2 c2 t3 f3 c3 t4 f4 c4 t5 f5 c5 t6 f6 c6 t7 f7 c7 t8 f8 c8 t9 f9
  obtain ⟨⟨bs0, bs1, bs2, bs3, bs4, bs5, bs6, bs7, bs8, bs9⟩, bw, hS⟩ :=
    subP_chain a0 a1 a2 a3 a4 a5 a6 a7 a8 a9 d0 d1 d2 d3 d4 d5 d6 d7 d8 d9 s0 s1 s2 s3 s4 s5 s6 s7 s8 s9 w0 w1 w2 w3 w4 w5 w6 w7 w8 w9 ha0 ha1 ha2 ha3 ha4 ha5 ha6 ha7 ha8 ha9
      rfl rfl rfl rfl rfl rfl rfl rfl rfl rfl rfl rfl rfl rfl rfl rfl rfl rfl rfl rfl rfl rfl rfl rfl rfl rfl rfl rfl rfl rfl
  have hm0 : m0 = 67108845 * w9 := ite_mask w9 67108845 bw
  have hmE : mE = 67108863 * w9 := ite_mask w9 67108863 bw
  have hmO : mO = 33554431 * w9 := ite_mask w9 33554431 bw
  obtain ⟨⟨bf0, bf1, bf2, bf3, bf4, bf5, bf6, bf7, bf8, bf9⟩, bc, hF⟩ :=
    addP_chain s0 s1 s2 s3 s4 s5 s6 s7 s8 s9 w9 t0 t1 t2 t3 t4 t5 t6 t7 t8 t9 f0 f1 f2 f3 f4 f5 f6 f7 f8 f9 c0 c1 c2 c3 c4 c5 c6 c7 c8 (t9 / 2 ^ 25) bs0 bs1 bs2 bs3 bs4 bs5 bs6 bs7 bs8 bs9 bw
      (hm0 ▸ rfl) (hmO ▸ rfl) (hmE ▸ rfl) (hmO ▸ rfl) (hmE ▸ rfl) (hmO ▸ rfl) (hmE ▸ rfl) (hmO ▸ rfl) (hmE ▸ rfl) (hmO ▸ rfl)
      rfl rfl rfl rfl rfl rfl rfl rfl rfl rfl rfl rfl rfl rfl rfl rfl rfl rfl rfl rfl
  refine ⟨packFiat26_bytes f0 f1 f2 f3 f4 f5 f6 f7 f8 f9 bf0 bf1 bf2 bf3 bf4 bf5 bf6 bf7 bf8 bf9, ?_⟩
  rw [packFiat26_val f0 f1 f2 f3 f4 f5 f6 f7 f8 f9 bf0 bf1 bf2 bf3 bf4 bf5 bf6 bf7 bf8 bf9]
  simp only [val26Z, List.getD_cons_zero, List.getD_cons_succ]
  exact final_abs _ _ _ w9 (t9 / 2 ^ 25) hS hF (val_lt s0 s1 s2 s3 s4 s5 s6 s7 s8 s9 bs0 bs1 bs2 bs3 bs4 bs5 bs6 bs7 bs8 bs9)
    (val_lt f0 f1 f2 f3 f4 f5 f6 f7 f8 f9 bf0 bf1 bf2 bf3 bf4 bf5 bf6 bf7 bf8 bf9) (tight_lt a0 a1 a2 a3 a4 a5 a6 a7 a8 a9 ha0 ha1 ha2 ha3 ha4 ha5 ha6 ha7 ha8 ha9) bw bc

/-- the same for the generated normal form -/
theorem as_bytes_fn_val (a0 a1 a2 a3 a4 a5 a6 a7 a8 a9 : Int)
    (ha0 : 0 ≤ a0 ∧ a0 ≤ 2 ^ 26) (ha1 : 0 ≤ a1 ∧ a1 ≤ 2 ^ 25) (ha2 : 0 ≤ a2 ∧ a2 ≤ 2 ^ 26) (ha3 : 0 ≤ a3 ∧ a3 ≤ 2 ^ 25) (ha4 : 0 ≤ a4 ∧ a4 ≤ 2 ^ 26) (ha5 : 0 ≤ a5 ∧ a5 ≤ 2 ^ 25) (ha6 : 0 ≤ a6 ∧ a6 ≤ 2 ^ 26) (ha7 : 0 ≤ a7 ∧ a7 ≤ 2 ^ 25) (ha8 : 0 ≤ a8 ∧ a8 ≤ 2 ^ 26) (ha9 : 0 ≤ a9 ∧ a9 ≤ 2 ^ 25) :
    (∀ b ∈ as_bytes_fn a0 a1 a2 a3 a4 a5 a6 a7 a8 a9, 0 ≤ b ∧ b ≤ 255) ∧
    leValZ (as_bytes_fn a0 a1 a2 a3 a4 a5 a6 a7 a8 a9) = val26Z [a0, a1, a2, a3, a4, a5, a6, a7, a8, a9] % (2 ^ 255 - 19) := by
  rw [as_bytes_fn_eq_model]
  exact asBytesFiat26_val a0 a1 a2 a3 a4 a5 a6 a7 a8 a9 ha0 ha1 ha2 ha3 ha4 ha5 ha6 ha7 ha8 ha9

end Dalek.Proofs.FiatBytes26

/-
Bridge from the EXECUTABLE specification over `Nat` (`Dalek/Spec/{Field,Scalar,Edwards}.lean`, model
`Dalek/Model/FastEdwards.lean`) to the mathematical objects: `Fp = ZMod (2^255-19)`, `Fl = ZMod ℓ`,
and the commutative group `Ed = EdPoint edParams` of the Ed25519 curve.  These theorems are what gives
kernel-evaluated checks (`decide +kernel` on `Nat`) and driver-executed model code a meaning about the
curve.  Everything lives in `namespace Dalek.Bridge`.

* `Bridge/Field.lean`   `powMod_eq`, `cast_fadd/fsub/fmul/fneg/fsq/fpow/finv`, `*_lt`, `cast_inj_of_lt`,
                        `isNeg_iff`, `isNeg_fneg`, `fabs_*`, `eq_of_sq_eq_of_even`
* `Bridge/Sqrt.lean`    `sqrtRatioM1_spec` (+ the single cases, `sqrtRatioM1_ok_iff`, `sqrtRatioM1_unique`)
* `Bridge/Bytes.lean`   `leToNat_natToLe`, `natToLe_leToNat`, `natToLe_length`, `feFromBytes_feToBytes`,
                        `leToNat_feToBytes_lt`, `feToBytes_feFromBytes`, `signBit_eq`, `signBit_setSignBit`
* `Bridge/Scalar.lean`  `cast_sadd/ssub/smul/sneg/spow/sinv`, `smul_sinv`, `cast_ssum/sprod`,
                        scalar byte codecs, `clampedNat_spec`
* `Bridge/Edwards.lean` `edParams`, `onCurve_iff`, `toEd`, `Rep`, `toEd_zero/neg/add/sub/double/smul`,
                        `rep_msm`, `rep_sum`, `onCurve_B`, `smul_eq_zero_iff`, `isSmallOrder_iff`,
                        `isTorsionFree_iff`, `decompress_some`, `decompress_none_iff`,
                        `decompress_complete`, `decompress_compress`, `compress_injective`,
                        `compress_decompress`
* `Bridge/Order.lean`   `L_nsmul_Bpt`, `addOrderOf_Bpt`, `nsmul_Bpt_eq_iff` (the basepoint has order `ℓ`)
* `Bridge/FastEdwards.lean` `ERep`, `EPt.Valid`, `erep_*`, `rep_toAffine`, `eq_iff`,
                        `toAffine_smul_ofAffine`, `toAffine_msm_ofAffine`, …
-/
import Dalek.Proofs.Bridge.Field
import Dalek.Proofs.Bridge.Sqrt
import Dalek.Proofs.Bridge.Bytes
import Dalek.Proofs.Bridge.Scalar
import Dalek.Proofs.Bridge.Edwards
import Dalek.Proofs.Bridge.FastEdwards
import Dalek.Proofs.Bridge.Order

namespace Dalek.Bridge

open Dalek.Spec Dalek.Model

/-! ### The hypotheses used throughout are satisfiable -/

/-- There is a canonical point on the curve (the basepoint), so the `onCurve`/`Canon` hypotheses of the
point theorems are satisfiable, and it round-trips through compression. -/
example : onCurve B = true ∧ Canon B ∧ decompress (compress B) = some B :=
  ⟨onCurve_B, canon_B, decompress_compress onCurve_B canon_B⟩

/-- `EPt.Valid` is inhabited. -/
example : EPt.basepoint.Valid := valid_basepoint

/-- A `decompress` failure exists (`y = 2` is not the `y` of a curve point): `decompress_none_iff`
is not vacuous in either direction. -/
example : decompress (natToLe 2 32) = none := by decide +kernel

/-! ### Axiom audit -/

/-- info: 'Dalek.Bridge.powMod_eq' depends on axioms: [propext, Classical.choice, Quot.sound] -/
#guard_msgs in #print axioms powMod_eq

/-- info: 'Dalek.Bridge.cast_finv' depends on axioms: [propext, Classical.choice, Quot.sound] -/
#guard_msgs in #print axioms cast_finv

/-- info: 'Dalek.Bridge.sqrtRatioM1_spec' depends on axioms: [propext, Classical.choice, Quot.sound] -/
#guard_msgs in #print axioms sqrtRatioM1_spec

/-- info: 'Dalek.Bridge.sqrtRatioM1_unique' depends on axioms: [propext, Classical.choice, Quot.sound] -/
#guard_msgs in #print axioms sqrtRatioM1_unique

/-- info: 'Dalek.Bridge.feFromBytes_feToBytes' depends on axioms: [propext, Classical.choice, Quot.sound] -/
#guard_msgs in #print axioms feFromBytes_feToBytes

/-- info: 'Dalek.Bridge.cast_sinv' depends on axioms: [propext, Classical.choice, Quot.sound] -/
#guard_msgs in #print axioms cast_sinv

/-- info: 'Dalek.Bridge.clampedNat_spec' depends on axioms: [propext, Classical.choice, Quot.sound] -/
#guard_msgs in #print axioms clampedNat_spec

/-- info: 'Dalek.Bridge.toEd_add' depends on axioms: [propext, Classical.choice, Quot.sound] -/
#guard_msgs in #print axioms toEd_add

/-- info: 'Dalek.Bridge.toEd_smul' depends on axioms: [propext, Classical.choice, Quot.sound] -/
#guard_msgs in #print axioms toEd_smul

/-- info: 'Dalek.Bridge.decompress_some' depends on axioms: [propext, Classical.choice, Quot.sound] -/
#guard_msgs in #print axioms decompress_some

/-- info: 'Dalek.Bridge.decompress_none_iff' depends on axioms: [propext, Classical.choice, Quot.sound] -/
#guard_msgs in #print axioms decompress_none_iff

/-- info: 'Dalek.Bridge.decompress_complete' depends on axioms: [propext, Classical.choice, Quot.sound] -/
#guard_msgs in #print axioms decompress_complete

/-- info: 'Dalek.Bridge.decompress_compress' depends on axioms: [propext, Classical.choice, Quot.sound] -/
#guard_msgs in #print axioms decompress_compress

/-- info: 'Dalek.Bridge.compress_injective' depends on axioms: [propext, Classical.choice, Quot.sound] -/
#guard_msgs in #print axioms compress_injective

/-- info: 'Dalek.Bridge.compress_decompress' depends on axioms: [propext, Classical.choice, Quot.sound] -/
#guard_msgs in #print axioms compress_decompress

/-- info: 'Dalek.Bridge.erep_add' depends on axioms: [propext, Classical.choice, Quot.sound] -/
#guard_msgs in #print axioms erep_add

/-- info: 'Dalek.Bridge.erep_double' depends on axioms: [propext, Classical.choice, Quot.sound] -/
#guard_msgs in #print axioms erep_double

/-- info: 'Dalek.Bridge.toAffine_smul_ofAffine' depends on axioms: [propext, Classical.choice, Quot.sound] -/
#guard_msgs in #print axioms toAffine_smul_ofAffine

/-- info: 'Dalek.Bridge.toAffine_msm_ofAffine' depends on axioms: [propext, Classical.choice, Quot.sound] -/
#guard_msgs in #print axioms toAffine_msm_ofAffine

/-- info: 'Dalek.Bridge.eq_iff' depends on axioms: [propext, Classical.choice, Quot.sound] -/
#guard_msgs in #print axioms eq_iff

/-- info: 'Dalek.Bridge.addOrderOf_Bpt' depends on axioms: [propext, Classical.choice, Quot.sound] -/
#guard_msgs in #print axioms addOrderOf_Bpt

/-- info: 'Dalek.Bridge.validB_iff' depends on axioms: [propext, Classical.choice, Quot.sound] -/
#guard_msgs in #print axioms validB_iff

end Dalek.Bridge

import Dalek.Model.AlgNat
import Dalek.IR.AlgSound
import Dalek.Proofs.FieldFacts
import Mathlib.Data.ZMod.Basic
/-! Interpretation of the AlgIR signature in the field `ZMod p` (choices are `0`/`1`), used by all algebraic
proofs about translated formulas. -/
namespace Dalek.Proofs
open Dalek.IR

abbrev Fp := ZMod (2 ^ 255 - 19)

noncomputable def c2f (b : Prop) [Decidable b] : Fp := if b then 1 else 0

/-- `x` is "negative": the canonical representative is odd -/
def fpIsNeg (x : Fp) : Prop := x.val % 2 = 1
instance (x : Fp) : Decidable (fpIsNeg x) := by unfold fpIsNeg; exact inferInstance

noncomputable def zmodOps : FOps Fp where
  add := (· + ·)
  sub := (· - ·)
  mul := (· * ·)
  neg := fun a => -a
  square := fun a => a * a
  square2 := fun a => 2 * (a * a)
  pow2k := fun a k => a ^ (2 ^ k)
  const := fun i => ((Dalek.Model.algConstTable.getD i 0 : Nat) : Fp)
  ctEq := fun a b => c2f (a = b)
  isNeg := fun a => c2f (fpIsNeg a)
  isZero := fun a => c2f (a = 0)
  cand := fun a b => c2f (a ≠ 0 ∧ b ≠ 0)
  cor := fun a b => c2f (a ≠ 0 ∨ b ≠ 0)
  cxor := fun a b => c2f (¬ ((a ≠ 0) ↔ (b ≠ 0)))
  cnot := fun a => c2f (a = 0)
  csel := fun c a b => if c = 0 then a else b
  dflt := 0

end Dalek.Proofs

import Dalek.Proofs.RecodeBase
import Mathlib.Tactic.IntervalCases
/-!
# `Scalar::non_adjacent_form(w)` (model `nonAdjacentForm`): loop invariant and exit condition
-/
namespace Dalek.Proofs.Recode
open Dalek.Model.Recode Dalek.Spec

/-- One iteration of the `while pos < 256` loop, with the model's `let`s inlined. -/
theorem nafLoop_succ (w : Nat) (X : List Nat) (fuel pos carry : Nat) (naf : List Int)
    (h : pos < 256) :
    nafLoop w X (fuel + 1) pos carry naf =
      if (carry + (bitBuf X (pos / 64) (pos % 64) (decide (pos % 64 < 64 - w)) &&& (1 <<< w - 1))) % 2 = 0 then
        nafLoop w X fuel (pos + 1) carry naf
      else if (carry + (bitBuf X (pos / 64) (pos % 64) (decide (pos % 64 < 64 - w)) &&& (1 <<< w - 1))) < 2 ^ w / 2 then
        nafLoop w X fuel (pos + w) 0 (naf.set pos (toI8 ((carry + (bitBuf X (pos / 64) (pos % 64) (decide (pos % 64 < 64 - w)) &&& (1 <<< w - 1)) : Nat) : Int)))
      else
        nafLoop w X fuel (pos + w) 1 (naf.set pos (toI8 (toI8 ((carry + (bitBuf X (pos / 64) (pos % 64) (decide (pos % 64 < 64 - w)) &&& (1 <<< w - 1)) : Nat) : Int) - toI8 ((2 ^ w : Nat) : Int)))) := by
  rw [nafLoop]
  simp only [ge_iff_le, Nat.not_le.mpr h, if_false, Nat.and_one_is_mod, Nat.one_shiftLeft, beq_iff_eq]

theorem nafLoop_done (w : Nat) (X : List Nat) (fuel pos carry : Nat) (naf : List Int)
    (h : 256 ≤ fuel + pos → 256 ≤ pos) (h' : 256 ≤ fuel + pos) :
    nafLoop w X fuel pos carry naf = naf := by
  cases fuel with
  | zero => rfl
  | succ n => rw [nafLoop]; simp [h h']

/-- `(window as i8).wrapping_sub(width as i8)` is `window - 2^w` for a window in the upper half
(for `w = 7` and `w = 8` both casts wrap; the wraps cancel). -/
theorem toI8_wrapping_sub (w win : Nat) (hw2 : 2 ≤ w) (hw8 : w ≤ 8) (h1 : 2 ^ w / 2 ≤ win)
    (h2 : win < 2 ^ w) :
    toI8 (toI8 (win : Int) - toI8 ((2 ^ w : Nat) : Int)) = (win : Int) - ((2 ^ w : Nat) : Int) := by
  unfold toI8
  interval_cases w <;> norm_num at h1 h2 ⊢ <;> omega

/-- The digit condition of a width-`w` NAF. -/
def NafDigit (w : Nat) (d : Int) : Prop :=
  d = 0 ∨ (d % 2 = 1 ∧ -(2 ^ (w - 1) : Int) < d ∧ d < 2 ^ (w - 1))

/-- Non-adjacency: two distinct non-zero digits are at least `w` positions apart
(at most one of any `w` consecutive digits is non-zero). -/
def NonAdjacent (w : Nat) (naf : List Int) : Prop :=
  ∀ i j, i < j → naf.getD i 0 ≠ 0 → naf.getD j 0 ≠ 0 → i + w ≤ j

/-- Loop invariant at the head of the `while`. -/
structure NafInv (w s pos carry : Nat) (naf : List Int) : Prop where
  len : naf.length = 256
  before : ∀ i, naf.getD i 0 ≠ 0 → i + w ≤ pos
  nonadj : NonAdjacent w naf
  digits : ∀ i, NafDigit w (naf.getD i 0)
  value : digitSum 2 naf + 2 ^ pos * ((carry + s / 2 ^ pos : Nat) : Int) = (s : Int)
  bound : (carry + s / 2 ^ pos) * 2 ^ pos ≤ 2 ^ 255
  carry_le : carry ≤ 1

structure NafOut (w s : Nat) (naf : List Int) : Prop where
  len : naf.length = 256
  nonadj : NonAdjacent w naf
  digits : ∀ i, NafDigit w (naf.getD i 0)
  value : digitSum 2 naf = (s : Int)

theorem NafInv.exit {w s pos carry : Nat} {naf : List Int} (h : NafInv w s pos carry naf)
    (hp : 256 ≤ pos) : NafOut w s naf := by
  refine ⟨h.len, h.nonadj, h.digits, ?_⟩
  have hb := h.bound
  have h0 : carry + s / 2 ^ pos = 0 := by
    by_contra hne
    have h1 : 1 ≤ carry + s / 2 ^ pos := Nat.one_le_iff_ne_zero.mpr hne
    have h2 : (2 : Nat) ^ 256 ≤ 2 ^ pos := Nat.pow_le_pow_right (by norm_num) hp
    have h3 : 1 * 2 ^ pos ≤ (carry + s / 2 ^ pos) * 2 ^ pos := Nat.mul_le_mul_right _ h1
    rw [Nat.one_mul] at h3
    exact absurd (le_trans (le_trans h2 h3) hb) (by norm_num)
  have hv := h.value
  rw [h0] at hv
  simpa using hv

theorem getD_set_ne_zero {naf : List Int} {pos i : Nat} {d : Int} (hpos : pos < naf.length)
    (h : (naf.set pos d).getD i 0 ≠ 0) : i = pos ∨ (i ≠ pos ∧ naf.getD i 0 ≠ 0) := by
  rw [getD_set naf pos i d hpos] at h
  by_cases hi : i = pos
  · exact Or.inl hi
  · rw [if_neg hi] at h; exact Or.inr ⟨hi, h⟩

/-- Writing a legal digit at `pos` and advancing by `w` re-establishes the structural part of the
invariant. -/
theorem NafInv.set_digit {w s pos carry carry' : Nat} {naf : List Int} {d : Int}
    (h : NafInv w s pos carry naf) (hw : 1 ≤ w) (hpos : pos < 256) (hd : NafDigit w d)
    (hc : carry' ≤ 1)
    (hval : d + 2 ^ w * ((carry' + s / 2 ^ (pos + w) : Nat) : Int) =
      ((carry + s / 2 ^ pos : Nat) : Int))
    (hbound : (carry' + s / 2 ^ (pos + w)) * 2 ^ (pos + w) ≤ 2 ^ 255) :
    NafInv w s (pos + w) carry' (naf.set pos d) := by
  have hlen := h.len
  have hpl : pos < naf.length := by omega
  have hz : naf.getD pos 0 = 0 := by
    by_contra hne
    have := h.before pos hne
    omega
  refine ⟨by simp [hlen], ?_, ?_, ?_, ?_, hbound, hc⟩
  · intro i hi
    rcases getD_set_ne_zero hpl hi with rfl | ⟨_, h2⟩
    · exact Nat.le_refl _
    · have := h.before i h2; omega
  · intro i j hij hi hj
    rcases getD_set_ne_zero hpl hi with rfl | ⟨hi1, hi2⟩
    · rcases getD_set_ne_zero hpl hj with rfl | ⟨_, hj2⟩
      · omega
      · have := h.before j hj2; omega
    · rcases getD_set_ne_zero hpl hj with rfl | ⟨_, hj2⟩
      · exact h.before i hi2
      · exact h.nonadj i j hij hi2 hj2
  · intro i
    rw [getD_set naf pos i d hpl]
    split
    · exact hd
    · exact h.digits i
  · rw [digitSum_set 2 naf pos d hpl, hz, ← h.value, ← hval, pow_add]
    ring

/-- Bound bookkeeping for the "negative digit" branch: the remaining value (with the new carry)
still fits below `2^255`; this is where `s < 2^255` keeps the final carry from being lost. -/
theorem naf_bound_neg (w pos win q : Nat) (hw2 : 2 ≤ w) (hpos : pos < 256)
    (hodd : win % 2 = 1) (h1 : 2 ^ w / 2 ≤ win)
    (hb : (win + 2 ^ w * q) * 2 ^ pos ≤ 2 ^ 255) :
    (1 + q) * 2 ^ (pos + w) ≤ 2 ^ 255 := by
  have hK : (2 : Nat) ^ w = 2 * 2 ^ (w - 1) := by
    rw [← pow_succ']; congr 1; omega
  have hKeven : (2 : Nat) ^ (w - 1) = 2 * 2 ^ (w - 2) := by
    rw [← pow_succ']; congr 1; omega
  have hpp : (0 : Nat) < 2 ^ pos := Nat.two_pow_pos _
  have h255 : (2 : Nat) ^ 255 = 2 ^ (255 - pos) * 2 ^ pos := by
    rw [← pow_add]; congr 1; omega
  rw [h255] at hb
  have hR : win + 2 ^ w * q ≤ 2 ^ (255 - pos) := Nat.le_of_mul_le_mul_right hb hpp
  by_cases hc : pos + w ≤ 255
  · have hA : (2 : Nat) ^ (255 - pos) = 2 ^ (255 - pos - w) * 2 ^ w := by
      rw [← pow_add]; congr 1; omega
    have h255' : (2 : Nat) ^ 255 = 2 ^ (255 - pos - w) * 2 ^ (pos + w) := by
      rw [← pow_add]; congr 1; omega
    rw [h255']
    apply Nat.mul_le_mul_right
    rw [hA] at hR
    have hwpos : (0 : Nat) < 2 ^ w := Nat.two_pow_pos _
    have hwin : 0 < win := by omega
    by_contra hlt
    have : 2 ^ (255 - pos - w) ≤ q := by omega
    have : 2 ^ (255 - pos - w) * 2 ^ w ≤ q * 2 ^ w := Nat.mul_le_mul_right _ this
    rw [Nat.mul_comm q] at this
    omega
  · exfalso
    have : (2 : Nat) ^ (255 - pos) ≤ 2 ^ (w - 1) := Nat.pow_le_pow_right (by norm_num) (by omega)
    have hq : 0 ≤ 2 ^ w * q := Nat.zero_le _
    omega

/-- The loop establishes the NAF postcondition from the invariant. -/
theorem nafLoop_spec (w s : Nat) (X : List Nat) (hX : WordsOf X s) (hw2 : 2 ≤ w) (hw8 : w ≤ 8)
    (fuel : Nat) : ∀ (pos carry : Nat) (naf : List Int), NafInv w s pos carry naf →
      256 ≤ fuel + pos → NafOut w s (nafLoop w X fuel pos carry naf) := by
  induction fuel with
  | zero =>
    intro pos carry naf h hf
    rw [nafLoop_done _ _ _ _ _ _ (by omega) hf]
    exact h.exit (by omega)
  | succ fuel ih =>
    intro pos carry naf h hf
    by_cases hpos : 256 ≤ pos
    · rw [nafLoop_done _ _ _ _ _ _ (fun _ => hpos) hf]
      exact h.exit hpos
    have hpos : pos < 256 := by omega
    rw [nafLoop_succ _ _ _ _ _ _ hpos,
      window_eq X s pos w _ hX (by omega) (by
        intro hs; left; simp only [decide_eq_true_eq] at hs; omega)]
    have hsplit := div_split s pos w
    have hmlt : s / 2 ^ pos % 2 ^ w < 2 ^ w := Nat.mod_lt _ (Nat.two_pow_pos _)
    have hK : (2 : Nat) ^ w = 2 * 2 ^ (w - 1) := by
      rw [← pow_succ']; congr 1; omega
    have hKeven : (2 : Nat) ^ (w - 1) = 2 * 2 ^ (w - 2) := by
      rw [← pow_succ']; congr 1; omega
    have hK128 : (2 : Nat) ^ (w - 1) ≤ 2 ^ 7 := Nat.pow_le_pow_right (by norm_num) (by omega)
    have hKI : ((2 : Int) ^ (w - 1)) = ((2 ^ (w - 1) : Nat) : Int) := by push_cast; rfl
    have hcl := h.carry_le
    have hb := h.bound
    generalize hm : s / 2 ^ pos % 2 ^ w = m at *
    generalize hq : s / 2 ^ (pos + w) = q at *
    generalize ht : s / 2 ^ pos = t at *
    split
    · -- even window: advance one bit, keep the carry
      rename_i heven
      apply ih (pos + 1) carry naf _ (by omega)
      have hq2 : 2 ^ w * q = 2 * (2 ^ (w - 1) * q) := by rw [hK]; ring
      have ht2 : s / 2 ^ (pos + 1) = t / 2 := by
        rw [pow_succ, ← Nat.div_div_eq_div_mul, ht]
      have hR : 2 * (carry + t / 2) = carry + t := by omega
      refine ⟨h.len, fun i hi => by have := h.before i hi; omega, h.nonadj, h.digits, ?_, ?_, hcl⟩
      · rw [ht2, ← h.value, ht, ← hR, pow_succ]; push_cast; ring
      · have he : (carry + t / 2) * 2 ^ (pos + 1) = (carry + t) * 2 ^ pos := by
          rw [pow_succ, ← hR]; ring
        rw [ht2, he]; exact hb
    · rename_i hodd
      split
      · -- odd window below 2^(w-1): positive digit, carry 0
        rename_i hlow
        rw [toI8_id (by omega) (by push_cast; omega)]
        apply ih (pos + w) 0 _ _ (by omega)
        apply h.set_digit (by omega) hpos
        · right
          rw [hKI]
          refine ⟨by omega, by omega, by omega⟩
        · omega
        · rw [hq, ht, hsplit]; push_cast; ring
        · rw [hq, Nat.zero_add, pow_add, Nat.mul_comm (2 ^ pos), ← Nat.mul_assoc]
          refine le_trans (Nat.mul_le_mul_right _ ?_) hb
          rw [hsplit, Nat.mul_comm q]; omega
      · -- odd window ≥ 2^(w-1): negative digit `window - 2^w`, carry 1
        rename_i hhigh
        have hwin : carry + m < 2 ^ w := by omega
        rw [toI8_wrapping_sub w (carry + m) hw2 hw8 (by omega) hwin]
        apply ih (pos + w) 1 _ _ (by omega)
        apply h.set_digit (by omega) hpos
        · right
          rw [hKI]
          refine ⟨by omega, by omega, by omega⟩
        · omega
        · rw [hq, ht, hsplit]; push_cast; ring
        · rw [hq]
          apply naf_bound_neg w pos (carry + m) q hw2 hpos (by omega) (by omega)
          rw [hsplit, ← Nat.add_assoc] at hb
          exact hb

/-- `non_adjacent_form(w)` on a 32-byte string with value `< 2^255`. -/
theorem nonAdjacentForm_out (bytes : List UInt8) (w : Nat) (hlen : bytes.length = 32)
    (hw2 : 2 ≤ w) (hw8 : w ≤ 8) (hs : leToNat bytes < 2 ^ 255) :
    NafOut w (leToNat bytes) (nonAdjacentForm bytes w) := by
  unfold nonAdjacentForm
  apply nafLoop_spec w (leToNat bytes) _ (wordsOf_read4_zero bytes hlen) hw2 hw8 256 0 0 _ _
    (by omega)
  have hz : ∀ i, (List.replicate 256 (0 : Int)).getD i 0 = 0 := by
    intro i
    simp only [List.getD_eq_getElem?_getD, List.getElem?_replicate]
    split <;> rfl
  refine ⟨List.length_replicate, fun i hi => absurd (hz i) hi, fun i j _ hi _ => absurd (hz i) hi,
    fun i => Or.inl (hz i), ?_, ?_, by omega⟩
  · rw [digitSum_replicate_zero]; simp
  · simp only [pow_zero, Nat.div_one, Nat.zero_add, Nat.mul_one]; omega

end Dalek.Proofs.Recode

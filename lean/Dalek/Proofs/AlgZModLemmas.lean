/-
Facts about the two interpretations of the AlgIR signature:

1. the constant table: `zmodOps.const i` is the mathematical constant named by the generated
   `constNames` (index ↦ Rust path), and the hand-written name list of the model agrees with the
   regenerated one (a reordering of the generated table is caught here);
2. `rfl`-lemmas unfolding each operation of `zmodOps` (for `simp only [zmodOps_simps …]`);
3. `natOps_rel_zmodOps`: the executable interpretation over canonical naturals computes the casts
   of the `Fp` interpretation (`FOps.Rel`), hence (`run_natOps_eq_val`) every translated program run
   by the model executable on canonical naturals returns the canonical representatives of the `Fp` run.
-/
import Dalek.Proofs.AlgZMod
import Dalek.Proofs.SpecBridge
import Dalek.Gen.AlgField

namespace Dalek.Proofs

open Dalek.IR Dalek.Spec Dalek.Model
open Dalek.FieldFacts (d sqrtM1 dNat sqrtM1Nat)

/-! ## 0. Small helpers -/

theorem natCast_eq_of_mod {a b : Nat} (h : a % P = b % P) : ((a : Nat) : Fp) = ((b : Nat) : Fp) :=
  (Bridge.cast_eq_iff a b).2 h

theorem natCast_eq_zero_of_mod' {a : Nat} (h : a % P = 0) : ((a : Nat) : Fp) = 0 :=
  (Bridge.cast_eq_zero_iff a).2 h

@[simp] theorem c2f_true {p : Prop} [Decidable p] (h : p) : c2f p = 1 := by
  unfold c2f; rw [if_pos h]

@[simp] theorem c2f_false {p : Prop} [Decidable p] (h : ¬ p) : c2f p = 0 := by
  unfold c2f; rw [if_neg h]

theorem c2f_eq_zero_iff {p : Prop} [Decidable p] : c2f p = 0 ↔ ¬ p := by
  unfold c2f; split
  · simp [*]
  · simp [*]

theorem c2f_ne_zero_iff {p : Prop} [Decidable p] : c2f p ≠ 0 ↔ p := by
  rw [Ne, c2f_eq_zero_iff, not_not]

theorem c2f_eq_one_iff {p : Prop} [Decidable p] : c2f p = 1 ↔ p := by
  unfold c2f; split
  · simp [*]
  · simp [*]

theorem c2f_congr {p q : Prop} [Decidable p] [Decidable q] (h : p ↔ q) : c2f p = c2f q := by
  unfold c2f; simp only [h]

theorem cast_b2n (b : Bool) : ((b2n b : Nat) : Fp) = c2f (b = true) := by
  cases b <;> simp [b2n]

theorem b2n_lt (b : Bool) : b2n b < P := by
  cases b
  · exact Bridge.P_pos
  · show 1 < P; norm_num

theorem b2n_eq_zero_iff (b : Bool) : b2n b = 0 ↔ b = false := by
  cases b <;> simp [b2n]

/-! ## 1. The constant table -/

/-- The hand-written name list the executable table `algConstTable` is laid out by is the
regenerated one: a reordering / insertion in the generated constant table is caught here. -/
theorem algConstNames_eq : Dalek.Model.algConstNames = Dalek.Gen.AlgField.constNames := by decide

theorem algConstTable_length : algConstTable.length = Dalek.Gen.AlgField.constNames.length := by
  decide

theorem algConstTable_lt : ∀ x ∈ algConstTable, x < P := by decide +kernel

theorem algConst_lt (i : Nat) : algConstTable.getD i 0 < P := by
  rw [List.getD_eq_getElem?_getD]
  cases h : algConstTable[i]? with
  | none => simp
  | some x => exact algConstTable_lt x (List.mem_of_getElem? h)

theorem zmodOps_const (i : Nat) : zmodOps.const i = ((algConstTable.getD i 0 : Nat) : Fp) := rfl

/-- `FieldElement::ZERO` -/
theorem const_ZERO : zmodOps.const 0 = 0 := by
  rw [zmodOps_const]; exact natCast_eq_zero_of_mod' (by decide +kernel)

/-- `FieldElement::ONE` -/
theorem const_ONE : zmodOps.const 1 = 1 := by
  rw [zmodOps_const, ← Nat.cast_one]; exact natCast_eq_of_mod (by decide +kernel)

/-- `FieldElement::MINUS_ONE` -/
theorem const_FE_MINUS_ONE : zmodOps.const 2 = -1 := by
  rw [zmodOps_const, eq_neg_iff_add_eq_zero, ← Nat.cast_one, ← Nat.cast_add]
  exact natCast_eq_zero_of_mod' (by decide +kernel)

/-- `constants::MINUS_ONE` -/
theorem const_MINUS_ONE : zmodOps.const 3 = -1 := by
  rw [zmodOps_const, eq_neg_iff_add_eq_zero, ← Nat.cast_one, ← Nat.cast_add]
  exact natCast_eq_zero_of_mod' (by decide +kernel)

/-- `constants::EDWARDS_D` is the curve constant `d = -121665/121666` of `FieldFacts`. -/
theorem const_EDWARDS_D : zmodOps.const 4 = d := by
  rw [zmodOps_const, Dalek.FieldFacts.d_eq_cast]; exact natCast_eq_of_mod (by decide +kernel)

/-- `constants::EDWARDS_D2 = 2 d`. -/
theorem const_EDWARDS_D2 : zmodOps.const 5 = 2 * d := by
  rw [zmodOps_const, Dalek.FieldFacts.d_eq_cast]
  have h : ((algConstTable.getD 5 0 : Nat) : Fp) = ((2 * dNat : Nat) : Fp) :=
    natCast_eq_of_mod (by decide +kernel)
  rw [h]; push_cast; rfl

/-- `constants::ONE_MINUS_EDWARDS_D_SQUARED = 1 - d²`. -/
theorem const_ONE_MINUS_EDWARDS_D_SQUARED : zmodOps.const 6 = 1 - d ^ 2 := by
  rw [zmodOps_const, Dalek.FieldFacts.d_eq_cast, eq_sub_iff_add_eq]
  have h : ((algConstTable.getD 6 0 + dNat ^ 2 : Nat) : Fp) = ((1 : Nat) : Fp) :=
    natCast_eq_of_mod (by decide +kernel)
  push_cast at h; exact h

/-- `constants::EDWARDS_D_MINUS_ONE_SQUARED = (d - 1)²`. -/
theorem const_EDWARDS_D_MINUS_ONE_SQUARED : zmodOps.const 7 = (d - 1) ^ 2 := by
  rw [zmodOps_const, Dalek.FieldFacts.d_eq_cast]
  have h : ((algConstTable.getD 7 0 + 2 * dNat : Nat) : Fp) = ((dNat ^ 2 + 1 : Nat) : Fp) :=
    natCast_eq_of_mod (by decide +kernel)
  push_cast at h; linear_combination h

/-- `constants::SQRT_AD_MINUS_ONE` squares to `a d - 1 = -d - 1` (`a = -1`). -/
theorem const_SQRT_AD_MINUS_ONE_sq : zmodOps.const 8 ^ 2 = -d - 1 := by
  rw [zmodOps_const, Dalek.FieldFacts.d_eq_cast]
  have h : ((algConstTable.getD 8 0 ^ 2 + dNat + 1 : Nat) : Fp) = 0 :=
    natCast_eq_zero_of_mod' (by decide +kernel)
  push_cast at h; linear_combination h

/-- `constants::INVSQRT_A_MINUS_D` is `1/sqrt(a - d)`: its square times `a - d = -1 - d` is `1`. -/
theorem const_INVSQRT_A_MINUS_D_sq : zmodOps.const 9 ^ 2 * (-1 - d) = 1 := by
  rw [zmodOps_const, Dalek.FieldFacts.d_eq_cast]
  have h : ((algConstTable.getD 9 0 ^ 2 * (1 + dNat) + 1 : Nat) : Fp) = 0 :=
    natCast_eq_zero_of_mod' (by decide +kernel)
  push_cast at h; linear_combination -h

/-- `constants::SQRT_M1` is the `sqrt(-1)` of `FieldFacts` (whose square is `-1`: `sqrtM1_sq`). -/
theorem const_SQRT_M1 : zmodOps.const 10 = sqrtM1 := by
  rw [zmodOps_const, Dalek.FieldFacts.sqrtM1_eq_cast]; exact natCast_eq_of_mod (by decide +kernel)

theorem const_SQRT_M1_sq : zmodOps.const 10 ^ 2 = -1 := by
  rw [const_SQRT_M1]; exact Dalek.FieldFacts.sqrtM1_sq

/-- `constants::APLUS2_OVER_FOUR = 121666 = (486662 + 2)/4`. -/
theorem const_APLUS2_OVER_FOUR : zmodOps.const 11 = 121666 := by
  rw [zmodOps_const]
  have h : ((algConstTable.getD 11 0 : Nat) : Fp) = ((121666 : Nat) : Fp) :=
    natCast_eq_of_mod (by decide +kernel)
  rw [h]; push_cast; rfl

/-- `constants::MONTGOMERY_A = 486662`. -/
theorem const_MONTGOMERY_A : zmodOps.const 12 = 486662 := by
  rw [zmodOps_const]
  have h : ((algConstTable.getD 12 0 : Nat) : Fp) = ((486662 : Nat) : Fp) :=
    natCast_eq_of_mod (by decide +kernel)
  rw [h]; push_cast; rfl

/-- `constants::MONTGOMERY_A_NEG = -486662`. -/
theorem const_MONTGOMERY_A_NEG : zmodOps.const 13 = -486662 := by
  rw [zmodOps_const, eq_neg_iff_add_eq_zero]
  have h : ((algConstTable.getD 13 0 + 486662 : Nat) : Fp) = 0 :=
    natCast_eq_zero_of_mod' (by decide +kernel)
  push_cast at h; exact h

/-! ## 2. Unfolding lemmas for `zmodOps` (all by `rfl`) -/

theorem zmodOps_add (a b : Fp) : zmodOps.add a b = a + b := rfl
theorem zmodOps_sub (a b : Fp) : zmodOps.sub a b = a - b := rfl
theorem zmodOps_mul (a b : Fp) : zmodOps.mul a b = a * b := rfl
theorem zmodOps_neg (a : Fp) : zmodOps.neg a = -a := rfl
theorem zmodOps_square (a : Fp) : zmodOps.square a = a * a := rfl
theorem zmodOps_square2 (a : Fp) : zmodOps.square2 a = 2 * (a * a) := rfl
theorem zmodOps_pow2k (a : Fp) (k : Nat) : zmodOps.pow2k a k = a ^ (2 ^ k) := rfl
theorem zmodOps_ctEq (a b : Fp) : zmodOps.ctEq a b = c2f (a = b) := rfl
theorem zmodOps_isNeg (a : Fp) : zmodOps.isNeg a = c2f (fpIsNeg a) := rfl
theorem zmodOps_isZero (a : Fp) : zmodOps.isZero a = c2f (a = 0) := rfl
theorem zmodOps_cand (a b : Fp) : zmodOps.cand a b = c2f (a ≠ 0 ∧ b ≠ 0) := rfl
theorem zmodOps_cor (a b : Fp) : zmodOps.cor a b = c2f (a ≠ 0 ∨ b ≠ 0) := rfl
theorem zmodOps_cxor (a b : Fp) : zmodOps.cxor a b = c2f (¬ ((a ≠ 0) ↔ (b ≠ 0))) := rfl
theorem zmodOps_cnot (a : Fp) : zmodOps.cnot a = c2f (a = 0) := rfl
theorem zmodOps_csel (c a b : Fp) : zmodOps.csel c a b = if c = 0 then a else b := rfl
theorem zmodOps_dflt : zmodOps.dflt = 0 := rfl

/-! ## 3. `natOps` computes the canonical representatives of `zmodOps` -/

/-- `n` is the canonical representative of `z`. -/
def CanonRep (n : Nat) (z : Fp) : Prop := n < P ∧ ((n : Nat) : Fp) = z

theorem canonRep_val (z : Fp) : CanonRep z.val z := ⟨ZMod.val_lt z, ZMod.natCast_zmod_val z⟩

theorem CanonRep.eq_val {n : Nat} {z : Fp} (h : CanonRep n z) : n = z.val := by
  rw [← h.2, Bridge.val_cast, Nat.mod_eq_of_lt h.1]

theorem CanonRep.eq_zero_iff {n : Nat} {z : Fp} (h : CanonRep n z) : n = 0 ↔ z = 0 := by
  rw [← h.2, Bridge.cast_eq_zero_of_lt h.1]

theorem CanonRep.eq_iff {n m : Nat} {z w : Fp} (h : CanonRep n z) (h' : CanonRep m w) :
    n = m ↔ z = w := by
  rw [← h.2, ← h'.2, Bridge.cast_inj_of_lt h.1 h'.1]

theorem canonRep_b2n (b : Bool) {p : Prop} [Decidable p] (h : b = true ↔ p) : CanonRep (b2n b) (c2f p) :=
  ⟨b2n_lt b, by rw [cast_b2n]; exact c2f_congr h⟩

theorem cast_iterSq (k x : Nat) : ((iterSq k x : Nat) : Fp) = (x : Fp) ^ (2 ^ k) := by
  induction k generalizing x with
  | zero => simp [iterSq]
  | succ k ih =>
    rw [iterSq, ih, Bridge.cast_fsq, ← pow_mul]
    congr 1
    rw [pow_succ, mul_comm]

theorem iterSq_lt (k : Nat) {x : Nat} (h : x < P) : iterSq k x < P := by
  induction k generalizing x with
  | zero => exact h
  | succ k ih => exact ih (Bridge.fsq_lt x)

/-- **The executable interpretation over canonical naturals refines the `Fp` interpretation**,
operation by operation (choices are `0`/`1` on both sides). -/
theorem natOps_rel_zmodOps : FOps.Rel CanonRep natOps zmodOps where
  add := fun {a b _ _} ha hb => ⟨Bridge.fadd_lt a b, by
    show ((fadd a b : Nat) : Fp) = _ + _; rw [Bridge.cast_fadd, ha.2, hb.2]⟩
  sub := fun {a b _ _} ha hb => ⟨Bridge.fsub_lt a b, by
    show ((fsub a b : Nat) : Fp) = _ - _; rw [Bridge.cast_fsub, ha.2, hb.2]⟩
  mul := fun {a b _ _} ha hb => ⟨Bridge.fmul_lt a b, by
    show ((fmul a b : Nat) : Fp) = _ * _; rw [Bridge.cast_fmul, ha.2, hb.2]⟩
  neg := fun {a _} ha => ⟨Bridge.fneg_lt a, by
    show ((fneg a : Nat) : Fp) = - _; rw [Bridge.cast_fneg, ha.2]⟩
  square := fun {a _} ha => ⟨Bridge.fsq_lt a, by
    show ((fsq a : Nat) : Fp) = _ * _; rw [Bridge.cast_fsq, ha.2, pow_two]⟩
  square2 := fun {a _} ha => ⟨Bridge.fmul_lt _ _, by
    show ((fmul 2 (fsq a) : Nat) : Fp) = 2 * (_ * _)
    rw [Bridge.cast_fmul, Bridge.cast_fsq, ha.2, pow_two, Nat.cast_ofNat]⟩
  pow2k := fun {a _} k ha => ⟨iterSq_lt k (Nat.mod_lt _ Bridge.P_pos), by
    show ((iterSq k (a % P) : Nat) : Fp) = _ ^ (2 ^ k)
    rw [cast_iterSq, Bridge.cast_mod_P, ha.2]⟩
  const := fun i => ⟨algConst_lt i, rfl⟩
  ctEq := fun {a b _ _} ha hb => by
    show CanonRep (b2n (a % P == b % P)) (c2f (_ = _))
    apply canonRep_b2n
    rw [beq_iff_eq, Nat.mod_eq_of_lt ha.1, Nat.mod_eq_of_lt hb.1]; exact ha.eq_iff hb
  isNeg := fun {a _} ha => by
    show CanonRep (b2n (isNeg a)) (c2f (fpIsNeg _))
    apply canonRep_b2n
    rw [Bridge.isNeg_iff_val, ha.2]; rfl
  isZero := fun {a _} ha => by
    show CanonRep (b2n (a % P == 0)) (c2f (_ = 0))
    apply canonRep_b2n
    rw [beq_iff_eq, Nat.mod_eq_of_lt ha.1]; exact ha.eq_zero_iff
  cand := fun {a b _ _} ha hb => by
    show CanonRep (b2n (a != 0 && b != 0)) (c2f (_ ≠ 0 ∧ _ ≠ 0))
    apply canonRep_b2n
    rw [Bool.and_eq_true, bne_iff_ne, bne_iff_ne, Ne, Ne, ha.eq_zero_iff, hb.eq_zero_iff]
  cor := fun {a b _ _} ha hb => by
    show CanonRep (b2n (a != 0 || b != 0)) (c2f (_ ≠ 0 ∨ _ ≠ 0))
    apply canonRep_b2n
    rw [Bool.or_eq_true, bne_iff_ne, bne_iff_ne, Ne, Ne, ha.eq_zero_iff, hb.eq_zero_iff]
  cxor := fun {a b _ _} ha hb => by
    show CanonRep (b2n ((a != 0) != (b != 0))) (c2f (¬ (_ ≠ 0 ↔ _ ≠ 0)))
    apply canonRep_b2n
    rw [bne_iff_ne, Ne, Bool.eq_iff_iff, bne_iff_ne, bne_iff_ne, Ne, Ne, ha.eq_zero_iff,
      hb.eq_zero_iff]
  cnot := fun {a _} ha => by
    show CanonRep (b2n (a == 0)) (c2f (_ = 0))
    apply canonRep_b2n
    rw [beq_iff_eq]; exact ha.eq_zero_iff
  csel := fun {c a b c' _ _} hc ha hb => by
    show CanonRep (if c = 0 then a else b) (if c' = 0 then _ else _)
    by_cases h : c = 0
    · rw [if_pos h, if_pos (hc.eq_zero_iff.1 h)]; exact ha
    · rw [if_neg h, if_neg (fun h' => h (hc.eq_zero_iff.2 h'))]; exact hb
  dflt := ⟨Bridge.P_pos, Nat.cast_zero⟩

theorem listRel_canonRep_val : ∀ (zs : List Fp), ListRel CanonRep (zs.map ZMod.val) zs
  | [] => .nil
  | z :: zs => .cons (canonRep_val z) (listRel_canonRep_val zs)

theorem ListRel.canonRep_eq : ∀ {ns : List Nat} {zs : List Fp}, ListRel CanonRep ns zs →
    ns = zs.map ZMod.val
  | _, _, .nil => rfl
  | _, _, .cons h t => by rw [List.map_cons, ← h.eq_val, ← ListRel.canonRep_eq t]

/-- **Running a translated program over canonical naturals (what the model executable does) returns
the canonical representatives of the run over `Fp`.** -/
theorem run_natOps_eq_val (p : AProg) (zs : List Fp) :
    p.run natOps (zs.map ZMod.val) = (p.run zmodOps zs).map ZMod.val :=
  ListRel.canonRep_eq (AProg.run_rel natOps_rel_zmodOps p (listRel_canonRep_val zs))

/-- Same, for arbitrary canonical inputs. -/
theorem run_natOps_rel (p : AProg) {ns : List Nat} {zs : List Fp} (h : ListRel CanonRep ns zs) :
    ListRel CanonRep (p.run natOps ns) (p.run zmodOps zs) :=
  AProg.run_rel natOps_rel_zmodOps p h

/-! ### Axiom audit -/

/-- info: 'Dalek.Proofs.natOps_rel_zmodOps' depends on axioms: [propext, Classical.choice, Quot.sound] -/
#guard_msgs in #print axioms natOps_rel_zmodOps

/-- info: 'Dalek.Proofs.run_natOps_eq_val' depends on axioms: [propext, Classical.choice, Quot.sound] -/
#guard_msgs in #print axioms run_natOps_eq_val

/-- info: 'Dalek.Proofs.const_EDWARDS_D' depends on axioms: [propext, Classical.choice, Quot.sound] -/
#guard_msgs in #print axioms const_EDWARDS_D

/-- info: 'Dalek.Proofs.const_INVSQRT_A_MINUS_D_sq' depends on axioms: [propext, Classical.choice, Quot.sound] -/
#guard_msgs in #print axioms const_INVSQRT_A_MINUS_D_sq

end Dalek.Proofs

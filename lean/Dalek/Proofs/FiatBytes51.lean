import Dalek.Proofs.Bytes51
import Dalek.Gen.Norm.FiatField51.from_bytes
import Dalek.Gen.Norm.FiatField51.as_bytes
/-!
# Byte codecs of the fiat u64 field backend: integer-level correctness of the normalised kernels

Helper lemmas for `Dalek/Props/C01/FiatBytes51.lean`.  The kernels are `Dalek.Gen.FiatField51.from_bytes` / `as_bytes`
(the wrapper methods of `backend/serial/fiat_u64/field.rs` with `fiat_25519_from_bytes` / `fiat_25519_to_bytes` inlined);
the objects here are their verified normal forms `Dalek.Gen.Norm.FiatField51.{from_bytes_fn, as_bytes_fn}`.

* `from_bytes_fn_eq` / `from_bytes_fn_val`: on bytes in `[0,255]` the five limbs are the five 51-bit digits of
  `N % 2^255`, `N` the little-endian value of the 32 bytes (one `omega` call per limb);
* `as_bytes_fn_eq_model`: the generated normal form equals the hand model `asBytesFiat51` (normalising proof:
  inline all `let`s on both sides, `ring_nf` per output byte);
* `asBytesFiat51_val`: for limbs in fiat's TIGHT bounds `[0, 2^51]` (inclusive) the 32 output bytes are in `[0,255]` and
  their little-endian value is `(Σ a_i 2^(51 i)) % p` (staged `omega`: subtract-with-borrow chain computing `A - p`,
  conditional add-back of `p` with the add-with-carry chain, abstract case analysis on the final borrow, packing).

No script refers to SSA numbers or to the order of the generated `let`s.
-/
set_option linter.unusedVariables false
set_option linter.unusedTactic false
set_option linter.unreachableTactic false
set_option linter.unusedSimpArgs false
namespace Dalek.Proofs.FiatBytes51
open Dalek Dalek.IR Dalek.Model.FieldBytes Dalek.Proofs.Field51 Dalek.Proofs.Bytes51
open Dalek.Gen.Norm.FiatField51

/-! ### `from_bytes` -/

set_option maxHeartbeats 4000000 in
/-- the five limbs are the 51-bit digits of the little-endian value (one `omega` per limb) -/
theorem from_bytes_fn_eq (x0 x1 x2 x3 x4 x5 x6 x7 x8 x9 x10 x11 x12 x13 x14 x15 x16 x17 x18 x19 x20 x21 x22 x23 x24 x25 x26 x27 x28 x29 x30 x31 : Int)
    (h0 : 0 ≤ x0 ∧ x0 ≤ 255) (h1 : 0 ≤ x1 ∧ x1 ≤ 255) (h2 : 0 ≤ x2 ∧ x2 ≤ 255) (h3 : 0 ≤ x3 ∧ x3 ≤ 255) (h4 : 0 ≤ x4 ∧ x4 ≤ 255) (h5 : 0 ≤ x5 ∧ x5 ≤ 255) (h6 : 0 ≤ x6 ∧ x6 ≤ 255) (h7 : 0 ≤ x7 ∧ x7 ≤ 255) (h8 : 0 ≤ x8 ∧ x8 ≤ 255) (h9 : 0 ≤ x9 ∧ x9 ≤ 255) (h10 : 0 ≤ x10 ∧ x10 ≤ 255) (h11 : 0 ≤ x11 ∧ x11 ≤ 255) (h12 : 0 ≤ x12 ∧ x12 ≤ 255) (h13 : 0 ≤ x13 ∧ x13 ≤ 255) (h14 : 0 ≤ x14 ∧ x14 ≤ 255) (h15 : 0 ≤ x15 ∧ x15 ≤ 255) (h16 : 0 ≤ x16 ∧ x16 ≤ 255) (h17 : 0 ≤ x17 ∧ x17 ≤ 255) (h18 : 0 ≤ x18 ∧ x18 ≤ 255) (h19 : 0 ≤ x19 ∧ x19 ≤ 255) (h20 : 0 ≤ x20 ∧ x20 ≤ 255) (h21 : 0 ≤ x21 ∧ x21 ≤ 255) (h22 : 0 ≤ x22 ∧ x22 ≤ 255) (h23 : 0 ≤ x23 ∧ x23 ≤ 255) (h24 : 0 ≤ x24 ∧ x24 ≤ 255) (h25 : 0 ≤ x25 ∧ x25 ≤ 255) (h26 : 0 ≤ x26 ∧ x26 ≤ 255) (h27 : 0 ≤ x27 ∧ x27 ≤ 255) (h28 : 0 ≤ x28 ∧ x28 ≤ 255) (h29 : 0 ≤ x29 ∧ x29 ≤ 255) (h30 : 0 ≤ x30 ∧ x30 ≤ 255) (h31 : 0 ≤ x31 ∧ x31 ≤ 255) :
    from_bytes_fn x0 x1 x2 x3 x4 x5 x6 x7 x8 x9 x10 x11 x12 x13 x14 x15 x16 x17 x18 x19 x20 x21 x22 x23 x24 x25 x26 x27 x28 x29 x30 x31
      = [leValZ [x0, x1, x2, x3, x4, x5, x6, x7, x8, x9, x10, x11, x12, x13, x14, x15, x16, x17, x18, x19, x20, x21, x22, x23, x24, x25, x26, x27, x28, x29, x30, x31] % 2 ^ 51,
         leValZ [x0, x1, x2, x3, x4, x5, x6, x7, x8, x9, x10, x11, x12, x13, x14, x15, x16, x17, x18, x19, x20, x21, x22, x23, x24, x25, x26, x27, x28, x29, x30, x31] / 2 ^ 51 % 2 ^ 51,
         leValZ [x0, x1, x2, x3, x4, x5, x6, x7, x8, x9, x10, x11, x12, x13, x14, x15, x16, x17, x18, x19, x20, x21, x22, x23, x24, x25, x26, x27, x28, x29, x30, x31] / 2 ^ 102 % 2 ^ 51,
         leValZ [x0, x1, x2, x3, x4, x5, x6, x7, x8, x9, x10, x11, x12, x13, x14, x15, x16, x17, x18, x19, x20, x21, x22, x23, x24, x25, x26, x27, x28, x29, x30, x31] / 2 ^ 153 % 2 ^ 51,
         leValZ [x0, x1, x2, x3, x4, x5, x6, x7, x8, x9, x10, x11, x12, x13, x14, x15, x16, x17, x18, x19, x20, x21, x22, x23, x24, x25, x26, x27, x28, x29, x30, x31] / 2 ^ 204 % 2 ^ 51] := by
  unfold from_bytes_fn
  simp only [leValZ, List.cons.injEq, and_true]
  refine ⟨?_, ?_, ?_, ?_, ?_⟩ <;> omega

/-- hence the integer value of the limbs is `N % 2^255` (bit 255 of the input is ignored) -/
theorem from_bytes_fn_val (x0 x1 x2 x3 x4 x5 x6 x7 x8 x9 x10 x11 x12 x13 x14 x15 x16 x17 x18 x19 x20 x21 x22 x23 x24 x25 x26 x27 x28 x29 x30 x31 : Int)
    (h0 : 0 ≤ x0 ∧ x0 ≤ 255) (h1 : 0 ≤ x1 ∧ x1 ≤ 255) (h2 : 0 ≤ x2 ∧ x2 ≤ 255) (h3 : 0 ≤ x3 ∧ x3 ≤ 255) (h4 : 0 ≤ x4 ∧ x4 ≤ 255) (h5 : 0 ≤ x5 ∧ x5 ≤ 255) (h6 : 0 ≤ x6 ∧ x6 ≤ 255) (h7 : 0 ≤ x7 ∧ x7 ≤ 255) (h8 : 0 ≤ x8 ∧ x8 ≤ 255) (h9 : 0 ≤ x9 ∧ x9 ≤ 255) (h10 : 0 ≤ x10 ∧ x10 ≤ 255) (h11 : 0 ≤ x11 ∧ x11 ≤ 255) (h12 : 0 ≤ x12 ∧ x12 ≤ 255) (h13 : 0 ≤ x13 ∧ x13 ≤ 255) (h14 : 0 ≤ x14 ∧ x14 ≤ 255) (h15 : 0 ≤ x15 ∧ x15 ≤ 255) (h16 : 0 ≤ x16 ∧ x16 ≤ 255) (h17 : 0 ≤ x17 ∧ x17 ≤ 255) (h18 : 0 ≤ x18 ∧ x18 ≤ 255) (h19 : 0 ≤ x19 ∧ x19 ≤ 255) (h20 : 0 ≤ x20 ∧ x20 ≤ 255) (h21 : 0 ≤ x21 ∧ x21 ≤ 255) (h22 : 0 ≤ x22 ∧ x22 ≤ 255) (h23 : 0 ≤ x23 ∧ x23 ≤ 255) (h24 : 0 ≤ x24 ∧ x24 ≤ 255) (h25 : 0 ≤ x25 ∧ x25 ≤ 255) (h26 : 0 ≤ x26 ∧ x26 ≤ 255) (h27 : 0 ≤ x27 ∧ x27 ≤ 255) (h28 : 0 ≤ x28 ∧ x28 ≤ 255) (h29 : 0 ≤ x29 ∧ x29 ≤ 255) (h30 : 0 ≤ x30 ∧ x30 ≤ 255) (h31 : 0 ≤ x31 ∧ x31 ≤ 255) :
    rep51 (from_bytes_fn x0 x1 x2 x3 x4 x5 x6 x7 x8 x9 x10 x11 x12 x13 x14 x15 x16 x17 x18 x19 x20 x21 x22 x23 x24 x25 x26 x27 x28 x29 x30 x31) = leValZ [x0, x1, x2, x3, x4, x5, x6, x7, x8, x9, x10, x11, x12, x13, x14, x15, x16, x17, x18, x19, x20, x21, x22, x23, x24, x25, x26, x27, x28, x29, x30, x31] % 2 ^ 255 := by
  rw [from_bytes_fn_eq x0 x1 x2 x3 x4 x5 x6 x7 x8 x9 x10 x11 x12 x13 x14 x15 x16 x17 x18 x19 x20 x21 x22 x23 x24 x25 x26 x27 x28 x29 x30 x31 h0 h1 h2 h3 h4 h5 h6 h7 h8 h9 h10 h11 h12 h13 h14 h15 h16 h17 h18 h19 h20 h21 h22 h23 h24 h25 h26 h27 h28 h29 h30 h31]
  simp only [rep51, List.getD_cons_zero, List.getD_cons_succ]
  exact digits51 _

/-! ### `as_bytes` -/

/-- the final bit arrangement of `fiat_25519_to_bytes`: 32 bytes from five 51-bit limbs, each byte taken off the
running value by `% 2^8` / `/ 2^8`; at the limb boundaries the next limb is shifted into the remaining bits -/
def packFiat51 (f0 f1 f2 f3 f4 : Int) : List Int :=
  let u0 := f0
  let u1 := u0 / 2 ^ 8
  let u2 := u1 / 2 ^ 8
  let u3 := u2 / 2 ^ 8
  let u4 := u3 / 2 ^ 8
  let u5 := u4 / 2 ^ 8
  let v0 := f1 * 8 + u5 / 2 ^ 8
  let v1 := v0 / 2 ^ 8
  let v2 := v1 / 2 ^ 8
  let v3 := v2 / 2 ^ 8
  let v4 := v3 / 2 ^ 8
  let v5 := v4 / 2 ^ 8
  let w0 := f2 * 64 + v5 / 2 ^ 8
  let w1 := w0 / 2 ^ 8
  let w2 := w1 / 2 ^ 8
  let w3 := w2 / 2 ^ 8
  let w4 := w3 / 2 ^ 8
  let w5 := w4 / 2 ^ 8
  let w6 := w5 / 2 ^ 8
  let y0 := f3 * 2 + w6 / 2 ^ 8
  let y1 := y0 / 2 ^ 8
  let y2 := y1 / 2 ^ 8
  let y3 := y2 / 2 ^ 8
  let y4 := y3 / 2 ^ 8
  let y5 := y4 / 2 ^ 8
  let z0 := f4 * 16 + y5 / 2 ^ 8
  let z1 := z0 / 2 ^ 8
  let z2 := z1 / 2 ^ 8
  let z3 := z2 / 2 ^ 8
  let z4 := z3 / 2 ^ 8
  let z5 := z4 / 2 ^ 8
  [u0 % 2 ^ 8, u1 % 2 ^ 8, u2 % 2 ^ 8, u3 % 2 ^ 8, u4 % 2 ^ 8, u5 % 2 ^ 8,
   v0 % 2 ^ 8, v1 % 2 ^ 8, v2 % 2 ^ 8, v3 % 2 ^ 8, v4 % 2 ^ 8, v5 % 2 ^ 8,
   w0 % 2 ^ 8, w1 % 2 ^ 8, w2 % 2 ^ 8, w3 % 2 ^ 8, w4 % 2 ^ 8, w5 % 2 ^ 8, w6 % 2 ^ 8,
   y0 % 2 ^ 8, y1 % 2 ^ 8, y2 % 2 ^ 8, y3 % 2 ^ 8, y4 % 2 ^ 8, y5 % 2 ^ 8,
   z0 % 2 ^ 8, z1 % 2 ^ 8, z2 % 2 ^ 8, z3 % 2 ^ 8, z4 % 2 ^ 8, z5 % 2 ^ 8, z5 / 2 ^ 8]

/-- hand model of the fiat `FieldElement51::as_bytes` (= `fiat_25519_to_bytes`) over ideal integers -/
def asBytesFiat51 (a0 a1 a2 a3 a4 : Int) : List Int :=
  -- `A - p` limb-wise: subtract-with-borrow chain in wrapping 64-bit arithmetic; `c_i` = sign bit = borrow
  let d0 := (a0 - (2 ^ 51 - 19)) % 2 ^ 64
  let l0 := d0 % 2 ^ 51
  let c0 := d0 / 2 ^ 63
  let d1 := ((a1 - c0) % 2 ^ 64 - (2 ^ 51 - 1)) % 2 ^ 64
  let l1 := d1 % 2 ^ 51
  let c1 := d1 / 2 ^ 63
  let d2 := ((a2 - c1) % 2 ^ 64 - (2 ^ 51 - 1)) % 2 ^ 64
  let l2 := d2 % 2 ^ 51
  let c2 := d2 / 2 ^ 63
  let d3 := ((a3 - c2) % 2 ^ 64 - (2 ^ 51 - 1)) % 2 ^ 64
  let l3 := d3 % 2 ^ 51
  let c3 := d3 / 2 ^ 63
  let d4 := ((a4 - c3) % 2 ^ 64 - (2 ^ 51 - 1)) % 2 ^ 64
  let l4 := d4 % 2 ^ 51
  let c := d4 / 2 ^ 63
  -- add `p` back iff the final borrow is set (the mask `cmovznz`), add-with-carry chain, top carry dropped
  let m0 : Int := if c = 0 then 0 else 2 ^ 51 - 19
  let m : Int := if c = 0 then 0 else 2 ^ 51 - 1
  let t0 := l0 + m0
  let t1 := t0 / 2 ^ 51 + l1 + m
  let t2 := t1 / 2 ^ 51 + l2 + m
  let t3 := t2 / 2 ^ 51 + l3 + m
  let t4 := t3 / 2 ^ 51 + l4 + m
  let f0 := t0 % 2 ^ 51
  let f1 := t1 % 2 ^ 51
  let f2 := t2 % 2 ^ 51
  let f3 := t3 % 2 ^ 51
  let f4 := t4 % 2 ^ 51
  packFiat51 f0 f1 f2 f3 f4

set_option maxHeartbeats 4000000 in
/-- the generated normal form and the hand model are the same integer function -/
theorem as_bytes_fn_eq_model (a0 a1 a2 a3 a4 : Int) :
    as_bytes_fn a0 a1 a2 a3 a4 = asBytesFiat51 a0 a1 a2 a3 a4 := by
  unfold as_bytes_fn asBytesFiat51 packFiat51
  simp only [List.cons.injEq, and_true, pow_zero, Int.ediv_one]
  repeat' apply And.intro
  all_goals ring_nf

/-- one step of the subtract-with-borrow chain (`fiat_25519_subborrowx_u51` in wrapping 64-bit arithmetic):
`a - cin - m = l - 2^51 cout` with `l` a 51-bit limb and `cout` the borrow -/
theorem borrow_step (a cin m d l cout : Int) (ba : 0 ≤ a ∧ a ≤ 2 ^ 51) (bc : 0 ≤ cin ∧ cin ≤ 1)
    (bm : 2 ^ 51 - 19 ≤ m ∧ m ≤ 2 ^ 51 - 1)
    (ed : d = ((a - cin) % 2 ^ 64 - m) % 2 ^ 64) (el : l = d % 2 ^ 51) (ec : cout = d / 2 ^ 63) :
    (0 ≤ l ∧ l < 2 ^ 51) ∧ (0 ≤ cout ∧ cout ≤ 1) ∧ l - 2 ^ 51 * cout = a - cin - m := by
  omega

/-- the whole borrow chain computes `A - p = L - 2^255 c` -/
theorem borrow51 (a0 a1 a2 a3 a4 d0 d1 d2 d3 d4 l0 l1 l2 l3 l4 c0 c1 c2 c3 c : Int)
    (b0 : 0 ≤ a0 ∧ a0 ≤ 2 ^ 51) (b1 : 0 ≤ a1 ∧ a1 ≤ 2 ^ 51) (b2 : 0 ≤ a2 ∧ a2 ≤ 2 ^ 51) (b3 : 0 ≤ a3 ∧ a3 ≤ 2 ^ 51)
    (b4 : 0 ≤ a4 ∧ a4 ≤ 2 ^ 51)
    (ed0 : d0 = (a0 - (2 ^ 51 - 19)) % 2 ^ 64) (el0 : l0 = d0 % 2 ^ 51) (ec0 : c0 = d0 / 2 ^ 63)
    (ed1 : d1 = ((a1 - c0) % 2 ^ 64 - (2 ^ 51 - 1)) % 2 ^ 64) (el1 : l1 = d1 % 2 ^ 51) (ec1 : c1 = d1 / 2 ^ 63)
    (ed2 : d2 = ((a2 - c1) % 2 ^ 64 - (2 ^ 51 - 1)) % 2 ^ 64) (el2 : l2 = d2 % 2 ^ 51) (ec2 : c2 = d2 / 2 ^ 63)
    (ed3 : d3 = ((a3 - c2) % 2 ^ 64 - (2 ^ 51 - 1)) % 2 ^ 64) (el3 : l3 = d3 % 2 ^ 51) (ec3 : c3 = d3 / 2 ^ 63)
    (ed4 : d4 = ((a4 - c3) % 2 ^ 64 - (2 ^ 51 - 1)) % 2 ^ 64) (el4 : l4 = d4 % 2 ^ 51) (ec4 : c = d4 / 2 ^ 63) :
    (0 ≤ l0 ∧ l0 < 2 ^ 51) ∧ (0 ≤ l1 ∧ l1 < 2 ^ 51) ∧ (0 ≤ l2 ∧ l2 < 2 ^ 51) ∧ (0 ≤ l3 ∧ l3 < 2 ^ 51) ∧
    (0 ≤ l4 ∧ l4 < 2 ^ 51) ∧ (0 ≤ c ∧ c ≤ 1) ∧
    l0 + 2 ^ 51 * l1 + 2 ^ 102 * l2 + 2 ^ 153 * l3 + 2 ^ 204 * l4 - 2 ^ 255 * c
      = a0 + 2 ^ 51 * a1 + 2 ^ 102 * a2 + 2 ^ 153 * a3 + 2 ^ 204 * a4 - (2 ^ 255 - 19) := by
  have ed0' : d0 = ((a0 - 0) % 2 ^ 64 - (2 ^ 51 - 19)) % 2 ^ 64 := by omega
  obtain ⟨bl0, bc0, s0⟩ := borrow_step a0 0 (2 ^ 51 - 19) d0 l0 c0 b0 (by omega) (by omega) ed0' el0 ec0
  obtain ⟨bl1, bc1, s1⟩ := borrow_step a1 c0 (2 ^ 51 - 1) d1 l1 c1 b1 bc0 (by omega) ed1 el1 ec1
  obtain ⟨bl2, bc2, s2⟩ := borrow_step a2 c1 (2 ^ 51 - 1) d2 l2 c2 b2 bc1 (by omega) ed2 el2 ec2
  obtain ⟨bl3, bc3, s3⟩ := borrow_step a3 c2 (2 ^ 51 - 1) d3 l3 c3 b3 bc2 (by omega) ed3 el3 ec3
  obtain ⟨bl4, bc4, s4⟩ := borrow_step a4 c3 (2 ^ 51 - 1) d4 l4 c b4 bc3 (by omega) ed4 el4 ec4
  refine ⟨bl0, bl1, bl2, bl3, bl4, bc4, ?_⟩
  omega

/-- the conditional add-back: `F + 2^255 k = L + c p`, `k` the dropped top carry -/
theorem addback51 (l0 l1 l2 l3 l4 c m0 m t0 t1 t2 t3 t4 f0 f1 f2 f3 f4 : Int)
    (b0 : 0 ≤ l0 ∧ l0 < 2 ^ 51) (b1 : 0 ≤ l1 ∧ l1 < 2 ^ 51) (b2 : 0 ≤ l2 ∧ l2 < 2 ^ 51) (b3 : 0 ≤ l3 ∧ l3 < 2 ^ 51)
    (b4 : 0 ≤ l4 ∧ l4 < 2 ^ 51) (bc : 0 ≤ c ∧ c ≤ 1)
    (em0 : m0 = if c = 0 then 0 else 2 ^ 51 - 19) (em : m = if c = 0 then 0 else 2 ^ 51 - 1)
    (et0 : t0 = l0 + m0) (et1 : t1 = t0 / 2 ^ 51 + l1 + m) (et2 : t2 = t1 / 2 ^ 51 + l2 + m)
    (et3 : t3 = t2 / 2 ^ 51 + l3 + m) (et4 : t4 = t3 / 2 ^ 51 + l4 + m)
    (ef0 : f0 = t0 % 2 ^ 51) (ef1 : f1 = t1 % 2 ^ 51) (ef2 : f2 = t2 % 2 ^ 51) (ef3 : f3 = t3 % 2 ^ 51)
    (ef4 : f4 = t4 % 2 ^ 51) :
    (0 ≤ f0 ∧ f0 < 2 ^ 51) ∧ (0 ≤ f1 ∧ f1 < 2 ^ 51) ∧ (0 ≤ f2 ∧ f2 < 2 ^ 51) ∧ (0 ≤ f3 ∧ f3 < 2 ^ 51) ∧
    (0 ≤ f4 ∧ f4 < 2 ^ 51) ∧
    f0 + 2 ^ 51 * f1 + 2 ^ 102 * f2 + 2 ^ 153 * f3 + 2 ^ 204 * f4 + 2 ^ 255 * (t4 / 2 ^ 51)
      = l0 + 2 ^ 51 * l1 + 2 ^ 102 * l2 + 2 ^ 153 * l3 + 2 ^ 204 * l4 + (2 ^ 255 - 19) * c := by
  have hc : c = 0 ∨ c = 1 := by omega
  rcases hc with rfl | rfl
  · rw [if_pos rfl] at em0 em
    subst em0 em
    refine ⟨by omega, by omega, by omega, by omega, by omega, ?_⟩
    omega
  · rw [if_neg (by decide)] at em0 em
    subst em0 em
    refine ⟨by omega, by omega, by omega, by omega, by omega, ?_⟩
    omega

/-- the arithmetic heart: subtract `p`, add it back iff the subtraction borrowed; for `A < 2p` that is `A mod p` -/
theorem fiat_canon_abs (A L F c k : Int) (hA : 0 ≤ A ∧ A < 2 * (2 ^ 255 - 19))
    (hL : 0 ≤ L ∧ L < 2 ^ 255) (hF : 0 ≤ F ∧ F < 2 ^ 255) (hc : 0 ≤ c ∧ c ≤ 1)
    (sub : L - 2 ^ 255 * c = A - (2 ^ 255 - 19)) (add : F + 2 ^ 255 * k = L + (2 ^ 255 - 19) * c) :
    F = A - (2 ^ 255 - 19) * (1 - c) ∧ 0 ≤ F ∧ F < 2 ^ 255 - 19 := by
  have hc' : c = 0 ∨ c = 1 := by omega
  rcases hc' with rfl | rfl
  · have hk : k = 0 := by omega
    subst hk; omega
  · have hk : k = 1 := by omega
    subst hk; omega

/-- tight limbs represent an integer below `2p` -/
theorem tight_lt_2p (a0 a1 a2 a3 a4 : Int)
    (b0 : 0 ≤ a0 ∧ a0 ≤ 2 ^ 51) (b1 : 0 ≤ a1 ∧ a1 ≤ 2 ^ 51) (b2 : 0 ≤ a2 ∧ a2 ≤ 2 ^ 51) (b3 : 0 ≤ a3 ∧ a3 ≤ 2 ^ 51)
    (b4 : 0 ≤ a4 ∧ a4 ≤ 2 ^ 51) :
    0 ≤ a0 + 2 ^ 51 * a1 + 2 ^ 102 * a2 + 2 ^ 153 * a3 + 2 ^ 204 * a4 ∧
    a0 + 2 ^ 51 * a1 + 2 ^ 102 * a2 + 2 ^ 153 * a3 + 2 ^ 204 * a4 < 2 * (2 ^ 255 - 19) := by
  omega

/-- packing: the little-endian value of the 32 bytes is the value of the five 51-bit limbs -/
theorem packFiat51_val (f0 f1 f2 f3 f4 : Int)
    (b0 : 0 ≤ f0 ∧ f0 < 2 ^ 51) (b1 : 0 ≤ f1 ∧ f1 < 2 ^ 51) (b2 : 0 ≤ f2 ∧ f2 < 2 ^ 51) (b3 : 0 ≤ f3 ∧ f3 < 2 ^ 51)
    (b4 : 0 ≤ f4 ∧ f4 < 2 ^ 51) :
    leValZ (packFiat51 f0 f1 f2 f3 f4) = f0 + 2 ^ 51 * f1 + 2 ^ 102 * f2 + 2 ^ 153 * f3 + 2 ^ 204 * f4 := by
  simp only [packFiat51, leValZ]
  omega

theorem packFiat51_bytes (f0 f1 f2 f3 f4 : Int)
    (b0 : 0 ≤ f0 ∧ f0 < 2 ^ 51) (b1 : 0 ≤ f1 ∧ f1 < 2 ^ 51) (b2 : 0 ≤ f2 ∧ f2 < 2 ^ 51) (b3 : 0 ≤ f3 ∧ f3 < 2 ^ 51)
    (b4 : 0 ≤ f4 ∧ f4 < 2 ^ 51) :
    ∀ b ∈ packFiat51 f0 f1 f2 f3 f4, 0 ≤ b ∧ b ≤ 255 := by
  intro b hb
  simp only [packFiat51, List.mem_cons, List.not_mem_nil, or_false] at hb
  rcases hb with rfl|rfl|rfl|rfl|rfl|rfl|rfl|rfl|rfl|rfl|rfl|rfl|rfl|rfl|rfl|rfl|rfl|rfl|rfl|rfl|rfl|rfl|rfl|rfl|rfl|rfl|rfl|rfl|rfl|rfl|rfl|rfl <;> omega

/-- **the hand model computes the canonical encoding**: for limbs in the tight bounds `[0, 2^51]` every output is a
byte and the little-endian value of the output is `(Σ a_i 2^(51 i)) mod p` -/
theorem asBytesFiat51_val (a0 a1 a2 a3 a4 : Int)
    (b0 : 0 ≤ a0 ∧ a0 ≤ 2 ^ 51) (b1 : 0 ≤ a1 ∧ a1 ≤ 2 ^ 51) (b2 : 0 ≤ a2 ∧ a2 ≤ 2 ^ 51) (b3 : 0 ≤ a3 ∧ a3 ≤ 2 ^ 51)
    (b4 : 0 ≤ a4 ∧ a4 ≤ 2 ^ 51) :
    (∀ b ∈ asBytesFiat51 a0 a1 a2 a3 a4, 0 ≤ b ∧ b ≤ 255) ∧
    leValZ (asBytesFiat51 a0 a1 a2 a3 a4) = rep51 [a0, a1, a2, a3, a4] % (2 ^ 255 - 19) := by
  unfold asBytesFiat51
  extract_lets d0 l0 c0 d1 l1 c1 d2 l2 c2 d3 l3 c3 d4 l4 c m0 m t0 t1 t2 t3 t4 f0 f1 f2 f3 f4
  obtain ⟨bl0, bl1, bl2, bl3, bl4, bc, hsub⟩ :=
    borrow51 a0 a1 a2 a3 a4 d0 d1 d2 d3 d4 l0 l1 l2 l3 l4 c0 c1 c2 c3 c b0 b1 b2 b3 b4
      rfl rfl rfl rfl rfl rfl rfl rfl rfl rfl rfl rfl rfl rfl rfl
  obtain ⟨bf0, bf1, bf2, bf3, bf4, hadd⟩ :=
    addback51 l0 l1 l2 l3 l4 c m0 m t0 t1 t2 t3 t4 f0 f1 f2 f3 f4 bl0 bl1 bl2 bl3 bl4 bc
      rfl rfl rfl rfl rfl rfl rfl rfl rfl rfl rfl rfl
  have hA := tight_lt_2p a0 a1 a2 a3 a4 b0 b1 b2 b3 b4
  have hL : 0 ≤ l0 + 2 ^ 51 * l1 + 2 ^ 102 * l2 + 2 ^ 153 * l3 + 2 ^ 204 * l4 ∧
      l0 + 2 ^ 51 * l1 + 2 ^ 102 * l2 + 2 ^ 153 * l3 + 2 ^ 204 * l4 < 2 ^ 255 := by omega
  have hF : 0 ≤ f0 + 2 ^ 51 * f1 + 2 ^ 102 * f2 + 2 ^ 153 * f3 + 2 ^ 204 * f4 ∧
      f0 + 2 ^ 51 * f1 + 2 ^ 102 * f2 + 2 ^ 153 * f3 + 2 ^ 204 * f4 < 2 ^ 255 := by omega
  obtain ⟨hv, hv0, hvp⟩ := fiat_canon_abs _ _ _ c (t4 / 2 ^ 51) hA hL hF bc hsub hadd
  refine ⟨packFiat51_bytes f0 f1 f2 f3 f4 bf0 bf1 bf2 bf3 bf4, ?_⟩
  rw [packFiat51_val f0 f1 f2 f3 f4 bf0 bf1 bf2 bf3 bf4]
  simp only [rep51, List.getD_cons_zero, List.getD_cons_succ]
  exact mod_abs _ _ (1 - c) hv ⟨hv0, hvp⟩

/-- the same for the generated normal form: every output is a byte -/
theorem as_bytes_fn_bytes (a0 a1 a2 a3 a4 : Int)
    (b0 : 0 ≤ a0 ∧ a0 ≤ 2 ^ 51) (b1 : 0 ≤ a1 ∧ a1 ≤ 2 ^ 51) (b2 : 0 ≤ a2 ∧ a2 ≤ 2 ^ 51) (b3 : 0 ≤ a3 ∧ a3 ≤ 2 ^ 51)
    (b4 : 0 ≤ a4 ∧ a4 ≤ 2 ^ 51) :
    ∀ b ∈ as_bytes_fn a0 a1 a2 a3 a4, 0 ≤ b ∧ b ≤ 255 := by
  rw [as_bytes_fn_eq_model]
  exact (asBytesFiat51_val a0 a1 a2 a3 a4 b0 b1 b2 b3 b4).1

/-- ... and their little-endian value is the value of the limbs reduced mod `p` -/
theorem as_bytes_fn_val (a0 a1 a2 a3 a4 : Int)
    (b0 : 0 ≤ a0 ∧ a0 ≤ 2 ^ 51) (b1 : 0 ≤ a1 ∧ a1 ≤ 2 ^ 51) (b2 : 0 ≤ a2 ∧ a2 ≤ 2 ^ 51) (b3 : 0 ≤ a3 ∧ a3 ≤ 2 ^ 51)
    (b4 : 0 ≤ a4 ∧ a4 ≤ 2 ^ 51) :
    leValZ (as_bytes_fn a0 a1 a2 a3 a4) = rep51 [a0, a1, a2, a3, a4] % (2 ^ 255 - 19) := by
  rw [as_bytes_fn_eq_model]
  exact (asBytesFiat51_val a0 a1 a2 a3 a4 b0 b1 b2 b3 b4).2

end Dalek.Proofs.FiatBytes51

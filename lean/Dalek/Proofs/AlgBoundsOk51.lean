import Dalek.Proofs.AlgBoundsInv
/-!
# C11, formula level: kernel evaluations of the abstract interpretation (serial u64 backend)

One `decide +kernel` per translated formula: the abstract run of the formula from the type invariants of its inputs
(every abstract field operation being the verified analysis of the regenerated limb kernel) proves every statement
safe and every output inside the type invariant of its type.  Helper of `Dalek/Props/C11/Formulas.lean`.
-/
namespace Dalek.Props.C11.Formulas
open Dalek.Model.AlgBounds

theorem Curve_ProjectivePoint_identity_ok51 : (sig_Curve_ProjectivePoint_identity I51).ok B51 = true := by decide +kernel
theorem Curve_ProjectiveNielsPoint_identity_ok51 : (sig_Curve_ProjectiveNielsPoint_identity I51).ok B51 = true := by decide +kernel
theorem Curve_AffineNielsPoint_identity_ok51 : (sig_Curve_AffineNielsPoint_identity I51).ok B51 = true := by decide +kernel
theorem Curve_ProjectivePoint_is_valid_ok51 : (sig_Curve_ProjectivePoint_is_valid I51).ok B51 = true := by decide +kernel
theorem Curve_ProjectiveNielsPoint_conditional_select_ok51 : (sig_Curve_ProjectiveNielsPoint_conditional_select I51).ok B51 = true := by decide +kernel
theorem Curve_ProjectiveNielsPoint_conditional_assign_ok51 : (sig_Curve_ProjectiveNielsPoint_conditional_assign I51).ok B51 = true := by decide +kernel
theorem Curve_AffineNielsPoint_conditional_select_ok51 : (sig_Curve_AffineNielsPoint_conditional_select I51).ok B51 = true := by decide +kernel
theorem Curve_AffineNielsPoint_conditional_assign_ok51 : (sig_Curve_AffineNielsPoint_conditional_assign I51).ok B51 = true := by decide +kernel
theorem Curve_ProjectivePoint_as_extended_ok51 : (sig_Curve_ProjectivePoint_as_extended I51).ok B51 = true := by decide +kernel
theorem Curve_CompletedPoint_as_projective_ok51 : (sig_Curve_CompletedPoint_as_projective I51).ok B51 = true := by decide +kernel
theorem Curve_CompletedPoint_as_extended_ok51 : (sig_Curve_CompletedPoint_as_extended I51).ok B51 = true := by decide +kernel
theorem Curve_ProjectivePoint_double_ok51 : (sig_Curve_ProjectivePoint_double I51).ok B51 = true := by decide +kernel
theorem Curve_add_ProjectiveNielsPoint_ok51 : (sig_Curve_add_ProjectiveNielsPoint I51).ok B51 = true := by decide +kernel
theorem Curve_sub_ProjectiveNielsPoint_ok51 : (sig_Curve_sub_ProjectiveNielsPoint I51).ok B51 = true := by decide +kernel
theorem Curve_add_AffineNielsPoint_ok51 : (sig_Curve_add_AffineNielsPoint I51).ok B51 = true := by decide +kernel
theorem Curve_sub_AffineNielsPoint_ok51 : (sig_Curve_sub_AffineNielsPoint I51).ok B51 = true := by decide +kernel
theorem Curve_ProjectiveNielsPoint_neg_ok51 : (sig_Curve_ProjectiveNielsPoint_neg I51).ok B51 = true := by decide +kernel
theorem Curve_AffineNielsPoint_neg_ok51 : (sig_Curve_AffineNielsPoint_neg I51).ok B51 = true := by decide +kernel
theorem Edwards_decompress_step_1_ok51 : (sig_Edwards_decompress_step_1 I51).ok B51 = true := by decide +kernel
theorem Edwards_decompress_step_2_ok51 : (sig_Edwards_decompress_step_2 I51).ok B51 = true := by decide +kernel
theorem Edwards_compress_ok51 : (sig_Edwards_compress I51).ok B51 = true := by decide +kernel
theorem Edwards_to_montgomery_ok51 : (sig_Edwards_to_montgomery I51).ok B51 = true := by decide +kernel
theorem Edwards_as_projective_niels_ok51 : (sig_Edwards_as_projective_niels I51).ok B51 = true := by decide +kernel
theorem Edwards_as_projective_ok51 : (sig_Edwards_as_projective I51).ok B51 = true := by decide +kernel
theorem Edwards_as_affine_niels_ok51 : (sig_Edwards_as_affine_niels I51).ok B51 = true := by decide +kernel
theorem Edwards_identity_ok51 : (sig_Edwards_identity I51).ok B51 = true := by decide +kernel
theorem Edwards_ct_eq_ok51 : (sig_Edwards_ct_eq I51).ok B51 = true := by decide +kernel
theorem Edwards_conditional_select_ok51 : (sig_Edwards_conditional_select I51).ok B51 = true := by decide +kernel
theorem Edwards_neg_ok51 : (sig_Edwards_neg I51).ok B51 = true := by decide +kernel
theorem Edwards_double_ok51 : (sig_Edwards_double I51).ok B51 = true := by decide +kernel
theorem Edwards_add_ok51 : (sig_Edwards_add I51).ok B51 = true := by decide +kernel
theorem Edwards_sub_ok51 : (sig_Edwards_sub I51).ok B51 = true := by decide +kernel
theorem Edwards_is_valid_ok51 : (sig_Edwards_is_valid I51).ok B51 = true := by decide +kernel
theorem Montgomery_differential_add_and_double_ok51 : (sig_Montgomery_differential_add_and_double I51).ok B51 = true := by decide +kernel
theorem Montgomery_ProjectivePoint_identity_ok51 : (sig_Montgomery_ProjectivePoint_identity I51).ok B51 = true := by decide +kernel
theorem Montgomery_ProjectivePoint_conditional_select_ok51 : (sig_Montgomery_ProjectivePoint_conditional_select I51).ok B51 = true := by decide +kernel
theorem Montgomery_ProjectivePoint_as_affine_ok51 : (sig_Montgomery_ProjectivePoint_as_affine I51).ok B51 = true := by decide +kernel
theorem Montgomery_to_edwards_ok51 : (sig_Montgomery_to_edwards I51).ok B51 = true := by decide +kernel
theorem Montgomery_elligator_encode_ok51 : (sig_Montgomery_elligator_encode I51).ok B51 = true := by decide +kernel
theorem Montgomery_ct_eq_ok51 : (sig_Montgomery_ct_eq I51).ok B51 = true := by decide +kernel
theorem Ristretto_decompress_step_2_ok51 : (sig_Ristretto_decompress_step_2 I51).ok B51 = true := by decide +kernel
theorem Ristretto_compress_ok51 : (sig_Ristretto_compress I51).ok B51 = true := by decide +kernel
theorem Ristretto_elligator_ristretto_flavor_ok51 : (sig_Ristretto_elligator_ristretto_flavor I51).ok B51 = true := by decide +kernel
theorem Ristretto_ct_eq_ok51 : (sig_Ristretto_ct_eq I51).ok B51 = true := by decide +kernel
theorem Ristretto_batch_state_from_ok51 : (sig_Ristretto_batch_state_from I51).ok B51 = true := by decide +kernel
theorem Ristretto_batch_compress_closure_ok51 : (sig_Ristretto_batch_compress_closure I51).ok B51 = true := by decide +kernel
theorem Field_pow22501_ok51 : (sig_Field_pow22501 I51).ok B51 = true := by decide +kernel
theorem Field_pow_p58_ok51 : (sig_Field_pow_p58 I51).ok B51 = true := by decide +kernel
theorem Field_invert_ok51 : (sig_Field_invert I51).ok B51 = true := by decide +kernel
theorem Field_sqrt_ratio_i_ok51 : (sig_Field_sqrt_ratio_i I51).ok B51 = true := by decide +kernel
theorem Field_invsqrt_ok51 : (sig_Field_invsqrt I51).ok B51 = true := by decide +kernel

end Dalek.Props.C11.Formulas

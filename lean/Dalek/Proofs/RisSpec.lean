/-
The executable specification `Dalek.Spec.Ristretto` (RFC 9496 §4.3 over canonical naturals) and the hand model
`Dalek.Model.RistrettoDalek` (translated formulas run by `natOps`) compute the same field functions
(`Proofs/RisFormulas.lean`): casts of the specification's intermediate values, and the transfer of a `natOps`
run on canonical inputs to the `Fp` run.
-/
import Dalek.Proofs.RisFormulas
import Dalek.Proofs.SpecBridge
import Dalek.Model.RistrettoDalek
import Dalek.Spec.Ristretto

namespace Dalek.Proofs.Ris

open Dalek.IR Dalek.Spec Dalek.Gen Dalek.Proofs Dalek.Model
open Dalek.FieldFacts (d sqrtM1)

/-! ## Generic transfer lemmas -/

theorem listRel_cast : ∀ (ns : List Nat), (∀ n ∈ ns, n < P) → ListRel CanonRep ns (ns.map (Nat.cast : Nat → Fp))
  | [], _ => .nil
  | n :: ns, h => .cons ⟨h n (List.mem_cons_self ..), rfl⟩
      (listRel_cast ns fun m hm => h m (List.mem_cons_of_mem _ hm))

/-- a translated program run over canonical naturals returns the canonical representatives of its `Fp` run -/
theorem run_nat_eq (p : AProg) (ns : List Nat) (h : ∀ n ∈ ns, n < P) :
    p.run natOps ns = (p.run zmodOps (ns.map (Nat.cast : Nat → Fp))).map ZMod.val :=
  ListRel.canonRep_eq (run_natOps_rel p (listRel_cast ns h))

theorem val_eq_of_cast {n : Nat} {z : Fp} (hn : n < P) (h : ((n : Nat) : Fp) = z) : z.val = n := by
  rw [← h, Bridge.val_cast, Nat.mod_eq_of_lt hn]

theorem val_c2f_eq_zero {p : Prop} [Decidable p] : (c2f p).val = 0 ↔ ¬ p := by
  rw [ZMod.val_eq_zero]; exact c2f_eq_zero_iff

theorem val_c2f_ne_zero {p : Prop} [Decidable p] : (c2f p).val ≠ 0 ↔ p := by
  rw [Ne, val_c2f_eq_zero, not_not]

/-- `isNeg` on naturals is `fpIsNeg` of the cast (as an equation, for `simp`) -/
theorem isNeg_eq_fp (n : Nat) : (isNeg n = true) = fpIsNeg ((n : Nat) : Fp) :=
  propext (Bridge.isNeg_iff_val n)

theorem cast_fabs_fp (n : Nat) : ((fabs n : Nat) : Fp) = fpAbs ((n : Nat) : Fp) := cast_fabs_ite n

/-- `sqrtRatioFp` on casts is the executable `sqrtRatioM1` -/
theorem sqrtRatioFp_cast (a b : Nat) :
    sqrtRatioFp ((a : Nat) : Fp) ((b : Nat) : Fp) =
      (c2f ((sqrtRatioM1 a b).1 = true), (((sqrtRatioM1 a b).2 : Nat) : Fp)) := by
  rw [sqrtRatioFp_eq_spec, Bridge.val_cast, Bridge.val_cast, Bridge.sqrtRatioM1_mod]

theorem cast_sqrtRatioM1_snd (a b : Nat) :
    (((sqrtRatioM1 a b).2 : Nat) : Fp) = (sqrtRatioFp ((a : Nat) : Fp) ((b : Nat) : Fp)).2 := by
  rw [sqrtRatioFp_cast]

theorem sqrtRatioM1_fst_iff (a b : Nat) :
    (sqrtRatioM1 a b).1 = true ↔ (sqrtRatioFp ((a : Nat) : Fp) ((b : Nat) : Fp)).1 ≠ 0 := by
  rw [sqrtRatioFp_cast]; dsimp only; rw [c2f_ne_zero_iff]

theorem cast_two : (((2 : Nat) : Nat) : Fp) = 2 := Nat.cast_ofNat

/-! ## The constants of `Spec.Ristretto` are the entries of the regenerated table -/

theorem INVSQRT_A_MINUS_D_eq : Ristretto.INVSQRT_A_MINUS_D = algConstTable.getD 9 0 := by decide +kernel
theorem SQRT_AD_MINUS_ONE_eq : Ristretto.SQRT_AD_MINUS_ONE = algConstTable.getD 8 0 := by decide +kernel
theorem ONE_MINUS_D_SQ_eq : Ristretto.ONE_MINUS_D_SQ = algConstTable.getD 6 0 := by decide +kernel
theorem D_MINUS_ONE_SQ_eq : Ristretto.D_MINUS_ONE_SQ = algConstTable.getD 7 0 := by decide +kernel

theorem cast_INVSQRT_A_MINUS_D : ((Ristretto.INVSQRT_A_MINUS_D : Nat) : Fp) = invSqrtAmD := by
  rw [INVSQRT_A_MINUS_D_eq]; rfl
theorem cast_SQRT_AD_MINUS_ONE : ((Ristretto.SQRT_AD_MINUS_ONE : Nat) : Fp) = sqrtADm1 := by
  rw [SQRT_AD_MINUS_ONE_eq]; rfl
theorem cast_ONE_MINUS_D_SQ : ((Ristretto.ONE_MINUS_D_SQ : Nat) : Fp) = zmodOps.const 6 := by
  rw [ONE_MINUS_D_SQ_eq]; rfl
theorem cast_D_MINUS_ONE_SQ : ((Ristretto.D_MINUS_ONE_SQ : Nat) : Fp) = zmodOps.const 7 := by
  rw [D_MINUS_ONE_SQ_eq]; rfl

/-! ## DECODE -/

/-- the values computed by `Spec.Ristretto.decode` after the three checks on `s` -/
def sDecW (s : Nat) : Nat :=
  fmul (fsub (fneg (fmul D (fsq (fsub 1 (fsq s))))) (fsq (fadd 1 (fsq s)))) (fsq (fadd 1 (fsq s)))
def sDecDenX (s : Nat) : Nat := fmul (sqrtRatioM1 1 (sDecW s)).2 (fadd 1 (fsq s))
def sDecX (s : Nat) : Nat := fabs (fmul (fmul 2 s) (sDecDenX s))
def sDecY (s : Nat) : Nat :=
  fmul (fsub 1 (fsq s)) (fmul (fmul (sqrtRatioM1 1 (sDecW s)).2 (sDecDenX s))
    (fsub (fneg (fmul D (fsq (fsub 1 (fsq s))))) (fsq (fadd 1 (fsq s)))))

/-- `Spec.Ristretto.decode`, with its intermediate values named -/
theorem decode_unfold (b : List UInt8) :
    Ristretto.decode b =
      if b.length != 32 || leToNat b ≥ P || isNeg (leToNat b) then none
      else if !(sqrtRatioM1 1 (sDecW (leToNat b))).1 || isNeg (fmul (sDecX (leToNat b)) (sDecY (leToNat b)))
          || sDecY (leToNat b) == 0 then none
        else some ⟨sDecX (leToNat b), sDecY (leToNat b)⟩ := by
  kernel_rfl

theorem cast_sDecW (s : Nat) : ((sDecW s : Nat) : Fp) = decV s * (1 + (s : Fp) ^ 2) ^ 2 := by
  unfold sDecW decV
  simp only [Bridge.cast_fmul, Bridge.cast_fsub, Bridge.cast_fneg, Bridge.cast_fadd, Bridge.cast_fsq,
    Bridge.cast_D, Nat.cast_one]
  ring

theorem decI_cast (s : Nat) : decI (s : Fp) = sqrtRatioFp ((1 : Nat) : Fp) ((sDecW s : Nat) : Fp) := by
  unfold decI; rw [cast_sDecW, Nat.cast_one]

theorem decI_fst_eq_one {s : Nat} (h : (sqrtRatioM1 1 (sDecW s)).1 = true) : (decI ((s : Nat) : Fp)).1 = 1 := by
  rw [decI_cast, sqrtRatioFp_cast]; dsimp only; exact c2f_true h

theorem cast_sDecX (s : Nat) : ((sDecX s : Nat) : Fp) = decX s := by
  unfold sDecX sDecDenX decX
  rw [decI_cast]
  simp only [cast_fabs_fp, Bridge.cast_fmul, Bridge.cast_fadd, Bridge.cast_fsq, cast_sqrtRatioM1_snd,
    Nat.cast_one, cast_two]
  congr 1; ring

theorem cast_sDecY (s : Nat) : ((sDecY s : Nat) : Fp) = decY s := by
  unfold sDecY sDecDenX decY
  rw [decI_cast]
  simp only [Bridge.cast_fmul, Bridge.cast_fadd, Bridge.cast_fsub, Bridge.cast_fneg, Bridge.cast_fsq,
    cast_sqrtRatioM1_snd, Bridge.cast_D, Nat.cast_one, decV]
  ring

theorem sDecX_lt (s : Nat) : sDecX s < P := Bridge.fabs_lt _
theorem sDecY_lt (s : Nat) : sDecY s < P := Bridge.fmul_lt _ _

/-- the radicand `v u2²` (`u1 = 1 − s²`, `u2 = 1 + s²`, `v = −d u1² − u2²`) whose inverse square root DECODE takes -/
noncomputable def radicand (s : Fp) : Fp := decV s * (1 + s ^ 2) ^ 2

theorem wasSquare_iff (s : Nat) :
    (sqrtRatioM1 1 (sDecW s)).1 = true ↔ (radicand (s : Fp) ≠ 0 ∧ IsSquare (radicand (s : Fp))) := by
  rw [Bridge.sqrtRatioM1_ok_iff, cast_sDecW, Nat.cast_one, one_div, isSquare_inv]
  constructor
  · rintro (h | h)
    · exact absurd h one_ne_zero
    · exact h
  · exact Or.inr

/-- the value DECODE returns when it accepts -/
theorem decode_eq_some {b : List UInt8} {p : Pt} (h : Ristretto.decode b = some p) :
    p = ⟨sDecX (leToNat b), sDecY (leToNat b)⟩ := by
  rw [decode_unfold] at h
  split at h
  · cases h
  split at h
  · cases h
  · exact (Option.some.inj h).symm

/-! ## ENCODE -/

/-- the field element `s` computed by `Spec.Ristretto.encodeExt` before `feToBytes` -/
def sEncS (x0 y0 z0 t0 : Nat) : Nat :=
  let u1 := fmul (fadd z0 y0) (fsub z0 y0)
  let u2 := fmul x0 y0
  let invsqrt := (sqrtRatioM1 1 (fmul u1 (fsq u2))).2
  let den1 := fmul invsqrt u1
  let den2 := fmul invsqrt u2
  let zInv := fmul (fmul den1 den2) t0
  let ix0 := fmul x0 SQRT_M1
  let iy0 := fmul y0 SQRT_M1
  let enchantedDenominator := fmul den1 Ristretto.INVSQRT_A_MINUS_D
  let rotate := isNeg (fmul t0 zInv)
  let x := if rotate then iy0 else x0 % P
  let y := if rotate then ix0 else y0 % P
  let denInv := if rotate then enchantedDenominator else den2
  let y := if isNeg (fmul x zInv) then fneg y else y
  fabs (fmul denInv (fsub z0 y))

theorem encodeExt_unfold (x0 y0 z0 t0 : Nat) :
    Ristretto.encodeExt x0 y0 z0 t0 = feToBytes (sEncS x0 y0 z0 t0) := by kernel_rfl

theorem sEncS_lt (x0 y0 z0 t0 : Nat) : sEncS x0 y0 z0 t0 < P := Bridge.fabs_lt _

theorem cast_sEncS (x0 y0 z0 t0 : Nat) :
    ((sEncS x0 y0 z0 t0 : Nat) : Fp) = encS (x0 : Fp) (y0 : Fp) (z0 : Fp) (t0 : Fp) := by
  have hI : ∀ w : Nat, (((sqrtRatioM1 1 w).2 : Nat) : Fp) = (sqrtRatioFp 1 (w : Fp)).2 := by
    intro w; rw [cast_sqrtRatioM1_snd, Nat.cast_one]
  unfold sEncS encS encY encDen encY0 encX encRot encZinv encI
  simp only [cast_fabs_fp, Bridge.cast_fmul, Bridge.cast_fadd, Bridge.cast_fsub, Bridge.cast_fneg,
    Bridge.cast_fsq, Bridge.cast_mod_P, hI, apply_ite (Nat.cast : Nat → Fp), isNeg_eq_fp,
    Bridge.cast_SQRT_M1, cast_INVSQRT_A_MINUS_D]

/-! ## EQUALS -/

theorem equals_iff (p q : Pt) :
    Ristretto.equals p q = true ↔
      ((p.x : Fp) * (q.y : Fp) = (p.y : Fp) * (q.x : Fp) ∨ (p.x : Fp) * (q.x : Fp) = (p.y : Fp) * (q.y : Fp)) := by
  unfold Ristretto.equals
  rw [Bool.or_eq_true, Bridge.beq_iff_cast (Bridge.fmul_lt _ _) (Bridge.fmul_lt _ _),
    Bridge.beq_iff_cast (Bridge.fmul_lt _ _) (Bridge.fmul_lt _ _)]
  simp only [Bridge.cast_fmul]
  constructor
  · rintro (h | h)
    · exact Or.inl h
    · exact Or.inr h.symm
  · rintro (h | h)
    · exact Or.inl h
    · exact Or.inr h.symm

/-! ## MAP -/

/-- `s` of `Spec.Ristretto.mapExt` after the two conditional assignments, and `c` -/
def sMapR (t : Nat) : Nat := fmul SQRT_M1 (fsq t)
def sMapU (t : Nat) : Nat := fmul (fadd (sMapR t) 1) Ristretto.ONE_MINUS_D_SQ
def sMapV (t : Nat) : Nat := fmul (fsub (fneg 1) (fmul (sMapR t) D)) (fadd (sMapR t) D)
def sMapS (t : Nat) : Nat :=
  if (sqrtRatioM1 (sMapU t) (sMapV t)).1 then (sqrtRatioM1 (sMapU t) (sMapV t)).2
  else fneg (fabs (fmul (sqrtRatioM1 (sMapU t) (sMapV t)).2 t))
def sMapC (t : Nat) : Nat := if (sqrtRatioM1 (sMapU t) (sMapV t)).1 then fneg 1 else sMapR t
def sMapN (t : Nat) : Nat :=
  fsub (fmul (fmul (sMapC t) (fsub (sMapR t) 1)) Ristretto.D_MINUS_ONE_SQ) (sMapV t)

theorem mapExt_unfold (t : Nat) :
    Ristretto.mapExt t =
      (fmul (fmul (fmul 2 (sMapS t)) (sMapV t)) (fadd 1 (fsq (sMapS t))),
       fmul (fsub 1 (fsq (sMapS t))) (fmul (sMapN t) Ristretto.SQRT_AD_MINUS_ONE),
       fmul (fmul (sMapN t) Ristretto.SQRT_AD_MINUS_ONE) (fadd 1 (fsq (sMapS t))),
       fmul (fmul (fmul 2 (sMapS t)) (sMapV t)) (fsub 1 (fsq (sMapS t)))) := by kernel_rfl

theorem cast_sMapR (t : Nat) : ((sMapR t : Nat) : Fp) = mapR t := by
  unfold sMapR mapR; rw [Bridge.cast_fmul, Bridge.cast_fsq, Bridge.cast_SQRT_M1]

theorem cast_sMapU (t : Nat) : ((sMapU t : Nat) : Fp) = mapU t := by
  unfold sMapU mapU
  rw [Bridge.cast_fmul, Bridge.cast_fadd, cast_sMapR, Nat.cast_one, cast_ONE_MINUS_D_SQ]

theorem cast_sMapV (t : Nat) : ((sMapV t : Nat) : Fp) = mapV t := by
  unfold sMapV mapV
  simp only [Bridge.cast_fmul, Bridge.cast_fadd, Bridge.cast_fsub, Bridge.cast_fneg, cast_sMapR,
    Nat.cast_one, Bridge.cast_D]
  ring

theorem mapSq_cast (t : Nat) :
    mapSq (t : Fp) = (c2f ((sqrtRatioM1 (sMapU t) (sMapV t)).1 = true),
      (((sqrtRatioM1 (sMapU t) (sMapV t)).2 : Nat) : Fp)) := by
  unfold mapSq; rw [← cast_sMapU, ← cast_sMapV, sqrtRatioFp_cast]

theorem cast_sMapS (t : Nat) : ((sMapS t : Nat) : Fp) = mapS t := by
  unfold sMapS mapS
  rw [mapSq_cast]
  by_cases h : (sqrtRatioM1 (sMapU t) (sMapV t)).1 = true
  · rw [if_pos h, if_pos (c2f_ne_zero_iff.2 h)]
  · rw [if_neg h, if_neg (fun h' => h (c2f_ne_zero_iff.1 h')), fpNegAbs_eq, Bridge.cast_fneg, cast_fabs_fp,
      Bridge.cast_fmul]

theorem cast_sMapC (t : Nat) : ((sMapC t : Nat) : Fp) = mapC t := by
  unfold sMapC mapC
  rw [mapSq_cast]
  by_cases h : (sqrtRatioM1 (sMapU t) (sMapV t)).1 = true
  · rw [if_pos h, if_pos (c2f_ne_zero_iff.2 h), Bridge.cast_fneg, Nat.cast_one]
  · rw [if_neg h, if_neg (fun h' => h (c2f_ne_zero_iff.1 h')), cast_sMapR]

theorem cast_sMapN (t : Nat) : ((sMapN t : Nat) : Fp) = mapN t := by
  unfold sMapN mapN
  simp only [Bridge.cast_fmul, Bridge.cast_fsub, cast_sMapC, cast_sMapR, cast_sMapV, Nat.cast_one,
    cast_D_MINUS_ONE_SQ]

theorem sMapS_lt (t : Nat) : sMapS t < P := by
  unfold sMapS; split
  · exact Bridge.sqrtRatioM1_lt _ _
  · exact Bridge.fneg_lt _

/-! ## The hand model `Dalek.Model.RistrettoDalek` on canonical inputs -/

theorem val_c2f (t : Bool) {p : Prop} [Decidable p] (h : t = true ↔ p) : (c2f p).val = b2n t := by
  cases t
  · rw [c2f_false (fun hp => Bool.false_ne_true (h.2 hp))]; exact ZMod.val_zero
  · rw [c2f_true (h.1 rfl)]; exact ZMod.val_one _

theorem feFromBytes_of_lt {b : List UInt8} (h : leToNat b < P) : feFromBytes b = leToNat b := by
  have := Bridge.P_lt_255
  unfold feFromBytes
  rw [Nat.mod_eq_of_lt (by omega : leToNat b < 2 ^ 255), Nat.mod_eq_of_lt h]

/-- `step_1`'s canonicity test (`s.as_bytes() == bytes`) holds exactly when the 256-bit integer is `< p`. -/
theorem canonical_iff {b : List UInt8} (hlen : b.length = 32) :
    (feToBytes (feFromBytes b) == b) = true ↔ leToNat b < P := by
  rw [beq_iff_eq]
  constructor
  · intro h; rw [← h]; exact Bridge.leToNat_feToBytes_lt _
  · exact Bridge.feToBytes_feFromBytes hlen

/-- `decompress::step_2` run by the model on a canonical `s`, in terms of the values of `Spec.Ristretto.decode`. -/
theorem step2_eq {s : Nat} (hs : s < P) :
    RistrettoDalek.step2 s =
      [b2n (sqrtRatioM1 1 (sDecW s)).1, b2n (isNeg (fmul (sDecX s) (sDecY s))), b2n (sDecY s == 0),
        sDecX s, sDecY s, 1, fmul (sDecX s) (sDecY s)] := by
  have hT : ((fmul (sDecX s) (sDecY s) : Nat) : Fp) = decT s := by
    rw [Bridge.cast_fmul, cast_sDecX, cast_sDecY]; rfl
  unfold RistrettoDalek.step2
  rw [run_nat_eq _ _ (by simpa using hs)]
  simp only [List.map_cons, List.map_nil]
  rw [AlgRistretto.decompress_step_2_sh_ok, decompress_step_2_sh_eq]
  simp only [List.map_cons, List.map_nil]
  rw [val_eq_of_cast (sDecX_lt s) (cast_sDecX s), val_eq_of_cast (sDecY_lt s) (cast_sDecY s),
    val_eq_of_cast (Bridge.fmul_lt _ _) hT, ZMod.val_one,
    val_c2f (isNeg (fmul (sDecX s) (sDecY s))) (by rw [← hT]; exact Bridge.isNeg_iff_val _),
    val_c2f (sDecY s == 0) (by rw [beq_iff_eq, ← cast_sDecY, Bridge.cast_eq_zero_of_lt (sDecY_lt s)])]
  have h1 : ((decI (s : Fp)).1).val = b2n (sqrtRatioM1 1 (sDecW s)).1 := by
    rw [decI_cast, sqrtRatioFp_cast]; dsimp only
    exact val_c2f _ Iff.rfl
  rw [h1]

/-- `compress` (field part) run by the model on canonical coordinates is the `s` of `Spec.Ristretto.encodeExt`. -/
theorem compressS_eq {X Y Z T : Nat} (hX : X < P) (hY : Y < P) (hZ : Z < P) (hT : T < P) :
    RistrettoDalek.compressS (X, Y, Z, T) = sEncS X Y Z T := by
  unfold RistrettoDalek.compressS
  rw [run_nat_eq _ _ (by simp [hX, hY, hZ, hT])]
  simp only [List.map_cons, List.map_nil]
  rw [AlgRistretto.compress_sh_ok, compress_sh_eq]
  simp only [List.map_cons, List.map_nil, List.getD_cons_zero]
  exact val_eq_of_cast (sEncS_lt ..) (cast_sEncS ..)

/-- `ct_eq` run by the model on canonical coordinates is `Spec.Ristretto.equals`. -/
theorem ctEq_eq {X1 Y1 Z1 T1 X2 Y2 Z2 T2 : Nat} (h1 : X1 < P ∧ Y1 < P ∧ Z1 < P ∧ T1 < P)
    (h2 : X2 < P ∧ Y2 < P ∧ Z2 < P ∧ T2 < P) :
    RistrettoDalek.ctEq (X1, Y1, Z1, T1) (X2, Y2, Z2, T2) = Ristretto.equals ⟨X1, Y1⟩ ⟨X2, Y2⟩ := by
  unfold RistrettoDalek.ctEq
  rw [run_nat_eq _ _ (by simp [h1.1, h1.2.1, h1.2.2.1, h1.2.2.2, h2.1, h2.2.1, h2.2.2.1, h2.2.2.2])]
  simp only [List.map_cons, List.map_nil]
  rw [AlgRistretto.ct_eq_sh_ok, ct_eq_sh_eq]
  simp only [List.map_cons, List.map_nil, List.getD_cons_zero]
  rw [Bool.eq_iff_iff, bne_iff_ne, val_c2f_ne_zero, equals_iff]

/-- `elligator_ristretto_flavor` run by the model on a canonical `r_0` is `Spec.Ristretto.mapExt`. -/
theorem elligator_eq {t : Nat} (ht : t < P) : RistrettoDalek.elligator t = Ristretto.mapExt t := by
  unfold RistrettoDalek.elligator
  rw [run_nat_eq _ _ (by simpa using ht)]
  simp only [List.map_cons, List.map_nil]
  rw [AlgRistretto.elligator_ristretto_flavor_sh_ok, elligator_sh_eq, mapExt_unfold]
  have hW0 : ((fmul (fmul 2 (sMapS t)) (sMapV t) : Nat) : Fp) = mapW0 t := by
    unfold mapW0
    rw [Bridge.cast_fmul, Bridge.cast_fmul, cast_sMapS, cast_sMapV, cast_two]; ring
  have hW1 : ((fmul (sMapN t) Ristretto.SQRT_AD_MINUS_ONE : Nat) : Fp) = mapW1 t := by
    unfold mapW1; rw [Bridge.cast_fmul, cast_sMapN, cast_SQRT_AD_MINUS_ONE]
  have hW2 : ((fsub 1 (fsq (sMapS t)) : Nat) : Fp) = mapW2 t := by
    unfold mapW2; rw [Bridge.cast_fsub, Bridge.cast_fsq, cast_sMapS, Nat.cast_one]
  have hW3 : ((fadd 1 (fsq (sMapS t)) : Nat) : Fp) = mapW3 t := by
    unfold mapW3; rw [Bridge.cast_fadd, Bridge.cast_fsq, cast_sMapS, Nat.cast_one]
  simp only [List.map_cons, List.map_nil, RistrettoDalek.toRPt, List.getD_cons_zero, List.getD_cons_succ]
  have e1 : (mapW0 (t : Fp) * mapW3 t).val = fmul (fmul (fmul 2 (sMapS t)) (sMapV t)) (fadd 1 (fsq (sMapS t))) :=
    val_eq_of_cast (Bridge.fmul_lt _ _) (by rw [Bridge.cast_fmul, hW0, hW3])
  have e2 : (mapW2 (t : Fp) * mapW1 t).val =
      fmul (fsub 1 (fsq (sMapS t))) (fmul (sMapN t) Ristretto.SQRT_AD_MINUS_ONE) :=
    val_eq_of_cast (Bridge.fmul_lt _ _) (by rw [Bridge.cast_fmul, hW2, hW1])
  have e3 : (mapW1 (t : Fp) * mapW3 t).val =
      fmul (fmul (sMapN t) Ristretto.SQRT_AD_MINUS_ONE) (fadd 1 (fsq (sMapS t))) :=
    val_eq_of_cast (Bridge.fmul_lt _ _) (by rw [Bridge.cast_fmul, hW1, hW3])
  have e4 : (mapW0 (t : Fp) * mapW2 t).val = fmul (fmul (fmul 2 (sMapS t)) (sMapV t)) (fsub 1 (fsq (sMapS t))) :=
    val_eq_of_cast (Bridge.fmul_lt _ _) (by rw [Bridge.cast_fmul, hW0, hW2])
  rw [e1, e2, e3, e4]

end Dalek.Proofs.Ris
